#!/usr/bin/env python3
"""Regenerates MANIFEST.json from tools/props.py + tools/manifest_meta.json."""
import json, os, sys
ROOT = os.path.dirname(os.path.dirname(os.path.abspath(__file__)))
sys.path.insert(0, os.path.join(ROOT, "tools"))
from props import PROPS
meta = json.load(open(os.path.join(ROOT, "tools", "manifest_meta.json")))
allids = [json.loads(l)["id"] for l in open(os.path.join(ROOT, "properties.jsonl"))]
checks = []
for pid in allids:
    if pid not in PROPS or pid not in meta["claimed"]:
        continue
    cfg, m = PROPS[pid], meta["claimed"][pid]
    checks.append(dict(
        property_id=pid,
        quick_cmd="./check %s --tier quick" % pid,
        thorough_cmd="./check %s --tier thorough" % pid,
        evidence_file="evidence/%s.json" % pid,
        replay_cmd_template="./check %s --replay {path}" % pid,
        engine="coq+harness",
        level_claimed=dict(category="proof", text=m["text"], design_ref=m.get("design_ref", "DESIGN.md section 6, " + pid)),
        level_note=m["note"],
        technique=m.get("technique", "Coq theorems over a hand-written Gallina model + differential correspondence check (vm_compute) against the Go code"),
    ))
na = [dict(property_id=p, reason=meta["not_applicable"].get(p, "check not built yet in this session; planned per DESIGN.md section 6")) for p in allids if p not in {c["property_id"] for c in checks}]
man = dict(
    version=1,
    setup_cmd="./setup.sh",
    hooks=dict(guard="verif", enable="go build -tags verif (harness module replaces github.com/atlassian/gostatsd => /repo)",
               baseline_off_cmd=meta["baseline_off_cmd"], source_commits=meta["hook_commits"], add_only=True),
    engines=[dict(name="coq+harness", path="check", serves_properties=[c["property_id"] for c in checks],
                  kind_free_text="Coq 8.16.1 development (coq/, logical root GS) + Go correspondence harness (harness/) + python driver (check)")],
    checks=checks,
    notes=meta["notes"],
    not_applicable=na,
)
json.dump(man, open(os.path.join(ROOT, "MANIFEST.json"), "w"), indent=1)
print("claimed:", [c["property_id"] for c in checks], "not claimed:", [n["property_id"] for n in na])
