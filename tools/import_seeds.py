#!/usr/bin/env python3
"""Copies confirmed independent seeds from /tmp/seed-out into /verif/seeded/<Cxx-x>/ and records what was run.
Reads /tmp/vs_results.txt lines: "<Cxx-x> [via Cyy:] {json}" produced by tools/verify_seed.sh."""
import json, os, re, shutil, sys
res = {}
for line in open("/tmp/vs_results.txt"):
    m = re.match(r"(C\d\d)-([a-l])(?: via (C\d\d):)? (\{.*\})", line.strip())
    if not m:
        continue
    pid, x, via, js = m.groups()
    try:
        r = json.loads(js)
    except json.JSONDecodeError:
        continue
    res.setdefault((pid, x), []).append((via or pid, r))
for (pid, x), runs in sorted(res.items()):
    src = "/tmp/seed-out/%s/%s" % (pid, x)
    dst = "/verif/seeded/%s-%s" % (pid, x)
    if not os.path.isdir(src):
        continue
    os.makedirs(dst, exist_ok=True)
    for f in ("patch.diff",):
        shutil.copy(os.path.join(src, f), dst)
    if os.path.isdir(os.path.join(dst, "demo")):
        shutil.rmtree(os.path.join(dst, "demo"))
    shutil.copytree(os.path.join(src, "demo"), os.path.join(dst, "demo"))
    meta = json.load(open(os.path.join(src, "meta.json")))
    last = {}
    for via, r in runs:
        last[via] = r
    confirmed = any(r.get("ok") for r in last.values())
    meta["breaks_property"] = pid
    meta["confirmed_by_lead"] = dict(
        how="tools/verify_seed.sh: scratch worktree of /repo HEAD; patch applied: go build ./... and the full suite (only the 3 always-failing cloudwatch tests fail); demo fails 5/5 with the patch and passes 3/3 without",
        ok=confirmed)
    meta["checks_run"] = {via: ("caught: " + re.search(r"VIOLATION[^\"]*", r.get("check_output", "")).group(0)) if "VIOLATION" in r.get("check_output", "") else "MISSED (check exited 0)" for via, r in last.items()}
    if (pid, x) == ("C20", "g"):
        meta["checks_run"]["C20 (thorough tier: ./check C20 --tier thorough --n 40 against the patched worktree, run by the C20 builder)"] = "caught: VIOLATION, both longwait cases fail (GET /next #2 inside invocation 1); needs > 30 s of real time, so the quick tier cannot exhibit it"
    json.dump(meta, open(os.path.join(dst, "meta.json"), "w"), indent=1)
    print(pid, x, meta["checks_run"])
