#!/usr/bin/env python3
"""Writes one prompt file per property for an INDEPENDENT seeding sub-agent (see DESIGN.md section 10.2).

  tools/seed_prompts.py OUTDIR LETTER1 LETTER2 ["extra guidance for this round"]

Each prompt contains only the property's record from properties.jsonl, the working rules, and one-paragraph
summaries of the seeds already in /verif/seeded/<id>-*/meta.json (so that they are not repeated) - nothing
else from /verif.  The agent works in its own scratch worktree /tmp/mut/<id> (create it with
`git -C /repo worktree add --detach /tmp/mut/<id> HEAD`) and delivers to /tmp/seed-out/<id>/<letter>/
{patch.diff, demo/, meta.json}; confirm each with tools/verify_seed.sh, import with tools/import_seeds.py,
refresh the table with tools/seeds_table.py.
"""
import glob, json, os, sys
ROOT = os.path.dirname(os.path.dirname(os.path.abspath(__file__)))
out, l1, l2 = sys.argv[1], sys.argv[2], sys.argv[3]
extra = sys.argv[4] if len(sys.argv) > 4 else ""
os.makedirs(out, exist_ok=True)
T = open(os.path.join(ROOT, "tools", "seed_prompt_template.txt")).read()
for line in open(os.path.join(ROOT, "properties.jsonl")):
    p = json.loads(line)
    pid = p["id"]
    q = {k: p[k] for k in ("id", "title", "statement", "quantifier", "why_tests_cant", "anchors") if k in p}
    prev = []
    for f in sorted(glob.glob(os.path.join(ROOT, "seeded", pid + "-?", "meta.json"))):
        prev.append("- " + " ".join(json.load(open(f)).get("summary", "").split())[:300])
    s = T % dict(id=pid, idl=pid.lower(), prop=json.dumps(q, indent=1), l1=l1, l2=l2, extra=extra,
                 prev="\n".join(prev) if prev else "(none yet)")
    open(os.path.join(out, pid + ".txt"), "w").write(s)
print("wrote", out)
