#!/bin/bash
# Confirms a seeded change:  tools/verify_seed.sh <dir with patch.diff, demo/, meta.json> [--check Cxx]
#   1. scratch worktree of /repo HEAD (outside /repo and /verif), demo copied in: demo passes
#   2. patch applied: builds, full suite gives the baseline result (only the 3 cloudwatch tests fail)
#   3. demo fails with the patch
#   4. optionally: ./check Cxx against the patched worktree must print a VIOLATION line
# Prints a JSON summary on stdout; removes the worktree and its build output.
set -u
D=$(realpath "$1"); shift
CHK=""; [ "${1:-}" = "--check" ] && CHK=$2
export GOFLAGS=-mod=mod GOPROXY=off
WT=/tmp/vs/$(basename "$(dirname "$D")")-$(basename "$D")-$$
mkdir -p /tmp/vs
git -C /repo worktree add -q --detach "$WT" HEAD || exit 2
trap 'git -C /repo worktree remove --force "$WT" >/dev/null 2>&1; rm -rf "$WT"' EXIT
cmd=$(python3 -c "import json,sys; print(json.load(open('$D/meta.json'))['demo_cmd'])")
rundemo() { (cd "$WT" && timeout 600 bash -c "$cmd" >"$WT/.demo.out" 2>&1); echo $?; }
if ! git -C "$WT" apply "$D/patch.diff"; then echo '{"ok":false,"why":"patch does not apply"}'; exit 1; fi
build=0; (cd "$WT" && go build ./... >"$WT/.build.out" 2>&1) || build=1
# full suite with the change and WITHOUT the demo: only the three always-failing cloudwatch tests may fail
suite=$(cd "$WT" && go test -vet=off -count=1 -p 6 ./... 2>&1 | grep -E '^(--- FAIL|FAIL|panic)' | grep -vE 'TestSendMetrics |TestSendHistogram |TestSendMetricDimensions |pkg/backends/cloudwatch' | grep -v '^FAIL$' | head -20)
cp -r "$D/demo/." "$WT/"
fails=0; for i in 1 2 3 4 5; do r=$(rundemo); [ "$r" != 0 ] && fails=$((fails+1)); done
tail -c 1500 "$WT/.demo.out" > /tmp/vs/last_demo_$$.txt
git -C "$WT" apply -R "$D/patch.diff"
pre=0; for i in 1 2 3; do r=$(rundemo); [ "$r" != 0 ] && pre=$r; done
git -C "$WT" apply "$D/patch.diff"
chk=""; chkrc=""
if [ -n "$CHK" ]; then
  rm -f "$WT"/.demo.out "$WT"/.build.out
  # the demo files stay out of the harness build (they are _test.go files or main packages in their own dirs)
  chk=$(cd /verif && VERIF_JOBS=${VERIF_JOBS:-6} VERIF_REPO="$WT" timeout 1500 ./check "$CHK" --tier quick 2>/tmp/vs/chk_$$.err | grep -E '^VIOLATION' | head -3); chkrc=$?
fi
python3 - "$pre" "$build" "$suite" "$fails" "$chk" <<'E'
import json,sys
pre,build,suite,fails,chk=sys.argv[1:6]
ok = pre=="0" and build=="0" and suite.strip()=="" and int(fails)>=4
print(json.dumps(dict(ok=ok, demo_without_change="pass" if pre=="0" else "FAIL rc=%s"%pre, builds=build=="0",
   suite_new_failures=suite.strip().split("\n") if suite.strip() else [], demo_fails_with_change="%s of 5"%fails, check_output=chk)))
E
