#!/bin/bash
# Re-runs the property's own quick check against every seeded change (patch applied to a scratch worktree of /repo HEAD).
#   tools/regress_seeds.sh OUTFILE seed-dir...      (one line per seed: "<id> caught|MISSED|patch-does-not-apply <violation line>")
OUT=$1; shift
export GOFLAGS=-mod=mod GOPROXY=off
mkdir -p /tmp/vs
for d in "$@"; do d=$(realpath "$d")
  id=$(basename "$d"); p=${id%-*}
  WT=/tmp/vs/reg-$id-$$
  git -C /repo worktree add -q --detach "$WT" HEAD || continue
  if git -C "$WT" apply "$d/patch.diff" 2>/dev/null; then
    v=$(cd /verif && VERIF_JOBS=${VERIF_JOBS:-5} VERIF_REPO="$WT" timeout 1500 ./check "$p" --tier quick 2>/dev/null | grep -E '^VIOLATION' | head -1)
    if [ -n "$v" ]; then echo "$id caught $v" >> "$OUT"; else echo "$id MISSED" >> "$OUT"; fi
  else
    echo "$id patch-does-not-apply" >> "$OUT"
  fi
  git -C /repo worktree remove --force "$WT" >/dev/null 2>&1; rm -rf "$WT"
done
