#!/usr/bin/env python3
"""tools/claim.py Cxx "<level text>" "<level note>"  — adds/updates a claimed property in manifest_meta.json,
refreshes hook_commits from /repo's log, and regenerates MANIFEST.json."""
import json, os, subprocess, sys
ROOT = os.path.dirname(os.path.dirname(os.path.abspath(__file__)))
mp = os.path.join(ROOT, "tools", "manifest_meta.json")
meta = json.load(open(mp))
if len(sys.argv) >= 4:
    meta["claimed"][sys.argv[1]] = dict(text=sys.argv[2], note=sys.argv[3])
log = subprocess.run(["git", "-C", "/repo", "log", "--format=%h %s"], stdout=subprocess.PIPE, text=True).stdout
meta["hook_commits"] = [l.split()[0] for l in log.split("\n") if " verif hook" in l][::-1]
json.dump(meta, open(mp, "w"), indent=1)
subprocess.run([sys.executable, os.path.join(ROOT, "tools", "mkmanifest.py")], check=True)
