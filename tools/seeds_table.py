#!/usr/bin/env python3
"""Writes notes/SEEDS_TABLE.md from seeded/*/meta.json (independent seeded changes and what catches them)."""
import json, os, glob
ROOT = os.path.dirname(os.path.dirname(os.path.abspath(__file__)))
# seeds that the property's own check missed when first run, and what was strengthened (lead's log)
FIRST_MISSED = {
 "C01-b": "no generated line carried a gsd_histogram tag; histogram timers added to the sys/agg streams and to Pipeline.v's flush",
 "C01-c": "generator stayed in the exact regime (rates with exact reciprocals); general-regime counter rates/values added (model was already bit-exact)",
 "C02-c": "no value had 20 digits >= 2^64; boundary-numeral stream added",
 "C03-c": "DatagramReceiver was not exercised; recv stream through real UDP/unixgram/scripted sockets in a child process added (then Model/Receiver.v)",
 "C06-d": "dispatch never met a full queue; dispatch-pressure stream (small queues, paused workers, concurrent dispatchers) added",
 "C07-b": "no map held a timer with an empty value list (what Reset leaves); residue maps added",
 "C07-c": "cloud-lookup queue / tag stage / aggregator were covered only by C11/C10 checks; stages stream through the real CloudHandler, TagHandler and aggregator added to C07 (C11's check caught it from the start)",
 "C14-a": "only one message in flight per case; concurrent stream (K messages, dynamic-header split, retries overlapping) added",
 "C15-b": "Stop was an unconstrained oracle label; stop_allowed window rule in the model and late-failure cases added",
 "C16-b": "no script kept 429+Retry-After beyond the retry window; all429/all500/allreset matrix on the mock clock added",
 "C19-b": "WaitForEvents never overlapped a DispatchEvent blocked on the semaphore; concurrent-wait cases added",
 "C19-d": "capturing backends never failed SendEvent; failing-send scripts added",
 "C20-b": "telemetry records never included platform.initRuntimeDone; all Telemetry-API record types and look-alikes added",
}
rows = []
for d in sorted(glob.glob(os.path.join(ROOT, "seeded", "C??-?"))):
    sid = os.path.basename(d)
    m = json.load(open(os.path.join(d, "meta.json")))
    files = sorted({l.split(" b/")[-1].strip() for l in open(os.path.join(d, "patch.diff")) if l.startswith("diff --git")})
    caught = "; ".join("%s: %s" % (k, "caught" if v.startswith("caught") else "MISSED") for k, v in sorted(m.get("checks_run", {}).items()))
    summ = " ".join(m.get("summary", "").split())
    summ = summ[:230] + ("…" if len(summ) > 230 else "")
    needs = " ".join(m.get("needs_to_manifest", "").split())
    needs = needs[:160] + ("…" if len(needs) > 160 else "")
    rows.append("| %s | %s | %s | %s | %s | %s |" % (sid, ", ".join("`%s`" % f for f in files), summ.replace("|", "\\|"), needs.replace("|", "\\|"), caught, FIRST_MISSED.get(sid, "")))
out = ["| seed | file(s) | change | needs to manifest | checks run on it (final machinery) | missed at first? what was strengthened |", "|---|---|---|---|---|---|"] + rows
open(os.path.join(ROOT, "notes", "SEEDS_TABLE.md"), "w").write("\n".join(out) + "\n")
print(len(rows), "seeds;", sum(1 for r in rows if "MISSED" in r), "with a MISSED entry")
