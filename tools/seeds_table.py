#!/usr/bin/env python3
"""Writes notes/SEEDS_TABLE.md from seeded/*/meta.json (independent seeded changes and what catches them)."""
import json, os, glob
ROOT = os.path.dirname(os.path.dirname(os.path.abspath(__file__)))
# seeds that the property's own check missed when first run, and what was strengthened (lead's log)
FIRST_MISSED = {
 "C01-b": "no generated line carried a gsd_histogram tag; histogram timers added to the sys/agg streams and to Pipeline.v's flush",
 "C01-c": "generator stayed in the exact regime (rates with exact reciprocals); general-regime counter rates/values added (model was already bit-exact)",
 "C02-c": "no value had 20 digits >= 2^64; boundary-numeral stream added",
 "C03-c": "DatagramReceiver was not exercised; recv stream through real UDP/unixgram/scripted sockets in a child process added (then Model/Receiver.v)",
 "C06-d": "dispatch never met a full queue; dispatch-pressure stream (small queues, paused workers, concurrent dispatchers) added",
 "C07-b": "no map held a timer with an empty value list (what Reset leaves); residue maps added",
 "C07-c": "cloud-lookup queue / tag stage / aggregator were covered only by C11/C10 checks; stages stream through the real CloudHandler, TagHandler and aggregator added to C07 (C11's check caught it from the start)",
 "C14-a": "only one message in flight per case; concurrent stream (K messages, dynamic-header split, retries overlapping) added",
 "C15-b": "Stop was an unconstrained oracle label; stop_allowed window rule in the model and late-failure cases added",
 "C16-b": "no script kept 429+Retry-After beyond the retry window; all429/all500/allreset matrix on the mock clock added",
 "C19-b": "WaitForEvents never overlapped a DispatchEvent blocked on the semaphore; concurrent-wait cases added",
 "C19-d": "capturing backends never failed SendEvent; failing-send scripts added",
 "C20-b": "telemetry records never included platform.initRuntimeDone; all Telemetry-API record types and look-alikes added",
 # round 3
 "C01-e": "the harness printed an ill-typed trace term when a worker received a map of no batch (reported only as a broken correspondence); log cross-check monitors, optional trace, scripted slow worker added",
 "C03-e": "requests were never concurrent; burst stream (2-16 goroutines into the router, child process) added",
 "C03-f": "bad-lines-per-minute was always 0 and no long continuation-byte runs were generated; parser configuration varied, utf8Line shapes added",
 "C04-e": "no flush was cancelled at the last hand-over with a full datagram channel; stall stream and already-cancelled flushes added (cancellation is C16's quantifier)",
 "C04-f": "one aggregator flushed at a time; workers stream (2-8 aggregator workers sharing every backend, child process) added",
 "C05-e": "the real DatagramReceiver and its buffer pool were not exercised; recv stream under sustained traffic added (C03's check caught it)",
 "C06-e": "no dispatch was ever cancelled; dispatch-cancel and splitseq streams added",
 "C07-e": "a source never missed the cache again right after its own lookup result; nocache/evict scripts added (C11's check caught it)",
 "C08-f": "datapoints were built as Metric values, never lexed through the metric pool; lexed datapoints with interleaved traffic added (C05's aliasing monitor caught it)",
 "C09-f": "the receiver's time stamp is outside the aggregator model; real-time e2e stream through the real receiver added (C05's new timestamp monitor caught it)",
 "C10-e": "dispatch was single-threaded; concurrent stream through one TagHandler added",
 "C13-f": "the consumer always kept up; lagging-consumer push/drain ops added",
 "C14-f": "no real compressed body was damaged in the payload area; tamper stream with the codec libraries as oracle added",
 "C18-e": "the clock never moved between construction and the goroutine arming its timer; early-advance op added",
 "C19-e": "the forwarder's upstream never failed; scripted fault layer added",
 "C20-e": "no invocation outlasted the flush interval; longinv stream with a small flush-interval added",
 "C02-e": "each result was checked and released before the next line; held stream (one lexer, production-like pool, results held per batch) added (C05's check caught it)",
 "C02-f": "as C02-e",
 "C12-f": "the limiter always had rate Inf; limiter configurations with a burst below the batch size added; limiter rule added to the dispatcher model",
 # round 4
 "C02-h": "the shared buffer was never overwritten between datagrams; refill scripts (same-offset rewrites of the receive buffer) added",
 "C03-h": "event bodies carried only declared enum values; arbitrary int32 enums and hand-encoded varints added (C14's check caught it)",
 "C05-h": "only IPv4 loopback senders; scripted PacketConn with many IPv6 / v4-mapped / zone / non-UDP sender addresses added",
 "C06-g": "the tag stage in front of dispatch was not exercised; tagged stream with the stored-key = FormatTagsKey(own tags) invariant added (C10's check caught it)",
 "C08-h": "the variance was compared with an absolute tolerance of 1e-9 max|x|^2; tolerance replaced by the proved bound 1e-9 Var + 5 (n u)^2 max|x|^2 (C08_tolerance_sound_variance_qc), bigmean class added",
 "C14-h": "random truncation rarely lands on a protobuf field boundary; prefix sweep of real bodies added",
 "C16-g": "as C04-e (C04's check caught it); cancelled-many and stall cases added to C16",
 "C16-h": "max-request-elapsed-time was never -1; retry options through the real FromViper constructors (-1, small, default) added",
 "C17-g": "one flush per fresh client against an always-succeeding endpoint; sequence stream (one client, failed flush then successful ones, strict single-document readers) added",
 "C20-g": "needs more than 30 s of real time: caught by the THOROUGH tier only (longwait cases of 33 s and 65 s); the quick tier cannot exhibit it",
 "C20-h": "the fake Runtime API always answered at once; register/subscription latencies 0-200 ms added",
 # round 5
 "C01-i": "the parser configuration was fixed (ignore-host off, namespace empty, estimated-tags 0); configuration drawn per case, host-tagged and untagged lines from several senders added",
 "C07-j": "datapoints were Metric literals, never lexed through the metric pool; lexed batches and noise ops (recycled tag buffers overwritten while maps are held) added, key-consistency monitor added",
 "C03-i": "no bare sign was ever a metric value; 58 value shapes (bare signs, points, exponents, boundaries) for every type added",
 "C03-j": "HTTP ingestion dispatched into a capturing handler; chain stream into the real TagHandler / BackendHandler / aggregator workers / flush in a child process with revisited series added",
 "C10-i": "input tag slices never aliased each other; cloud stream (real CloudHandler cache-hit path in front of the real TagHandler, shared cached instance) added",
 "C04-j": "the CloudWatch client was built through a hook constructor that bypassed NewClient; every backend now built through its real FromViper constructor (AWS_CA_BUNDLE emptied), series with 9-15 tags added",
 "C12-i": "no huge period values; hours / MaxInt64 periods added",
 "C12-j": "no sub-second periods and stamps lived on a purely virtual axis; wall-clock-consistent stamps, millisecond regime and Peek trains added",
 "C17-i": "tag lists were literals (cap == len); every series' Tags built with spare capacity as the pipeline produces them",
 "C19-j": "the harness re-assembled the pipeline by hand; server stream through the real statsd.Server.RunWithCustomSocket with HTTP ingestion and both entry points added",
 "C20-i": "data was ingested over a unix-datagram socket and never concurrently with runtimeDone; httpdata stream (HTTP ingestion racing runtimeDone, several slots) added",
 "C20-j": "as C20-i (large batches posted right before runtimeDone)",
 # round 6
 "C01-k": "the sys stream wired parsers straight to the BackendHandler; the real TagHandler (default and with static tags) put in between, repeated / permuted tag lists added",
 "C04-k": "OTLP resource_keys were never set; backend options drawn as an operator can write them (repeated keys, boundary batch sizes, graphite prefixes)",
 "C07-l": "nothing called SplitByTags; splitbytags op (real SplitByTags then MergeMaps of the parts) added (C15's check caught it)",
 "C09-l": "datapoints only arrived over UDP; half of the e2e cases now POST /v2/raw to the server's own HTTP ingestion (C14's check caught it)",
 "C12-l": "CacheOptions were passed to the constructor directly; cfg stream runs the real cmd/gostatsd binary on flags / TOML and compares the resolved cache options",
 "C15-k": "no upstream outcome had a 2xx status followed by a broken response body; kinds short body / reset after headers / stalled body added (a 2xx status is a success)",
 "C17-l": "constructors received the sub-metric mask directly; every backend now built by its real NewClientFromViper from the documented configuration layout",
 "C19-k": "the server stream used a null statser and did not check the state when Run returned; default statser, disable-internal-events drawn, slow sends, return check added",
 "C20-l": "the extension was wired through pkg/lambda.NewExtension, not cmd/lambda-extension's configuration code; binary stream builds and runs the real cmd/lambda-extension as a child process",
}
rows = []
for d in sorted(glob.glob(os.path.join(ROOT, "seeded", "C??-?"))):
    sid = os.path.basename(d)
    m = json.load(open(os.path.join(d, "meta.json")))
    files = sorted({l.split(" b/")[-1].strip() for l in open(os.path.join(d, "patch.diff")) if l.startswith("diff --git")})
    caught = "; ".join("%s: %s" % (k, "caught" if v.startswith("caught") else "MISSED") for k, v in sorted(m.get("checks_run", {}).items()))
    summ = " ".join(m.get("summary", "").split())
    summ = summ[:230] + ("…" if len(summ) > 230 else "")
    needs = " ".join(m.get("needs_to_manifest", "").split())
    needs = needs[:160] + ("…" if len(needs) > 160 else "")
    rows.append("| %s | %s | %s | %s | %s | %s |" % (sid, ", ".join("`%s`" % f for f in files), summ.replace("|", "\\|"), needs.replace("|", "\\|"), caught, FIRST_MISSED.get(sid, "")))
out = ["| seed | file(s) | change | needs to manifest | checks run on it (final machinery) | missed at first? what was strengthened |", "|---|---|---|---|---|---|"] + rows
open(os.path.join(ROOT, "notes", "SEEDS_TABLE.md"), "w").write("\n".join(out) + "\n")
print(len(rows), "seeds;", sum(1 for r in rows if "MISSED" in r), "with a MISSED entry")
# refresh the copy inside DESIGN.md (between the marker comment and the paragraph that follows the table)
dp = os.path.join(ROOT, "DESIGN.md")
ds = open(dp).read()
mk = "<!-- seeds table: generated by tools/seeds_table.py -->\n"
if mk in ds:
    a = ds.index(mk) + len(mk)
    b = ds.index("\n\nA check that fires on the unchanged tree", a)
    open(dp, "w").write(ds[:a] + "\n".join(out) + ds[b:])
