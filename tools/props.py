# Per-property configuration of the generic check driver (/verif/check).
#
#   bin           harness binary (harness/cmd/<bin>)
#   corr          Coq module GS.Corr.<corr> providing the case type, check_case, explain_case
#   case_type     name of the case type in that module
#   props         Coq file with the property theorems (coq/Props/<props>.v)
#   n_quick / n_thorough   number of generated cases
#   shard         cases per cases_k.v
#   shrink        name of the list-valued field of the input that delta debugging shrinks
#   rule          what makes a case non-trivial (reported in the evidence)
#   streams       optional list of (stream name, share) passed to the harness as -stream
#   assumptions   what the check assumes (evidence.assumptions)
#   models        modelled-not-verified statement for the trusted base

COMMON_TRUST = [
    "Coq 8.16.1 kernel incl. vm_compute (no native_compute)",
    "hand-written Gallina model tied to /repo only by differential execution on generated cases (this run)",
    "Go harness (generators, drivers, monitors) and tools/ of /verif; hooks under build tag verif",
]

PROPS = {
    "C02": dict(
        bin="c02", corr="C02", case_type="lexcase", props="C02",
        n_quick=3000, n_thorough=120000, shard=750, shrink="line",
        rule="distinct by hash of (namespace, line); non-trivial = accepted line with >= 1 optional field, or a rejected mutation of a valid line",
        assumptions=["strconv.ParseFloat is an oracle (table computed by the harness directly from strconv)",
                     "lines without NUL bytes (C02's quantifier); NUL bytes are C03's"],
        models="internal/lexer/lexer.go (Lexer.Run and all state functions) modelled in Model/Lexer.v; strconv.ParseFloat not modelled (oracle); metric pool reuse not modelled",
    ),
}

# further properties: one JSON file per property under tools/props.d/ (same keys)
import glob as _glob, json as _json, os as _os
for _f in sorted(_glob.glob(_os.path.join(_os.path.dirname(_os.path.abspath(__file__)), "props.d", "*.json"))):
    PROPS[_os.path.basename(_f)[:-5]] = _json.load(open(_f))
