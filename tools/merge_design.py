#!/usr/bin/env python3
"""Appends notes/AS_BUILT.md to DESIGN.md as section 12 (replacing an earlier copy)."""
import os
ROOT = os.path.dirname(os.path.dirname(os.path.abspath(__file__)))
d = open(os.path.join(ROOT, "DESIGN.md")).read()
a = open(os.path.join(ROOT, "notes", "AS_BUILT.md")).read()
mark = "\n## 12. As built"
if mark in d:
    d = d[:d.index(mark)]
d = d.rstrip("\n") + "\n\n--------------------------------------------------------------------------------------------\n\n" + a.lstrip("\n")
open(os.path.join(ROOT, "DESIGN.md"), "w").write(d)
print("DESIGN.md:", d.count("\n"), "lines")
