// Package mmgen generates datapoints and metric maps and prints them as Coq terms of
// GS.Model.MetricMap (MkDp, EC/EG/ET/ES entries).  Shared by the map-level harnesses.
package mmgen

import (
	"math"
	"math/big"
	"sort"

	"github.com/atlassian/gostatsd"

	"verifharness/hlib"
)

var TypeNames = map[gostatsd.MetricType]string{gostatsd.COUNTER: "Counter", gostatsd.GAUGE: "Gauge", gostatsd.TIMER: "Timer", gostatsd.SET: "MSet"}

// ExactRates have float reciprocals that are exact integers (DESIGN 3.1, exact regime).
var ExactRates = []float64{1, 1, 1, 0.5, 0.25, 0.125, 0.1, 0.2, 0.05, 0.01}

// Dp is a JSON-able datapoint (the input form); floats travel as bit patterns.
type Dp struct {
	Name   string   `json:"name"`
	Type   int      `json:"type"` // gostatsd.MetricType
	Value  uint64   `json:"value"`
	StrVal string   `json:"strval,omitempty"`
	Rate   uint64   `json:"rate"`
	Tags   []string `json:"tags"`
	Source string   `json:"src"`
	TS     int64    `json:"ts"`
}

func (d Dp) Metric() *gostatsd.Metric {
	return &gostatsd.Metric{Name: d.Name, Type: gostatsd.MetricType(d.Type), Value: math.Float64frombits(d.Value), StringValue: d.StrVal,
		Rate: math.Float64frombits(d.Rate), Tags: append(gostatsd.Tags(nil), d.Tags...), Source: gostatsd.Source(d.Source), Timestamp: gostatsd.Nanotime(d.TS)}
}

func (d Dp) Coq() string {
	return hlib.App("MkDp", hlib.Bytes(d.Name), TypeNames[gostatsd.MetricType(d.Type)], hlib.ZU(d.Value), hlib.Bytes(d.StrVal), hlib.ZU(d.Rate),
		hlib.StrList(d.Tags), hlib.Bytes(d.Source), hlib.Z(d.TS))
}

// Universe is a small pool of names / tags / sources so that series collide often.
type Universe struct {
	Names, Tags, Sources, Members []string
}

var nameAlpha = "abcdefgh.XY_-09"
var tagAlpha = "abcxyz:_./-019"

func randStr(r *hlib.Rand, lo, hi int, alpha string) string {
	n := r.Range(lo, hi)
	b := make([]byte, n)
	for i := range b {
		b[i] = alpha[r.Intn(len(alpha))]
	}
	return string(b)
}

func NewUniverse(r *hlib.Rand, names, tags, sources int) *Universe {
	u := &Universe{}
	for i := 0; i < names; i++ {
		u.Names = append(u.Names, randStr(r, 1, 8, nameAlpha))
	}
	for i := 0; i < tags; i++ {
		u.Tags = append(u.Tags, randStr(r, 1, 6, tagAlpha))
	}
	u.Tags = append(u.Tags, "s:x", "a") // (tags, source) pairs that share a tags key
	u.Sources = []string{"", "x"}
	for i := 0; i < sources; i++ {
		u.Sources = append(u.Sources, randStr(r, 1, 9, "0123456789.:abcdef"))
	}
	for i := 0; i < 6; i++ {
		u.Members = append(u.Members, randStr(r, 0, 5, tagAlpha+" ~"))
	}
	return u
}

// Value draws a small dyadic rational (exact regime) as float bits.
func ExactValue(r *hlib.Rand) float64 {
	switch r.Intn(8) {
	case 0:
		return 0
	case 1:
		return float64(r.Range(-50, 50))
	case 2:
		return float64(r.Range(-4000, 4000)) / 8
	case 3:
		return float64(r.Range(0, 1000000))
	default:
		return float64(r.Range(-1000, 1000)) / float64([]int{1, 2, 4}[r.Intn(3)])
	}
}

func (u *Universe) Dp(r *hlib.Rand, tsLo, tsHi int64) Dp {
	d := Dp{Name: hlib.Pick(r, u.Names), Type: r.Range(1, 4), Source: hlib.Pick(r, u.Sources), TS: tsLo + int64(r.Intn(int(tsHi-tsLo+1)))}
	nt := []int{0, 0, 1, 1, 2, 3}[r.Intn(6)]
	d.Tags = []string{}
	for i := 0; i < nt; i++ {
		d.Tags = append(d.Tags, hlib.Pick(r, u.Tags))
	}
	d.Rate = math.Float64bits(hlib.Pick(r, ExactRates))
	switch gostatsd.MetricType(d.Type) {
	case gostatsd.SET:
		d.StrVal = hlib.Pick(r, u.Members)
		d.Rate = math.Float64bits(1)
	case gostatsd.GAUGE:
		if r.Chance(1, 10) {
			d.Value = math.Float64bits(hlib.Pick(r, []float64{math.Inf(1), math.Inf(-1), math.MaxFloat64, 5e-324, math.Copysign(0, -1)}))
		} else {
			d.Value = math.Float64bits(ExactValue(r))
		}
	default:
		d.Value = math.Float64bits(ExactValue(r))
	}
	return d
}

func ratOf(f float64) (string, string) {
	if math.IsNaN(f) || math.IsInf(f, 0) {
		return "(0)%Z", "1%positive"
	}
	var q big.Rat
	q.SetFloat64(f)
	return "(" + q.Num().String() + ")%Z", q.Denom().String() + "%positive"
}

// Entries prints a metric map as a list of GS.Model.MetricMap entries (sorted for determinism).
func Entries(mm *gostatsd.MetricMap) string {
	var el []string
	mm.Counters.Each(func(n, k string, c gostatsd.Counter) {
		el = append(el, hlib.App("EC", hlib.Bytes(n), hlib.Bytes(k), hlib.Z(c.Value), hlib.Z(int64(c.Timestamp)), hlib.Bytes(string(c.Source)), hlib.StrList(c.Tags)))
	})
	mm.Gauges.Each(func(n, k string, g gostatsd.Gauge) {
		el = append(el, hlib.App("EG", hlib.Bytes(n), hlib.Bytes(k), hlib.F64(g.Value), hlib.Z(int64(g.Timestamp)), hlib.Bytes(string(g.Source)), hlib.StrList(g.Tags)))
	})
	mm.Timers.Each(func(n, k string, t gostatsd.Timer) {
		vs := make([]string, len(t.Values))
		for i, v := range t.Values {
			vs[i] = hlib.F64(v)
		}
		num, den := ratOf(t.SampledCount)
		el = append(el, hlib.App("ET", hlib.Bytes(n), hlib.Bytes(k), hlib.List(vs), num, den, hlib.Z(int64(t.Timestamp)), hlib.Bytes(string(t.Source)), hlib.StrList(t.Tags)))
	})
	mm.Sets.Each(func(n, k string, s gostatsd.Set) {
		ms := make([]string, 0, len(s.Values))
		for m := range s.Values {
			ms = append(ms, m)
		}
		sort.Strings(ms)
		el = append(el, hlib.App("ES", hlib.Bytes(n), hlib.Bytes(k), hlib.StrList(ms), hlib.Z(int64(s.Timestamp)), hlib.Bytes(string(s.Source)), hlib.StrList(s.Tags)))
	})
	sort.Strings(el)
	return hlib.List(el)
}

// Size returns the number of series in a map.
func Size(mm *gostatsd.MetricMap) int {
	n := 0
	mm.Counters.Each(func(string, string, gostatsd.Counter) { n++ })
	mm.Gauges.Each(func(string, string, gostatsd.Gauge) { n++ })
	mm.Timers.Each(func(string, string, gostatsd.Timer) { n++ })
	mm.Sets.Each(func(string, string, gostatsd.Set) { n++ })
	return n
}

// Build folds Receive over datapoints into a fresh map.
func Build(dps []Dp) *gostatsd.MetricMap {
	mm := gostatsd.NewMetricMap(false)
	for _, d := range dps {
		mm.Receive(d.Metric())
	}
	return mm
}
