// Package lexgen generates statsd lines (grammar-directed, mutated, boundary) and runs the
// real lexer on them.  Shared by the C02, C03, C05 and C19 harnesses.
package lexgen

import (
	"fmt"
	"math"
	"strconv"
	"strings"

	"github.com/atlassian/gostatsd"
	"github.com/atlassian/gostatsd/verifhooks"

	"verifharness/hlib"
)

var nameClasses = []string{
	"abcdefghijklmnopqrstuvwxyz", "ABCXYZ", "0123456789", ".-_", "/ \t", "!$%&*()=+[]{}<>?~^'\";,@#|", "\x80\xc3\xa9\xff\x01\x7f",
}

// RawName draws a raw metric name (before normalisation).  It never contains ':' or NUL and
// never starts with '_' (a leading '_' selects the special-type grammar; see DESIGN 5, F2).
func RawName(r *hlib.Rand) string {
	n := r.Range(1, 12)
	var b []byte
	for i := 0; i < n; i++ {
		var cls string
		switch k := r.Intn(20); {
		case k < 10:
			cls = nameClasses[0]
		case k < 12:
			cls = nameClasses[1]
		case k < 14:
			cls = nameClasses[2]
		case k < 16:
			cls = nameClasses[3]
		case k < 17:
			cls = nameClasses[4]
		case k < 19:
			cls = nameClasses[5]
		default:
			cls = nameClasses[6]
		}
		b = append(b, cls[r.Intn(len(cls))])
	}
	if r.Chance(1, 40) { // a name that normalises to nothing
		b = []byte("!$%")
	}
	if b[0] == '_' {
		b[0] = 'u'
	}
	return string(b)
}

var floatStrings = []string{
	"1", "0", "-1", "2.5", "100", "0.001", "1e3", "1E-2", "-0", "+5", ".5", "5.", "1e999", "-1e999", "1e-999",
	"inf", "+Inf", "-inf", "Infinity", "nan", "NaN", "0x1p-2", "0x1.8p1", "1_0", "0x_1p0", "", "abc", "1:2", "1 ", " 1",
	"12345678901234567890", "4.9e-324", "1.7976931348623157e308", "0.1", "3.14159", "-273.15", "1e", "--1", "0x", "1f",
}

func FloatString(r *hlib.Rand) string {
	switch k := r.Intn(10); {
	case k < 4:
		return hlib.Pick(r, floatStrings)
	case k < 7:
		return strconv.Itoa(r.Range(-1000, 100000))
	case k < 9:
		return strconv.FormatFloat(float64(r.Range(-100000, 100000))/float64([]int{1, 2, 4, 8, 10, 100, 1000}[r.Intn(7)]), 'f', -1, 64)
	default:
		return strconv.FormatFloat(math.Float64frombits(r.U64()), 'g', -1, 64)
	}
}

var rateStrings = []string{"0.1", "1", "0.5", "0.25", "1e-3", "0.01", "0.2", "0.05", "1.0", "0.125", "2", "0", "-1", "nan", "inf", "+Inf", "-inf", "abc", "", "0x1p-1", "1e999", "0.0", "-0"}

var tagAlphabet = "abcdefghijklmnopqrstuvwxyzABC0123456789_.:/-=@ \xc3\xa9"

func Tag(r *hlib.Rand) string {
	if r.Chance(1, 12) {
		return ""
	}
	n := r.Range(1, 10)
	b := make([]byte, n)
	for i := range b {
		b[i] = tagAlphabet[r.Intn(len(tagAlphabet))]
	}
	if r.Chance(1, 6) {
		return "host:" + string(b)
	}
	return string(b)
}

var otherFields = []string{"c:container-id", "T1656581400", "x", "unknown:field", "e:1", "d:1", "k"}

// Attr is one optional '|'-separated field of a metric line.
type Attr struct {
	Kind string   `json:"kind"` // rate | tags | other
	S    string   `json:"s,omitempty"`
	Tags []string `json:"tags,omitempty"`
}

func (a Attr) Render() string {
	switch a.Kind {
	case "rate":
		return "@" + a.S
	case "tags":
		return "#" + strings.Join(a.Tags, ",")
	default:
		return a.S
	}
}

var typeTokens = []string{"c", "g", "ms", "h", "s"}
var badTypeTokens = []string{"x", "m", "mx", "", "cc", "C", "sm", "gauge", "c "}

// MetricLine renders a line of the documented metric grammar (possibly with an invalid value,
// rate or type token; the parser has to reject those).
func MetricLine(r *hlib.Rand) string {
	name := RawName(r)
	ty := hlib.Pick(r, typeTokens)
	if r.Chance(1, 25) {
		ty = hlib.Pick(r, badTypeTokens)
	}
	val := FloatString(r)
	if ty == "s" {
		val = strings.ReplaceAll(Tag(r)+hlib.Pick(r, []string{"", "x", " y", ":z"}), "|", "")
	}
	var sb strings.Builder
	sb.WriteString(name)
	sb.WriteByte(':')
	sb.WriteString(val)
	sb.WriteByte('|')
	sb.WriteString(ty)
	na := []int{0, 0, 1, 1, 1, 2, 2, 3, 4}[r.Intn(9)]
	for i := 0; i < na; i++ {
		var a Attr
		switch k := r.Intn(10); {
		case k < 4:
			a = Attr{Kind: "rate", S: hlib.Pick(r, rateStrings)}
			if r.Chance(3, 4) {
				a.S = rateStrings[r.Intn(10)]
			}
		case k < 8:
			nt := r.Intn(5)
			a = Attr{Kind: "tags"}
			for j := 0; j < nt; j++ {
				a.Tags = append(a.Tags, Tag(r))
			}
		case k < 9:
			a = Attr{Kind: "other", S: hlib.Pick(r, otherFields)}
		default:
			a = Attr{Kind: "other", S: ""} // an empty field swallows the following one
		}
		sb.WriteByte('|')
		sb.WriteString(a.Render())
	}
	if r.Chance(1, 30) {
		sb.WriteByte('|')
	}
	return sb.String()
}

func randBytes(r *hlib.Rand, n int, alphabet string) string {
	b := make([]byte, n)
	for i := range b {
		if alphabet == "" {
			b[i] = byte(r.Intn(256))
		} else {
			b[i] = alphabet[r.Intn(len(alphabet))]
		}
	}
	return string(b)
}

var eventTextAlphabet = "abcdefghij XYZ0189|:,#\\n_-{}\xc3\xa9"

// EventLine renders an event line; lenMode 0 = exact lengths.
func EventLine(r *hlib.Rand, exact bool) string {
	title := randBytes(r, r.Range(0, 8), eventTextAlphabet)
	text := randBytes(r, r.Range(0, 14), eventTextAlphabet)
	if r.Chance(1, 3) {
		text += "\\n" + randBytes(r, r.Range(0, 4), eventTextAlphabet)
	}
	tl, xl := uint64(len(title)), uint64(len(text))
	if !exact {
		switch r.Intn(6) {
		case 0:
			tl++
		case 1:
			xl++
		case 2:
			if tl > 0 {
				tl--
			}
		case 3:
			if xl > 0 {
				xl--
			}
		case 4:
			tl = hlib.Pick(r, BoundaryNumbers)
		case 5:
			xl = hlib.Pick(r, BoundaryNumbers)
		}
	}
	var sb strings.Builder
	fmt.Fprintf(&sb, "_e{%d,%d}:%s|%s", tl, xl, title, text)
	na := r.Intn(6)
	for i := 0; i < na; i++ {
		sb.WriteByte('|')
		switch r.Intn(12) {
		case 0:
			sb.WriteString("d:" + strconv.Itoa(r.Range(0, 2000000000)))
		case 1:
			sb.WriteString("h:" + randBytes(r, r.Range(0, 6), "abc.-0:"))
		case 2:
			sb.WriteString("k:" + randBytes(r, r.Range(0, 6), "abc.-0:"))
		case 3:
			sb.WriteString("p:" + hlib.Pick(r, []string{"low", "normal", "low", "normal", "high", ""}))
		case 4:
			sb.WriteString("s:" + randBytes(r, r.Range(0, 6), "abc.-0:"))
		case 5:
			sb.WriteString("t:" + hlib.Pick(r, []string{"error", "warning", "success", "info", "info", "fatal", ""}))
		case 6, 7:
			nt := r.Intn(4)
			var ts []string
			for j := 0; j < nt; j++ {
				ts = append(ts, Tag(r))
			}
			sb.WriteString("#" + strings.Join(ts, ","))
		case 8:
			sb.WriteString(hlib.Pick(r, []string{"c:xyz", "x:unk", "zzz", "", "d", "d:", "d:x", "d:99999999999999999999", "d:9223372036854775808", "d:12x", "p", "t:"}))
		case 9:
			sb.WriteString("d:" + strconv.FormatUint(hlib.Pick(r, BoundaryNumbers), 10))
		default:
			sb.WriteString(hlib.Pick(r, otherFields))
		}
	}
	return sb.String()
}

// BoundaryNumbers are values around every integer width the lexer computes in.
var BoundaryNumbers = []uint64{0, 1, 2, 5, 1<<31 - 1, 1 << 31, 1<<31 + 1, 1<<32 - 20, 1<<32 - 6, 1<<32 - 2, 1<<32 - 1, 1 << 32, 1<<32 + 1,
	1<<63 - 1, 1 << 63, 1<<63 + 1, 1<<64 - 1, 4294967290, 4294967291, 1844674407370955161, 1844674407370955162, 6148914691236517206}

// BoundaryEvent renders event headers whose declared lengths sit at integer-width boundaries.
func BoundaryEvent(r *hlib.Rand) string {
	num := func() string {
		switch r.Intn(8) {
		case 0:
			return "18446744073709551616" // 2^64
		case 1:
			return "99999999999999999999999"
		case 2:
			return "184467440737095516150" // wraps without tripping n < value?
		case 3:
			return strconv.Itoa(r.Intn(12))
		default:
			return strconv.FormatUint(hlib.Pick(r, BoundaryNumbers), 10)
		}
	}
	body := randBytes(r, r.Range(0, 24), "abcde|xyz|||")
	return "_e{" + num() + "," + num() + "}:" + body
}

var separators = []byte{':', '|', '@', '#', ',', '_', '{', '}', 0, '\n', 'e', 'c', 'm', 's', '\\', 'n'}

// Mutate applies 1-3 byte-level mutations.  withNUL allows NUL bytes to be inserted.
func Mutate(r *hlib.Rand, line string, withNUL bool) string {
	b := []byte(line)
	k := r.Range(1, 3)
	for i := 0; i < k; i++ {
		if len(b) == 0 {
			b = append(b, separators[r.Intn(len(separators))])
			continue
		}
		p := r.Intn(len(b))
		switch r.Intn(6) {
		case 0: // delete
			b = append(b[:p], b[p+1:]...)
		case 1: // duplicate
			b = append(b[:p+1], b[p:]...)
		case 2: // replace by a separator
			b[p] = separators[r.Intn(len(separators))]
		case 3: // truncate
			b = b[:p]
		case 4: // insert a separator
			b = append(b[:p], append([]byte{separators[r.Intn(len(separators))]}, b[p:]...)...)
		case 5: // random byte
			b[p] = byte(r.Intn(256))
		}
	}
	if !withNUL {
		for i := range b {
			if b[i] == 0 {
				b[i] = '0'
			}
		}
	}
	return string(b)
}

// Line draws a line from the named stream.
func Line(r *hlib.Rand, stream string) (line string, class string) {
	switch stream {
	case "grammar":
		if r.Chance(1, 4) {
			return EventLine(r, true), "event"
		}
		return MetricLine(r), "metric"
	case "malformed":
		switch r.Intn(8) {
		case 0:
			return randBytes(r, r.Range(0, 30), ""), "random"
		case 1:
			return EventLine(r, false), "event-badlen"
		case 2:
			return "_" + MetricLine(r), "underscore-metric"
		case 3, 4:
			return Mutate(r, EventLine(r, true), false), "mutated-event"
		default:
			return Mutate(r, MetricLine(r), false), "mutated-metric"
		}
	case "hostile": // C03: NUL bytes and integer-width boundaries as well
		switch r.Intn(8) {
		case 0:
			return randBytes(r, r.Range(0, 40), ""), "random"
		case 1, 2:
			return BoundaryEvent(r), "boundary-event"
		case 3:
			return Mutate(r, BoundaryEvent(r), true), "mutated-boundary"
		case 4, 5:
			return Mutate(r, EventLine(r, r.Bool()), true), "mutated-event-nul"
		default:
			return Mutate(r, MetricLine(r), true), "mutated-metric-nul"
		}
	}
	panic("unknown stream " + stream)
}

// ---------------------------------------------------------------------------------------
// Running the real lexer and printing the observation as a Coq term (constructors of
// GS.Corr.C02: OM OE OR OP; LC for the whole case).

var typeNames = map[gostatsd.MetricType]string{gostatsd.COUNTER: "Counter", gostatsd.GAUGE: "Gauge", gostatsd.TIMER: "Timer", gostatsd.SET: "MSet"}

// Observation of one lexer run.
type Observation struct {
	Kind   string           `json:"kind"` // metric | event | reject | panic
	Err    string           `json:"err,omitempty"`
	Metric *gostatsd.Metric `json:"-"`
	Event  *gostatsd.Event  `json:"-"`
	Text   string           `json:"text,omitempty"` // printable rendition of the result
	Coq    string           `json:"-"`
}

// Lex runs the real lexer on a private copy of line.
func Lex(ll *verifhooks.LineLexer, line string, ns string) Observation {
	buf := []byte(line)
	var o Observation
	msg := hlib.Recover(func() {
		m, e, err := ll.LexLine(buf, ns)
		switch {
		case err != nil:
			o.Kind, o.Err = "reject", err.Error()
			o.Coq = "OR"
		case m != nil:
			mc := *m
			mc.Tags = m.Tags.Copy()
			mc.DoneFunc = nil
			o.Kind, o.Metric = "metric", &mc
			o.Text = fmt.Sprintf("name=%q type=%v value=%v strval=%q rate=%v tags=%q", mc.Name, mc.Type, mc.Value, mc.StringValue, mc.Rate, []string(mc.Tags))
			o.Coq = hlib.App("OM", hlib.Bytes(mc.Name), typeNames[mc.Type], hlib.F64(mc.Value), hlib.Bytes(mc.StringValue), hlib.F64(mc.Rate), hlib.StrList(mc.Tags))
			m.Done()
		case e != nil:
			ec := *e
			ec.Tags = e.Tags.Copy()
			o.Kind, o.Event = "event", &ec
			o.Text = fmt.Sprintf("%+v", ec)
			o.Coq = hlib.App("OE", hlib.Bytes(ec.Title), hlib.Bytes(ec.Text), hlib.Z(ec.DateHappened), hlib.Bytes(string(ec.Source)),
				hlib.Bytes(ec.AggregationKey), hlib.N(uint64(ec.Priority)), hlib.Bytes(ec.SourceTypeName), hlib.N(uint64(ec.AlertType)), hlib.StrList(ec.Tags))
		default:
			o.Kind, o.Err = "reject", "nil, nil, nil"
			o.Coq = "OR"
		}
	})
	if msg != "" {
		o = Observation{Kind: "panic", Err: msg, Coq: "OP"}
	}
	return o
}

// OracleTable computes, directly from strconv, the ParseFloat outcome of every string the
// lexer can possibly hand to ParseFloat for this line: the text between the first ':' and the
// next '|', and every '|'-separated field with a leading '@' removed.
func OracleTable(line string) string {
	cands := map[string]bool{}
	if i := strings.IndexByte(line, ':'); i >= 0 {
		rest := line[i+1:]
		if j := strings.IndexByte(rest, '|'); j >= 0 {
			cands[rest[:j]] = true
		}
	}
	for _, f := range strings.Split(line, "|") {
		if strings.HasPrefix(f, "@") {
			cands[f[1:]] = true
		}
	}
	var el []string
	for s := range cands {
		el = append(el, hlib.Pair(hlib.Bytes(s), PF(s)))
	}
	// deterministic order
	sortStrings(el)
	return hlib.List(el)
}

// PF prints the oracle outcome of ParseFloat.
func PF(s string) string {
	v, err := strconv.ParseFloat(s, 64)
	if err != nil {
		return "PFErr"
	}
	return hlib.App("PFVal", hlib.F64(v))
}

func sortStrings(a []string) {
	for i := 1; i < len(a); i++ {
		for j := i; j > 0 && a[j] < a[j-1]; j-- {
			a[j], a[j-1] = a[j-1], a[j]
		}
	}
}

// LexCase builds the Coq term of a complete lexer case.
func LexCase(ns, line string, o Observation) string {
	return hlib.App("LC", hlib.Bytes(ns), hlib.Bytes(line), OracleTable(line), o.Coq)
}

func ToInts(s string) []int {
	out := make([]int, len(s))
	for i := 0; i < len(s); i++ {
		out[i] = int(s[i])
	}
	return out
}

func FromInts(a []int) string {
	b := make([]byte, len(a))
	for i, x := range a {
		b[i] = byte(x)
	}
	return string(b)
}
