module verifharness

go 1.23.6

require (
	github.com/atlassian/gostatsd v0.0.0
	github.com/pierrec/lz4/v4 v4.1.19
	github.com/sirupsen/logrus v1.9.0
	github.com/spf13/viper v1.17.0
	github.com/tilinna/clock v1.1.0
	golang.org/x/time v0.3.0
	google.golang.org/protobuf v1.34.1
	k8s.io/api v0.25.2
	k8s.io/apimachinery v0.25.2
	k8s.io/client-go v0.25.2
)

require (
	github.com/PuerkitoBio/purell v1.1.1 // indirect
	github.com/PuerkitoBio/urlesc v0.0.0-20170810143723-de5bf2ad4578 // indirect
	github.com/ash2k/stager v0.0.0-20170622123058-6e9c7b0eacd4 // indirect
	github.com/aws/aws-sdk-go-v2 v1.32.3 // indirect
	github.com/aws/aws-sdk-go-v2/config v1.26.2 // indirect
	github.com/aws/aws-sdk-go-v2/credentials v1.16.13 // indirect
	github.com/aws/aws-sdk-go-v2/feature/ec2/imds v1.14.10 // indirect
	github.com/aws/aws-sdk-go-v2/internal/configsources v1.3.22 // indirect
	github.com/aws/aws-sdk-go-v2/internal/endpoints/v2 v2.6.22 // indirect
	github.com/aws/aws-sdk-go-v2/internal/ini v1.7.2 // indirect
	github.com/aws/aws-sdk-go-v2/service/cloudwatch v1.42.3
	github.com/aws/aws-sdk-go-v2/service/internal/accept-encoding v1.12.0 // indirect
	github.com/aws/aws-sdk-go-v2/service/internal/presigned-url v1.12.3 // indirect
	github.com/aws/aws-sdk-go-v2/service/sso v1.18.5 // indirect
	github.com/aws/aws-sdk-go-v2/service/ssooidc v1.21.5 // indirect
	github.com/aws/aws-sdk-go-v2/service/sts v1.26.6 // indirect
	github.com/aws/smithy-go v1.22.0 // indirect
	github.com/cenkalti/backoff v2.2.1+incompatible // indirect
	github.com/davecgh/go-spew v1.1.2-0.20180830191138-d8f796af33cc // indirect
	github.com/emicklei/go-restful/v3 v3.8.0 // indirect
	github.com/evanphx/json-patch v4.12.0+incompatible // indirect
	github.com/fsnotify/fsnotify v1.6.0 // indirect
	github.com/go-logr/logr v1.2.3 // indirect
	github.com/go-openapi/jsonpointer v0.19.5 // indirect
	github.com/go-openapi/jsonreference v0.19.5 // indirect
	github.com/go-openapi/swag v0.19.14 // indirect
	github.com/gogo/protobuf v1.3.2 // indirect
	github.com/golang/protobuf v1.5.4 // indirect
	github.com/google/gnostic v0.5.7-v3refs // indirect
	github.com/google/go-cmp v0.6.0 // indirect
	github.com/google/gofuzz v1.1.0 // indirect
	github.com/gorilla/mux v1.8.0 // indirect
	github.com/grpc-ecosystem/grpc-gateway/v2 v2.16.0 // indirect
	github.com/hashicorp/hcl v1.0.0 // indirect
	github.com/imdario/mergo v0.3.8 // indirect
	github.com/jmespath/go-jmespath v0.4.0 // indirect
	github.com/josharian/intern v1.0.0 // indirect
	github.com/json-iterator/go v1.1.12 // indirect
	github.com/libp2p/go-reuseport v0.2.0
	github.com/magiconair/properties v1.8.7 // indirect
	github.com/mailru/easyjson v0.7.6 // indirect
	github.com/mitchellh/mapstructure v1.5.0 // indirect
	github.com/modern-go/concurrent v0.0.0-20180306012644-bacd9c7ef1dd // indirect
	github.com/modern-go/reflect2 v1.0.2 // indirect
	github.com/munnerz/goautoneg v0.0.0-20191010083416-a7dc8b61c822 // indirect
	github.com/pelletier/go-toml/v2 v2.1.0 // indirect
	github.com/pkg/errors v0.9.1 // indirect
	github.com/sagikazarmark/slog-shim v0.1.0 // indirect
	github.com/spf13/afero v1.10.0 // indirect
	github.com/spf13/cast v1.5.1 // indirect
	github.com/spf13/pflag v1.0.5 // indirect
	github.com/subosito/gotenv v1.6.0 // indirect
	go.opentelemetry.io/proto/otlp v1.0.0
	go.uber.org/multierr v1.11.0 // indirect
	golang.org/x/exp v0.0.0-20230905200255-921286631fa9 // indirect
	golang.org/x/net v0.35.0 // indirect
	golang.org/x/oauth2 v0.28.0 // indirect
	golang.org/x/sync v0.11.0 // indirect
	golang.org/x/sys v0.30.0 // indirect
	golang.org/x/term v0.29.0 // indirect
	golang.org/x/text v0.22.0 // indirect
	google.golang.org/genproto/googleapis/api v0.0.0-20240227224415-6ceb2ff114de
	google.golang.org/genproto/googleapis/rpc v0.0.0-20240227224415-6ceb2ff114de
	google.golang.org/grpc v1.63.2 // indirect
	gopkg.in/inf.v0 v0.9.1 // indirect
	gopkg.in/ini.v1 v1.67.0 // indirect
	gopkg.in/yaml.v2 v2.4.0 // indirect
	gopkg.in/yaml.v3 v3.0.1 // indirect
	k8s.io/klog/v2 v2.70.1 // indirect
	k8s.io/kube-openapi v0.0.0-20220803162953-67bda5d908f1 // indirect
	k8s.io/utils v0.0.0-20220728103510-ee6ede2d64ed // indirect
	sigs.k8s.io/json v0.0.0-20220713155537-f223a00ba0e2 // indirect
	sigs.k8s.io/structured-merge-diff/v4 v4.2.3 // indirect
	sigs.k8s.io/yaml v1.2.0 // indirect
)

replace github.com/atlassian/gostatsd => /repo
