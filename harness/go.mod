module verifharness

go 1.23.6

require github.com/atlassian/gostatsd v0.0.0

require (
	github.com/fsnotify/fsnotify v1.6.0 // indirect
	github.com/hashicorp/hcl v1.0.0 // indirect
	github.com/magiconair/properties v1.8.7 // indirect
	github.com/mitchellh/mapstructure v1.5.0 // indirect
	github.com/pelletier/go-toml/v2 v2.1.0 // indirect
	github.com/sagikazarmark/slog-shim v0.1.0 // indirect
	github.com/sirupsen/logrus v1.9.0 // indirect
	github.com/spf13/afero v1.10.0 // indirect
	github.com/spf13/cast v1.5.1 // indirect
	github.com/spf13/pflag v1.0.5 // indirect
	github.com/spf13/viper v1.17.0 // indirect
	github.com/subosito/gotenv v1.6.0 // indirect
	github.com/tilinna/clock v1.1.0 // indirect
	golang.org/x/sys v0.30.0 // indirect
	golang.org/x/text v0.22.0 // indirect
	gopkg.in/ini.v1 v1.67.0 // indirect
	gopkg.in/yaml.v3 v3.0.1 // indirect
)

replace github.com/atlassian/gostatsd => /repo
