package main

import (
	"context"
	"errors"
	"fmt"
	"io"
	"sort"
	"strings"
	"time"

	"github.com/sirupsen/logrus"

	"github.com/atlassian/gostatsd"
	"github.com/atlassian/gostatsd/pkg/cachedinstances/cloudprovider"
	"github.com/atlassian/gostatsd/pkg/stats"

	"verifharness/hlib"
)

func quietLogger() logrus.FieldLogger {
	l := logrus.New()
	l.SetOutput(io.Discard)
	return l
}

// ---------------------------------------------------------------------------------------
// scripted provider for the lock-step cases: the next call returns exactly the scripted map

type scriptedProvider struct {
	limit int
	next  map[gostatsd.Source]*gostatsd.Instance
	err   error
	calls [][]gostatsd.Source
}

func (p *scriptedProvider) Name() string           { return "scripted" }
func (p *scriptedProvider) MaxInstancesBatch() int { return p.limit }
func (p *scriptedProvider) EstimatedTags() int     { return 2 }
func (p *scriptedProvider) Instance(_ context.Context, ips ...gostatsd.Source) (map[gostatsd.Source]*gostatsd.Instance, error) {
	p.calls = append(p.calls, append([]gostatsd.Source(nil), ips...))
	return p.next, p.err
}

// capturing statser for emit
type gaugeCatcher struct {
	stats.Statser
	got map[string]float64
}

func (g *gaugeCatcher) Gauge(name string, v float64, _ gostatsd.Tags) { g.got[name] = v }

// ---------------------------------------------------------------------------------------
// Coq printers

func coqInst(i *gostatsd.Instance) string {
	if i == nil {
		return "None"
	}
	tags := make([]string, len(i.Tags))
	copy(tags, i.Tags)
	return "(Some " + hlib.App("Inst", hlib.Bytes(string(i.ID)), hlib.StrList(tags)) + ")"
}

func coqInfo(i gostatsd.InstanceInfo) string {
	return hlib.Pair(hlib.Bytes(string(i.IP)), coqInst(i.Instance))
}

func coqInfos(l []gostatsd.InstanceInfo) string {
	el := make([]string, len(l))
	for i, x := range l {
		el[i] = coqInfo(x)
	}
	return hlib.List(el)
}

func coqSources(l []gostatsd.Source) string {
	el := make([]string, len(l))
	for i, x := range l {
		el[i] = hlib.Bytes(string(x))
	}
	return hlib.List(el)
}

func toInstance(i *instIn) *gostatsd.Instance {
	if i == nil {
		return nil
	}
	var tags gostatsd.Tags
	if i.Tags != nil {
		tags = append(gostatsd.Tags{}, i.Tags...)
	}
	return &gostatsd.Instance{ID: gostatsd.Source(i.ID), Tags: tags}
}

func obsInst(i *gostatsd.Instance) interface{} {
	if i == nil {
		return nil
	}
	return map[string]interface{}{"id": string(i.ID), "tags": []string(i.Tags)}
}

// ---------------------------------------------------------------------------------------
// lock-step executor

type lockExec struct {
	cfg      cfgIn
	ccp      *cloudprovider.CachedCloudProvider
	prov     *scriptedProvider
	logger   logrus.FieldLogger
	vnow     int64 // simulated time, ns
	pending  []gostatsd.Source
	inflight []gostatsd.InstanceInfo
	lookReg  *gostatsd.Source
	retReg   *gostatsd.InstanceInfo

	steps    []string // Coq (label, obs) pairs
	done     []opIn   // ops actually executed
	trace    []interface{}
	monitors []string
	// statistics for the non-triviality rule / class
	nBatch, nMulti, nFailedKnown, nEvicted, nRequeued, nReplaced, nPeekHit, skipped int
	nIdleEq, nExpEq                                                                 int  // refresh ticks with an entry exactly on the idle / expiry boundary
	jitter                                                                          bool // a step took longer in real time than the rebase unit: the case must be re-run
}

// rebaseUnit: every period is a multiple of it, and a step must take less real time than it
const rebaseUnit = 100 * time.Millisecond

// stamped runs a step that reads time.Now() and moves the stamps it wrote onto the virtual time axis
func (x *lockExec) stamped(f func()) {
	t0 := time.Now()
	f()
	_, ok := x.ccp.VerifRebaseStamps(t0, x.vnow, rebaseUnit)
	if !ok || time.Since(t0) >= rebaseUnit {
		x.jitter = true
	}
}

func newLockExec(cfg cfgIn) *lockExec {
	prov := &scriptedProvider{limit: cfg.Limit}
	logger := quietLogger()
	ccp := cloudprovider.NewCachedCloudProvider(logger, nil, prov, gostatsd.CacheOptions{
		CacheRefreshPeriod:        time.Second,
		CacheEvictAfterIdlePeriod: time.Duration(cfg.Idle),
		CacheTTL:                  time.Duration(cfg.TTL),
		CacheNegativeTTL:          time.Duration(cfg.NegTTL),
	})
	return &lockExec{cfg: cfg, ccp: ccp, prov: prov, logger: logger, vnow: 1000 * second}
}

func (x *lockExec) canReceive() bool {
	if len(x.inflight) > 0 {
		return false
	}
	return len(x.pending) == 0 || len(x.pending) < x.cfg.Limit
}

func (x *lockExec) enabled(op string) bool {
	switch op {
	case "submit":
		return x.canReceive()
	case "send":
		return x.lookReg != nil && x.canReceive()
	case "batch":
		return len(x.inflight) == 0 && len(x.pending) > 0
	case "handle":
		return len(x.inflight) > 0
	case "return":
		return x.retReg != nil
	case "refresh", "peek":
		return true
	}
	return false
}

// the end of Run's loop body
func (x *lockExec) loopTail() {
	if x.lookReg == nil {
		if ip, ok := x.ccp.VerifPopLookup(); ok {
			x.lookReg = &ip
		}
	}
	if x.retReg == nil {
		if info, ok := x.ccp.VerifPopReturn(); ok {
			x.retReg = &info
		}
	}
}

// advance moves the virtual clock; adv is in half seconds
func (x *lockExec) advance(adv int64) {
	if adv > 0 {
		x.vnow += adv * (second / 2)
	}
}

func (x *lockExec) cachedInstance(s gostatsd.Source) (*gostatsd.Instance, bool) {
	for _, e := range x.ccp.VerifSnapshot().Cache {
		if e.IP == s {
			return e.Instance, true
		}
	}
	return nil, false
}

func (x *lockExec) exec(op opIn) bool {
	if !x.enabled(op.Op) {
		x.skipped++
		return false
	}
	var label, out string
	tr := map[string]interface{}{"op": op.Op}
	out = "ONone"
	switch op.Op {
	case "submit":
		x.pending = append(x.pending, gostatsd.Source(op.S))
		label = hlib.App("Submit", hlib.Bytes(op.S))
		tr["s"] = op.S
	case "send":
		x.pending = append(x.pending, *x.lookReg)
		tr["s"] = string(*x.lookReg)
		x.lookReg = nil
		x.loopTail()
		label = "SendLookup"
	case "batch":
		var m map[gostatsd.Source]*gostatsd.Instance
		res := make([]string, 0, len(op.Res))
		if !op.NilMap {
			m = map[gostatsd.Source]*gostatsd.Instance{}
			for _, e := range op.Res {
				if _, dup := m[gostatsd.Source(e.S)]; dup {
					continue
				}
				inst := toInstance(e.I)
				m[gostatsd.Source(e.S)] = inst
				res = append(res, hlib.Pair(hlib.Bytes(e.S), coqInst(inst)))
			}
		}
		x.prov.next, x.prov.err = m, nil
		if op.Err {
			x.prov.err = errors.New("scripted provider error")
		}
		x.prov.calls = nil
		ips := append([]gostatsd.Source(nil), x.pending...)
		infos := cloudprovider.VerifDoLookup(x.logger, x.prov, ips, 4*len(ips)+8)
		if len(x.prov.calls) != 1 {
			x.monitors = append(x.monitors, fmt.Sprintf("doLookup called the provider %d times for one batch", len(x.prov.calls)))
		} else if fmt.Sprint(x.prov.calls[0]) != fmt.Sprint(x.pending) || len(x.prov.calls[0]) != len(x.pending) {
			x.monitors = append(x.monitors, fmt.Sprintf("doLookup queried %q for the batch %q", x.prov.calls[0], x.pending))
		}
		if len(infos) != len(x.pending) {
			x.monitors = append(x.monitors, fmt.Sprintf("doLookup produced %d answers for a batch of %d sources", len(infos), len(x.pending)))
		}
		x.nBatch++
		if len(x.pending) > 1 {
			x.nMulti++
		}
		tr["ips"], tr["answers"] = x.pending, len(infos)
		x.inflight, x.pending = infos, nil
		label = hlib.App("Batch", hlib.List(res), hlib.Bool(op.Err))
		out = hlib.App("OInfos", coqInfos(infos))
	case "handle":
		x.advance(op.Adv)
		info := x.inflight[0]
		old, was := x.cachedInstance(info.IP)
		if was && old != nil {
			if info.Instance == nil {
				x.nFailedKnown++
			} else {
				x.nReplaced++
			}
		}
		x.stamped(func() { x.ccp.VerifHandleInstanceInfo(info) })
		x.inflight = x.inflight[1:]
		x.loopTail()
		label = hlib.App("HandleInfo", hlib.Z(x.vnow))
		tr["ip"], tr["inst"] = string(info.IP), obsInst(info.Instance)
	case "return":
		info := *x.retReg
		x.retReg = nil
		x.loopTail()
		label = "Return"
		out = hlib.App("ORet", coqInfo(info))
		tr["ip"], tr["inst"] = string(info.IP), obsInst(info.Instance)
	case "refresh":
		x.advance(op.Adv)
		before := x.ccp.VerifSnapshot()
		idleEq, expEq := false, false
		for _, st := range x.ccp.VerifStamps() {
			idleEq = idleEq || x.vnow-st.Access == x.cfg.Idle
			expEq = expEq || (x.vnow-st.Access <= x.cfg.Idle && st.Expires == x.vnow)
		}
		if idleEq {
			x.nIdleEq++
		}
		if expEq {
			x.nExpEq++
		}
		x.ccp.VerifDoRefresh(time.Unix(0, x.vnow))
		after := x.ccp.VerifSnapshot()
		nb := len(before.ToLookupIPs)
		if len(after.ToLookupIPs) < nb || fmt.Sprint(after.ToLookupIPs[:nb]) != fmt.Sprint(before.ToLookupIPs) {
			x.monitors = append(x.monitors, "doRefresh changed sources already queued for lookup")
			nb = 0
		}
		order := after.ToLookupIPs[nb:]
		x.nRequeued += len(order)
		x.nEvicted += len(before.Cache) - len(after.Cache)
		x.loopTail()
		label = hlib.App("Refresh", hlib.Z(x.vnow), coqSources(order))
		tr["requeued"], tr["evicted"] = order, len(before.Cache)-len(after.Cache)
	case "peek":
		x.advance(op.Adv)
		var inst *gostatsd.Instance
		var hit bool
		x.stamped(func() { inst, hit = x.ccp.Peek(gostatsd.Source(op.S)) })
		if hit {
			x.nPeekHit++
		}
		label = hlib.App("Peek", hlib.Bytes(op.S), hlib.Z(x.vnow))
		out = hlib.App("OPeek", hlib.Option(coqInst(inst), hit))
		tr["s"], tr["hit"], tr["inst"] = op.S, hit, obsInst(inst)
	}
	// observation after the label
	snap := x.ccp.VerifSnapshot()
	gc := &gaugeCatcher{got: map[string]float64{}}
	x.ccp.VerifEmit(gc)
	for name, want := range map[string]uint64{
		"cloudprovider.cache_positive": snap.Positive, "cloudprovider.cache_negative": snap.Negative,
		"cloudprovider.cache_refresh_positive": snap.RefreshPositive, "cloudprovider.cache_refresh_negative": snap.RefreshNegative} {
		if v, ok := gc.got[name]; !ok || v != float64(want) {
			x.monitors = append(x.monitors, fmt.Sprintf("emit reports %s=%v, counter is %d", name, v, want))
		}
	}
	ce := make([]string, len(snap.Cache))
	for i, e := range snap.Cache {
		ce[i] = hlib.Pair(hlib.Bytes(string(e.IP)), coqInst(e.Instance))
	}
	stamps := x.ccp.VerifStamps()
	se := make([]string, len(stamps))
	for i, st := range stamps {
		se[i] = hlib.Pair(hlib.Bytes(string(st.IP)), hlib.Pair(hlib.Z(st.Expires), hlib.Z(st.Access)))
	}
	obs := hlib.App("Obs", out, hlib.List(ce), hlib.List(se), hlib.ZU(snap.Positive), hlib.ZU(snap.Negative), hlib.ZU(snap.RefreshPositive),
		hlib.ZU(snap.RefreshNegative), coqSources(snap.ToLookupIPs), coqInfos(snap.ToReturnInfo))
	x.steps = append(x.steps, hlib.Pair(label, obs))
	x.done = append(x.done, op)
	tr["now_ms"] = x.vnow / int64(time.Millisecond)
	tr["cache"], tr["pos"], tr["neg"] = len(snap.Cache), snap.Positive, snap.Negative
	x.trace = append(x.trace, tr)
	return true
}

func (x *lockExec) result(in input) hlib.Case {
	c := hlib.Case{Input: in, Monitors: x.monitors}
	if x.jitter { // six attempts were all disturbed: nothing exact can be compared (never seen)
		x.steps = nil
	}
	c.Coq = hlib.App("Case", hlib.App("Config", hlib.Z(x.cfg.TTL), hlib.Z(x.cfg.NegTTL), hlib.Z(x.cfg.Idle), hlib.Z(int64(x.cfg.Limit))),
		hlib.List(x.steps))
	tr := x.trace
	if len(tr) > 40 {
		tr = tr[len(tr)-40:]
	}
	c.Obs = map[string]interface{}{"executed": len(x.done), "skipped": x.skipped, "last_steps": tr}
	flags := []string{}
	add := func(b bool, s string) {
		if b {
			flags = append(flags, s)
		}
	}
	add(x.nMulti > 0, "multi")
	add(x.nFailedKnown > 0, "failed-refresh")
	add(x.nReplaced > 0, "replaced")
	add(x.nEvicted > 0, "evict")
	add(x.nRequeued > 0, "requery")
	add(x.nIdleEq > 0, "idle-boundary")
	add(x.nExpEq > 0, "expiry-boundary")
	c.Class = fmt.Sprintf("lock/limit=%d/%s", x.cfg.Limit, strings.Join(flags, "+"))
	c.Nontrivial = x.nBatch >= 2 && x.nFailedKnown > 0 && (x.nEvicted > 0 || x.nRequeued > 0)
	if x.jitter {
		c.Class, c.Nontrivial = "lock/clock-jitter", false
	}
	return c
}

// runLock replays a recorded op list (ops that are not enabled are skipped, so that shrinking can
// delete any subset).  The whole case is repeated if one step took so long in real time (>= 100 ms)
// that the mapping of its wall-clock stamps onto virtual time is not exact.
func runLock(in input) hlib.Case {
	var x *lockExec
	for try := 0; try < 6; try++ {
		x = newLockExec(in.Cfg)
		for _, op := range in.Ops {
			x.exec(op)
		}
		if !x.jitter {
			break
		}
	}
	in.Kind = "lock"
	return x.result(in)
}

// ---------------------------------------------------------------------------------------
// generator: ops are chosen among the enabled ones while executing

var sourcePool = []string{"10.0.0.1", "10.0.0.2", "10.0.0.3", "a", "", "host-b", "10.0.0.10"}

// periods in half seconds
var halfSeconds = func(ks ...int64) []int64 {
	out := make([]int64, len(ks))
	for i, k := range ks {
		out[i] = k * (second / 2)
	}
	return out
}

func genCfg(r *hlib.Rand) cfgIn {
	return cfgIn{
		TTL:    hlib.Pick(r, halfSeconds(2, 3, 4, 6, 7)),
		NegTTL: hlib.Pick(r, halfSeconds(0, 1, 2, 2, 8)),
		Idle:   hlib.Pick(r, halfSeconds(4, 5, 8, 14)),
		Limit:  r.Range(1, 5),
	}
}

type lockGen struct {
	r       *hlib.Rand
	sources []string
	version int
}

func (g *lockGen) freshInstance(s string) *instIn {
	g.version++
	i := &instIn{ID: fmt.Sprintf("i-%s-%d", s, g.version)}
	switch g.r.Intn(4) {
	case 0: // no tags (nil)
	case 1:
		i.Tags = []string{}
	case 2:
		i.Tags = []string{fmt.Sprintf("v:%d", g.version)}
	default:
		i.Tags = []string{"az:x", fmt.Sprintf("v:%d", g.version)}
	}
	return i
}

// advance of the virtual clock before an op, in half seconds: periods and advances share the half
// second grid, so refresh ticks fall exactly on idle / expiry boundaries as often as next to them
func (g *lockGen) adv() int64 {
	return hlib.Pick(g.r, []int64{0, 0, 0, 0, 0, 1, 2, 2, 2, 3, 4, 4, 6, 10})
}

func (g *lockGen) batchOp(pending []gostatsd.Source) opIn {
	op := opIn{Op: "batch"}
	distinct := []string{}
	seen := map[string]bool{}
	for _, p := range pending {
		if !seen[string(p)] {
			seen[string(p)] = true
			distinct = append(distinct, string(p))
		}
	}
	sort.Strings(distinct)
	kind := g.r.Intn(10)
	switch {
	case kind < 4: // full
		for _, s := range distinct {
			op.Res = append(op.Res, resEntry{S: s, I: g.freshInstance(s)})
		}
	case kind < 7: // partial: some present, some bound to nil, some absent
		for _, s := range distinct {
			switch g.r.Intn(3) {
			case 0:
				op.Res = append(op.Res, resEntry{S: s, I: g.freshInstance(s)})
			case 1:
				op.Res = append(op.Res, resEntry{S: s})
			}
		}
	case kind < 9: // empty map
	default:
		op.NilMap = true
	}
	if !op.NilMap && g.r.Chance(1, 5) { // an entry nobody asked for
		s := hlib.Pick(g.r, sourcePool)
		if !seen[s] {
			op.Res = append(op.Res, resEntry{S: s, I: g.freshInstance(s)})
		}
	}
	op.Err = g.r.Chance(1, 3)
	return op
}

func genLock(r *hlib.Rand, tier string) hlib.Case {
	cfg := genCfg(r)
	g := &lockGen{r: r}
	n := r.Range(1, 5)
	perm := append([]string(nil), sourcePool...)
	for i := range perm {
		j := i + r.Intn(len(perm)-i)
		perm[i], perm[j] = perm[j], perm[i]
	}
	g.sources = perm[:n]
	nops := r.Range(15, 70)
	if tier == "thorough" {
		nops = r.Range(15, 160)
	}
	// phases make the interesting situations frequent: fill, then let time pass around refreshes
	var ops []opIn
	x := newLockExec(cfg)
	for len(ops) < nops {
		weights := map[string]int{"submit": 5, "send": 6, "batch": 3, "handle": 7, "return": 4, "refresh": 3, "peek": 3}
		if len(x.pending) >= cfg.Limit {
			weights["batch"] = 12
		}
		kinds := []string{"submit", "send", "batch", "handle", "return", "refresh", "peek"}
		total := 0
		for _, k := range kinds {
			if !x.enabled(k) {
				weights[k] = 0
			}
			total += weights[k]
		}
		pick := r.Intn(total)
		kind := ""
		for _, k := range kinds {
			if pick < weights[k] {
				kind = k
				break
			}
			pick -= weights[k]
		}
		var op opIn
		switch kind {
		case "submit":
			op = opIn{Op: kind, S: hlib.Pick(r, g.sources)}
		case "batch":
			op = g.batchOp(x.pending)
		case "handle", "refresh":
			op = opIn{Op: kind, Adv: g.adv()}
		case "peek":
			s := hlib.Pick(r, g.sources)
			if r.Chance(1, 10) {
				s = hlib.Pick(r, sourcePool)
			}
			op = opIn{Op: kind, S: s, Adv: g.adv()}
		default:
			op = opIn{Op: kind}
		}
		x.exec(op)
		ops = append(ops, op)
	}
	in := input{Kind: "lock", Cfg: cfg, Ops: ops}
	if x.jitter {
		return runLock(in) // a step was too slow in real time: replay
	}
	return x.result(in)
}
