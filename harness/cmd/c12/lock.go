package main

import (
	"context"
	"errors"
	"fmt"
	"io"
	"math"
	"math/big"
	"sort"
	"strings"
	"time"

	"github.com/sirupsen/logrus"

	"github.com/atlassian/gostatsd"
	"github.com/atlassian/gostatsd/pkg/cachedinstances/cloudprovider"
	"github.com/atlassian/gostatsd/pkg/stats"

	"verifharness/hlib"
)

func quietLogger() logrus.FieldLogger {
	l := logrus.New()
	l.SetOutput(io.Discard)
	return l
}

// ---------------------------------------------------------------------------------------
// scripted provider for the lock-step cases: the next call returns exactly the scripted map

type scriptedProvider struct {
	limit int
	next  map[gostatsd.Source]*gostatsd.Instance
	err   error
	calls [][]gostatsd.Source
}

func (p *scriptedProvider) Name() string           { return "scripted" }
func (p *scriptedProvider) MaxInstancesBatch() int { return p.limit }
func (p *scriptedProvider) EstimatedTags() int     { return 2 }
func (p *scriptedProvider) Instance(_ context.Context, ips ...gostatsd.Source) (map[gostatsd.Source]*gostatsd.Instance, error) {
	p.calls = append(p.calls, append([]gostatsd.Source(nil), ips...))
	return p.next, p.err
}

// capturing statser for emit
type gaugeCatcher struct {
	stats.Statser
	got map[string]float64
}

func (g *gaugeCatcher) Gauge(name string, v float64, _ gostatsd.Tags) { g.got[name] = v }

// ---------------------------------------------------------------------------------------
// Coq printers

func coqInst(i *gostatsd.Instance) string {
	if i == nil {
		return "None"
	}
	tags := make([]string, len(i.Tags))
	copy(tags, i.Tags)
	return "(Some " + hlib.App("Inst", hlib.Bytes(string(i.ID)), hlib.StrList(tags)) + ")"
}

func coqInfo(i gostatsd.InstanceInfo) string {
	return hlib.Pair(hlib.Bytes(string(i.IP)), coqInst(i.Instance))
}

func coqInfos(l []gostatsd.InstanceInfo) string {
	el := make([]string, len(l))
	for i, x := range l {
		el[i] = coqInfo(x)
	}
	return hlib.List(el)
}

func coqSources(l []gostatsd.Source) string {
	el := make([]string, len(l))
	for i, x := range l {
		el[i] = hlib.Bytes(string(x))
	}
	return hlib.List(el)
}

func toInstance(i *instIn) *gostatsd.Instance {
	if i == nil {
		return nil
	}
	var tags gostatsd.Tags
	if i.Tags != nil {
		tags = append(gostatsd.Tags{}, i.Tags...)
	}
	return &gostatsd.Instance{ID: gostatsd.Source(i.ID), Tags: tags}
}

func obsInst(i *gostatsd.Instance) interface{} {
	if i == nil {
		return nil
	}
	return map[string]interface{}{"id": string(i.ID), "tags": []string(i.Tags)}
}

// ---------------------------------------------------------------------------------------
// lock-step executor

type lockExec struct {
	cfg      cfgIn
	ccp      *cloudprovider.CachedCloudProvider
	prov     *scriptedProvider
	logger   logrus.FieldLogger
	vnow     int64 // virtual time, ns
	off      int64 // stamps in the cache = virtual stamp + off (wall-clock domain)
	offSet   bool
	pending  []gostatsd.Source
	inflight []gostatsd.InstanceInfo
	lookReg  *gostatsd.Source
	retReg   *gostatsd.InstanceInfo

	steps    []string // Coq (label, obs) pairs
	done     []opIn   // ops actually executed
	trace    []interface{}
	monitors []string
	// statistics for the non-triviality rule / class
	nBatch, nMulti, nFailedKnown, nEvicted, nRequeued, nReplaced, nPeekHit, skipped int
	nIdleEq, nExpEq                                                                 int  // refresh ticks with an entry exactly on the idle / expiry boundary
	jitter                                                                          bool // a step took so long in real time that its stamps cannot be made exact: the case must be re-run
}

// Time.  handleInstanceInfo and Peek read time.Now(); doRefresh gets its time as an argument.  The harness
// keeps every stamp in the wall-clock domain -- so that anything the code compares with time.Now() stays
// meaningful -- at a known offset from its virtual clock: stamp = virtual stamp + off.  Before every step
// that reads the clock, off is set to (wall clock - virtual now) and all stamps are shifted by the change
// (real time that has passed, minus virtual time that was advanced).  After the step, every stamp it wrote is
// a reading t0+e (0 <= e <= real duration of the step), possibly plus one of the configured TTLs; it is
// replaced by exactly t0 (+ that TTL).  So all stamps are exact in virtual time, at nanosecond granularity,
// and a refresh tick at virtual time v (wall v+off) meets idle / expiry boundaries exactly.

// virt returns the stamps in virtual time
type virtStamp struct {
	ip      gostatsd.Source
	expires *big.Int
	access  int64
}

func (x *lockExec) virtStamps() []virtStamp {
	var out []virtStamp
	for _, st := range x.ccp.VerifExactStamps() {
		e := new(big.Int).Mul(big.NewInt(st.Expires.Unix()), big.NewInt(1e9))
		e.Add(e, big.NewInt(int64(st.Expires.Nanosecond())))
		e.Sub(e, big.NewInt(x.off))
		out = append(out, virtStamp{ip: st.IP, expires: e, access: st.Access - x.off})
	}
	return out
}

func coqBig(b *big.Int) string {
	if b.IsInt64() {
		return hlib.Z(b.Int64())
	}
	if b.IsUint64() {
		return hlib.ZU(b.Uint64())
	}
	return "(" + b.String() + ")%Z"
}

// stamped runs a step that reads time.Now()
func (x *lockExec) stamped(f func()) {
	t0 := time.Unix(0, time.Now().UnixNano())
	off := t0.UnixNano() - x.vnow
	if x.offSet && off != x.off {
		x.ccp.VerifShiftStamps(time.Duration(x.off - off)) // moves every stamp by off - x.off
	}
	x.off, x.offSet = off, true
	before := map[gostatsd.Source]cloudprovider.VerifExactStamp{}
	for _, st := range x.ccp.VerifExactStamps() {
		before[st.IP] = st
	}
	f()
	elapsed := time.Duration(time.Now().UnixNano() - t0.UnixNano()) // wall clock, as the stamps are
	if elapsed < 0 || elapsed > 200*time.Millisecond {
		x.jitter = true
	}
	for _, st := range x.ccp.VerifExactStamps() {
		b, existed := before[st.IP]
		if !existed || st.Access != b.Access { // written by this step: a clock reading
			if d := st.Access - t0.UnixNano(); d >= 0 && time.Duration(d) <= elapsed {
				a := t0.UnixNano()
				x.ccp.VerifSetStamps(st.IP, nil, &a)
			} // else: left as it is; Coq will report the stamp
		}
		if !existed || !st.Expires.Equal(b.Expires) { // written by this step: a clock reading + a TTL
			d := st.Expires.Sub(t0) // saturates at MaxInt64, which then is the TTL itself
			var match []time.Duration
			for _, p := range []time.Duration{time.Duration(x.cfg.TTL), time.Duration(x.cfg.NegTTL)} {
				if d-p >= 0 && d-p <= elapsed && (len(match) == 0 || match[0] != p) {
					match = append(match, p)
				}
			}
			switch len(match) {
			case 1:
				e := t0.Add(match[0])
				x.ccp.VerifSetStamps(st.IP, &e, nil)
			case 2: // the step took longer than the two TTLs differ: re-run the case
				x.jitter = true
			}
		}
	}
}

// wallNow is the wall-clock time that stands for the virtual now (for doRefresh)
func (x *lockExec) wallNow() time.Time {
	if !x.offSet {
		x.off, x.offSet = time.Now().UnixNano()-x.vnow, true
	}
	return time.Unix(0, x.vnow+x.off)
}

func newLockExec(cfg cfgIn) *lockExec {
	prov := &scriptedProvider{limit: cfg.Limit}
	logger := quietLogger()
	ccp := cloudprovider.NewCachedCloudProvider(logger, nil, prov, gostatsd.CacheOptions{
		CacheRefreshPeriod:        time.Second,
		CacheEvictAfterIdlePeriod: time.Duration(cfg.Idle),
		CacheTTL:                  time.Duration(cfg.TTL),
		CacheNegativeTTL:          time.Duration(cfg.NegTTL),
	})
	return &lockExec{cfg: cfg, ccp: ccp, prov: prov, logger: logger, vnow: 1000 * second}
}

func (x *lockExec) canReceive() bool {
	if len(x.inflight) > 0 {
		return false
	}
	return len(x.pending) == 0 || len(x.pending) < x.cfg.Limit
}

func (x *lockExec) enabled(op string) bool {
	switch op {
	case "submit":
		return x.canReceive()
	case "send":
		return x.lookReg != nil && x.canReceive()
	case "batch":
		return len(x.inflight) == 0 && len(x.pending) > 0
	case "handle":
		return len(x.inflight) > 0
	case "return":
		return x.retReg != nil
	case "refresh", "peek":
		return true
	}
	return false
}

// the end of Run's loop body
func (x *lockExec) loopTail() {
	if x.lookReg == nil {
		if ip, ok := x.ccp.VerifPopLookup(); ok {
			x.lookReg = &ip
		}
	}
	if x.retReg == nil {
		if info, ok := x.ccp.VerifPopReturn(); ok {
			x.retReg = &info
		}
	}
}

// advance moves the virtual clock by adv half seconds + ms milliseconds
func (x *lockExec) advance(op opIn) {
	if op.Adv > 0 {
		x.vnow += op.Adv * (second / 2)
	}
	if op.AdvMs > 0 {
		x.vnow += op.AdvMs * int64(time.Millisecond)
	}
}

func (x *lockExec) cachedInstance(s gostatsd.Source) (*gostatsd.Instance, bool) {
	for _, e := range x.ccp.VerifSnapshot().Cache {
		if e.IP == s {
			return e.Instance, true
		}
	}
	return nil, false
}

func (x *lockExec) exec(op opIn) bool {
	if !x.enabled(op.Op) {
		x.skipped++
		return false
	}
	var label, out string
	tr := map[string]interface{}{"op": op.Op}
	out = "ONone"
	switch op.Op {
	case "submit":
		x.pending = append(x.pending, gostatsd.Source(op.S))
		label = hlib.App("Submit", hlib.Bytes(op.S))
		tr["s"] = op.S
	case "send":
		x.pending = append(x.pending, *x.lookReg)
		tr["s"] = string(*x.lookReg)
		x.lookReg = nil
		x.loopTail()
		label = "SendLookup"
	case "batch":
		var m map[gostatsd.Source]*gostatsd.Instance
		res := make([]string, 0, len(op.Res))
		if !op.NilMap {
			m = map[gostatsd.Source]*gostatsd.Instance{}
			for _, e := range op.Res {
				if _, dup := m[gostatsd.Source(e.S)]; dup {
					continue
				}
				inst := toInstance(e.I)
				m[gostatsd.Source(e.S)] = inst
				res = append(res, hlib.Pair(hlib.Bytes(e.S), coqInst(inst)))
			}
		}
		x.prov.next, x.prov.err = m, nil
		if op.Err {
			x.prov.err = errors.New("scripted provider error")
		}
		x.prov.calls = nil
		ips := append([]gostatsd.Source(nil), x.pending...)
		infos := cloudprovider.VerifDoLookup(x.logger, x.prov, ips, 4*len(ips)+8)
		if len(x.prov.calls) != 1 {
			x.monitors = append(x.monitors, fmt.Sprintf("doLookup called the provider %d times for one batch", len(x.prov.calls)))
		} else if fmt.Sprint(x.prov.calls[0]) != fmt.Sprint(x.pending) || len(x.prov.calls[0]) != len(x.pending) {
			x.monitors = append(x.monitors, fmt.Sprintf("doLookup queried %q for the batch %q", x.prov.calls[0], x.pending))
		}
		if len(infos) != len(x.pending) {
			x.monitors = append(x.monitors, fmt.Sprintf("doLookup produced %d answers for a batch of %d sources", len(infos), len(x.pending)))
		}
		x.nBatch++
		if len(x.pending) > 1 {
			x.nMulti++
		}
		tr["ips"], tr["answers"] = x.pending, len(infos)
		x.inflight, x.pending = infos, nil
		label = hlib.App("Batch", hlib.List(res), hlib.Bool(op.Err))
		out = hlib.App("OInfos", coqInfos(infos))
	case "handle":
		x.advance(op)
		info := x.inflight[0]
		old, was := x.cachedInstance(info.IP)
		if was && old != nil {
			if info.Instance == nil {
				x.nFailedKnown++
			} else {
				x.nReplaced++
			}
		}
		x.stamped(func() { x.ccp.VerifHandleInstanceInfo(info) })
		x.inflight = x.inflight[1:]
		x.loopTail()
		label = hlib.App("HandleInfo", hlib.Z(x.vnow))
		tr["ip"], tr["inst"] = string(info.IP), obsInst(info.Instance)
	case "return":
		info := *x.retReg
		x.retReg = nil
		x.loopTail()
		label = "Return"
		out = hlib.App("ORet", coqInfo(info))
		tr["ip"], tr["inst"] = string(info.IP), obsInst(info.Instance)
	case "refresh":
		x.advance(op)
		before := x.ccp.VerifSnapshot()
		idleEq, expEq := false, false
		for _, st := range x.virtStamps() {
			idleEq = idleEq || x.vnow-st.access == x.cfg.Idle
			expEq = expEq || (x.vnow-st.access <= x.cfg.Idle && st.expires.IsInt64() && st.expires.Int64() == x.vnow)
		}
		if idleEq {
			x.nIdleEq++
		}
		if expEq {
			x.nExpEq++
		}
		x.ccp.VerifDoRefresh(x.wallNow())
		after := x.ccp.VerifSnapshot()
		nb := len(before.ToLookupIPs)
		if len(after.ToLookupIPs) < nb || fmt.Sprint(after.ToLookupIPs[:nb]) != fmt.Sprint(before.ToLookupIPs) {
			x.monitors = append(x.monitors, "doRefresh changed sources already queued for lookup")
			nb = 0
		}
		order := after.ToLookupIPs[nb:]
		x.nRequeued += len(order)
		x.nEvicted += len(before.Cache) - len(after.Cache)
		x.loopTail()
		label = hlib.App("Refresh", hlib.Z(x.vnow), coqSources(order))
		tr["requeued"], tr["evicted"] = order, len(before.Cache)-len(after.Cache)
	case "peek":
		x.advance(op)
		var inst *gostatsd.Instance
		var hit bool
		x.stamped(func() { inst, hit = x.ccp.Peek(gostatsd.Source(op.S)) })
		if hit {
			x.nPeekHit++
		}
		label = hlib.App("Peek", hlib.Bytes(op.S), hlib.Z(x.vnow))
		out = hlib.App("OPeek", hlib.Option(coqInst(inst), hit))
		tr["s"], tr["hit"], tr["inst"] = op.S, hit, obsInst(inst)
	}
	// observation after the label
	snap := x.ccp.VerifSnapshot()
	gc := &gaugeCatcher{got: map[string]float64{}}
	x.ccp.VerifEmit(gc)
	for name, want := range map[string]uint64{
		"cloudprovider.cache_positive": snap.Positive, "cloudprovider.cache_negative": snap.Negative,
		"cloudprovider.cache_refresh_positive": snap.RefreshPositive, "cloudprovider.cache_refresh_negative": snap.RefreshNegative} {
		if v, ok := gc.got[name]; !ok || v != float64(want) {
			x.monitors = append(x.monitors, fmt.Sprintf("emit reports %s=%v, counter is %d", name, v, want))
		}
	}
	ce := make([]string, len(snap.Cache))
	for i, e := range snap.Cache {
		ce[i] = hlib.Pair(hlib.Bytes(string(e.IP)), coqInst(e.Instance))
	}
	stamps := x.virtStamps()
	se := make([]string, len(stamps))
	for i, st := range stamps {
		se[i] = hlib.Pair(hlib.Bytes(string(st.ip)), hlib.Pair(coqBig(st.expires), hlib.Z(st.access)))
	}
	obs := hlib.App("Obs", out, hlib.List(ce), hlib.List(se), hlib.ZU(snap.Positive), hlib.ZU(snap.Negative), hlib.ZU(snap.RefreshPositive),
		hlib.ZU(snap.RefreshNegative), coqSources(snap.ToLookupIPs), coqInfos(snap.ToReturnInfo))
	x.steps = append(x.steps, hlib.Pair(label, obs))
	x.done = append(x.done, op)
	tr["now_ms"] = x.vnow / int64(time.Millisecond)
	tr["cache"], tr["pos"], tr["neg"] = len(snap.Cache), snap.Positive, snap.Negative
	x.trace = append(x.trace, tr)
	return true
}

func (x *lockExec) result(in input) hlib.Case {
	c := hlib.Case{Input: in, Monitors: x.monitors}
	if x.jitter { // six attempts were all disturbed: nothing exact can be compared (never seen)
		x.steps = nil
	}
	c.Coq = hlib.App("Case", hlib.App("Config", hlib.Z(x.cfg.TTL), hlib.Z(x.cfg.NegTTL), hlib.Z(x.cfg.Idle), hlib.Z(int64(x.cfg.Limit))),
		hlib.List(x.steps))
	tr := x.trace
	if len(tr) > 40 {
		tr = tr[len(tr)-40:]
	}
	c.Obs = map[string]interface{}{"executed": len(x.done), "skipped": x.skipped, "last_steps": tr}
	flags := []string{}
	add := func(b bool, s string) {
		if b {
			flags = append(flags, s)
		}
	}
	add(x.nMulti > 0, "multi")
	add(x.nFailedKnown > 0, "failed-refresh")
	add(x.nReplaced > 0, "replaced")
	add(x.nEvicted > 0, "evict")
	add(x.nRequeued > 0, "requery")
	add(x.cfg.Idle < second || x.cfg.TTL < second, "ms")
	add(x.cfg.Idle >= hour || x.cfg.TTL >= hour || x.cfg.NegTTL >= hour, "long")
	add(x.cfg.Idle == maxDur, "idle=max")
	add(x.nIdleEq > 0, "idle-boundary")
	add(x.nExpEq > 0, "expiry-boundary")
	c.Class = fmt.Sprintf("lock/limit=%d/%s", x.cfg.Limit, strings.Join(flags, "+"))
	c.Nontrivial = x.nBatch >= 2 && x.nFailedKnown > 0 && (x.nEvicted > 0 || x.nRequeued > 0)
	if x.jitter {
		c.Class, c.Nontrivial = "lock/clock-jitter", false
	}
	return c
}

// runLock replays a recorded op list (ops that are not enabled are skipped, so that shrinking can
// delete any subset).  The whole case is repeated if one step took so long in real time (>= 100 ms)
// that the mapping of its wall-clock stamps onto virtual time is not exact.
func runLock(in input) hlib.Case {
	var x *lockExec
	for try := 0; try < 6; try++ {
		x = newLockExec(in.Cfg)
		for _, op := range in.Ops {
			x.exec(op)
		}
		if !x.jitter {
			break
		}
	}
	in.Kind = "lock"
	return x.result(in)
}

// ---------------------------------------------------------------------------------------
// generator: ops are chosen among the enabled ones while executing

var sourcePool = []string{"10.0.0.1", "10.0.0.2", "10.0.0.3", "a", "", "host-b", "10.0.0.10"}

// periods in half seconds
var halfSeconds = func(ks ...int64) []int64 {
	out := make([]int64, len(ks))
	for i, k := range ks {
		out[i] = k * (second / 2)
	}
	return out
}

const (
	ms      = int64(time.Millisecond)
	hour    = int64(time.Hour)
	maxDur  = int64(math.MaxInt64) // the "never" value of a period
	halfMax = maxDur / 2
)

// genCfg draws the cache options.  Two regimes: periods on the half-second grid (any of them possibly replaced
// by hours or by the largest durations), or millisecond periods (1 ms ... 1.5 s).  The virtual clock starts at
// 1000 s and a case advances it by less than 2^51 ns in total, so every quantity the code computes with the
// subtraction forms (now - lastAccess, now.Add(ttl) as time.Time) stays far inside int64 / time.Time's range.
func genCfg(r *hlib.Rand) (cfgIn, bool) {
	if r.Chance(2, 5) {
		return cfgIn{
			TTL:    hlib.Pick(r, []int64{1 * ms, 50 * ms, 400 * ms, 700 * ms, 1500 * ms}),
			NegTTL: hlib.Pick(r, []int64{0, 1 * ms, 50 * ms, 400 * ms}),
			Idle:   hlib.Pick(r, []int64{50 * ms, 400 * ms, 400 * ms, 700 * ms, 700 * ms, 1 * ms}),
			Limit:  r.Range(1, 5),
		}, true
	}
	c := cfgIn{
		TTL:    hlib.Pick(r, halfSeconds(2, 3, 4, 6, 7)),
		NegTTL: hlib.Pick(r, halfSeconds(0, 1, 2, 2, 8)),
		Idle:   hlib.Pick(r, halfSeconds(4, 5, 8, 14)),
		Limit:  r.Range(1, 5),
	}
	if r.Chance(1, 3) {
		c.Idle = hlib.Pick(r, []int64{3 * hour, maxDur, maxDur, halfMax})
	}
	if r.Chance(1, 6) {
		c.TTL = hlib.Pick(r, []int64{hour, halfMax, maxDur})
	}
	if r.Chance(1, 10) {
		c.NegTTL = hlib.Pick(r, []int64{hour, maxDur})
	}
	return c, false
}

type lockGen struct {
	r       *hlib.Rand
	sources []string
	version int
	msGrid  bool // millisecond regime
	long    bool // some period is hours or more
}

// timed sets the advance of the virtual clock before an op
func (g *lockGen) timed(op opIn) opIn {
	if g.msGrid {
		op.AdvMs = hlib.Pick(g.r, []int64{0, 0, 1, 2, 3, 5, 5, 7, 10, 13, 20, 50, 100, 300, 350, 400, 700})
		return op
	}
	op.Adv = g.adv()
	if g.long && g.r.Chance(1, 12) {
		op.Adv = hlib.Pick(g.r, []int64{7200, 21600, 21601}) // 1 h, 3 h, 3 h + 0.5 s
	}
	return op
}

func (g *lockGen) freshInstance(s string) *instIn {
	g.version++
	i := &instIn{ID: fmt.Sprintf("i-%s-%d", s, g.version)}
	switch g.r.Intn(4) {
	case 0: // no tags (nil)
	case 1:
		i.Tags = []string{}
	case 2:
		i.Tags = []string{fmt.Sprintf("v:%d", g.version)}
	default:
		i.Tags = []string{"az:x", fmt.Sprintf("v:%d", g.version)}
	}
	return i
}

// advance of the virtual clock before an op, in half seconds: periods and advances share the half
// second grid, so refresh ticks fall exactly on idle / expiry boundaries as often as next to them
func (g *lockGen) adv() int64 {
	return hlib.Pick(g.r, []int64{0, 0, 0, 0, 0, 1, 2, 2, 2, 3, 4, 4, 6, 10})
}

func (g *lockGen) batchOp(pending []gostatsd.Source) opIn {
	op := opIn{Op: "batch"}
	distinct := []string{}
	seen := map[string]bool{}
	for _, p := range pending {
		if !seen[string(p)] {
			seen[string(p)] = true
			distinct = append(distinct, string(p))
		}
	}
	sort.Strings(distinct)
	kind := g.r.Intn(10)
	switch {
	case kind < 4: // full
		for _, s := range distinct {
			op.Res = append(op.Res, resEntry{S: s, I: g.freshInstance(s)})
		}
	case kind < 7: // partial: some present, some bound to nil, some absent
		for _, s := range distinct {
			switch g.r.Intn(3) {
			case 0:
				op.Res = append(op.Res, resEntry{S: s, I: g.freshInstance(s)})
			case 1:
				op.Res = append(op.Res, resEntry{S: s})
			}
		}
	case kind < 9: // empty map
	default:
		op.NilMap = true
	}
	if !op.NilMap && g.r.Chance(1, 5) { // an entry nobody asked for
		s := hlib.Pick(g.r, sourcePool)
		if !seen[s] {
			op.Res = append(op.Res, resEntry{S: s, I: g.freshInstance(s)})
		}
	}
	op.Err = g.r.Chance(1, 3)
	return op
}

func genLock(r *hlib.Rand, tier string) hlib.Case {
	cfg, msGrid := genCfg(r)
	g := &lockGen{r: r, msGrid: msGrid, long: cfg.Idle >= hour || cfg.TTL >= hour || cfg.NegTTL >= hour}
	n := r.Range(1, 5)
	perm := append([]string(nil), sourcePool...)
	for i := range perm {
		j := i + r.Intn(len(perm)-i)
		perm[i], perm[j] = perm[j], perm[i]
	}
	g.sources = perm[:n]
	nops := r.Range(15, 70)
	if msGrid {
		nops = r.Range(25, 90)
	}
	if tier == "thorough" {
		nops = r.Range(15, 160)
	}
	train := 0 // millisecond regime: a constantly used source is read every 1-20 ms across refresh ticks
	// phases make the interesting situations frequent: fill, then let time pass around refreshes
	var ops []opIn
	x := newLockExec(cfg)
	for len(ops) < nops {
		if msGrid && train == 0 && r.Chance(1, 12) {
			if _, hit := x.cachedInstance(gostatsd.Source(g.sources[0])); hit {
				train = r.Range(5, 30)
			}
		}
		if train > 0 {
			train--
			op := opIn{Op: "peek", S: g.sources[0], AdvMs: int64(r.Range(1, 20))}
			if r.Chance(1, 6) {
				op = opIn{Op: "refresh", AdvMs: int64(r.Range(1, 20))}
			}
			x.exec(op)
			ops = append(ops, op)
			continue
		}
		weights := map[string]int{"submit": 5, "send": 6, "batch": 3, "handle": 7, "return": 4, "refresh": 3, "peek": 3}
		if msGrid {
			weights["refresh"], weights["peek"] = 5, 6
		}
		if len(x.pending) >= cfg.Limit {
			weights["batch"] = 12
		}
		kinds := []string{"submit", "send", "batch", "handle", "return", "refresh", "peek"}
		total := 0
		for _, k := range kinds {
			if !x.enabled(k) {
				weights[k] = 0
			}
			total += weights[k]
		}
		pick := r.Intn(total)
		kind := ""
		for _, k := range kinds {
			if pick < weights[k] {
				kind = k
				break
			}
			pick -= weights[k]
		}
		var op opIn
		switch kind {
		case "submit":
			op = opIn{Op: kind, S: hlib.Pick(r, g.sources)}
		case "batch":
			op = g.batchOp(x.pending)
		case "handle", "refresh":
			op = g.timed(opIn{Op: kind})
		case "peek":
			s := hlib.Pick(r, g.sources)
			if r.Chance(1, 10) {
				s = hlib.Pick(r, sourcePool)
			}
			op = g.timed(opIn{Op: kind, S: s})
		default:
			op = opIn{Op: kind}
		}
		x.exec(op)
		ops = append(ops, op)
	}
	in := input{Kind: "lock", Cfg: cfg, Ops: ops}
	if x.jitter {
		return runLock(in) // a step was too slow in real time: replay
	}
	return x.result(in)
}
