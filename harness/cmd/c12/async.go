package main

import (
	"context"
	"fmt"
	"math"
	"sort"
	"sync"
	"time"

	"github.com/tilinna/clock"

	"github.com/atlassian/gostatsd"
	"github.com/atlassian/gostatsd/pkg/cachedinstances/cloudprovider"

	"verifharness/hlib"
)

// asyncProvider answers call number k according to script[k mod len]; the answer for a source is a
// function of (source, k), so the expected answers can be recomputed from the recorded calls.
type asyncProvider struct {
	mu     sync.Mutex
	limit  int
	script []string
	calls  [][]gostatsd.Source
}

func (p *asyncProvider) Name() string           { return "async" }
func (p *asyncProvider) MaxInstancesBatch() int { return p.limit }
func (p *asyncProvider) EstimatedTags() int     { return 1 }

func asyncAnswer(mode string, ip gostatsd.Source, k int) *gostatsd.Instance {
	pick := (len(ip)+k)%2 == 0
	switch mode {
	case "full", "efull":
		return &gostatsd.Instance{ID: gostatsd.Source(fmt.Sprintf("i-%s-%d", ip, k)), Tags: gostatsd.Tags{"k:v"}}
	case "partial", "epartial":
		if pick {
			return &gostatsd.Instance{ID: gostatsd.Source(fmt.Sprintf("i-%s-%d", ip, k)), Tags: gostatsd.Tags{"k:v"}}
		}
	}
	return nil
}

func (p *asyncProvider) Instance(_ context.Context, ips ...gostatsd.Source) (map[gostatsd.Source]*gostatsd.Instance, error) {
	p.mu.Lock()
	k := len(p.calls)
	p.calls = append(p.calls, append([]gostatsd.Source(nil), ips...))
	p.mu.Unlock()
	mode := p.script[k%len(p.script)]
	var err error
	if mode[0] == 'e' {
		err = fmt.Errorf("scripted failure of call %d", k)
	}
	if mode == "nilmap" || mode == "enil" {
		return nil, err
	}
	m := map[gostatsd.Source]*gostatsd.Instance{}
	for _, ip := range ips {
		if inst := asyncAnswer(mode, ip, k); inst != nil {
			m[ip] = inst
		} else if (len(ip)+k)%3 == 0 {
			m[ip] = nil // present but nil
		}
	}
	return m, err
}

func (p *asyncProvider) snapshot() [][]gostatsd.Source {
	p.mu.Lock()
	defer p.mu.Unlock()
	return append([][]gostatsd.Source(nil), p.calls...)
}

func genAsync(r *hlib.Rand) input {
	n := r.Range(1, 5)
	limit := hlib.Pick(r, []int{1, 2, 3, 4, 5, 2, 3, 4, 8, 16, 32, 40})
	nsub, maxk := r.Range(1, 3), 8
	if limit > 5 { // enough submissions within one 10 ms window to fill a batch now and then
		n, nsub, maxk = r.Range(3, 7), r.Range(2, 4), 14
	}
	srcs := append([]string(nil), sourcePool[:n]...)
	subs := make([][]string, nsub)
	for i := range subs {
		k := r.Range(1, maxk)
		for j := 0; j < k; j++ {
			subs[i] = append(subs[i], hlib.Pick(r, srcs))
		}
	}
	modes := []string{"full", "partial", "empty", "nilmap", "efull", "epartial", "eempty", "enil"}
	script := make([]string, r.Range(1, 5))
	for i := range script {
		script[i] = hlib.Pick(r, modes)
	}
	// the limiter: rate Inf, or a fast finite rate with a bucket of 1, 2 or 15 tokens (below the batch limit
	// as often as not; one provider call costs one token whatever its size)
	limiter, lburst := "inf", 0
	if r.Chance(3, 4) {
		limiter, lburst = "burst", hlib.Pick(r, []int{1, 1, 2, 15})
	}
	return input{Kind: "async", Cfg: cfgIn{Limit: limit}, Async: &asyncIn{Subs: subs, Script: script, Limiter: limiter, Burst: lburst, IdleMax: r.Chance(1, 4)}}
}

func idOf(i *gostatsd.Instance) string {
	if i == nil {
		return "<nil>"
	}
	return string(i.ID)
}

func sortedEq(a, b []string) bool {
	a, b = append([]string(nil), a...), append([]string(nil), b...)
	sort.Strings(a)
	sort.Strings(b)
	return fmt.Sprint(a) == fmt.Sprint(b) && len(a) == len(b)
}

const asyncWait = 4 * time.Second

func runAsync(in input) hlib.Case {
	c := hlib.Case{Input: in, Class: fmt.Sprintf("async/limit=%d", in.Cfg.Limit)}
	if in.Async != nil && in.Async.Limiter == "burst" {
		c.Class += fmt.Sprintf("/burst=%d", in.Async.Burst)
	}
	if in.Async == nil || len(in.Async.Script) == 0 || in.Cfg.Limit < 1 {
		c.Class = "async/invalid-input"
		return c
	}
	mon := func(f string, a ...interface{}) { c.Monitors = append(c.Monitors, fmt.Sprintf(f, a...)) }

	prov := &asyncProvider{limit: in.Cfg.Limit, script: in.Async.Script}
	mock := clock.NewMock(time.Now())
	ctx, cancel := context.WithCancel(clock.Context(context.Background(), mock))
	limiter, _ := mkLimiter(in.Async.Limiter, in.Async.Burst)
	idlePeriod := 90 * time.Minute
	if in.Async.IdleMax { // the "never evict" value
		idlePeriod = time.Duration(math.MaxInt64)
		c.Class += "/idle=max"
	}
	ccp := cloudprovider.NewCachedCloudProvider(quietLogger(), limiter, prov, gostatsd.CacheOptions{
		CacheRefreshPeriod:        time.Hour,
		CacheEvictAfterIdlePeriod: idlePeriod,
		CacheTTL:                  time.Minute,
		CacheNegativeTTL:          time.Minute,
	})
	var wg sync.WaitGroup
	wg.Add(1)
	go func() { defer wg.Done(); ccp.Run(ctx) }()

	var gotMu sync.Mutex
	var got []gostatsd.InstanceInfo
	wg.Add(1)
	go func() {
		defer wg.Done()
		for {
			select {
			case <-ctx.Done():
				return
			case info := <-ccp.InfoSource():
				gotMu.Lock()
				got = append(got, info)
				gotMu.Unlock()
			}
		}
	}()
	gotCount := func() int { gotMu.Lock(); defer gotMu.Unlock(); return len(got) }
	positions := func() int {
		n := 0
		for _, call := range prov.snapshot() {
			n += len(call)
		}
		return n
	}
	waitFor := func(what string, cond func() bool) bool {
		deadline := time.Now().Add(asyncWait)
		for !cond() {
			if time.Now().After(deadline) {
				mon("timed out waiting for %s", what)
				return false
			}
			time.Sleep(500 * time.Microsecond)
		}
		return true
	}

	// phase 1: concurrent submissions
	var submitted []string
	var subWg sync.WaitGroup
	blocked := make(chan string, len(in.Async.Subs))
	for _, list := range in.Async.Subs {
		submitted = append(submitted, list...)
		subWg.Add(1)
		go func(list []string) {
			defer subWg.Done()
			for _, s := range list {
				select {
				case ccp.IpSink() <- gostatsd.Source(s):
				case <-time.After(asyncWait):
					blocked <- s
					return
				}
			}
		}(list)
	}
	subWg.Wait()
	close(blocked)
	for s := range blocked {
		mon("submission of %q was never accepted", s)
	}
	distinct := map[string]bool{}
	for _, s := range submitted {
		distinct[s] = true
	}

	// expected cache content: fold of the answers in call / position order
	expectCache := func() map[string]string {
		exp := map[string]string{}
		for k, call := range prov.snapshot() {
			mode := in.Async.Script[k%len(in.Async.Script)]
			for _, ip := range call {
				a := asyncAnswer(mode, ip, k)
				if old, ok := exp[string(ip)]; a != nil || !ok {
					exp[string(ip)] = idOf(a)
				} else {
					exp[string(ip)] = old
				}
			}
		}
		return exp
	}
	checkAnswers := func(phase string, wantPositions []string) {
		calls := prov.snapshot()
		var pos, want []string
		for k, call := range calls {
			if len(call) < 1 || len(call) > in.Cfg.Limit {
				mon("%s: provider call %d has %d sources, limit %d", phase, k, len(call), in.Cfg.Limit)
			}
			mode := in.Async.Script[k%len(in.Async.Script)]
			for _, ip := range call {
				pos = append(pos, string(ip))
				want = append(want, string(ip)+" -> "+idOf(asyncAnswer(mode, ip, k)))
			}
		}
		if !sortedEq(pos, wantPositions) {
			mon("%s: queried sources %q, expected exactly %q", phase, pos, wantPositions)
		}
		gotMu.Lock()
		var have []string
		for _, info := range got {
			have = append(have, string(info.IP)+" -> "+idOf(info.Instance))
		}
		gotMu.Unlock()
		if !sortedEq(have, want) {
			mon("%s: consumer received %q, one answer per queried position would be %q", phase, have, want)
		}
	}
	checkPeek := func(phase string) {
		exp := expectCache()
		for s := range distinct {
			inst, hit := ccp.Peek(gostatsd.Source(s))
			if !hit {
				mon("%s: Peek(%q) misses although it was answered", phase, s)
			} else if idOf(inst) != exp[s] {
				mon("%s: Peek(%q) serves %s, expected %s", phase, s, idOf(inst), exp[s])
			}
		}
	}

	ok := len(c.Monitors) == 0 && waitFor("one answer per submitted source", func() bool { return gotCount() >= len(submitted) && positions() >= len(submitted) })
	if ok {
		time.Sleep(15 * time.Millisecond) // longer than the batch timer: surplus answers would show now
		checkAnswers("after submissions", submitted)
		checkPeek("after submissions")
	}
	// phase 2: first refresh tick, one hour later: everything is past its TTL, nothing is idle yet
	if ok && len(c.Monitors) == 0 {
		want := append([]string(nil), submitted...)
		for s := range distinct {
			want = append(want, s)
		}
		mock.Add(time.Hour)
		ok = waitFor("the refresh answers", func() bool { return gotCount() >= len(want) && positions() >= len(want) })
		if ok {
			time.Sleep(15 * time.Millisecond)
			checkAnswers("after refresh tick", want)
			checkPeek("after refresh tick")
		}
	}
	// phase 3 with the largest idle period: the second tick evicts nothing and queries everything again
	if ok && len(c.Monitors) == 0 && in.Async.IdleMax {
		want := append([]string(nil), submitted...)
		for s := range distinct {
			want = append(want, s, s)
		}
		mock.Add(time.Hour)
		if waitFor("the answers of the second refresh", func() bool { return gotCount() >= len(want) && positions() >= len(want) }) {
			time.Sleep(15 * time.Millisecond)
			checkAnswers("after second tick", want)
			checkPeek("after second tick")
		}
	}
	// phase 3: second tick: everything has been idle for more than 90 minutes of the ticker's clock
	if ok && len(c.Monitors) == 0 && !in.Async.IdleMax {
		before := positions()
		mock.Add(time.Hour)
		waitFor("eviction of idle entries", func() bool {
			for s := range distinct {
				if _, hit := ccp.Peek(gostatsd.Source(s)); hit {
					return false
				}
			}
			return true
		})
		time.Sleep(15 * time.Millisecond)
		if positions() != before {
			mon("evicted entries were queried again")
		}
	}
	cancel()
	wg.Wait()
	c.Obs = map[string]interface{}{"calls": prov.snapshot(), "answers": gotCount()}
	callTerms := []string{}
	maxBatch := 0
	for _, call := range prov.snapshot() {
		callTerms = append(callTerms, coqSources(call))
		if len(call) > maxBatch {
			maxBatch = len(call)
		}
	}
	if in.Async.Limiter == "burst" && maxBatch > in.Async.Burst {
		c.Class += "+batch>burst"
	}
	c.Coq = hlib.App("AsyncCase", hlib.Z(int64(in.Cfg.Limit)), hlib.List(callTerms))
	c.Nontrivial = len(submitted) >= 2 && len(prov.snapshot()) >= 2
	return c
}
