package main

// The "cfg" stream: the real cmd/gostatsd binary (built from the tree under test with -tags verif) runs its
// configuration code for the instance cache -- setupConfiguration on flags / a TOML file, then
// newCachedInstancesFromViper -- and prints the options the CachedCloudProvider was built with (hook
// cmd/gostatsd/verif_hooks_c12.go, env VERIF_C12_CONFIG).  They must be the configured values, the
// documented defaults where nothing is configured (a flag wins over the file): Coq, CfgCase.  These options
// are what the lock-step stream passes to NewCachedCloudProvider directly and what the model calls config.

import (
	"bytes"
	"encoding/json"
	"fmt"
	"os"
	"os/exec"
	"path/filepath"
	"strconv"
	"strings"
	"time"

	"verifharness/hlib"
)

type cfgStreamIn struct {
	Args []string `json:"args"`
	File string   `json:"file,omitempty"` // TOML
}

var cfgBin string

func repoDir() string {
	if d := os.Getenv("VERIF_REPO"); d != "" {
		return d
	}
	return "/repo"
}

func buildCfgBin() error {
	if cfgBin != "" {
		return nil
	}
	dir, err := os.MkdirTemp("", "c12cfg")
	if err != nil {
		return err
	}
	out := filepath.Join(dir, "gostatsd-verif")
	cmd := exec.Command("go", "build", "-tags", "verif", "-o", out, "./cmd/gostatsd")
	cmd.Dir = repoDir()
	if b, err := cmd.CombinedOutput(); err != nil {
		return fmt.Errorf("go build -tags verif ./cmd/gostatsd in %s: %v\n%s", repoDir(), err, b)
	}
	cfgBin = out
	return nil
}

func cleanupCfgBin() {
	if cfgBin != "" {
		os.RemoveAll(filepath.Dir(cfgBin))
	}
}

// the six parameters, in the order of Corr/C12.v's CfgCase; the first four are durations
var cfgParams = []string{"cloud-cache-refresh-period", "cloud-cache-evict-after-idle-period", "cloud-cache-ttl",
	"cloud-cache-negative-ttl", "max-cloud-requests", "burst-cloud-requests"}

func parseCfgValue(i int, s string) *int64 {
	s = strings.Trim(strings.TrimSpace(s), "\"'")
	if i < 4 {
		d, err := time.ParseDuration(s)
		if err != nil {
			return nil
		}
		v := int64(d)
		return &v
	}
	n, err := strconv.ParseInt(s, 10, 64)
	if err != nil {
		return nil
	}
	return &n
}

// parameters given explicitly: by flag, or by the file when no flag gives them
func givenCfg(in cfgStreamIn) [6]*int64 {
	var out [6]*int64
	for _, line := range strings.Split(in.File, "\n") {
		kv := strings.SplitN(line, "=", 2)
		if len(kv) != 2 {
			continue
		}
		for i, n := range cfgParams {
			if strings.TrimSpace(kv[0]) == n {
				out[i] = parseCfgValue(i, kv[1])
			}
		}
	}
	for _, a := range in.Args {
		kv := strings.SplitN(strings.TrimPrefix(a, "--"), "=", 2)
		if len(kv) != 2 {
			continue
		}
		for i, n := range cfgParams {
			if kv[0] == n {
				out[i] = parseCfgValue(i, kv[1])
			}
		}
	}
	return out
}

func runCfg(in input) hlib.Case {
	in.Kind = "cfg"
	c := hlib.Case{Input: in, Class: "cfg"}
	if in.CfgS == nil {
		c.Class = "cfg/invalid-input"
		return c
	}
	if err := buildCfgBin(); err != nil {
		fmt.Fprintln(os.Stderr, err)
		os.Exit(4) // a build failure of the tree: the driver reports a broken correspondence
	}
	args := append([]string{}, in.CfgS.Args...)
	if in.CfgS.File != "" {
		f := filepath.Join(filepath.Dir(cfgBin), "config.toml")
		if err := os.WriteFile(f, []byte(in.CfgS.File), 0o600); err != nil {
			fmt.Fprintln(os.Stderr, err)
			os.Exit(3)
		}
		args = append(args, "--config-path="+f)
	}
	cmd := exec.Command(cfgBin, args...)
	cmd.Env = append(os.Environ(), "VERIF_C12_CONFIG=1")
	var stdout, stderr bytes.Buffer
	cmd.Stdout, cmd.Stderr = &stdout, &stderr
	err := cmd.Run()
	var got struct {
		Refresh, Idle, TTL, NegTTL int64
		Rate                       float64
		Burst                      int
		Err                        string
	}
	if err != nil || json.Unmarshal(bytes.TrimSpace(stdout.Bytes()), &got) != nil || got.Err != "" {
		c.Monitors = append(c.Monitors, fmt.Sprintf("cmd/gostatsd did not build the instance cache: %v %s %s %s", err, got.Err, stdout.String(), stderr.String()))
		return c
	}
	g := givenCfg(*in.CfgS)
	given := make([]string, 6)
	n := 0
	for i, p := range g {
		given[i] = "None"
		if p != nil {
			given[i] = hlib.Option(hlib.Z(*p), true)
			n++
		}
	}
	gotl := []string{hlib.Z(got.Refresh), hlib.Z(got.Idle), hlib.Z(got.TTL), hlib.Z(got.NegTTL), hlib.Z(int64(got.Rate)), hlib.Z(int64(got.Burst))}
	c.Coq = hlib.App("CfgCase", hlib.List(given), hlib.List(gotl))
	c.Class = fmt.Sprintf("cfg/given=%d", n)
	c.Nontrivial = n >= 2 && got.TTL != got.NegTTL
	c.Obs = got
	return c
}

var cfgDurTexts = []string{"0", "0s", "1ns", "1ms", "50ms", "700ms", "5s", "90s", "1m", "1m0s", "10m", "30m", "1h", "3h",
	"2562047h47m16.854775807s"}

func genCfgStream(r *hlib.Rand) input {
	cs := &cfgStreamIn{}
	var lines []string
	for i, n := range cfgParams {
		val := func() string {
			if i < 4 {
				return hlib.Pick(r, cfgDurTexts)
			}
			return strconv.Itoa(hlib.Pick(r, []int{1, 2, 10, 15, 100}))
		}
		quote := func(s string) string {
			if i < 4 {
				return "\"" + s + "\""
			}
			return s
		}
		switch r.Intn(6) {
		case 0, 1: // flag
			cs.Args = append(cs.Args, "--"+n+"="+val())
		case 2: // config file
			lines = append(lines, n+" = "+quote(val()))
		case 3: // both: the flag wins
			cs.Args = append(cs.Args, "--"+n+"="+val())
			lines = append(lines, n+" = "+quote(val()))
		}
	}
	if len(lines) > 0 {
		cs.File = strings.Join(lines, "\n") + "\n"
	}
	return input{Kind: "cfg", CfgS: cs}
}
