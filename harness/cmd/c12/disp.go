package main

// The "disp" stream: the real dispatcher loop (cloudProviderLookupDispatcher.run, started through the hook
// VerifRunDispatcher on channels this harness owns) is driven event by event by ONE harness goroutine:
// offer a source, see the provider being called (and answer it), take an InstanceInfo, cancel the context,
// see run return.  Every event is a rendezvous with the loop's goroutine, so the recorded order is the order
// in which the loop did these things.  Coq (Corr/C12.v, DispCase) decides whether the trace is a run of
// Model/InstanceDispatcher.v.  The only real-time element is the loop's own 10 ms batch timer.

import (
	"context"
	"fmt"
	"time"

	"golang.org/x/time/rate"

	"github.com/atlassian/gostatsd"
	"github.com/atlassian/gostatsd/pkg/cachedinstances/cloudprovider"

	"verifharness/hlib"
)

// the ops of a disp case are the input's top-level "ops" (so that the driver's shrinker works on them):
// op = send (with s) | step | cancel
type dispOp = opIn

type dispIn struct {
	Limiter string   `json:"limiter"`         // inf | zero-burst (Wait always fails) | burst
	Burst   int      `json:"burst,omitempty"` // bucket size for limiter "burst" (rate 1e6/s: Wait returns within microseconds)
	Script  []string `json:"script"`          // provider outcome per call, cycled (as in the async stream)
}

// mkLimiter builds the rate limiter of a case and returns the bucket size the model is told
// (a limiter with rate Inf never refuses for size: 1).
func mkLimiter(kind string, burst int) (*rate.Limiter, int64) {
	switch kind {
	case "zero-burst":
		return rate.NewLimiter(1, 0), 0
	case "burst":
		return rate.NewLimiter(rate.Limit(1e6), burst), int64(burst)
	}
	return rate.NewLimiter(rate.Inf, 1), 1
}

type dispReply struct {
	m   map[gostatsd.Source]*gostatsd.Instance
	err error
}

// dispProvider hands every call to the harness goroutine and waits for its answer
type dispProvider struct {
	limit   int
	callCh  chan []gostatsd.Source
	replyCh chan dispReply
}

func (p *dispProvider) Name() string           { return "disp" }
func (p *dispProvider) MaxInstancesBatch() int { return p.limit }
func (p *dispProvider) EstimatedTags() int     { return 1 }
func (p *dispProvider) Instance(_ context.Context, ips ...gostatsd.Source) (map[gostatsd.Source]*gostatsd.Instance, error) {
	p.callCh <- append([]gostatsd.Source(nil), ips...)
	r := <-p.replyCh
	return r.m, r.err
}

// scriptedAnswer computes the k-th provider answer; the Coq result lists the map's entries
func scriptedAnswer(mode string, ips []gostatsd.Source, k int) (dispReply, string) {
	var r dispReply
	if mode[0] == 'e' {
		r.err = fmt.Errorf("scripted failure of call %d", k)
	}
	if mode == "nilmap" || mode == "enil" {
		return r, "[]"
	}
	r.m = map[gostatsd.Source]*gostatsd.Instance{}
	var el []string
	for _, ip := range ips {
		if _, dup := r.m[ip]; dup {
			continue
		}
		if inst := asyncAnswer(mode, ip, k); inst != nil {
			r.m[ip] = inst
		} else if (len(ip)+k)%3 == 0 {
			r.m[ip] = nil
		} else {
			continue
		}
		el = append(el, hlib.Pair(hlib.Bytes(string(ip)), coqInst(r.m[ip])))
	}
	return r, hlib.List(el)
}

const dispIdle = time.Second

type dispExec struct {
	in       input
	cancel   context.CancelFunc
	ipCh     chan gostatsd.Source
	infoCh   chan gostatsd.InstanceInfo
	prov     *dispProvider
	done     chan string
	events   []string
	trace    []string
	monitors []string
	// rough mirror, only to generate sensible scripts
	batch, owed, ncalls, nTimerFlush, nFullFlush, nAfterCancel, maxBatch int
	stopped, cancelled, idle                                             bool
	done2                                                                []dispOp
}

func newDispExec(in input) *dispExec {
	ctx, cancel := context.WithCancel(context.Background())
	x := &dispExec{in: in, cancel: cancel, ipCh: make(chan gostatsd.Source), infoCh: make(chan gostatsd.InstanceInfo), done: make(chan string, 1)}
	x.prov = &dispProvider{limit: in.Cfg.Limit, callCh: make(chan []gostatsd.Source), replyCh: make(chan dispReply)}
	limiter, _ := mkLimiter(in.Disp.Limiter, in.Disp.Burst)
	go func() {
		defer func() {
			if r := recover(); r != nil {
				x.done <- fmt.Sprint("panic: ", r)
			} else {
				x.done <- ""
			}
		}()
		cloudprovider.VerifRunDispatcher(ctx, quietLogger(), limiter, x.prov, x.ipCh, x.infoCh)
	}()
	return x
}

func (x *dispExec) rec(coq, human string) {
	x.events = append(x.events, coq)
	x.trace = append(x.trace, human)
	if x.cancelled && human != "cancel" {
		x.nAfterCancel++
	}
}

// event waits for the next thing the loop does; with send != nil it also offers that source.
// It returns true if the source was taken.
func (x *dispExec) event(send *gostatsd.Source) bool {
	var ipCh chan gostatsd.Source
	var s gostatsd.Source
	if send != nil {
		ipCh, s = x.ipCh, *send
	}
	timer := time.NewTimer(dispIdle)
	defer timer.Stop()
	select {
	case ipCh <- s:
		x.batch++
		x.rec(hlib.App("ERecv", hlib.Bytes(string(s))), "recv "+string(s))
		return true
	case ips := <-x.prov.callCh:
		k := x.ncalls
		x.ncalls++
		reply, res := scriptedAnswer(x.in.Disp.Script[k%len(x.in.Disp.Script)], ips, k)
		x.rec(hlib.App("ECall", coqSources(ips), res, hlib.Bool(reply.err != nil)), fmt.Sprintf("call %q", ips))
		if len(ips) >= x.in.Cfg.Limit {
			x.nFullFlush++
		} else {
			x.nTimerFlush++
		}
		x.batch, x.owed = 0, len(ips)
		if len(ips) > x.maxBatch {
			x.maxBatch = len(ips)
		}
		x.prov.replyCh <- reply
	case info := <-x.infoCh:
		x.owed--
		x.rec(hlib.App("EInfo", coqInfo(info)), "info "+string(info.IP)+" -> "+idOf(info.Instance))
	case p := <-x.done:
		x.stopped = true
		if p != "" {
			x.rec("EPanic", p)
		} else {
			x.rec("EStopped", "stopped")
		}
	case <-timer.C:
		x.idle = true
		x.rec("EIdle", "idle")
	}
	return false
}

// quiescent: the mirror says the loop has nothing to do (so a "step" would only wait for the idle timeout)
func (x *dispExec) quiescent() bool {
	return x.stopped || (x.batch == 0 && x.owed <= 0 && !x.cancelled)
}

func (x *dispExec) exec(op dispOp) {
	if x.stopped {
		return
	}
	x.done2 = append(x.done2, op)
	switch op.Op {
	case "send":
		s := gostatsd.Source(op.S)
		for i := 0; i < 64 && !x.stopped; i++ {
			x.idle = false
			if x.event(&s) || x.idle {
				break
			}
		}
	case "step":
		x.event(nil)
	case "cancel":
		if !x.cancelled {
			x.cancelled = true
			x.cancel()
			x.rec("ECancel", "cancel")
		}
	}
}

func (x *dispExec) finish() hlib.Case {
	if !x.stopped {
		if !x.cancelled {
			x.cancelled = true
			x.cancel()
			x.rec("ECancel", "cancel")
		}
		for i := 0; i < 200 && !x.stopped; i++ {
			x.idle = false
			x.event(nil)
			if x.idle {
				x.monitors = append(x.monitors, "the dispatcher did not return after its context was cancelled")
				break
			}
		}
	}
	x.cancel()
	in := x.in
	in.Kind = "disp"
	c := hlib.Case{Input: in, Monitors: x.monitors}
	_, modelBurst := mkLimiter(in.Disp.Limiter, in.Disp.Burst)
	c.Coq = hlib.App("DispCase", hlib.Z(int64(in.Cfg.Limit)), hlib.Z(modelBurst), hlib.List(x.events))
	tr := x.trace
	if len(tr) > 60 {
		tr = tr[len(tr)-60:]
	}
	c.Obs = map[string]interface{}{"events": tr, "calls": x.ncalls}
	flags := ""
	if x.nTimerFlush > 0 {
		flags += "+timer"
	}
	if x.nFullFlush > 0 {
		flags += "+full"
	}
	if x.nAfterCancel > 1 {
		flags += "+cancel-midway"
	}
	if in.Disp.Limiter == "burst" && x.maxBatch > in.Disp.Burst {
		flags += "+batch>burst"
	}
	lim := in.Disp.Limiter
	if lim == "burst" {
		lim = fmt.Sprintf("burst=%d", in.Disp.Burst)
	}
	c.Class = fmt.Sprintf("disp/limit=%d/%s%s", in.Cfg.Limit, lim, flags)
	c.Nontrivial = x.ncalls >= 2 && x.nTimerFlush > 0 && x.nFullFlush > 0
	return c
}

func runDisp(in input) hlib.Case {
	if in.Disp == nil || len(in.Disp.Script) == 0 {
		return hlib.Case{Input: in, Class: "disp/invalid-input"}
	}
	x := newDispExec(in)
	for _, op := range in.Ops {
		x.exec(op)
	}
	return x.finish()
}

func genDisp(r *hlib.Rand) hlib.Case {
	limit := hlib.Pick(r, []int{1, 2, 2, 3, 3, 4, 4, 5, 8, 16, 20, 32, 40})
	if r.Chance(1, 25) {
		limit = hlib.Pick(r, []int{0, -1})
	}
	// the limiter: rate Inf, or a finite (fast) rate with a bucket of 1, 2 or 15 tokens -- smaller than a
	// full batch as often as not --, or a bucket that can never grant
	limiter, lburst := "inf", 0
	switch k := r.Intn(12); {
	case k == 0:
		limiter = "zero-burst"
	case k < 9:
		limiter, lburst = "burst", hlib.Pick(r, []int{1, 1, 2, 2, 15})
	}
	modes := []string{"full", "partial", "empty", "nilmap", "efull", "epartial", "eempty", "enil"}
	script := make([]string, r.Range(1, 4))
	for i := range script {
		script[i] = hlib.Pick(r, modes)
	}
	in := input{Kind: "disp", Cfg: cfgIn{Limit: limit}, Disp: &dispIn{Limiter: limiter, Burst: lburst, Script: script}}
	x := newDispExec(in)
	nops := r.Range(4, 22)
	if limit > 5 {
		nops += limit
	}
	cancelAt := -1
	if r.Chance(1, 2) {
		cancelAt = r.Intn(nops)
	}
	burst := 0
	for i := 0; i < nops && !x.stopped; i++ {
		var op dispOp
		switch {
		case i == cancelAt:
			op = dispOp{Op: "cancel"}
		case burst > 0 || x.quiescent() || r.Chance(2, 5):
			if burst == 0 && r.Chance(1, 2) {
				burst = r.Range(1, 5) // several sources in quick succession: more than the limit as often as not
				if limit > 3 && r.Chance(2, 3) {
					burst = limit + r.Intn(3) // a full batch
				}
			}
			if burst > 0 {
				burst--
			}
			op = dispOp{Op: "send", S: hlib.Pick(r, sourcePool[:4])}
		default:
			op = dispOp{Op: "step"}
		}
		x.exec(op)
	}
	x.in.Ops = x.done2
	return x.finish()
}
