// C12: the instance cache answers every lookup once and never forgets good data on error.
//
// Two kinds of cases:
//
//	lock   a real CachedCloudProvider is driven label by label through the verif hooks
//	       (handleInstanceInfo, doRefresh, doLookup, Peek, emit; Run is not started) with a scripted
//	       provider; after every label the harness records the label's output, the cache, the four
//	       statistics counters and the two stacks, and Coq replays the labels on the LTS of
//	       Model/InstanceCache.v and compares (Corr/C12.v).  time.Now() is read by the code directly,
//	       so the harness keeps every stamp in the wall-clock domain at a known offset from its
//	       virtual clock (re-based before every step that reads the clock) and replaces the stamps a
//	       step wrote by exactly "that step's clock reading (+ the TTL)" (hooks VerifShiftStamps,
//	       VerifExactStamps, VerifSetStamps); refresh ticks get virtual now + offset.  Stamps are
//	       exact to the nanosecond and are compared too.  Periods: half-second grid, milliseconds
//	       (1 ms .. 1.5 s, with Peeks 1-20 ms apart across ticks), hours, MaxInt64 and MaxInt64/2 ns.
//	async  the real Run + lookup dispatcher goroutines with a mock clock for the refresh ticker and
//	       concurrent submitters; checked by monitors (every submitted source queried, one answer
//	       per position of every provider call, batch sizes, good data kept, eviction); the sequence
//	       of provider calls must be that of a run of Model/InstanceDispatcher.v (Coq).
//	cfg    the real cmd/gostatsd binary resolves the four cache options (+ limiter) from flags / TOML
//	       (cfg.go); Coq checks they are the configured values or the documented defaults.
//	disp   the real dispatcher loop alone, driven event by event (disp.go); Coq decides whether the
//	       recorded trace (receives, provider calls, infos, cancellation, return) is a run of
//	       Model/InstanceDispatcher.v.
package main

import (
	"encoding/json"
	"fmt"
	"os"
	"time"

	"verifharness/hlib"
)

type cfgIn struct {
	TTL    int64 `json:"ttl"` // nanoseconds
	NegTTL int64 `json:"negttl"`
	Idle   int64 `json:"idle"`
	Limit  int   `json:"limit"`
}

type instIn struct {
	ID   string   `json:"id"`
	Tags []string `json:"tags"`
}

type resEntry struct {
	S string  `json:"s"`
	I *instIn `json:"i"` // nil = key bound to a nil *Instance
}

type opIn struct {
	Op     string     `json:"op"` // submit send batch handle return refresh peek
	S      string     `json:"s,omitempty"`
	Adv    int64      `json:"adv,omitempty"`    // half seconds of virtual time that pass before the op
	AdvMs  int64      `json:"adv_ms,omitempty"` // plus milliseconds
	Res    []resEntry `json:"res,omitempty"`
	NilMap bool       `json:"nilmap,omitempty"`
	Err    bool       `json:"err,omitempty"`
}

type asyncIn struct {
	Subs    [][]string `json:"subs"`              // one list of sources per submitting goroutine
	Script  []string   `json:"script"`            // provider outcome per call, cycled: full partial empty nilmap efull epartial eempty enil
	Limiter string     `json:"limiter,omitempty"` // "" / inf | burst
	Burst   int        `json:"burst,omitempty"`
	IdleMax bool       `json:"idle_max,omitempty"` // CacheEvictAfterIdlePeriod = MaxInt64 ns
}

type input struct {
	Kind  string       `json:"kind"` // lock | async | disp | cfg
	Cfg   cfgIn        `json:"cfg"`
	Ops   []opIn       `json:"ops,omitempty"`
	Async *asyncIn     `json:"async,omitempty"`
	Disp  *dispIn      `json:"disp,omitempty"`
	CfgS  *cfgStreamIn `json:"cfgs,omitempty"`
}

func main() {
	a := hlib.ParseArgs()
	em := hlib.NewEmitter()
	defer em.Close()
	defer cleanupCfgBin()
	ncfg := 0
	switch a.Mode {
	case "gen":
		r := hlib.NewRand(a.Seed)
		for i := 0; i < a.N; i++ {
			cr := r.Fork()
			if i%12 == 11 {
				em.Emit(runAsync(genAsync(cr)))
				continue
			}
			if i%12 == 5 {
				em.Emit(genDisp(cr))
				continue
			}
			if i%40 == 2 && ncfg < 30 { // a few dozen runs of the real binary's configuration code
				ncfg++
				em.Emit(runCfg(genCfgStream(cr)))
				continue
			}
			em.Emit(genLock(cr, a.Tier))
		}
	case "run":
		for _, raw := range a.Inputs {
			var in input
			if err := json.Unmarshal(raw, &in); err != nil {
				fmt.Fprintln(os.Stderr, "bad input:", err)
				os.Exit(2)
			}
			switch in.Kind {
			case "async":
				em.Emit(runAsync(in))
			case "disp":
				em.Emit(runDisp(in))
			case "cfg":
				em.Emit(runCfg(in))
			default:
				em.Emit(runLock(in))
			}
		}
	}
}

const second = int64(time.Second)
