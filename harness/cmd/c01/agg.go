package main

import (
	"fmt"
	"math"
	"strings"
	"time"

	"github.com/atlassian/gostatsd"
	"github.com/atlassian/gostatsd/pkg/statsd"

	"verifharness/hlib"
	"verifharness/mmgen"
)

// aggOp is one step on a real MetricAggregator.
type aggOp struct {
	Op  string     `json:"op"` // merge | flush | reset
	Dps []mmgen.Dp `json:"dps,omitempty"`
	Now int64      `json:"now,omitempty"`
}

func genAgg(r *hlib.Rand) input {
	in := input{Stream: "agg"}
	for i := range in.Exp {
		in.Exp[i] = hlib.Pick(r, []int64{0, 0, 1, 60, 250, 1000})
	}
	in.HistLimit = hlib.Pick(r, []int{0, 0, 2, 10})
	u := mmgen.NewUniverse(r, r.Range(1, 4), r.Range(1, 3), r.Range(0, 1))
	// latency-histogram timers: their own branches in Flush and Reset
	if r.Chance(3, 4) {
		u.Tags = append(u.Tags, hlib.Pick(r, histogramTags))
		if r.Bool() {
			u.Tags = append(u.Tags, hlib.Pick(r, histogramTags))
		}
	}
	now := int64(1000)
	n := r.Range(4, 16)
	for i := 0; i < n; i++ {
		switch k := r.Intn(10); {
		case k < 5:
			nd := r.Range(0, 8)
			o := aggOp{Op: "merge"}
			for j := 0; j < nd; j++ {
				d := u.Dp(r, now-300, now)
				if d.Type == int(gostatsd.COUNTER) && r.Bool() { // general float regime (see sys.go)
					d.Value = math.Float64bits(generalValue(r))
					d.Rate = math.Float64bits(generalRate(r))
				}
				o.Dps = append(o.Dps, d)
			}
			in.Ops = append(in.Ops, o)
		case k < 7:
			in.Ops = append(in.Ops, aggOp{Op: "flush"})
		default:
			now += int64(hlib.Pick(r, []int{0, 1, 30, 60, 61, 200, 400}))
			if r.Chance(2, 3) {
				in.Ops = append(in.Ops, aggOp{Op: "flush"})
			}
			in.Ops = append(in.Ops, aggOp{Op: "reset", Now: now})
		}
	}
	return in
}

func runAgg(in input) hlib.Case {
	c := hlib.Case{Input: in, Class: "agg"}
	for _, o := range in.Ops {
		for _, d := range o.Dps {
			if d.Type == int(gostatsd.TIMER) && strings.Contains(strings.Join(d.Tags, ","), "gsd_histogram:") {
				c.Class = "agg/hist"
			}
		}
	}
	exp := func(i int) time.Duration { return time.Duration(in.Exp[i]) }
	agg := statsd.NewMetricAggregator([]float64{90}, exp(0), exp(2), exp(3), exp(1), gostatsd.TimerSubtypes{}, uint32(in.HistLimit))
	cur := int64(0)
	agg.VerifC01SetNow(func() time.Time { return time.Unix(0, cur) })
	dump := func() (s string) {
		agg.Process(func(m *gostatsd.MetricMap) { s = mmgen.Entries(m) })
		return
	}
	var ops []string
	resets, flushes := 0, 0
	msg := hlib.Recover(func() {
		for _, o := range in.Ops {
			switch o.Op {
			case "merge":
				agg.ReceiveMap(mmgen.Build(o.Dps))
				ds := make([]string, len(o.Dps))
				for i, d := range o.Dps {
					ds[i] = d.Coq()
				}
				ops = append(ops, hlib.App("AMerge", hlib.List(ds)))
			case "flush":
				agg.Flush(time.Second)
				ops = append(ops, hlib.App("AFlush", dump()))
				flushes++
			case "reset":
				cur = o.Now
				agg.Reset()
				ops = append(ops, hlib.App("AReset", hlib.Z(o.Now), dump()))
				resets++
			}
		}
	})
	if msg != "" {
		c.Monitors = append(c.Monitors, "aggregator panicked: "+msg)
	}
	c.Coq = hlib.App("AggCase", hlib.App("MkCfg", hlib.Nat(1), hlib.Z(in.Exp[0]), hlib.Z(in.Exp[1]), hlib.Z(in.Exp[2]), hlib.Z(in.Exp[3])), hlib.List(ops))
	c.Nontrivial = resets >= 1 && flushes >= 1 && len(in.Ops) >= 5
	c.Obs = map[string]string{"ops": fmt.Sprint(len(in.Ops))}
	return c
}
