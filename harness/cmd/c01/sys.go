package main

import (
	"context"
	"fmt"
	"io"
	"math"
	"math/big"
	"runtime"
	"sort"
	"strconv"
	"strings"
	"sync"
	"sync/atomic"
	"time"

	"github.com/atlassian/gostatsd"
	"github.com/atlassian/gostatsd/pkg/stats"
	"github.com/atlassian/gostatsd/pkg/statsd"
	"github.com/atlassian/gostatsd/verifhooks"
	"github.com/sirupsen/logrus"

	"verifharness/hlib"
	"verifharness/lexgen"
	"verifharness/mmgen"
)

type dgram struct {
	IP  string `json:"ip"`
	TS  int64  `json:"ts"`
	Msg string `json:"msg"` // ASCII only (the generator never emits other bytes)
}

// ---------------------------------------------------------------------------------------
// generator: well-formed metric lines in the exact float regime (DESIGN 3.1)

var rateStrings = []string{"1", "1.0", "0.5", "0.25", "0.125", "0.1", "0.2", "0.05", "0.01"}
var sources = []string{"10.0.0.1", "10.0.0.2", "::1", ""}

// lineUniverse keeps the number of distinct series of a run small (a few names x a few tag
// lists x one or two sender addresses), so that every series receives several datapoints that
// fall into different flushes.
type lineUniverse struct {
	Names, TagLists, Members, IPs []string
}

func newLineUniverse(r *hlib.Rand) *lineUniverse {
	mu := mmgen.NewUniverse(r, r.Range(2, 5), r.Range(1, 3), 0)
	u := &lineUniverse{Names: mu.Names, Members: mu.Members[:r.Range(2, 5)]}
	nl := r.Range(1, 3)
	for i := 0; i < nl; i++ {
		nt := []int{0, 1, 1, 2, 3}[r.Intn(5)]
		ts := make([]string, nt)
		for j := range ts {
			ts[j] = hlib.Pick(r, mu.Tags)
		}
		u.TagLists = append(u.TagLists, strings.Join(ts, ","))
	}
	// latency-histogram timers (tag gsd_histogram:<bucket list>) take their own branches in
	// Flush and Reset: two runs out of three have a tag list with such a tag (well-formed bucket
	// lists, lists with malformed items, an empty list)
	if r.Chance(2, 3) {
		ht := hlib.Pick(r, histogramTags)
		if r.Bool() && len(mu.Tags) > 0 {
			if r.Bool() {
				ht = hlib.Pick(r, mu.Tags) + "," + ht
			} else {
				ht = ht + "," + hlib.Pick(r, mu.Tags)
			}
		}
		u.TagLists = append(u.TagLists, ht)
	}
	// the same series written with a repeated tag and with its tags in another order
	for _, tl := range append([]string(nil), u.TagLists...) {
		parts := strings.Split(tl, ",")
		if tl == "" || !r.Chance(2, 3) {
			continue
		}
		switch r.Intn(3) {
		case 0:
			u.TagLists = append(u.TagLists, tl+","+parts[0]) // x,y,x
		case 1:
			u.TagLists = append(u.TagLists, parts[0]+","+tl) // x,x,y
		default:
			rev := make([]string, len(parts))
			for i, p := range parts {
				rev[len(parts)-1-i] = p
			}
			u.TagLists = append(u.TagLists, strings.Join(rev, ",")+","+parts[len(parts)-1])
		}
	}
	// tag lists with a host: tag (the source under ignore-host, an ordinary tag otherwise), next to
	// the lists without one; several senders
	nh := r.Range(1, 2)
	for i := 0; i < nh; i++ {
		ht := "host:" + hlib.Pick(r, []string{"web1", "web2", "db", ""})
		switch r.Intn(4) {
		case 0:
			ht = hlib.Pick(r, mu.Tags) + "," + ht
		case 1:
			ht = ht + "," + hlib.Pick(r, mu.Tags)
		case 2:
			ht = ht + ",host:other"
		}
		u.TagLists = append(u.TagLists, ht)
	}
	ni := r.Range(2, 3)
	for i := 0; i < ni; i++ {
		u.IPs = append(u.IPs, hlib.Pick(r, sources))
	}
	return u
}

// stampSource does to an accepted metric what DatagramParser.handleDatagram does (monitors only;
// the verdict uses Model/Datagram.v): the sender's address, or with ignore-host the value of the
// first host: tag, which is removed (no such tag: no source).
func stampSource(m *gostatsd.Metric, ip string, ignoreHost bool) {
	if !ignoreHost {
		m.Source = gostatsd.Source(ip)
		return
	}
	m.Source = ""
	for idx, tag := range m.Tags {
		if strings.HasPrefix(tag, "host:") {
			m.Source = gostatsd.Source(tag[5:])
			if len(m.Tags) > 1 {
				m.Tags = append(m.Tags[:idx], m.Tags[idx+1:]...)
			} else {
				m.Tags = nil
			}
			return
		}
	}
}

var histogramTags = []string{"gsd_histogram:10_20_50", "gsd_histogram:-5_0_2.5_1e3", "gsd_histogram:1", "gsd_histogram:10_abc_50_", "gsd_histogram:", "gsd_histogram:_x_", "gsd_histogram:100_10_100"}

// General float regime for counters (and for single-sample timers): arbitrary sample rates in
// (0, 1] and values up to ~10^6, |value/rate| < 2^53.  int64(value/rate) is computed once per
// sample and summed in int64, so counter totals are exact whatever the rate; the model computes
// the same quotient bit-exactly with primitive floats.
func generalRate(r *hlib.Rand) float64 {
	switch r.Intn(6) {
	case 0, 1:
		return float64(r.Range(1, 100)) / 100 // 0.13, 0.17, 0.07, 0.03, 0.37, 0.99 ...
	case 2:
		return hlib.Pick(r, []float64{0.13, 0.17, 0.07, 0.03, 0.37, 0.99, 0.3, 0.7, 0.9, 0.11, 0.33, 0.001, 0.003})
	case 3:
		return float64(r.Range(1, 1000)) / 1000
	default:
		f := r.Float()
		if f < 1e-6 {
			f = 1e-6
		}
		return f
	}
}

func generalValue(r *hlib.Rand) float64 {
	switch r.Intn(6) {
	case 0, 1:
		return float64(r.Range(1, 300)) // 13, 255, 7 ...
	case 2:
		return float64(r.Range(-1000000, 1000000))
	case 3:
		return float64(r.Range(-100000000, 100000000)) / 100 // two decimals, not dyadic
	case 4:
		return -float64(r.Range(1, 300))
	default:
		return float64(r.Range(0, 1000000)) * r.Float()
	}
}

func fmtFloat(f float64) string { return strconv.FormatFloat(f, 'f', -1, 64) }

// soloTimerLine is a timer line of a series that receives exactly this one sample in the whole
// run, so its sampled count is the double 1/rate itself (no float summation) and an arbitrary
// rate can be compared exactly.
func soloTimerLine(r *hlib.Rand, k int) string {
	return fmt.Sprintf("zsolo%d:%s|ms|@%s", k, fmtFloat(generalValue(r)), strconv.FormatFloat(generalRate(r), 'g', -1, 64))
}

func genLine(r *hlib.Rand, u *lineUniverse) string {
	if r.Chance(1, 40) { // the reject path of the parser: the line is dropped, nothing else is
		return hlib.Pick(r, []string{"", "nocolon", "a:1|x", "b:zz|c", "c:1|c|@0", ":1|c"})
	}
	name := hlib.Pick(r, u.Names)
	if name[0] == '_' {
		name = "u" + name[1:]
	}
	ty := hlib.Pick(r, []string{"c", "c", "c", "ms", "ms", "h", "s", "s", "g"})
	var sb strings.Builder
	sb.WriteString(name)
	sb.WriteByte(':')
	general := ty == "c" && r.Bool()
	pairedRate := ""
	if ty == "s" {
		sb.WriteString(strings.ReplaceAll(hlib.Pick(r, u.Members), "|", ""))
	} else if general && r.Chance(1, 3) {
		// value/rate is an integer in exact arithmetic (13 @0.13, 255 @0.17, 7 @0.07): the
		// rounding of the float quotient decides which side of it truncation lands on
		k, m := r.Range(1, 99), r.Range(1, 3000)
		if r.Chance(1, 5) {
			m = -m
		}
		sb.WriteString(strconv.Itoa(k * m))
		pairedRate = strconv.FormatFloat(float64(k)/100, 'g', -1, 64)
	} else if general {
		sb.WriteString(fmtFloat(generalValue(r)))
	} else {
		sb.WriteString(fmtFloat(mmgen.ExactValue(r)))
	}
	sb.WriteByte('|')
	sb.WriteString(ty)
	rate := func() {
		if pairedRate != "" {
			sb.WriteString("|@" + pairedRate)
		} else if general {
			if r.Chance(5, 6) {
				sb.WriteString("|@" + strconv.FormatFloat(generalRate(r), 'g', -1, 64))
			}
		} else if r.Chance(1, 2) {
			sb.WriteString("|@" + hlib.Pick(r, rateStrings))
		}
	}
	tags := func() {
		if tl := hlib.Pick(r, u.TagLists); tl != "" || r.Chance(1, 8) {
			sb.WriteString("|#" + tl)
		}
	}
	if r.Bool() {
		rate()
		tags()
	} else {
		tags()
		rate()
	}
	return sb.String()
}

func genSys(r *hlib.Rand, tier string) input {
	in := input{Stream: "sys"}
	in.Parsers = r.Range(1, 8)
	in.Shards = r.Range(1, 7)
	in.Queue = r.Range(0, 4)
	in.InChan = r.Range(0, 4)
	in.Dispatchers = r.Range(1, 4)
	in.MaxFlushes = r.Range(1, 7)
	switch r.Intn(3) {
	case 0: // nothing ever expires: zeroed series are reported again by every later flush
	case 1: // everything expires at every Reset (the aggregator's clock is the wall clock, the
		// datagram timestamps are tiny)
		in.Exp = [4]int64{1, 1, 1, 1}
	default:
		for i := range in.Exp {
			in.Exp[i] = int64(r.Intn(2))
		}
	}
	in.HistLimit = hlib.Pick(r, []int{0, 0, 2, 10})
	// half of the runs have one slow worker (any shard, mostly not shard 0): its queue is full
	// while the others are free and parsers block on it in the middle of a dispatch
	if r.Bool() {
		in.SlowShard = r.Intn(in.Shards)
		if in.Shards > 1 && r.Chance(2, 3) {
			in.SlowShard = r.Range(1, in.Shards-1)
		}
		in.SlowMicros = r.Range(30, 250)
	}
	// half of the runs have a backend that is slow to read the map it is handed (inside
	// SendMetricsAsync, before it calls back), and more flushes: whatever the aggregator does to the
	// handed-over data in the meantime shows
	if r.Bool() {
		in.CopyMicros = r.Range(40, 300)
		in.MaxFlushes = r.Range(4, 10)
	}
	// the tag stage: default (no static tags, no filters) in two runs of three
	if r.Chance(1, 3) {
		in.StaticTags = [][]string{{"env:prod"}, {"env:prod", "region:x"}, {"a", "env:prod"}, {"dc:1", "dc:1"}}[r.Intn(4)]
	} else {
		in.StaticTags = []string{}
	}
	// the parser configuration an operator can choose
	in.IgnoreHost = r.Bool()
	in.Namespace = hlib.Pick(r, []string{"", "", "ns", "a.b"})
	in.EstTags = hlib.Pick(r, []int{0, 4})
	in.Sched = r.U64()
	u := newLineUniverse(r)
	nlines := r.Range(40, 220)
	solo := 0
	ts := int64(1000)
	for nlines > 0 {
		nd := r.Range(1, 3)
		var batch []dgram
		for d := 0; d < nd && nlines > 0; d++ {
			nl := r.Range(1, 8)
			if nl > nlines {
				nl = nlines
			}
			nlines -= nl
			lines := make([]string, nl)
			for i := range lines {
				if solo < 3 && r.Chance(1, 40) {
					lines[i] = soloTimerLine(r, solo)
					solo++
				} else {
					lines[i] = genLine(r, u)
				}
			}
			msg := strings.Join(lines, "\n")
			if r.Bool() {
				msg += "\n"
			}
			ts += int64(r.Intn(3))
			batch = append(batch, dgram{IP: hlib.Pick(r, u.IPs), TS: ts, Msg: msg})
		}
		in.Batches = append(in.Batches, batch)
	}
	return in
}

// ---------------------------------------------------------------------------------------
// wrappers around the real components (delegation only)

// aggWrap tells the capturing backend which worker owns the map it is handed: the pointer of
// MetricAggregator.metricMap is fixed for the life of an aggregator.
type aggWrap struct {
	inner *statsd.MetricAggregator
	id    int
	ids   *sync.Map
	slow  time.Duration // scripted: this worker is slow to merge, so its queue backs up
	log   []wev         // appended by the worker goroutine only; read after the run
}

// wev is what a worker was seen doing (its own order is the real order: one goroutine).
type wev struct {
	Kind  byte // 'M' ReceiveMap of a split of batch B, 'C' command starts (Flush), 'E' command ends (Reset returned)
	Batch int
}

// batchOf reads the batch a map came from off the timestamp of any of its entries: the
// datagrams of batch b are stamped 1000 + 100 b + index.
func batchOf(mm *gostatsd.MetricMap) int {
	ts := gostatsd.Nanotime(-1)
	mm.Counters.Each(func(_, _ string, x gostatsd.Counter) { ts = x.Timestamp })
	mm.Timers.Each(func(_, _ string, x gostatsd.Timer) { ts = x.Timestamp })
	mm.Gauges.Each(func(_, _ string, x gostatsd.Gauge) { ts = x.Timestamp })
	mm.Sets.Each(func(_, _ string, x gostatsd.Set) { ts = x.Timestamp })
	if ts < 1000 {
		return -1
	}
	return int(ts-1000) / 100
}

func (a *aggWrap) ReceiveMap(mm *gostatsd.MetricMap) {
	a.log = append(a.log, wev{'M', batchOf(mm)})
	if a.slow > 0 {
		time.Sleep(a.slow)
	}
	a.inner.ReceiveMap(mm)
}
func (a *aggWrap) Flush(d time.Duration) {
	a.log = append(a.log, wev{'C', 0})
	a.inner.Flush(d)
}
func (a *aggWrap) Reset() {
	a.inner.Reset()
	a.log = append(a.log, wev{'E', 0})
}
func (a *aggWrap) Process(f statsd.ProcessFunc) {
	a.inner.Process(func(m *gostatsd.MetricMap) {
		a.ids.Store(m, a.id)
		f(m)
	})
}

// handlerWrap (one per parser) logs which batch its parser dispatches and counts completed
// DispatchMetricMap calls (parser quiescence).
type handlerWrap struct {
	next       gostatsd.PipelineHandler // the real TagHandler in front of the real BackendHandler, as statsd.go wires them
	dispatched *int64
	log        []int // batches, appended by the parser goroutine only
}

func (h *handlerWrap) DispatchMetricMap(ctx context.Context, mm *gostatsd.MetricMap) {
	h.log = append(h.log, batchOf(mm))
	h.next.DispatchMetricMap(ctx, mm)
	atomic.AddInt64(h.dispatched, 1)
}
func (h *handlerWrap) EstimatedTags() int                                   { return h.next.EstimatedTags() }
func (h *handlerWrap) DispatchEvent(ctx context.Context, e *gostatsd.Event) { h.next.DispatchEvent(ctx, e) }
func (h *handlerWrap) WaitForEvents()                                       { h.next.WaitForEvents() }

// tagStage does to an accepted metric what TagHandler does without filters (monitors only; the
// verdict applies the same documented rule in Corr/C01.v): first occurrences of its tags, then the
// static tags that are not among them.
func tagStage(m *gostatsd.Metric, static []string) {
	seen := map[string]bool{}
	var out gostatsd.Tags
	for _, t := range m.Tags {
		if !seen[t] {
			seen[t] = true
			out = append(out, t)
		}
	}
	for _, t := range static {
		if !seen[t] {
			seen[t] = true
			out = append(out, t)
		}
	}
	m.Tags = out
	m.TagsKey = ""
}

type captured struct {
	flush, worker int
	mm            *gostatsd.MetricMap
}

type capBackend struct {
	mu      sync.Mutex
	flushNo *int64
	ids     *sync.Map
	shards  int
	delay   time.Duration // scripted: a backend that takes its time to read the map (synchronously, as the interface demands)
	caps    []captured
}

func (b *capBackend) Name() string { return "capture" }
func (b *capBackend) SendEvent(context.Context, *gostatsd.Event) error {
	return nil
}
func (b *capBackend) SendMetricsAsync(ctx context.Context, mm *gostatsd.MetricMap, cb gostatsd.SendCallback) {
	// Backend contract ("must not read/write MetricMap asynchronously"): everything is read before
	// this call returns - the aggregator resets the map right after - but a backend may well take a
	// while over it.
	if b.delay > 0 {
		time.Sleep(b.delay)
	}
	cp := deepCopy(mm)
	w := -1
	if v, ok := b.ids.Load(mm); ok {
		w = v.(int)
	} else {
		// not the aggregator's own map (some copy of it): the worker is read off the first series
		// (Coq checks the routing of every series with its own bucket function)
		w = -2
		cp.Counters.Each(func(n, k string, _ gostatsd.Counter) { w = gostatsd.Bucket(n, k, b.shards) })
		cp.Timers.Each(func(n, k string, _ gostatsd.Timer) { w = gostatsd.Bucket(n, k, b.shards) })
		cp.Gauges.Each(func(n, k string, _ gostatsd.Gauge) { w = gostatsd.Bucket(n, k, b.shards) })
		cp.Sets.Each(func(n, k string, _ gostatsd.Set) { w = gostatsd.Bucket(n, k, b.shards) })
	}
	f := int(atomic.LoadInt64(b.flushNo))
	b.mu.Lock()
	b.caps = append(b.caps, captured{f, w, cp}) // w == -2: an empty map from nowhere, attributed after the run
	b.mu.Unlock()
	cb(nil)
}

func deepCopy(mm *gostatsd.MetricMap) *gostatsd.MetricMap {
	cp := gostatsd.NewMetricMap(false)
	mm.Counters.Each(func(n, k string, c gostatsd.Counter) {
		if cp.Counters[n] == nil {
			cp.Counters[n] = map[string]gostatsd.Counter{}
		}
		cp.Counters[n][k] = gostatsd.Counter{Value: c.Value, Timestamp: c.Timestamp}
	})
	mm.Gauges.Each(func(n, k string, g gostatsd.Gauge) {
		if cp.Gauges[n] == nil {
			cp.Gauges[n] = map[string]gostatsd.Gauge{}
		}
		cp.Gauges[n][k] = gostatsd.Gauge{Value: g.Value, Timestamp: g.Timestamp}
	})
	mm.Timers.Each(func(n, k string, t gostatsd.Timer) {
		if cp.Timers[n] == nil {
			cp.Timers[n] = map[string]gostatsd.Timer{}
		}
		cp.Timers[n][k] = gostatsd.Timer{Values: append([]float64(nil), t.Values...), SampledCount: t.SampledCount, Timestamp: t.Timestamp}
	})
	mm.Sets.Each(func(n, k string, s gostatsd.Set) {
		if cp.Sets[n] == nil {
			cp.Sets[n] = map[string]gostatsd.Set{}
		}
		vs := make(map[string]struct{}, len(s.Values))
		for m := range s.Values {
			vs[m] = struct{}{}
		}
		cp.Sets[n][k] = gostatsd.Set{Values: vs, Timestamp: s.Timestamp}
	})
	return cp
}

func jitter(r *hlib.Rand, heavy bool) {
	switch k := r.Intn(8); {
	case k < 2:
	case k < 5:
		for i := 0; i < k; i++ {
			runtime.Gosched()
		}
	case k < 7:
		time.Sleep(time.Duration(r.Intn(40)) * time.Microsecond)
	default:
		if heavy {
			time.Sleep(time.Duration(r.Intn(400)) * time.Microsecond)
		}
	}
}

// ---------------------------------------------------------------------------------------
// the harness's own account of what was sent (monitors only; the verdict on totals is Coq's)

type tot struct {
	counter int64
	vals    []float64
	samp    float64
	members map[string]bool
}

func seriesID(ty gostatsd.MetricType, name, key string) string {
	return fmt.Sprintf("%d|%q|%q", ty, name, key)
}

func linesOf(msg string) []string {
	// the counting rule of handleDatagram: segments ended by '\n', plus a non-empty last segment
	var out []string
	for {
		i := strings.IndexByte(msg, '\n')
		if i < 0 {
			if msg != "" {
				out = append(out, msg)
			}
			return out
		}
		out = append(out, msg[:i])
		msg = msg[i+1:]
	}
}

func sentAccount(in input) (sent map[string]*tot, dispatches int, lines []string, accepted int) {
	ll := verifhooks.NewLineLexer(4)
	sent = map[string]*tot{}
	for _, b := range in.Batches {
		n := 0
		for _, d := range b {
			for _, line := range linesOf(d.Msg) {
				lines = append(lines, line)
				m, _, err := ll.LexLine([]byte(line), in.Namespace)
				if err != nil || m == nil {
					continue
				}
				n++
				stampSource(m, d.IP, in.IgnoreHost)
				tagStage(m, in.StaticTags)
				id := seriesID(m.Type, m.Name, gostatsd.FormatTagsKey(m.Source, m.Tags))
				t := sent[id]
				if t == nil {
					t = &tot{members: map[string]bool{}}
					sent[id] = t
				}
				switch m.Type {
				case gostatsd.COUNTER:
					t.counter += int64(m.Value / m.Rate)
				case gostatsd.TIMER:
					t.vals = append(t.vals, m.Value)
					t.samp += 1 / m.Rate
				case gostatsd.SET:
					t.members[m.StringValue] = true
				}
				m.Done()
			}
		}
		accepted += n
		if n > 0 {
			dispatches++
		}
	}
	return
}

func oracleTable(lines []string) string {
	cands := map[string]bool{}
	for _, line := range lines {
		if i := strings.IndexByte(line, ':'); i >= 0 {
			rest := line[i+1:]
			if j := strings.IndexByte(rest, '|'); j >= 0 {
				cands[rest[:j]] = true
			}
		}
		for _, f := range strings.Split(line, "|") {
			if strings.HasPrefix(f, "@") {
				cands[f[1:]] = true
			}
		}
	}
	keys := make([]string, 0, len(cands))
	for s := range cands {
		keys = append(keys, s)
	}
	sort.Strings(keys)
	el := make([]string, len(keys))
	for i, s := range keys {
		el[i] = hlib.Pair(hlib.Bytes(s), lexgen.PF(s))
	}
	return hlib.List(el)
}

func ratOf(f float64) (string, string) {
	if math.IsNaN(f) || math.IsInf(f, 0) {
		return "(0)%Z", "1%positive"
	}
	var q big.Rat
	q.SetFloat64(f)
	return "(" + q.Num().String() + ")%Z", q.Denom().String() + "%positive"
}

func oentries(mm *gostatsd.MetricMap) string {
	var el []string
	mm.Counters.Each(func(n, k string, c gostatsd.Counter) {
		el = append(el, hlib.App("OC", hlib.Bytes(n), hlib.Bytes(k), hlib.Z(c.Value)))
	})
	mm.Gauges.Each(func(n, k string, g gostatsd.Gauge) {
		el = append(el, hlib.App("OG", hlib.Bytes(n), hlib.Bytes(k)))
	})
	mm.Timers.Each(func(n, k string, t gostatsd.Timer) {
		vs := make([]string, len(t.Values))
		for i, v := range t.Values {
			vs[i] = hlib.F64(v)
		}
		num, den := ratOf(t.SampledCount)
		el = append(el, hlib.App("OT", hlib.Bytes(n), hlib.Bytes(k), hlib.List(vs), num, den))
	})
	mm.Sets.Each(func(n, k string, s gostatsd.Set) {
		ms := make([]string, 0, len(s.Values))
		for m := range s.Values {
			ms = append(ms, m)
		}
		sort.Strings(ms)
		el = append(el, hlib.App("OS", hlib.Bytes(n), hlib.Bytes(k), hlib.StrList(ms)))
	})
	sort.Strings(el)
	return hlib.List(el)
}

// ---------------------------------------------------------------------------------------

func runSys(in input, rep uint64) hlib.Case {
	c := hlib.Case{Input: in}
	// the timestamps are the harness's: batch b, datagram d -> 1000 + 100 b + d (see batchOf)
	stamped := make([][]dgram, len(in.Batches))
	for b := range in.Batches {
		stamped[b] = append([]dgram(nil), in.Batches[b]...)
		for d := range stamped[b] {
			stamped[b][d].TS = 1000 + 100*int64(b) + int64(d%100)
		}
	}
	in.Batches = stamped
	sent, wantDispatches, lines, accepted := sentAccount(in)

	logrus.SetOutput(io.Discard)
	logger := logrus.New()
	logger.SetOutput(io.Discard)

	ctx, cancel := context.WithCancel(context.Background())
	defer cancel()
	var flushNo int64
	var ids sync.Map
	backend := &capBackend{flushNo: &flushNo, ids: &ids, shards: in.Shards, delay: time.Duration(in.CopyMicros) * time.Microsecond}
	backends := []gostatsd.Backend{backend}
	nAgg := 0
	var aggs []*aggWrap
	exp := func(i int) time.Duration { return time.Duration(in.Exp[i]) }
	af := statsd.AggregatorFactoryFunc(func() statsd.Aggregator {
		a := statsd.NewMetricAggregator([]float64{90}, exp(0), exp(2), exp(3), exp(1), gostatsd.TimerSubtypes{}, uint32(in.HistLimit))
		w := &aggWrap{inner: a, id: nAgg, ids: &ids}
		if in.SlowMicros > 0 && nAgg == in.SlowShard {
			w.slow = time.Duration(in.SlowMicros) * time.Microsecond
		}
		aggs = append(aggs, w)
		nAgg++
		return w
	})
	bh := statsd.NewBackendHandler(backends, 4, in.Shards, in.Queue, af)
	var dispatched int64
	tagHandler := statsd.NewTagHandler(bh, append(gostatsd.Tags(nil), in.StaticTags...), nil)
	hws := make([]*handlerWrap, in.Parsers)
	flusher := statsd.NewMetricFlusher(time.Second, 0, false, bh, backends)
	statser := stats.NewNullStatser()
	inCh := make(chan []*statsd.Datagram, in.InChan)

	var bg sync.WaitGroup
	bg.Add(1)
	go func() { defer bg.Done(); bh.Run(ctx) }()
	for p := 0; p < in.Parsers; p++ {
		hws[p] = &handlerWrap{next: tagHandler, dispatched: &dispatched}
		dp := statsd.NewDatagramParser(inCh, in.Namespace, in.IgnoreHost, in.EstTags, hws[p], 0, false, logger)
		bg.Add(1)
		go func() { defer bg.Done(); dp.Run(ctx) }()
	}

	sr := hlib.NewRand(in.Sched + rep*0x9E3779B97F4A7C15)
	var sentBatches int64
	var wedged int32
	finished := make(chan struct{})
	go func() {
		defer close(finished)
		// dispatchers
		var dw sync.WaitGroup
		nd := in.Dispatchers
		if nd < 1 {
			nd = 1
		}
		for d := 0; d < nd; d++ {
			dr := sr.Fork()
			dw.Add(1)
			go func(d int) {
				defer dw.Done()
				for i := d; i < len(in.Batches); i += nd {
					jitter(dr, false)
					batch := make([]*statsd.Datagram, len(in.Batches[i]))
					for j, g := range in.Batches[i] {
						batch[j] = &statsd.Datagram{IP: gostatsd.Source(g.IP), Msg: []byte(g.Msg), Timestamp: gostatsd.Nanotime(g.TS), DoneFunc: func() {}}
					}
					atomic.AddInt64(&sentBatches, 1)
					select {
					case inCh <- batch:
					case <-ctx.Done():
						return
					}
				}
			}(d)
		}
		// flusher: flushes at random points of the arrival stream
		fr := sr.Fork()
		th := make([]int, in.MaxFlushes)
		for i := range th {
			th[i] = fr.Intn(len(in.Batches) + 1)
		}
		sort.Ints(th)
		flusherDone := make(chan struct{})
		go func() {
			defer close(flusherDone)
			for _, t := range th {
				for atomic.LoadInt64(&sentBatches) < int64(t) && ctx.Err() == nil {
					runtime.Gosched()
				}
				jitter(fr, true)
				atomic.AddInt64(&flushNo, 1)
				flusher.VerifC01FlushData(ctx, time.Second, statser)
			}
		}()
		dw.Wait()
		<-flusherDone
		// quiescence: every batch parsed and dispatched, every queue drained (a worker that is
		// still inside ReceiveMap finishes it before it can take the flush command)
		for (atomic.LoadInt64(&dispatched) < int64(wantDispatches) || bh.VerifC01Queued() > 0) && ctx.Err() == nil {
			time.Sleep(20 * time.Microsecond)
		}
		// two final flushes: whatever a Reset failed to clear shows up again in the second one
		for i := 0; i < 2; i++ {
			atomic.AddInt64(&flushNo, 1)
			flusher.VerifC01FlushData(ctx, time.Second, statser)
		}
	}()
	select {
	case <-finished:
	case <-time.After(20 * time.Second):
		atomic.StoreInt32(&wedged, 1)
		c.Monitors = append(c.Monitors, fmt.Sprintf("pipeline wedged: no quiescence / flush did not return within 20s (dispatched %d of %d maps, %d queued)",
			atomic.LoadInt64(&dispatched), wantDispatches, bh.VerifC01Queued()))
	}
	cancel()
	if atomic.LoadInt32(&wedged) == 0 {
		bg.Wait()
	}

	backend.mu.Lock()
	caps := append([]captured(nil), backend.caps...)
	backend.mu.Unlock()
	// empty maps that are not an aggregator's own map carry nothing to tell the worker by: within a
	// flush they go to the workers that flush has not heard from
	used := map[[2]int]bool{}
	for _, cp := range caps {
		if cp.worker >= 0 {
			used[[2]int{cp.flush, cp.worker}] = true
		}
	}
	for i := range caps {
		if caps[i].worker == -2 {
			w := 0
			for used[[2]int{caps[i].flush, w}] {
				w++
			}
			caps[i].worker = w
			used[[2]int{caps[i].flush, w}] = true
		}
	}

	// ---- monitors
	got := map[string]*tot{}
	flushesWithData := map[int]bool{}
	seenInFlush := map[string]bool{}
	note := func(cp captured, ty gostatsd.MetricType, n, k string) *tot {
		id := seriesID(ty, n, k)
		fid := fmt.Sprintf("%d/%s", cp.flush, id)
		if seenInFlush[fid] {
			c.Monitors = append(c.Monitors, fmt.Sprintf("series %s reported twice in flush %d", id, cp.flush))
		}
		seenInFlush[fid] = true
		if sent[id] == nil {
			c.Monitors = append(c.Monitors, fmt.Sprintf("series %s reported in flush %d but never sent", id, cp.flush))
		}
		t := got[id]
		if t == nil {
			t = &tot{members: map[string]bool{}}
			got[id] = t
		}
		return t
	}
	for _, cp := range caps {
		cp.mm.Counters.Each(func(n, k string, x gostatsd.Counter) {
			note(cp, gostatsd.COUNTER, n, k).counter += x.Value
			if x.Value != 0 {
				flushesWithData[cp.flush] = true
			}
		})
		cp.mm.Gauges.Each(func(n, k string, x gostatsd.Gauge) { note(cp, gostatsd.GAUGE, n, k) })
		cp.mm.Timers.Each(func(n, k string, x gostatsd.Timer) {
			t := note(cp, gostatsd.TIMER, n, k)
			t.vals = append(t.vals, x.Values...)
			t.samp += x.SampledCount
			if len(x.Values) > 0 {
				flushesWithData[cp.flush] = true
			}
		})
		cp.mm.Sets.Each(func(n, k string, x gostatsd.Set) {
			t := note(cp, gostatsd.SET, n, k)
			for m := range x.Values {
				t.members[m] = true
				flushesWithData[cp.flush] = true
			}
		})
	}
	ids2 := make([]string, 0, len(sent))
	for id := range sent {
		ids2 = append(ids2, id)
	}
	sort.Strings(ids2)
	for _, id := range ids2 {
		s, g := sent[id], got[id]
		if g == nil {
			c.Monitors = append(c.Monitors, "series "+id+" was sent but never reported")
			continue
		}
		sort.Float64s(s.vals)
		sort.Float64s(g.vals)
		if s.counter != g.counter || fmt.Sprint(s.vals) != fmt.Sprint(g.vals) || s.samp != g.samp || fmt.Sprint(sortedKeys(s.members)) != fmt.Sprint(sortedKeys(g.members)) {
			c.Monitors = append(c.Monitors, fmt.Sprintf("datapoints lost or duplicated for series %s: sent (count %d, values %v, sampled %v, members %q), flushed in total (count %d, values %v, sampled %v, members %q)",
				id, s.counter, s.vals, s.samp, sortedKeys(s.members), g.counter, g.vals, g.samp, sortedKeys(g.members)))
		}
	}
	if len(c.Monitors) > 6 {
		c.Monitors = append(c.Monitors[:6], fmt.Sprintf("... and %d more", len(c.Monitors)-6))
	}

	// ---- the case for Coq
	bl := make([]string, len(in.Batches))
	for i, b := range in.Batches {
		dl := make([]string, len(b))
		for j, d := range b {
			dl[j] = hlib.App("DG", hlib.Bytes(d.IP), hlib.Z(d.TS), hlib.Bytes(d.Msg))
		}
		bl[i] = hlib.List(dl)
	}
	sort.SliceStable(caps, func(i, j int) bool {
		if caps[i].flush != caps[j].flush {
			return caps[i].flush < caps[j].flush
		}
		return caps[i].worker < caps[j].worker
	})
	fl := make([]string, len(caps))
	for i, cp := range caps {
		w := cp.worker
		if w < 0 {
			w = 9999
		}
		fl[i] = "(" + hlib.Nat(cp.flush) + ", " + hlib.Nat(w) + ", " + oentries(cp.mm) + ")"
	}
	// ---- the recorded run: per-goroutine logs and a proposed interleaving
	plog := make([][]int, len(hws))
	for p, h := range hws {
		if h != nil {
			plog[p] = h.log
		}
	}
	wlog := make([][]wev, in.Shards)
	for i := range wlog {
		if i < len(aggs) {
			wlog[i] = aggs[i].log
		}
	}
	ticks := int(atomic.LoadInt64(&flushNo))
	trace := "None"
	if atomic.LoadInt32(&wedged) == 0 { // the goroutines have stopped: the logs are stable
		// every received map must be the split of a dispatched batch for that worker, received
		// once; every split that should exist must have been received
		anomalies := logAnomalies(in, plog, wlog)
		if len(anomalies) > 0 {
			if len(anomalies) > 4 {
				anomalies = append(anomalies[:4], fmt.Sprintf("... and %d more", len(anomalies)-4))
			}
			c.Monitors = append(c.Monitors, anomalies...)
		} else {
			witness, stuck := buildWitness(in.Shards, in.Queue, plog, wlog, ticks)
			if stuck != "" {
				c.Monitors = append(c.Monitors, "the recorded per-goroutine trace is not a run of the configured pipeline (parsers "+
					fmt.Sprint(in.Parsers)+", queue "+fmt.Sprint(in.Queue)+"): "+stuck)
			}
			trace = "(Some " + traceTerm(in, witness, plog, wlog, ticks) + ")"
		}
	}
	c.Coq = hlib.App("SysCase", hlib.Nat(in.Shards), hlib.Bytes(in.Namespace), hlib.Bool(in.IgnoreHost), hlib.StrList(in.StaticTags), hlib.List(bl), oracleTable(lines), hlib.List(fl), trace)
	expClass := "mixed"
	if in.Exp == [4]int64{} {
		expClass = "persist"
	} else if in.Exp == [4]int64{1, 1, 1, 1} {
		expClass = "expire"
	}
	q := "q>0"
	if in.Queue == 0 {
		q = "q=0"
	}
	c.Class = "sys/" + expClass + "/" + q
	c.Nontrivial = len(flushesWithData) >= 2 && len(sent) >= 2
	histLines := 0
	for _, l := range lines {
		if strings.Contains(l, "gsd_histogram:") && (strings.Contains(l, "|ms") || strings.Contains(l, "|h")) {
			histLines++
		}
	}
	if histLines > 0 {
		c.Class += "/hist"
	}
	if in.SlowMicros > 0 {
		c.Class += "/slow"
	}
	if in.CopyMicros > 0 {
		c.Class += "/slowbackend"
	}
	if in.IgnoreHost {
		c.Class += "/ignorehost"
	}
	if len(in.StaticTags) > 0 {
		c.Class += "/statictags"
	}
	c.Obs = map[string]interface{}{"lines": len(lines), "accepted": accepted, "series": len(sent), "flushes": atomic.LoadInt64(&flushNo), "histogram_timer_lines": histLines,
		"flushes_with_data": len(flushesWithData), "maps_captured": len(caps)}
	return c
}

func sortedKeys(m map[string]bool) []string {
	out := make([]string, 0, len(m))
	for k := range m {
		out = append(out, k)
	}
	sort.Strings(out)
	return out
}
