// C01: every datapoint lands in exactly one flush (no loss, no duplication).
//
// Stream "sys" (system level): the real BackendHandler + workers (real MetricAggregators) +
// MetricFlusher.flushData + N DatagramParser.Run goroutines fed through the real input channel,
// with a capturing backend that deep-copies every flushed map synchronously inside
// SendMetricsAsync.  Dispatcher goroutines push datagram batches while a flusher goroutine
// flushes concurrently; after quiescence one final flush.  The case handed to Coq is: shard
// count, the datagram batches, the strconv oracle table and every captured (flush, worker, map).
//
// Stream "agg" (component lock-step): ReceiveMap / Flush+Process / Reset(now) on one real
// MetricAggregator with a scripted clock, dumped after every Flush and Reset.
package main

import (
	"encoding/json"
	"fmt"
	"os"

	"verifharness/hlib"
)

func main() {
	a := hlib.ParseArgs()
	em := hlib.NewEmitter()
	defer em.Close()
	switch a.Mode {
	case "gen":
		r := hlib.NewRand(a.Seed)
		for i := 0; i < a.N; i++ {
			rr := r.Fork()
			stream := a.Extra["stream"]
			if stream == "" {
				stream = "sys"
				if i%5 == 4 {
					stream = "agg"
				}
			}
			var in input
			if stream == "agg" {
				in = genAgg(rr)
			} else {
				in = genSys(rr, a.Tier)
			}
			em.Emit(runInput(in, 1))
		}
	case "run":
		for _, raw := range a.Inputs {
			var in input
			if err := json.Unmarshal(raw, &in); err != nil {
				fmt.Fprintln(os.Stderr, "bad input:", err)
				os.Exit(2)
			}
			// replay / shrinking: the schedule of the goroutines is not part of the input, so a
			// racy failure is searched for by repetition; the first repetition on which one of
			// the harness monitors fires is the one emitted (otherwise the last one)
			em.Emit(runInput(in, 25))
		}
	}
}

// input is the union of the two streams' inputs.
type input struct {
	Stream string `json:"stream"`
	// sys
	Parsers     int       `json:"parsers,omitempty"`
	Shards      int       `json:"shards,omitempty"`
	Queue       int       `json:"queue"`
	InChan      int       `json:"inchan"`
	Dispatchers int       `json:"dispatchers,omitempty"`
	MaxFlushes  int       `json:"maxflushes"`
	Exp         [4]int64  `json:"exp"` // counter, timer, gauge, set expiry interval (ns; 0 = never)
	HistLimit   int       `json:"histlimit"` // aggregator histogram bucket limit
	SlowShard   int       `json:"slowshard"`
	SlowMicros  int       `json:"slowus"` // > 0: worker SlowShard sleeps this long in every ReceiveMap
	IgnoreHost  bool      `json:"ignorehost"` // parser configuration, as an operator can set it
	Namespace   string    `json:"namespace"`
	EstTags     int       `json:"esttags"`
	StaticTags  []string  `json:"statictags"` // TagHandler: tags added to every metric (default: none)
	CopyMicros  int       `json:"copyus"` // > 0: the backend is slow: it reads the map it is handed this long after the call (still inside SendMetricsAsync)
	Sched       uint64    `json:"sched"`
	Batches     [][]dgram `json:"batches"`
	// agg
	Ops []aggOp `json:"ops,omitempty"`
}

func runInput(in input, reps int) hlib.Case {
	if in.Stream == "agg" {
		return runAgg(in)
	}
	var c hlib.Case
	for i := 0; i < reps; i++ {
		c = runSys(in, uint64(i))
		if len(c.Monitors) > 0 {
			break
		}
	}
	return c
}
