package main

import (
	"fmt"
	"sort"
	"strings"

	"github.com/atlassian/gostatsd"
	"github.com/atlassian/gostatsd/verifhooks"

	"verifharness/hlib"
)

// buildWitness proposes an interleaving of the recorded per-goroutine logs that is a run of
// Model/PipelineBounded.v (parsers holding one batch, blocking sends in worker order, queue
// capacity q, q = 0 rendezvous, command hand-over in worker order, busy workers), filling in the
// channel sends, which cannot be observed.  Given the logs, every resource has a determined
// sequence (parser p: its batches; queue i: FIFO = merge order of worker i; worker i: its log;
// flusher: hand-over in index order), every enabled step stays enabled until it is taken and
// steps of different goroutines commute, so taking any enabled step until none is left finds a
// run whenever one exists.  Coq does not trust this: it replays the labels with bstep and
// compares the per-goroutine projections with the logs.
func buildWitness(nshards, q int, plog [][]int, wlog [][]wev, ticks int) (labels []string, stuck string) {
	type split struct{ shard, batch int }
	// which shards got a split of batch b, and the FIFO order of every queue
	shardsOf := map[int][]int{}
	fifo := make([][]int, nshards)
	for i := 0; i < nshards && i < len(wlog); i++ {
		for _, e := range wlog[i] {
			if e.Kind == 'M' {
				shardsOf[e.Batch] = append(shardsOf[e.Batch], i)
				fifo[i] = append(fifo[i], e.Batch)
			}
		}
	}
	for b := range shardsOf {
		sort.Ints(shardsOf[b])
	}
	pending := make([][]split, len(plog))
	pp := make([]int, len(plog))
	queue := make([][]int, nshards)
	enq := make([]int, nshards)
	wp := make([]int, nshards)
	busy := make([]bool, nshards)
	active, next, ticked := false, 0, 0
	emit := func(f string, a ...interface{}) { labels = append(labels, fmt.Sprintf(f, a...)) }
	for progress := true; progress; {
		progress = false
		for p := range plog {
			if len(pending[p]) == 0 && pp[p] < len(plog[p]) {
				b := plog[p][pp[p]]
				pp[p]++
				for _, i := range shardsOf[b] {
					pending[p] = append(pending[p], split{i, b})
				}
				emit("(WParse %s %s)", hlib.Nat(p), hlib.Nat(b))
				progress = true
			}
			if len(pending[p]) > 0 {
				h := pending[p][0]
				i := h.shard
				if q == 0 {
					if !busy[i] && wp[i] < len(wlog[i]) && wlog[i][wp[i]] == (wev{'M', h.batch}) {
						emit("(WRdv %s)", hlib.Nat(p))
						wp[i]++
						pending[p] = pending[p][1:]
						progress = true
					}
				} else if len(queue[i]) < q && enq[i] < len(fifo[i]) && fifo[i][enq[i]] == h.batch {
					emit("(WEnq %s)", hlib.Nat(p))
					queue[i] = append(queue[i], h.batch)
					enq[i]++
					pending[p] = pending[p][1:]
					progress = true
				}
			}
		}
		for i := 0; i < nshards && i < len(wlog); i++ {
			if wp[i] >= len(wlog[i]) {
				continue
			}
			switch e := wlog[i][wp[i]]; e.Kind {
			case 'M':
				if q > 0 && !busy[i] && len(queue[i]) > 0 && queue[i][0] == e.Batch {
					emit("(WMerge %s)", hlib.Nat(i))
					queue[i] = queue[i][1:]
					wp[i]++
					progress = true
				}
			case 'C':
				if active && next == i && !busy[i] {
					emit("(WCmd %s)", hlib.Nat(i))
					busy[i] = true
					next++
					wp[i]++
					progress = true
				}
			case 'E':
				if busy[i] {
					emit("(WExec %s)", hlib.Nat(i))
					busy[i] = false
					wp[i]++
					progress = true
				}
			}
		}
		idle := !active || next >= nshards
		for _, b := range busy {
			idle = idle && !b
		}
		if idle && ticked < ticks {
			emit("WTick")
			active, next = true, 0
			ticked++
			progress = true
		}
	}
	var left []string
	for p := range plog {
		if pp[p] < len(plog[p]) || len(pending[p]) > 0 {
			left = append(left, fmt.Sprintf("parser %d at %d/%d holding %v", p, pp[p], len(plog[p]), pending[p]))
		}
	}
	for i := 0; i < nshards && i < len(wlog); i++ {
		if wp[i] < len(wlog[i]) {
			left = append(left, fmt.Sprintf("worker %d at %d/%d next %c%d queue %v", i, wp[i], len(wlog[i]), wlog[i][wp[i]].Kind, wlog[i][wp[i]].Batch, queue[i]))
		}
	}
	if ticked < ticks {
		left = append(left, fmt.Sprintf("flusher at %d/%d", ticked, ticks))
	}
	return labels, strings.Join(left, "; ")
}

func traceTerm(in input, labels []string, plog [][]int, wlog [][]wev, ticks int) string {
	pl := make([]string, len(plog))
	for p, l := range plog {
		el := make([]string, len(l))
		for k, b := range l {
			el[k] = hlib.Nat(b)
		}
		pl[p] = hlib.List(el)
	}
	wl := make([]string, len(wlog))
	for i, l := range wlog {
		el := make([]string, len(l))
		for k, e := range l {
			switch e.Kind {
			case 'M':
				el[k] = hlib.App("WM", hlib.Nat(e.Batch))
			case 'C':
				el[k] = "WC"
			default:
				el[k] = "WE"
			}
		}
		wl[i] = hlib.List(el)
	}
	return hlib.App("STrace", hlib.Nat(in.Parsers), hlib.Nat(in.Queue), hlib.Z(in.Exp[0]), hlib.Z(in.Exp[1]), hlib.Z(in.Exp[2]), hlib.Z(in.Exp[3]),
		hlib.List(labels), hlib.List(pl), hlib.List(wl), hlib.Nat(ticks))
}

// logAnomalies cross-checks the logs before a trace is built from them: the parsers' dispatched
// batches against what the workers received.  Which shards a batch has splits for is worked out
// from the lines with the implementation's Bucket (monitor only; Coq's totals / trace comparison
// use the model's own bucket).
func logAnomalies(in input, plog [][]int, wlog [][]wev) (out []string) {
	ll := verifhooks.NewLineLexer(4)
	want := map[[2]int]bool{} // (shard, batch) that must be received
	dispatched := map[int]int{}
	for _, l := range plog {
		for _, b := range l {
			dispatched[b]++
		}
	}
	for b, n := range dispatched {
		if b < 0 || b >= len(in.Batches) {
			out = append(out, fmt.Sprintf("a parser dispatched a map of unknown batch %d", b))
		} else if n > 1 {
			out = append(out, fmt.Sprintf("batch %d was dispatched %d times", b, n))
		}
	}
	for b, batch := range in.Batches {
		if dispatched[b] == 0 {
			continue
		}
		for _, d := range batch {
			for _, line := range linesOf(d.Msg) {
				m, _, err := ll.LexLine([]byte(line), in.Namespace)
				if err != nil || m == nil {
					continue
				}
				stampSource(m, d.IP, in.IgnoreHost)
				tagStage(m, in.StaticTags)
				want[[2]int{gostatsd.Bucket(m.Name, gostatsd.FormatTagsKey(m.Source, m.Tags), in.Shards), b}] = true
				m.Done()
			}
		}
	}
	got := map[[2]int]int{}
	for i, l := range wlog {
		for _, e := range l {
			if e.Kind != 'M' {
				continue
			}
			if e.Batch < 0 || e.Batch >= len(in.Batches) {
				out = append(out, fmt.Sprintf("worker %d received a map that belongs to no batch (an empty or foreign map)", i))
				continue
			}
			got[[2]int{i, e.Batch}]++
		}
	}
	var keys [][2]int
	for k := range got {
		keys = append(keys, k)
	}
	for k := range want {
		if got[k] == 0 {
			keys = append(keys, k)
		}
	}
	sort.Slice(keys, func(a, b int) bool { return keys[a][1] < keys[b][1] || keys[a][1] == keys[b][1] && keys[a][0] < keys[b][0] })
	for _, k := range keys {
		switch {
		case got[k] > 1:
			out = append(out, fmt.Sprintf("worker %d received the split of batch %d %d times", k[0], k[1], got[k]))
		case got[k] == 1 && !want[k]:
			out = append(out, fmt.Sprintf("worker %d received a split of batch %d, which has no series for that shard", k[0], k[1]))
		case got[k] == 0:
			out = append(out, fmt.Sprintf("the split of batch %d for shard %d was dispatched but never received", k[1], k[0]))
		}
	}
	return out
}
