// C05: lines of a datagram are independent and parsed data never aliases the buffer.
//
// A real statsd.DatagramParser is constructed as the server does (NewDatagramParser over a
// channel of datagram batches, a capturing PipelineHandler, Run and RunMetricsContext as
// goroutines) and fed with batches of datagrams whose bytes live in an arena owned by the
// harness.  Recorded per batch: the dispatched MetricMap (canonical dump), the dispatched events,
// the three counters parser.metrics_received / events_received / bad_lines_seen as reported
// through the Statser; per datagram: the bytes of its region of the arena when DoneFunc runs.
//
// Monitors (direct violations, independent of the model):
//   - a byte of the arena outside the datagram's own region changed while it was parsed (frame);
//   - DoneFunc not called exactly once per datagram;
//   - ALIASING: every DoneFunc overwrites the datagram's region with PRNG bytes at once (the
//     receiver may recycle the buffer from that moment, while the parsed metrics are still
//     waiting to be folded into the map); after the case's batches the whole arena is
//     overwritten again and further datagrams are pushed through the same parser, so that every
//     pooled Metric and its tag buffer is reused; then every dispatched map and event is
//     rendered again and compared with its rendering at dispatch time;
//   - the parser goroutine panicked or stopped taking batches.
//
// Stream "lexseq": ONE real lexer (verifhooks.LineLexer: a Lexer with its own MetricPool) is
// handed line after line (tagged metric then event, event then metric, rejected lines in between,
// changing namespaces); accepted metrics are returned to the pool after every field has been
// overwritten with stale values, as parser and MetricMap leave them.  The (metric, event, error)
// triple of every call is compared in lock-step with the stateful model LexState.run_line.
package main

import (
	"context"
	"encoding/json"
	"fmt"
	"os"
	"sort"
	"strconv"
	"strings"
	"sync"
	"time"

	"github.com/atlassian/gostatsd"
	"github.com/atlassian/gostatsd/pkg/statsd"
	"github.com/atlassian/gostatsd/pkg/stats"
	"github.com/atlassian/gostatsd/verifhooks"
	"github.com/sirupsen/logrus"

	"verifharness/hlib"
	"verifharness/lexgen"
	"verifharness/mmgen"
)

// ---------------------------------------------------------------------------------------
// input

type lineIn struct {
	B     []int  `json:"b"`
	NL    bool   `json:"nl,omitempty"`    // followed by '\n'
	End   int    `json:"end,omitempty"`   // 1 = closes the datagram, 2 = closes datagram and batch
	IP    string `json:"ip,omitempty"`    // of the datagram this line closes
	TS    int64  `json:"ts,omitempty"`    //   "
	Off   int    `json:"off,omitempty"`   // padding in front of the datagram in the arena
	Slack int    `json:"slack,omitempty"` // spare bytes behind it
	From  string `json:"from,omitempty"`  // stream recv over a scripted conn: sender of the datagram this line closes
	NS    string `json:"lns,omitempty"`   // stream lexseq: namespace of this Lexer.Run call
	Put   bool   `json:"put,omitempty"`   // stream lexseq: an accepted metric goes back to the pool (with stale fields)
}

type input struct {
	NS         string   `json:"ns"`
	IgnoreHost bool     `json:"ignore_host"`
	EstTags    int      `json:"est_tags"`
	Scramble   uint64   `json:"scramble"` // seed of the bytes written over the buffers
	Stream     string   `json:"stream"`
	Lines      []lineIn `json:"lines"`
	// stream recv: real receiver in front of the parser(s); lines = datagrams (end=1), bursts (end=2)
	Readers int   `json:"readers,omitempty"`
	Parsers int   `json:"parsers,omitempty"`
	Batch   int   `json:"batch,omitempty"`
	DelayUs int   `json:"delay_us,omitempty"` // the handler sleeps this long per dispatched map
	QuietMs []int `json:"quiet_ms,omitempty"` // silence after each burst
	Sock    string `json:"sock,omitempty"`    // "udp" (loopback socket, default) | "script" (scripted net.PacketConn, per-datagram senders)
}

type dgram struct {
	ip         string
	ts         int64
	msg        []byte
	off, slack int
	from       string
}

func assemble(in input) [][]dgram {
	var batches [][]dgram
	var batch []dgram
	var cur []byte
	open := false
	closeDg := func(l lineIn) {
		batch = append(batch, dgram{ip: l.IP, ts: l.TS, msg: cur, off: l.Off, slack: l.Slack, from: l.From})
		cur, open = nil, false
	}
	for _, l := range in.Lines {
		open = true
		cur = append(cur, lexgen.FromInts(l.B)...)
		if l.NL {
			cur = append(cur, '\n')
		}
		if l.End >= 1 {
			closeDg(l)
		}
		if l.End == 2 {
			batches = append(batches, batch)
			batch = nil
		}
	}
	if open {
		closeDg(lineIn{IP: "9.9.9.9", TS: 1700000000000000000})
	}
	if len(batch) > 0 {
		batches = append(batches, batch)
	}
	return batches
}

// ---------------------------------------------------------------------------------------
// capturing handler and statser

type capture struct {
	mu     sync.Mutex
	maps   []*gostatsd.MetricMap
	dumps  []string
	sizes  []int
	events []*gostatsd.Event
	evText []string
	est    int
}

func (c *capture) DispatchMetricMap(ctx context.Context, mm *gostatsd.MetricMap) {
	c.mu.Lock()
	defer c.mu.Unlock()
	c.maps = append(c.maps, mm)
	c.dumps = append(c.dumps, mmgen.Entries(mm))
	c.sizes = append(c.sizes, mmgen.Size(mm))
}
func (c *capture) EstimatedTags() int { return c.est }
func (c *capture) DispatchEvent(ctx context.Context, e *gostatsd.Event) {
	c.mu.Lock()
	defer c.mu.Unlock()
	c.events = append(c.events, e)
	c.evText = append(c.evText, eventCoq(e))
}
func (c *capture) WaitForEvents() {}

func eventCoq(e *gostatsd.Event) string {
	return hlib.App("Build_event", hlib.Bytes(e.Title), hlib.Bytes(e.Text), hlib.Z(e.DateHappened), hlib.Bytes(string(e.Source)),
		hlib.Bytes(e.AggregationKey), hlib.N(uint64(e.Priority)), hlib.Bytes(e.SourceTypeName), hlib.N(uint64(e.AlertType)), hlib.StrList(e.Tags))
}

// statser: the parser reports its counters through Report (a pointer to the counter) and Gauge
// after every flush notification; the flush channel is driven by the harness.
type capStatser struct {
	stats.NullStatser
	flush   chan time.Duration
	mu      sync.Mutex
	metrics uint64
	events  uint64
	bad     uint64
}

func (s *capStatser) RegisterFlush() (<-chan time.Duration, func()) { return s.flush, func() {} }
func (s *capStatser) Report(name string, value *uint64, tags gostatsd.Tags) {
	s.mu.Lock()
	defer s.mu.Unlock()
	switch name {
	case "parser.metrics_received":
		s.metrics = *value
	case "parser.events_received":
		s.events = *value
	}
}
func (s *capStatser) Gauge(name string, value float64, tags gostatsd.Tags) {
	s.mu.Lock()
	defer s.mu.Unlock()
	if name == "parser.bad_lines_seen" {
		s.bad = uint64(value)
	}
}
func (s *capStatser) WithTags(tags gostatsd.Tags) stats.Statser { return s }

// ---------------------------------------------------------------------------------------
// running one case

const stepTimeout = 10 * time.Second

type runner struct {
	in      chan []*statsd.Datagram
	done    chan struct{}
	mdone   chan struct{}
	cancel  context.CancelFunc
	cap     *capture
	st      *capStatser
	panicked string
}

func newRunner(in input) *runner {
	r := &runner{in: make(chan []*statsd.Datagram), done: make(chan struct{}), mdone: make(chan struct{}),
		cap: &capture{est: in.EstTags / 2}, st: &capStatser{flush: make(chan time.Duration)}}
	logger := logrus.New()
	logger.SetOutput(os.Stderr)
	logger.SetLevel(logrus.PanicLevel)
	ctx, cancel := context.WithCancel(context.Background())
	ctx = stats.NewContext(ctx, r.st)
	r.cancel = cancel
	dp := statsd.NewDatagramParser(r.in, in.NS, in.IgnoreHost, in.EstTags-in.EstTags/2, r.cap, 0, false, logger)
	go func() {
		defer close(r.done)
		defer func() {
			if p := recover(); p != nil {
				r.panicked = fmt.Sprint(p)
			}
		}()
		dp.Run(ctx)
	}()
	go func() {
		defer close(r.mdone)
		dp.RunMetricsContext(ctx)
	}()
	return r
}

// send hands a batch to the parser; false = the parser no longer takes batches.
func (r *runner) send(b []*statsd.Datagram) bool {
	select {
	case r.in <- b:
		return true
	case <-r.done:
		return false
	case <-time.After(stepTimeout):
		return false
	}
}

// sync returns when every batch sent before has been processed completely.
func (r *runner) sync() bool { return r.send([]*statsd.Datagram{}) }

func (r *runner) readCounters() (m, e, b uint64, ok bool) {
	for i := 0; i < 2; i++ { // the second send completes when the first round of reports is finished
		select {
		case r.st.flush <- time.Second:
		case <-time.After(stepTimeout):
			return 0, 0, 0, false
		}
	}
	r.st.mu.Lock()
	defer r.st.mu.Unlock()
	return r.st.metrics, r.st.events, r.st.bad, true
}

func (r *runner) stop() {
	r.cancel()
	select {
	case <-r.done:
	case <-time.After(stepTimeout):
	}
	select {
	case <-r.mdone:
	case <-time.After(stepTimeout):
	}
}

func physLines(msg []byte) []string {
	var out []string
	s := string(msg)
	for {
		i := strings.IndexByte(s, '\n')
		if i < 0 {
			if len(s) > 0 {
				out = append(out, s)
			}
			return out
		}
		out = append(out, s[:i])
		s = s[i+1:]
	}
}

// oracle candidates of one line (same rule as lexgen.OracleTable)
func oracleCands(line string, cands map[string]bool) {
	if i := strings.IndexByte(line, ':'); i >= 0 {
		rest := line[i+1:]
		if j := strings.IndexByte(rest, '|'); j >= 0 {
			cands[rest[:j]] = true
		}
	}
	for _, f := range strings.Split(line, "|") {
		if strings.HasPrefix(f, "@") {
			cands[f[1:]] = true
		}
	}
}

func runOne(em *hlib.Emitter, in input) {
	if in.Stream == "lexseq" {
		runLexSeq(em, in)
		return
	}
	if in.Stream == "recv" {
		runRecv(em, in)
		return
	}
	batches := assemble(in)
	c := hlib.Case{Input: in}
	scr := hlib.NewRand(in.Scramble ^ 0x5ca1ab1e)
	fill := func(b []byte) {
		for i := range b {
			b[i] = byte(scr.U64())
		}
	}
	r := newRunner(in)
	defer r.stop()
	lo := time.Now().Unix()

	cands := map[string]bool{}
	var batchTerms []string
	var arenas [][]byte
	nLines, nChanged, nEmpty, maxLines := 0, 0, 0, 0
	alive := true
	type obsText struct {
		Batch  int    `json:"batch"`
		Map    string `json:"map,omitempty"`
		Events int    `json:"events"`
		Ctr    string `json:"ctr"`
	}
	var obs []obsText
	for bi, batch := range batches {
		if !alive {
			break
		}
		// arena of the batch: pad | msg | slack | pad | msg | slack ...
		size := 0
		for _, d := range batch {
			size += d.off + len(d.msg) + d.slack
		}
		arena := make([]byte, size)
		fill(arena)
		arenas = append(arenas, arena)
		offs := make([]int, len(batch))
		p := 0
		for i, d := range batch {
			p += d.off
			offs[i] = p
			copy(arena[p:], d.msg)
			p += len(d.msg) + d.slack
			for _, l := range physLines(d.msg) {
				oracleCands(l, cands)
				nLines++
				if l == "" {
					nEmpty++
				}
			}
			if n := len(physLines(d.msg)); n > maxLines {
				maxLines = n
			}
		}
		expect := append([]byte(nil), arena...)
		doneCalls := make([]int, len(batch))
		after := make([][]byte, len(batch))
		slackBytes := make([][]byte, len(batch))
		dgs := make([]*statsd.Datagram, len(batch))
		for i, d := range batch {
			i, d := i, d
			o := offs[i]
			ext := d.slack
			if ext > 2 {
				ext = 2
			}
			slackBytes[i] = append([]byte(nil), arena[o+len(d.msg):o+len(d.msg)+ext]...)
			dgs[i] = &statsd.Datagram{
				IP:        gostatsd.Source(d.ip),
				Msg:       arena[o : o+len(d.msg)], // capacity reaches to the end of the arena
				Timestamp: gostatsd.Nanotime(d.ts),
				DoneFunc: func() {
					doneCalls[i]++
					if doneCalls[i] > 1 {
						return
					}
					for q := range arena {
						if (q < o || q >= o+len(d.msg)) && arena[q] != expect[q] {
							c.Monitors = append(c.Monitors, fmt.Sprintf("frame: batch %d datagram %d (region [%d,%d)): arena byte %d changed from %d to %d while the datagram was parsed", bi, i, o, o+len(d.msg), q, expect[q], arena[q]))
							break
						}
					}
					after[i] = append([]byte(nil), arena[o:o+len(d.msg)+ext]...)
					if string(after[i][:len(d.msg)]) != string(d.msg) {
						nChanged++
					}
					// the receiver may reuse the buffer from now on
					fill(arena[o : o+len(d.msg)])
					copy(expect[o:], arena[o:o+len(d.msg)])
				},
			}
		}
		r.cap.mu.Lock()
		m0, e0 := len(r.cap.maps), len(r.cap.events)
		r.cap.mu.Unlock()
		if !r.send(dgs) || !r.sync() {
			alive = false
			break
		}
		cm, ce, cb, ok := r.readCounters()
		if !ok {
			alive = false
			break
		}
		for i, n := range doneCalls {
			if n != 1 {
				c.Monitors = append(c.Monitors, fmt.Sprintf("batch %d datagram %d: DoneFunc called %d times", bi, i, n))
				if after[i] == nil {
					after[i] = []byte{}
				}
			}
		}
		r.cap.mu.Lock()
		mapTerm := "None"
		ot := obsText{Batch: bi}
		if len(r.cap.maps) == m0+1 {
			mapTerm = "(Some " + r.cap.dumps[m0] + ")"
			ot.Map = fmt.Sprintf("%d series", r.cap.sizes[m0])
		} else if len(r.cap.maps) != m0 {
			c.Monitors = append(c.Monitors, fmt.Sprintf("batch %d: DispatchMetricMap called %d times", bi, len(r.cap.maps)-m0))
		}
		evs := append([]string(nil), r.cap.evText[e0:]...)
		r.cap.mu.Unlock()
		ot.Events = len(evs)
		ot.Ctr = fmt.Sprintf("metrics=%d events=%d bad=%d", cm, ce, cb)
		obs = append(obs, ot)
		var dgTerms []string
		for i, d := range batch {
			dgTerms = append(dgTerms, hlib.Pair(
				hlib.App("Dg", hlib.Bytes(d.ip), hlib.Z(d.ts), hlib.BytesB(d.msg)),
				hlib.App("OD", hlib.BytesB(slackBytes[i]), hlib.BytesB(after[i]))))
		}
		batchTerms = append(batchTerms, hlib.Pair(hlib.List(dgTerms),
			hlib.App("OB", mapTerm, hlib.List(evs), hlib.App("Ctr", hlib.N(cm), hlib.N(ce), hlib.N(cb)))))
	}
	hi := time.Now().Unix()

	// ---- aliasing monitor
	if alive {
		for _, a := range arenas {
			fill(a)
		}
		r.cap.mu.Lock()
		nCaseMaps, nCaseEvents := len(r.cap.maps), len(r.cap.events)
		r.cap.mu.Unlock()
		churnRand := hlib.NewRand(in.Scramble ^ 0xa11a5)
		for k := 0; k < 3 && alive; k++ {
			var dgs []*statsd.Datagram
			for j := 0; j < 2; j++ {
				var sb strings.Builder
				nl := nLines/2 + 4
				if nl > 40 {
					nl = 40
				}
				for q := 0; q < nl; q++ {
					fmt.Fprintf(&sb, "zz%d.churn-%d:%d|%s|#host:zq%d,y%d:zz,xx:%d,w%d,vv,uu:%d\n", churnRand.Intn(5), q, churnRand.Intn(1000),
						hlib.Pick(churnRand, []string{"c", "g", "ms", "s"}), q, k, j, q, k)
				}
				buf := []byte(sb.String())
				dgs = append(dgs, &statsd.Datagram{IP: "7.7.7.7", Msg: buf, Timestamp: gostatsd.Nanotime(1800000000000000000 + int64(k)), DoneFunc: func() { fill(buf) }})
			}
			if !r.send(dgs) || !r.sync() {
				alive = false
			}
		}
		r.cap.mu.Lock()
		for i, mm := range r.cap.maps {
			if i >= nCaseMaps {
				break // maps of the churn batches
			}
			var now string
			if msg := hlib.Recover(func() { now = mmgen.Entries(mm) }); msg != "" {
				now = "panic: " + msg
			}
			if now != r.cap.dumps[i] {
				c.Monitors = append(c.Monitors, fmt.Sprintf("aliasing: dispatched map %d changed after its buffer was overwritten and the pooled metrics were reused: %s", i, firstDiff(r.cap.dumps[i], now)))
			}
		}
		for i, e := range r.cap.events {
			if i >= nCaseEvents {
				break
			}
			if now := eventCoq(e); now != r.cap.evText[i] {
				c.Monitors = append(c.Monitors, fmt.Sprintf("aliasing: dispatched event %d changed after its buffer was overwritten: %s", i, firstDiff(r.cap.evText[i], now)))
			}
		}
		r.cap.mu.Unlock()
	}
	if r.panicked != "" {
		c.Monitors = append(c.Monitors, "parser goroutine panicked: "+r.panicked)
	} else if !alive {
		select {
		case <-r.done:
			c.Monitors = append(c.Monitors, "parser goroutine ended: "+r.panicked)
		default:
			c.Monitors = append(c.Monitors, "parser stopped taking batches or reporting counters")
		}
	}

	// oracle table
	var tab []string
	for s := range cands {
		tab = append(tab, hlib.Pair(hlib.Bytes(s), lexgen.PF(s)))
	}
	sort.Strings(tab)
	if alive || len(batchTerms) > 0 {
		c.Coq = hlib.App("C05", hlib.Bytes(in.NS), hlib.Bool(in.IgnoreHost), hlib.List(tab), hlib.Z(lo), hlib.Z(hi), hlib.List(batchTerms))
	}
	c.Obs = obs
	cls := in.Stream
	if in.IgnoreHost {
		cls += "/ignore-host"
	}
	if in.NS != "" {
		cls += "/ns"
	}
	c.Class = cls
	accepted := false
	r.st.mu.Lock()
	accepted = r.st.metrics+r.st.events > 0
	r.st.mu.Unlock()
	c.Nontrivial = maxLines >= 2 && accepted && (nChanged > 0 || nEmpty > 0 || r.st.bad > 0)
	em.Emit(c)
	if !alive && r.panicked == "" {
		// the parser goroutine is wedged (it cannot be cancelled from outside and keeps a core
		// busy): report the case and stop; the driver sees the monitor hit of this case
		select {
		case <-r.done:
		default:
			em.Close()
			fmt.Fprintln(os.Stderr, "c05: parser goroutine wedged; stopping after this case")
			os.Exit(0)
		}
	}
}

func firstDiff(a, b string) string {
	i := 0
	for i < len(a) && i < len(b) && a[i] == b[i] {
		i++
	}
	lo := i - 40
	if lo < 0 {
		lo = 0
	}
	cut := func(s string) string {
		hi := i + 60
		if hi > len(s) {
			hi = len(s)
		}
		if lo > len(s) {
			return ""
		}
		return s[lo:hi]
	}
	return strconv.Quote(cut(a)) + " -> " + strconv.Quote(cut(b))
}

// ---------------------------------------------------------------------------------------
// generators

var namespaces = []string{"", "", "", "ns", "a.b", "x_y"}
var ips = []string{"1.2.3.4", "1.2.3.4", "10.0.0.1", "::1", "", "fe80::1%eth0"}

const baseTS = int64(1700000000000000000)

const junkAlphabet = "!$%&*()=+[]<>?~^'\";,@#|{}\x80\xff\x01"

// a line whose in-place normalisation deletes bytes right at its borders (next to the '\n's)
func edgeLine(r *hlib.Rand) string {
	junk := func() string {
		n := r.Range(1, 3)
		b := make([]byte, n)
		for i := range b {
			b[i] = junkAlphabet[r.Intn(len(junkAlphabet))]
		}
		return string(b)
	}
	core := hlib.Pick(r, []string{"abc", "a/b c", "x.y-z", "q", "A\tB", "m_1"})
	switch r.Intn(6) {
	case 0: // deletions at the very start
		return junk() + core + ":" + strconv.Itoa(r.Intn(100)) + "|" + hlib.Pick(r, []string{"c", "g", "ms", "s", "h"})
	case 1: // deletions right in front of the colon and the line has nothing else: rejected, shifted up to its end
		return core + junk()
	case 2: // only deletable bytes, no colon
		return junk() + junk()
	case 3: // everything deleted: empty key
		return junk() + ":1|c"
	case 4: // deletions on both sides, tags at the end of the line
		return junk() + core + junk() + ":" + strconv.Itoa(r.Intn(100)) + "|g|#" + lexgen.Tag(r) + "," + lexgen.Tag(r)
	default: // replaced bytes only
		return "a/b c\td:" + strconv.Itoa(r.Intn(9)) + "|c"
	}
}

var smallNames = []string{"g", "a.b", "x", "srv/req", "lat ms"}
var smallTags = []string{"", "a:b", "c:d,a:b", "a:b,c:d", "host:h1", "host:h1,a:b", "a:b,host:h2", "host:,x", "host:h1,host:h2", "hostx:1", "host", "k"}

// lines that hit the same few series again and again (gauge order, counter sums, timer order);
// the case draws a small universe so that one datagram sets the same gauge several times
type universe struct{ names, tags, types []string }

func newUniverse(r *hlib.Rand) *universe {
	u := &universe{}
	for i, n := 0, r.Range(1, 2); i < n; i++ {
		u.names = append(u.names, hlib.Pick(r, smallNames))
	}
	for i, n := 0, r.Range(1, 3); i < n; i++ {
		u.tags = append(u.tags, hlib.Pick(r, smallTags))
	}
	u.types = hlib.Pick(r, [][]string{{"g"}, {"g", "g", "g", "c"}, {"g", "g", "c", "ms", "s", "h"}, {"c", "ms", "s"}})
	return u
}

func seriesLine(r *hlib.Rand, u *universe) string {
	name := hlib.Pick(r, u.names)
	ty := hlib.Pick(r, u.types)
	val := strconv.Itoa(r.Range(-20, 200))
	if r.Chance(1, 4) {
		val = hlib.Pick(r, []string{"0.5", "1e2", "-0", "inf", "2.25", "+7"})
	}
	s := name + ":" + val + "|" + ty
	if r.Chance(1, 4) && ty != "s" && ty != "g" {
		s += "|@" + hlib.Pick(r, []string{"0.1", "0.5", "0.25", "1", "0.01"})
	}
	if t := hlib.Pick(r, u.tags); t != "" || r.Chance(1, 3) {
		s += "|#" + t
	}
	return s
}

func genLine(r *hlib.Rand, stream string, u *universe) string {
	switch stream {
	case "series":
		switch k := r.Intn(10); {
		case k < 7:
			return seriesLine(r, u)
		case k < 8:
			return edgeLine(r)
		case k < 9:
			return ""
		default:
			l, _ := lexgen.Line(r, "malformed")
			return l
		}
	case "hostile":
		switch k := r.Intn(10); {
		case k < 4:
			l, _ := lexgen.Line(r, "hostile")
			return l
		case k < 6:
			return lexgen.Mutate(r, edgeLine(r), true)
		case k < 8:
			return lexgen.MetricLine(r)
		case k < 9:
			return ""
		default:
			return seriesLine(r, u)
		}
	default: // mixed
		switch k := r.Intn(20); {
		case k < 6:
			return lexgen.MetricLine(r)
		case k < 8:
			return lexgen.EventLine(r, true)
		case k < 11:
			return edgeLine(r)
		case k < 14:
			l, _ := lexgen.Line(r, "malformed")
			return l
		case k < 16:
			return ""
		case k < 18:
			return seriesLine(r, u)
		case k < 19:
			return lexgen.Mutate(r, lexgen.MetricLine(r), true)
		default:
			return lexgen.MetricLine(r) + hlib.Pick(r, []string{"|", "|#", ",", "|@"})
		}
	}
}

func genCase(r *hlib.Rand, tier string, idx int) input {
	stream := []string{"mixed", "mixed", "series", "hostile", "mixed", "series"}[idx%6]
	in := input{NS: hlib.Pick(r, namespaces), IgnoreHost: r.Chance(2, 5), EstTags: r.Intn(6), Scramble: r.U64(), Stream: stream}
	u := newUniverse(r)
	nb := []int{1, 1, 1, 2, 3}[r.Intn(5)]
	maxLines := 7
	if tier == "thorough" && r.Chance(1, 10) {
		maxLines = 40
	}
	for b := 0; b < nb; b++ {
		nd := []int{1, 1, 2, 2, 3, 4}[r.Intn(6)]
		ts := baseTS + int64(r.Intn(1000))*1000
		for d := 0; d < nd; d++ {
			if r.Chance(1, 3) { // the receiver stamps a whole batch with one time; the API allows any
				ts += int64(r.Range(-2, 3)) * 1000
			}
			nl := r.Range(0, maxLines)
			if r.Chance(1, 12) {
				nl = 0
			}
			ip := hlib.Pick(r, ips)
			off, slack := r.Intn(4), r.Intn(4)
			if nl == 0 { // the empty datagram, or a lone newline
				l := lineIn{B: []int{}, NL: r.Chance(1, 3), End: 1, IP: ip, TS: ts, Off: off, Slack: slack}
				if d == nd-1 {
					l.End = 2
				}
				in.Lines = append(in.Lines, l)
				continue
			}
			for k := 0; k < nl; k++ {
				l := lineIn{B: lexgen.ToInts(genLine(r, stream, u)), NL: true}
				if k == nl-1 {
					l.NL = r.Bool()
					l.End, l.IP, l.TS, l.Off, l.Slack = 1, ip, ts, off, slack
					if d == nd-1 {
						l.End = 2
					}
				}
				in.Lines = append(in.Lines, l)
			}
		}
	}
	return in
}

// ---------------------------------------------------------------------------------------
// stream lexseq

func pmCoq(m *gostatsd.Metric) string {
	ty := "None"
	if n, ok := mmgen.TypeNames[m.Type]; ok {
		ty = "(Some " + n + ")"
	}
	return hlib.App("PM", hlib.Bytes(m.Name), hlib.F64(m.Value), hlib.F64(m.Rate), hlib.StrList(m.Tags), hlib.Bytes(m.TagsKey),
		hlib.Bytes(m.StringValue), hlib.Bytes(string(m.Source)), hlib.Z(int64(m.Timestamp)), ty)
}

func runLexSeq(em *hlib.Emitter, in input) {
	c := hlib.Case{Input: in, Class: "lexseq"}
	ll := verifhooks.NewLineLexer(in.EstTags)
	scr := hlib.NewRand(in.Scramble ^ 0x5e9)
	cands := map[string]bool{}
	var steps []string
	var pool []string // Coq terms of the metrics put back, most recent last
	type held struct {
		m    *gostatsd.Metric
		e    *gostatsd.Event
		text string
		step int
	}
	var kept []held
	nMetric, nEvent, nReject := 0, 0, 0
	var obs []string
	for i, l := range in.Lines {
		line := lexgen.FromInts(l.B)
		oracleCands(line, cands)
		buf := []byte(line)
		poolTerm := "None"
		takes := len(line) > 0 && line[0] != '_' && line[0] != 0 // lexSpecial calls MetricPool.Get
		if takes && len(pool) > 0 {
			poolTerm = "(Some " + pool[len(pool)-1] + ")"
			pool = pool[:len(pool)-1]
		}
		var m *gostatsd.Metric
		var e *gostatsd.Event
		var err error
		msg := hlib.Recover(func() { m, e, err = ll.LexLine(buf, l.NS) })
		var o string
		switch {
		case msg != "":
			o = "SOPanic"
			c.Monitors = append(c.Monitors, fmt.Sprintf("step %d: lexer panicked: %s", i, msg))
		default:
			mt, et := "None", "None"
			if m != nil {
				mt = "(Some " + pmCoq(m) + ")"
			}
			if e != nil {
				et = "(Some " + eventCoq(e) + ")"
			}
			o = hlib.App("SO", mt, et, hlib.Bool(err != nil))
			switch {
			case err != nil:
				nReject++
			case m != nil:
				nMetric++
			case e != nil:
				nEvent++
			}
		}
		obs = append(obs, o)
		steps = append(steps, hlib.App("LStep", hlib.Bytes(l.NS), poolTerm, hlib.Bytes(line), o))
		// the line's buffer is recycled at once
		for j := range buf {
			buf[j] = byte(scr.U64())
		}
		if msg != "" {
			break // the lexer's state after a panic is not defined
		}
		if err == nil && m != nil {
			if l.Put {
				// what parser and MetricMap.Receive leave in a metric before Done()
				m.Source = gostatsd.Source(fmt.Sprintf("stale-src-%d", i))
				m.Timestamp = gostatsd.Nanotime(1000 + i)
				m.Tags = append(m.Tags, fmt.Sprintf("stale:%d", i))
				_ = m.FormatTagsKey()
				m.Value = 77 + float64(i)
				pool = append(pool, pmCoq(m))
				m.Done()
			} else {
				kept = append(kept, held{m: m, text: pmCoq(m), step: i})
			}
		}
		if err == nil && e != nil {
			kept = append(kept, held{e: e, text: eventCoq(e), step: i})
		}
	}
	// results that were not given back must not change when later lines are lexed
	for _, h := range kept {
		now := ""
		if h.m != nil {
			now = pmCoq(h.m)
		} else {
			now = eventCoq(h.e)
		}
		if now != h.text {
			c.Monitors = append(c.Monitors, fmt.Sprintf("aliasing: result of step %d changed while later lines were lexed: %s", h.step, firstDiff(h.text, now)))
		}
	}
	var tab []string
	for s := range cands {
		tab = append(tab, hlib.Pair(hlib.Bytes(s), lexgen.PF(s)))
	}
	sort.Strings(tab)
	c.Coq = hlib.App("LexSeq", hlib.List(tab), hlib.List(steps))
	c.Obs = map[string]int{"steps": len(steps), "metrics": nMetric, "events": nEvent, "rejected": nReject}
	c.Nontrivial = len(steps) >= 3 && nMetric >= 1 && (nEvent >= 1 || nReject >= 1)
	em.Emit(c)
}

var seqLines = []string{
	"a:1|c|#x,y", "a:1|c|#x,y", "b.c:2|g", "t:3|ms|@0.5", "t:3|ms|@0.5|#q", "s:member|s", "s:m2|s|#k:v", "h:4|h|#host:h1,z",
	"_e{1,1}:t|x", "_e{1,1}:t|x", "_e{5,4}:title|text|#p,q", "_e{2,3}:ab|cde|d:77|h:hh|p:low|t:error|k:agg|s:src", "_e{0,0}:|",
	"bad", "a:1|c|#x,y|@zz", "a:1|c|@0.5|#u|zz|@", "_e{3,3}:abc|de", "_e{9,1}:abcdefghi|j|#p,q|p:bad", "_e{1,1}:t|x|#m,n|t:zz", "a:1|zz", ":1|c", "!!:1|c",
	"", "\x00", "_", "_x", "a:nan|g", "a:1|c|@0",
}

func genLexSeq(r *hlib.Rand) input {
	in := input{EstTags: r.Intn(6), Scramble: r.U64(), Stream: "lexseq"}
	n := r.Range(2, 10)
	add := func(s string) {
		in.Lines = append(in.Lines, lineIn{B: lexgen.ToInts(s), NS: hlib.Pick(r, namespaces), Put: r.Chance(3, 5)})
	}
	// the orders the property is about, then a random tail
	switch r.Intn(6) {
	case 0: // event after tagged metric
		add("m.tagged:1|c|#t1,t2")
		add(hlib.Pick(r, []string{"_e{1,1}:t|x", "_e{2,2}:ab|cd|#own"}))
	case 1: // metric after tagged event
		add("_e{2,2}:ab|cd|#e1,e2")
		add(hlib.Pick(r, []string{"m:1|c", "m:1|c|#own", "m:x|s"}))
	case 2: // rejected line in between, after it had appended tags / set lengths / a rate
		add(hlib.Pick(r, []string{"m:1|c|#t1,t2", "_e{2,2}:ab|cd|#e1"}))
		add(hlib.Pick(r, []string{"a:1|c|#x,y|@zz", "_e{9,1}:abcdefghi|j|#p,q|p:bad", "a:1|c|@0.25|#u|", "_e{7,7}:abc|de"}))
		add(hlib.Pick(r, []string{"_e{1,1}:t|x", "m:2|g", "s:v|s"}))
	case 3: // a sampled metric, then one without a rate; a set after a counter (Value / StringValue)
		add("t:5|ms|@0.125|#r")
		add("t:6|ms")
		add("s:abc|s")
		add("c:9|c")
	}
	for len(in.Lines) < n {
		switch k := r.Intn(10); {
		case k < 6:
			add(hlib.Pick(r, seqLines))
		case k < 7:
			add(lexgen.MetricLine(r))
		case k < 8:
			add(lexgen.EventLine(r, r.Bool()))
		case k < 9:
			l, _ := lexgen.Line(r, "malformed")
			add(l)
		default:
			l, _ := lexgen.Line(r, "hostile")
			add(l)
		}
	}
	return in
}

func main() {
	a := hlib.ParseArgs()
	em := hlib.NewEmitter()
	defer em.Close()
	switch a.Mode {
	case "gen":
		r := hlib.NewRand(a.Seed)
		for i := 0; i < a.N; i++ {
			if i%160 == 7 {
				runOne(em, genRecv(r.Fork(), a.Tier))
				continue
			}
			if i%4 == 3 {
				runOne(em, genLexSeq(r.Fork()))
				continue
			}
			runOne(em, genCase(r.Fork(), a.Tier, i))
		}
	case "run":
		for _, raw := range a.Inputs {
			var in input
			if err := json.Unmarshal(raw, &in); err != nil {
				fmt.Fprintln(os.Stderr, "bad input:", err)
				os.Exit(2)
			}
			runOne(em, in)
		}
	}
}
