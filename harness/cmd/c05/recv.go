package main

// Stream "recv": the REAL DatagramReceiver with its buffer pool in front of the real
// DatagramParser(s), wired as statsd.Server does it (UDP socket -> NewDatagramReceiver(out, sf,
// readers, batch).Run -> unbuffered chan -> one DatagramParser run by 1-2 goroutines -> handler),
// under sustained traffic: a few hundred distinct multi-line datagrams written back to back in
// bursts, a slowish handler so that batches queue, quiet periods between the bursts.
//
// Every line carries its datagram's number in the series name, so nothing can be confused:
//   - Coq: the merge of ALL dispatched maps, the multiset of events and the counter totals must be
//     what the model gives for the concatenation of the sent datagrams (nothing missing, doubled
//     or mixed between datagrams); how the stream was cut into batches is free;
//   - monitor "back-dated": a series' timestamp is earlier than the instant just BEFORE the harness
//     wrote that datagram to the socket (the receive time of C05_source_time cannot precede the
//     send; later is never flagged, so scheduling delays cannot raise a false alarm);
//   - monitor aliasing: every dispatched map and event is rendered again at the end of the traffic
//     (after the receiver's pool has recycled every buffer many times) and compared;
//   - UDP may drop datagrams when the socket buffer overflows: the sender keeps at most 48
//     datagrams unread, and if the kernel still reports drops for the socket the case is
//     inconclusive (emitted without verdict) rather than a violation.
// Variant sock = "script": the receiver reads from a scripted net.PacketConn (no kernel, no loss;
// GenericBatchReader: one datagram per batch) whose datagrams come from many DISTINCT sender
// addresses: IPv4, IPv6, IPv6 with zone, v4-mapped IPv6, *net.UDPAddr with nil IP, a non-UDP
// address type, interleaved across batches and reader goroutines.  The model takes the rendered
// sender as an input; the harness computes it per datagram directly from the address it handed
// out: net.IP.String() for a *net.UDPAddr (no zone, "<nil>" for a nil IP, dotted quad for
// v4-mapped), "" (UnknownSource) for any other address type -- what receiver.go's getIP does.
// A panic on this path cannot be recovered (the goroutines belong to the implementation): the
// process dies and the driver reports the crash.

import (
	"bufio"
	"context"
	"errors"
	"fmt"
	"io"
	"net"
	"os"
	"sort"
	"strconv"
	"strings"
	"sync"
	"sync/atomic"
	"time"

	"github.com/atlassian/gostatsd"
	"github.com/atlassian/gostatsd/pkg/stats"
	"github.com/atlassian/gostatsd/pkg/statsd"
	"github.com/sirupsen/logrus"

	"verifharness/hlib"
	"verifharness/lexgen"
	"verifharness/mmgen"
)

// statser with one flush channel per registration; counters are read through the pointers the
// implementation hands to Report
type recvStatser struct {
	stats.NullStatser
	mu     sync.Mutex
	flush  []chan time.Duration
	ptr    map[string]*uint64
	gauges map[string]uint64
}

func (s *recvStatser) RegisterFlush() (<-chan time.Duration, func()) {
	ch := make(chan time.Duration)
	s.mu.Lock()
	s.flush = append(s.flush, ch)
	s.mu.Unlock()
	return ch, func() {}
}
func (s *recvStatser) Report(name string, value *uint64, tags gostatsd.Tags) {
	s.mu.Lock()
	s.ptr[name] = value
	s.mu.Unlock()
}
func (s *recvStatser) Gauge(name string, value float64, tags gostatsd.Tags) {
	s.mu.Lock()
	s.gauges[name] = uint64(value)
	s.mu.Unlock()
}
func (s *recvStatser) WithTags(tags gostatsd.Tags) stats.Statser { return s }

// flushAll makes every registered reporter run once more; two rounds, so that the first is complete.
func (s *recvStatser) flushAll() bool {
	s.mu.Lock()
	chs := append([]chan time.Duration(nil), s.flush...)
	s.mu.Unlock()
	for round := 0; round < 2; round++ {
		for _, ch := range chs {
			select {
			case ch <- time.Second:
			case <-time.After(stepTimeout):
				return false
			}
		}
	}
	return true
}
func (s *recvStatser) get(name string) uint64 {
	s.mu.Lock()
	defer s.mu.Unlock()
	if p, ok := s.ptr[name]; ok {
		return atomic.LoadUint64(p)
	}
	return s.gauges[name]
}

type recvMap struct {
	mm   *gostatsd.MetricMap
	dump string
	seen int64
}

type recvHandler struct {
	mu     sync.Mutex
	delay  time.Duration
	maps   []recvMap
	events []*gostatsd.Event
	evText []string
}

func (h *recvHandler) DispatchMetricMap(ctx context.Context, mm *gostatsd.MetricMap) {
	seen := time.Now().UnixNano()
	d := mmgen.Entries(mm)
	h.mu.Lock()
	h.maps = append(h.maps, recvMap{mm: mm, dump: d, seen: seen})
	h.mu.Unlock()
	if h.delay > 0 {
		time.Sleep(h.delay)
	}
}
func (h *recvHandler) EstimatedTags() int { return 1 }
func (h *recvHandler) DispatchEvent(ctx context.Context, e *gostatsd.Event) {
	h.mu.Lock()
	h.events = append(h.events, e)
	h.evText = append(h.evText, eventCoq(e))
	h.mu.Unlock()
}
func (h *recvHandler) WaitForEvents() {}

// kernel drop counter of the UDP socket bound to 127.0.0.1:port (-1 = unknown)
func udpDrops(port int) int {
	f, err := os.Open("/proc/net/udp")
	if err != nil {
		return -1
	}
	defer f.Close()
	want := fmt.Sprintf("0100007F:%04X", port)
	sc := bufio.NewScanner(f)
	for sc.Scan() {
		fs := strings.Fields(sc.Text())
		if len(fs) >= 13 && fs[1] == want {
			n, err := strconv.Atoi(fs[len(fs)-1])
			if err != nil {
				return -1
			}
			return n
		}
	}
	return -1
}

// the id "r<d>x<j>" at the start of a series name (after the namespace prefix) or of a line
func idOf(name, ns string) string {
	if ns != "" {
		name = strings.TrimPrefix(name, ns+".")
	}
	if !strings.HasPrefix(name, "r") {
		return ""
	}
	i := 1
	for i < len(name) && name[i] >= '0' && name[i] <= '9' {
		i++
	}
	if i == 1 || i >= len(name) || name[i] != 'x' {
		return ""
	}
	j := i + 1
	for j < len(name) && name[j] >= '0' && name[j] <= '9' {
		j++
	}
	if j == i+1 {
		return ""
	}
	return name[:j]
}

const maxUnread = 48

// scriptConn is a net.PacketConn fed by the harness: ReadFrom blocks until a datagram is pushed
// or the conn is closed, like a socket.
type scriptConn struct {
	mu     sync.Mutex
	q      []scriptDg
	closed chan struct{}
	wake   chan struct{}
	once   sync.Once
}
type scriptDg struct {
	data string
	addr net.Addr
}

func newScriptConn() *scriptConn {
	return &scriptConn{closed: make(chan struct{}), wake: make(chan struct{}, 16)}
}
func (c *scriptConn) ReadFrom(b []byte) (int, net.Addr, error) {
	for {
		select {
		case <-c.closed:
			return 0, nil, errors.New("use of closed network connection")
		default:
		}
		c.mu.Lock()
		if len(c.q) > 0 {
			d := c.q[0]
			c.q = c.q[1:]
			c.mu.Unlock()
			return copy(b, d.data), d.addr, nil
		}
		c.mu.Unlock()
		select {
		case <-c.closed:
			return 0, nil, errors.New("use of closed network connection")
		case <-c.wake:
		}
	}
}
func (c *scriptConn) push(data string, addr net.Addr) {
	c.mu.Lock()
	c.q = append(c.q, scriptDg{data, addr})
	c.mu.Unlock()
	for i := 0; i < 4; i++ {
		select {
		case c.wake <- struct{}{}:
		default:
		}
	}
}
func (c *scriptConn) WriteTo(b []byte, addr net.Addr) (int, error) { return len(b), nil }
func (c *scriptConn) Close() error                                 { c.once.Do(func() { close(c.closed) }); return nil }
func (c *scriptConn) LocalAddr() net.Addr                          { return &net.UDPAddr{IP: net.IPv4(127, 0, 0, 1), Port: 8125} }
func (c *scriptConn) SetDeadline(t time.Time) error                { return nil }
func (c *scriptConn) SetReadDeadline(t time.Time) error            { return nil }
func (c *scriptConn) SetWriteDeadline(t time.Time) error           { return nil }

// senderOf builds the sender address of a spec "kind:text" and the Source the receiver has to
// attach to that datagram.
func senderOf(spec string, i int) (net.Addr, string) {
	kind, text := spec, ""
	if j := strings.IndexByte(spec, '='); j >= 0 {
		kind, text = spec[:j], spec[j+1:]
	}
	switch kind {
	case "udp": // IPv4 or IPv6 literal, optional %zone
		zone := ""
		if j := strings.IndexByte(text, '%'); j >= 0 {
			text, zone = text[:j], text[j+1:]
		}
		ip := net.ParseIP(text)
		if ip4 := ip.To4(); ip4 != nil && !strings.Contains(text, ":") {
			ip = ip4 // 4-byte form, as the kernel delivers it on an IPv4 socket
		}
		return &net.UDPAddr{IP: ip, Port: 1000 + i%5000, Zone: zone}, ip.String()
	case "mapped": // v4-mapped IPv6, 16-byte form (dual-stack socket)
		ip := net.ParseIP(text).To16()
		return &net.UDPAddr{IP: ip, Port: 1000 + i%5000}, ip.String()
	case "nilip":
		var ip net.IP
		return &net.UDPAddr{IP: nil, Port: 7}, ip.String()
	case "ipaddr": // not a *net.UDPAddr: getIP's fallback
		return &net.IPAddr{IP: net.ParseIP(text)}, ""
	case "unix":
		return &net.UnixAddr{Name: text, Net: "unixgram"}, ""
	}
	return &net.UDPAddr{IP: net.IPv4(10, 9, 8, 7), Port: 1}, "10.9.8.7"
}

func runRecv(em *hlib.Emitter, in input) {
	bursts := assemble(in)
	c := hlib.Case{Input: in, Class: fmt.Sprintf("recv/readers%d/parsers%d/batch<=%d", in.Readers, in.Parsers, (in.Batch/10+1)*10)}
	var msgs, froms []string
	burstEnd := map[int]bool{}
	for _, b := range bursts {
		for _, d := range b {
			msgs = append(msgs, string(d.msg))
			froms = append(froms, d.from)
		}
		burstEnd[len(msgs)] = true
	}
	scripted := in.Sock == "script"
	if scripted {
		c.Class = "recv-script" + strings.TrimPrefix(c.Class, "recv")
	}
	logrus.SetOutput(io.Discard) // getIP logs an error for a non-UDP sender address on the global logger
	nlines := 0
	cands := map[string]bool{}
	dgOfID := map[string]int{} // id -> index of the one datagram whose lines carry it (-1 = several)
	for i, m := range msgs {
		for _, l := range physLines([]byte(m)) {
			oracleCands(l, cands)
			nlines++
			if id := idOf(l, ""); id != "" {
				if j, ok := dgOfID[id]; ok && j != i {
					dgOfID[id] = -1
				} else {
					dgOfID[id] = i
				}
			}
		}
	}
	h := &recvHandler{delay: time.Duration(in.DelayUs) * time.Microsecond}
	st := &recvStatser{ptr: map[string]*uint64{}, gauges: map[string]uint64{}}
	logger := logrus.New()
	logger.SetOutput(os.Stderr)
	logger.SetLevel(logrus.PanicLevel)
	ctx, cancel := context.WithCancel(stats.NewContext(context.Background(), st))
	defer cancel()

	var conn net.PacketConn
	var script *scriptConn
	port := 0
	addrs := make([]net.Addr, len(msgs))
	sources := make([]string, len(msgs))
	var send func(i int) error
	if scripted {
		script = newScriptConn()
		conn = script
		for i := range msgs {
			addrs[i], sources[i] = senderOf(froms[i], i)
		}
		send = func(i int) error { script.push(msgs[i], addrs[i]); return nil }
	} else {
		var err error
		conn, err = net.ListenPacket("udp", "127.0.0.1:0")
		if err != nil {
			fmt.Fprintln(os.Stderr, "c05 recv: listen:", err)
			os.Exit(3)
		}
		if uc, ok := conn.(*net.UDPConn); ok {
			uc.SetReadBuffer(4 << 20)
		}
		port = conn.LocalAddr().(*net.UDPAddr).Port
		cl, err := net.DialUDP("udp", nil, conn.LocalAddr().(*net.UDPAddr))
		if err != nil {
			fmt.Fprintln(os.Stderr, "c05 recv: dial:", err)
			os.Exit(3)
		}
		defer cl.Close()
		for i := range msgs {
			sources[i] = "127.0.0.1"
		}
		send = func(i int) error { _, err := cl.Write([]byte(msgs[i])); return err }
	}
	sf := func() (net.PacketConn, error) { return conn, nil }

	ch := make(chan []*statsd.Datagram) // unbuffered, as in statsd.Server
	dp := statsd.NewDatagramParser(ch, in.NS, false, 0, h, 0, false, logger)
	dr := statsd.NewDatagramReceiver(ch, sf, in.Readers, in.Batch)
	for i := 0; i < in.Parsers; i++ {
		go dp.Run(ctx)
	}
	go dp.RunMetricsContext(ctx)
	go dr.RunMetricsContext(ctx)
	recvDone := make(chan struct{})
	go func() { dr.Run(ctx); close(recvDone) }()

	registered := func() bool {
		st.mu.Lock()
		defer st.mu.Unlock()
		return len(st.flush) >= 2
	}
	for end := time.Now().Add(stepTimeout); !registered(); {
		if time.Now().After(end) {
			c.Monitors = append(c.Monitors, "receiver / parser did not register for flush notifications")
			em.Emit(c)
			return
		}
		time.Sleep(100 * time.Microsecond)
	}
	st.flushAll()
	received := func() uint64 { return st.get("receiver.datagrams_received") }
	accounted := func() uint64 {
		return st.get("parser.metrics_received") + st.get("parser.events_received") + st.get("parser.bad_lines_seen")
	}

	// ---- traffic
	sendBefore := make([]int64, len(msgs))
	problem := ""
	quiet := 0
	for i := range msgs {
		for end := time.Now().Add(stepTimeout); uint64(i)-received() >= maxUnread; {
			if time.Now().After(end) {
				problem = fmt.Sprintf("receiver stopped reading: %d of %d datagrams read", received(), i)
				break
			}
			time.Sleep(20 * time.Microsecond)
		}
		if problem != "" {
			break
		}
		sendBefore[i] = time.Now().UnixNano()
		if err := send(i); err != nil {
			fmt.Fprintln(os.Stderr, "c05 recv: send:", err)
			os.Exit(3)
		}
		if burstEnd[i+1] && i+1 < len(msgs) {
			ms := 100
			if quiet < len(in.QuietMs) {
				ms = in.QuietMs[quiet]
			}
			quiet++
			time.Sleep(time.Duration(ms) * time.Millisecond)
		}
	}
	// ---- drain: everything read, then everything accounted for (or the counters stand still)
	inconclusive := ""
	if problem == "" {
		for end := time.Now().Add(stepTimeout); received() < uint64(len(msgs)); {
			if time.Now().After(end) {
				if d := udpDrops(port); d != 0 && !scripted {
					inconclusive = fmt.Sprintf("kernel dropped datagrams (drops=%d): %d of %d read", d, received(), len(msgs))
				} else {
					problem = fmt.Sprintf("receiver stopped reading: %d of %d datagrams read, no kernel drops", received(), len(msgs))
				}
				break
			}
			time.Sleep(100 * time.Microsecond)
		}
	}
	if problem == "" && inconclusive == "" {
		last, lastChange := uint64(0), time.Now()
		for end := time.Now().Add(stepTimeout); ; {
			st.flushAll()
			a := accounted()
			if a == uint64(nlines) {
				// let a possible surplus (lines counted twice) show up as well
				time.Sleep(2 * time.Millisecond)
				st.flushAll()
				break
			}
			if a != last {
				last, lastChange = a, time.Now()
			}
			if time.Since(lastChange) > 250*time.Millisecond || time.Now().After(end) {
				break // the Coq comparison reports what is missing or doubled
			}
			time.Sleep(300 * time.Microsecond)
		}
	}
	st.flushAll()
	cm, ce, cb := st.get("parser.metrics_received"), st.get("parser.events_received"), st.get("parser.bad_lines_seen")
	cancel()
	select {
	case <-recvDone:
	case <-time.After(stepTimeout):
	}

	h.mu.Lock()
	defer h.mu.Unlock()
	// ---- monitors: back-dated timestamps, aliasing
	backdated, checked := 0, 0
	worst := ""
	var mapTerms []string
	for i, rm := range h.maps {
		mapTerms = append(mapTerms, rm.dump)
		check := func(name string, ts gostatsd.Nanotime) {
			d, ok := dgOfID[idOf(name, in.NS)]
			if !ok || d < 0 {
				return
			}
			checked++
			if int64(ts) < sendBefore[d] {
				backdated++
				if worst == "" {
					worst = fmt.Sprintf("series %q of datagram %d carries timestamp %d, %.1f ms BEFORE the datagram was written to the socket (%d)",
						name, d, int64(ts), float64(sendBefore[d]-int64(ts))/1e6, sendBefore[d])
				}
			}
		}
		rm.mm.Counters.Each(func(n, k string, v gostatsd.Counter) { check(n, v.Timestamp) })
		rm.mm.Gauges.Each(func(n, k string, v gostatsd.Gauge) { check(n, v.Timestamp) })
		rm.mm.Timers.Each(func(n, k string, v gostatsd.Timer) { check(n, v.Timestamp) })
		rm.mm.Sets.Each(func(n, k string, v gostatsd.Set) { check(n, v.Timestamp) })
		if now := mmgen.Entries(rm.mm); now != rm.dump {
			c.Monitors = append(c.Monitors, fmt.Sprintf("aliasing: dispatched map %d changed while later datagrams went through receiver and parser: %s", i, firstDiff(rm.dump, now)))
		}
	}
	if backdated > 0 {
		c.Monitors = append(c.Monitors, fmt.Sprintf("back-dated: %d of %d series: %s", backdated, checked, worst))
	}
	for i, e := range h.events {
		if now := eventCoq(e); now != h.evText[i] {
			c.Monitors = append(c.Monitors, fmt.Sprintf("aliasing: dispatched event %d changed: %s", i, firstDiff(h.evText[i], now)))
		}
	}
	if problem != "" {
		c.Monitors = append(c.Monitors, problem)
	}
	c.Obs = map[string]interface{}{"datagrams": len(msgs), "lines": nlines, "maps": len(h.maps), "events": len(h.events),
		"metrics": cm, "events_received": ce, "bad": cb, "datagrams_received": received(), "batches_read": st.get("receiver.batches_read"),
		"series_time_checked": checked, "inconclusive": inconclusive}
	if inconclusive != "" {
		c.Class += "/udp-loss"
		em.Emit(c)
		return
	}
	var tab []string
	for s := range cands {
		tab = append(tab, hlib.Pair(hlib.Bytes(s), lexgen.PF(s)))
	}
	sort.Strings(tab)
	sent := make([]string, len(msgs))
	for i, m := range msgs {
		sent[i] = hlib.Pair(hlib.Bytes(sources[i]), hlib.Bytes(m))
	}
	if problem == "" {
		c.Coq = hlib.App("Recv", hlib.Bytes(in.NS), hlib.List(tab), hlib.List(sent),
			hlib.List(mapTerms), hlib.List(h.evText), hlib.App("Ctr", hlib.N(cm), hlib.N(ce), hlib.N(cb)))
	}
	batches := st.get("receiver.batches_read")
	c.Nontrivial = len(msgs) >= 100 && batches > 0 && uint64(len(msgs)) > batches // some batch held several datagrams
	if scripted {
		distinct := map[string]bool{}
		for _, f := range froms {
			distinct[f] = true
		}
		c.Nontrivial = len(msgs) >= 50 && len(distinct) >= 5
	}
	em.Emit(c)
}

// ---------------------------------------------------------------------------------------
// generator

func recvLine(r *hlib.Rand, d, j int) string {
	id := fmt.Sprintf("r%dx%d", d, j)
	v := strconv.Itoa(r.Range(1, 500))
	switch k := r.Intn(20); {
	case k < 4:
		return id + ":" + v + "|c|#a:" + strconv.Itoa(d) + ",b"
	case k < 7:
		return id + ":" + v + "|ms|#t:" + strconv.Itoa(j) + ",u,dg:" + strconv.Itoa(d)
	case k < 9:
		return id + ":m" + strconv.Itoa(d) + "|s|#k,l:" + strconv.Itoa(d)
	case k < 11:
		return id + ":" + v + "|g|#g1,g:" + strconv.Itoa(d)
	case k < 12:
		return id + ":" + v + "|h"
	case k < 14: // needs in-place normalisation
		return id + "/q !$:" + v + "|c|#n"
	case k < 15:
		return "bad" + id
	case k < 16:
		return id + ":1|zz|#x"
	case k < 18:
		title := "ev" + id
		return fmt.Sprintf("_e{%d,3}:%s|txt|d:%d|#e1,e:%d", len(title), title, 1000+d, d)
	case k < 19:
		return "shared.c:" + v + "|c|#z"
	default:
		return "shared.t:" + v + "|ms|#z,y"
	}
}

func genRecv(r *hlib.Rand, tier string) input {
	in := input{NS: hlib.Pick(r, namespaces), Scramble: r.U64(), Stream: "recv",
		Readers: r.Range(1, 2), Parsers: r.Range(1, 2), Batch: hlib.Pick(r, []int{1, 2, 5, 10, 20, 50, 50}),
		DelayUs: hlib.Pick(r, []int{0, 50, 100, 200, 400})}
	var senders []string
	if r.Bool() {
		in.Sock = "script"
		pool := []string{"udp=10.0.0.1", "udp=10.0.0.2", "udp=192.168.7.9", "udp=::1", "udp=2001:db8::1", "udp=2001:db8::2",
			"udp=2001:db8:0:1::ff", "udp=fe80::1%eth0", "udp=fe80::1%eth1", "udp=fe80::abcd%lo", "mapped=10.0.0.1", "mapped=172.16.3.4",
			"nilip", "ipaddr=10.1.1.1", "unix=weird", "udp=fd00::17", "udp=127.0.0.1"}
		for k, n := 0, r.Range(6, 12); k < n; k++ {
			senders = append(senders, hlib.Pick(r, pool))
		}
		// always several different real IPv6 senders next to IPv4 ones
		senders = append(senders, "udp=2001:db8::1", "udp=fe80::1%eth0", "udp=::1", "udp=10.0.0.1", "mapped=10.0.0.1")
	}
	nb := r.Range(2, 3)
	d := 0
	for b := 0; b < nb; b++ {
		nd := r.Range(60, 160)
		if tier == "thorough" {
			nd = r.Range(100, 600)
		}
		if in.Sock == "script" { // one datagram per batch: fewer of them, the senders are the point
			nd = r.Range(30, 60)
		}
		if b > 0 {
			in.QuietMs = append(in.QuietMs, r.Range(50, 300))
		}
		for k := 0; k < nd; k++ {
			nl := r.Range(1, 5)
			for j := 0; j < nl; j++ {
				l := lineIn{B: lexgen.ToInts(recvLine(r, d, j)), NL: true}
				if j == nl-1 {
					l.NL = r.Bool()
					l.End = 1
					if k == nd-1 {
						l.End = 2
					}
					if len(senders) > 0 {
						l.From = hlib.Pick(r, senders)
					}
				}
				in.Lines = append(in.Lines, l)
			}
			d++
		}
	}
	return in
}
