package main

import (
	"context"
	"fmt"
	"sync"
	"time"

	"github.com/atlassian/gostatsd"
	"github.com/tilinna/clock"

	"verifharness/hlib"
)

// runCons drives a real MetricConsolidator whose sink the harness reads: concurrent
// ReceiveMetricMap callers, Flush called directly ("manual") or by Run's ticker under a mock clock
// ("timer").  The sink reader waits before it receives, so that the order "sink send, then Fill"
// shows in the trace: nothing dispatched after the drain may return before the emission is taken.
func runCons(in input) hlib.Case {
	c := hlib.Case{Input: in, Class: "cons-" + in.Mode}
	mon := &monitors{}
	ev := &evlog{}
	u := buildUniverse(in.Batches)
	k := in.Slots
	nFlush := len(in.Flushes) + 1 // the last one is issued after every dispatcher returned

	sink := make(chan []*gostatsd.MetricMap)
	interval := time.Second
	mc := gostatsd.NewMetricConsolidator(k, false, interval, sink)

	ctx, cancel := context.WithCancel(context.Background())
	mock := clock.NewMock(time.Unix(1000, 0))
	ctx = clock.Context(ctx, mock)
	runDone := make(chan struct{})
	if in.Mode == "timer" {
		go func() { mc.Run(ctx); close(runDone) }()
		// wait until Run has created its ticker, otherwise the first Add is lost
		for i := 0; mock.Len() == 0 && i < 20000; i++ {
			time.Sleep(50 * time.Microsecond)
		}
	} else {
		close(runDone)
	}

	type emission struct {
		maps int
		ids  []int
	}
	emitted := make([]emission, 0, nFlush)
	got := make(chan struct{}, nFlush+1)
	startCh := make(chan struct{}, nFlush+1) // the flusher is about to request flush f
	readerDone := make(chan struct{})
	go func() { // sink reader
		defer close(readerDone)
		for f := 1; f <= nFlush; f++ {
			d := 0
			if f-1 < len(in.EmitUs) {
				d = in.EmitUs[f-1]
			}
			select {
			case <-startCh:
			case <-time.After(60 * time.Second):
				return
			}
			time.Sleep(time.Duration(d) * time.Microsecond)
			ev.add(hlib.App("EReady", nat(f)))
			var mms []*gostatsd.MetricMap
			select {
			case mms = <-sink:
			case <-time.After(20 * time.Second):
				mon.add(fmt.Sprintf("flush %d: nothing arrived at the sink within 20s", f))
				return
			}
			ev.add(hlib.App("EDone", nat(f)))
			var seen []seenSeries
			for _, mm := range mms {
				seen = append(seen, seriesOfMap(mm)...)
			}
			emitted = append(emitted, emission{maps: len(mms), ids: u.decode(seen, fmt.Sprintf("emission %d", f), mon)})
			got <- struct{}{}
		}
	}()

	// dispatchers
	nd := 0
	for _, b := range in.Batches {
		if b.D+1 > nd {
			nd = b.D + 1
		}
	}
	var wg sync.WaitGroup
	for d := 0; d < nd; d++ {
		wg.Add(1)
		go func(d int) {
			defer wg.Done()
			for bi, b := range in.Batches {
				if b.D != d {
					continue
				}
				time.Sleep(time.Duration(b.Us) * time.Microsecond)
				mm := u.batchMap(bi)
				ev.add(hlib.App("ECall", nat(bi)))
				mc.ReceiveMetricMap(mm)
				ev.add(hlib.App("ERet", nat(bi)))
			}
		}(d)
	}
	flush := func() bool {
		startCh <- struct{}{}
		if in.Mode == "timer" {
			mock.Add(interval)
		} else {
			mc.Flush()
		}
		select {
		case <-got:
			return true
		case <-time.After(25 * time.Second):
			return false
		}
	}
	alive := true
	for _, us := range in.Flushes {
		time.Sleep(time.Duration(us) * time.Microsecond)
		if alive = flush(); !alive {
			break
		}
	}
	dispDone := make(chan struct{})
	go func() { wg.Wait(); close(dispDone) }()
	select {
	case <-dispDone:
	case <-time.After(25 * time.Second):
		mon.add("a ReceiveMetricMap call did not return within 25s")
		alive = false
	}
	if alive {
		if in.Mode == "timer" { // Run's ctx.Done arm flushes once more
			startCh <- struct{}{}
			cancel()
			select {
			case <-got:
			case <-time.After(25 * time.Second):
				mon.add("no flush on shutdown")
			}
			select {
			case <-runDone:
			case <-time.After(25 * time.Second):
				mon.add("MetricConsolidator.Run did not return after its context was cancelled")
			}
		} else {
			flush()
		}
		select {
		case <-readerDone:
		case <-time.After(5 * time.Second):
		}
	}
	cancel()

	// every item exactly once (monitor, independent of the model)
	count := map[int]int{}
	for _, e := range emitted {
		for _, id := range e.ids {
			count[id]++
		}
	}
	for _, it := range u.items {
		if it.spec.T == int(gostatsd.GAUGE) {
			continue
		}
		if count[it.id] != 1 {
			mon.add(fmt.Sprintf("item %d (batch %d) found %d times in the emissions", it.id, it.batch, count[it.id]))
		}
	}
	var el []string
	for _, e := range emitted {
		bs := map[int]bool{}
		var bl []int
		for _, id := range e.ids {
			if id < len(u.items) && !bs[u.items[id].batch] {
				bs[u.items[id].batch] = true
				bl = append(bl, u.items[id].batch)
			}
		}
		el = append(el, hlib.Pair(nat(e.maps), natList(bl)))
	}
	ev.mu.Lock()
	evs := hlib.List(ev.l)
	ev.mu.Unlock()
	c.Coq = hlib.App("ConsCase", nat(k), nat(len(in.Batches)), evs, hlib.List(el))
	c.Monitors = mon.l
	c.Obs = map[string]interface{}{"emissions": len(emitted), "batches": len(in.Batches), "items": len(u.items)}
	c.Nontrivial = len(in.Batches) >= 3 && nd >= 2 && len(in.Flushes) >= 1
	return c
}
