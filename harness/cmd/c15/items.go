package main

import (
	"encoding/hex"
	"fmt"
	"math"
	"sort"
	"strconv"
	"strings"
	"sync"
	"unicode/utf8"

	"github.com/atlassian/gostatsd"
	"github.com/atlassian/gostatsd/pb"

	"verifharness/hlib"
)

// An itemSpec is one datapoint of a dispatched batch.  Its payload is chosen by the harness so that
// the datapoint can be recognised in whatever map or request body it ends up in after merging:
//
//	counter  value 1<<bit, bit = rank of the item among the counter items of its series
//	timer    the single value id+0.5
//	set      the single member "m<id>"
//	gauge    value id, timestamp id+1 (a later item of the series replaces an earlier one)
type itemSpec struct {
	T      int      `json:"t"` // gostatsd.MetricType: 1 counter, 2 timer, 3 gauge, 4 set
	Name   string   `json:"n"`
	Tags   []string `json:"tags"`
	Src    string   `json:"src,omitempty"`
	BadHex string   `json:"bad,omitempty"` // one more tag given as hex bytes (not valid UTF-8)
}

type batchSpec struct {
	D     int        `json:"d"`  // dispatcher goroutine
	Us    int        `json:"us"` // pause before the dispatch, microseconds
	Items []itemSpec `json:"items"`
	Bulk  int        `json:"bulk,omitempty"` // that many more timer items, one series each ("bulk<i>")
}

type item struct {
	id    int
	batch int
	spec  itemSpec
	tags  []string // including the bad tag
	key   string   // tags key as gostatsd computes it
	bit   int      // counters
}

type universe struct {
	items   []*item
	byBatch [][]*item
	// lookup: series -> payload -> item
	ctr map[string]map[int]*item
	tim map[string]map[float64]*item
	set map[string]map[string]*item
	gau map[string]map[float64]*item
}

func seriesID(name, key string) string { return name + "\x00" + key }

func buildUniverse(batches []batchSpec) *universe {
	u := &universe{ctr: map[string]map[int]*item{}, tim: map[string]map[float64]*item{}, set: map[string]map[string]*item{}, gau: map[string]map[float64]*item{}}
	id := 0
	for bi, b := range batches {
		var its []*item
		specs := b.Items
		for i := 0; i < b.Bulk; i++ {
			specs = append(specs[:len(specs):len(specs)], itemSpec{T: int(gostatsd.TIMER), Name: "bulk" + strconv.Itoa(i), Tags: []string{}})
		}
		for _, s := range specs {
			it := &item{id: id, batch: bi, spec: s}
			it.tags = append([]string{}, s.Tags...)
			if s.BadHex != "" {
				raw, _ := hex.DecodeString(s.BadHex)
				it.tags = append(it.tags, string(raw))
			}
			it.key = gostatsd.FormatTagsKey(gostatsd.Source(s.Src), append(gostatsd.Tags(nil), it.tags...))
			sid := seriesID(s.Name, it.key)
			switch gostatsd.MetricType(s.T) {
			case gostatsd.COUNTER:
				if u.ctr[sid] == nil {
					u.ctr[sid] = map[int]*item{}
				}
				it.bit = len(u.ctr[sid])
				if it.bit >= 60 { // no room for another recognisable counter item: make it a timer
					it.spec.T = int(gostatsd.TIMER)
					if u.tim[sid] == nil {
						u.tim[sid] = map[float64]*item{}
					}
					u.tim[sid][float64(id)+0.5] = it
				} else {
					u.ctr[sid][it.bit] = it
				}
			case gostatsd.TIMER:
				if u.tim[sid] == nil {
					u.tim[sid] = map[float64]*item{}
				}
				u.tim[sid][float64(id)+0.5] = it
			case gostatsd.SET:
				if u.set[sid] == nil {
					u.set[sid] = map[string]*item{}
				}
				u.set[sid]["m"+strconv.Itoa(id)] = it
			default:
				it.spec.T = int(gostatsd.GAUGE)
				if u.gau[sid] == nil {
					u.gau[sid] = map[float64]*item{}
				}
				u.gau[sid][float64(id)] = it
			}
			its = append(its, it)
			u.items = append(u.items, it)
			id++
		}
		u.byBatch = append(u.byBatch, its)
	}
	return u
}

// batchMap builds the MetricMap a dispatcher hands over, through the real Receive.
func (u *universe) batchMap(bi int) *gostatsd.MetricMap {
	mm := gostatsd.NewMetricMap(false)
	for _, it := range u.byBatch[bi] {
		m := &gostatsd.Metric{Name: it.spec.Name, Type: gostatsd.MetricType(it.spec.T), Rate: 1,
			Tags: append(gostatsd.Tags(nil), it.tags...), Source: gostatsd.Source(it.spec.Src), Timestamp: gostatsd.Nanotime(it.id + 1)}
		switch gostatsd.MetricType(it.spec.T) {
		case gostatsd.COUNTER:
			m.Value = float64(int64(1) << uint(it.bit))
		case gostatsd.TIMER:
			m.Value = float64(it.id) + 0.5
		case gostatsd.SET:
			m.StringValue = "m" + strconv.Itoa(it.id)
		default:
			m.Value = float64(it.id)
		}
		mm.Receive(m)
	}
	return mm
}

// A seen series of a decoded map / body, independent of where it came from.
type seenSeries struct {
	typ      gostatsd.MetricType
	name     string
	key      string
	tags     []string
	host     string
	ctr      int64
	vals     []float64
	members  []string
	gaugeVal float64
}

func seriesOfMap(mm *gostatsd.MetricMap) []seenSeries {
	var out []seenSeries
	mm.Counters.Each(func(n, k string, c gostatsd.Counter) {
		out = append(out, seenSeries{typ: gostatsd.COUNTER, name: n, key: k, tags: c.Tags, host: string(c.Source), ctr: c.Value})
	})
	mm.Gauges.Each(func(n, k string, g gostatsd.Gauge) {
		out = append(out, seenSeries{typ: gostatsd.GAUGE, name: n, key: k, tags: g.Tags, host: string(g.Source), gaugeVal: g.Value})
	})
	mm.Timers.Each(func(n, k string, t gostatsd.Timer) {
		out = append(out, seenSeries{typ: gostatsd.TIMER, name: n, key: k, tags: t.Tags, host: string(t.Source), vals: t.Values})
	})
	mm.Sets.Each(func(n, k string, s gostatsd.Set) {
		var ms []string
		for m := range s.Values {
			ms = append(ms, m)
		}
		out = append(out, seenSeries{typ: gostatsd.SET, name: n, key: k, tags: s.Tags, host: string(s.Source), members: ms})
	})
	return out
}

func seriesOfPB(msg *pb.RawMessageV2) []seenSeries {
	var out []seenSeries
	for n, tm := range msg.GetCounters() {
		for k, c := range tm.GetTagMap() {
			out = append(out, seenSeries{typ: gostatsd.COUNTER, name: n, key: k, tags: c.GetTags(), host: c.GetHostname(), ctr: c.GetValue()})
		}
	}
	for n, tm := range msg.GetGauges() {
		for k, g := range tm.GetTagMap() {
			out = append(out, seenSeries{typ: gostatsd.GAUGE, name: n, key: k, tags: g.GetTags(), host: g.GetHostname(), gaugeVal: g.GetValue()})
		}
	}
	for n, tm := range msg.GetTimers() {
		for k, t := range tm.GetTagMap() {
			out = append(out, seenSeries{typ: gostatsd.TIMER, name: n, key: k, tags: t.GetTags(), host: t.GetHostname(), vals: t.GetValues()})
		}
	}
	for n, tm := range msg.GetSets() {
		for k, s := range tm.GetTagMap() {
			out = append(out, seenSeries{typ: gostatsd.SET, name: n, key: k, tags: s.GetTags(), host: s.GetHostname(), members: s.GetValues()})
		}
	}
	return out
}

const unknownBase = 1000000 // ids >= this stand for payload that is no dispatched item

// decode maps what was seen back to item ids.  Payload that is not a dispatched datapoint of that
// very series gets an id >= unknownBase (Coq reports it) and a monitor line.
func (u *universe) decode(seen []seenSeries, where string, mon *monitors) []int {
	var ids []int
	unk := 0
	unknown := func(what string) {
		ids = append(ids, unknownBase+unk)
		unk++
		mon.add(fmt.Sprintf("%s: %s is not a dispatched datapoint of that series", where, what))
	}
	checkMeta := func(s seenSeries, it *item) {
		a := append([]string{}, s.tags...)
		b := append([]string{}, it.tags...)
		sort.Strings(a)
		sort.Strings(b)
		if strings.Join(a, ",") != strings.Join(b, ",") || s.host != it.spec.Src {
			mon.add(fmt.Sprintf("%s: series %q/%q carries tags %q source %q, dispatched with tags %q source %q", where, s.name, s.key, s.tags, s.host, it.tags, it.spec.Src))
		}
	}
	for _, s := range seen {
		sid := seriesID(s.name, s.key)
		switch s.typ {
		case gostatsd.COUNTER:
			v := s.ctr
			if v <= 0 {
				unknown(fmt.Sprintf("counter %q/%q value %d", s.name, s.key, v))
				continue
			}
			for bit := 0; bit < 63; bit++ {
				if v&(int64(1)<<uint(bit)) == 0 {
					continue
				}
				if it := u.ctr[sid][bit]; it != nil {
					ids = append(ids, it.id)
					checkMeta(s, it)
				} else {
					unknown(fmt.Sprintf("counter %q/%q bit %d (value %d)", s.name, s.key, bit, v))
				}
			}
		case gostatsd.TIMER:
			if len(s.vals) == 0 {
				unknown(fmt.Sprintf("timer %q/%q without values", s.name, s.key))
			}
			for _, v := range s.vals {
				if it := u.tim[sid][v]; it != nil {
					ids = append(ids, it.id)
					checkMeta(s, it)
				} else {
					unknown(fmt.Sprintf("timer %q/%q value %v", s.name, s.key, v))
				}
			}
		case gostatsd.SET:
			if len(s.members) == 0 {
				unknown(fmt.Sprintf("set %q/%q without members", s.name, s.key))
			}
			for _, m := range s.members {
				if it := u.set[sid][m]; it != nil {
					ids = append(ids, it.id)
					checkMeta(s, it)
				} else {
					unknown(fmt.Sprintf("set %q/%q member %q", s.name, s.key, m))
				}
			}
		default:
			if it := u.gau[sid][s.gaugeVal]; it != nil {
				ids = append(ids, it.id)
				checkMeta(s, it)
			} else {
				unknown(fmt.Sprintf("gauge %q/%q value %v", s.name, s.key, s.gaugeVal))
			}
		}
	}
	sort.Ints(ids)
	return ids
}

// ---------------------------------------------------------------------------------------------

type monitors struct {
	mu sync.Mutex
	l  []string
}

func (m *monitors) add(s string) {
	m.mu.Lock()
	if len(m.l) < 12 {
		m.l = append(m.l, s)
	}
	m.mu.Unlock()
}

// event log: positions in this slice are the global order Coq reasons about
type evlog struct {
	mu sync.Mutex
	l  []string
}

func (e *evlog) add(s string) {
	e.mu.Lock()
	e.l = append(e.l, s)
	e.mu.Unlock()
}

func nat(i int) string { return strconv.Itoa(i) }

func natList(xs []int) string {
	el := make([]string, len(xs))
	for i, x := range xs {
		el[i] = nat(x)
	}
	return hlib.List(el)
}

// Coq term of an item: the tags key is computed by the model (Model.Series.tags_key)
func (it *item) coq() string {
	strs := append([]string{}, it.tags...)
	if it.spec.Src != "" {
		strs = append(strs, it.spec.Src)
	}
	if gostatsd.MetricType(it.spec.T) == gostatsd.SET {
		strs = append(strs, "m"+strconv.Itoa(it.id))
	}
	kind, pay, member := uint64(it.spec.T), "(zi 0)", ""
	switch gostatsd.MetricType(it.spec.T) {
	case gostatsd.COUNTER:
		kind, pay = 1, hlib.Z(int64(it.bit))
	case gostatsd.TIMER:
		kind, pay = 2, hlib.F64(float64(it.id)+0.5)
	case gostatsd.GAUGE:
		kind, pay = 3, hlib.F64(float64(it.id))
	default:
		kind, member = 4, "m"+strconv.Itoa(it.id)
	}
	return hlib.App("WItem", nat(it.batch), hlib.Bool(gostatsd.MetricType(it.spec.T) == gostatsd.GAUGE),
		hlib.App("Item", nat(it.id), hlib.Bytes(it.spec.Name),
			hlib.App("tags_key", hlib.Bytes(it.spec.Src), hlib.StrList(it.tags)), hlib.StrList(strs)),
		hlib.N(kind), pay, hlib.Bytes(member))
}

// utf8 oracle table: every string the serialiser will see, straight from unicode/utf8
func (u *universe) utf8Table() string {
	seen := map[string]bool{}
	var el []string
	add := func(s string) {
		if !seen[s] {
			seen[s] = true
			el = append(el, hlib.Pair(hlib.Bytes(s), hlib.Bool(utf8.ValidString(s))))
		}
	}
	for _, it := range u.items {
		add(it.spec.Name)
		add(it.key)
		for _, t := range it.tags {
			add(t)
		}
		add(it.spec.Src)
		add("m" + strconv.Itoa(it.id))
	}
	return hlib.List(el)
}

func isFinite(f float64) bool { return !math.IsNaN(f) && !math.IsInf(f, 0) }
