package main

import (
	"bytes"
	"context"
	"fmt"
	"io"
	"net"
	"net/http"
	"net/http/httptest"
	"sort"
	"strings"
	"sync"
	"sync/atomic"
	"time"

	"github.com/sirupsen/logrus"
	"github.com/spf13/viper"
	"google.golang.org/protobuf/proto"

	"github.com/atlassian/gostatsd"
	"github.com/atlassian/gostatsd/pb"
	"github.com/atlassian/gostatsd/pkg/stats"
	"github.com/atlassian/gostatsd/pkg/statsd"
	"github.com/atlassian/gostatsd/pkg/transport"
	"github.com/atlassian/gostatsd/pkg/web"
	"github.com/atlassian/gostatsd/verifhooks"

	"verifharness/hlib"
)

const d8Signature = "D8-non-utf8-string-drops-merged-batch"

// attempt outcomes of the scripted upstream
const (
	k2xx = iota
	k4xx
	k5xx
	kReset
	kSlow2xx
	kSlow5xx
	kTimeout // never answers; the client's timeout ends the attempt
	// the upstream has read and accepted the request and sent a 2xx status line; only the response
	// BODY goes wrong.  The status is the outcome: a success.
	k2xxShortBody   // Content-Length larger than what is written, then the connection is closed
	k2xxResetBody   // connection reset right after the headers
	k2xxStalledBody // the body never comes; the client's timeout ends the read
)

func kindOK(k int) bool {
	return k == k2xx || k == kSlow2xx || k == k2xxShortBody || k == k2xxResetBody || k == k2xxStalledBody
}

type capStatser struct {
	stats.Statser
	ch   chan time.Duration
	mu   sync.Mutex
	vals map[string]uint64
	done chan struct{}
	once sync.Once
}

func (c *capStatser) RegisterFlush() (<-chan time.Duration, func()) { return c.ch, func() {} }
func (c *capStatser) Report(name string, v *uint64, _ gostatsd.Tags) {
	c.mu.Lock()
	c.vals[name] = atomic.LoadUint64(v)
	c.mu.Unlock()
}
func (c *capStatser) Count(name string, _ float64, _ gostatsd.Tags) {
	if name == "http.forwarder.post_latency.sum" { // the last call of emitMetrics
		c.once.Do(func() { close(c.done) })
	}
}

type seenBody struct {
	idx      int
	ids      []int
	nop      bool
	headers  map[string]string
	row      []int
	attempts []int // outcome kinds served, in order
	busy     bool
	lastEnd  int64 // when the outcome of the latest attempt was decided
	raw      []byte
	identity bool // sent with Content-Encoding: identity: the body is the protobuf message itself
}

type upstream struct {
	mu      sync.Mutex
	in      input
	u       *universe
	ev      *evlog
	mon     *monitors
	bodies  map[string]*seenBody
	order   []*seenBody
	nextRow int
	last    time.Time // last time an attempt started or ended
	t0      time.Time // start of the case; all recorded times are nanoseconds since then
}

// giveUpHook records when the handler logs "failed to send, giving up": the log call follows the
// NextBackOff() that returned Stop, so its time bounds from above the elapsed time that call saw.
type giveUpHook struct {
	mu    sync.Mutex
	t0    time.Time
	times []int64
}

func (h *giveUpHook) Levels() []logrus.Level { return logrus.AllLevels }
func (h *giveUpHook) Fire(e *logrus.Entry) error {
	if e.Message == "failed to send, giving up" {
		h.mu.Lock()
		h.times = append(h.times, int64(time.Since(h.t0)))
		h.mu.Unlock()
	}
	return nil
}

func headerView(h http.Header) map[string]string {
	out := map[string]string{}
	for n, vs := range h {
		ln := strings.ToLower(n)
		if ln == "content-length" || ln == "accept-encoding" {
			continue
		}
		out[ln] = strings.Join(vs, "\x00")
	}
	return out
}

func (s *upstream) ServeHTTP(w http.ResponseWriter, r *http.Request) {
	raw, err := io.ReadAll(r.Body)
	if err != nil {
		s.mon.add("upstream could not read a request body: " + err.Error())
		w.WriteHeader(500)
		return
	}
	if r.URL.Path != "/v2/raw" || r.Method != "POST" {
		s.mon.add("unexpected request " + r.Method + " " + r.URL.Path)
	}
	hv := headerView(r.Header)
	id := r.Header.Get("Content-Encoding") + "\x00" + string(raw)

	s.mu.Lock()
	b := s.bodies[id]
	if b == nil {
		b = &seenBody{idx: len(s.order), headers: hv, raw: raw, identity: r.Header.Get("Content-Encoding") == "identity"}
		plain := raw
		switch r.Header.Get("Content-Encoding") {
		case "deflate":
			plain, err = web.DecompressWithZlib(raw)
		case "lz4":
			plain, err = web.DecompressWithLz4(raw)
		}
		var msg pb.RawMessageV2
		if err == nil {
			err = proto.Unmarshal(plain, &msg)
		}
		if err != nil {
			s.mon.add(fmt.Sprintf("body %d does not decode: %v", b.idx, err))
		}
		seen := seriesOfPB(&msg)
		b.ids = s.u.decode(seen, fmt.Sprintf("body %d", b.idx), s.mon)
		b.nop = len(seen) == 0
		if b.nop {
			b.row = s.in.Nop
		} else {
			if s.nextRow < len(s.in.Script) {
				b.row = s.in.Script[s.nextRow]
			}
			s.nextRow++
		}
		s.bodies[id] = b
		s.order = append(s.order, b)
	} else if fmt.Sprint(hv) != fmt.Sprint(b.headers) {
		s.mon.add(fmt.Sprintf("body %d re-sent with different headers", b.idx))
	}
	if b.busy {
		s.mon.add(fmt.Sprintf("body %d: an attempt started while another was in progress", b.idx))
	}
	if n := len(b.attempts); n > 0 && kindOK(b.attempts[n-1]) {
		s.mon.add(fmt.Sprintf("body %d sent again after a 2xx answer", b.idx))
	}
	kind := k2xx
	if n := len(b.attempts); n < len(b.row) {
		kind = b.row[n]
	}
	b.attempts = append(b.attempts, kind)
	b.busy = true
	s.last = time.Now()
	s.ev.add(hlib.App("EAttS", nat(b.idx)))
	s.mu.Unlock()

	// the outcome is decided here; the client learns it only after this point
	finish := func() {
		s.mu.Lock()
		b.busy = false
		s.last = time.Now()
		b.lastEnd = int64(time.Since(s.t0))
		s.ev.add(hlib.App("EAttE", nat(b.idx), hlib.N(uint64(kind))))
		s.mu.Unlock()
	}
	switch kind {
	case k2xx:
		finish()
		w.WriteHeader(202)
	case k4xx:
		finish()
		w.WriteHeader(400)
	case k5xx:
		finish()
		w.WriteHeader(500)
	case kReset:
		finish()
		if hj, ok := w.(http.Hijacker); ok {
			if conn, _, err := hj.Hijack(); err == nil {
				conn.Close()
				return
			}
		}
		w.WriteHeader(502)
	case kSlow2xx:
		time.Sleep(25 * time.Millisecond)
		finish()
		w.WriteHeader(200)
	case kSlow5xx:
		time.Sleep(25 * time.Millisecond)
		finish()
		w.WriteHeader(503)
	case k2xxShortBody:
		finish()
		w.Header().Set("Content-Length", "64")
		w.WriteHeader(200)
		w.Write([]byte("accepted: "))
		if f, ok := w.(http.Flusher); ok {
			f.Flush()
		}
		// returning now makes net/http close the connection: the client reads an unexpected EOF
	case k2xxResetBody:
		finish()
		w.Header().Set("Content-Length", "64")
		w.WriteHeader(200)
		if f, ok := w.(http.Flusher); ok {
			f.Flush()
		}
		if hj, ok := w.(http.Hijacker); ok {
			if conn, _, err := hj.Hijack(); err == nil {
				if tc, ok := conn.(*net.TCPConn); ok {
					tc.SetLinger(0)
				}
				conn.Close()
			}
		}
	case k2xxStalledBody:
		finish()
		w.Header().Set("Content-Length", "64")
		w.WriteHeader(200)
		if f, ok := w.(http.Flusher); ok {
			f.Flush()
		}
		select {
		case <-r.Context().Done():
		case <-time.After(5 * time.Second):
		}
	default: // kTimeout
		finish()
		select {
		case <-r.Context().Done():
		case <-time.After(5 * time.Second):
		}
		w.WriteHeader(504)
	}
}

// waitArrived returns when every non-gauge item and at least one item of every gauge series has
// been decoded from some body, or when the upstream has seen no attempt start or end for [idle]
// (retries of one body can hold back the other parts of a flush for as long as the retry window).
func (s *upstream) waitArrived(idle time.Duration) {
	start := time.Now()
	for time.Since(start) < 3*time.Minute {
		s.mu.Lock()
		quiet := time.Since(s.last) > idle && time.Since(start) > idle
		s.mu.Unlock()
		if quiet {
			return
		}
		s.mu.Lock()
		have := map[int]bool{}
		for _, b := range s.order {
			for _, id := range b.ids {
				have[id] = true
			}
		}
		s.mu.Unlock()
		gauge := map[string]bool{}
		for _, it := range s.u.items {
			if it.spec.T == int(gostatsd.GAUGE) && have[it.id] {
				gauge[seriesID(it.spec.Name, it.key)] = true
			}
		}
		ok := true
		for _, it := range s.u.items {
			if it.spec.T == int(gostatsd.GAUGE) {
				ok = ok && gauge[seriesID(it.spec.Name, it.key)]
			} else {
				ok = ok && have[it.id]
			}
		}
		if ok {
			return
		}
		time.Sleep(2 * time.Millisecond)
	}
}

func encodingOf(compress string) string {
	switch compress {
	case "zlib":
		return "deflate"
	case "lz4":
		return "lz4"
	}
	return "identity"
}

func runFwd(in input) []hlib.Case {
	cls := "fwd-" + in.Mode
	if in.D8 {
		cls = "fwd-d8"
	}
	if in.Shutdown {
		cls = "fwd-shutdown-" + in.Mode
	}
	if in.IdleMs > 0 {
		cls = "fwd-late-failure"
	}
	c := hlib.Case{Input: in, Class: cls}
	mon := &monitors{}
	ev := &evlog{}
	u := buildUniverse(in.Batches)
	t0 := time.Now()
	up := &upstream{in: in, u: u, ev: ev, mon: mon, bodies: map[string]*seenBody{}, t0: t0}
	srv := httptest.NewServer(up)
	defer srv.Close()

	logger := logrus.New()
	logger.SetOutput(io.Discard)
	gu := &giveUpHook{t0: t0}
	logger.AddHook(gu)
	v := viper.New()
	ct := 10 * time.Second
	if in.ClientTimeoutMs > 0 {
		ct = time.Duration(in.ClientTimeoutMs) * time.Millisecond
	}
	v.Set("transport.default.client-timeout", ct)
	pool := transport.NewTransportPool(logger, v)

	window := time.Duration(in.WindowMs) * time.Millisecond
	if in.WindowMs < 0 {
		window = -1
	}
	xh := map[string]string{}
	for _, kv := range in.XHeaders {
		xh[kv[0]] = kv[1]
	}
	compress := in.Compress != "off"
	ctype := in.Compress
	if ctype == "off" {
		ctype = "zlib"
	}
	manual := in.Mode == "manual"
	interval := time.Hour
	if !manual {
		interval = time.Duration(in.IntervalMs) * time.Millisecond
	}
	fc := verifhooks.VerifNewFlushCoordinator()
	var hfh *statsd.HttpForwarderHandlerV2
	var err error
	if manual {
		hfh, err = statsd.NewHttpForwarderHandlerV2(logger, "default", srv.URL, in.Slots, in.MR, in.CM, compress, ctype, 1, window, interval, xh, in.Dyn, pool, fc)
	} else {
		hfh, err = statsd.NewHttpForwarderHandlerV2(logger, "default", srv.URL, in.Slots, in.MR, in.CM, compress, ctype, 1, window, interval, xh, in.Dyn, pool, nil)
	}
	if err != nil {
		c.Monitors = []string{"harness: cannot construct the forwarder: " + err.Error()}
		return []hlib.Case{c}
	}
	var notified int64
	if manual {
		go func() { // the coordinator's notification channel holds one entry: keep it drained, and count
			for {
				fc.WaitForFlush()
				atomic.AddInt64(&notified, 1)
			}
		}()
	}

	cs := &capStatser{Statser: stats.NewNullStatser(), ch: make(chan time.Duration, 1), vals: map[string]uint64{}, done: make(chan struct{})}
	mctx, mcancel := context.WithCancel(stats.NewContext(context.Background(), cs))
	defer mcancel()
	go hfh.RunMetricsContext(mctx)

	ctx, cancel := context.WithCancel(context.Background())
	runDone := make(chan struct{})
	runStart := int64(time.Since(t0))
	go func() { hfh.Run(ctx); close(runDone) }()
	// the handler may be old when its first request fails: the retry window of a request is its own
	time.Sleep(time.Duration(in.IdleMs) * time.Millisecond)
	callAt := make([]int64, len(in.Batches))

	nFlush := 0
	if manual {
		nFlush = len(in.Flushes) + 1
	}
	nd := 0
	for _, b := range in.Batches {
		if b.D+1 > nd {
			nd = b.D + 1
		}
	}
	var wg sync.WaitGroup
	for d := 0; d < nd; d++ {
		wg.Add(1)
		go func(d int) {
			defer wg.Done()
			for bi, b := range in.Batches {
				if b.D != d {
					continue
				}
				time.Sleep(time.Duration(b.Us) * time.Microsecond)
				mm := u.batchMap(bi)
				callAt[bi] = int64(time.Since(t0))
				ev.add(hlib.App("ECall", nat(bi)))
				hfh.DispatchMetricMap(context.Background(), mm)
				ev.add(hlib.App("ERet", nat(bi)))
			}
		}(d)
	}
	stuck := false
	doFlush := func(f int) {
		done := make(chan struct{})
		go func() {
			ev.add(hlib.App("EReady", nat(f)))
			fc.Flush()
			ev.add(hlib.App("EDone", nat(f)))
			close(done)
		}()
		select {
		case <-done:
		case <-time.After(40 * time.Second):
			mon.add(fmt.Sprintf("flush %d did not return within 40s", f))
			stuck = true
		}
	}
	if manual {
		for i, us := range in.Flushes {
			time.Sleep(time.Duration(us) * time.Microsecond)
			if doFlush(i + 1); stuck {
				break
			}
		}
	}
	dispDone := make(chan struct{})
	go func() { wg.Wait(); close(dispDone) }()
	select {
	case <-dispDone:
	case <-time.After(40 * time.Second):
		mon.add("a DispatchMetricMap call did not return within 40s")
		stuck = true
	}
	if manual && !stuck {
		doFlush(nFlush)
	}
	// Shutdown is not among C15's quantifiers, and cancelling right after a flush races with that
	// flush's goroutine (see notes/C15.md): wait until every part has been posted once -- every
	// recognisable datapoint has reached the upstream -- before cancelling.  A datapoint that does not
	// arrive within the deadline is reported as lost below.
	if !stuck && !in.Shutdown {
		deadline := 8 * time.Second
		if in.D8 {
			deadline = 2500 * time.Millisecond
		}
		up.waitArrived(deadline)
	}
	// shutdown: Run returns only after it has re-acquired every token of both semaphores
	// (when something is already wedged the handler is left running: closing its channels under a
	// blocked Flush would only turn the hang into a panic)
	if !stuck {
		cancel()
		select {
		case <-runDone:
		case <-time.After(40 * time.Second):
			mon.add("HttpForwarderHandlerV2.Run did not return within 40s of cancellation: a semaphore token is missing or a request never ends")
			stuck = true
		}
	}
	cs.ch <- 0
	select {
	case <-cs.done:
	case <-time.After(10 * time.Second):
		mon.add("harness: emitMetrics was not called")
	}
	cs.mu.Lock()
	created, sent := cs.vals["http.forwarder.created"], cs.vals["http.forwarder.sent"]
	retried, dropped, invalid := cs.vals["http.forwarder.retried"], cs.vals["http.forwarder.dropped"], cs.vals["http.forwarder.invalid"]
	cs.mu.Unlock()

	up.mu.Lock()
	bodies := append([]*seenBody(nil), up.order...)
	up.mu.Unlock()

	// ---- monitors that need no model
	count := map[int]int{}
	nSent, nDropped, nFail, nops := 0, 0, 0, 0
	for _, b := range bodies {
		for _, id := range b.ids {
			count[id]++
		}
		if b.nop {
			nops++
		}
		for _, k := range b.attempts {
			if !kindOK(k) {
				nFail++
			}
		}
		if kindOK(b.attempts[len(b.attempts)-1]) {
			nSent++
		} else {
			nDropped++
		}
	}
	if nops != 1 {
		mon.add(fmt.Sprintf("%d empty bodies reached the upstream (only the start-up nop is sent empty)", nops))
	}
	missingValid, badMissing := 0, false
	for _, it := range u.items {
		n := count[it.id]
		switch {
		case it.spec.BadHex != "":
			badMissing = n == 0
		case n > 1:
			mon.add(fmt.Sprintf("item %d (batch %d) is in %d distinct bodies", it.id, it.batch, n))
		case n == 0 && it.spec.T != int(gostatsd.GAUGE):
			missingValid++
			if !in.D8 {
				mon.add(fmt.Sprintf("item %d (batch %d, %q tags %q) is in no body", it.id, it.batch, it.spec.Name, it.tags))
			}
		}
	}
	if !stuck {
		if int(created) != len(bodies) || int(sent) != nSent || int(dropped) != nDropped || int(retried) != nFail-nDropped {
			mon.add(fmt.Sprintf("counters created=%d sent=%d retried=%d dropped=%d, upstream saw %d bodies, %d ending 2xx, %d ending in failure, %d failed attempts",
				created, sent, retried, dropped, len(bodies), nSent, nDropped, nFail))
		}
		if !in.D8 && invalid != 0 {
			mon.add(fmt.Sprintf("http.forwarder.invalid = %d without any unserialisable datapoint", invalid))
		}
	}

	// ---- bodies that were given up: pair them with the handler's "giving up" log entries.  The
	// request of body B was created after the last dispatch call of any of its items (lb); it may be
	// given up only when NextBackOff saw elapsed > window, and the log entry comes after that call,
	// so a legitimate pairing has t_log >= max(lastEnd(B), lb(B) + window).  Sorting both sides finds a
	// legitimate pairing whenever one exists; Coq then checks every pair against the window.
	gu.mu.Lock()
	logs := append([]int64(nil), gu.times...)
	gu.mu.Unlock()
	sort.Slice(logs, func(i, j int) bool { return logs[i] < logs[j] })
	lbOf := func(b *seenBody) int64 {
		lb := runStart
		for _, id := range b.ids {
			if id < len(u.items) && callAt[u.items[id].batch] > lb {
				lb = callAt[u.items[id].batch]
			}
		}
		return lb
	}
	type given struct {
		b     *seenBody
		lb    int64
		theta int64
	}
	var gs []given
	for _, b := range bodies {
		if !kindOK(b.attempts[len(b.attempts)-1]) {
			g := given{b: b, lb: lbOf(b), theta: b.lastEnd}
			if window > 0 && g.lb+int64(window) > g.theta {
				g.theta = g.lb + int64(window)
			}
			gs = append(gs, g)
		}
	}
	sort.Slice(gs, func(i, j int) bool { return gs[i].theta < gs[j].theta })
	stopUB := map[int]int64{}
	for i, g := range gs {
		if i < len(logs) {
			stopUB[g.b.idx] = logs[i] - g.lb
		}
	}
	if !stuck && len(logs) != len(gs) {
		mon.add(fmt.Sprintf("%d bodies ended in a failed attempt but the handler logged %d times that it gives up", len(gs), len(logs)))
	}

	// ---- NotifyFlush calls.  Every call has completed when Run returns; the drainer may still be
	// about to count the last one, so wait until the count reaches what the model expects (the
	// verdict is Coq's; the expectation here only bounds the waiting).
	notifiedTerm := "None"
	if manual && !stuck {
		effDyn := 0
		for _, n := range in.Dyn {
			if _, static := xh[n]; n != "" && !static {
				effDyn++
			}
		}
		want := int64(nFlush)
		if effDyn > 0 {
			want = int64(len(bodies)) - 1 + int64(invalid)
		}
		for i := 0; i < 1500 && atomic.LoadInt64(&notified) != want; i++ {
			time.Sleep(2 * time.Millisecond)
		}
		time.Sleep(2 * time.Millisecond)
		notifiedTerm = hlib.App("Some", nat(int(atomic.LoadInt64(&notified))))
	}

	// ---- the Coq case
	var xhl, il, bl []string
	for _, kv := range in.XHeaders {
		xhl = append(xhl, hlib.Pair(hlib.Bytes(kv[0]), hlib.Bytes(kv[1])))
	}
	for _, it := range u.items {
		il = append(il, it.coq())
	}
	enc := encodingOf(in.Compress)
	for _, b := range bodies {
		var names []string
		for n := range b.headers {
			names = append(names, n)
		}
		sort.Strings(names)
		var hl []string
		for _, n := range names {
			hl = append(hl, hlib.Pair(hlib.Bytes(n), hlib.Bytes(b.headers[n])))
		}
		// identity-encoded bodies go to Coq as they are: PbWire's decoder must find the same items
		rawTerm := "None"
		if b.identity && len(b.raw) <= 6000 {
			rawTerm = hlib.App("Some", hlib.BytesB(b.raw))
		}
		bl = append(bl, hlib.App("Body", natList(b.ids), hlib.Bytes(enc), hlib.List(hl), rawTerm, hlib.Z(stopUB[b.idx])))
	}
	ev.mu.Lock()
	evs := hlib.List(ev.l)
	nev := len(ev.l)
	ev.mu.Unlock()
	c.Coq = hlib.App("FwdCase", hlib.Z(int64(window)), hlib.Bool(compress), hlib.Bytes(ctype), hlib.List(xhl), hlib.StrList(in.Dyn), u.utf8Table(), hlib.List(il), hlib.Bool(manual), nat(nFlush), evs, hlib.List(bl),
		hlib.App("Ctr", nat(int(created)), nat(int(sent)), nat(int(retried)), nat(int(dropped)), nat(int(invalid))), notifiedTerm)
	c.Monitors = mon.l
	retriedBodies := 0
	for _, b := range bodies {
		if len(b.attempts) > 1 {
			retriedBodies++
		}
	}
	c.Obs = map[string]interface{}{"bodies": len(bodies), "events": nev, "items": len(u.items), "created": created, "sent": sent,
		"retried": retried, "dropped": dropped, "invalid": invalid, "bodies_retried": retriedBodies, "notified": atomic.LoadInt64(&notified)}
	c.Nontrivial = nd >= 2 && len(bodies) >= 3 && (retriedBodies > 0 || nDropped > 0 || len(in.Dyn) > 0 || len(in.Flushes) > 0)
	if in.Shutdown {
		// the input class of the suspected shutdown defect: reported under its own signature
		c.Coq = ""
		if len(c.Monitors) > 0 {
			c.Known = "shutdown-cancel-races-with-last-flush"
		}
	}
	out := []hlib.Case{c}
	if in.D8 && badMissing && missingValid > 0 && invalid >= 1 {
		k := hlib.Case{Input: in, Class: "fwd-d8-finding", Known: d8Signature, Key: hlib.HashOf(in) + "-d8", Nontrivial: true,
			Monitors: []string{fmt.Sprintf("D8 reproduced: one tag that is not valid UTF-8 made proto.Marshal fail; http.forwarder.invalid=%d and %d valid datapoints merged into the same request were lost with it", invalid, missingValid)}}
		out = append(out, k)
	}
	return out
}

var _ = bytes.NewReader
