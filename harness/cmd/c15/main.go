// C15: the forwarder delivers every batch exactly once or reports it dropped.
//
// Streams (see Corr/C15.v):
//
//	split  real MetricMap.SplitByTags vs the model's split_by_tags
//	cons   real MetricConsolidator, harness-owned sink, concurrent dispatchers, manual / ticker flushes
//	fwd    real HttpForwarderHandlerV2 + consolidator against a scripted httptest upstream
//	d8     fwd with one tag that is not valid UTF-8 (known finding D8)
package main

import (
	"encoding/json"
	"fmt"
	"os"
	"sort"
	"sync"

	"github.com/atlassian/gostatsd"

	"verifharness/hlib"
	"verifharness/mmgen"
)

type input struct {
	Kind string `json:"kind"` // split | cons | fwd
	// split
	Dps   []mmgen.Dp `json:"dps,omitempty"`
	Names []string   `json:"names,omitempty"`
	// cons, fwd
	Mode    string      `json:"mode,omitempty"` // manual | timer
	Slots   int         `json:"slots,omitempty"`
	Batches []batchSpec `json:"batches"`
	Flushes []int       `json:"flushes,omitempty"` // pause before each concurrent flush, microseconds
	EmitUs  []int       `json:"emit_us,omitempty"` // cons: pause of the sink reader before it takes emission f
	// fwd
	CM              int         `json:"cm,omitempty"`
	MR              int         `json:"mr,omitempty"`
	Compress        string      `json:"compress,omitempty"` // off | none | zlib | lz4
	XHeaders        [][2]string `json:"xheaders,omitempty"`
	Dyn             []string    `json:"dyn,omitempty"`
	WindowMs        int         `json:"window_ms,omitempty"` // max-request-elapsed-time; -1 = retries disabled
	ClientTimeoutMs int         `json:"client_timeout_ms,omitempty"`
	IntervalMs      int         `json:"interval_ms,omitempty"` // timer mode: flush-interval
	IdleMs          int         `json:"idle_ms,omitempty"`     // the handler runs idle this long before the first dispatch
	Script          [][]int     `json:"script,omitempty"`      // per distinct body in arrival order: outcome per attempt (then 2xx)
	Nop             []int       `json:"nop,omitempty"`         // the same for the start-up nop
	D8              bool        `json:"d8,omitempty"`
	Shutdown        bool        `json:"shutdown,omitempty"` // cancel Run right after the last flush (suspected defect, see notes/C15.md)
}

// ---------------------------------------------------------------------------------------------
// split stream

func runSplit(in input) hlib.Case {
	c := hlib.Case{Input: in, Class: "split"}
	mm := mmgen.Build(in.Dps)
	total := mmgen.Size(mm)
	var parts map[string]*gostatsd.MetricMap
	if msg := hlib.Recover(func() { parts = mm.SplitByTags(in.Names) }); msg != "" {
		c.Monitors = []string{"SplitByTags panicked: " + msg}
		return c
	}
	keys := make([]string, 0, len(parts))
	sum := 0
	for k, p := range parts {
		keys = append(keys, k)
		sum += mmgen.Size(p)
	}
	sort.Strings(keys)
	if sum != total {
		c.Monitors = append(c.Monitors, fmt.Sprintf("parts hold %d series, the map %d", sum, total))
	}
	var el []string
	for _, k := range keys {
		el = append(el, hlib.Pair(hlib.Bytes(k), mmgen.Entries(parts[k])))
	}
	dps := make([]string, len(in.Dps))
	for i, d := range in.Dps {
		dps[i] = d.Coq()
	}
	c.Coq = hlib.App("SplitCase", hlib.List(dps), hlib.StrList(in.Names), hlib.List(el))
	c.Obs = map[string]interface{}{"series": total, "parts": keys}
	c.Nontrivial = len(parts) >= 2
	return c
}

var tagPool = []string{"xregion:us", "myteam:a", "region:us", "region:eu", "region:", "team:a", "team:b", "team_x:b", "env:p", "regionx:1", "region", "k:v", "a", "env:q"}
var dynPool = []string{"region:", "team:", "team_x:", "env:", "s:", "k:", "reg", "", "zz:"}

func genSplit(r *hlib.Rand) input {
	u := mmgen.NewUniverse(r, 3, 2, 1)
	u.Tags = append(u.Tags, tagPool...)
	in := input{Kind: "split", Names: []string{}}
	n := r.Range(0, 14)
	for i := 0; i < n; i++ {
		d := u.Dp(r, 1, 50)
		if r.Chance(2, 3) {
			d.Tags = []string{}
			for j, nt := 0, r.Range(0, 3); j < nt; j++ {
				d.Tags = append(d.Tags, hlib.Pick(r, tagPool))
			}
		}
		in.Dps = append(in.Dps, d)
	}
	for i, nn := 0, []int{0, 1, 1, 2, 2, 3}[r.Intn(6)]; i < nn; i++ {
		in.Names = append(in.Names, hlib.Pick(r, dynPool))
	}
	return in
}

// ---------------------------------------------------------------------------------------------
// cons / fwd generators

var namePool = []string{"req", "lat", "users", "q.depth", "err"}
var fwdTags = []string{"xregion:us", "a.team:b", "region:us", "region:eu", "team:a", "team:b", "team_x:c", "env:p", "regionx:1", "region", "v:1"}
var srcPool = []string{"", "", "", "10.0.0.1", "h2"}

func genBatches(r *hlib.Rand, nd, perD, maxItems int, gauges bool) []batchSpec {
	var out []batchSpec
	for d := 0; d < nd; d++ {
		for j, n := 0, r.Range(1, perD); j < n; j++ {
			b := batchSpec{D: d, Us: []int{0, 0, 20, 100, 400, 1500}[r.Intn(6)]}
			for i, ni := 0, r.Range(1, maxItems); i < ni; i++ {
				it := itemSpec{T: r.Range(1, 4), Name: hlib.Pick(r, namePool), Tags: []string{}, Src: hlib.Pick(r, srcPool)}
				if !gauges && it.T == int(gostatsd.GAUGE) {
					it.T = int(gostatsd.TIMER)
				}
				for t, nt := 0, []int{0, 1, 1, 2, 3}[r.Intn(5)]; t < nt; t++ {
					it.Tags = append(it.Tags, hlib.Pick(r, fwdTags))
				}
				b.Items = append(b.Items, it)
			}
			out = append(out, b)
		}
	}
	// interleave the dispatchers' batches (order within a dispatcher is kept by the runner)
	for i := len(out) - 1; i > 0; i-- {
		j := r.Intn(i + 1)
		out[i], out[j] = out[j], out[i]
	}
	return out
}

func genCons(r *hlib.Rand) input {
	in := input{Kind: "cons", Mode: "manual", Slots: r.Range(1, 8)}
	if r.Chance(1, 3) {
		in.Mode = "timer"
	}
	in.Batches = genBatches(r, r.Range(1, 6), 5, 3, false)
	if r.Chance(1, 4) {
		// few slots, large batches, back-to-back flushes: a slot is drained and read by the sink's
		// reader right after a dispatcher has sent it back
		in.Slots = r.Range(1, 2)
		in.Batches = genBatches(r, r.Range(2, 4), 4, 2, false)
		for i := range in.Batches {
			in.Batches[i].Bulk = r.Range(800, 3000)
			in.Batches[i].Us = 0
		}
		for i := 0; i < 6; i++ {
			in.Flushes = append(in.Flushes, 0)
		}
	}
	for i, n := 0, r.Range(0, 4); i < n; i++ {
		in.Flushes = append(in.Flushes, []int{0, 50, 300, 1000, 2500}[r.Intn(5)])
	}
	for i := 0; i <= len(in.Flushes); i++ {
		in.EmitUs = append(in.EmitUs, []int{0, 0, 200, 1500, 4000}[r.Intn(5)])
	}
	return in
}

func genScript(r *hlib.Rand, rows int, failNum, failDen int, kinds []int) [][]int {
	var s [][]int
	for i := 0; i < rows; i++ {
		var row []int
		for r.Chance(failNum, failDen) && len(row) < 2 {
			row = append(row, hlib.Pick(r, kinds))
		}
		if r.Chance(1, 3) { // the attempt that succeeds: plain 202 by default, else one of these
			row = append(row, hlib.Pick(r, []int{kSlow2xx, k2xxShortBody, k2xxResetBody}))
		}
		s = append(s, row)
	}
	return s
}

func genFwd(r *hlib.Rand, d8 bool) input {
	in := input{Kind: "fwd", Mode: "manual", Slots: r.Range(1, 8), CM: r.Range(1, 3), MR: r.Range(1, 4),
		Compress: hlib.Pick(r, []string{"off", "none", "zlib", "zlib", "lz4"}), WindowMs: -1, D8: d8}
	if r.Chance(1, 4) && !d8 {
		in.Mode = "timer"
		in.IntervalMs = r.Range(2, 8)
	}
	in.Batches = genBatches(r, r.Range(1, 6), 4, 4, true)
	if in.Mode == "manual" {
		for i, n := 0, r.Range(0, 3); i < n; i++ {
			in.Flushes = append(in.Flushes, []int{0, 100, 600, 2000}[r.Intn(4)])
		}
	}
	switch r.Intn(5) {
	case 0:
	case 1:
		in.Dyn = []string{"region"}
	case 2:
		in.Dyn = []string{"region", "team_x"}
	case 3:
		in.Dyn = []string{"team", "", "region"}
	case 4:
		in.Dyn = []string{"env", "s"}
	}
	switch r.Intn(6) {
	case 0:
		in.XHeaders = [][2]string{{"X-Custom", "v1"}}
	case 1:
		in.XHeaders = [][2]string{{"region", "static"}} // verbatim name: not dynamic any more
	case 2:
		in.XHeaders = [][2]string{{"Region", "fixed"}} // different spelling: still split by region, value overridden
	}
	// fault script
	switch r.Intn(7) {
	case 0: // no faults
	case 1: // every answer is a 2xx, some with a broken response body; retries disabled or not
		in.WindowMs = hlib.Pick(r, []int{-1, 300})
		for i := 0; i < 12; i++ {
			in.Script = append(in.Script, []int{hlib.Pick(r, []int{k2xx, k2xxShortBody, k2xxResetBody, kSlow2xx})})
		}
		if r.Bool() {
			in.Nop = []int{k2xxShortBody}
		}
	case 2: // retries disabled: every failure is a drop
		in.Script = genScript(r, 12, 1, 2, []int{k4xx, k5xx, kReset, kSlow5xx})
		if r.Bool() {
			in.Nop = []int{k5xx}
		}
	case 3: // a retry window that allows one or two more attempts
		in.WindowMs = hlib.Pick(r, []int{1, 200, 500})
		in.Script = genScript(r, 12, 1, 3, []int{k4xx, k5xx, kReset, kSlow5xx})
	case 4:
		in.WindowMs = hlib.Pick(r, []int{300, 600})
		in.Script = genScript(r, 12, 1, 4, []int{k5xx, kReset})
		if r.Bool() {
			in.Nop = []int{kReset}
		}
		if r.Chance(1, 3) { // one body is accepted with a response body that never arrives
			in.ClientTimeoutMs = 1000
			in.Script[0] = append(in.Script[0][:0:0], k2xxStalledBody)
		}
	case 6: // the handler is older than the retry window when its first requests fail once: a request's
		// window is its own, so each of them must be retried (and then succeeds)
		in.WindowMs = hlib.Pick(r, []int{150, 250, 400})
		in.IdleMs = in.WindowMs + 100
		for i, n := 0, r.Range(1, 4); i < n; i++ {
			in.Script = append(in.Script, []int{hlib.Pick(r, []int{k4xx, k5xx, kReset, kSlow5xx})})
		}
		if len(in.Batches) > 8 {
			in.Batches = in.Batches[:8]
		}
		if len(in.Flushes) > 1 {
			in.Flushes = in.Flushes[:1]
		}
	case 5: // the client's timeout ends attempts; nothing ever succeeds, so no stall can turn a 2xx into a failure
		in.ClientTimeoutMs = 80
		in.WindowMs = hlib.Pick(r, []int{-1, 100})
		for i := 0; i < 40; i++ {
			in.Script = append(in.Script, []int{hlib.Pick(r, []int{kTimeout, k5xx, kReset}), k5xx, k4xx, k5xx, k5xx, k5xx, k5xx, k5xx})
		}
		in.Nop = []int{k5xx, k5xx, k5xx, k5xx, k5xx, k5xx, k5xx, k5xx}
		if len(in.Batches) > 6 {
			in.Batches = in.Batches[:6]
		}
	}
	if d8 {
		// one client sends one datapoint with a tag that is not valid UTF-8
		b := r.Intn(len(in.Batches))
		i := r.Intn(len(in.Batches[b].Items))
		in.Batches[b].Items[i].BadHex = hlib.Pick(r, []string{"7a3aff", "c328", "783aa0a1", "e228a1"})
		if in.Batches[b].Items[i].T == int(gostatsd.GAUGE) {
			in.Batches[b].Items[i].T = int(gostatsd.COUNTER)
		}
		// no faults here: the stream is about isolation, and everything that will ever arrive must
		// have arrived well before the harness stops waiting for the datapoints D8 loses
		in.Script, in.Nop, in.WindowMs, in.ClientTimeoutMs, in.IdleMs = nil, nil, -1, 0, 0
	}
	return in
}

// ---------------------------------------------------------------------------------------------

func runOne(in input) []hlib.Case {
	switch in.Kind {
	case "split":
		return []hlib.Case{runSplit(in)}
	case "cons":
		return []hlib.Case{runCons(in)}
	case "fwd":
		return runFwd(in)
	}
	return []hlib.Case{{Input: in, Class: "bad-input", Monitors: []string{"harness: unknown kind " + in.Kind}}}
}

func runAll(ins []input, par int) [][]hlib.Case {
	out := make([][]hlib.Case, len(ins))
	sem := make(chan struct{}, par)
	var wg sync.WaitGroup
	for i := range ins {
		if ins[i].Kind == "split" {
			out[i] = runOne(ins[i])
			continue
		}
		wg.Add(1)
		sem <- struct{}{}
		go func(i int) {
			defer wg.Done()
			defer func() { <-sem }()
			out[i] = runOne(ins[i])
		}(i)
	}
	wg.Wait()
	return out
}

func main() {
	a := hlib.ParseArgs()
	em := hlib.NewEmitter()
	defer em.Close()
	var ins []input
	switch a.Mode {
	case "gen":
		r := hlib.NewRand(a.Seed)
		for i := 0; i < a.N; i++ {
			rr := r.Fork()
			if a.Extra["stream"] == "shutdown" { // not part of the registered check
				in := genFwd(rr, false)
				in.Script, in.Nop, in.ClientTimeoutMs, in.WindowMs, in.Shutdown = nil, nil, 0, -1, true
				ins = append(ins, in)
				continue
			}
			switch {
			case i%20 == 7:
				ins = append(ins, genFwd(rr, true))
			case i%5 == 0 || i%5 == 3:
				ins = append(ins, genFwd(rr, false))
			case i%5 == 1:
				ins = append(ins, genCons(rr))
			default:
				ins = append(ins, genSplit(rr))
			}
		}
	case "run":
		for _, raw := range a.Inputs {
			var in input
			if err := json.Unmarshal(raw, &in); err != nil {
				fmt.Fprintln(os.Stderr, "bad input:", err)
				os.Exit(2)
			}
			ins = append(ins, in)
		}
	}
	for _, cs := range runAll(ins, 6) {
		for _, c := range cs {
			em.Emit(c)
		}
	}
}
