package main

// burst stream: many overlapping requests against one ingestion router, the way net/http runs
// the handlers (one goroutine per connection).  Runs in the child worker process: a Go runtime
// "fatal error" (concurrent map writes, ...) cannot be recovered by anyone and kills the
// process; the supervisor turns that into a case naming the burst.

import (
	"bytes"
	"fmt"
	"io"
	"net/http"
	"net/http/httptest"
	"sort"
	"sync"
	"sync/atomic"

	"github.com/sirupsen/logrus"

	"github.com/atlassian/gostatsd/pkg/web"

	"verifharness/hlib"
)

// reqMeta is the non-shrunk part of one request template; its body is data[i].
type reqMeta struct {
	Ep       string `json:"ep"`
	Enc      string `json:"enc"`
	NoEnc    bool   `json:"noenc,omitempty"`
	Distinct bool   `json:"distinct,omitempty"` // every copy gets its own suffix (stays an unknown encoding)
}

type burstRunner struct {
	h      *countingHandler
	router http.Handler
	serial uint64
}

func newBurstRunner() *burstRunner {
	logger := logrus.New()
	logger.SetOutput(io.Discard)
	h := &countingHandler{}
	hs, err := web.NewHttpServer(logger, h, "verif-burst", "127.0.0.1:0", false, false, true, false, nil, nil)
	if err != nil {
		panic(err)
	}
	return &burstRunner{h: h, router: hs.Router}
}

// serve runs one request through the router as net/http would: on its own goroutine's stack,
// with per-request panic isolation (a handler panic = no status for that request).
func (br *burstRunner) serve(ep, enc string, noenc bool, body []byte) (status int) {
	defer func() {
		if r := recover(); r != nil {
			status = 0
		}
	}()
	req := httptest.NewRequest(http.MethodPost, "/v2/"+ep, bytes.NewReader(body))
	if !noenc {
		req.Header["Content-Encoding"] = []string{enc}
	}
	rec := httptest.NewRecorder()
	br.router.ServeHTTP(rec, req)
	return rec.Code
}

func (br *burstRunner) run(in input) hlib.Case {
	bodies := in.Data.datagrams()
	c := hlib.Case{Input: in}
	gor, rounds := in.Gor, in.Rounds
	if gor < 1 {
		gor = 1
	}
	if rounds < 1 {
		rounds = 1
	}
	if len(bodies) == 0 || len(in.Reqs) == 0 {
		c.Class = in.Class + "/empty"
		return c
	}
	// an interleaving cannot be forced: the schedule is repeated until at least 1200 requests
	// were sent, so that a replay of a small burst meets the same overlaps again
	loops := 1
	if gor*rounds < 1200 {
		loops = (1200 + gor*rounds - 1) / (gor * rounds)
	}
	meta := func(i int) reqMeta { return in.Reqs[i%len(in.Reqs)] }
	type tally struct {
		mu       sync.Mutex
		statuses map[int]bool
		times    uint64
	}
	tl := make([]*tally, len(bodies))
	for i := range tl {
		tl[i] = &tally{statuses: map[int]bool{}}
	}
	before := atomic.LoadInt64(&br.h.maps) + atomic.LoadInt64(&br.h.events)
	start := make(chan struct{})
	var wg sync.WaitGroup
	for g := 0; g < gor; g++ {
		wg.Add(1)
		go func(g int) {
			defer wg.Done()
			<-start
			for k := 0; k < rounds*loops; k++ {
				i := (g + k) % len(bodies)
				m := meta(i)
				enc := m.Enc
				if m.Distinct {
					enc = fmt.Sprintf("%s-%d", enc, atomic.AddUint64(&br.serial, 1))
				}
				st := br.serve(m.Ep, enc, m.NoEnc, []byte(bodies[i]))
				t := tl[i]
				t.mu.Lock()
				t.statuses[st] = true
				t.times++
				t.mu.Unlock()
			}
		}(g)
	}
	close(start)
	wg.Wait()
	nd := atomic.LoadInt64(&br.h.maps) + atomic.LoadInt64(&br.h.events) - before
	var reqs []string
	obsReqs := []map[string]interface{}{}
	answered := true
	for i, b := range bodies {
		m := meta(i)
		body := []byte(b)
		zout, zok := viaZlib(body)
		lout, lok := viaLz4(body)
		enc := m.Enc
		if m.NoEnc {
			enc = ""
		}
		if m.Distinct {
			enc += "-1" // every copy carried "<enc>-<serial>": the model gets one of them
		}
		var sts []int
		for s := range tl[i].statuses {
			sts = append(sts, s)
			if s == 0 {
				answered = false
			}
		}
		sort.Ints(sts)
		el := make([]string, len(sts))
		for j, s := range sts {
			el[j] = hlib.N(uint64(s))
		}
		epc := "EpRaw"
		if m.Ep == "event" {
			epc = "EpEvent"
		}
		oracle := hlib.App("WO", "true", optBool(m.Ep, zout, zok), optBool(m.Ep, lout, lok), hlib.Bool(unmarshals(m.Ep, body)))
		reqs = append(reqs, "("+epc+", "+hlib.Bytes(enc)+", "+oracle+", "+hlib.List(el)+", "+hlib.N(tl[i].times)+")")
		obsReqs = append(obsReqs, map[string]interface{}{"ep": m.Ep, "enc": enc, "distinct": m.Distinct, "body_len": len(body), "statuses": sts, "times": tl[i].times})
	}
	c.Coq = hlib.App("KBurst", hlib.List(reqs), hlib.N(uint64(nd)))
	c.Obs = map[string]interface{}{"goroutines": gor, "rounds": rounds, "repeated": loops, "requests": obsReqs, "dispatched": nd}
	if !answered {
		c.Monitors = append(c.Monitors, "a request of the burst got no HTTP status (handler panic)")
	}
	// the router still answers afterwards
	if st := br.serve("raw", "", true, nil); st != 202 {
		c.Monitors = append(c.Monitors, fmt.Sprintf("valid request after the burst: status %d", st))
	}
	c.Class = fmt.Sprintf("%s/g%d", in.Class, bucket(gor))
	c.Nontrivial = gor >= 2 && gor*rounds >= 4
	return c
}

func bucket(g int) int {
	switch {
	case g <= 2:
		return 2
	case g <= 4:
		return 4
	case g <= 8:
		return 8
	}
	return 16
}
