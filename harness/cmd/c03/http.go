package main

import (
	"bufio"
	"bytes"
	"compress/zlib"
	"fmt"
	"io"
	"net"
	"net/http"
	"net/http/httptest"
	"strconv"
	"strings"
	"sync/atomic"
	"time"

	"github.com/pierrec/lz4/v4"
	"github.com/sirupsen/logrus"
	"google.golang.org/protobuf/proto"

	"github.com/atlassian/gostatsd/pb"
	"github.com/atlassian/gostatsd/pkg/web"

	"verifharness/hlib"
)

// httpRunner: one real ingestion router (web.NewHttpServer with ingestion enabled) behind a
// real net/http server for the whole run, so that a request that wedges or kills it is seen by
// every later case as well.
type httpRunner struct {
	h      *countingHandler
	srv    *httptest.Server
	client *http.Client
	probe  map[string][]byte
}

func newHTTPRunner() *httpRunner {
	logger := logrus.New()
	logger.SetOutput(io.Discard)
	h := &countingHandler{}
	hs, err := web.NewHttpServer(logger, h, "verif", "127.0.0.1:0", false, false, true, false, nil, nil)
	if err != nil {
		panic(err)
	}
	srv := httptest.NewUnstartedServer(hs.Router)
	srv.Config.ErrorLog = nil
	srv.Start()
	r := hlib.NewRand(7)
	return &httpRunner{h: h, srv: srv, client: &http.Client{Timeout: stepTimeout},
		probe: map[string][]byte{"raw": rawMessage(r), "event": plainEvent()}}
}

func (hr *httpRunner) close() { hr.srv.Close() }

func (hr *httpRunner) dispatched(ep string) int64 {
	if ep == "raw" {
		return atomic.LoadInt64(&hr.h.maps)
	}
	return atomic.LoadInt64(&hr.h.events)
}

// post sends the request with net/http's client; status 0 = no HTTP status was received.
func (hr *httpRunner) post(ep string, enc string, noenc bool, body []byte) (int, string) {
	req, err := http.NewRequest("POST", hr.srv.URL+"/v2/"+ep, bytes.NewReader(body))
	if err != nil {
		return 0, err.Error()
	}
	if !noenc {
		req.Header["Content-Encoding"] = []string{enc}
	}
	resp, err := hr.client.Do(req)
	if err != nil {
		return 0, err.Error()
	}
	io.Copy(io.Discard, resp.Body)
	resp.Body.Close()
	return resp.StatusCode, ""
}

// postBroken speaks HTTP/1.1 by hand so that reading the body fails on the server:
// short    = Content-Length announces 10 bytes more than are sent, then the write side is closed
// badchunk = chunked transfer encoding with a malformed chunk header after the first chunk
func (hr *httpRunner) postBroken(ep string, enc string, noenc bool, body []byte, how string) (int, string) {
	conn, err := net.DialTimeout("tcp", hr.srv.Listener.Addr().String(), stepTimeout)
	if err != nil {
		return 0, err.Error()
	}
	defer conn.Close()
	conn.SetDeadline(time.Now().Add(stepTimeout))
	var b bytes.Buffer
	fmt.Fprintf(&b, "POST /v2/%s HTTP/1.1\r\nHost: verif\r\n", ep)
	if !noenc {
		fmt.Fprintf(&b, "Content-Encoding: %s\r\n", enc)
	}
	switch how {
	case "short":
		fmt.Fprintf(&b, "Content-Length: %d\r\n\r\n", len(body)+10)
		b.Write(body)
	default:
		b.WriteString("Transfer-Encoding: chunked\r\n\r\n")
		fmt.Fprintf(&b, "%x\r\n", len(body)+1)
		b.Write(body)
		b.WriteString("!\r\nZZZ\r\n")
	}
	if _, err := conn.Write(b.Bytes()); err != nil {
		return 0, err.Error()
	}
	if tc, ok := conn.(*net.TCPConn); ok {
		tc.CloseWrite()
	}
	resp, err := http.ReadResponse(bufio.NewReader(conn), nil)
	if err != nil {
		return 0, err.Error()
	}
	io.Copy(io.Discard, resp.Body)
	resp.Body.Close()
	return resp.StatusCode, ""
}

// ---- the library outcomes, computed by calling the libraries directly (not through pkg/web)

func unmarshals(ep string, b []byte) bool {
	if ep == "raw" {
		var m pb.RawMessageV2
		return proto.Unmarshal(b, &m) == nil
	}
	var m pb.EventV2
	return proto.Unmarshal(b, &m) == nil
}

func viaZlib(b []byte) ([]byte, bool) {
	zr, err := zlib.NewReader(bytes.NewReader(b))
	if err != nil {
		return nil, false
	}
	defer zr.Close()
	out, err := io.ReadAll(zr)
	return out, err == nil
}

func viaLz4(b []byte) ([]byte, bool) {
	out, err := io.ReadAll(lz4.NewReader(bytes.NewReader(b)))
	return out, err == nil
}

func optBool(ep string, out []byte, ok bool) string {
	if !ok {
		return "None"
	}
	return hlib.Option(hlib.Bool(unmarshals(ep, out)), true)
}

func (hr *httpRunner) run(in input) hlib.Case {
	body := []byte(in.Data.str())
	c := hlib.Case{Input: in}
	before := hr.dispatched(in.Ep)
	var status int
	var errText string
	if in.ReadFail == "" {
		status, errText = hr.post(in.Ep, in.Enc, in.NoEnc, body)
	} else {
		status, errText = hr.postBroken(in.Ep, in.Enc, in.NoEnc, body, in.ReadFail)
	}
	nd := hr.dispatched(in.Ep) - before
	zout, zok := viaZlib(body)
	lout, lok := viaLz4(body)
	enc := in.Enc
	if in.NoEnc {
		enc = ""
	}
	oracle := hlib.App("WO", hlib.Bool(in.ReadFail == ""), optBool(in.Ep, zout, zok), optBool(in.Ep, lout, lok), hlib.Bool(unmarshals(in.Ep, body)))
	epc := "EpRaw"
	if in.Ep == "event" {
		epc = "EpEvent"
	}
	c.Coq = hlib.App("KHttp", epc, hlib.Bytes(enc), oracle, hlib.Option(hlib.N(uint64(status)), status != 0), hlib.N(uint64(nd)))
	c.Obs = map[string]interface{}{"status": status, "dispatched": nd, "error": errText, "body_len": len(body),
		"zlib_ok": zok, "lz4_ok": lok, "plain_unmarshal_ok": unmarshals(in.Ep, body)}
	if status == 0 {
		c.Monitors = append(c.Monitors, "request got no HTTP status: "+errText)
	}
	// the server still answers a valid request afterwards, and dispatches it
	b2 := hr.dispatched(in.Ep)
	if s, e := hr.post(in.Ep, "", true, hr.probe[in.Ep]); s != 202 || hr.dispatched(in.Ep)-b2 != 1 {
		c.Monitors = append(c.Monitors, fmt.Sprintf("valid request after the case: status %d (%s), %d dispatches", s, e, hr.dispatched(in.Ep)-b2))
	}
	c.Class = in.Class + "/" + strconv.Itoa(status)
	if in.ReadFail != "" {
		c.Class = "http-" + in.Ep + "/readfail-" + in.ReadFail + "/" + strconv.Itoa(status)
	}
	if status == 0 && strings.Contains(errText, "Timeout") {
		c.Monitors = append(c.Monitors, fatalMark)
	}
	c.Nontrivial = len(body) > 0 && (status == 202 || zok || lok || enc == "" || enc == "identity")
	return c
}

// plainEvent is the probe sent after every case: an event with declared enum values only, so
// that a failure of the probe is never the probe's own doing.
func plainEvent() []byte {
	b, err := proto.Marshal(&pb.EventV2{Title: "probe", Text: "still alive", Hostname: "h", Priority: pb.EventV2_Low, Type: pb.EventV2_Warning})
	if err != nil {
		panic(err)
	}
	return b
}
