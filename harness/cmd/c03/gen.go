package main

import (
	"bytes"
	"compress/zlib"
	"fmt"
	"math"
	"sort"
	"strconv"
	"strings"

	"github.com/pierrec/lz4/v4"
	"google.golang.org/protobuf/proto"

	"github.com/atlassian/gostatsd/pb"

	"verifharness/hlib"
	"verifharness/lexgen"
)

var namespaces = []string{"", "", "", "ns", "a.b", "x_y"}

type gen struct {
	r        *hlib.Rand
	tier     string
	maxLen   int // longest line / datagram
	lexCount int
	gridPos  int
	nulQueue []string
}

func newGen(r *hlib.Rand, tier string) *gen {
	g := &gen{r: r, tier: tier, maxLen: 65535, gridPos: r.Intn(1 << 20)}
	return g
}

func (g *gen) next(i int) input {
	switch i % 10 {
	case 0, 1, 2, 3:
		return g.lexInput()
	case 4:
		return g.recvInput()
	case 5, 6:
		return g.dgramInput()
	case 9:
		if (i/10)%5 == 0 {
			return g.burstInput()
		}
		return g.httpInput()
	case 8:
		if (i/10)%2 == 0 {
			return g.chainInput()
		}
		return g.httpInput()
	default:
		return g.httpInput()
	}
}

// parserConfig draws what an operator can set on the parser: bad-lines-per-minute (0 = default:
// bad lines are never logged; otherwise the first bad line, then at that rate), log-raw-metric,
// ignore-host.
func (g *gen) parserConfig(in *input) {
	r := g.r
	in.BadLPM = hlib.Pick(r, []float64{0, 0, 0, 1, 600, 1e9, 1e9, 1e9})
	in.LogRaw = r.Chance(1, 4)
	in.IgnoreHost = r.Chance(1, 3)
}

// valueLine: every metric type with a value at the edges of what a number parser looks at: empty,
// bare signs, bare points and exponents, 15/16-digit integers, signs in odd places.
var valueShapes = []string{"", "-", "+", "--", "+-", "-+", "-.", "+.", ".", "..", "e", "E", "-e1", "e1", "1e", "1e+", "1e-", "+inf", "-inf", "inf", "+nan",
	"-0", "+0", "00", "-00", "0-", "1-", "-1-", "1+1", "+1", "-1", "- 1", " -1", "-\x001", "\x00", "-\x00", "0x", "-0x", "-0x1p3", "1_0", "_1", "-_1",
	"123456789012345", "1234567890123456", "-123456789012345", "+123456789012345", "999999999999999", "-999999999999999", "12345678901234e", "12345678901234.",
	"000000000000001", "-00000000000000", "9007199254740993", "1.", "-.5", "+.5e-3", "١"}

func (g *gen) valueLine() string {
	r := g.r
	v := hlib.Pick(r, valueShapes)
	if r.Chance(1, 6) {
		v = hlib.Pick(r, []string{"-", "+", ""}) + fill(r, r.Range(0, 16), "0123456789")
	}
	ty := hlib.Pick(r, []string{"c", "g", "ms", "h", "s"})
	return hlib.Pick(r, []string{"x", "a.b", "v"}) + ":" + v + "|" + ty + hlib.Pick(r, []string{"", "", "|@0.5", "|#t:1", "|@1|#a,b"})
}

// utf8Line: bad lines made of UTF-8 fragments around the sizes at which log lines get truncated:
// long runs of continuation bytes (0x80-0xBF), lone lead bytes at the cut, sequences straddling it.
func (g *gen) utf8Line() string {
	r := g.r
	n := hlib.Pick(r, []int{254, 255, 256, 257, 258, 259, 260, 300, 511, 512, 513, 1024, 4096, r.Range(1, 600)})
	cont := func(k int) string { return fill(r, k, "\x80\x81\x8f\x90\xa9\xbf") }
	switch r.Intn(8) {
	case 0, 1: // continuation bytes only
		return cont(n)
	case 2: // one lead byte somewhere near a power-of-two boundary, continuation bytes around it
		p := hlib.Pick(r, []int{0, 1, 2, 253, 254, 255, 256, 257})
		if p >= n {
			p = n - 1
		}
		return cont(p) + hlib.Pick(r, []string{"\xc3", "\xe2", "\xf0", "\xff", "\xc0"}) + cont(n-p-1)
	case 3: // valid multi-byte characters back to back, shifted by 0-3 bytes
		unit := hlib.Pick(r, []string{"\xc3\xa9", "\xe2\x82\xac", "\xf0\x9f\x98\x80"})
		s := fill(r, r.Intn(4), "ab") + strings.Repeat(unit, n/len(unit)+1)
		return s[:n]
	case 4: // a key separator first, then the run (bad: no value separator)
		return "a:" + cont(n)
	case 5: // ASCII up to the cut, run behind it
		return fill(r, hlib.Pick(r, []int{250, 255, 256, 257}), "abc") + cont(n)
	case 6: // a valid metric with a tag made of continuation bytes (accepted, not a bad line)
		return "a:1|c|#" + cont(n)
	default: // event header declaring a long title of continuation bytes, too short
		return fmt.Sprintf("_e{%d,1}:%s", n+5, cont(n))
	}
}

// ---------------------------------------------------------------------------------------
// lexer stream

func (g *gen) lexInput() input {
	r := g.r
	k := g.lexCount % 10
	g.lexCount++
	var line, class string
	switch k {
	case 0, 1, 9:
		line, class = lexgen.Line(r, "hostile")
	case 2:
		if r.Bool() {
			line, class = g.valueLine(), "value-shape"
		} else {
			line, class = lexgen.Line(r, "malformed")
		}
	case 3, 4:
		line, class = g.gridLine(), "grid"
	case 5, 6:
		line, class = g.nulLine(), "nul-sweep"
	case 7:
		if r.Chance(1, 3) {
			line, class = g.utf8Line(), "utf8-run"
		} else {
			line, class = g.longLine()
		}
	default:
		line, class = lexgen.Mutate(r, g.gridLine(), true), "grid-mutated"
	}
	return input{Kind: "lex", Class: class, NS: hlib.Pick(r, namespaces), Data: flat(line)}
}

// boundaryNums returns decimal numerals around every integer width the lexer computes in,
// relative to the real length l of the field they declare.
func boundaryNums(l int) []string {
	vals := []uint64{0, 1, uint64(l), uint64(l) + 1, 1<<31 - 1, 1 << 31, 1<<31 + 1, 1<<32 - 2, 1<<32 - 1, 1 << 32, 1<<32 + 1,
		1<<63 - 1, 1 << 63, 1<<63 + 1, 1<<64 - 2, 1<<64 - 1, 1844674407370955161, 1844674407370955162}
	if l > 0 {
		vals = append(vals, uint64(l)-1)
	}
	var out []string
	for _, v := range vals {
		out = append(out, strconv.FormatUint(v, 10))
	}
	out = append(out,
		"18446744073709551616",                      // 2^64
		"18446744073709551617",                      // 2^64+1
		"18446744073709551620",                      // wraps to 4 without tripping a naive test?
		"99999999999999999999",                      // 20 digits
		"184467440737095516150",                     // 21 digits
		"340282366920938463463374607431768211456",   // 2^128
		"36893488147419103232",                      // 2^65
		"0000000000000000000000000"+strconv.Itoa(l), // > 20 digits, small value
		"4294967296000000000",
		"", "-1", "+1", "1e3", "0x10",
	)
	return out
}

// gridLine renders `_e{a,b}:title|text...` with (a, b) walking systematically over the
// boundary numerals (and over the pairs whose uint32 sum wraps to a small number).
func (g *gen) gridLine() string {
	r := g.r
	title := strings.Repeat("t", r.Intn(7))
	text := strings.Repeat("x", r.Intn(9))
	if r.Chance(1, 4) {
		title = strings.ReplaceAll(lexgen.Tag(r), "|", "")
	}
	t, x := len(title), len(text)
	as, bs := boundaryNums(t), boundaryNums(x)
	// pairs whose sum + 1 wraps modulo 2^32 to j in [0, t+x+3]
	for j := 0; j <= t+x+3; j++ {
		// a = t, b = 2^32 - 1 - t + j
		if b := uint64(1<<32) - 1 - uint64(t) + uint64(j); b < 1<<32 {
			bs = append(bs, strconv.FormatUint(b, 10))
		}
		if a := uint64(1<<32) - 1 - uint64(x) + uint64(j); a < 1<<32 {
			as = append(as, strconv.FormatUint(a, 10))
		}
	}
	p := g.gridPos
	g.gridPos += 7919 // prime stride: successive cases visit different rows and columns
	a := as[p%len(as)]
	b := bs[(p/len(as))%len(bs)]
	if r.Chance(1, 3) { // keep one side exact so that the other one decides
		if r.Bool() {
			a = strconv.Itoa(t)
		} else {
			b = strconv.Itoa(x)
		}
	}
	suffix := hlib.Pick(r, []string{"", "", "|d:1", "|#a,b", "|p:low|t:error", "|", "zz", "|k:", "\x00", "|d:18446744073709551615", "|d:9223372036854775807", "|d:9223372036854775808"})
	return fmt.Sprintf("_e{%s,%s}:%s|%s%s", a, b, title, text, suffix)
}

// nulLine: NUL byte at every position of valid lines (replace and insert), one position per call.
func (g *gen) nulLine() string {
	if len(g.nulQueue) == 0 {
		base, _ := lexgen.Line(g.r, "grammar")
		if len(base) > 60 {
			base = base[:60]
		}
		for p := 0; p <= len(base); p++ {
			g.nulQueue = append(g.nulQueue, base[:p]+"\x00"+base[p:])
			if p < len(base) {
				g.nulQueue = append(g.nulQueue, base[:p]+"\x00"+base[p+1:])
			}
		}
	}
	// draw from a random place so that a small run does not only see prefixes
	i := g.r.Intn(len(g.nulQueue))
	l := g.nulQueue[i]
	g.nulQueue = append(g.nulQueue[:i], g.nulQueue[i+1:]...)
	return l
}

func (g *gen) longLen() int {
	r := g.r
	if g.tier == "thorough" {
		return hlib.Pick(r, []int{1000, 4096, 8192, 16384, 32768, 65507, 65534, 65535, r.Range(200, 65535)})
	}
	if r.Chance(1, 12) {
		return hlib.Pick(r, []int{65535, 65507, 16384})
	}
	return hlib.Pick(r, []int{300, 1000, 1472, 4096, r.Range(200, 5000), r.Range(200, 3000)})
}

// giantField bounds the length of a single tag / rate / attribute value: the frozen lexer model
// reverses such a field with the quadratic List.rev (6 s for 65 000 bytes under vm_compute).
func (g *gen) giantField(n int) int {
	limit := 6000
	if g.tier == "thorough" && g.r.Chance(1, 10) {
		limit = 65535
	}
	if n > limit {
		return limit
	}
	return n
}

func fill(r *hlib.Rand, n int, alphabet string) string {
	if n <= 0 {
		return ""
	}
	b := make([]byte, n)
	for i := range b {
		if alphabet == "" {
			b[i] = byte(r.Intn(256))
			if b[i] == '\n' {
				b[i] = 'n'
			}
		} else {
			b[i] = alphabet[r.Intn(len(alphabet))]
		}
	}
	return string(b)
}

// longLine: very long lines of several shapes; total length = n exactly where possible.
func (g *gen) longLine() (string, string) {
	r := g.r
	n := g.longLen()
	switch r.Intn(9) {
	case 0: // long name, mostly deleted by normalisation
		return fill(r, n-4, "ab!$%/ .-_Z9\x80") + ":1|c", "long-name"
	case 1: // long value
		return "a:" + fill(r, n-4, "0123456789") + "|g", "long-value"
	case 2: // many tags
		return ("a:1|c|#" + fill(r, n, "ab,:,x"))[:n], "long-tags"
	case 3: // one giant tag and a rate behind it
		return "a:1|ms|#" + fill(r, g.giantField(n-16), "abc") + "|@0.5", "long-tag-rate"
	case 4: // event with exact long title and text
		tl := r.Intn(n / 2)
		xl := n/2 - 20
		return fmt.Sprintf("_e{%d,%d}:%s|%s|#a,b", tl, xl, fill(r, tl, "abc|:\\n"), fill(r, xl, "abc|:\\n")), "long-event"
	case 5: // event whose declared text length is one more than what is there
		tl := r.Intn(n / 2)
		xl := n/2 - 20
		return fmt.Sprintf("_e{%d,%d}:%s|%s", tl, xl+1, fill(r, tl, "abc"), fill(r, xl, "abc")), "long-event-short"
	case 6: // pipes only
		return "a:1|c" + strings.Repeat("|", n-5), "long-pipes"
	case 7: // random bytes, NUL included
		return fill(r, n, ""), "long-random"
	default: // very long numeral in the event header
		return "_e{" + strings.Repeat("0", n-12) + "1,3}:a|xyz", "long-numeral"
	}
}

// ---------------------------------------------------------------------------------------
// datagram stream

func (g *gen) dgramLine() string {
	r := g.r
	switch k := r.Intn(20); {
	case k < 7:
		return lexgen.MetricLine(r)
	case k < 9:
		return lexgen.EventLine(r, true)
	case k < 10:
		return g.utf8Line()
	case k < 11:
		return g.valueLine()
	case k < 13:
		l, _ := lexgen.Line(r, "hostile")
		return l
	case k < 14:
		return ""
	case k < 15:
		return hlib.Pick(r, []string{"\x00", "\x00\x00", "a:1|c\x00", "\x00a:1|c", "_", "_e", ":", "|"})
	case k < 16:
		return g.gridLine()
	case k < 17:
		return g.nulLine()
	case k < 18:
		l, _ := lexgen.Line(r, "malformed")
		return l
	default:
		// a line that needs normalisation right at its end (deletions next to the newline)
		return "a b/c!!:1|c|#t:" + fill(r, r.Intn(4), "ab") + hlib.Pick(r, []string{"", "!", "|"})
	}
}

func (g *gen) dgramInput() input {
	r := g.r
	var dg, class string
	switch k := r.Intn(20); {
	case k == 0:
		dg, class = fill(r, r.Range(0, 400), ""), "dgram-random"
		if r.Bool() { // random bytes with real newlines
			b := []byte(dg)
			for i := range b {
				if r.Chance(1, 12) {
					b[i] = '\n'
				}
			}
			dg = string(b)
		}
	case k == 1:
		dg, class = strings.Repeat("\n", r.Range(0, 5)), "dgram-newlines"
	case k == 2:
		l, _ := g.longLine()
		dg, class = lexgen.MetricLine(r)+"\n"+l+"\n"+lexgen.MetricLine(r), "dgram-long"
	case k == 3 && g.tier == "thorough" || k == 3 && r.Chance(1, 6):
		// a full-size datagram of many lines
		var sb strings.Builder
		for sb.Len() < g.maxLen {
			sb.WriteString(g.dgramLine())
			sb.WriteByte('\n')
		}
		dg, class = sb.String()[:g.maxLen], "dgram-full"
	default:
		n := r.Range(1, 12)
		ls := make([]string, n)
		for i := range ls {
			ls[i] = g.dgramLine()
		}
		dg, class = strings.Join(ls, "\n"), "dgram-lines"
		switch r.Intn(6) {
		case 0, 1, 2:
			dg += "\n"
		case 3:
			dg += "\n\n"
		case 4:
			dg = "\n" + dg
		}
	}
	if len(dg) > g.maxLen {
		dg = dg[:g.maxLen]
	}
	in := input{Kind: "dgram", Class: class, NS: hlib.Pick(r, namespaces), Data: flat(dg)}
	g.parserConfig(&in)
	if r.Chance(1, 3) && len(dg) > 0 {
		// the same bytes arriving as 2-4 datagrams (cut anywhere, also inside a line)
		n := r.Range(1, 3)
		cuts := make([]int, n)
		for i := range cuts {
			cuts[i] = r.Intn(len(dg) + 1)
		}
		sort.Ints(cuts)
		in.Cuts, in.Batch = cuts, r.Bool()
		in.Class += "-cut"
	}
	return in
}

// ---------------------------------------------------------------------------------------
// recv stream: what arrives on the socket.  A case is a sequence of datagrams (zero-length and
// maximum-size ones included) plus the receiver's configuration.

func (g *gen) recvDatagram() string {
	r := g.r
	switch k := r.Intn(20); {
	case k < 4:
		return "" // a zero-length datagram is legal for UDP and unixgram
	case k < 5:
		return "\n"
	case k < 6:
		return fill(r, r.Range(1, 300), "")
	case k < 7 && (g.tier == "thorough" || r.Chance(1, 12)):
		// maximum UDP payload, many lines
		var sb strings.Builder
		for sb.Len() < 65507 {
			sb.WriteString(g.dgramLine())
			sb.WriteByte('\n')
		}
		return sb.String()[:65507]
	case k < 8 && (g.tier == "thorough" || r.Chance(1, 3)):
		l, _ := g.longLine()
		if len(l) > 65507 {
			l = l[:65507]
		}
		return l
	default:
		n := r.Range(1, 6)
		ls := make([]string, n)
		for i := range ls {
			ls[i] = g.dgramLine()
		}
		d := strings.Join(ls, "\n")
		if r.Bool() {
			d += "\n"
		}
		if len(d) > 65507 {
			d = d[:65507]
		}
		return d
	}
}

func (g *gen) recvInput() input {
	r := g.r
	n := []int{1, 1, 2, 3, 4, 6, 8, 12, 30, 60}[r.Intn(10)]
	msgs := make([]string, n)
	for i := range msgs {
		msgs[i] = g.recvDatagram()
		if n > 12 && len(msgs[i]) > 300 {
			msgs[i] = msgs[i][:300]
		}
	}
	in := input{Kind: "recv", Class: "recv", NS: hlib.Pick(r, namespaces), Data: lists(msgs),
		Sock:    hlib.Pick(r, []string{"udp", "udp", "udp", "unixgram", "script", "script"}),
		Readers: hlib.Pick(r, []int{1, 1, 2, 4}), RBatch: hlib.Pick(r, []int{1, 2, 5, 10, 50, r.Range(1, 50)}), Parsers: hlib.Pick(r, []int{1, 1, 2})}
	g.parserConfig(&in)
	if in.Sock == "udp" {
		in.ConnPerReader = r.Chance(1, 3)
	}
	if in.Sock == "script" {
		for i := 0; i < n; i++ {
			if r.Chance(1, 5) {
				in.Errs = append(in.Errs, i)
			}
		}
	}
	return in
}

// ---------------------------------------------------------------------------------------
// HTTP stream

var encodings = []string{"deflate", "lz4", "identity", "", "gzip", "DEFLATE", "Lz4", "zlib", "br", "deflate, lz4", "identity;q=1", "x",
	strings.Repeat("deflate", 20), "lz4x", "deflat"}

func asciiWord(r *hlib.Rand) string { return fill(r, r.Range(1, 8), "abcdefghij.-_:0123") }

func randTags(r *hlib.Rand) []string {
	n := r.Intn(4)
	var t []string
	for i := 0; i < n; i++ {
		t = append(t, asciiWord(r))
	}
	return t
}

func rawMessage(r *hlib.Rand) []byte {
	m := &pb.RawMessageV2{Counters: map[string]*pb.CounterTagV2{}, Gauges: map[string]*pb.GaugeTagV2{}, Sets: map[string]*pb.SetTagV2{}, Timers: map[string]*pb.TimerTagV2{}}
	for i, n := 0, r.Intn(4); i < n; i++ {
		tm := &pb.CounterTagV2{TagMap: map[string]*pb.RawCounterV2{}}
		for j, k := 0, r.Range(1, 3); j < k; j++ {
			tm.TagMap[asciiWord(r)] = &pb.RawCounterV2{Tags: randTags(r), Hostname: asciiWord(r), Value: int64(r.Range(-5, 1000))}
		}
		m.Counters[asciiWord(r)] = tm
	}
	for i, n := 0, r.Intn(3); i < n; i++ {
		tm := &pb.GaugeTagV2{TagMap: map[string]*pb.RawGaugeV2{}}
		tm.TagMap[asciiWord(r)] = &pb.RawGaugeV2{Tags: randTags(r), Hostname: asciiWord(r), Value: r.Float() * 100}
		m.Gauges[asciiWord(r)] = tm
	}
	for i, n := 0, r.Intn(3); i < n; i++ {
		tm := &pb.SetTagV2{TagMap: map[string]*pb.RawSetV2{}}
		tm.TagMap[asciiWord(r)] = &pb.RawSetV2{Tags: randTags(r), Hostname: asciiWord(r), Values: randTags(r)}
		m.Sets[asciiWord(r)] = tm
	}
	for i, n := 0, r.Intn(3); i < n; i++ {
		tm := &pb.TimerTagV2{TagMap: map[string]*pb.RawTimerV2{}}
		vals := make([]float64, r.Intn(5))
		for j := range vals {
			vals[j] = r.Float() * 10
		}
		tm.TagMap[asciiWord(r)] = &pb.RawTimerV2{Tags: randTags(r), Hostname: asciiWord(r), Values: vals, SampleCount: float64(len(vals))}
		m.Timers[asciiWord(r)] = tm
	}
	b, err := proto.MarshalOptions{Deterministic: true}.Marshal(m)
	if err != nil {
		panic(err)
	}
	return b
}

// proto3 enums are open: any int32 can arrive in EventV2.Priority / EventV2.Type
var enumValues = []int32{0, 1, 2, 3, 4, 5, 7, -1, -2, -128, math.MinInt32, math.MinInt32 + 1, math.MaxInt32, math.MaxInt32 - 1, 1 << 16, 255, 256, -65536}

func enumValue(r *hlib.Rand) int32 {
	if r.Chance(1, 2) {
		return int32(r.Intn(5)) // the declared ones (and one above)
	}
	if r.Chance(1, 6) {
		return int32(r.U64())
	}
	return hlib.Pick(r, enumValues)
}

func eventMessage(r *hlib.Rand) []byte {
	m := &pb.EventV2{Title: asciiWord(r), Text: asciiWord(r) + " " + asciiWord(r), DateHappened: int64(r.Intn(2000000000)), Hostname: asciiWord(r),
		AggregationKey: asciiWord(r), SourceTypeName: asciiWord(r), Tags: randTags(r), SourceIP: "10.0.0.1",
		Priority: pb.EventV2_EventPriority(enumValue(r)), Type: pb.EventV2_AlertType(enumValue(r))}
	if r.Chance(1, 8) {
		m.DateHappened = hlib.Pick(r, []int64{-1, math.MinInt64, math.MaxInt64, 0})
	}
	b, err := proto.MarshalOptions{Deterministic: true}.Marshal(m)
	if err != nil {
		panic(err)
	}
	return b
}

// hand-encoded EventV2 bodies: Priority (field 9, tag 0x48) and Type (field 10, tag 0x50) as raw
// varints, including 10-byte ones with the high bits set and over-long ones (decode error)
func eventEnumBody(r *hlib.Rand) []byte {
	varints := [][]byte{
		{0x00}, {0x01}, {0x04}, {0x7f}, {0x80, 0x01},
		{0xff, 0xff, 0xff, 0xff, 0xff, 0xff, 0xff, 0xff, 0xff, 0x01},       // -1
		{0x80, 0x80, 0x80, 0x80, 0xf8, 0xff, 0xff, 0xff, 0xff, 0x01},       // MinInt32
		{0xff, 0xff, 0xff, 0xff, 0x07},                                     // MaxInt32
		{0xff, 0xff, 0xff, 0xff, 0x0f},                                     // 2^32-1: truncates to -1
		{0x80, 0x80, 0x80, 0x80, 0x10},                                     // 2^32: truncates to 0
		{0x80, 0x80, 0x80, 0x80, 0x80, 0x80, 0x80, 0x80, 0x80, 0x01},       // 2^63
		{0xfe, 0xff, 0xff, 0xff, 0xff, 0xff, 0xff, 0xff, 0xff, 0x01},       // -2
		{0xff, 0xff, 0xff, 0xff, 0xff, 0xff, 0xff, 0xff, 0xff, 0x7f},       // overflows 64 bits
		{0x80, 0x80, 0x80, 0x80, 0x80, 0x80, 0x80, 0x80, 0x80, 0x80, 0x01}, // 11 bytes
		{0x80}, // truncated
	}
	b := []byte{0x0a, 0x01, 't'} // Title = "t"
	for _, tag := range []byte{0x48, 0x50} {
		if r.Chance(4, 5) {
			b = append(b, tag)
			b = append(b, hlib.Pick(r, varints)...)
		}
	}
	if r.Chance(1, 4) { // the same field twice: the last one wins
		b = append(b, 0x48)
		b = append(b, hlib.Pick(r, varints)...)
	}
	return b
}

// boundary numbers for the metric payloads
func rawBoundaryMessage(r *hlib.Rand) []byte {
	f := hlib.Pick(r, []float64{math.NaN(), math.Inf(1), math.Inf(-1), -0.0, math.MaxFloat64, math.SmallestNonzeroFloat64})
	m := &pb.RawMessageV2{
		Counters: map[string]*pb.CounterTagV2{"c": {TagMap: map[string]*pb.RawCounterV2{"": {Value: hlib.Pick(r, []int64{math.MinInt64, math.MaxInt64, -1, 0})}}}},
		Gauges:   map[string]*pb.GaugeTagV2{"g": {TagMap: map[string]*pb.RawGaugeV2{"k": {Value: f}}}},
		Timers:   map[string]*pb.TimerTagV2{"t": {TagMap: map[string]*pb.RawTimerV2{"k": {Values: []float64{f, 1}, SampleCount: hlib.Pick(r, []float64{f, -1, 0, 1e300})}}}},
		Sets:     map[string]*pb.SetTagV2{"s": {TagMap: map[string]*pb.RawSetV2{"k": {Values: []string{"", "a", "a"}}}}},
	}
	b, err := proto.MarshalOptions{Deterministic: true}.Marshal(m)
	if err != nil {
		panic(err)
	}
	return b
}

// hand-encoded RawMessageV2 bodies whose map entries lack their value (or have an empty one):
// legal protobuf, and the place where a handler that trusted the decoder could dereference nil
var sparseBodies = [][]byte{
	{0x0a, 0x03, 0x0a, 0x01, 'a'},                                          // Counters entry, key only
	{0x12, 0x03, 0x0a, 0x01, 'g'},                                          // Gauges entry, key only
	{0x1a, 0x03, 0x0a, 0x01, 's'},                                          // Sets entry, key only
	{0x22, 0x03, 0x0a, 0x01, 't'},                                          // Timers entry, key only
	{0x0a, 0x05, 0x0a, 0x01, 'a', 0x12, 0x00},                              // Counters entry, empty CounterTagV2
	{0x0a, 0x0a, 0x0a, 0x01, 'a', 0x12, 0x05, 0x0a, 0x03, 0x0a, 0x01, 'k'}, // TagMap entry, key only
	{0x1a, 0x0a, 0x0a, 0x01, 's', 0x12, 0x05, 0x0a, 0x03, 0x0a, 0x01, 'k'}, // Sets TagMap entry, key only
	{0x0a, 0x02, 0x12, 0x00},                                               // entry with value only (empty key)
	{0x0a, 0x00},                                                           // empty entry
	{},                                                                     // empty message
}

func compress(codec string, b []byte) []byte {
	var out bytes.Buffer
	switch codec {
	case "deflate":
		w := zlib.NewWriter(&out)
		w.Write(b)
		w.Close()
	case "lz4":
		w := lz4.NewWriter(&out)
		w.Write(b)
		w.Close()
	default:
		return b
	}
	return out.Bytes()
}

// burstInput: 1-12 request templates sent by 2-16 goroutines at once, 8-250 requests each.
// Encodings: mostly what the single-request stream draws, plus unknown encodings that are
// identical for every copy, or distinct for every copy (a fresh header value per request).
func (g *gen) burstInput() input {
	r := g.r
	n := r.Range(1, 12)
	bodies := make([]string, n)
	in := input{Kind: "burst", Class: "burst"}
	mode := hlib.Pick(r, []string{"mixed", "mixed", "unknown-distinct", "unknown-same", "valid"})
	for i := 0; i < n; i++ {
		h := g.httpInput()
		b := h.Data.str()
		if len(b) > 400 && r.Chance(2, 3) {
			b = b[:400]
		}
		bodies[i] = b
		m := reqMeta{Ep: h.Ep, Enc: h.Enc, NoEnc: h.NoEnc}
		switch {
		case mode == "unknown-distinct" || mode == "mixed" && r.Chance(1, 3):
			m.Enc, m.NoEnc, m.Distinct = hlib.Pick(r, []string{"x-enc", "gzip", "deflate", "lz4", "identity", "zz"}), false, true // suffixed: never a known one
		case mode == "unknown-same" || mode == "mixed" && r.Chance(1, 4):
			m.Enc, m.NoEnc = hlib.Pick(r, []string{"gzip", "br", "x", "DEFLATE", strings.Repeat("q", 70)}), false
		}
		in.Reqs = append(in.Reqs, m)
	}
	in.Data = lists(bodies)
	in.Gor = hlib.Pick(r, []int{2, 2, 3, 4, 8, 16, r.Range(2, 16)})
	in.Rounds = hlib.Pick(r, []int{8, 30, 100, 100, 250})
	in.Class = "burst/" + mode
	return in
}

// chainMessage: a RawMessageV2 over a tiny universe of series, so that the requests of one case
// keep coming back to the same series with different shapes: empty set / members, timer without
// values / with values, zero / negative counter, gauge.
func chainMessage(r *hlib.Rand) []byte {
	m := &pb.RawMessageV2{Counters: map[string]*pb.CounterTagV2{}, Gauges: map[string]*pb.GaugeTagV2{}, Sets: map[string]*pb.SetTagV2{}, Timers: map[string]*pb.TimerTagV2{}}
	for i, n := 0, r.Range(1, 4); i < n; i++ {
		name := hlib.Pick(r, []string{"s1", "s2"})
		key := hlib.Pick(r, []string{"", "k:v"})
		var tags []string
		if key != "" {
			tags = []string{key}
		}
		switch r.Intn(4) {
		case 0:
			tm := m.Sets[name]
			if tm == nil {
				tm = &pb.SetTagV2{TagMap: map[string]*pb.RawSetV2{}}
				m.Sets[name] = tm
			}
			tm.TagMap[key] = &pb.RawSetV2{Tags: tags, Values: hlib.Pick(r, [][]string{nil, nil, {"a"}, {"a", "b"}, {""}})}
		case 1:
			tm := m.Timers[name]
			if tm == nil {
				tm = &pb.TimerTagV2{TagMap: map[string]*pb.RawTimerV2{}}
				m.Timers[name] = tm
			}
			vals := hlib.Pick(r, [][]float64{nil, nil, {1.5}, {1, 2, 3}})
			tm.TagMap[key] = &pb.RawTimerV2{Tags: tags, Values: vals, SampleCount: hlib.Pick(r, []float64{0, float64(len(vals)), 10})}
		case 2:
			tm := m.Counters[name]
			if tm == nil {
				tm = &pb.CounterTagV2{TagMap: map[string]*pb.RawCounterV2{}}
				m.Counters[name] = tm
			}
			tm.TagMap[key] = &pb.RawCounterV2{Tags: tags, Value: hlib.Pick(r, []int64{0, 0, 5, -3})}
		default:
			tm := m.Gauges[name]
			if tm == nil {
				tm = &pb.GaugeTagV2{TagMap: map[string]*pb.RawGaugeV2{}}
				m.Gauges[name] = tm
			}
			tm.TagMap[key] = &pb.RawGaugeV2{Tags: tags, Value: hlib.Pick(r, []float64{0, 1.5, -2})}
		}
	}
	b, err := proto.MarshalOptions{Deterministic: true}.Marshal(m)
	if err != nil {
		panic(err)
	}
	return b
}

var chainProbe = func() []byte {
	b, _ := proto.Marshal(&pb.RawMessageV2{Counters: map[string]*pb.CounterTagV2{"verif.after": {TagMap: map[string]*pb.RawCounterV2{"": {Value: 1}}}}})
	return b
}()

// chainInput: 2-12 requests in order into the real standalone pipeline.
func (g *gen) chainInput() input {
	r := g.r
	n := r.Range(2, 12)
	bodies := make([]string, n)
	in := input{Kind: "chain", Class: "chain", Workers: hlib.Pick(r, []int{1, 1, 2, 4}), StaticTags: r.Chance(1, 3), FlushEvery: hlib.Pick(r, []int{0, 0, 0, 3, 5})}
	for i := range bodies {
		switch k := r.Intn(12); {
		case k == 0: // anything the single-request stream draws (mostly answered 400)
			h := g.httpInput()
			bodies[i] = h.Data.str()
			in.Reqs = append(in.Reqs, reqMeta{Ep: h.Ep, Enc: h.Enc, NoEnc: h.NoEnc})
		case k == 1:
			codec := hlib.Pick(r, []string{"deflate", "lz4", "identity"})
			bodies[i] = string(compress(codec, eventMessage(r)))
			in.Reqs = append(in.Reqs, reqMeta{Ep: "event", Enc: codec})
		case k == 2:
			codec := hlib.Pick(r, []string{"deflate", "lz4", "identity"})
			bodies[i] = string(compress(codec, hlib.Pick(r, [][]byte{rawBoundaryMessage(r), sparseBodies[r.Intn(len(sparseBodies))], rawMessage(r)})))
			in.Reqs = append(in.Reqs, reqMeta{Ep: "raw", Enc: codec})
		default:
			codec := hlib.Pick(r, []string{"deflate", "lz4", "identity", "identity"})
			bodies[i] = string(compress(codec, chainMessage(r)))
			in.Reqs = append(in.Reqs, reqMeta{Ep: "raw", Enc: codec})
		}
	}
	in.Data = lists(bodies)
	return in
}

func (g *gen) httpInput() input {
	r := g.r
	ep := "raw"
	if r.Chance(1, 3) {
		ep = "event"
	}
	var msg []byte
	shape := "msg"
	switch k := r.Intn(12); {
	case k == 0:
		msg, shape = sparseBodies[r.Intn(len(sparseBodies))], "sparse"
	case k == 2 && ep == "event":
		msg, shape = eventEnumBody(r), "enum"
	case k == 2:
		msg, shape = rawBoundaryMessage(r), "boundary"
	case k == 1: // the other endpoint's message type
		if ep == "raw" {
			msg = eventMessage(r)
		} else {
			msg = rawMessage(r)
		}
		shape = "othertype"
	case ep == "raw":
		msg = rawMessage(r)
	default:
		msg = eventMessage(r)
	}
	codec := hlib.Pick(r, []string{"deflate", "lz4", "identity", "identity"})
	body := compress(codec, msg)
	mut := "valid"
	switch k := r.Intn(10); {
	case k < 4:
	case k < 6:
		mut = "truncated"
		if len(body) > 0 {
			body = body[:r.Intn(len(body))]
		}
	case k < 8:
		mut = "bitflip"
		body = append([]byte(nil), body...)
		for i, n := 0, r.Range(1, 3); i < n && len(body) > 0; i++ {
			body[r.Intn(len(body))] ^= 1 << uint(r.Intn(8))
		}
	case k < 9:
		mut = "random"
		body = []byte(fill(r, r.Range(0, 120), ""))
		if r.Chance(1, 3) { // random bytes behind a plausible codec header
			switch codec {
			case "deflate":
				body = append([]byte{0x78, 0x9c}, body...)
			case "lz4":
				body = append([]byte{0x04, 0x22, 0x4d, 0x18}, body...)
			}
		}
	default:
		mut = "trailing"
		body = append(append([]byte(nil), body...), []byte(fill(r, r.Range(1, 10), ""))...)
	}
	in := input{Kind: "http", Ep: ep, Data: flat(string(body))}
	// the header: mostly the codec used, otherwise any of the encodings
	hdr := codec
	if r.Chance(1, 3) {
		hdr = hlib.Pick(r, encodings)
	}
	if hdr == "identity" && r.Bool() {
		hdr = ""
	}
	if hdr == "" && r.Bool() {
		in.NoEnc = true
	}
	in.Enc = hdr
	if r.Chance(1, 12) {
		in.ReadFail = hlib.Pick(r, []string{"short", "badchunk"})
	}
	in.Class = "http-" + ep + "/" + shape + "-" + mut
	return in
}
