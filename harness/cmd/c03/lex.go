package main

import (
	"fmt"
	"strings"
	"time"

	"github.com/atlassian/gostatsd/verifhooks"

	"verifharness/hlib"
	"verifharness/lexgen"
)

type lexRunner struct{ ll *verifhooks.LineLexer }

func newLexRunner() *lexRunner { return &lexRunner{ll: verifhooks.NewLineLexer(4)} }

func abbreviate(s string) string {
	if len(s) > 300 {
		return fmt.Sprintf("%q...(%d bytes)", s[:300], len(s))
	}
	return fmt.Sprintf("%q", s)
}

// run: the line through the real lexer entry point under recover(); the Coq case is C02's
// lexcase (line, strconv oracle table, observation) wrapped in KLex.
func (lr *lexRunner) run(in input) hlib.Case {
	line := in.Data.str()
	var o lexgen.Observation
	done := make(chan struct{})
	go func() { o = lexgen.Lex(lr.ll, line, in.NS); close(done) }()
	select {
	case <-done:
	case <-time.After(stepTimeout):
		// the lexer does not return: nothing can stop that goroutine, so this is the last case
		return hlib.Case{Input: in, Obs: map[string]interface{}{"text": abbreviate(line), "result": "no return"}, Class: "lex/" + in.Class + "/wedged",
			Monitors: []string{"lexer wedged: no return after " + stepTimeout.String(), fatalMark}}
	}
	if len(o.Text) > 400 {
		o.Text = o.Text[:400] + "..."
	}
	c := hlib.Case{Input: in, Obs: map[string]interface{}{"text": abbreviate(line), "result": o}, Class: "lex/" + in.Class + "/" + o.Kind}
	c.Coq = hlib.App("KLex", lexgen.LexCase(in.NS, line, o))
	if o.Kind == "panic" {
		c.Monitors = append(c.Monitors, "lexer panicked: "+o.Err)
		// a panic may leave the pooled lexer in an arbitrary state
		lr.ll = verifhooks.NewLineLexer(4)
	}
	c.Nontrivial = strings.Count(line, "|") >= 2 || strings.IndexByte(line, 0) >= 0 || strings.HasPrefix(line, "_e{")
	return c
}
