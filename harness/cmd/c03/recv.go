package main

// recv stream: datagrams through the REAL socket-facing path, wired as statsd.Server does it:
// socket -> DatagramReceiver.Run (numReaders x Receive, BatchReader) -> chan -> DatagramParser.Run.
// Nothing on that path has a recover(), and the receiver's goroutines are started by the
// implementation, so a panic kills the process: the cases run in a child worker process and
// the supervisor turns a dead or silent worker into a case with a monitor hit whose input is
// the concrete replay.

import (
	"bufio"
	"context"
	"encoding/json"
	"errors"
	"fmt"
	"io"
	"net"
	"os"
	"os/exec"
	"path/filepath"
	"strings"
	"sync"
	"sync/atomic"
	"time"

	reuseport "github.com/libp2p/go-reuseport"
	"github.com/sirupsen/logrus"

	"github.com/atlassian/gostatsd"
	"github.com/atlassian/gostatsd/pkg/stats"
	"github.com/atlassian/gostatsd/pkg/statsd"

	"verifharness/hlib"
)

// ---------------------------------------------------------------------------------------
// supervisor side

type recvRunner struct {
	cmd    *exec.Cmd
	stdin  io.WriteCloser
	lines  chan string
	stderr *tailBuffer
}

type tailBuffer struct {
	mu sync.Mutex
	b  []byte
}

func (t *tailBuffer) Write(p []byte) (int, error) {
	t.mu.Lock()
	t.b = append(t.b, p...)
	if len(t.b) > 1<<16 {
		t.b = t.b[len(t.b)-1<<15:]
	}
	t.mu.Unlock()
	return len(p), nil
}
func (t *tailBuffer) String() string { t.mu.Lock(); defer t.mu.Unlock(); return string(t.b) }

func (rr *recvRunner) start() error {
	cmd := exec.Command(os.Args[0], "run", "-inputs", os.DevNull, "-stream", "recvworker")
	rr.stderr = &tailBuffer{}
	cmd.Stderr = rr.stderr
	in, err := cmd.StdinPipe()
	if err != nil {
		return err
	}
	out, err := cmd.StdoutPipe()
	if err != nil {
		return err
	}
	if err := cmd.Start(); err != nil {
		return err
	}
	rr.cmd, rr.stdin = cmd, in
	rr.lines = make(chan string, 1)
	go func(ch chan string) {
		sc := bufio.NewScanner(out)
		sc.Buffer(make([]byte, 1<<20), 1<<28)
		for sc.Scan() {
			ch <- sc.Text()
		}
		close(ch)
	}(rr.lines)
	return nil
}

func (rr *recvRunner) stop() {
	if rr.cmd != nil && rr.cmd.Process != nil {
		rr.stdin.Close()
		rr.cmd.Process.Kill()
		rr.cmd.Wait()
		rr.cmd = nil
	}
}

// firstPanicLines extracts the panic message and the first frames of the implementation.
func firstPanicLines(stderr string) string {
	i := strings.Index(stderr, "panic:")
	if j := strings.Index(stderr, "fatal error:"); i < 0 || (j >= 0 && j < i) {
		i = j
	}
	if i < 0 {
		if len(stderr) > 600 {
			return stderr[len(stderr)-600:]
		}
		return stderr
	}
	s := stderr[i:]
	var keep []string
	for _, l := range strings.Split(s, "\n") {
		if strings.HasPrefix(l, "panic:") || strings.HasPrefix(l, "fatal error:") || strings.HasPrefix(l, "[signal") ||
			strings.Contains(l, "gostatsd/pkg/") || strings.Contains(l, "gostatsd/internal/") {
			keep = append(keep, strings.TrimSpace(l))
		}
		if len(keep) >= 8 {
			break
		}
	}
	return strings.Join(keep, " | ")
}

func (rr *recvRunner) run(in input) hlib.Case {
	dead := func(what string) hlib.Case {
		msg := firstPanicLines(rr.stderr.String())
		rr.stop()
		return hlib.Case{Input: in, Class: in.Class + "/" + in.Kind + in.Sock + "/crash", Nontrivial: true,
			Obs:      map[string]interface{}{"failure": what, "stderr": msg, "datagrams": in.Data.datagrams()},
			Monitors: []string{what + ": " + msg}}
	}
	if rr.cmd == nil {
		if err := rr.start(); err != nil {
			fmt.Fprintln(os.Stderr, "c03: cannot start the recv worker:", err)
			os.Exit(3)
		}
	}
	b, _ := json.Marshal(in)
	if _, err := rr.stdin.Write(append(b, '\n')); err != nil {
		return dead("the ingestion process died before taking the case")
	}
	select {
	case line, ok := <-rr.lines:
		if !ok {
			if err := rr.cmd.Wait(); err != nil {
				if ee, isExit := err.(*exec.ExitError); isExit && ee.ExitCode() == 3 {
					// the worker gave up for a reason of its own (socket setup, send failure)
					fmt.Fprintln(os.Stderr, "c03: recv worker infrastructure failure:", rr.stderr.String())
					os.Exit(3)
				}
			}
			rr.cmd = nil
			return dead("the ingestion process died (panic in a goroutine of the receiver/parser path)")
		}
		var c hlib.Case
		if err := json.Unmarshal([]byte(line), &c); err != nil {
			return dead("the ingestion worker answered garbage")
		}
		c.Input = in // keep the exact input (no decode/encode round trip)
		c.Key = ""
		return c
	case <-time.After(6 * stepTimeout):
		return dead("the ingestion process is wedged (no answer from the worker)")
	}
}

// ---------------------------------------------------------------------------------------
// worker side

func recvWorker() {
	logrus.SetOutput(io.Discard)
	dir, err := os.MkdirTemp(".", "c03u")
	if err != nil {
		fmt.Fprintln(os.Stderr, err)
		os.Exit(3)
	}
	defer os.RemoveAll(dir)
	sc := bufio.NewScanner(os.Stdin)
	sc.Buffer(make([]byte, 1<<20), 1<<28)
	out := bufio.NewWriter(os.Stdout)
	n := 0
	var burst *burstRunner
	for sc.Scan() {
		var in input
		if err := json.Unmarshal(sc.Bytes(), &in); err != nil {
			fmt.Fprintln(os.Stderr, "bad input:", err)
			os.Exit(2)
		}
		n++
		var c hlib.Case
		if in.Kind == "burst" {
			if burst == nil {
				burst = newBurstRunner()
			}
			c = burst.run(in)
		} else if in.Kind == "chain" {
			c = runChain(in)
		} else {
			c = runRecv(in, filepath.Join(dir, fmt.Sprintf("s%d", n)))
		}
		if c.Monitors == nil {
			c.Monitors = []string{}
		}
		b, _ := json.Marshal(c)
		out.Write(b)
		out.WriteByte('\n')
		out.Flush()
	}
	os.RemoveAll(dir)
}

// pollStatser: every RunMetricsContext loop gets its own flush channel.
type pollStatser struct {
	stats.NullStatser
	mu    sync.Mutex
	chans []chan time.Duration
	vals  map[string]float64
}

func (s *pollStatser) RegisterFlush() (<-chan time.Duration, func()) {
	ch := make(chan time.Duration)
	s.mu.Lock()
	s.chans = append(s.chans, ch)
	s.mu.Unlock()
	return ch, func() {}
}
func (s *pollStatser) Report(name string, value *uint64, tags gostatsd.Tags) {
	s.Gauge(name, float64(atomic.LoadUint64(value)), tags)
}
func (s *pollStatser) Gauge(name string, value float64, tags gostatsd.Tags) {
	s.mu.Lock()
	s.vals[name] = value
	s.mu.Unlock()
}
func (s *pollStatser) WithTags(tags gostatsd.Tags) stats.Statser { return s }
func (s *pollStatser) get(name string) uint64 {
	s.mu.Lock()
	defer s.mu.Unlock()
	return uint64(s.vals[name])
}
func (s *pollStatser) registered() int { s.mu.Lock(); defer s.mu.Unlock(); return len(s.chans) }

// flushAll makes every metrics loop report once (the second send returns when the first report
// is complete).
func (s *pollStatser) flushAll() bool {
	s.mu.Lock()
	chans := append([]chan time.Duration(nil), s.chans...)
	s.mu.Unlock()
	for _, ch := range chans {
		for i := 0; i < 2; i++ {
			select {
			case ch <- 0:
			case <-time.After(stepTimeout):
				return false
			}
		}
	}
	return true
}

// scriptConn is a net.PacketConn whose ReadFrom plays a script: datagrams (possibly empty) and
// read errors; when the script is over it blocks until Close, like an idle socket.
type scriptConn struct {
	mu     sync.Mutex
	steps  []scriptStep
	pos    int
	closed chan struct{}
	wake   chan struct{} // a step was pushed
	once   sync.Once
}
type scriptStep struct {
	err  bool
	data string
	addr net.Addr
}

var errScript = errors.New("verif: scripted temporary read error")

func (c *scriptConn) ReadFrom(b []byte) (int, net.Addr, error) {
	select {
	case <-c.closed:
		return 0, nil, errors.New("use of closed network connection")
	default:
	}
	for {
		c.mu.Lock()
		if c.pos < len(c.steps) {
			st := c.steps[c.pos]
			c.pos++
			c.mu.Unlock()
			if st.err {
				return 0, nil, errScript
			}
			return copy(b, st.data), st.addr, nil
		}
		c.mu.Unlock()
		select {
		case <-c.closed:
			return 0, nil, errors.New("use of closed network connection")
		case <-c.wake:
		}
	}
}
func (c *scriptConn) push(data string) {
	c.mu.Lock()
	c.steps = append(c.steps, scriptStep{data: data, addr: &net.UDPAddr{IP: net.IPv4(10, 9, 8, 7), Port: 1}})
	c.mu.Unlock()
	for i := 0; i < 8; i++ { // wake every reader that may be waiting
		select {
		case c.wake <- struct{}{}:
		default:
		}
	}
}
func (c *scriptConn) WriteTo(b []byte, addr net.Addr) (int, error) { return len(b), nil }
func (c *scriptConn) Close() error                                 { c.once.Do(func() { close(c.closed) }); return nil }
func (c *scriptConn) LocalAddr() net.Addr {
	return &net.UDPAddr{IP: net.IPv4(127, 0, 0, 1), Port: 8125}
}
func (c *scriptConn) SetDeadline(t time.Time) error      { return nil }
func (c *scriptConn) SetReadDeadline(t time.Time) error  { return nil }
func (c *scriptConn) SetWriteDeadline(t time.Time) error { return nil }

// runRecv runs one case inside the worker process.
func runRecv(in input, sockPath string) hlib.Case {
	msgs := in.Data.datagrams()
	c := hlib.Case{Input: in}
	readers, batch, parsers := in.Readers, in.RBatch, in.Parsers
	if readers < 1 {
		readers = 1
	}
	if batch < 1 {
		batch = 1
	}
	if parsers < 1 {
		parsers = 1
	}
	h := &countingHandler{}
	st := &pollStatser{vals: map[string]float64{}}
	logger := logrus.New()
	logger.SetOutput(io.Discard)
	limit := in.badLineLimit()
	ch := make(chan []*statsd.Datagram)
	dp := statsd.NewDatagramParser(ch, in.NS, in.IgnoreHost, 0, h, limit, in.LogRaw, logger)
	ctx, cancel := context.WithCancel(stats.NewContext(context.Background(), st))
	defer cancel()

	// the socket(s)
	var sf statsd.SocketFactory
	var send func(string) error
	var srcIPs []net.IP // udp: source address of datagram i is srcIPs[i % len]
	var script *scriptConn
	var cleanup []func()
	defer func() {
		for _, f := range cleanup {
			f()
		}
	}()
	fail := func(msg string) hlib.Case { // infrastructure trouble (not a property violation)
		fmt.Fprintln(os.Stderr, "c03 recv worker:", msg)
		os.Exit(3)
		return c
	}
	switch in.Sock {
	case "udp":
		var first net.PacketConn
		var err error
		if in.ConnPerReader {
			first, err = reuseport.ListenPacket("udp", "127.0.0.1:0")
		} else {
			first, err = net.ListenPacket("udp", "127.0.0.1:0")
		}
		if err != nil {
			return fail("listen udp: " + err.Error())
		}
		if uc, ok := first.(*net.UDPConn); ok {
			uc.SetReadBuffer(4 << 20)
		}
		addr := first.LocalAddr().String()
		handedOut := false
		sf = func() (net.PacketConn, error) {
			if !in.ConnPerReader || !handedOut {
				handedOut = true
				return first, nil
			}
			return reuseport.ListenPacket("udp", addr) // as statsd.socketFactory does with conn-per-reader
		}
		// three senders with different source addresses (all of 127/8 is local): datagram i comes
		// from 127.0.0.(1 + i mod 3), so one batch holds datagrams of several senders
		raddr, err := net.ResolveUDPAddr("udp", addr)
		if err != nil {
			return fail("resolve udp: " + err.Error())
		}
		var clients []*net.UDPConn
		for k := 1; k <= 3; k++ {
			cl, err := net.DialUDP("udp", &net.UDPAddr{IP: net.IPv4(127, 0, 0, byte(k))}, raddr)
			if err != nil {
				if k == 1 {
					return fail("dial udp: " + err.Error())
				}
				break // no such local address here: fewer senders
			}
			clients = append(clients, cl)
			srcIPs = append(srcIPs, net.IPv4(127, 0, 0, byte(k)))
		}
		cleanup = append(cleanup, func() {
			for _, cl := range clients {
				cl.Close()
			}
		})
		nsent := 0
		send = func(m string) error {
			cl := clients[nsent%len(clients)]
			nsent++
			_, err := cl.Write([]byte(m))
			return err
		}
	case "unixgram":
		conn, err := net.ListenPacket("unixgram", sockPath)
		if err != nil {
			return fail("listen unixgram: " + err.Error())
		}
		sf = func() (net.PacketConn, error) { return conn, nil }
		cl, err := net.Dial("unixgram", sockPath)
		if err != nil {
			return fail("dial unixgram: " + err.Error())
		}
		cleanup = append(cleanup, func() { cl.Close(); os.Remove(sockPath) })
		send = func(m string) error {
			// a full peer queue shows as EAGAIN on a unixgram socket: wait for the reader
			var err error
			for end := time.Now().Add(stepTimeout); ; {
				if _, err = cl.Write([]byte(m)); err == nil || !strings.Contains(err.Error(), "temporarily unavailable") || time.Now().After(end) {
					return err
				}
				time.Sleep(100 * time.Microsecond)
			}
		}
	default: // scripted PacketConn, with read errors in between
		script = &scriptConn{closed: make(chan struct{}), wake: make(chan struct{}, 8)}
		errAt := map[int]bool{}
		for _, e := range in.Errs {
			errAt[e] = true
		}
		for i, m := range msgs {
			if errAt[i] {
				script.steps = append(script.steps, scriptStep{err: true})
			}
			var addr net.Addr = &net.UDPAddr{IP: net.IPv4(10, 9, 8, byte(i)), Port: 1000 + i}
			if i%7 == 6 {
				addr = &net.UnixAddr{Name: "weird", Net: "unixgram"} // getIP's fallback
			}
			script.steps = append(script.steps, scriptStep{data: m, addr: addr})
		}
		sf = func() (net.PacketConn, error) { return script, nil }
		send = func(m string) error { script.push(m); return nil }
	}
	// the receiver writes to rch; a relay records every batch as it is (nil slots, sender, bytes,
	// timestamp) and passes the very same slice on to the parser's channel
	rch := make(chan []*statsd.Datagram)
	rel := &relay{}
	go rel.run(ctx, rch, ch)
	dr := statsd.NewDatagramReceiver(rch, sf, readers, batch)

	nlines, nbytes := 0, 0
	coqMsgs := make([]string, len(msgs))
	for i, m := range msgs {
		nlines += lineCount(m)
		nbytes += len(m)
		coqMsgs[i] = hlib.Bytes(m)
	}
	obs := map[string]interface{}{"datagrams": len(msgs), "lines": nlines, "bytes": nbytes, "sizes": sizes(msgs)}
	c.Obs = obs

	for i := 0; i < parsers; i++ {
		go dp.Run(ctx)
	}
	go dp.RunMetricsContext(ctx)
	go dr.RunMetricsContext(ctx)
	recvDone := make(chan struct{})
	startReceiver := func() { go func() { dr.Run(ctx); close(recvDone) }() }

	deadline := func() time.Time { return time.Now().Add(stepTimeout) }
	waitFor := func(cond func() bool) bool {
		for end := deadline(); ; {
			if st.registered() >= 2 && st.flushAll() && cond() {
				return true
			}
			if time.Now().After(end) {
				return false
			}
			time.Sleep(200 * time.Microsecond)
		}
	}
	received := func() uint64 { return st.get("receiver.datagrams_received") }
	accounted := func() uint64 {
		return st.get("parser.metrics_received") + st.get("parser.events_received") + st.get("parser.bad_lines_seen")
	}

	// real sockets: datagrams go out in waves that fit the socket buffer; the first wave is queued
	// before the receiver starts reading, so that one ReadBatch really returns several datagrams
	sent := 0
	problem := ""
	if script == nil {
		started := false
		if in.Sock == "unixgram" {
			// a unixgram socket queues only net.unix.max_dgram_qlen (10) datagrams and the sender
			// blocks beyond that: the receiver has to be reading already
			startReceiver()
			started = true
		}
		for sent < len(msgs) && problem == "" {
			waveBytes, waveN := 0, 0
			maxWave := 50
			if in.Sock == "unixgram" {
				maxWave = 5
			}
			for sent < len(msgs) && waveN < maxWave && (waveN == 0 || waveBytes+len(msgs[sent]) <= 60000) {
				if err := send(msgs[sent]); err != nil {
					return fail(fmt.Sprintf("send datagram %d (%d bytes): %v", sent, len(msgs[sent]), err))
				}
				waveBytes += len(msgs[sent])
				waveN++
				sent++
			}
			if !started {
				startReceiver()
				started = true
			}
			want := uint64(sent)
			if !waitFor(func() bool { return received() >= want }) {
				problem = fmt.Sprintf("receiver counted %d of %d datagrams sent", received(), want)
			}
		}
		if !started {
			startReceiver()
		}
	} else {
		sent = len(msgs)
		startReceiver()
		if !waitFor(func() bool { return received() >= uint64(sent) }) {
			problem = fmt.Sprintf("receiver counted %d of %d datagrams", received(), sent)
		}
	}
	// the receiver counts a batch before it hands it over: wait until the relay has seen all of them
	if problem == "" && !waitFor(func() bool { return rel.count() >= sent }) {
		problem = fmt.Sprintf("receiver handed over %d of %d datagrams read", rel.count(), sent)
	}
	if problem == "" && !waitFor(func() bool { return accounted() >= uint64(nlines) }) {
		problem = fmt.Sprintf("line accounting: %d of %d lines counted after %s", accounted(), nlines, stepTimeout)
	}
	m, e, b := st.get("parser.metrics_received"), st.get("parser.events_received"), st.get("parser.bad_lines_seen")
	obs["metrics"], obs["events"], obs["bad"] = m, e, b
	obs["datagrams_received"], obs["batches_read"] = received(), st.get("receiver.batches_read")
	outcome := "ok"
	if problem != "" {
		c.Monitors = append(c.Monitors, "receiver/parser path: "+problem)
		outcome = "stuck"
	} else {
		counts := hlib.App("DCounts", hlib.N(m), hlib.N(e), hlib.N(b))
		c.Coq = hlib.App("KDgram", hlib.Bytes(in.NS), hlib.List(coqMsgs), dgramOracle(msgs), counts)
		if readers == 1 {
			// one reader: the batches arrive in the order of the reads; compare them with Model/Receiver.v
			seenBatches := rel.snapshot()
			coq, mons := recvCase(in, msgs, seenBatches, batch, counts, srcIPs)
			c.Monitors = append(c.Monitors, mons...)
			if coq != "" {
				c.Coq = coq
			}
			obs["batch_sizes"] = batchSizes(seenBatches)
		}
		if int(m+e+b) != nlines {
			c.Monitors = append(c.Monitors, fmt.Sprintf("line accounting: %d metrics + %d events + %d bad != %d lines", m, e, b, nlines))
		}
		if r := received(); r != uint64(sent) {
			c.Monitors = append(c.Monitors, fmt.Sprintf("receiver counted %d datagrams, %d were sent", r, sent))
		}
		if ev := atomic.LoadInt64(&h.events); uint64(ev) != e {
			c.Monitors = append(c.Monitors, fmt.Sprintf("%d events dispatched, %d counted", ev, e))
		}
		// processing of later input continues
		if err := send("verif.after:1|c\n_e{1,1}:a|b"); err != nil {
			return fail("send probe: " + err.Error())
		}
		if !waitFor(func() bool { return accounted() >= uint64(nlines)+2 }) || st.get("parser.metrics_received") != m+1 || st.get("parser.events_received") != e+1 {
			c.Monitors = append(c.Monitors, fmt.Sprintf("later input not processed: counters %d/%d/%d -> %d/%d/%d", m, e, b,
				st.get("parser.metrics_received"), st.get("parser.events_received"), st.get("parser.bad_lines_seen")))
		}
	}
	cancel()
	select {
	case <-recvDone:
	case <-time.After(stepTimeout):
		obs["shutdown"] = "receiver did not stop within " + stepTimeout.String() // shutdown is outside C03
	}
	zero := 0
	for _, x := range msgs {
		if len(x) == 0 {
			zero++
		}
	}
	c.Class = fmt.Sprintf("%s/%s/%s", in.Class, in.Sock, outcome)
	c.Nontrivial = len(msgs) >= 2 && (zero > 0 || nlines >= 2)
	return c
}

func sizes(msgs []string) []int {
	out := make([]int, len(msgs))
	for i, m := range msgs {
		out[i] = len(m)
	}
	if len(out) > 60 {
		out = out[:60]
	}
	return out
}

// ---------------------------------------------------------------------------------------
// what the receiver handed over

type seenDatagram struct {
	isNil bool
	ip    string
	msg   string
	ts    gostatsd.Nanotime
}

type relay struct {
	mu      sync.Mutex
	batches [][]seenDatagram
}

func (r *relay) run(ctx context.Context, from <-chan []*statsd.Datagram, to chan<- []*statsd.Datagram) {
	for {
		select {
		case <-ctx.Done():
			return
		case b := <-from:
			rec := make([]seenDatagram, len(b))
			for i, dg := range b {
				if dg == nil {
					rec[i].isNil = true
					continue
				}
				rec[i] = seenDatagram{ip: string(dg.IP), msg: string(dg.Msg), ts: dg.Timestamp}
			}
			r.mu.Lock()
			r.batches = append(r.batches, rec)
			r.mu.Unlock()
			select {
			case to <- b:
			case <-ctx.Done():
				return
			}
		}
	}
}

func (r *relay) count() int {
	r.mu.Lock()
	defer r.mu.Unlock()
	n := 0
	for _, b := range r.batches {
		n += len(b)
	}
	return n
}

func (r *relay) snapshot() [][]seenDatagram {
	r.mu.Lock()
	defer r.mu.Unlock()
	return append([][]seenDatagram(nil), r.batches...)
}

func batchSizes(bs [][]seenDatagram) []int {
	out := make([]int, len(bs))
	for i, b := range bs {
		out[i] = len(b)
	}
	if len(out) > 80 {
		out = out[:80]
	}
	return out
}

// coqAddr prints a net.Addr as Model/Receiver.addr; the IP text comes from net.IP.String().
func coqAddr(a net.Addr) string {
	switch x := a.(type) {
	case nil:
		return "RaNil"
	case *net.UDPAddr:
		return hlib.App("RaUdp", hlib.Bytes(x.IP.String()))
	default:
		return "RaOther"
	}
}

// recvCase builds the KRecv term: the script of ReadBatch returns (for a real socket the grouping
// is the observed one: which datagrams one recvmmsg returned together is the kernel's choice),
// the observed batches, the counters.  Direct monitors: bytes handed over = bytes sent, in
// order; one timestamp per batch, non-decreasing.
func recvCase(in input, msgs []string, seen [][]seenDatagram, batch int, counts string, srcIPs []net.IP) (string, []string) {
	var mons []string
	total := 0
	for _, b := range seen {
		total += len(b)
	}
	if total != len(msgs) {
		return "", []string{fmt.Sprintf("receiver handed over %d datagrams in %d batches, %d were read", total, len(seen), len(msgs))}
	}
	addrOf := func(i int) net.Addr { // as the worker's sockets / script report it
		switch in.Sock {
		case "udp":
			return &net.UDPAddr{IP: srcIPs[i%len(srcIPs)]}
		case "unixgram":
			return &net.UnixAddr{}
		default:
			if i%7 == 6 {
				return &net.UnixAddr{Name: "weird", Net: "unixgram"}
			}
			return &net.UDPAddr{IP: net.IPv4(10, 9, 8, byte(i)), Port: 1000 + i}
		}
	}
	errAt := map[int]bool{}
	if in.Sock == "script" {
		for _, e := range in.Errs {
			errAt[e] = true
		}
	}
	nbytes := 0
	for _, m := range msgs {
		nbytes += len(m)
	}
	withBody := nbytes <= 3000
	var script, obs []string
	i := 0
	var prevTS gostatsd.Nanotime
	for k, b := range seen {
		var ms, od []string
		for j, d := range b {
			if errAt[i] {
				script = append(script, "RdErr")
			}
			ms = append(ms, hlib.App("RMsg", hlib.Bytes(msgs[i]), coqAddr(addrOf(i))))
			if d.isNil {
				od = append(od, "ObsNil")
				mons = append(mons, fmt.Sprintf("nil slot %d in batch %d handed to the parser", j, k))
			} else {
				if d.msg != msgs[i] {
					mons = append(mons, fmt.Sprintf("datagram %d handed over with %d bytes that are not the %d bytes read", i, len(d.msg), len(msgs[i])))
				}
				if d.ts != b[0].ts && !b[0].isNil {
					mons = append(mons, fmt.Sprintf("batch %d carries two timestamps", k))
				}
				body := "None"
				if withBody {
					body = hlib.Option(hlib.Bytes(d.msg), true)
				}
				od = append(od, hlib.App("ObsD", hlib.Bytes(d.ip), hlib.N(uint64(len(d.msg))), body, hlib.Z(int64(k))))
				if d.ts < prevTS {
					mons = append(mons, fmt.Sprintf("timestamp of batch %d is before the previous batch", k))
				}
				prevTS = d.ts
			}
			i++
		}
		script = append(script, hlib.App("RdOk", hlib.Z(int64(k)), hlib.List(ms)))
		obs = append(obs, hlib.List(od))
	}
	return hlib.App("KRecv", hlib.Bytes(in.NS), dgramOracle(msgs), hlib.Bool(in.Sock == "unixgram"), hlib.N(uint64(batch)),
		hlib.List(script), hlib.List(obs), counts), mons
}
