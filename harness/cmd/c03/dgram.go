package main

import (
	"bytes"
	"context"
	"fmt"
	"io"
	"sort"
	"strings"
	"sync"
	"sync/atomic"
	"time"

	"github.com/sirupsen/logrus"

	"github.com/atlassian/gostatsd"
	"github.com/atlassian/gostatsd/pkg/stats"
	"github.com/atlassian/gostatsd/pkg/statsd"

	"verifharness/hlib"
	"verifharness/lexgen"
)

// countingHandler is the pipeline behind the component under test.
type countingHandler struct {
	maps, events int64
}

func (h *countingHandler) DispatchMetricMap(ctx context.Context, mm *gostatsd.MetricMap) {
	atomic.AddInt64(&h.maps, 1)
}
func (h *countingHandler) DispatchEvent(ctx context.Context, e *gostatsd.Event) {
	atomic.AddInt64(&h.events, 1)
}
func (h *countingHandler) EstimatedTags() int { return 0 }
func (h *countingHandler) WaitForEvents()     {}

// recStatser receives what DatagramParser.RunMetricsContext reports on a flush: this is the
// public face of the three line counters.
type recStatser struct {
	stats.NullStatser
	flush chan time.Duration
	mu    sync.Mutex
	vals  map[string]float64
}

func (s *recStatser) RegisterFlush() (<-chan time.Duration, func()) { return s.flush, func() {} }
func (s *recStatser) Report(name string, value *uint64, tags gostatsd.Tags) {
	s.Gauge(name, float64(atomic.LoadUint64(value)), tags)
}
func (s *recStatser) Gauge(name string, value float64, tags gostatsd.Tags) {
	s.mu.Lock()
	s.vals[name] = value
	s.mu.Unlock()
}
func (s *recStatser) WithTags(tags gostatsd.Tags) stats.Statser { return s }
func (s *recStatser) get(name string) uint64 {
	s.mu.Lock()
	defer s.mu.Unlock()
	return uint64(s.vals[name])
}

const stepTimeout = 8 * time.Second

// dgramOracle: ParseFloat table for every line of the datagram (same candidate rule as
// lexgen.OracleTable, per line).
func dgramOracle(msgs []string) string {
	cands := map[string]bool{}
	for _, line := range strings.Split(strings.Join(msgs, "\n"), "\n") {
		if i := strings.IndexByte(line, ':'); i >= 0 {
			rest := line[i+1:]
			if j := strings.IndexByte(rest, '|'); j >= 0 {
				cands[rest[:j]] = true
			}
		}
		for _, f := range strings.Split(line, "|") {
			if strings.HasPrefix(f, "@") {
				cands[f[1:]] = true
			}
		}
	}
	keys := make([]string, 0, len(cands))
	for s := range cands {
		keys = append(keys, s)
	}
	sort.Strings(keys)
	el := make([]string, len(keys))
	for i, s := range keys {
		el[i] = hlib.Pair(hlib.Bytes(s), lexgen.PF(s))
	}
	return hlib.List(el)
}

// lineCount is the code's rule as the property states it: every '\n' ends a line, a non-empty
// remainder is one more line.
func lineCount(dg string) int {
	n := strings.Count(dg, "\n")
	if i := strings.LastIndexByte(dg, '\n'); len(dg[i+1:]) > 0 {
		n++
	}
	return n
}

// cutAt splits the data at the given offsets (clamped, sorted by construction of the generator).
func cutAt(data string, cuts []int) []string {
	var out []string
	prev := 0
	for _, c := range cuts {
		if c < prev {
			c = prev
		}
		if c > len(data) {
			c = len(data)
		}
		out = append(out, data[prev:c])
		prev = c
	}
	return append(out, data[prev:])
}

func runDgram(in input) hlib.Case {
	dg := in.Data.str()
	msgs := cutAt(dg, in.Cuts)
	c := hlib.Case{Input: in}
	h := &countingHandler{}
	st := &recStatser{flush: make(chan time.Duration), vals: map[string]float64{}}
	ch := make(chan []*statsd.Datagram)
	logger := logrus.New()
	logger.SetOutput(io.Discard)
	limit := in.badLineLimit()
	dp := statsd.NewDatagramParser(ch, in.NS, in.IgnoreHost, 0, h, limit, in.LogRaw, logger)
	ctx, cancel := context.WithCancel(stats.NewContext(context.Background(), st))
	defer cancel()
	panicked := make(chan string, 2)
	go func() {
		if msg := hlib.Recover(func() { dp.Run(ctx) }); msg != "" {
			panicked <- msg
		}
	}()
	go func() {
		if msg := hlib.Recover(func() { dp.RunMetricsContext(ctx) }); msg != "" {
			panicked <- "RunMetricsContext: " + msg
		}
	}()

	// the message lives in a receive buffer of the size the real receiver uses; the bytes behind
	// it are stale data of an earlier datagram
	var doneCalls int64
	mk := func(msg string) *statsd.Datagram {
		buf := bytes.Repeat([]byte("|old:1|c\n"), 0xffff/9+4)[:0xffff+16]
		copy(buf, msg)
		return &statsd.Datagram{IP: "10.1.2.3", Msg: buf[:len(msg)], Timestamp: 10, DoneFunc: func() { atomic.AddInt64(&doneCalls, 1) }}
	}
	send := func(ds ...*statsd.Datagram) string {
		for _, batch := range [][]*statsd.Datagram{ds, nil} { // the empty batch returns once the first one is accounted
			select {
			case ch <- batch:
			case m := <-panicked:
				return "panic: " + m
			case <-time.After(stepTimeout):
				return "wedged: parser did not take the next batch"
			}
		}
		return ""
	}
	flush := func() string {
		for i := 0; i < 2; i++ { // the second send returns once the first report is complete
			select {
			case st.flush <- 0:
			case m := <-panicked:
				return "panic: " + m
			case <-time.After(stepTimeout):
				return "wedged: metrics loop did not take the flush"
			}
		}
		return ""
	}
	nlines := 0
	var ds []*statsd.Datagram
	coqMsgs := make([]string, len(msgs))
	for i, m := range msgs {
		nlines += lineCount(m)
		ds = append(ds, mk(m))
		coqMsgs[i] = hlib.Bytes(m)
	}
	obs := map[string]interface{}{"text": abbreviate(dg), "lines": nlines, "datagrams": len(msgs)}
	c.Obs = obs
	fail := ""
	if in.Batch {
		fail = send(ds...)
	} else {
		for _, d := range ds {
			if fail = send(d); fail != "" {
				break
			}
		}
	}
	if fail == "" {
		fail = flush()
	}
	outcome := "ok"
	if fail != "" {
		c.Monitors = append(c.Monitors, "datagram parser "+fail)
		if strings.HasPrefix(fail, "wedged") {
			c.Monitors = append(c.Monitors, fatalMark)
		}
		obs["failure"] = fail
		outcome = "died"
		if strings.HasPrefix(fail, "panic") {
			c.Coq = hlib.App("KDgram", hlib.Bytes(in.NS), hlib.List(coqMsgs), dgramOracle(msgs), "DPanic")
		}
	} else {
		m, e, b := st.get("parser.metrics_received"), st.get("parser.events_received"), st.get("parser.bad_lines_seen")
		obs["metrics"], obs["events"], obs["bad"] = m, e, b
		c.Coq = hlib.App("KDgram", hlib.Bytes(in.NS), hlib.List(coqMsgs), dgramOracle(msgs), hlib.App("DCounts", hlib.N(m), hlib.N(e), hlib.N(b)))
		if int(m+e+b) != nlines {
			c.Monitors = append(c.Monitors, fmt.Sprintf("line accounting: %d metrics + %d events + %d bad != %d lines", m, e, b, nlines))
		}
		if ev := atomic.LoadInt64(&h.events); uint64(ev) != e {
			c.Monitors = append(c.Monitors, fmt.Sprintf("%d events dispatched, %d counted", ev, e))
		}
		if mp := atomic.LoadInt64(&h.maps); (mp >= 1) != (m > 0) || mp > int64(len(msgs)) {
			c.Monitors = append(c.Monitors, fmt.Sprintf("%d metric maps dispatched for %d metrics in %d datagrams", mp, m, len(msgs)))
		}
		if dc := atomic.LoadInt64(&doneCalls); dc != int64(len(msgs)) {
			c.Monitors = append(c.Monitors, fmt.Sprintf("DoneFunc called %d times for %d datagrams", dc, len(msgs)))
		}
		// processing of later input continues
		if f := send(mk("verif.after:1|c\n_e{1,1}:a|b")); f != "" {
			c.Monitors = append(c.Monitors, "datagram parser after the case: "+f)
		} else if f := flush(); f != "" {
			c.Monitors = append(c.Monitors, "datagram parser after the case: "+f)
		} else if m2, e2, b2 := st.get("parser.metrics_received"), st.get("parser.events_received"), st.get("parser.bad_lines_seen"); m2 != m+1 || e2 != e+1 || b2 != b {
			c.Monitors = append(c.Monitors, fmt.Sprintf("later input not processed: counters %d/%d/%d -> %d/%d/%d", m, e, b, m2, e2, b2))
		}
		c.Nontrivial = nlines >= 2 && b > 0 && m+e > 0
	}
	c.Class = in.Class + "/" + outcome
	return c
}
