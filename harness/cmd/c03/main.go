// C03: no network input can crash ingestion.
//
// Three kinds of cases (constructors of GS.Corr.C03.c03case):
//
//	lex    one hostile line through the real lexer entry point under recover()  -> KLex
//	dgram  one whole datagram through a real statsd.DatagramParser              -> KDgram
//	http   one request to the real ingestion router (web.NewHttpServer)         -> KHttp
//
// Every case is rebuilt from its `input` alone (`run -inputs`).
package main

import (
	"encoding/json"
	"fmt"
	"io"
	"os"

	"github.com/sirupsen/logrus"

	"verifharness/hlib"
)

type input struct {
	Kind  string `json:"kind"`  // lex | dgram | http
	Class string `json:"class"` // generator stream / shape
	NS    string `json:"ns,omitempty"`
	Data  []int  `json:"data"` // the line, the datagram, or the request body

	// dgram
	LogBad bool  `json:"logbad,omitempty"` // bad-line logging enabled (rate limit off)
	Cuts   []int `json:"cuts,omitempty"`   // data is cut at these offsets into successive datagrams
	Batch  bool  `json:"batch,omitempty"`  // all datagrams in one batch (otherwise one batch each)
	// http
	Ep       string `json:"ep,omitempty"`       // raw | event
	Enc      string `json:"enc,omitempty"`      // Content-Encoding header value
	NoEnc    bool   `json:"noenc,omitempty"`    // header absent
	ReadFail string `json:"readfail,omitempty"` // "" | short (declared length > bytes sent) | badchunk
}

// fatalMark in a case's monitors: the implementation is wedged, stop the run after this case.
const fatalMark = "\x00fatal"

func main() {
	logrus.SetOutput(io.Discard)
	a := hlib.ParseArgs()
	em := hlib.NewEmitter()
	defer em.Close()
	lexr := newLexRunner()
	var httpr *httpRunner
	defer func() {
		if httpr != nil {
			httpr.close()
		}
	}()
	emit := func(c hlib.Case) {
		fatal := false
		for i, m := range c.Monitors {
			if m == fatalMark {
				fatal = true
				c.Monitors = append(c.Monitors[:i], c.Monitors[i+1:]...)
				break
			}
		}
		em.Emit(c)
		if fatal {
			// a goroutine of the implementation is spinning or blocked for good: the case is
			// reported (monitor), later cases would only measure the damage
			em.Close()
			fmt.Fprintln(os.Stderr, "c03: implementation wedged, stopping after case", c.Class)
			os.Exit(0)
		}
	}
	runOne := func(in input) {
		// announce the input: if the implementation kills the whole process (fatal error, stack
		// overflow) the driver reports the tail of stderr as the crashing case
		if b, err := json.Marshal(in); err == nil {
			if len(b) > 1500 {
				b = append(b[:1500], []byte("...(truncated)")...)
			}
			fmt.Fprintf(os.Stderr, "c03: next input %s\n", b)
		}
		switch in.Kind {
		case "lex":
			emit(lexr.run(in))
		case "dgram":
			emit(runDgram(in))
		case "http":
			if httpr == nil {
				httpr = newHTTPRunner()
			}
			emit(httpr.run(in))
		default:
			fmt.Fprintln(os.Stderr, "unknown case kind", in.Kind)
			os.Exit(2)
		}
	}
	switch a.Mode {
	case "gen":
		r := hlib.NewRand(a.Seed)
		g := newGen(r, a.Tier)
		for i := 0; i < a.N; i++ {
			runOne(g.next(i))
		}
	case "run":
		for _, raw := range a.Inputs {
			var in input
			if err := json.Unmarshal(raw, &in); err != nil {
				fmt.Fprintln(os.Stderr, "bad input:", err)
				os.Exit(2)
			}
			runOne(in)
		}
	}
}
