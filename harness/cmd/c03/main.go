// C03: no network input can crash ingestion.
//
// Three kinds of cases (constructors of GS.Corr.C03.c03case):
//
//	lex    one hostile line through the real lexer entry point under recover()  -> KLex
//	dgram  one whole datagram through a real statsd.DatagramParser              -> KDgram
//	http   one request to the real ingestion router (web.NewHttpServer)         -> KHttp
//
// Every case is rebuilt from its `input` alone (`run -inputs`).
package main

import (
	"encoding/json"
	"fmt"
	"io"
	"os"
	"strings"

	"github.com/sirupsen/logrus"
	"golang.org/x/time/rate"

	"verifharness/hlib"
	"verifharness/lexgen"
)

type input struct {
	Kind  string  `json:"kind"`  // lex | dgram | recv | http
	Class string  `json:"class"` // generator stream / shape
	NS    string  `json:"ns,omitempty"`
	Data  payload `json:"data"` // the line, the datagram(s), or the request body

	// dgram
	LogBad bool    `json:"logbad,omitempty"` // (older inputs) same as badlpm = 1e9
	BadLPM float64 `json:"badlpm,omitempty"` // bad-lines-per-minute: 0 (default), 1, 600, 1e9
	LogRaw bool    `json:"lograw,omitempty"` // log-raw-metric
	// burst: overlapping requests; body of template i = data[i], its header and endpoint = reqs[i mod len]
	Reqs   []reqMeta `json:"reqs,omitempty"`
	Gor    int       `json:"gor,omitempty"`    // goroutines (connections)
	Rounds int       `json:"rounds,omitempty"` // requests per goroutine
	// chain: requests (data[i] with reqs[i]) sent in order into the real standalone pipeline
	Workers    int   `json:"workers,omitempty"`    // aggregator workers
	StaticTags bool  `json:"statictags,omitempty"` // default-tags configured (TagHandler rewrites every series)
	FlushEvery int   `json:"flushevery,omitempty"` // a flush after every n-th request (0: only at the end)
	Cuts       []int `json:"cuts,omitempty"`       // data is cut at these offsets into successive datagrams
	Batch      bool  `json:"batch,omitempty"`      // all datagrams in one batch (otherwise one batch each)
	IgnoreHost bool  `json:"ignorehost,omitempty"`
	// recv: the socket-facing path (DatagramReceiver -> DatagramParser)
	Sock          string `json:"sock,omitempty"`    // udp | unixgram | script (scripted PacketConn)
	Readers       int    `json:"readers,omitempty"` // max-readers
	RBatch        int    `json:"rbatch,omitempty"`  // receive-batch-size
	Parsers       int    `json:"parsers,omitempty"` // max-parsers
	ConnPerReader bool   `json:"connperreader,omitempty"`
	Errs          []int  `json:"errs,omitempty"` // script: a read error before these datagram indices
	// http
	Ep       string `json:"ep,omitempty"`       // raw | event
	Enc      string `json:"enc,omitempty"`      // Content-Encoding header value
	NoEnc    bool   `json:"noenc,omitempty"`    // header absent
	ReadFail string `json:"readfail,omitempty"` // "" | short (declared length > bytes sent) | badchunk
}

// payload is the shrinkable part of an input: a flat byte list (lex, dgram, http) or, for the
// recv stream, a list of datagrams (so that delta debugging removes whole datagrams).
type payload struct {
	Flat  []int
	Lists [][]int
	Multi bool
}

func flat(s string) payload { return payload{Flat: lexgen.ToInts(s)} }
func lists(msgs []string) payload {
	p := payload{Multi: true, Lists: make([][]int, len(msgs))}
	for i, m := range msgs {
		p.Lists[i] = lexgen.ToInts(m)
	}
	return p
}
func (p payload) MarshalJSON() ([]byte, error) {
	if p.Multi {
		if p.Lists == nil {
			return []byte("[]"), nil
		}
		for i := range p.Lists {
			if p.Lists[i] == nil {
				p.Lists[i] = []int{}
			}
		}
		return json.Marshal(p.Lists)
	}
	if p.Flat == nil {
		return []byte("[]"), nil
	}
	return json.Marshal(p.Flat)
}
func (p *payload) UnmarshalJSON(b []byte) error {
	*p = payload{}
	if err := json.Unmarshal(b, &p.Flat); err == nil {
		return nil
	}
	p.Flat, p.Multi = nil, true
	return json.Unmarshal(b, &p.Lists)
}

// str is the flat byte string (the concatenation for a list of datagrams).
func (p payload) str() string {
	if !p.Multi {
		return lexgen.FromInts(p.Flat)
	}
	return strings.Join(p.datagrams(), "")
}

// datagrams: a flat payload is one datagram (none when empty).
func (p payload) datagrams() []string {
	if !p.Multi {
		if len(p.Flat) == 0 {
			return nil
		}
		return []string{lexgen.FromInts(p.Flat)}
	}
	out := make([]string, len(p.Lists))
	for i, l := range p.Lists {
		out[i] = lexgen.FromInts(l)
	}
	return out
}

// badLineLimit is what cmd/gostatsd passes to statsd.Server / NewDatagramParser:
// rate.Limit(bad-lines-per-minute / 60).
func (in input) badLineLimit() rate.Limit {
	lpm := in.BadLPM
	if in.LogBad && lpm == 0 {
		lpm = 1e9
	}
	return rate.Limit(lpm / 60.0)
}

// fatalMark in a case's monitors: the implementation is wedged, stop the run after this case.
const fatalMark = "\x00fatal"

func main() {
	logrus.SetOutput(io.Discard)
	a := hlib.ParseArgs()
	em := hlib.NewEmitter()
	defer em.Close()
	if a.Extra["stream"] == "recvworker" {
		recvWorker()
		return
	}
	lexr := newLexRunner()
	recvr := &recvRunner{}
	defer recvr.stop()
	var httpr *httpRunner
	defer func() {
		if httpr != nil {
			httpr.close()
		}
	}()
	emit := func(c hlib.Case) {
		fatal := false
		for i, m := range c.Monitors {
			if m == fatalMark {
				fatal = true
				c.Monitors = append(c.Monitors[:i], c.Monitors[i+1:]...)
				break
			}
		}
		em.Emit(c)
		if fatal {
			// a goroutine of the implementation is spinning or blocked for good: the case is
			// reported (monitor), later cases would only measure the damage
			em.Close()
			fmt.Fprintln(os.Stderr, "c03: implementation wedged, stopping after case", c.Class)
			os.Exit(0)
		}
	}
	runOne := func(in input) {
		// announce the input: if the implementation kills the whole process (fatal error, stack
		// overflow) the driver reports the tail of stderr as the crashing case
		if b, err := json.Marshal(in); err == nil {
			if len(b) > 1500 {
				b = append(b[:1500], []byte("...(truncated)")...)
			}
			fmt.Fprintf(os.Stderr, "c03: next input %s\n", b)
		}
		switch in.Kind {
		case "lex":
			emit(lexr.run(in))
		case "dgram":
			emit(runDgram(in))
		case "recv", "burst", "chain":
			emit(recvr.run(in))
		case "http":
			if httpr == nil {
				httpr = newHTTPRunner()
			}
			emit(httpr.run(in))
		default:
			fmt.Fprintln(os.Stderr, "unknown case kind", in.Kind)
			os.Exit(2)
		}
	}
	switch a.Mode {
	case "gen":
		r := hlib.NewRand(a.Seed)
		g := newGen(r, a.Tier)
		for i := 0; i < a.N; i++ {
			runOne(g.next(i))
		}
	case "run":
		for _, raw := range a.Inputs {
			var in input
			if err := json.Unmarshal(raw, &in); err != nil {
				fmt.Fprintln(os.Stderr, "bad input:", err)
				os.Exit(2)
			}
			runOne(in)
		}
	}
}
