// C03: no network input can crash ingestion.
//
// Three kinds of cases (constructors of GS.Corr.C03.c03case):
//
//	lex    one hostile line through the real lexer entry point under recover()  -> KLex
//	dgram  one whole datagram through a real statsd.DatagramParser              -> KDgram
//	http   one request to the real ingestion router (web.NewHttpServer)         -> KHttp
//
// Every case is rebuilt from its `input` alone (`run -inputs`).
package main

import (
	"encoding/json"
	"fmt"
	"io"
	"os"

	"github.com/sirupsen/logrus"

	"verifharness/hlib"
)

type input struct {
	Kind  string `json:"kind"`  // lex | dgram | http
	Class string `json:"class"` // generator stream / shape
	NS    string `json:"ns,omitempty"`
	Data  []int  `json:"data"` // the line, the datagram, or the request body

	// dgram
	LogBad bool `json:"logbad,omitempty"` // bad-line logging enabled (rate limit off)
	// http
	Ep       string `json:"ep,omitempty"`       // raw | event
	Enc      string `json:"enc,omitempty"`      // Content-Encoding header value
	NoEnc    bool   `json:"noenc,omitempty"`    // header absent
	ReadFail string `json:"readfail,omitempty"` // "" | short (declared length > bytes sent) | badchunk
}

func main() {
	logrus.SetOutput(io.Discard)
	a := hlib.ParseArgs()
	em := hlib.NewEmitter()
	defer em.Close()
	lexr := newLexRunner()
	var httpr *httpRunner
	defer func() {
		if httpr != nil {
			httpr.close()
		}
	}()
	runOne := func(in input) {
		switch in.Kind {
		case "lex":
			em.Emit(lexr.run(in))
		case "dgram":
			em.Emit(runDgram(in))
		case "http":
			if httpr == nil {
				httpr = newHTTPRunner()
			}
			em.Emit(httpr.run(in))
		default:
			fmt.Fprintln(os.Stderr, "unknown case kind", in.Kind)
			os.Exit(2)
		}
	}
	switch a.Mode {
	case "gen":
		r := hlib.NewRand(a.Seed)
		g := newGen(r, a.Tier)
		for i := 0; i < a.N; i++ {
			runOne(g.next(i))
		}
	case "run":
		for _, raw := range a.Inputs {
			var in input
			if err := json.Unmarshal(raw, &in); err != nil {
				fmt.Fprintln(os.Stderr, "bad input:", err)
				os.Exit(2)
			}
			runOne(in)
		}
	}
}
