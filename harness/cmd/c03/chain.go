package main

// chain stream: the ingestion endpoints routed into the REAL pipeline a standalone server puts
// behind them (TagHandler -> BackendHandler -> aggregator workers -> flush to a backend), in the
// child worker process.  What ingestion accepts has to be digestible downstream: a worker
// goroutine has no recover, so a value that only blows up there kills the process after the
// request was answered 202.  The requests of a case revisit the same few series.

import (
	"context"
	"fmt"
	"io"
	"sync/atomic"
	"time"

	"github.com/sirupsen/logrus"
	"github.com/spf13/viper"

	"github.com/atlassian/gostatsd"
	"github.com/atlassian/gostatsd/pkg/stats"
	"github.com/atlassian/gostatsd/pkg/statsd"
	"github.com/atlassian/gostatsd/pkg/web"

	"verifharness/hlib"
)

type sinkBackend struct{ flushes, series, events int64 }

func (b *sinkBackend) Name() string { return "verif-sink" }
func (b *sinkBackend) SendEvent(context.Context, *gostatsd.Event) error {
	atomic.AddInt64(&b.events, 1)
	return nil
}
func (b *sinkBackend) SendMetricsAsync(ctx context.Context, mm *gostatsd.MetricMap, cb gostatsd.SendCallback) {
	n := int64(0)
	mm.Counters.Each(func(string, string, gostatsd.Counter) { n++ })
	mm.Gauges.Each(func(string, string, gostatsd.Gauge) { n++ })
	mm.Timers.Each(func(string, string, gostatsd.Timer) { n++ })
	mm.Sets.Each(func(_, _ string, s gostatsd.Set) { n += int64(len(s.Values)) * 0; n++ })
	atomic.AddInt64(&b.series, n)
	atomic.AddInt64(&b.flushes, 1)
	cb(nil)
}

// countingPipe counts what ingestion dispatches and passes it on.
type countingPipe struct {
	n    int64
	next gostatsd.PipelineHandler
}

func (p *countingPipe) DispatchMetricMap(ctx context.Context, mm *gostatsd.MetricMap) {
	atomic.AddInt64(&p.n, 1)
	p.next.DispatchMetricMap(ctx, mm)
}
func (p *countingPipe) DispatchEvent(ctx context.Context, e *gostatsd.Event) {
	atomic.AddInt64(&p.n, 1)
	p.next.DispatchEvent(ctx, e)
}
func (p *countingPipe) EstimatedTags() int { return p.next.EstimatedTags() }
func (p *countingPipe) WaitForEvents()     { p.next.WaitForEvents() }

func runChain(in input) hlib.Case {
	bodies := in.Data.datagrams()
	c := hlib.Case{Input: in}
	if len(bodies) == 0 || len(in.Reqs) == 0 {
		c.Class = in.Class + "/empty"
		return c
	}
	workers := in.Workers
	if workers < 1 {
		workers = 1
	}
	logger := logrus.New()
	logger.SetOutput(io.Discard)
	ctx, cancel := context.WithCancel(context.Background())
	defer cancel()
	be := &sinkBackend{}
	af := statsd.AggregatorFactoryFunc(func() statsd.Aggregator {
		return statsd.NewMetricAggregator([]float64{90}, 5*time.Minute, 5*time.Minute, 5*time.Minute, 5*time.Minute, gostatsd.TimerSubtypes{}, 1000)
	})
	bh := statsd.NewBackendHandler([]gostatsd.Backend{be}, 4, workers, 64, af)
	go bh.Run(ctx)
	var tags gostatsd.Tags
	if in.StaticTags {
		tags = gostatsd.Tags{"env:verif", "region:x"}
	}
	pipe := &countingPipe{next: statsd.NewTagHandlerFromViper(viper.New(), bh, tags)}
	hs, err := web.NewHttpServer(logger, pipe, "verif-chain", "127.0.0.1:0", false, false, true, false, nil, nil)
	if err != nil {
		panic(err)
	}
	br := &burstRunner{router: hs.Router}
	flusher := statsd.NewMetricFlusher(time.Second, 0, false, bh, []gostatsd.Backend{be})
	drainAndFlush := func() string {
		for t0 := time.Now(); bh.VerifC01Queued() > 0; time.Sleep(100 * time.Microsecond) {
			if time.Since(t0) > stepTimeout {
				return "aggregator workers did not take the dispatched maps"
			}
		}
		done := make(chan struct{})
		go func() { flusher.VerifC01FlushData(ctx, time.Second, stats.NewNullStatser()); close(done) }()
		select {
		case <-done:
			return ""
		case <-time.After(stepTimeout):
			return "flush did not return"
		}
	}
	var reqs []string
	var obsReqs []map[string]interface{}
	for i, b := range bodies {
		m := in.Reqs[i%len(in.Reqs)]
		body := []byte(b)
		st := br.serve(m.Ep, m.Enc, m.NoEnc, body)
		enc := m.Enc
		if m.NoEnc {
			enc = ""
		}
		zout, zok := viaZlib(body)
		lout, lok := viaLz4(body)
		epc := "EpRaw"
		if m.Ep == "event" {
			epc = "EpEvent"
		}
		oracle := hlib.App("WO", "true", optBool(m.Ep, zout, zok), optBool(m.Ep, lout, lok), hlib.Bool(unmarshals(m.Ep, body)))
		reqs = append(reqs, "("+epc+", "+hlib.Bytes(enc)+", "+oracle+", "+hlib.List([]string{hlib.N(uint64(st))})+", "+hlib.N(1)+")")
		obsReqs = append(obsReqs, map[string]interface{}{"ep": m.Ep, "enc": enc, "body_len": len(body), "status": st})
		if st == 0 {
			c.Monitors = append(c.Monitors, fmt.Sprintf("request %d got no HTTP status (handler panic)", i))
		}
		if in.FlushEvery > 0 && (i+1)%in.FlushEvery == 0 {
			if f := drainAndFlush(); f != "" {
				c.Monitors = append(c.Monitors, f, fatalMark)
				break
			}
		}
	}
	nd := atomic.LoadInt64(&pipe.n)
	c.Coq = hlib.App("KBurst", hlib.List(reqs), hlib.N(uint64(nd)))
	if f := drainAndFlush(); f != "" {
		c.Monitors = append(c.Monitors, f, fatalMark)
	}
	// later input is still processed, all the way to the backend
	before := atomic.LoadInt64(&be.series)
	if st := br.serve("raw", "", true, chainProbe); st != 202 {
		c.Monitors = append(c.Monitors, fmt.Sprintf("valid request after the case: status %d", st))
	} else if f := drainAndFlush(); f != "" {
		c.Monitors = append(c.Monitors, "after the case: "+f, fatalMark)
	} else if atomic.LoadInt64(&be.series) <= before {
		c.Monitors = append(c.Monitors, "a valid request after the case did not reach the backend")
	}
	pipe.WaitForEvents()
	c.Obs = map[string]interface{}{"requests": obsReqs, "dispatched": nd, "workers": workers, "series_flushed": atomic.LoadInt64(&be.series), "flushes": atomic.LoadInt64(&be.flushes)}
	c.Class = in.Class
	c.Nontrivial = nd >= 2
	return c
}
