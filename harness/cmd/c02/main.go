// C02: the line parser accepts exactly the documented grammar and extracts its fields.
// Runs the real lexer on grammar-generated and malformed lines (no NUL bytes: C02's
// quantifier) and emits the observation together with the strconv oracle table.
package main

import (
	"encoding/json"
	"fmt"
	"os"
	"strings"

	"github.com/atlassian/gostatsd/verifhooks"

	"verifharness/hlib"
	"verifharness/lexgen"
)

type input struct {
	NS     string `json:"ns"`
	Line   []int  `json:"line"`
	Stream string `json:"stream"`
	Class  string `json:"class"`
}

var namespaces = []string{"", "", "", "ns", "a.b", "x_y"}

func main() {
	a := hlib.ParseArgs()
	em := hlib.NewEmitter()
	defer em.Close()
	ll := verifhooks.NewLineLexer(4)
	runOne := func(in input) {
		line := lexgen.FromInts(in.Line)
		o := lexgen.Lex(ll, line, in.NS)
		c := hlib.Case{Input: in, Obs: map[string]interface{}{"text": fmt.Sprintf("%q", line), "result": o}, Class: in.Class + "/" + o.Kind}
		c.Coq = lexgen.LexCase(in.NS, line, o)
		if o.Kind == "panic" {
			c.Monitors = append(c.Monitors, "lexer panicked: "+o.Err)
		}
		if o.Kind == "metric" && strings.HasPrefix(line, "_") {
			c.Monitors = append(c.Monitors, "line starting with '_' accepted as a metric")
		}
		c.Nontrivial = (o.Kind != "reject" && strings.Count(line, "|") >= 2) || (o.Kind == "reject" && strings.HasPrefix(in.Class, "mutated"))
		em.Emit(c)
	}
	switch a.Mode {
	case "gen":
		r := hlib.NewRand(a.Seed)
		for i := 0; i < a.N; i++ {
			stream := "grammar"
			if i%3 == 2 {
				stream = "malformed"
			}
			var line, class string
			if i%8 == 7 { // own streams, see extra.go
				stream = "extra"
				line, class = extraLine(r)
			} else if i%8 == 3 {
				stream = "numeral"
				line, class = numeralLine(r)
			} else {
				line, class = lexgen.Line(r, stream)
			}
			runOne(input{NS: hlib.Pick(r, namespaces), Line: lexgen.ToInts(line), Stream: stream, Class: class})
		}
	case "run":
		for _, raw := range a.Inputs {
			var in input
			if err := json.Unmarshal(raw, &in); err != nil {
				fmt.Fprintln(os.Stderr, "bad input:", err)
				os.Exit(2)
			}
			runOne(in)
		}
	}
}
