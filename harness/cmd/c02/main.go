// C02: the line parser accepts exactly the documented grammar and extracts its fields.
// Runs the real lexer on grammar-generated and malformed lines (no NUL bytes: C02's
// quantifier) and emits the observation together with the strconv oracle table.
package main

import (
	"encoding/json"
	"fmt"
	"os"
	"strings"

	"github.com/atlassian/gostatsd/verifhooks"

	"verifharness/hlib"
	"verifharness/lexgen"
)

type input struct {
	NS     string      `json:"ns"`
	Line   []int       `json:"line"`
	Stream string      `json:"stream"`
	Class  string      `json:"class"`
	Held   *heldScript `json:"held,omitempty"` // stream "held": the script around the line, see held.go
}

var namespaces = []string{"", "", "", "ns", "a.b", "x_y"}

func main() {
	a := hlib.ParseArgs()
	em := hlib.NewEmitter()
	defer em.Close()
	ll := verifhooks.NewLineLexer(4)
	runOne := func(in input) {
		line := lexgen.FromInts(in.Line)
		var o lexgen.Observation
		var heldMonitors []string
		if in.Held != nil {
			o, heldMonitors = runHeld(in.Held, line, in.NS)
		} else {
			o = lexgen.Lex(ll, line, in.NS)
		}
		c := hlib.Case{Input: in, Obs: map[string]interface{}{"text": fmt.Sprintf("%q", line), "result": o}, Class: in.Class + "/" + o.Kind}
		c.Coq = lexgen.LexCase(in.NS, line, o)
		c.Monitors = append(c.Monitors, heldMonitors...)
		if o.Kind == "panic" {
			c.Monitors = append(c.Monitors, "lexer panicked: "+o.Err)
		}
		if o.Kind == "metric" && strings.HasPrefix(line, "_") {
			c.Monitors = append(c.Monitors, "line starting with '_' accepted as a metric")
		}
		c.Nontrivial = (o.Kind != "reject" && strings.Count(line, "|") >= 2) || (o.Kind == "reject" && strings.HasPrefix(in.Class, "mutated"))
		em.Emit(c)
	}
	switch a.Mode {
	case "gen":
		r := hlib.NewRand(a.Seed)
		var heldQueue []input
		for i := 0; i < a.N; i++ {
			if i%8 == 5 || i%8 == 1 { // results held across a batch, see held.go
				if len(heldQueue) == 0 {
					heldQueue = heldScriptGen(r)
				}
				runOne(heldQueue[0])
				heldQueue = heldQueue[1:]
				continue
			}
			stream := "grammar"
			if i%3 == 2 {
				stream = "malformed"
			}
			var line, class string
			if i%8 == 7 { // own streams, see extra.go
				stream = "extra"
				line, class = extraLine(r)
			} else if i%8 == 3 {
				stream = "numeral"
				line, class = numeralLine(r)
			} else {
				line, class = lexgen.Line(r, stream)
			}
			runOne(input{NS: hlib.Pick(r, namespaces), Line: lexgen.ToInts(line), Stream: stream, Class: class})
		}
	case "run":
		for _, raw := range a.Inputs {
			var in input
			if err := json.Unmarshal(raw, &in); err != nil {
				fmt.Fprintln(os.Stderr, "bad input:", err)
				os.Exit(2)
			}
			runOne(in)
		}
	}
}
