// Stream "held": results are HELD while later lines are lexed, as the datagram parser does
// (pkg/statsd/parser.go collects the *Metric of every line of a datagram and only the consumer
// calls Done()).  One real lexer with one real MetricPool (estimatedTags as configured in
// production: 0, 1, 2, 4, 8) lexes batches of 2-12 lines out of one shared datagram buffer;
// only after the last line of a batch is a held result snapshotted and compared with the
// model's lex of its own line; then every metric of the batch is Done(), so that later batches
// run on recycled metrics.  A result that is correct when returned but corrupted by a LATER
// line (shared tag buffers, a metric handed out twice) shows up here and nowhere else.
package main

import (
	"fmt"
	"strconv"
	"strings"

	"github.com/atlassian/gostatsd"
	"github.com/atlassian/gostatsd/verifhooks"

	"verifharness/hlib"
	"verifharness/lexgen"
)

// heldScript: Batches[B][I] is the line the case reports on (its bytes are input.Line, so that
// shrinking the line keeps the script around it); batches after B are not needed.
type heldScript struct {
	Est     int       `json:"est"`
	Batches [][][]int `json:"batches"`
	B       int       `json:"b"`
	I       int       `json:"i"`
}

var heldTypeNames = map[gostatsd.MetricType]string{gostatsd.COUNTER: "Counter", gostatsd.GAUGE: "Gauge", gostatsd.TIMER: "Timer", gostatsd.SET: "MSet"}

type heldResult struct {
	m   *gostatsd.Metric
	e   *gostatsd.Event
	err error
}

// runHeld executes the script up to and including batch B and returns the observation of line
// (B, I) taken after the whole batch was lexed, plus monitor messages.
func runHeld(h *heldScript, line string, ns string) (lexgen.Observation, []string) {
	var o lexgen.Observation
	var monitors []string
	msg := hlib.Recover(func() {
		ll := verifhooks.NewLineLexer(h.Est)
		// ONE receive buffer for the whole script, refilled for every batch (datagram) as the
		// server's receiver does: batch k overwrites batch k-1 at the same offsets, so anything
		// the lexer kept pointing into the buffer (instead of copying) now reads other bytes.
		size := len(line) + 1
		for _, b := range h.Batches {
			n := 0
			for _, l := range b {
				n += len(l) + 1
			}
			if n+len(line) > size {
				size = n + len(line) + 1
			}
		}
		recv := make([]byte, size)
		for bi := 0; bi <= h.B && bi < len(h.Batches); bi++ {
			lines := make([]string, len(h.Batches[bi]))
			for i, l := range h.Batches[bi] {
				lines[i] = lexgen.FromInts(l)
			}
			if bi == h.B && h.I < len(lines) {
				lines[h.I] = line
			}
			// the datagram is copied into the receive buffer; lines are handed to the lexer as
			// sub-slices of it (their capacity reaches to the end of the buffer, as in the parser)
			buf := recv[:copy(recv, strings.Join(lines, "\n"))]
			held := make([]heldResult, len(lines))
			off := 0
			for i, l := range lines {
				m, e, err := ll.LexLine(buf[off:off+len(l)], ns)
				held[i] = heldResult{m, e, err}
				off += len(l) + 1
			}
			if bi == h.B && h.I < len(held) {
				o = snapshot(held[h.I])
				if m := held[h.I].m; m != nil {
					if _, ok := heldTypeNames[m.Type]; !ok {
						monitors = append(monitors, fmt.Sprintf("held metric has the invalid type %d after the batch (it was reset or reused while held)", m.Type))
					}
				}
				for j, other := range held {
					if j != h.I && held[h.I].m != nil && other.m == held[h.I].m {
						monitors = append(monitors, fmt.Sprintf("the same *Metric was returned for lines %d and %d of one batch", h.I, j))
					}
				}
			}
			for _, r := range held { // the consumer is done with the batch
				if r.m != nil {
					r.m.Done()
				}
			}
		}
	})
	if msg != "" {
		o = lexgen.Observation{Kind: "panic", Err: msg, Coq: "OP"}
	}
	return o, monitors
}

func snapshot(r heldResult) lexgen.Observation {
	var o lexgen.Observation
	switch {
	case r.err != nil:
		o.Kind, o.Err, o.Coq = "reject", r.err.Error(), "OR"
	case r.m != nil:
		mc := *r.m
		mc.Tags = r.m.Tags.Copy()
		mc.DoneFunc = nil
		o.Kind, o.Metric = "metric", &mc
		o.Text = fmt.Sprintf("name=%q type=%v value=%v strval=%q rate=%v tags=%q", mc.Name, mc.Type, mc.Value, mc.StringValue, mc.Rate, []string(mc.Tags))
		ty, ok := heldTypeNames[mc.Type]
		if !ok {
			ty = "Counter" // keeps the term well typed; runHeld reports the invalid type as a monitor hit
		}
		o.Coq = hlib.App("OM", hlib.Bytes(mc.Name), ty, hlib.F64(mc.Value), hlib.Bytes(mc.StringValue), hlib.F64(mc.Rate), hlib.StrList(mc.Tags))
	case r.e != nil:
		ec := *r.e
		ec.Tags = r.e.Tags.Copy()
		o.Kind, o.Event = "event", &ec
		o.Text = fmt.Sprintf("%+v", ec)
		o.Coq = hlib.App("OE", hlib.Bytes(ec.Title), hlib.Bytes(ec.Text), hlib.Z(ec.DateHappened), hlib.Bytes(string(ec.Source)),
			hlib.Bytes(ec.AggregationKey), hlib.N(uint64(ec.Priority)), hlib.Bytes(ec.SourceTypeName), hlib.N(uint64(ec.AlertType)), hlib.StrList(ec.Tags))
	default:
		o.Kind, o.Err, o.Coq = "reject", "nil, nil, nil", "OR"
	}
	return o
}

// taggedMetric renders an accepted metric line with exactly k tags spread over 1-3 '#' fields.
func taggedMetric(r *hlib.Rand, k int) string {
	s := "m" + strconv.Itoa(r.Intn(1000)) + hlib.Pick(r, []string{"", ".x", "/y", " z"}) + ":" + strconv.Itoa(r.Range(0, 999)) + "|" + hlib.Pick(r, []string{"c", "g", "ms", "h", "s"})
	if r.Chance(1, 3) {
		s += "|@" + hlib.Pick(r, []string{"0.5", "0.1", "1", "2"})
	}
	for k > 0 {
		n := r.Range(1, k)
		ts := make([]string, n)
		for j := range ts {
			ts[j] = "t" + strconv.Itoa(r.Intn(100000)) + hlib.Pick(r, []string{"", ":v", ":" + strconv.Itoa(r.Intn(100))})
		}
		s += "|#" + strings.Join(ts, ",")
		k -= n
	}
	return s
}

// rejectedLine renders a line the lexer refuses, one generator per stage at which it can.
func rejectedLine(r *hlib.Rand) (string, string) {
	tags := hlib.Pick(r, []string{"", "|#a", "|#a,b,c", "|#a,b,c,d,e,f"})
	switch r.Intn(11) {
	case 0:
		return "nokeysep" + strconv.Itoa(r.Intn(100)), "held-rej-keysep"
	case 1:
		return hlib.Pick(r, []string{"!$%", "!", "@@"}) + ":1|c" + tags, "held-rej-emptykey"
	case 2:
		return "a" + strconv.Itoa(r.Intn(100)) + ":12", "held-rej-valuesep"
	case 3:
		return "a:1|" + hlib.Pick(r, []string{"x", "m", "mx", "", "C"}) + tags, "held-rej-type"
	case 4:
		return "a:1|" + hlib.Pick(r, []string{"cc", "gx", "msx", "c "}) + tags, "held-rej-aftertype"
	case 5:
		return "a:1|c" + tags + "|@" + hlib.Pick(r, []string{"x", "", "1e", "0x"}) + tags, "held-rej-rate"
	case 6:
		return "a:1|c" + tags + "|@" + hlib.Pick(r, []string{"0", "-1", "nan", "inf"}), "held-rej-ratevalue"
	case 7:
		return "a:" + hlib.Pick(r, []string{"x", "", "1e", "--1", "1e999"}) + "|" + hlib.Pick(r, []string{"c", "g", "ms"}) + tags, "held-rej-value"
	case 8:
		return "a:" + hlib.Pick(r, []string{"nan", "NaN"}) + "|g" + tags, "held-rej-nan"
	case 9:
		return hlib.Pick(r, []string{"_x:1|c", "_e{3,1}:ab|c", "_e{1,1}:a|b|p:high", "_", ""}), "held-rej-special"
	default:
		return lexgen.Mutate(r, lexgen.MetricLine(r), false), "held-mutated"
	}
}

type heldLine struct {
	line  string
	class string
}

// rate strings by length, valid and invalid, for refilled datagrams whose '@' fields keep their
// offsets and lengths from one datagram to the next
var validRates = map[int][]string{
	1: {"1", "2", "5", "3"},
	2: {".5", ".1", "1.", "2.", ".2"},
	3: {"0.5", "0.1", "0.2", "1.0", "2.5", "1e0", "1e1", "0.9"},
	4: {"0.25", "0.05", "0.75", "1e-3", "0.50", "1.00", "+0.5"},
	5: {"0.125", "0.001", "1.000", "0.5e0", "+0.25"},
}
var invalidRates = map[int][]string{
	0: {""},
	1: {"0", "x", "."},
	2: {"0x", "-1", "1e", ".0"},
	3: {"0.x", "nan", "0.0", "inf", "-.5"},
	4: {"0.0x", "+inf", "-1e3", "0.00", "-0.5"},
	5: {"0.12x", "-0.25", "0.000", "+-0.5"},
}

// rateOfLen draws a rate string of length n (valid 3 times out of 4 when one exists).
func rateOfLen(r *hlib.Rand, n int) string {
	if v := validRates[n]; len(v) > 0 && r.Chance(3, 4) {
		return hlib.Pick(r, v)
	}
	return hlib.Pick(r, invalidRates[n])
}

type rateLine struct {
	pre, post string
	rates     []string // '@' fields, in order, each followed by post
}

func (l rateLine) render() string {
	s := l.pre
	for _, rt := range l.rates {
		s += "|@" + rt + l.post
	}
	return s
}

// refillScript: 4-8 datagrams of 1-5 lines; each datagram is the previous one with some rate
// strings replaced, mostly by strings of the SAME length (same offsets in the receive buffer).
func refillScript(r *hlib.Rand) [][]heldLine {
	n := 1 // half of the scripts are one-line datagrams
	if r.Bool() {
		n = r.Range(2, 5)
	}
	cur := make([]rateLine, n)
	for i := range cur {
		cur[i] = rateLine{
			pre:  hlib.Pick(r, []string{"a", "req.count", "x/y z", "m" + strconv.Itoa(r.Intn(100))}) + ":" + strconv.Itoa(r.Range(1, 99)) + "|" + hlib.Pick(r, []string{"c", "c", "ms", "g", "h"}) + hlib.Pick(r, []string{"", "", "|#a", "|#a,b:c"}),
			post: hlib.Pick(r, []string{"", "", "|#t", "|#t:1,u"}),
		}
		for k := r.Range(1, 2); k > 0; k-- {
			cur[i].rates = append(cur[i].rates, rateOfLen(r, r.Range(1, 5)))
		}
	}
	var all [][]heldLine
	for b, nb := 0, r.Range(4, 8); b < nb; b++ {
		batch := make([]heldLine, n)
		for i := range cur {
			batch[i] = heldLine{cur[i].render(), "refill-rate"}
		}
		all = append(all, batch)
		for i := range cur { // next datagram
			for k := range cur[i].rates {
				switch c := r.Intn(8); {
				case c < 5: // same length, another string
					cur[i].rates[k] = rateOfLen(r, len(cur[i].rates[k]))
				case c < 6: // another length
					cur[i].rates[k] = rateOfLen(r, r.Range(0, 5))
				}
			}
			rates := append([]string(nil), cur[i].rates...)
			cur[i].rates = rates
		}
	}
	return all
}

// heldScriptGen draws a script and returns one (script, line, class) per line of every batch.
func heldScriptGen(r *hlib.Rand) []input {
	est := hlib.Pick(r, []int{0, 1, 2, 4, 8})
	nb := r.Range(2, 4)
	var all [][]heldLine
	if r.Bool() {
		all = refillScript(r)
		nb = len(all)
	}
	for b := 0; b < nb && len(all) < nb; b++ {
		n := r.Range(2, 12)
		batch := make([]heldLine, n)
		for i := range batch {
			switch k := r.Intn(10); {
			case k < 5:
				batch[i] = heldLine{taggedMetric(r, r.Intn(11)), "held-tags"}
			case k < 6:
				batch[i] = heldLine{lexgen.MetricLine(r), "held-metric"}
			case k < 7:
				batch[i] = heldLine{lexgen.EventLine(r, true), "held-event"}
			default:
				l, c := rejectedLine(r)
				batch[i] = heldLine{l, c}
			}
		}
		all = append(all, batch)
	}
	ints := make([][][]int, nb)
	for b := range all {
		ints[b] = make([][]int, len(all[b]))
		for i := range all[b] {
			ints[b][i] = lexgen.ToInts(all[b][i].line)
		}
	}
	ns := hlib.Pick(r, namespaces)
	var out []input
	for b := range all {
		for i := range all[b] {
			out = append(out, input{NS: ns, Line: ints[b][i], Stream: "held", Class: all[b][i].class,
				Held: &heldScript{Est: est, Batches: ints[:b+1], B: b, I: i}})
		}
	}
	return out
}
