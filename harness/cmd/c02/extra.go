// Additional C02 generator streams (kept here because harness/lexgen is shared and frozen).
// They close holes the seeded mutants of notes/C02.md pointed at: byte values that lexgen's
// name classes never draw, numerals with leading zeros (the lexer accepts them:
// C02_grammar_event_digits), and boundary shapes of the attribute list.
package main

import (
	"fmt"
	"strconv"
	"strings"

	"verifharness/hlib"
	"verifharness/lexgen"
)

// anyByteName draws a raw name from ALL byte values except NUL and ':'; first byte not '_'.
func anyByteName(r *hlib.Rand) string {
	n := r.Range(1, 16)
	b := make([]byte, 0, n)
	for len(b) < n {
		c := byte(r.Range(1, 255))
		if c == ':' || (len(b) == 0 && c == '_') {
			continue
		}
		b = append(b, c)
	}
	return string(b)
}

// boundaryByteName draws bytes adjacent to the limits of the kept classes:
// '/'(47) '0'(48) '9'(57) ':'(58, excluded) ';'(59) '@'(64) 'A' 'Z' '['(91) '`'(96) 'a' 'z' '{'(123),
// ','(44) '-'(45) '.'(46), '^'(94) '_'(95), blank, tab and their neighbours.
func boundaryByteName(r *hlib.Rand) string {
	const set = "/09;@AZ[`az{,-.^_ \t\n\x1f!\x08"
	n := r.Range(1, 10)
	b := make([]byte, n)
	for i := range b {
		b[i] = set[r.Intn(len(set))]
	}
	if b[0] == '_' {
		b[0] = '^'
	}
	return string(b)
}

func zeros(r *hlib.Rand) string { return strings.Repeat("0", r.Range(0, 3)) }

// zeroPaddedEvent renders a valid event whose length numerals and date carry leading zeros.
func zeroPaddedEvent(r *hlib.Rand) string {
	title := lexgen.Tag(r)
	text := lexgen.Tag(r) + hlib.Pick(r, []string{"", "\\n", "|x", "\\nab\\n", "\\", "\\\\n"})
	s := fmt.Sprintf("_e{%s%d,%s%d}:%s|%s", zeros(r), len(title), zeros(r), len(text), title, text)
	if r.Bool() {
		s += "|d:" + zeros(r) + strconv.Itoa(r.Range(0, 1<<31))
	}
	if r.Bool() {
		s += "|#" + lexgen.Tag(r) + "," + lexgen.Tag(r)
	}
	return s
}

// ratesAndTags renders a metric line whose attribute list is long and made of '@' and '#'
// fields only (last-rate-wins and tag order over several fields), with good rates mostly.
func ratesAndTags(r *hlib.Rand) string {
	good := []string{"0.1", "1", "0.5", "0.25", "1e-3", "2", "0x1p-1"}
	var sb strings.Builder
	sb.WriteString(lexgen.RawName(r) + ":" + strconv.Itoa(r.Range(-50, 500)) + "|" + hlib.Pick(r, []string{"c", "g", "ms", "h"}))
	n := r.Range(2, 7)
	for i := 0; i < n; i++ {
		if r.Bool() {
			s := hlib.Pick(r, good)
			if r.Chance(1, 12) {
				s = hlib.Pick(r, []string{"0", "nan", "-0.5", "x", ""})
			}
			sb.WriteString("|@" + s)
		} else {
			nt := r.Range(0, 4)
			ts := make([]string, nt)
			for j := range ts {
				ts[j] = lexgen.Tag(r)
			}
			sb.WriteString("|#" + strings.Join(ts, ","))
		}
	}
	return sb.String()
}

// typeField renders name:value|<tok><rest> with type tokens followed by bytes other than '|'.
func typeField(r *hlib.Rand) string {
	tok := hlib.Pick(r, []string{"c", "g", "ms", "h", "s", "m", "mss", "cg", "sc", "hh", "c#a", "g@1", "ms,", "S", "Ms", "mS", "", "c|", "ms|", "h|#t", "s|@1"})
	return lexgen.RawName(r) + ":" + hlib.Pick(r, []string{"1", "2.5", "x"}) + "|" + tok
}

// fullEvent renders a valid event with 2-6 attributes drawn from every kind with valid values
// (each alert type and priority, repeated kinds: the later one wins) and several "\\n" pairs.
func fullEvent(r *hlib.Rand) string {
	title := lexgen.Tag(r)
	text := ""
	for i, k := 0, r.Range(1, 4); i < k; i++ {
		text += lexgen.Tag(r) + hlib.Pick(r, []string{"\\n", "\\n", "\\", "n", "\\n\\n", "|"})
	}
	s := fmt.Sprintf("_e{%d,%d}:%s|%s", len(title), len(text), title, text)
	for i, k := 0, r.Range(2, 6); i < k; i++ {
		switch r.Intn(7) {
		case 0:
			s += "|d:" + strconv.Itoa(r.Range(0, 1<<31))
		case 1:
			s += "|h:" + lexgen.Tag(r)
		case 2:
			s += "|k:" + lexgen.Tag(r)
		case 3:
			s += "|p:" + hlib.Pick(r, []string{"low", "normal"})
		case 4:
			s += "|s:" + lexgen.Tag(r)
		case 5:
			s += "|t:" + hlib.Pick(r, []string{"info", "warning", "error", "success"})
		default:
			s += "|#" + lexgen.Tag(r) + "," + lexgen.Tag(r)
		}
	}
	return s
}

func extraLine(r *hlib.Rand) (string, string) {
	tail := "|" + hlib.Pick(r, []string{"c", "g", "ms", "h", "s"}) + hlib.Pick(r, []string{"", "|@0.5", "|#a,b", "|#a|@0.1"})
	switch r.Intn(7) {
	case 6:
		return fullEvent(r), "event-full"
	case 0:
		return anyByteName(r) + ":" + strconv.Itoa(r.Range(0, 99)) + tail, "metric-anybyte-name"
	case 1:
		return boundaryByteName(r) + ":" + strconv.Itoa(r.Range(0, 99)) + tail, "metric-boundary-name"
	case 2:
		return zeroPaddedEvent(r), "event-zero-padded"
	case 3:
		return ratesAndTags(r), "metric-rates-tags"
	case 4:
		return typeField(r), "metric-type-field"
	default:
		// value and set-member strings from all bytes except NUL and '|'
		n := r.Range(0, 8)
		b := make([]byte, 0, n)
		for len(b) < n {
			c := byte(r.Range(1, 255))
			if c != '|' {
				b = append(b, c)
			}
		}
		return lexgen.RawName(r) + ":" + string(b) + "|" + hlib.Pick(r, []string{"s", "s", "c", "g"}) + hlib.Pick(r, []string{"", "|#x"}), "metric-anybyte-value"
	}
}
