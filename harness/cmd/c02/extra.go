// Additional C02 generator streams (kept here because harness/lexgen is shared and frozen).
// They close holes the seeded mutants of notes/C02.md pointed at: byte values that lexgen's
// name classes never draw, numerals with leading zeros (the lexer accepts them:
// C02_grammar_event_digits), and boundary shapes of the attribute list.
package main

import (
	"fmt"
	"strconv"
	"strings"

	"verifharness/hlib"
	"verifharness/lexgen"
)

// anyByteName draws a raw name from ALL byte values except NUL and ':'; first byte not '_'.
func anyByteName(r *hlib.Rand) string {
	n := r.Range(1, 16)
	b := make([]byte, 0, n)
	for len(b) < n {
		c := byte(r.Range(1, 255))
		if c == ':' || (len(b) == 0 && c == '_') {
			continue
		}
		b = append(b, c)
	}
	return string(b)
}

// boundaryByteName draws bytes adjacent to the limits of the kept classes:
// '/'(47) '0'(48) '9'(57) ':'(58, excluded) ';'(59) '@'(64) 'A' 'Z' '['(91) '`'(96) 'a' 'z' '{'(123),
// ','(44) '-'(45) '.'(46), '^'(94) '_'(95), blank, tab and their neighbours.
func boundaryByteName(r *hlib.Rand) string {
	const set = "/09;@AZ[`az{,-.^_ \t\n\x1f!\x08"
	n := r.Range(1, 10)
	b := make([]byte, n)
	for i := range b {
		b[i] = set[r.Intn(len(set))]
	}
	if b[0] == '_' {
		b[0] = '^'
	}
	return string(b)
}

func zeros(r *hlib.Rand) string { return strings.Repeat("0", r.Range(0, 3)) }

// zeroPaddedEvent renders a valid event whose length numerals and date carry leading zeros.
func zeroPaddedEvent(r *hlib.Rand) string {
	title := lexgen.Tag(r)
	text := lexgen.Tag(r) + hlib.Pick(r, []string{"", "\\n", "|x", "\\nab\\n", "\\", "\\\\n"})
	s := fmt.Sprintf("_e{%s%d,%s%d}:%s|%s", zeros(r), len(title), zeros(r), len(text), title, text)
	if r.Bool() {
		s += "|d:" + zeros(r) + strconv.Itoa(r.Range(0, 1<<31))
	}
	if r.Bool() {
		s += "|#" + lexgen.Tag(r) + "," + lexgen.Tag(r)
	}
	return s
}

// ratesAndTags renders a metric line whose attribute list is long and made of '@' and '#'
// fields only (last-rate-wins and tag order over several fields), with good rates mostly.
func ratesAndTags(r *hlib.Rand) string {
	good := []string{"0.1", "1", "0.5", "0.25", "1e-3", "2", "0x1p-1"}
	var sb strings.Builder
	sb.WriteString(lexgen.RawName(r) + ":" + strconv.Itoa(r.Range(-50, 500)) + "|" + hlib.Pick(r, []string{"c", "g", "ms", "h"}))
	n := r.Range(2, 7)
	for i := 0; i < n; i++ {
		if r.Bool() {
			s := hlib.Pick(r, good)
			if r.Chance(1, 12) {
				s = hlib.Pick(r, []string{"0", "nan", "-0.5", "x", ""})
			}
			sb.WriteString("|@" + s)
		} else {
			nt := r.Range(0, 4)
			ts := make([]string, nt)
			for j := range ts {
				ts[j] = lexgen.Tag(r)
			}
			sb.WriteString("|#" + strings.Join(ts, ","))
		}
	}
	return sb.String()
}

// typeField renders name:value|<tok><rest> with type tokens followed by bytes other than '|'.
func typeField(r *hlib.Rand) string {
	tok := hlib.Pick(r, []string{"c", "g", "ms", "h", "s", "m", "mss", "cg", "sc", "hh", "c#a", "g@1", "ms,", "S", "Ms", "mS", "", "c|", "ms|", "h|#t", "s|@1"})
	return lexgen.RawName(r) + ":" + hlib.Pick(r, []string{"1", "2.5", "x"}) + "|" + tok
}

// fullEvent renders a valid event with 2-6 attributes drawn from every kind with valid values
// (each alert type and priority, repeated kinds: the later one wins) and several "\\n" pairs.
func fullEvent(r *hlib.Rand) string {
	title := lexgen.Tag(r)
	text := ""
	for i, k := 0, r.Range(1, 4); i < k; i++ {
		text += lexgen.Tag(r) + hlib.Pick(r, []string{"\\n", "\\n", "\\", "n", "\\n\\n", "|"})
	}
	s := fmt.Sprintf("_e{%d,%d}:%s|%s", len(title), len(text), title, text)
	for i, k := 0, r.Range(2, 6); i < k; i++ {
		switch r.Intn(7) {
		case 0:
			s += "|d:" + strconv.Itoa(r.Range(0, 1<<31))
		case 1:
			s += "|h:" + lexgen.Tag(r)
		case 2:
			s += "|k:" + lexgen.Tag(r)
		case 3:
			s += "|p:" + hlib.Pick(r, []string{"low", "normal"})
		case 4:
			s += "|s:" + lexgen.Tag(r)
		case 5:
			s += "|t:" + hlib.Pick(r, []string{"info", "warning", "error", "success"})
		default:
			s += "|#" + lexgen.Tag(r) + "," + lexgen.Tag(r)
		}
	}
	return s
}

// ---------------------------------------------------------------------------------------
// boundary numerals (stream "numeral"): strings on which a hand-written number parser and
// strconv.ParseFloat are most likely to differ.  The oracle table decides what is right.

var numeralCores = []string{
	"9007199254740991", "9007199254740992", "9007199254740993", "9007199254740994", // 2^53
	"2147483647", "2147483648", "4294967295", "4294967296", "4294967297",
	"9223372036854775806", "9223372036854775807", "9223372036854775808", "9223372036854775809", // 2^63
	"18446744073709551614", "18446744073709551615", "18446744073709551616", "18446744073709551617", // 2^64
	"18446744073709551625", "18446744073709552000", "1844674407370955161", "184467440737095516150", "36893488147419103232",
	"9999999999999999999", "10000000000000000000", "10000000000000000001", // 10^19
	"19999999999999999999", "20000000000000000000", "20000000000000000001", "27670116110564327424",
	"99999999999999999999", "100000000000000000000", "100000000000000000001", // 10^20
	"123456789012345678901234567890", "340282366920938463463374607431768211456",
	// 20-digit numerals whose uint64 accumulation wrapped WITHOUT tripping lexUint's former
	// `n < value` test (defect D11, fixed in 162b292: they must be rejected), and neighbours
	"21000000000000000000", "27000000000000000000", "20496382304121724020", "20496382304121724010", "27670116110564327420", "27670116110564327430",
}

var specialNumerals = []string{
	"1e308", "1e309", "-1e309", "1.7976931348623157e308", "1.7976931348623158e308", "1.7976931348623159e308", "17976931348623157e292",
	"1e-323", "1e-324", "4.9e-324", "5e-324", "2.4703282292062327e-324", "2.4703282292062328e-324", "1e-400", "-1e-400", "1e400", "1e+19", "1e19", "1e20", "2e19", "1.8446744073709551616e19",
	"0x1p-1074", "0x1p-1075", "0x1p1023", "0x1p1024", "0x1.fffffffffffffp1023", "0x1.fffffffffffff8p1023", "0x10000000000000000p0", "0xffffffffffffffffp0", "0X1P+4", "0x1p", "0x1", "0x.8p1", "0x1_0p0", "0x_1p0", "0b1", "0o7", "1_000", "1__0", "_1", "1_",
	"inf", "Inf", "INF", "iNf", "+inf", "-Inf", "+INF", "infinity", "Infinity", "INFINITY", "+infinity", "-iNfInItY", "infinit", "infinityx", "in", "i",
	"nan", "NaN", "NAN", "nAn", "+nan", "-nan", "+NaN", "nan0", "na", "n",
	".", "+", "-", "+.", "e", "e0", ".e0", "0e", "0e+", "1e+", "1E-", "+-1", "-+1", "++1", "1.2.3", "1e2e3", "1e2.5", "0x", "٣", "１", "1,5", "1 5",
}

func digitsN(r *hlib.Rand, n int) string {
	b := make([]byte, n)
	for i := range b {
		b[i] = byte('0' + r.Intn(10))
	}
	if n > 0 && b[0] == '0' && r.Bool() {
		b[0] = byte('1' + r.Intn(9))
	}
	return string(b)
}

// BoundaryNumeral draws one numeral string.
func boundaryNumeral(r *hlib.Rand) string {
	var core string
	switch k := r.Intn(20); {
	case k < 8:
		core = hlib.Pick(r, numeralCores)
	case k < 11:
		core = digitsN(r, r.Range(15, 25))
	case k < 12:
		core = digitsN(r, r.Range(30, 400))
	case k < 13:
		core = "1" + strings.Repeat("0", r.Range(15, 25))
	case k < 14:
		core = strings.Repeat("9", r.Range(15, 25))
	case k < 15:
		core = digitsN(r, r.Range(1, 14))
	default:
		s := hlib.Pick(r, specialNumerals)
		if r.Chance(1, 4) {
			s = strings.ToUpper(s)
		}
		return s
	}
	if r.Chance(1, 3) { // leading zeros, possibly enough to cross a length limit
		z := hlib.Pick(r, []int{1, 1, 2, 3, 5, 20 - len(core), 21 - len(core), 19 - len(core), 40})
		if z < 1 {
			z = 1
		}
		core = strings.Repeat("0", z) + core
	}
	if r.Chance(1, 4) {
		core = hlib.Pick(r, []string{"+", "-", "+", "-", " ", "+0", "-0"}) + core
	}
	if r.Chance(1, 3) {
		core += hlib.Pick(r, []string{".0", ".", ".00", "e0", "E0", "e+0", "e-0", "e1", "e-1", ".5", ".0e0", "e+19", "e-19", "0", "00", " ", "f", "_0"})
	}
	if r.Chance(1, 25) && len(core) > 3 { // a '_' separator inside
		p := r.Range(1, len(core)-1)
		core = core[:p] + "_" + core[p:]
	}
	return core
}

func numeralLine(r *hlib.Rand) (string, string) {
	name := lexgen.RawName(r)
	ty := hlib.Pick(r, []string{"c", "c", "g", "ms", "h"})
	switch r.Intn(10) {
	case 0, 1, 2, 3, 4: // value
		tail := hlib.Pick(r, []string{"", "", "|@0.5", "|#a,b", "|@1|#t"})
		return name + ":" + boundaryNumeral(r) + "|" + ty + tail, "numeral-value"
	case 5, 6: // rate
		return name + ":" + strconv.Itoa(r.Range(0, 999)) + "|" + ty + hlib.Pick(r, []string{"", "|#a"}) + "|@" + boundaryNumeral(r), "numeral-rate"
	case 7: // both, and a set member (kept as a string, never converted)
		if r.Chance(1, 3) {
			return name + ":" + boundaryNumeral(r) + "|s", "numeral-set"
		}
		return name + ":" + boundaryNumeral(r) + "|" + ty + "|@" + boundaryNumeral(r) + "|@" + hlib.Pick(r, []string{"1", "0.5", boundaryNumeral(r)}), "numeral-value-rate"
	case 8: // event date and ignored numeric fields
		title, text := lexgen.Tag(r), lexgen.Tag(r)
		return fmt.Sprintf("_e{%d,%d}:%s|%s|d:%s%s", len(title), len(text), title, text, boundaryNumeral(r),
			hlib.Pick(r, []string{"", "|T" + boundaryNumeral(r), "|d:" + boundaryNumeral(r)})), "numeral-event-date"
	default: // event length numerals
		title, text := lexgen.Tag(r), lexgen.Tag(r)
		tl, xl := strconv.Itoa(len(title)), strconv.Itoa(len(text))
		if r.Bool() {
			tl = boundaryNumeral(r)
		} else {
			xl = boundaryNumeral(r)
		}
		return "_e{" + tl + "," + xl + "}:" + title + "|" + text, "numeral-event-length"
	}
}

func extraLine(r *hlib.Rand) (string, string) {
	tail := "|" + hlib.Pick(r, []string{"c", "g", "ms", "h", "s"}) + hlib.Pick(r, []string{"", "|@0.5", "|#a,b", "|#a|@0.1"})
	switch r.Intn(7) {
	case 6:
		return fullEvent(r), "event-full"
	case 0:
		return anyByteName(r) + ":" + strconv.Itoa(r.Range(0, 99)) + tail, "metric-anybyte-name"
	case 1:
		return boundaryByteName(r) + ":" + strconv.Itoa(r.Range(0, 99)) + tail, "metric-boundary-name"
	case 2:
		return zeroPaddedEvent(r), "event-zero-padded"
	case 3:
		return ratesAndTags(r), "metric-rates-tags"
	case 4:
		return typeField(r), "metric-type-field"
	default:
		// value and set-member strings from all bytes except NUL and '|'
		n := r.Range(0, 8)
		b := make([]byte, 0, n)
		for len(b) < n {
			c := byte(r.Range(1, 255))
			if c != '|' {
				b = append(b, c)
			}
		}
		return lexgen.RawName(r) + ":" + string(b) + "|" + hlib.Pick(r, []string{"s", "s", "c", "g"}) + hlib.Pick(r, []string{"", "|#x"}), "metric-anybyte-value"
	}
}
