// C18: aligned flushing happens exactly on interval boundaries.
//
// Runs the real internal/util.AlignedTicker (scenario "ticker": the harness is the consumer of
// C) and the real statsd.MetricFlusher.Run in aligned mode (scenario "flusher": a capturing
// AggregateProcesser whose flushes can be held) on a github.com/tilinna/clock mock clock, and
// drives them with a script of clock advancements.  After every operation the harness waits
// until the ticker goroutine and the flusher goroutine are parked (goroutine states read from
// runtime.Stack), so a script denotes exactly one interleaving and a run is deterministic.
//
// Instants are printed as nanoseconds since Go's zero time (year 1 UTC), computed from
// Time.Unix()/Nanosecond() with math/big, never with Time.Truncate.
package main

import (
	"context"
	"encoding/json"
	"fmt"
	"math"
	"math/big"
	"os"
	"regexp"
	"runtime"
	"strings"
	"sync"
	"time"

	"github.com/tilinna/clock"

	"github.com/atlassian/gostatsd"
	"github.com/atlassian/gostatsd/pkg/statsd"
	"github.com/atlassian/gostatsd/verifhooks"

	"verifharness/hlib"
)

type opIn struct {
	K string `json:"k"` // A (advance d ns) | C (read C) | H (hold next flush) | R (release) | E (as first op: advance d ns immediately after construction, before the goroutines have run; elsewhere = A)
	D int64  `json:"d,omitempty"`
}

type input struct {
	Scenario string `json:"scenario"` // ticker | flusher
	Start    string `json:"start"`    // ns since Go's zero time, decimal
	Interval int64  `json:"interval"`
	Offset   int64  `json:"offset"`
	Ops      []opIn `json:"ops"`
	Stream   string `json:"stream"`
	Style    string `json:"style"`
}

// ---------------------------------------------------------------------------------------
// time <-> big nanoseconds since the zero time

const zeroToUnixSec = 62135596800

var (
	bE9     = big.NewInt(1000000000)
	bMaxDur = big.NewInt(math.MaxInt64)
)

func bi(v int64) *big.Int { return big.NewInt(v) }

func absNS(t time.Time) *big.Int {
	s := bi(t.Unix())
	s.Add(s, bi(zeroToUnixSec))
	s.Mul(s, bE9)
	return s.Add(s, bi(int64(t.Nanosecond())))
}

func fromAbs(a *big.Int) time.Time {
	q, m := new(big.Int).DivMod(a, bE9, new(big.Int)) // Euclidean: 0 <= m < 1e9
	return time.Unix(q.Int64()-zeroToUnixSec, m.Int64())
}

func zb(b *big.Int) string { return "(" + b.String() + ")%Z" }

// emod is the floor modulus for a positive modulus.
func emod(a, m *big.Int) *big.Int { return new(big.Int).Mod(a, m) }

// ---------------------------------------------------------------------------------------
// recording clock: the mock clock, remembering the NewTimer / NewTicker calls

type clockCall struct {
	at *big.Int
	d  int64
}

type recClock struct {
	*clock.Mock
	mu      sync.Mutex
	timers  []clockCall
	tickers []clockCall
}

func (c *recClock) NewTimer(d time.Duration) *clock.Timer {
	at := absNS(c.Mock.Now())
	t := c.Mock.NewTimer(d)
	c.mu.Lock()
	c.timers = append(c.timers, clockCall{at, int64(d)})
	c.mu.Unlock()
	return t
}

func (c *recClock) NewTicker(d time.Duration) *clock.Ticker {
	at := absNS(c.Mock.Now())
	t := c.Mock.NewTicker(d)
	c.mu.Lock()
	c.tickers = append(c.tickers, clockCall{at, int64(d)})
	c.mu.Unlock()
	return t
}

// ---------------------------------------------------------------------------------------
// waiting for the goroutines of the implementation to park

var hdrRe = regexp.MustCompile(`^goroutine \d+ \[([^\]]*)\]`)

const (
	tickerFrame  = "util.(*AlignedTicker).start("
	flusherFrame = "statsd.(*MetricFlusher).Run("
	gateFrame    = "main.(*capProc).Process("
)

// snapshot returns the states of the ticker goroutines and of the flusher goroutines
// ("select", "chan receive", "runnable", ...; "gate" = blocked in the harness's gate).
func snapshot() (tick, flush []string) {
	buf := make([]byte, 1<<16)
	for {
		n := runtime.Stack(buf, true)
		if n < len(buf) {
			buf = buf[:n]
			break
		}
		buf = make([]byte, 2*len(buf))
	}
	for _, blk := range strings.Split(string(buf), "\n\n") {
		m := hdrRe.FindStringSubmatch(blk)
		if m == nil {
			continue
		}
		st := m[1]
		if strings.Contains(blk, tickerFrame) {
			tick = append(tick, st)
		}
		if strings.Contains(blk, flusherFrame) {
			if strings.HasPrefix(st, "chan receive") && strings.Contains(blk, gateFrame) {
				st = "gate"
			}
			flush = append(flush, st)
		}
	}
	return
}

var (
	currentInput string
	emitter      *hlib.Emitter
)

func wedged(what string) {
	if emitter != nil {
		emitter.Close()
	}
	buf := make([]byte, 1<<16)
	n := runtime.Stack(buf, true)
	fmt.Fprintf(os.Stderr, "C18 harness: goroutines did not %s within 20s\ninput: %s\n%s\n", what, currentInput, buf[:n])
	os.Exit(4)
}

func waitFor(what string, cond func(tick, flush []string) bool) {
	deadline := time.Now().Add(20 * time.Second)
	for spin := 0; ; spin++ {
		if cond(snapshot()) {
			return
		}
		if spin < 50 {
			runtime.Gosched()
		} else {
			time.Sleep(20 * time.Microsecond)
		}
		if spin%1000 == 999 && time.Now().After(deadline) {
			wedged(what)
		}
	}
}

// settle returns when the ticker goroutine is parked in one of the two selects of start and
// (flusher scenario) the flusher is parked in Run's select or in the harness's gate.
func settle(withFlusher bool) {
	waitFor("park", func(tick, flush []string) bool {
		if len(tick) != 1 || !strings.HasPrefix(tick[0], "select") {
			return false
		}
		if !withFlusher {
			return len(flush) == 0
		}
		return len(flush) == 1 && (strings.HasPrefix(flush[0], "select") || flush[0] == "gate")
	})
}

func gone() {
	waitFor("exit", func(tick, flush []string) bool { return len(tick) == 0 && len(flush) == 0 })
}

// ---------------------------------------------------------------------------------------
// capturing AggregateProcesser

type flushRec struct {
	at     *big.Int
	deltas []int64
}

type capProc struct {
	clk     *clock.Mock
	mu      sync.Mutex
	armed   bool
	blocked bool
	gate    chan struct{}
	recs    []*flushRec
}

const nAggregators = 2

func (p *capProc) Process(ctx context.Context, fn statsd.DispatcherProcessFunc) gostatsd.Wait {
	rec := &flushRec{at: absNS(p.clk.Now())}
	p.mu.Lock()
	p.recs = append(p.recs, rec)
	hold := p.armed
	p.armed = false
	if hold {
		p.blocked = true
	}
	p.mu.Unlock()
	if hold {
		<-p.gate
	}
	for w := 0; w < nAggregators; w++ {
		fn(w, &capAggr{p: p, rec: rec})
	}
	return func() {}
}

type capAggr struct {
	p   *capProc
	rec *flushRec
}

func (a *capAggr) ReceiveMap(mm *gostatsd.MetricMap) {}
func (a *capAggr) Flush(interval time.Duration) {
	a.p.mu.Lock()
	a.rec.deltas = append(a.rec.deltas, int64(interval))
	a.p.mu.Unlock()
}
func (a *capAggr) Process(statsd.ProcessFunc) {}
func (a *capAggr) Reset()                     {}

// ---------------------------------------------------------------------------------------
// running one case

type flushObs struct {
	At    *big.Int
	Delta *int64
}

type result struct {
	Timers   []clockCall
	Tickers  []clockCall
	Reads    []*big.Int // nil = C was empty
	ReadAt   []*big.Int // clock reading at each read of C
	Flushes  []flushObs
	Monitors []string
}

func runCase(in input) result {
	var res result
	start, ok := new(big.Int).SetString(in.Start, 10)
	if !ok || in.Interval <= 0 {
		fmt.Fprintln(os.Stderr, "bad input: start / interval")
		os.Exit(2)
	}
	clk := &recClock{Mock: clock.NewMock(fromAbs(start))}
	ctx, cancel := context.WithCancel(clock.Context(context.Background(), clk))
	interval, offset := time.Duration(in.Interval), time.Duration(in.Offset)
	fl := in.Scenario == "flusher"

	var ch <-chan time.Time
	var stop func()
	var proc *capProc
	ops := in.Ops
	early := len(ops) > 0 && ops[0].K == "E"
	if early && ops[0].D < 0 {
		fmt.Fprintln(os.Stderr, "bad input: negative advancement")
		os.Exit(2)
	}
	prevProcs := 0
	if early {
		// One P and no yield between construction and Add: the new goroutine cannot run before the
		// clock has moved.  (If it does anyway - asynchronous preemption - the recorded NewTimer call
		// tells the model which order happened.)
		prevProcs = runtime.GOMAXPROCS(1)
	}
	if fl {
		proc = &capProc{clk: clk.Mock, gate: make(chan struct{})}
		mf := statsd.NewMetricFlusher(interval, offset, true, proc, nil)
		go mf.Run(ctx)
	} else {
		ch, stop = verifhooks.VerifNewAlignedTicker(ctx, interval, offset)
	}
	if early {
		clk.Mock.Add(time.Duration(ops[0].D))
		runtime.GOMAXPROCS(prevProcs)
		ops = ops[1:]
	}
	settle(fl)

	release := func() {
		proc.mu.Lock()
		proc.armed = false
		b := proc.blocked
		proc.blocked = false
		proc.mu.Unlock()
		if b {
			proc.gate <- struct{}{}
		}
		settle(true)
	}
	for _, op := range ops {
		switch op.K {
		case "A", "E":
			if op.D < 0 {
				fmt.Fprintln(os.Stderr, "bad input: negative advancement")
				os.Exit(2)
			}
			clk.Add(time.Duration(op.D))
			settle(fl)
		case "C":
			if !fl {
				res.ReadAt = append(res.ReadAt, absNS(clk.Mock.Now()))
				select {
				case v := <-ch:
					res.Reads = append(res.Reads, absNS(v))
				default:
					res.Reads = append(res.Reads, nil)
				}
			}
		case "H":
			if fl {
				proc.mu.Lock()
				proc.armed = true
				proc.mu.Unlock()
			}
		case "R":
			if fl {
				release()
			}
		default:
			fmt.Fprintln(os.Stderr, "bad input: op", op.K)
			os.Exit(2)
		}
	}
	if fl {
		release()
		cancel()
	} else {
		stop()
		cancel()
	}
	gone()

	clk.mu.Lock()
	res.Timers, res.Tickers = clk.timers, clk.tickers
	clk.mu.Unlock()
	if fl {
		for k, rec := range proc.recs {
			fo := flushObs{At: rec.at}
			if len(rec.deltas) != nAggregators {
				res.Monitors = append(res.Monitors, fmt.Sprintf("flush %d: Aggregator.Flush called %d times for %d aggregators", k, len(rec.deltas), nAggregators))
			}
			for _, d := range rec.deltas {
				if d != rec.deltas[0] {
					res.Monitors = append(res.Monitors, fmt.Sprintf("flush %d: aggregators were given different intervals %v", k, rec.deltas))
				}
			}
			if k > 0 && len(rec.deltas) > 0 {
				d := rec.deltas[0]
				fo.Delta = &d
			}
			res.Flushes = append(res.Flushes, fo)
		}
	}
	res.Monitors = append(res.Monitors, directChecks(in, start, res)...)
	return res
}

// directChecks states the property on the observed values with big-integer arithmetic,
// independently of the Coq model and of time.Truncate.
func directChecks(in input, start *big.Int, res result) (mon []string) {
	i, o := bi(in.Interval), bi(in.Offset)
	onBoundary := func(t *big.Int) bool { return emod(new(big.Int).Sub(t, o), i).Sign() == 0 }
	if len(res.Timers) != 1 {
		mon = append(mon, fmt.Sprintf("clck.NewTimer called %d times", len(res.Timers)))
	} else {
		tm := res.Timers[0]
		if tm.d <= 0 || tm.d > in.Interval {
			mon = append(mon, fmt.Sprintf("initial wait %d not in (0, interval]", tm.d))
		}
		if !onBoundary(new(big.Int).Add(tm.at, bi(tm.d))) {
			mon = append(mon, fmt.Sprintf("timer deadline %s + %d is not on a boundary", tm.at, tm.d))
		}
	}
	if len(res.Tickers) > 1 {
		mon = append(mon, fmt.Sprintf("clck.NewTicker called %d times", len(res.Tickers)))
	}
	for _, tk := range res.Tickers {
		if tk.d != in.Interval {
			mon = append(mon, fmt.Sprintf("ticker period %d is not the interval", tk.d))
		}
	}
	var prev *big.Int
	for k, v := range res.Reads {
		if v == nil {
			continue
		}
		if k < len(res.ReadAt) && v.Cmp(res.ReadAt[k]) > 0 {
			mon = append(mon, fmt.Sprintf("tick %s was delivered before the clock reached it (clock %s)", v, res.ReadAt[k]))
		}
		if !onBoundary(v) {
			mon = append(mon, fmt.Sprintf("tick %s is not on a boundary", v))
		}
		if prev == nil {
			// start-up = the clock reading at which the ticker goroutine armed its timer (= start
			// unless the clock was advanced before the goroutine ran)
			base := start
			if len(res.Timers) == 1 {
				base = res.Timers[0].at
			}
			lim := new(big.Int).Add(base, i)
			if v.Cmp(base) <= 0 || v.Cmp(lim) > 0 {
				mon = append(mon, fmt.Sprintf("first tick %s is not within (start-up, start-up+interval], start-up = %s", v, base))
			}
		} else if v.Cmp(prev) <= 0 {
			mon = append(mon, fmt.Sprintf("tick %s does not exceed the previous tick %s", v, prev))
		}
		prev = v
	}
	for k, f := range res.Flushes {
		if f.Delta == nil {
			continue
		}
		d := *f.Delta
		if d <= 0 || (d != math.MaxInt64 && d%in.Interval != 0) {
			mon = append(mon, fmt.Sprintf("flush %d: interval %d handed to the aggregators is not a positive multiple of %d", k, d, in.Interval))
		}
	}
	return mon
}

func coqTerm(in input, start *big.Int, res result) string {
	ops := make([]string, len(in.Ops))
	for k, op := range in.Ops {
		switch op.K {
		case "A":
			ops[k] = hlib.App("OA", hlib.Z(op.D))
		case "E":
			ops[k] = hlib.App("OE", hlib.Z(op.D))
		case "C":
			ops[k] = "OC"
		case "H":
			ops[k] = "OH"
		default:
			ops[k] = "OR"
		}
	}
	arm := "None"
	if len(res.Timers) > 0 {
		arm = hlib.Option(hlib.Pair(zb(res.Timers[0].at), hlib.Z(res.Timers[0].d)), true)
	}
	nt := "None"
	if len(res.Tickers) > 0 {
		nt = hlib.Option(zb(res.Tickers[0].at), true)
	}
	reads := make([]string, len(res.Reads))
	for k, v := range res.Reads {
		if v == nil {
			reads[k] = "None"
		} else {
			reads[k] = hlib.Option(zb(v), true)
		}
	}
	fls := make([]string, len(res.Flushes))
	for k, f := range res.Flushes {
		d := "None"
		if f.Delta != nil {
			d = hlib.Option(hlib.Z(*f.Delta), true)
		}
		fls[k] = hlib.Pair(zb(f.At), d)
	}
	return hlib.App("TC", hlib.Bool(in.Scenario == "flusher"), zb(start), hlib.Z(in.Interval), hlib.Z(in.Offset),
		hlib.List(ops), arm, nt, hlib.List(reads), hlib.List(fls))
}

func runOne(em *hlib.Emitter, in input) {
	raw, _ := json.Marshal(in)
	currentInput = string(raw)
	res := runCase(in)
	start, _ := new(big.Int).SetString(in.Start, 10)
	delivered := len(res.Flushes)
	reads := make([]interface{}, 0, len(res.Reads))
	for _, v := range res.Reads {
		if v == nil {
			reads = append(reads, nil)
		} else {
			delivered++
			reads = append(reads, v.String())
		}
	}
	fls := make([]interface{}, 0, len(res.Flushes))
	for _, f := range res.Flushes {
		fls = append(fls, map[string]interface{}{"at": f.At.String(), "interval": f.Delta})
	}
	obs := map[string]interface{}{"reads": reads, "flushes": fls}
	if len(res.Timers) > 0 {
		obs["initial_wait"] = res.Timers[0].d
	}
	if len(res.Tickers) > 0 {
		obs["ticker_created_at"] = res.Tickers[0].at.String()
	}
	em.Emit(hlib.Case{
		Input: in, Obs: obs, Coq: coqTerm(in, start, res), Monitors: res.Monitors,
		Class: in.Scenario + "/" + in.Stream + "/" + in.Style, Nontrivial: delivered >= 2,
	})
}

// ---------------------------------------------------------------------------------------
// generator

func randBelow(r *hlib.Rand, n *big.Int) *big.Int { // [0, n)
	if n.Sign() <= 0 {
		return bi(0)
	}
	v := new(big.Int).SetUint64(r.U64())
	v.Lsh(v, 64).Add(v, new(big.Int).SetUint64(r.U64()))
	return v.Mod(v, n)
}

func rand64(r *hlib.Rand, lo, hi int64) int64 { // [lo, hi]
	return lo + randBelow(r, new(big.Int).Add(new(big.Int).Sub(bi(hi), bi(lo)), bi(1))).Int64()
}

var mainIntervals = []int64{1, 2, 3, 7, 10, 1000, 1e6, 1e7, 25e7, 5e8, 333e6, 1e9, 15e8, 7e9, 1e10, 6e10, 36e11, 864e11,
	1234567891, 86399999999999, 1<<40 + 1}

func pickInterval(r *hlib.Rand, stream string) int64 {
	if stream == "boundary" {
		switch r.Intn(5) {
		case 0:
			return 1
		case 1:
			return 1 << 61
		case 2:
			return 1<<61 - 1
		case 3:
			return rand64(r, 1<<50, 1<<61)
		default:
			return hlib.Pick(r, []int64{1e9, 1e10, 7})
		}
	}
	if r.Chance(1, 4) {
		return rand64(r, 1, 1e12)
	}
	return hlib.Pick(r, mainIntervals)
}

const cap62 = int64(1) << 62

func clampOff(b *big.Int) int64 {
	lim := bi(cap62)
	if b.Cmp(lim) > 0 {
		return cap62
	}
	if b.Cmp(new(big.Int).Neg(lim)) < 0 {
		return -cap62
	}
	return b.Int64()
}

func pickOffset(r *hlib.Rand, i int64, stream string) int64 {
	I := bi(i)
	mul := func(k int64, add *big.Int) int64 { return clampOff(new(big.Int).Add(new(big.Int).Mul(bi(k), I), add)) }
	if stream == "boundary" {
		switch r.Intn(6) {
		case 0:
			return rand64(r, 0, cap62)
		case 1:
			return -1
		case 2:
			return clampOff(new(big.Int).Neg(I))
		case 3:
			return -rand64(r, 1, cap62)
		case 4:
			return mul(int64(r.Range(2, 1000)), randBelow(r, I))
		default:
			return cap62
		}
	}
	switch r.Intn(10) {
	case 0, 1, 2:
		return 0
	case 3, 4, 5:
		return randBelow(r, I).Int64()
	case 6:
		return i - 1
	case 7:
		return i
	case 8:
		return mul(1, bi(1))
	default:
		return mul(int64(r.Range(1, 10)), randBelow(r, I))
	}
}

func pickStart(r *hlib.Rand, i, o int64, stream string) *big.Int {
	var base *big.Int
	unix := func(sec int64) *big.Int { return new(big.Int).Mul(bi(sec+zeroToUnixSec), bE9) }
	n := 6
	if stream == "boundary" {
		n = 10
	}
	switch r.Intn(n) {
	case 0, 1, 2:
		base = unix(1790000000 + int64(r.Intn(40000000))) // 2026-2027
		base.Add(base, bi(int64(r.Intn(1000000000))))
	case 3:
		base = unix(0) // 1970-01-01
	case 4:
		base = unix(-int64(r.Intn(2208988800))) // 1900 .. 1970
		base.Add(base, bi(int64(r.Intn(1000000000))))
	case 5:
		base = unix(int64(r.Intn(4000000000)))
	case 6:
		base = bi(int64(r.Intn(3))) // the zero time itself, +1, +2 ns
	case 7:
		base = new(big.Int).Neg(randBelow(r, bi(1e18))) // before year 1
	case 8:
		base = bi(-1)
	default:
		base = new(big.Int).Mul(bi(250000000000), bE9) // about year 7900
		base.Add(base, randBelow(r, bE9))
	}
	I, O := bi(i), bi(o)
	b := new(big.Int).Sub(base, emod(new(big.Int).Sub(base, O), I)) // largest boundary <= base
	switch r.Intn(7) {
	case 0:
		return b
	case 1:
		return b.Sub(b, bi(1))
	case 2:
		return b.Add(b, bi(1))
	case 3:
		return b.Add(b, randBelow(r, I))
	case 4:
		return b.Add(b, new(big.Int).Sub(I, bi(1)))
	default:
		return base
	}
}

func genAdvance(r *hlib.Rand, now *big.Int, i, o int64, stream string) int64 {
	I, O := bi(i), bi(o)
	toNext := new(big.Int).Sub(I, emod(new(big.Int).Sub(now, O), I)) // in (0, i]
	var d *big.Int
	k := r.Intn(100)
	if stream == "boundary" && k < 45 {
		switch r.Intn(3) {
		case 0:
			d = bi(cap62)
		case 1:
			d = new(big.Int).Add(bi(1<<61), randBelow(r, bi(1<<61)))
		default:
			d = randBelow(r, bi(cap62))
		}
	} else {
		switch {
		case k < 25:
			d = toNext
		case k < 33:
			d = new(big.Int).Sub(toNext, bi(1))
		case k < 41:
			d = new(big.Int).Add(toNext, bi(1))
		case k < 56:
			d = randBelow(r, new(big.Int).Add(I, bi(1)))
		case k < 66:
			d = I
		case k < 69:
			d = new(big.Int).Sub(I, bi(1))
		case k < 72:
			d = new(big.Int).Add(I, bi(1))
		case k < 80:
			d = new(big.Int).Mul(I, bi(int64(r.Range(2, 6))))
		case k < 90:
			d = new(big.Int).Mul(I, bi(int64(r.Range(2, 6))))
			d.Add(d, randBelow(r, I))
		case k < 93:
			d = bi(0)
		default:
			d = randBelow(r, new(big.Int).Mul(I, bi(3)))
		}
	}
	if d.Cmp(bi(cap62)) > 0 {
		d = bi(cap62)
	}
	if d.Sign() < 0 {
		d = bi(0)
	}
	return d.Int64()
}

func genCase(r *hlib.Rand, idx int) (in input) {
	in = input{Scenario: "ticker", Stream: "main"}
	if idx%3 == 2 {
		in.Scenario = "flusher"
	}
	if idx%4 == 3 {
		in.Stream = "boundary"
	}
	in.Interval = pickInterval(r, in.Stream)
	in.Offset = pickOffset(r, in.Interval, in.Stream)
	start := pickStart(r, in.Interval, in.Offset, in.Stream)
	in.Start = start.String()
	now := new(big.Int).Set(start)
	nAdv := r.Range(3, 24)
	adv := func() {
		d := genAdvance(r, now, in.Interval, in.Offset, in.Stream)
		now.Add(now, bi(d))
		in.Ops = append(in.Ops, opIn{K: "A", D: d})
	}
	// In a quarter of the cases the clock moves right after construction, before the ticker goroutine
	// has read it: by less than an interval, to / just short of / just past the next boundary, by whole
	// intervals, by several intervals.
	early := r.Chance(1, 4)
	if early {
		I, O := bi(in.Interval), bi(in.Offset)
		toNext := new(big.Int).Sub(I, emod(new(big.Int).Sub(now, O), I))
		var d *big.Int
		switch r.Intn(9) {
		case 0:
			d = toNext
		case 1:
			d = new(big.Int).Sub(toNext, bi(1))
		case 2:
			d = new(big.Int).Add(toNext, bi(1))
		case 3, 4:
			d = randBelow(r, I)
		case 5:
			d = new(big.Int).Mul(I, bi(int64(r.Range(1, 3))))
		case 6, 7:
			d = new(big.Int).Mul(I, bi(int64(r.Range(1, 5))))
			d.Add(d, randBelow(r, I))
		default:
			d = randBelow(r, new(big.Int).Mul(I, bi(3)))
		}
		if d.Cmp(bi(cap62)) > 0 {
			d = bi(cap62)
		}
		now.Add(now, d)
		in.Ops = append(in.Ops, opIn{K: "E", D: d.Int64()})
	}
	defer func() {
		if early {
			in.Style += "+early"
		}
	}()
	if in.Scenario == "ticker" {
		in.Style = hlib.Pick(r, []string{"prompt", "prompt", "slow", "burst", "late"})
		switch in.Style {
		case "prompt":
			for k := 0; k < nAdv; k++ {
				adv()
				in.Ops = append(in.Ops, opIn{K: "C"})
				if r.Chance(1, 8) {
					in.Ops = append(in.Ops, opIn{K: "C"})
				}
			}
		case "slow":
			for k := 0; k < nAdv; k++ {
				adv()
				if r.Chance(1, 3) {
					in.Ops = append(in.Ops, opIn{K: "C"})
				}
			}
			in.Ops = append(in.Ops, opIn{K: "C"}, opIn{K: "C"})
		case "burst":
			for k := 0; k < nAdv; {
				for n := r.Range(1, 5); n > 0 && k < nAdv; n-- {
					adv()
					k++
				}
				for n := r.Range(1, 3); n > 0; n-- {
					in.Ops = append(in.Ops, opIn{K: "C"})
				}
			}
		default: // late: nobody reads for a while, then a prompt consumer
			for k := 0; k < nAdv; k++ {
				adv()
				if k >= nAdv/2 {
					in.Ops = append(in.Ops, opIn{K: "C"})
				}
			}
		}
	} else {
		in.Style = hlib.Pick(r, []string{"prompt", "held", "held"})
		for k := 0; k < nAdv; k++ {
			if in.Style == "held" && r.Chance(1, 4) {
				in.Ops = append(in.Ops, opIn{K: "H"})
			}
			adv()
			if in.Style == "held" && r.Chance(1, 3) {
				in.Ops = append(in.Ops, opIn{K: "R"})
			}
		}
	}
	return in
}

func main() {
	a := hlib.ParseArgs()
	em := hlib.NewEmitter()
	emitter = em
	defer em.Close()
	switch a.Mode {
	case "gen":
		r := hlib.NewRand(a.Seed)
		for k := 0; k < a.N; k++ {
			runOne(em, genCase(r, k))
		}
	case "run":
		for _, raw := range a.Inputs {
			var in input
			if err := json.Unmarshal(raw, &in); err != nil {
				fmt.Fprintln(os.Stderr, "bad input:", err)
				os.Exit(2)
			}
			runOne(em, in)
		}
	}
}
