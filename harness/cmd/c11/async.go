package main

import (
	"context"
	"fmt"
	"math"
	"sort"
	"strings"
	"sync"
	"time"

	"github.com/atlassian/gostatsd"
	"github.com/atlassian/gostatsd/pkg/statsd"

	"verifharness/hlib"
	"verifharness/mmgen"
)

// asynchronous scripted cache: every source handed to IpSink() is answered once (twice for the
// sources in Dup) after a small delay, by its script; the table Peek reads is updated as the real
// cache would (positive -> instance, not found -> negative entry, error -> nothing)
type asyncCache struct {
	*scriptCache
	in          *asyncIn
	ctx         context.Context
	wg          sync.WaitGroup
	lmu         sync.Mutex
	lookups     map[string]int
	outstanding map[string]bool
	violations  []string
}

func (c *asyncCache) send(info gostatsd.InstanceInfo) {
	select {
	case c.source <- info:
	case <-c.ctx.Done():
	}
}

func (c *asyncCache) answer(s string, nth int) {
	defer c.wg.Done()
	h := 0
	for _, b := range []byte(s) {
		h = h*31 + int(b)
	}
	time.Sleep(time.Duration(h%250) * time.Microsecond)
	kind := c.in.Script[s]
	var inst *gostatsd.Instance
	if ii, ok := c.in.Insts[s]; ok && (kind == "pos" || (kind == "err" && nth > 1)) {
		inst = toInstance(&ii)
	}
	c.mu.Lock()
	switch {
	case inst != nil:
		c.table[gostatsd.Source(s)] = inst
	case kind == "neg":
		c.table[gostatsd.Source(s)] = nil
	}
	c.mu.Unlock()
	c.lmu.Lock()
	c.outstanding[s] = false
	c.lmu.Unlock()
	c.send(gostatsd.InstanceInfo{IP: gostatsd.Source(s), Instance: inst})
	for _, d := range c.in.Dup {
		if d == s {
			c.send(gostatsd.InstanceInfo{IP: gostatsd.Source(s), Instance: inst})
		}
	}
}

func (c *asyncCache) serve() {
	defer c.wg.Done()
	for {
		select {
		case <-c.ctx.Done():
			return
		case s := <-c.sink:
			c.lmu.Lock()
			c.lookups[string(s)]++
			n := c.lookups[string(s)]
			if c.outstanding[string(s)] {
				c.violations = append(c.violations, fmt.Sprintf("a second lookup for %q was issued while one was outstanding", s))
			}
			c.outstanding[string(s)] = true
			c.lmu.Unlock()
			c.wg.Add(1)
			go c.answer(string(s), n)
		}
	}
}

// flushStatser drives RunMetrics: a value pushed into flush makes the handler schedule an emit,
// which Run's own goroutine serves; the three queue gauges are captured per emit
type flushStatser struct {
	gaugeCatcher
	mu    sync.Mutex
	flush chan time.Duration
	emits int
	last  [3]float64
}

func (f *flushStatser) RegisterFlush() (<-chan time.Duration, func()) { return f.flush, func() {} }
func (f *flushStatser) Gauge(name string, v float64, tags gostatsd.Tags) {
	f.mu.Lock()
	defer f.mu.Unlock()
	f.gaugeCatcher.Gauge(name, v, tags)
	if name == "cloudprovider.items_queued" { // the last gauge of one emit
		f.last = [3]float64{f.got["cloudprovider.hosts_queued|type:metric"], f.got["cloudprovider.hosts_queued|type:event"], v}
		f.emits++
	}
}
func (f *flushStatser) snapshot() (int, [3]float64) {
	f.mu.Lock()
	defer f.mu.Unlock()
	return f.emits, f.last
}

// number of async cases whose verdict stayed bad until the settle deadline (see runAsync)
var slowVerdicts int

// what one name must add up to downstream
type expect struct {
	typ     gostatsd.MetricType
	src     string
	tags    []string
	counter int64
	timers  []float64
	members map[string]bool
	gauges  map[float64]bool
	n       int
}

func sameTags(a, b []string) bool {
	if len(a) != len(b) {
		return false
	}
	for i := range a {
		if a[i] != b[i] {
			return false
		}
	}
	return true
}

func runAsync(in input) hlib.Case {
	a := in.Async
	ctx, cancel := context.WithCancel(context.Background())
	defer cancel()
	cache := &asyncCache{scriptCache: newScriptCache(), in: a, ctx: ctx, lookups: map[string]int{}, outstanding: map[string]bool{}}
	down := newCapHandler()
	ch := statsd.NewCloudHandler(cache, down)
	var monitors []string

	// expectations
	exp := map[string]*expect{}
	evExp := map[string]*evIn{}
	nEvents, nDps := 0, 0
	for _, ops := range a.Senders {
		for _, op := range ops {
			if op.Op == "event" {
				evExp[op.Ev.Title] = op.Ev
				nEvents++
				continue
			}
			for _, d := range op.Dps {
				nDps++
				e := exp[d.Name]
				if e == nil {
					e = &expect{typ: gostatsd.MetricType(d.Type), src: d.Source, tags: d.Tags, members: map[string]bool{}, gauges: map[float64]bool{}}
					exp[d.Name] = e
				}
				e.n++
				v := math.Float64frombits(d.Value)
				switch e.typ {
				case gostatsd.COUNTER:
					e.counter += int64(v)
				case gostatsd.TIMER:
					e.timers = append(e.timers, v)
				case gostatsd.SET:
					e.members[d.StrVal] = true
				case gostatsd.GAUGE:
					e.gauges[v] = true
				}
			}
		}
	}

	runDone := make(chan struct{})
	go func() { ch.Run(ctx); close(runDone) }()
	fs := &flushStatser{gaugeCatcher: gaugeCatcher{got: map[string]float64{}}, flush: make(chan time.Duration, 1)}
	rmDone := make(chan struct{})
	go func() { ch.RunMetrics(ctx, fs); close(rmDone) }()
	cache.wg.Add(1)
	go cache.serve()

	var swg sync.WaitGroup
	for _, ops := range a.Senders {
		swg.Add(1)
		go func(ops []opIn) {
			defer swg.Done()
			for _, op := range ops {
				if op.Op == "event" {
					ch.DispatchEvent(ctx, op.Ev.event())
				} else {
					ch.DispatchMetricMap(ctx, mmgen.Build(op.Dps))
				}
			}
		}(ops)
	}
	// unsolicited results (the real cache's refresh), while the senders run
	swg.Add(1)
	go func() {
		defer swg.Done()
		for _, s := range a.Refresh {
			time.Sleep(60 * time.Microsecond)
			var inst *gostatsd.Instance
			if ii, ok := a.Insts[s]; ok && a.Script[s] != "neg" {
				inst = toInstance(&ii)
				cache.mu.Lock()
				cache.table[gostatsd.Source(s)] = inst
				cache.mu.Unlock()
			}
			cache.send(gostatsd.InstanceInfo{IP: gostatsd.Source(s), Instance: inst})
		}
	}()
	sendersDone := make(chan struct{})
	go func() { swg.Wait(); close(sendersDone) }()
	select {
	case <-sendersDone:
	case <-time.After(30 * time.Second):
		monitors = append(monitors, "senders blocked: DispatchMetricMap / DispatchEvent did not return within 30s")
	}

	// drain: every parked item has a lookup on its way and the cache answers every lookup.  The
	// queue gauges are read through the real path (flush notification -> scheduleEmit -> Run's emit
	// arm), which is race free; nothing is parked when a fresh emit reports three zeros.
	base, _ := fs.snapshot()
	deadline := time.Now().Add(20 * time.Second)
	drained := false
	var lastG [3]float64
	for time.Now().Before(deadline) {
		select {
		case fs.flush <- time.Millisecond:
		default:
		}
		time.Sleep(80 * time.Microsecond)
		n, g := fs.snapshot()
		lastG = g
		if n > base {
			base = n
			if g == [3]float64{0, 0, 0} {
				drained = true
				break
			}
		}
	}
	if !drained {
		monitors = append(monitors, fmt.Sprintf("items are still parked 20s after the last arrival although every lookup was answered: gauges %v", lastG))
	}
	// ---- exactly once, correctly tagged.  The releases run in goroutines of their own
	// (updateAndDispatchMetrics / Events): zero gauges mean nothing is parked, not that those goroutines
	// have delivered yet.  The verdict is therefore polled until it is clean or a generous deadline passes
	// (a loaded machine may not schedule them for a long time), then taken once more a little later so that
	// a duplicate that is still on its way is seen.
	verify := func() []string {
		var monitors []string
		instOf := func(src string) *instIn {
			if ii, ok := a.Insts[src]; ok {
				return &ii
			}
			return nil
		}
		refreshed := map[string]bool{}
		for _, s := range a.Refresh {
			refreshed[s] = true
		}
		// how an item of source src may leave: tagged? unchanged?
		checkTag := func(what, src string, origTags []string, gotSrc string, gotTags []string) {
			if !strings.HasPrefix(what, "event") {
				// FormatTagsKey sorts the tags of a dispatched series in place: compare as multisets
				origTags = append([]string{}, origTags...)
				gotTags = append([]string{}, gotTags...)
				sort.Strings(origTags)
				sort.Strings(gotTags)
			}
			sorted := !strings.HasPrefix(what, "event")
			if src == "" {
				if gotSrc != "" || !sameTags(gotTags, origTags) {
					monitors = append(monitors, fmt.Sprintf("%s without source left as source=%q tags=%q", what, gotSrc, gotTags))
				}
				return
			}
			ii := instOf(src)
			kind := a.Script[src]
			unchanged := gotSrc == src && sameTags(gotTags, origTags)
			wantTagged := []string{}
			if ii != nil {
				wantTagged = append(append(wantTagged, origTags...), ii.Tags...)
				if sorted {
					sort.Strings(wantTagged)
				}
			}
			tagged := ii != nil && gotSrc == ii.ID && sameTags(gotTags, wantTagged)
			okU := kind == "neg" || kind == "err"
			okT := kind == "pos" || kind == "err" || (refreshed[src] && kind != "neg")
			if !((unchanged && okU) || (tagged && okT)) {
				monitors = append(monitors, fmt.Sprintf("%s of source %q (script %s) left with source=%q tags=%q (entered with tags %q)", what, src, kind, gotSrc, gotTags, origTags))
			}
		}
		got := map[string]*expect{}
		get := func(name string) *expect {
			g := got[name]
			if g == nil {
				g = &expect{members: map[string]bool{}, gauges: map[float64]bool{}}
				got[name] = g
			}
			return g
		}
		down.mu.Lock()
		for _, m := range down.mms {
			m.Counters.Each(func(n, _ string, c gostatsd.Counter) {
				g := get(n)
				g.counter += c.Value
				g.n++
				if e := exp[n]; e != nil {
					checkTag("counter "+n, e.src, e.tags, string(c.Source), c.Tags)
				}
			})
			m.Timers.Each(func(n, _ string, t gostatsd.Timer) {
				g := get(n)
				g.timers = append(g.timers, t.Values...)
				g.n++
				if e := exp[n]; e != nil {
					checkTag("timer "+n, e.src, e.tags, string(t.Source), t.Tags)
				}
			})
			m.Sets.Each(func(n, _ string, s gostatsd.Set) {
				g := get(n)
				for k := range s.Values {
					g.members[k] = true
				}
				g.n++
				if e := exp[n]; e != nil {
					checkTag("set "+n, e.src, e.tags, string(s.Source), s.Tags)
				}
			})
			m.Gauges.Each(func(n, _ string, gg gostatsd.Gauge) {
				g := get(n)
				g.gauges[gg.Value] = true
				g.n++
				if e := exp[n]; e != nil {
					checkTag("gauge "+n, e.src, e.tags, string(gg.Source), gg.Tags)
				}
			})
		}
		evGot := map[string]int{}
		for _, e := range down.events {
			evGot[e.Title]++
			if x := evExp[e.Title]; x != nil {
				checkTag("event "+e.Title, x.Src, x.Tags, string(e.Source), e.Tags)
				if e.Text != x.Text || e.DateHappened != x.Date {
					monitors = append(monitors, fmt.Sprintf("event %s left with other fields", e.Title))
				}
			} else {
				monitors = append(monitors, fmt.Sprintf("event %q reached downstream but never entered", e.Title))
			}
		}
		down.mu.Unlock()
		for t := range evExp {
			if evGot[t] != 1 {
				monitors = append(monitors, fmt.Sprintf("event %s reached downstream %d times", t, evGot[t]))
			}
		}
		names := make([]string, 0, len(exp))
		for n := range exp {
			names = append(names, n)
		}
		sort.Strings(names)
		for _, n := range names {
			e, g := exp[n], got[n]
			if g == nil {
				monitors = append(monitors, fmt.Sprintf("series %s never reached downstream", n))
				continue
			}
			switch e.typ {
			case gostatsd.COUNTER:
				if g.counter != e.counter {
					monitors = append(monitors, fmt.Sprintf("counter %s: %d entered, %d left", n, e.counter, g.counter))
				}
			case gostatsd.TIMER:
				x, y := append([]float64{}, e.timers...), append([]float64{}, g.timers...)
				sort.Float64s(x)
				sort.Float64s(y)
				if fmt.Sprint(x) != fmt.Sprint(y) {
					monitors = append(monitors, fmt.Sprintf("timer %s: values %v entered, %v left", n, x, y))
				}
			case gostatsd.SET:
				if len(g.members) != len(e.members) {
					monitors = append(monitors, fmt.Sprintf("set %s: %d members entered, %d left", n, len(e.members), len(g.members)))
				}
			case gostatsd.GAUGE:
				for v := range g.gauges {
					if !e.gauges[v] {
						monitors = append(monitors, fmt.Sprintf("gauge %s: value %v left but never entered", n, v))
					}
				}
				if g.n > e.n {
					monitors = append(monitors, fmt.Sprintf("gauge %s: %d datapoints entered, %d series left", n, e.n, g.n))
				}
			}
		}
		for n := range got {
			if exp[n] == nil {
				monitors = append(monitors, fmt.Sprintf("series %s reached downstream but never entered", n))
			}
		}
		return monitors
	}
	wait := 20 * time.Second
	if slowVerdicts >= 2 {
		wait = 2 * time.Second // a broken tree fails many cases: do not spend 20s on each of them
	}
	settle := time.Now().Add(wait)
	for len(verify()) > 0 && time.Now().Before(settle) {
		time.Sleep(200 * time.Microsecond)
	}
	if !time.Now().Before(settle) {
		slowVerdicts++
	}
	time.Sleep(2 * time.Millisecond)
	monitors = append(monitors, verify()...)
	cancel()
	select {
	case <-runDone:
	case <-time.After(5 * time.Second):
		monitors = append(monitors, "Run did not return after cancellation")
	}
	<-rmDone
	cache.wg.Wait()
	nEmits, _ := fs.snapshot()

	// ---- lookups and final state
	cache.lmu.Lock()
	nLook := 0
	for _, k := range cache.lookups {
		nLook += k
	}
	if len(a.Dup) == 0 && len(a.Refresh) == 0 {
		monitors = append(monitors, cache.violations...)
	}
	cache.lmu.Unlock()
	st := ch.VerifState()
	if len(st.AwaitingMetrics) != 0 || len(st.AwaitingEvents) != 0 {
		monitors = append(monitors, fmt.Sprintf("after draining, %d metric slots and %d event slots are still parked", len(st.AwaitingMetrics), len(st.AwaitingEvents)))
	} else if st.MetricHostsQueue != 0 || st.EventHostsQueue != 0 || st.EventItemsQueue != 0 {
		monitors = append(monitors, fmt.Sprintf("nothing is parked but the gauges read hosts{metric}=%d hosts{event}=%d items=%d", st.MetricHostsQueue, st.EventHostsQueue, st.EventItemsQueue))
	}
	if len(monitors) > 12 {
		monitors = append(monitors[:12], fmt.Sprintf("... and %d more", len(monitors)-12))
	}
	kinds := []string{}
	for _, k := range a.Script {
		kinds = append(kinds, k)
	}
	sort.Strings(kinds)
	return hlib.Case{
		Input:      in,
		Obs:        map[string]interface{}{"datapoints": nDps, "events": nEvents, "lookups": nLook, "down_maps": len(down.mms), "down_events": len(down.events), "peeks": cache.peeks, "emits": nEmits, "scripts": strings.Join(kinds, ",")},
		Monitors:   monitors,
		Class:      "async",
		Nontrivial: nLook >= 2 && nDps >= 4 && nEvents >= 1,
	}
}

func genAsync(r *hlib.Rand) input {
	a := &asyncIn{Script: map[string]string{}, Insts: map[string]instIn{}}
	ns := r.Range(1, 4)
	var sources []string
	for i := 0; i < ns; i++ {
		s := fmt.Sprintf("10.1.%d.%d", r.Intn(3), i+1)
		sources = append(sources, s)
		a.Script[s] = hlib.Pick(r, []string{"pos", "pos", "neg", "err"})
		in := instIn{ID: fmt.Sprintf("i-%d", i), Tags: []string{}}
		for k, n := 0, r.Intn(3); k < n; k++ {
			in.Tags = append(in.Tags, fmt.Sprintf("it%d:%s", k, hlib.Pick(r, []string{"x", "y"})))
		}
		a.Insts[s] = in
		if r.Chance(1, 6) {
			a.Dup = append(a.Dup, s)
		}
		if r.Chance(1, 6) {
			a.Refresh = append(a.Refresh, s)
		}
	}
	nsend := r.Range(2, 5)
	evn := 0
	for g := 0; g < nsend; g++ {
		var ops []opIn
		for i, n := 0, r.Range(3, 12); i < n; i++ {
			if r.Chance(1, 3) {
				evn++
				src := hlib.Pick(r, append([]string{""}, sources...))
				ops = append(ops, opIn{Op: "event", Ev: &evIn{Title: fmt.Sprintf("e%d", evn), Text: rstr(r, 0, 5, "ab "), Date: 1700000000 + int64(evn),
					Tags: []string{"o:" + src, "k:" + rstr(r, 1, 2, "ab")}, Src: src}})
				continue
			}
			op := opIn{Op: "metrics"}
			for j, nd := 0, r.Range(1, 5); j < nd; j++ {
				src := hlib.Pick(r, append([]string{""}, sources...))
				typ := r.Range(1, 4)
				// a name determines type, source and tags, so that what left can be matched with what entered
				name := fmt.Sprintf("m%d.%d.%s.%d", typ, r.Intn(3), strings.ReplaceAll(src, ".", "_"), g%2)
				d := mmgen.Dp{Name: name, Type: typ, Source: src, TS: 1000 + int64(i), Tags: []string{"o:" + src, "n:" + name}, Rate: math.Float64bits(1)}
				switch gostatsd.MetricType(typ) {
				case gostatsd.SET:
					d.StrVal = hlib.Pick(r, []string{"u1", "u2", "u3"})
				default:
					d.Value = math.Float64bits(float64(r.Range(1, 1000)))
				}
				op.Dps = append(op.Dps, d)
			}
			ops = append(ops, op)
		}
		a.Senders = append(a.Senders, ops)
	}
	return input{Kind: "async", Async: a}
}
