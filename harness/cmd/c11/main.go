// C11: cloud enrichment forwards every item exactly once, correctly tagged.
//
// Two kinds of cases:
//
//	lock   a real statsd.CloudHandler (Run is not started) over a scripted CachedInstances and a
//	       capturing downstream handler is driven label by label: DispatchMetricMap / DispatchEvent
//	       run for real (the harness plays Run's receive on the incoming channel and then calls the
//	       arm's handler through the verif hook), SendLookup = the refill pop, Info =
//	       handleInstanceInfo, Emit = emit.  After every label the harness records what reached
//	       downstream, the park maps, toLookupIPs and the gauges (emit into a capturing statser);
//	       Coq replays the labels on the LTS of Model/Cloud.v and compares (Corr/C11.v).
//	async  the real Run goroutine with concurrent DispatchMetricMap / DispatchEvent senders and an
//	       asynchronous scripted cache (answers positive / not found / error, duplicates and
//	       unsolicited refresh results); checked by monitors only: every datapoint and event
//	       reaches downstream exactly once, tagged according to the answer that released it,
//	       at most one lookup per source outstanding, gauges back to zero when drained.
//
// A panic in one of the implementation's own goroutines (updateAndDispatch*) cannot be recovered
// and kills the process, so the cases run in a child process: the child announces every case and
// every op before executing it, and when it dies the supervisor turns what was announced into a
// case with a monitor hit (concrete replay) and restarts the child behind it.
package main

import (
	"bufio"
	"encoding/json"
	"fmt"
	"os"
	"os/exec"
	"strconv"
	"strings"

	"verifharness/hlib"
	"verifharness/mmgen"
)

type instIn struct {
	ID   string   `json:"id"`
	Tags []string `json:"tags"`
}

// one entry of the scripted cache at an arrival: present = hit, I == nil = negative hit
type peekEnt struct {
	S string  `json:"s"`
	I *instIn `json:"i"`
}

type evIn struct {
	Title string   `json:"title"`
	Text  string   `json:"text"`
	Date  int64    `json:"date"`
	Agg   string   `json:"agg,omitempty"`
	Stn   string   `json:"stn,omitempty"`
	Tags  []string `json:"tags"`
	Src   string   `json:"src"`
	Prio  int      `json:"prio,omitempty"`
	Alert int      `json:"alert,omitempty"`
}

type opIn struct {
	Op   string     `json:"op"` // metrics | event | send | info | emit
	Dps  []mmgen.Dp `json:"dps,omitempty"`
	Ev   *evIn      `json:"ev,omitempty"`
	Peek []peekEnt  `json:"peek,omitempty"`
	S    string     `json:"s,omitempty"`
	I    *instIn    `json:"i,omitempty"` // info: nil = lookup failed / not found
}

type asyncIn struct {
	Senders [][]opIn          `json:"senders"` // metrics / event ops per sending goroutine (Peek unused)
	Script  map[string]string `json:"script"`  // source -> pos | neg | err (err then pos on the retry)
	Insts   map[string]instIn `json:"insts"`
	Dup     []string          `json:"dup,omitempty"`     // sources answered twice
	Refresh []string          `json:"refresh,omitempty"` // unsolicited results pushed by the cache
}

type input struct {
	Kind  string   `json:"kind"` // lock | async
	Ops   []opIn   `json:"ops,omitempty"`
	Async *asyncIn `json:"async,omitempty"`
}

func announce(tag string, v interface{}) {
	b, _ := json.Marshal(v)
	os.Stdout.WriteString("#" + tag + " " + string(b) + "\n")
}

func emitFlush(em *hlib.Emitter, c hlib.Case) {
	em.Emit(c)
	em.Close() // flush: the supervisor counts complete cases
}

func child(a hlib.Args, start int) {
	em := hlib.NewEmitter()
	switch a.Mode {
	case "gen":
		r := hlib.NewRand(a.Seed)
		for i := 0; i < a.N; i++ {
			cr := r.Fork()
			if i < start {
				continue
			}
			if i%10 == 9 {
				in := genAsync(cr)
				announce("CASE", in)
				emitFlush(em, runAsync(in))
				continue
			}
			announce("CASE", input{Kind: "lock"})
			emitFlush(em, genLock(cr, a.Tier))
		}
	case "run":
		for i, raw := range a.Inputs {
			if i < start {
				continue
			}
			var in input
			if err := json.Unmarshal(raw, &in); err != nil {
				fmt.Fprintln(os.Stderr, "bad input:", err)
				os.Exit(2)
			}
			if in.Kind == "async" {
				announce("CASE", in)
				emitFlush(em, runAsync(in))
			} else {
				announce("CASE", input{Kind: "lock"})
				emitFlush(em, runLock(in))
			}
		}
	}
}

// supervisor: runs the child, forwards its cases, converts a crash into a case
func supervise(a hlib.Args) {
	total := a.N
	if a.Mode == "run" {
		total = len(a.Inputs)
	}
	out := bufio.NewWriterSize(os.Stdout, 1<<20)
	defer out.Flush()
	done := 0
	crashes := 0
	for done < total {
		args := []string{}
		for _, x := range os.Args[1:] {
			args = append(args, x)
		}
		args = append(args, "-stream", "child:"+strconv.Itoa(done))
		cmd := exec.Command(os.Args[0], args...)
		var errb strings.Builder
		cmd.Stderr = &errb
		pipe, err := cmd.StdoutPipe()
		if err != nil {
			fmt.Fprintln(os.Stderr, err)
			os.Exit(3)
		}
		if err := cmd.Start(); err != nil {
			fmt.Fprintln(os.Stderr, err)
			os.Exit(3)
		}
		var cur *input
		sc := bufio.NewScanner(pipe)
		sc.Buffer(make([]byte, 1<<20), 1<<28)
		for sc.Scan() {
			line := sc.Text()
			switch {
			case strings.HasPrefix(line, "#CASE "):
				cur = &input{}
				json.Unmarshal([]byte(line[6:]), cur)
			case strings.HasPrefix(line, "#OP "):
				var op opIn
				if cur != nil && json.Unmarshal([]byte(line[4:]), &op) == nil {
					cur.Ops = append(cur.Ops, op)
				}
			case strings.HasPrefix(line, "{"):
				// re-number (ids are consecutive over the whole run); the line is patched textually so
				// that 64-bit numbers of the input are not rounded by a decode / encode round trip
				if i := strings.Index(line, ","); strings.HasPrefix(line, "{\"id\":") && i > 0 {
					line = "{\"id\":" + strconv.Itoa(done) + line[i:]
				}
				out.WriteString(line)
				out.WriteByte('\n')
				done++
				cur = nil
			}
		}
		err = cmd.Wait()
		if err == nil {
			break
		}
		// the child died inside a case
		crashes++
		msg := errb.String()
		first := msg
		if i := strings.Index(first, "\n"); i >= 0 {
			first = first[:i]
		}
		if cur == nil {
			fmt.Fprintln(os.Stderr, "c11 child died outside a case:", msg)
			out.Flush()
			os.Exit(3)
		}
		c := hlib.Case{ID: done, Input: *cur, Monitors: []string{"the implementation crashed the process (panic in one of its goroutines): " + first},
			Class: cur.Kind + "/crash", Nontrivial: true, Obs: map[string]interface{}{"stderr": tail(msg, 1500)}}
		c.Key = hlib.HashOf(c.Input)
		b, _ := json.Marshal(c)
		out.Write(b)
		out.WriteByte('\n')
		done++
		if crashes > 20 {
			break // enough evidence; do not grind through hundreds of crashing cases
		}
	}
}

func tail(s string, n int) string {
	if len(s) <= n {
		return s
	}
	return s[:n]
}

func main() {
	a := hlib.ParseArgs()
	if st := a.Extra["stream"]; strings.HasPrefix(st, "child:") {
		start, _ := strconv.Atoi(st[6:])
		child(a, start)
		return
	}
	supervise(a)
}
