package main

import (
	"context"
	"fmt"
	"math"
	"math/big"
	"sort"
	"sync"
	"time"

	"github.com/atlassian/gostatsd"
	"github.com/atlassian/gostatsd/pkg/stats"
	"github.com/atlassian/gostatsd/pkg/statsd"

	"verifharness/hlib"
	"verifharness/mmgen"
)

// ---------------------------------------------------------------------------------------
// scripted cache: Peek answers from the table installed for the current arrival

type scriptCache struct {
	mu     sync.Mutex
	table  map[gostatsd.Source]*gostatsd.Instance
	sink   chan gostatsd.Source
	source chan gostatsd.InstanceInfo
	peeks  int
}

func newScriptCache() *scriptCache {
	return &scriptCache{table: map[gostatsd.Source]*gostatsd.Instance{}, sink: make(chan gostatsd.Source), source: make(chan gostatsd.InstanceInfo)}
}

func (c *scriptCache) Peek(s gostatsd.Source) (*gostatsd.Instance, bool) {
	c.mu.Lock()
	defer c.mu.Unlock()
	c.peeks++
	i, ok := c.table[s]
	return i, ok
}
func (c *scriptCache) IpSink() chan<- gostatsd.Source           { return c.sink }
func (c *scriptCache) InfoSource() <-chan gostatsd.InstanceInfo { return c.source }
func (c *scriptCache) EstimatedTags() int                       { return 1 }
func (c *scriptCache) set(t map[gostatsd.Source]*gostatsd.Instance) {
	c.mu.Lock()
	c.table = t
	c.mu.Unlock()
}

// capturing downstream handler
type capHandler struct {
	mu     sync.Mutex
	mms    []*gostatsd.MetricMap
	events []*gostatsd.Event
	tick   chan struct{}
}

func newCapHandler() *capHandler { return &capHandler{tick: make(chan struct{}, 1<<16)} }

func (h *capHandler) DispatchMetricMap(_ context.Context, mm *gostatsd.MetricMap) {
	h.mu.Lock()
	h.mms = append(h.mms, mm)
	h.mu.Unlock()
	select {
	case h.tick <- struct{}{}:
	default:
	}
}
func (h *capHandler) DispatchEvent(_ context.Context, e *gostatsd.Event) {
	cp := *e
	cp.Tags = append(gostatsd.Tags(nil), e.Tags...)
	h.mu.Lock()
	h.events = append(h.events, &cp)
	h.mu.Unlock()
	select {
	case h.tick <- struct{}{}:
	default:
	}
}
func (h *capHandler) EstimatedTags() int { return 0 }
func (h *capHandler) WaitForEvents()     {}
func (h *capHandler) counts() (int, int) {
	h.mu.Lock()
	defer h.mu.Unlock()
	return len(h.mms), len(h.events)
}
func (h *capHandler) take() ([]*gostatsd.MetricMap, []*gostatsd.Event) {
	h.mu.Lock()
	defer h.mu.Unlock()
	m, e := h.mms, h.events
	h.mms, h.events = nil, nil
	return m, e
}

// waitFor blocks until at least nm maps and ne events were captured, or the deadline passes
func (h *capHandler) waitFor(nm, ne int, d time.Duration) bool {
	deadline := time.After(d)
	for {
		m, e := h.counts()
		if m >= nm && e >= ne {
			return true
		}
		select {
		case <-h.tick:
		case <-time.After(200 * time.Microsecond):
		case <-deadline:
			return false
		}
	}
}

// capturing statser for emit
type gaugeCatcher struct {
	stats.Statser
	got map[string]float64
}

func (g *gaugeCatcher) Gauge(name string, v float64, tags gostatsd.Tags) {
	k := name
	for _, t := range tags {
		k += "|" + t
	}
	g.got[k] = v
}

// ---------------------------------------------------------------------------------------
// Coq printers

func coqInst(i *gostatsd.Instance) string {
	if i == nil {
		return "None"
	}
	return "(Some " + hlib.App("Inst", hlib.Bytes(string(i.ID)), hlib.StrList(i.Tags)) + ")"
}

func coqEvent(e *gostatsd.Event) string {
	return hlib.App("CEvent", hlib.Bytes(e.Title), hlib.Bytes(e.Text), hlib.Z(e.DateHappened), hlib.Bytes(e.AggregationKey),
		hlib.Bytes(e.SourceTypeName), hlib.StrList(e.Tags), hlib.Bytes(string(e.Source)), hlib.Z(int64(e.Priority)), hlib.Z(int64(e.AlertType)))
}

func coqEvents(l []*gostatsd.Event) string {
	el := make([]string, len(l))
	for i, e := range l {
		el[i] = coqEvent(e)
	}
	return hlib.List(el)
}

func coqPeek(p []peekEnt) string {
	el := make([]string, len(p))
	for i, e := range p {
		el[i] = hlib.Pair(hlib.Bytes(e.S), coqInst(toInstance(e.I)))
	}
	return "(peek_of " + hlib.List(el) + ")"
}

func zOfFloat(f float64) string {
	if f >= 0 && f < (1<<62) && f == math.Trunc(f) {
		return hlib.Z(int64(f))
	}
	b, _ := big.NewFloat(f).Int(nil)
	if b == nil {
		return "(-1)%Z"
	}
	return "(" + b.String() + ")%Z"
}

func toInstance(i *instIn) *gostatsd.Instance {
	if i == nil {
		return nil
	}
	return &gostatsd.Instance{ID: gostatsd.Source(i.ID), Tags: append(gostatsd.Tags{}, i.Tags...)}
}

func (e *evIn) event() *gostatsd.Event {
	return &gostatsd.Event{Title: e.Title, Text: e.Text, DateHappened: e.Date, AggregationKey: e.Agg, SourceTypeName: e.Stn,
		Tags: append(gostatsd.Tags{}, e.Tags...), Source: gostatsd.Source(e.Src), Priority: gostatsd.Priority(e.Prio), AlertType: gostatsd.AlertType(e.Alert)}
}

// ---------------------------------------------------------------------------------------
// lock-step executor

type lockExec struct {
	ch    *statsd.CloudHandler
	cache *scriptCache
	down  *capHandler
	ctx   context.Context

	sent     []string // popped towards IpSink, unanswered (harness bookkeeping for the generator)
	answered []string
	steps    []string
	done     []opIn
	trace    []interface{}
	monitors []string

	nPark, nHit, nInfoBoth, nInfoSpurious, nInfoDup, nPosRelease, nNegRelease, nSend, nMixed, nMultiSrc int
}

func newLockExec() *lockExec {
	c := newScriptCache()
	d := newCapHandler()
	return &lockExec{ch: statsd.NewCloudHandler(c, d), cache: c, down: d, ctx: context.Background()}
}

func removeOne(l []string, s string) []string {
	for i, x := range l {
		if x == s {
			return append(append([]string(nil), l[:i]...), l[i+1:]...)
		}
	}
	return l
}

func contains(l []string, s string) bool {
	for _, x := range l {
		if x == s {
			return true
		}
	}
	return false
}

func (x *lockExec) setPeek(p []peekEnt) {
	t := map[gostatsd.Source]*gostatsd.Instance{}
	for _, e := range p {
		if _, dup := t[gostatsd.Source(e.S)]; dup {
			continue
		}
		t[gostatsd.Source(e.S)] = toInstance(e.I)
	}
	x.cache.set(t)
}

// the first entry per source wins in peek_of as in setPeek
func dedupPeek(p []peekEnt) []peekEnt {
	seen := map[string]bool{}
	var out []peekEnt
	for _, e := range p {
		if !seen[e.S] {
			seen[e.S] = true
			out = append(out, e)
		}
	}
	return out
}

// exec runs one op on the real handler; false = the op is not enabled (nothing pending to send)
func (x *lockExec) exec(op opIn) bool {
	var label string
	tr := map[string]interface{}{"op": op.Op}
	wantM, wantE := 0, 0 // asynchronous deliveries to wait for
	switch op.Op {
	case "metrics":
		announce("OP", op)
		mm := mmgen.Build(op.Dps)
		entries := mmgen.Entries(mm)
		x.setPeek(op.Peek)
		var got *gostatsd.MetricMap
		res := make(chan *gostatsd.MetricMap, 1)
		stop := make(chan struct{})
		go func() {
			select {
			case m := <-x.ch.VerifIncomingMetrics():
				res <- m
			case <-stop:
				res <- nil
			}
		}()
		x.ch.DispatchMetricMap(x.ctx, mm)
		close(stop)
		got = <-res
		if got != nil {
			x.ch.VerifHandleIncomingMetrics(got)
			x.nPark++
			tr["parked_series"] = mmgen.Size(got)
		}
		srcs := map[string]bool{}
		for _, d := range op.Dps {
			srcs[d.Source] = true
		}
		if len(srcs) > 1 {
			x.nMultiSrc++
		}
		label = hlib.App("ArriveMetrics", entries, coqPeek(dedupPeek(op.Peek)))
		tr["series"] = mmgen.Size(mm)
	case "event":
		announce("OP", op)
		e := op.Ev.event()
		x.setPeek(op.Peek)
		res := make(chan *gostatsd.Event, 1)
		stop := make(chan struct{})
		go func() {
			select {
			case ev := <-x.ch.VerifIncomingEvents():
				res <- ev
			case <-stop:
				res <- nil
			}
		}()
		label = hlib.App("ArriveEvent", coqEvent(e), coqPeek(dedupPeek(op.Peek)))
		x.ch.DispatchEvent(x.ctx, e)
		close(stop)
		if got := <-res; got != nil {
			x.ch.VerifHandleIncomingEvent(got)
			x.nPark++
			tr["parked"] = true
		}
		tr["src"] = op.Ev.Src
	case "send":
		s, ok := x.ch.VerifPopLookup()
		if !ok {
			return false
		}
		op.S = string(s)
		announce("OP", op)
		x.sent = append(x.sent, op.S)
		x.nSend++
		label = hlib.App("SendLookup", hlib.Bytes(op.S))
		tr["s"] = op.S
	case "info":
		announce("OP", op)
		pre := x.ch.VerifState()
		src := gostatsd.Source(op.S)
		if pre.AwaitingMetrics[src] != nil {
			wantM = 1
		}
		wantE = len(pre.AwaitingEvents[src])
		if wantM == 1 && wantE > 0 {
			x.nInfoBoth++
		}
		if wantM+wantE > 0 {
			if op.I != nil {
				x.nPosRelease++
			} else {
				x.nNegRelease++
			}
		}
		if contains(x.sent, op.S) {
			x.sent = removeOne(x.sent, op.S)
			x.answered = append(x.answered, op.S)
		} else if contains(x.answered, op.S) {
			x.nInfoDup++
		} else {
			x.nInfoSpurious++
		}
		x.ch.VerifHandleInstanceInfo(x.ctx, gostatsd.InstanceInfo{IP: src, Instance: toInstance(op.I)})
		label = hlib.App("Info", hlib.Bytes(op.S), coqInst(toInstance(op.I)))
		tr["s"], tr["found"], tr["release_mm"], tr["release_events"] = op.S, op.I != nil, wantM, wantE
	case "emit":
		announce("OP", op)
		label = "Emit"
	default:
		return false
	}
	// the releases run in fresh goroutines: wait for exactly what the handler's own state promised
	if wantM+wantE > 0 {
		if !x.down.waitFor(wantM, wantE, 5*time.Second) {
			m, e := x.down.counts()
			x.monitors = append(x.monitors, fmt.Sprintf("step %d: Info %q released a parked map=%v and %d parked events but only %d maps / %d events reached downstream within 5s",
				len(x.steps), op.S, wantM == 1, wantE, m, e))
		}
	}
	x.observe(label, op, tr)
	return true
}

func (x *lockExec) observe(label string, op opIn, tr map[string]interface{}) {
	mms, evs := x.down.take()
	nHit := 0
	mmDumps := make([]string, len(mms))
	for i, m := range mms {
		mmDumps[i] = mmgen.Entries(m)
		nHit += mmgen.Size(m)
	}
	if op.Op == "metrics" || op.Op == "event" {
		x.nHit += nHit + len(evs)
	}
	st := x.ch.VerifState()
	var mk, ek []string
	for k := range st.AwaitingMetrics {
		mk = append(mk, string(k))
	}
	for k := range st.AwaitingEvents {
		ek = append(ek, string(k))
	}
	sort.Strings(mk)
	sort.Strings(ek)
	both := 0
	aM := make([]string, len(mk))
	for i, k := range mk {
		aM[i] = hlib.Pair(hlib.Bytes(k), mmgen.Entries(st.AwaitingMetrics[gostatsd.Source(k)]))
		if _, ok := st.AwaitingEvents[gostatsd.Source(k)]; ok {
			both++
		}
	}
	if both > 0 {
		x.nMixed++
	}
	aE := make([]string, len(ek))
	for i, k := range ek {
		aE[i] = hlib.Pair(hlib.Bytes(k), coqEvents(st.AwaitingEvents[gostatsd.Source(k)]))
	}
	look := make([]string, len(st.ToLookup))
	for i, s := range st.ToLookup {
		look[i] = hlib.Bytes(string(s))
	}
	gc := &gaugeCatcher{got: map[string]float64{}}
	x.ch.VerifEmit(gc)
	g1, ok1 := gc.got["cloudprovider.hosts_queued|type:metric"]
	g2, ok2 := gc.got["cloudprovider.hosts_queued|type:event"]
	g3, ok3 := gc.got["cloudprovider.items_queued|type:event"]
	if !(ok1 && ok2 && ok3) {
		x.monitors = append(x.monitors, fmt.Sprintf("step %d: emit did not report the three queue gauges: %v", len(x.steps), gc.got))
	}
	obs := hlib.App("Obs", hlib.List(mmDumps), coqEvents(evs), hlib.List(aM), hlib.List(aE), hlib.List(look),
		"("+zOfFloat(g1)+", "+zOfFloat(g2)+", "+zOfFloat(g3)+")")
	x.steps = append(x.steps, hlib.Pair(label, obs))
	x.done = append(x.done, op)
	tr["down_maps"], tr["down_events"] = len(mms), len(evs)
	tr["waitM"], tr["waitE"], tr["toLookup"] = mk, ek, len(st.ToLookup)
	tr["gauges"] = []float64{g1, g2, g3}
	x.trace = append(x.trace, tr)
}

func (x *lockExec) finish() hlib.Case {
	// nothing may reach downstream after the last label was observed
	time.Sleep(300 * time.Microsecond)
	if m, e := x.down.counts(); m+e > 0 {
		x.monitors = append(x.monitors, fmt.Sprintf("%d maps / %d events reached downstream after the last label had completed (duplicate release)", m, e))
	}
	in := input{Kind: "lock", Ops: x.done}
	class := "lock/plain"
	switch {
	case x.nInfoBoth > 0:
		class = "lock/metrics+events-of-one-source-released"
	case x.nMixed > 0:
		class = "lock/metrics+events-of-one-source-parked"
	case x.nPosRelease+x.nNegRelease > 0:
		class = "lock/released"
	case x.nPark > 0:
		class = "lock/parked-only"
	}
	if x.nInfoDup+x.nInfoSpurious > 0 {
		class += "+spurious"
	}
	tr := x.trace
	if len(tr) > 40 {
		tr = tr[:40]
	}
	return hlib.Case{
		Input:      in,
		Obs:        map[string]interface{}{"steps": tr, "n_steps": len(x.steps)},
		Coq:        hlib.App("Case", hlib.List(x.steps)),
		Monitors:   x.monitors,
		Class:      class,
		Nontrivial: x.nPark >= 2 && x.nPosRelease+x.nNegRelease >= 1 && x.nHit >= 1 && x.nMixed >= 1,
	}
}

func runLock(in input) hlib.Case {
	x := newLockExec()
	for _, op := range in.Ops {
		x.exec(op)
	}
	return x.finish()
}

// ---------------------------------------------------------------------------------------
// generator: ops are chosen looking at the executor's state, then executed

type world struct {
	sources []string
	names   []string
	tags    []string
	insts   map[string][]instIn // per source: one or two versions of its instance
	known   map[string]*peekEnt // the evolving scripted cache
	ts      int64
	evn     int
}

var c11TagAlpha = "abcxyz_./-019"

func rstr(r *hlib.Rand, lo, hi int, alpha string) string {
	n := r.Range(lo, hi)
	b := make([]byte, n)
	for i := range b {
		b[i] = alpha[r.Intn(len(alpha))]
	}
	return string(b)
}

func newWorld(r *hlib.Rand) *world {
	w := &world{insts: map[string][]instIn{}, known: map[string]*peekEnt{}, ts: 1000}
	ns := r.Range(1, 4)
	for i := 0; i < ns; i++ {
		w.sources = append(w.sources, fmt.Sprintf("10.0.%d.%d", r.Intn(3), i+1))
	}
	for i, n := 0, r.Range(2, 4); i < n; i++ {
		w.names = append(w.names, rstr(r, 1, 6, "abcdefgh.XY_-09"))
	}
	for i, n := 0, r.Range(2, 5); i < n; i++ {
		w.tags = append(w.tags, rstr(r, 1, 3, c11TagAlpha)+":"+rstr(r, 0, 3, c11TagAlpha))
	}
	for i, s := range w.sources {
		nv := 1
		if r.Chance(1, 4) {
			nv = 2
		}
		for v := 0; v < nv; v++ {
			in := instIn{ID: fmt.Sprintf("i-%d%s", i, []string{"", "b"}[v]), Tags: []string{}}
			for k, n := 0, r.Intn(3); k < n; k++ {
				in.Tags = append(in.Tags, "it"+rstr(r, 1, 2, c11TagAlpha)+":"+hlib.Pick(r, []string{"x", "y", "zone-a"}))
			}
			w.insts[s] = append(w.insts[s], in)
		}
	}
	return w
}

func (w *world) src(r *hlib.Rand) string {
	if r.Chance(1, 9) {
		return ""
	}
	return hlib.Pick(r, w.sources)
}

func (w *world) pickTags(r *hlib.Rand) []string {
	nt := []int{0, 0, 1, 1, 2, 3}[r.Intn(6)]
	t := []string{}
	for i := 0; i < nt; i++ {
		t = append(t, hlib.Pick(r, w.tags))
	}
	return t
}

// the cache as the next caller sees it: mostly the evolving table, sometimes perturbed (an entry
// expired, an entry appeared through a refresh, a stale negative entry)
func (w *world) peek(r *hlib.Rand) []peekEnt {
	var p []peekEnt
	for _, s := range w.sources {
		e := w.known[s]
		switch r.Intn(12) {
		case 0:
			e = nil
		case 1:
			in := hlib.Pick(r, w.insts[s])
			e = &peekEnt{S: s, I: &in}
		case 2:
			e = &peekEnt{S: s}
		}
		if e != nil {
			p = append(p, *e)
		}
	}
	return p
}

func (w *world) dp(r *hlib.Rand, src string) mmgen.Dp {
	w.ts += int64(r.Intn(3))
	d := mmgen.Dp{Name: hlib.Pick(r, w.names), Type: r.Range(1, 4), Source: src, TS: w.ts, Tags: w.pickTags(r)}
	d.Rate = math.Float64bits(hlib.Pick(r, mmgen.ExactRates))
	switch gostatsd.MetricType(d.Type) {
	case gostatsd.SET:
		d.StrVal = hlib.Pick(r, []string{"", "u1", "u2", "u 3", "x"})
		d.Rate = math.Float64bits(1)
	default:
		d.Value = math.Float64bits(mmgen.ExactValue(r))
	}
	return d
}

func (w *world) event(r *hlib.Rand) *evIn {
	w.evn++
	e := &evIn{Title: fmt.Sprintf("ev%d", w.evn), Text: rstr(r, 0, 8, "abc \n|:"), Date: 1700000000 + int64(r.Intn(1000)), Tags: w.pickTags(r), Src: w.src(r),
		Prio: r.Intn(2), Alert: r.Intn(4)}
	if r.Chance(1, 3) {
		e.Agg = rstr(r, 1, 4, "abck")
	}
	if r.Chance(1, 3) {
		e.Stn = rstr(r, 1, 4, "nagios")
	}
	// events of one source are sometimes identical on purpose (the multiset must keep both)
	if r.Chance(1, 10) {
		e.Title = "same"
		e.Text = ""
		e.Date = 1700000000
		e.Tags = []string{}
		e.Agg, e.Stn, e.Prio, e.Alert = "", "", 0, 0
	}
	return e
}

func genLock(r *hlib.Rand, tier string) hlib.Case {
	w := newWorld(r)
	x := newLockExec()
	n := r.Range(6, 28)
	if tier == "thorough" && r.Chance(1, 8) {
		n = r.Range(30, 80)
	}
	// a share of the cases hammers one source with events and metrics around its lookup
	focus := ""
	if r.Chance(1, 3) {
		focus = hlib.Pick(r, w.sources)
	}
	for i := 0; i < n; i++ {
		var op opIn
		switch k := r.Intn(100); {
		case k < 32:
			op.Op = "metrics"
			nd := r.Range(1, 6)
			one := r.Chance(1, 2)
			s0 := w.src(r)
			if focus != "" && r.Chance(2, 3) {
				s0, one = focus, true
			}
			for j := 0; j < nd; j++ {
				s := s0
				if !one {
					s = w.src(r)
				}
				op.Dps = append(op.Dps, w.dp(r, s))
			}
			op.Peek = w.peek(r)
		case k < 56:
			op.Op = "event"
			op.Ev = w.event(r)
			if focus != "" && r.Chance(2, 3) {
				op.Ev.Src = focus
			}
			op.Peek = w.peek(r)
		case k < 72:
			op.Op = "send"
		case k < 95:
			op.Op = "info"
			st := x.ch.VerifState()
			var waiting []string
			for s := range st.AwaitingMetrics {
				waiting = append(waiting, string(s))
			}
			for s := range st.AwaitingEvents {
				if _, ok := st.AwaitingMetrics[s]; !ok {
					waiting = append(waiting, string(s))
				}
			}
			sort.Strings(waiting)
			switch c := r.Intn(20); {
			case c < 14 && len(x.sent) > 0:
				op.S = hlib.Pick(r, x.sent)
			case c < 16 && len(waiting) > 0:
				op.S = hlib.Pick(r, waiting) // a refresh result: releases early, maybe before the lookup left
			case c < 18 && len(x.answered) > 0:
				op.S = hlib.Pick(r, x.answered) // duplicate answer
			case c < 19:
				op.S = hlib.Pick(r, w.sources) // anything
			default:
				op.S = "192.168.9.9" // a source never seen
			}
			switch r.Intn(4) {
			case 0: // not found: negative cache entry
				w.known[op.S] = &peekEnt{S: op.S}
			case 1: // lookup error: nothing cached
			default:
				if vs := w.insts[op.S]; len(vs) > 0 {
					in := hlib.Pick(r, vs)
					op.I = &in
					w.known[op.S] = &peekEnt{S: op.S, I: &in}
				} else {
					op.I = &instIn{ID: "i-x", Tags: []string{"it:q"}}
				}
			}
		default:
			op.Op = "emit"
		}
		x.exec(op)
	}
	return x.finish()
}
