package main

import (
	"context"
	"fmt"
	"math"
	"math/big"
	"sort"
	"sync"
	"time"

	"github.com/atlassian/gostatsd"
	"github.com/atlassian/gostatsd/pkg/stats"
	"github.com/atlassian/gostatsd/pkg/statsd"

	"verifharness/hlib"
	"verifharness/mmgen"
)

// ---------------------------------------------------------------------------------------
// scripted cache: Peek answers from the table installed for the current arrival

type scriptCache struct {
	mu     sync.Mutex
	table  map[gostatsd.Source]*gostatsd.Instance
	sink   chan gostatsd.Source
	source chan gostatsd.InstanceInfo
	peeks  int
}

func newScriptCache() *scriptCache {
	return &scriptCache{table: map[gostatsd.Source]*gostatsd.Instance{}, sink: make(chan gostatsd.Source), source: make(chan gostatsd.InstanceInfo)}
}

func (c *scriptCache) Peek(s gostatsd.Source) (*gostatsd.Instance, bool) {
	c.mu.Lock()
	defer c.mu.Unlock()
	c.peeks++
	i, ok := c.table[s]
	return i, ok
}
func (c *scriptCache) IpSink() chan<- gostatsd.Source           { return c.sink }
func (c *scriptCache) InfoSource() <-chan gostatsd.InstanceInfo { return c.source }
func (c *scriptCache) EstimatedTags() int                       { return 1 }
func (c *scriptCache) set(t map[gostatsd.Source]*gostatsd.Instance) {
	c.mu.Lock()
	c.table = t
	c.mu.Unlock()
}

// capturing downstream handler
type capHandler struct {
	mu     sync.Mutex
	mms    []*gostatsd.MetricMap
	events []*gostatsd.Event
	tick   chan struct{}
}

func newCapHandler() *capHandler { return &capHandler{tick: make(chan struct{}, 1<<16)} }

func (h *capHandler) DispatchMetricMap(_ context.Context, mm *gostatsd.MetricMap) {
	h.mu.Lock()
	h.mms = append(h.mms, mm)
	h.mu.Unlock()
	select {
	case h.tick <- struct{}{}:
	default:
	}
}
func (h *capHandler) DispatchEvent(_ context.Context, e *gostatsd.Event) {
	cp := *e
	cp.Tags = append(gostatsd.Tags(nil), e.Tags...)
	h.mu.Lock()
	h.events = append(h.events, &cp)
	h.mu.Unlock()
	select {
	case h.tick <- struct{}{}:
	default:
	}
}
func (h *capHandler) EstimatedTags() int { return 0 }
func (h *capHandler) WaitForEvents()     {}
func (h *capHandler) counts() (int, int) {
	h.mu.Lock()
	defer h.mu.Unlock()
	return len(h.mms), len(h.events)
}
func (h *capHandler) take() ([]*gostatsd.MetricMap, []*gostatsd.Event) {
	h.mu.Lock()
	defer h.mu.Unlock()
	m, e := h.mms, h.events
	h.mms, h.events = nil, nil
	return m, e
}

// waitFor blocks until at least nm maps and ne events were captured, or the deadline passes
func (h *capHandler) waitFor(nm, ne int, d time.Duration) bool {
	deadline := time.After(d)
	for {
		m, e := h.counts()
		if m >= nm && e >= ne {
			return true
		}
		select {
		case <-h.tick:
		case <-time.After(200 * time.Microsecond):
		case <-deadline:
			return false
		}
	}
}

// capturing statser for emit
type gaugeCatcher struct {
	stats.Statser
	got map[string]float64
}

func (g *gaugeCatcher) Gauge(name string, v float64, tags gostatsd.Tags) {
	k := name
	for _, t := range tags {
		k += "|" + t
	}
	g.got[k] = v
}

// ---------------------------------------------------------------------------------------
// Coq printers

func coqInst(i *gostatsd.Instance) string {
	if i == nil {
		return "None"
	}
	return "(Some " + hlib.App("Inst", hlib.Bytes(string(i.ID)), hlib.StrList(i.Tags)) + ")"
}

func coqEvent(e *gostatsd.Event) string {
	return hlib.App("CEvent", hlib.Bytes(e.Title), hlib.Bytes(e.Text), hlib.Z(e.DateHappened), hlib.Bytes(e.AggregationKey),
		hlib.Bytes(e.SourceTypeName), hlib.StrList(e.Tags), hlib.Bytes(string(e.Source)), hlib.Z(int64(e.Priority)), hlib.Z(int64(e.AlertType)))
}

func coqEvents(l []*gostatsd.Event) string {
	el := make([]string, len(l))
	for i, e := range l {
		el[i] = coqEvent(e)
	}
	return hlib.List(el)
}

func coqPeek(p []peekEnt) string {
	el := make([]string, len(p))
	for i, e := range p {
		el[i] = hlib.Pair(hlib.Bytes(e.S), coqInst(toInstance(e.I)))
	}
	return "(peek_of " + hlib.List(el) + ")"
}

func zOfFloat(f float64) string {
	if f >= 0 && f < (1<<62) && f == math.Trunc(f) {
		return hlib.Z(int64(f))
	}
	b, _ := big.NewFloat(f).Int(nil)
	if b == nil {
		return "(-1)%Z"
	}
	return "(" + b.String() + ")%Z"
}

func toInstance(i *instIn) *gostatsd.Instance {
	if i == nil {
		return nil
	}
	return &gostatsd.Instance{ID: gostatsd.Source(i.ID), Tags: append(gostatsd.Tags{}, i.Tags...)}
}

func (e *evIn) event() *gostatsd.Event {
	return &gostatsd.Event{Title: e.Title, Text: e.Text, DateHappened: e.Date, AggregationKey: e.Agg, SourceTypeName: e.Stn,
		Tags: append(gostatsd.Tags{}, e.Tags...), Source: gostatsd.Source(e.Src), Priority: gostatsd.Priority(e.Prio), AlertType: gostatsd.AlertType(e.Alert)}
}

// ---------------------------------------------------------------------------------------
// lock-step executor

type lockExec struct {
	ch      *statsd.CloudHandler
	cache   *scriptCache
	down    *capHandler
	ctx     context.Context
	cancel  context.CancelFunc
	runDone chan struct{}
	wedged  bool // Run stopped serving its channels: the rest of the case is skipped

	regLoaded bool     // harness belief: Run's send register holds a source (only used to pick timeouts)
	sent      []string // received on IpSink, unanswered (harness bookkeeping for the generator)
	answered  []string
	steps     []string
	done      []opIn
	trace     []interface{}
	monitors  []string

	nPark, nHit, nInfoBoth, nInfoSpurious, nInfoDup, nPosRelease, nNegRelease, nSend, nMixed, nMultiSrc, nCollide, nDeepStack int
}

func newLockExec() *lockExec {
	c := newScriptCache()
	d := newCapHandler()
	ctx, cancel := context.WithCancel(context.Background())
	x := &lockExec{ch: statsd.NewCloudHandler(c, d), cache: c, down: d, ctx: ctx, cancel: cancel, runDone: make(chan struct{})}
	go func() { x.ch.Run(ctx); close(x.runDone) }()
	return x
}

func removeOne(l []string, s string) []string {
	for i, x := range l {
		if x == s {
			return append(append([]string(nil), l[:i]...), l[i+1:]...)
		}
	}
	return l
}

func contains(l []string, s string) bool {
	for _, x := range l {
		if x == s {
			return true
		}
	}
	return false
}

func (x *lockExec) setPeek(p []peekEnt) {
	t := map[gostatsd.Source]*gostatsd.Instance{}
	for _, e := range p {
		if _, dup := t[gostatsd.Source(e.S)]; dup {
			continue
		}
		t[gostatsd.Source(e.S)] = toInstance(e.I)
	}
	x.cache.set(t)
}

// the first entry per source wins in peek_of as in setPeek
func dedupPeek(p []peekEnt) []peekEnt {
	seen := map[string]bool{}
	var out []peekEnt
	for _, e := range p {
		if !seen[e.S] {
			seen[e.S] = true
			out = append(out, e)
		}
	}
	return out
}

// statser for one emit: done is closed when the last of the three queue gauges was reported
type emitCatcher struct {
	gaugeCatcher
	done chan struct{}
}

func (g *emitCatcher) Gauge(name string, v float64, tags gostatsd.Tags) {
	g.gaugeCatcher.Gauge(name, v, tags)
	if name == "cloudprovider.items_queued" {
		close(g.done)
	}
}

const wedgeTimeout = 5 * time.Second

// emitOnce pushes a statser through Run's emit arm.  The send completes only when Run is idle in its
// select, i.e. when the previous arm and the refill after it are done.
func (x *lockExec) emitOnce() ([3]float64, bool) {
	gc := &emitCatcher{gaugeCatcher: gaugeCatcher{got: map[string]float64{}}, done: make(chan struct{})}
	select {
	case x.ch.VerifEmitChan() <- gc:
	case <-time.After(wedgeTimeout):
		return [3]float64{}, false
	}
	select {
	case <-gc.done:
	case <-time.After(wedgeTimeout):
		return [3]float64{}, false
	}
	g1, ok1 := gc.got["cloudprovider.hosts_queued|type:metric"]
	g2, ok2 := gc.got["cloudprovider.hosts_queued|type:event"]
	g3, ok3 := gc.got["cloudprovider.items_queued|type:event"]
	if !(ok1 && ok2 && ok3) {
		x.monitors = append(x.monitors, fmt.Sprintf("step %d: emit did not report the three queue gauges: %v", len(x.steps), gc.got))
	}
	return [3]float64{g1, g2, g3}, true
}

// barrier = two emit arms; after the second one was served the loop iteration of the preceding
// arm is complete and nothing of Run's state changes until the next arm
func (x *lockExec) barrier() ([3]float64, bool) {
	a, ok := x.emitOnce()
	if !ok {
		return a, false
	}
	b, ok := x.emitOnce()
	if ok && a != b {
		x.monitors = append(x.monitors, fmt.Sprintf("step %d: two consecutive emits reported different gauges %v / %v", len(x.steps), a, b))
	}
	return b, ok
}

func (x *lockExec) wedge(what string) bool {
	x.wedged = true
	x.monitors = append(x.monitors, fmt.Sprintf("step %d: %s within %v: Run no longer serves its channels", len(x.steps), what, wedgeTimeout))
	return false
}

func keysOf(st statsd.VerifCloudState) map[string]bool {
	k := map[string]bool{}
	for s := range st.AwaitingMetrics {
		k[string(s)] = true
	}
	for s := range st.AwaitingEvents {
		k[string(s)] = true
	}
	return k
}

// exec runs one op against the real Run loop; false = the op is not enabled (nothing pending to send)
func (x *lockExec) exec(op opIn) bool {
	if x.wedged {
		return false
	}
	var label string
	tr := map[string]interface{}{"op": op.Op}
	wantM, wantE := 0, 0 // asynchronous deliveries to wait for
	pre := x.ch.VerifState()
	dctx, dcancel := context.WithTimeout(context.Background(), wedgeTimeout)
	defer dcancel()
	switch op.Op {
	case "metrics":
		announce("OP", op)
		mm := mmgen.Build(op.Dps)
		entries := mmgen.Entries(mm)
		x.setPeek(op.Peek)
		x.ch.DispatchMetricMap(dctx, mm)
		if dctx.Err() != nil {
			return x.wedge("the misses of DispatchMetricMap were not received")
		}
		srcs := map[string]bool{}
		missed := false
		for _, d := range op.Dps {
			srcs[d.Source] = true
			if _, hit := x.cache.Peek(gostatsd.Source(d.Source)); !hit && d.Source != "" {
				missed = true
			}
		}
		if missed {
			x.nPark++
		}
		if len(srcs) > 1 {
			x.nMultiSrc++
		}
		label = hlib.App("ArriveMetrics", entries, coqPeek(dedupPeek(op.Peek)))
		tr["series"] = mmgen.Size(mm)
	case "event":
		announce("OP", op)
		e := op.Ev.event()
		x.setPeek(op.Peek)
		label = hlib.App("ArriveEvent", coqEvent(e), coqPeek(dedupPeek(op.Peek)))
		x.ch.DispatchEvent(dctx, e)
		if dctx.Err() != nil {
			return x.wedge("the event of DispatchEvent was not received")
		}
		if _, hit := x.cache.Peek(gostatsd.Source(op.Ev.Src)); !hit && op.Ev.Src != "" {
			x.nPark++
			tr["parked"] = true
		}
		tr["src"] = op.Ev.Src
	case "send":
		// play the cache: receive what Run offers on IpSink()
		wait := 300 * time.Microsecond
		if x.regLoaded {
			wait = wedgeTimeout
		}
		select {
		case s := <-x.cache.sink:
			op.S = string(s)
		case <-time.After(wait):
			if x.regLoaded {
				announce("OP", op)
				x.monitors = append(x.monitors, fmt.Sprintf("step %d: lookups are pending (toLookupIPs=%q) but nothing was offered on IpSink() within %v",
					len(x.steps), pre.ToLookup, wait))
				x.regLoaded = false
			}
			return false
		}
		announce("OP", op)
		x.sent = append(x.sent, op.S)
		x.nSend++
		if len(pre.ToLookup) >= 2 {
			x.nDeepStack++
		}
		label = hlib.App("SendLookup", hlib.Bytes(op.S))
		tr["s"] = op.S
	case "info":
		announce("OP", op)
		src := gostatsd.Source(op.S)
		if pre.AwaitingMetrics[src] != nil {
			wantM = 1
		}
		wantE = len(pre.AwaitingEvents[src])
		if wantM == 1 && wantE > 0 {
			x.nInfoBoth++
		}
		if wantM+wantE > 0 {
			if op.I != nil {
				x.nPosRelease++
			} else {
				x.nNegRelease++
			}
		}
		if contains(x.sent, op.S) {
			x.sent = removeOne(x.sent, op.S)
			x.answered = append(x.answered, op.S)
		} else if contains(x.answered, op.S) {
			x.nInfoDup++
		} else {
			x.nInfoSpurious++
		}
		select {
		case x.cache.source <- gostatsd.InstanceInfo{IP: src, Instance: toInstance(op.I)}:
		case <-time.After(wedgeTimeout):
			return x.wedge("the lookup result was not received from InfoSource()")
		}
		label = hlib.App("Info", hlib.Bytes(op.S), coqInst(toInstance(op.I)))
		tr["s"], tr["found"], tr["release_mm"], tr["release_events"] = op.S, op.I != nil, wantM, wantE
	case "emit":
		announce("OP", op)
		label = "Emit"
	default:
		return false
	}
	g, ok := x.barrier()
	if !ok {
		return x.wedge("a statser sent on emitChan was not served")
	}
	// the releases run in fresh goroutines: wait for exactly what the handler's own state promised
	if wantM+wantE > 0 {
		if !x.down.waitFor(wantM, wantE, wedgeTimeout) {
			m, e := x.down.counts()
			x.monitors = append(x.monitors, fmt.Sprintf("step %d: Info %q released a parked map=%v and %d parked events but only %d maps / %d events reached downstream within 5s",
				len(x.steps), op.S, wantM == 1, wantE, m, e))
		}
	}
	x.observe(label, op, tr, pre, g)
	return true
}

func (x *lockExec) observe(label string, op opIn, tr map[string]interface{}, pre statsd.VerifCloudState, g [3]float64) {
	mms, evs := x.down.take()
	nHit := 0
	mmDumps := make([]string, len(mms))
	for i, m := range mms {
		mmDumps[i] = mmgen.Entries(m)
		nHit += mmgen.Size(m)
	}
	if op.Op == "metrics" || op.Op == "event" {
		x.nHit += nHit + len(evs)
		if op.Op == "metrics" {
			// series that entered as hits but left merged: a collision after re-keying
			hits := 0
			for _, d := range op.Dps {
				if _, hit := x.cache.Peek(gostatsd.Source(d.Source)); hit || d.Source == "" {
					hits++
				}
			}
			in := mmgen.Build(op.Dps)
			inHit := 0
			count := func(src gostatsd.Source) {
				if _, hit := x.cache.Peek(src); hit || src == "" {
					inHit++
				}
			}
			in.Counters.Each(func(_, _ string, c gostatsd.Counter) { count(c.Source) })
			in.Gauges.Each(func(_, _ string, c gostatsd.Gauge) { count(c.Source) })
			in.Timers.Each(func(_, _ string, c gostatsd.Timer) { count(c.Source) })
			in.Sets.Each(func(_, _ string, c gostatsd.Set) { count(c.Source) })
			if nHit < inHit {
				x.nCollide++
				tr["collided"] = inHit - nHit
			}
		}
	}
	st := x.ch.VerifState()
	// belief about the send register (see exec "send")
	pushes := 0
	pk := keysOf(pre)
	for k := range keysOf(st) {
		if !pk[k] {
			pushes++
		}
	}
	switch {
	case len(st.ToLookup) > 0:
		x.regLoaded = true
	case op.Op == "send":
		x.regLoaded = len(pre.ToLookup) >= 1
	default:
		x.regLoaded = x.regLoaded || pushes >= 1
	}
	var mk, ek []string
	for k := range st.AwaitingMetrics {
		mk = append(mk, string(k))
	}
	for k := range st.AwaitingEvents {
		ek = append(ek, string(k))
	}
	sort.Strings(mk)
	sort.Strings(ek)
	both := 0
	aM := make([]string, len(mk))
	for i, k := range mk {
		aM[i] = hlib.Pair(hlib.Bytes(k), mmgen.Entries(st.AwaitingMetrics[gostatsd.Source(k)]))
		if _, ok := st.AwaitingEvents[gostatsd.Source(k)]; ok {
			both++
		}
	}
	if both > 0 {
		x.nMixed++
	}
	aE := make([]string, len(ek))
	for i, k := range ek {
		aE[i] = hlib.Pair(hlib.Bytes(k), coqEvents(st.AwaitingEvents[gostatsd.Source(k)]))
	}
	look := make([]string, len(st.ToLookup))
	lookS := make([]string, len(st.ToLookup))
	for i, s := range st.ToLookup {
		look[i] = hlib.Bytes(string(s))
		lookS[i] = string(s)
	}
	obs := hlib.App("Obs", hlib.List(mmDumps), coqEvents(evs), hlib.List(aM), hlib.List(aE), hlib.List(look),
		"("+zOfFloat(g[0])+", "+zOfFloat(g[1])+", "+zOfFloat(g[2])+")")
	x.steps = append(x.steps, hlib.Pair(label, obs))
	x.done = append(x.done, op)
	tr["down_maps"], tr["down_events"] = len(mms), len(evs)
	tr["waitM"], tr["waitE"], tr["toLookup"] = mk, ek, lookS
	tr["gauges"] = g
	x.trace = append(x.trace, tr)
}

func (x *lockExec) finish() hlib.Case {
	// nothing may reach downstream after the last label was observed
	time.Sleep(300 * time.Microsecond)
	x.cancel()
	select {
	case <-x.runDone:
	case <-time.After(wedgeTimeout):
		x.monitors = append(x.monitors, "Run did not return after its context was cancelled")
	}
	if m, e := x.down.counts(); m+e > 0 {
		x.monitors = append(x.monitors, fmt.Sprintf("%d maps / %d events reached downstream after the last label had completed (duplicate release)", m, e))
	}
	in := input{Kind: "lock", Ops: x.done}
	class := "lock/plain"
	switch {
	case x.nInfoBoth > 0:
		class = "lock/metrics+events-of-one-source-released"
	case x.nMixed > 0:
		class = "lock/metrics+events-of-one-source-parked"
	case x.nPosRelease+x.nNegRelease > 0:
		class = "lock/released"
	case x.nPark > 0:
		class = "lock/parked-only"
	}
	if x.nCollide > 0 {
		class += "+collision"
	}
	if x.nDeepStack > 0 {
		class += "+stack>=2"
	}
	tr := x.trace
	if len(tr) > 40 {
		tr = tr[:40]
	}
	return hlib.Case{
		Input:      in,
		Obs:        map[string]interface{}{"steps": tr, "n_steps": len(x.steps)},
		Coq:        hlib.App("Case", hlib.List(x.steps)),
		Monitors:   x.monitors,
		Class:      class,
		Nontrivial: x.nPark >= 2 && x.nPosRelease+x.nNegRelease >= 1 && x.nHit >= 1 && (x.nMixed >= 1 || x.nCollide >= 1 || x.nDeepStack >= 1),
	}
}

func runLock(in input) hlib.Case {
	x := newLockExec()
	for _, op := range in.Ops {
		x.exec(op)
	}
	return x.finish()
}

// ---------------------------------------------------------------------------------------
// generator: ops are chosen looking at the executor's state, then executed

type world struct {
	sources []string
	names   []string
	tags    []string
	insts   map[string][]instIn // per source: one or two versions of its instance
	known   map[string]*peekEnt // the evolving scripted cache
	shared  []instIn            // versions of one instance several addresses resolve to (same id; with / without tags)
	ts      int64
	evn     int
}

var c11TagAlpha = "abcxyz_./-019"

func rstr(r *hlib.Rand, lo, hi int, alpha string) string {
	n := r.Range(lo, hi)
	b := make([]byte, n)
	for i := range b {
		b[i] = alpha[r.Intn(len(alpha))]
	}
	return string(b)
}

func newWorld(r *hlib.Rand, backlog bool) *world {
	w := &world{insts: map[string][]instIn{}, known: map[string]*peekEnt{}, ts: 1000}
	ns := r.Range(1, 4)
	if backlog {
		ns = r.Range(3, 6)
	}
	for i := 0; i < ns; i++ {
		w.sources = append(w.sources, fmt.Sprintf("10.0.%d.%d", r.Intn(3), i+1))
	}
	for i, n := 0, r.Range(2, 4); i < n; i++ {
		w.names = append(w.names, rstr(r, 1, 6, "abcdefgh.XY_-09"))
	}
	for i, n := 0, r.Range(2, 5); i < n; i++ {
		w.tags = append(w.tags, rstr(r, 1, 3, c11TagAlpha)+":"+rstr(r, 0, 3, c11TagAlpha))
	}
	for i, s := range w.sources {
		nv := 1
		if r.Chance(1, 4) {
			nv = 2
		}
		for v := 0; v < nv; v++ {
			in := instIn{ID: fmt.Sprintf("i-%d%s", i, []string{"", "b"}[v]), Tags: []string{}}
			for k, n := 0, r.Intn(3); k < n; k++ {
				in.Tags = append(in.Tags, "it"+rstr(r, 1, 2, c11TagAlpha)+":"+hlib.Pick(r, []string{"x", "y", "zone-a"}))
			}
			w.insts[s] = append(w.insts[s], in)
		}
	}
	// several addresses of one instance: the same id with the full tag set, with a part of it, with none.
	// The instance's tags are also tags datapoints carry themselves, so that series which differ only in what
	// the instance adds become one series after the update.
	if len(w.sources) >= 2 && r.Chance(2, 3) {
		full := []string{}
		for k, n := 0, r.Intn(3); k < n; k++ {
			full = append(full, "sh"+rstr(r, 1, 1, "abc")+":"+hlib.Pick(r, []string{"x", "y"}))
		}
		id := "i-shared"
		if r.Chance(1, 5) {
			id = w.sources[0] // an instance id that is itself an address other datapoints come from
		}
		w.shared = []instIn{{ID: id, Tags: full}, {ID: id, Tags: []string{}}}
		if len(full) == 2 {
			w.shared = append(w.shared, instIn{ID: id, Tags: full[:1]})
		}
		w.tags = append(w.tags, full...)
		for _, s := range w.sources {
			if r.Chance(2, 3) && s != id {
				w.insts[s] = append(w.insts[s], w.shared...)
			}
		}
	}
	return w
}

// collision builds one batch in which series of different addresses become the same series once the
// cache hits are applied: same name and type, tags = base + (what the address's instance version lacks)
func (w *world) collision(r *hlib.Rand) (dps []mmgen.Dp, peek []peekEnt) {
	full := w.shared[0].Tags
	base := w.pickTags(r)
	name := hlib.Pick(r, w.names)
	typ := r.Range(1, 4)
	var users []string
	for _, s := range w.sources {
		if len(w.insts[s]) > 0 && w.insts[s][len(w.insts[s])-1].ID == w.shared[0].ID {
			users = append(users, s)
		}
	}
	if len(users) < 2 {
		return nil, nil
	}
	tie := r.Chance(1, 3)
	w.ts++
	for _, s := range users {
		v := hlib.Pick(r, w.shared)
		vv := v
		peek = append(peek, peekEnt{S: s, I: &vv})
		tags := append([]string{}, base...)
		for _, t := range full { // the tags this version does not add are on the datapoint already
			if !contains(v.Tags, t) {
				tags = append(tags, t)
			}
		}
		for k, n := 0, r.Range(1, 2); k < n; k++ {
			d := w.dp(r, s)
			d.Name, d.Type, d.Tags = name, typ, tags
			if gostatsd.MetricType(typ) == gostatsd.SET {
				d.StrVal, d.Rate, d.Value = hlib.Pick(r, []string{"", "u1", "u2", "u 3", "x"}), math.Float64bits(1), 0
			} else {
				d.StrVal, d.Value = "", math.Float64bits(mmgen.ExactValue(r))
			}
			if tie {
				d.TS = w.ts
			}
			dps = append(dps, d)
		}
	}
	if w.shared[0].ID == w.sources[0] && r.Chance(1, 2) {
		// a datapoint that comes from the address the instance id equals, with a negative cache entry
		d := w.dp(r, w.sources[0])
		d.Name, d.Type, d.Tags = name, typ, append(append([]string{}, base...), full...)
		if gostatsd.MetricType(typ) == gostatsd.SET {
			d.StrVal, d.Rate, d.Value = "x", math.Float64bits(1), 0
		}
		dps = append(dps, d)
		peek = append(peek, peekEnt{S: w.sources[0]})
	}
	// a few unrelated datapoints in the same batch
	for k, n := 0, r.Intn(3); k < n; k++ {
		dps = append(dps, w.dp(r, w.src(r)))
	}
	return dps, peek
}

func (w *world) src(r *hlib.Rand) string {
	if r.Chance(1, 9) {
		return ""
	}
	return hlib.Pick(r, w.sources)
}

func (w *world) pickTags(r *hlib.Rand) []string {
	nt := []int{0, 0, 1, 1, 2, 3}[r.Intn(6)]
	t := []string{}
	for i := 0; i < nt; i++ {
		t = append(t, hlib.Pick(r, w.tags))
	}
	return t
}

// the cache as the next caller sees it: mostly the evolving table, sometimes perturbed (an entry
// expired, an entry appeared through a refresh, a stale negative entry)
func (w *world) peek(r *hlib.Rand) []peekEnt {
	var p []peekEnt
	for _, s := range w.sources {
		e := w.known[s]
		switch r.Intn(12) {
		case 0:
			e = nil
		case 1:
			in := hlib.Pick(r, w.insts[s])
			e = &peekEnt{S: s, I: &in}
		case 2:
			e = &peekEnt{S: s}
		}
		if e != nil {
			p = append(p, *e)
		}
	}
	return p
}

func (w *world) dp(r *hlib.Rand, src string) mmgen.Dp {
	w.ts += int64(r.Intn(3))
	d := mmgen.Dp{Name: hlib.Pick(r, w.names), Type: r.Range(1, 4), Source: src, TS: w.ts, Tags: w.pickTags(r)}
	d.Rate = math.Float64bits(hlib.Pick(r, mmgen.ExactRates))
	switch gostatsd.MetricType(d.Type) {
	case gostatsd.SET:
		d.StrVal = hlib.Pick(r, []string{"", "u1", "u2", "u 3", "x"})
		d.Rate = math.Float64bits(1)
	default:
		d.Value = math.Float64bits(mmgen.ExactValue(r))
	}
	return d
}

func (w *world) event(r *hlib.Rand) *evIn {
	w.evn++
	e := &evIn{Title: fmt.Sprintf("ev%d", w.evn), Text: rstr(r, 0, 8, "abc \n|:"), Date: 1700000000 + int64(r.Intn(1000)), Tags: w.pickTags(r), Src: w.src(r),
		Prio: r.Intn(2), Alert: r.Intn(4)}
	if r.Chance(1, 3) {
		e.Agg = rstr(r, 1, 4, "abck")
	}
	if r.Chance(1, 3) {
		e.Stn = rstr(r, 1, 4, "nagios")
	}
	// events of one source are sometimes identical on purpose (the multiset must keep both)
	if r.Chance(1, 10) {
		e.Title = "same"
		e.Text = ""
		e.Date = 1700000000
		e.Tags = []string{}
		e.Agg, e.Stn, e.Prio, e.Alert = "", "", 0, 0
	}
	return e
}

func genLock(r *hlib.Rand, tier string) hlib.Case {
	// a share of the cases lets lookups pile up (several addresses, few sends at first), so that the
	// order in which the stack is drained matters
	backlog := r.Chance(1, 4)
	w := newWorld(r, backlog)
	x := newLockExec()
	n := r.Range(6, 28)
	if tier == "thorough" && r.Chance(1, 8) {
		n = r.Range(30, 80)
	}
	// a share of the cases hammers one source with events and metrics around its lookup
	focus := ""
	if r.Chance(1, 3) {
		focus = hlib.Pick(r, w.sources)
	}
	for i := 0; i < n; i++ {
		var op opIn
		k := r.Intn(100)
		if backlog && i < n/2 && k >= 56 && k < 72 && r.Chance(3, 4) {
			k = r.Intn(56) // arrivals instead of a send
		}
		switch {
		case k < 9 && len(w.shared) > 0:
			op.Op = "metrics"
			op.Dps, op.Peek = w.collision(r)
			if len(op.Dps) == 0 {
				op.Dps, op.Peek = []mmgen.Dp{w.dp(r, w.src(r))}, w.peek(r)
			}
		case k < 32:
			op.Op = "metrics"
			nd := r.Range(1, 6)
			one := r.Chance(1, 2)
			s0 := w.src(r)
			if focus != "" && r.Chance(2, 3) {
				s0, one = focus, true
			}
			for j := 0; j < nd; j++ {
				s := s0
				if !one {
					s = w.src(r)
				}
				op.Dps = append(op.Dps, w.dp(r, s))
			}
			op.Peek = w.peek(r)
		case k < 56:
			op.Op = "event"
			op.Ev = w.event(r)
			if focus != "" && r.Chance(2, 3) {
				op.Ev.Src = focus
			}
			op.Peek = w.peek(r)
		case k < 72:
			op.Op = "send"
		case k < 95:
			op.Op = "info"
			st := x.ch.VerifState()
			var waiting []string
			for s := range st.AwaitingMetrics {
				waiting = append(waiting, string(s))
			}
			for s := range st.AwaitingEvents {
				if _, ok := st.AwaitingMetrics[s]; !ok {
					waiting = append(waiting, string(s))
				}
			}
			sort.Strings(waiting)
			switch c := r.Intn(20); {
			case c < 14 && len(x.sent) > 0:
				op.S = hlib.Pick(r, x.sent)
			case c < 16 && len(waiting) > 0:
				op.S = hlib.Pick(r, waiting) // a refresh result: releases early, maybe before the lookup left
			case c < 18 && len(x.answered) > 0:
				op.S = hlib.Pick(r, x.answered) // duplicate answer
			case c < 19:
				op.S = hlib.Pick(r, w.sources) // anything
			default:
				op.S = "192.168.9.9" // a source never seen
			}
			switch r.Intn(4) {
			case 0: // not found: negative cache entry
				w.known[op.S] = &peekEnt{S: op.S}
			case 1: // lookup error: nothing cached
			default:
				if vs := w.insts[op.S]; len(vs) > 0 {
					in := hlib.Pick(r, vs)
					op.I = &in
					w.known[op.S] = &peekEnt{S: op.S, I: &in}
				} else {
					op.I = &instIn{ID: "i-x", Tags: []string{"it:q"}}
				}
			}
		default:
			op.Op = "emit"
		}
		x.exec(op)
	}
	return x.finish()
}
