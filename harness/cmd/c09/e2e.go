// Stream "e2e" of C09: the real standalone pipeline as statsd.Server wires it
// (RunWithCustomSocket: real loopback UDP socket -> DatagramReceiver -> DatagramParser -> tag
// handler -> BackendHandler / MetricAggregator -> MetricFlusher -> capturing backend) on the
// real clock.  The "last datapoint at T" of C09 is the receiver's arrival stamp; this stream
// is the only one in which the implementation, not the harness, supplies it.
//
// A share of the cases delivers the datapoints by POST /v2/raw to the server's own HTTP ingestion
// endpoint (pkg/web translateFromProtobufV2 stamps the series) instead of UDP.
//
// Script: send datapoint 1 of a series, wait until a flush reports it, stay silent for longer
// than the type's expiry interval, send datapoint 2 (send instant S taken BEFORE the write),
// watch the flushes.  No model is involved; the monitor uses only sound bounds:
//
//	D = first flush that carries datapoint 2.  Its stamp T satisfies S <= T <= at(D).
//	persist: a flush k > D with at(k) - S <= expiry - margin must report the series (idle):
//	         every earlier Reset j < k ran before at(k), so now_j - T < at(k) - S <= expiry.
//	expire:  a flush k > j >= D with at(j) - at(D) > expiry + margin must not report it:
//	         Reset j ran after at(j), so now_j - T > at(j) - at(D) > expiry.
//
// Timing noise can only make a case inconclusive (no flush inside a window), never a violation.
package main

import (
	"bytes"
	"context"
	"fmt"
	"io"
	"math"
	"net"
	"net/http"
	"sync"
	"time"

	"github.com/spf13/viper"
	"google.golang.org/protobuf/proto"

	"github.com/atlassian/gostatsd"
	"github.com/atlassian/gostatsd/pb"
	"github.com/atlassian/gostatsd/pkg/statsd"

	"verifharness/hlib"
)

type e2eIn struct {
	Type     int `json:"type"`      // gostatsd.MetricType under test
	FlushMs  int `json:"flush_ms"`  // flush interval
	ExpiryMs int `json:"expiry_ms"` // expiry interval of the type under test
	QuietMs  int `json:"quiet_ms"`  // silence between the two datapoints (> expiry)
	OtherMs  int `json:"other_ms"`  // expiry interval of the three other types
	// "udp" (default): statsd lines on the loopback socket; "http": pb.RawMessageV2 posted to the
	// server's own /v2/raw ingestion endpoint (the receiver stamps the series there)
	Via string `json:"via,omitempty"`
}

const e2eMargin = 20 * time.Millisecond

type e2eFlush struct {
	at      time.Time
	present bool
	fresh   bool // carries datapoint 2
	idle    bool // reported with the idle value of its type
	desc    string
}

type e2eBackend struct {
	ty gostatsd.MetricType
	mu sync.Mutex
	fl []e2eFlush
}

func (b *e2eBackend) Name() string                                           { return "c09e2e" }
func (b *e2eBackend) SendEvent(ctx context.Context, e *gostatsd.Event) error { return nil }
func (b *e2eBackend) SendMetricsAsync(ctx context.Context, m *gostatsd.MetricMap, cb gostatsd.SendCallback) {
	f := e2eFlush{at: time.Now()}
	switch b.ty {
	case gostatsd.COUNTER:
		m.Counters.Each(func(n, _ string, c gostatsd.Counter) {
			if n == "x" {
				f.present, f.fresh, f.idle = true, c.Value == 5, c.Value == 0 && c.PerSecond == 0
				f.desc = fmt.Sprintf("counter %d rate %v", c.Value, c.PerSecond)
			}
		})
	case gostatsd.GAUGE:
		m.Gauges.Each(func(n, _ string, g gostatsd.Gauge) {
			if n == "x" {
				f.present, f.fresh, f.idle = true, g.Value == 7, g.Value == 7
				f.desc = fmt.Sprintf("gauge %v", g.Value)
			}
		})
	case gostatsd.SET:
		m.Sets.Each(func(n, _ string, s gostatsd.Set) {
			if n == "x" {
				_, has := s.Values["m2"]
				f.present, f.fresh, f.idle = true, has, len(s.Values) == 0
				f.desc = fmt.Sprintf("set of %d", len(s.Values))
			}
		})
	case gostatsd.TIMER:
		m.Timers.Each(func(n, _ string, t gostatsd.Timer) {
			if n == "x" {
				has := false
				for _, v := range t.Values {
					has = has || v == 9
				}
				f.present, f.fresh = true, has
				f.idle = len(t.Values) == 0 && t.Count == 0 && t.PerSecond == 0 && len(t.Percentiles) == 0
				f.desc = fmt.Sprintf("timer count %d values %v percentiles %d", t.Count, t.Values, len(t.Percentiles))
			}
		})
	}
	b.mu.Lock()
	b.fl = append(b.fl, f)
	b.mu.Unlock()
	cb(nil)
}

func (b *e2eBackend) snapshot() []e2eFlush {
	b.mu.Lock()
	defer b.mu.Unlock()
	return append([]e2eFlush(nil), b.fl...)
}

// the same two datapoints as a /v2/raw body
func e2eRaw(ty gostatsd.MetricType, second bool) ([]byte, error) {
	m := &pb.RawMessageV2{}
	switch ty {
	case gostatsd.COUNTER:
		v := int64(3)
		if second {
			v = 5
		}
		m.Counters = map[string]*pb.CounterTagV2{"x": {TagMap: map[string]*pb.RawCounterV2{"": {Value: v}}}}
	case gostatsd.GAUGE:
		v := 2.0
		if second {
			v = 7
		}
		m.Gauges = map[string]*pb.GaugeTagV2{"x": {TagMap: map[string]*pb.RawGaugeV2{"": {Value: v}}}}
	case gostatsd.SET:
		v := "m1"
		if second {
			v = "m2"
		}
		m.Sets = map[string]*pb.SetTagV2{"x": {TagMap: map[string]*pb.RawSetV2{"": {Values: []string{v}}}}}
	case gostatsd.TIMER:
		v := 4.0
		if second {
			v = 9
		}
		m.Timers = map[string]*pb.TimerTagV2{"x": {TagMap: map[string]*pb.RawTimerV2{"": {Values: []float64{v}, SampleCount: 1}}}}
	}
	return proto.Marshal(m)
}

var e2eLines = map[gostatsd.MetricType][2]string{
	gostatsd.COUNTER: {"x:3|c\n", "x:5|c\n"},
	gostatsd.GAUGE:   {"x:2|g\n", "x:7|g\n"},
	gostatsd.SET:     {"x:m1|s\n", "x:m2|s\n"},
	gostatsd.TIMER:   {"x:4|ms\n", "x:9|ms\n"},
}

func runE2E(in input) hlib.Case {
	e := in.E2E
	c := hlib.Case{Input: in, Class: "e2e"}
	ty := gostatsd.MetricType(e.Type)
	flush, expiry := time.Duration(e.FlushMs)*time.Millisecond, time.Duration(e.ExpiryMs)*time.Millisecond
	quiet, other := time.Duration(e.QuietMs)*time.Millisecond, time.Duration(e.OtherMs)*time.Millisecond
	lines, ok := e2eLines[ty]
	if !ok || flush <= 0 || expiry <= 0 {
		c.Class = "e2e:bad-input"
		return c
	}
	exp := func(t gostatsd.MetricType) time.Duration {
		if t == ty {
			return expiry
		}
		return other
	}
	conn, err := net.ListenPacket("udp4", "127.0.0.1:0")
	if err != nil {
		c.Class = "e2e:no-loopback"
		c.Obs = err.Error()
		return c
	}
	backend := &e2eBackend{ty: ty}
	v := viper.New()
	viaHTTP, httpAddr := e.Via == "http", ""
	if viaHTTP {
		c.Class = "e2e:http"
		probe, err := net.Listen("tcp4", "127.0.0.1:0")
		if err != nil {
			conn.Close()
			c.Class = "e2e:no-loopback"
			return c
		}
		httpAddr = probe.Addr().String()
		probe.Close()
		v.Set("http-servers", []string{"ing"})
		v.Set("http.ing.address", httpAddr)
		v.Set("http.ing.enable-ingestion", true)
	}
	srv := statsd.Server{
		Backends:              []gostatsd.Backend{backend},
		ExpiryIntervalCounter: exp(gostatsd.COUNTER),
		ExpiryIntervalGauge:   exp(gostatsd.GAUGE),
		ExpiryIntervalSet:     exp(gostatsd.SET),
		ExpiryIntervalTimer:   exp(gostatsd.TIMER),
		FlushInterval:         flush,
		MaxReaders:            1,
		MaxParsers:            1,
		MaxWorkers:            1,
		MaxQueueSize:          100,
		MaxConcurrentEvents:   2,
		EstimatedTags:         1,
		PercentThreshold:      []float64{90},
		ReceiveBatchSize:      4,
		IgnoreHost:            true,
		StatserType:           gostatsd.StatserNull,
		ServerMode:            "standalone",
		Viper:                 v,
	}
	ctx, cancel := context.WithCancel(context.Background())
	done := make(chan error, 1)
	go func() { done <- srv.RunWithCustomSocket(ctx, func() (net.PacketConn, error) { return conn, nil }) }()
	stop := func() {
		cancel()
		select {
		case <-done:
		case <-time.After(5 * time.Second):
			c.Monitors = append(c.Monitors, "server did not stop within 5 s of cancelling its context")
		}
	}
	sender, err := net.Dial("udp4", conn.LocalAddr().String())
	if err != nil {
		stop()
		c.Class = "e2e:no-loopback"
		return c
	}
	defer sender.Close()
	client := &http.Client{Transport: &http.Transport{DisableKeepAlives: true}, Timeout: 3 * time.Second}
	// deliver one of the two datapoints; false = the server did not accept it
	send := func(second bool) bool {
		if !viaHTTP {
			line := lines[0]
			if second {
				line = lines[1]
			}
			_, err := sender.Write([]byte(line))
			return err == nil
		}
		body, err := e2eRaw(ty, second)
		if err != nil {
			return false
		}
		resp, err := client.Post("http://"+httpAddr+"/v2/raw", "application/x-protobuf", bytes.NewReader(body))
		if err != nil {
			return false
		}
		io.Copy(io.Discard, resp.Body)
		resp.Body.Close()
		return resp.StatusCode == http.StatusAccepted
	}
	if viaHTTP {
		up := false
		for i := 0; i < 600 && !up; i++ {
			if resp, err := client.Get("http://" + httpAddr + "/healthcheck"); err == nil {
				io.Copy(io.Discard, resp.Body)
				resp.Body.Close()
				up = true
			} else {
				time.Sleep(5 * time.Millisecond)
			}
		}
		if !up {
			stop()
			c.Class = "e2e:inconclusive"
			c.Obs = "the HTTP server did not come up at " + httpAddr
			return c
		}
	}

	// datapoint 1, and wait until a flush has reported it
	if !send(false) {
		stop()
		c.Class = "e2e:inconclusive"
		c.Obs = "datapoint 1 was not accepted"
		return c
	}
	seen1 := false
	for deadline := time.Now().Add(3 * time.Second); !seen1 && time.Now().Before(deadline); time.Sleep(5 * time.Millisecond) {
		for _, f := range backend.snapshot() {
			seen1 = seen1 || f.present
		}
	}
	if !seen1 {
		stop()
		c.Class = "e2e:inconclusive"
		c.Obs = "datapoint 1 was not reported within 3 s"
		return c
	}
	time.Sleep(quiet)
	sendAt := time.Now() // S: taken before the write / POST, so S <= arrival stamp
	if !send(true) {
		stop()
		c.Class = "e2e:inconclusive"
		c.Obs = "datapoint 2 was not accepted"
		return c
	}
	time.Sleep(expiry + 4*flush + 60*time.Millisecond)
	stop()

	fl := backend.snapshot()
	D := -1
	for i, f := range fl {
		if f.fresh && !f.at.Before(sendAt) {
			D = i
			break
		}
	}
	if D < 0 {
		c.Class = "e2e:inconclusive"
		c.Obs = "no flush carried datapoint 2"
		return c
	}
	persistChecked, expireChecked := 0, 0
	ms := func(d time.Duration) float64 { return math.Round(float64(d)/1e4) / 100 }
	for k := D + 1; k < len(fl); k++ {
		age := fl[k].at.Sub(sendAt)
		if age <= expiry-e2eMargin {
			persistChecked++
			if !fl[k].present {
				c.Monitors = append(c.Monitors, fmt.Sprintf("series dropped early: flush %.2f ms after its last datapoint was SENT by %s (expiry %v, no traffic for %v before it) does not report it; the data flush was at %.2f ms",
					ms(age), map[bool]string{false: "UDP", true: "POST /v2/raw"}[viaHTTP], expiry, quiet, ms(fl[D].at.Sub(sendAt))))
			} else if !fl[k].idle {
				c.Monitors = append(c.Monitors, fmt.Sprintf("persisted series not idle %.2f ms after its last datapoint: %s", ms(age), fl[k].desc))
			}
		}
		expired := false
		for j := D; j < k; j++ {
			expired = expired || fl[j].at.Sub(fl[D].at) > expiry+e2eMargin
		}
		if expired {
			expireChecked++
			if fl[k].present {
				c.Monitors = append(c.Monitors, fmt.Sprintf("series still reported %.2f ms after the flush that carried its last datapoint, although an earlier Reset ran more than the expiry (%v) after it", ms(fl[k].at.Sub(fl[D].at)), expiry))
			}
		}
	}
	if persistChecked == 0 && len(c.Monitors) == 0 {
		c.Class = "e2e:inconclusive"
	}
	c.Nontrivial = persistChecked >= 2
	c.Obs = map[string]interface{}{"flushes": len(fl), "data_flush_ms": ms(fl[D].at.Sub(sendAt)), "persist_checked": persistChecked, "expire_checked": expireChecked}
	if len(c.Monitors) > 3 {
		c.Monitors = c.Monitors[:3]
	}
	return c
}

// case i of a run: types cycle, the first half of every 8 arrives by POST /v2/raw, the second by UDP,
// so every quick run has each (type, transport) pair once
func genE2E(r *hlib.Rand, i int) input {
	flush := r.Range(30, 60)
	expiry := flush * 5 // 150..300 ms: several flushes inside the persistence window
	via := "udp"
	if i%8 < 4 {
		via = "http"
	}
	return input{Kind: "e2e", Class: "e2e", Ops: []opIn{}, E2E: &e2eIn{
		Type:     int(gostatsd.COUNTER) + i%4,
		FlushMs:  flush,
		ExpiryMs: expiry,
		QuietMs:  expiry + r.Range(80, 160),
		OtherMs:  hlib.Pick(r, []int{0, 10000, expiry}),
		Via:      via,
	}}
}

// runE2EBatch runs the cases concurrently (each is mostly sleeping) and returns them in order.
func runE2EBatch(ins []input) []hlib.Case {
	out := make([]hlib.Case, len(ins))
	var wg sync.WaitGroup
	for i := range ins {
		wg.Add(1)
		go func(i int) {
			defer wg.Done()
			out[i] = runE2E(ins[i])
		}(i)
	}
	wg.Wait()
	return out
}
