// C09: series persist until their type's expiry interval elapses, then disappear.
//
// Stream "hist": a history of datapoint batches and flushes is run through a real
// statsd.MetricAggregator, built through statsd.Server's standalone wiring
// (VerifStandaloneAggregator) with its clock set by VerifSetNow.  A batch is Receive'd into a
// fresh MetricMap and handed to ReceiveMap; a flush is Flush(dt); Process(observe); Reset()
// with the clock at the flush time (the sequence of flusher.go flushData).  At every flush
// the set of series given to Process and their C09-relevant values are recorded.
//
// Stream "e2e" (e2e.go): the real standalone pipeline over loopback UDP on the real clock.
//
// Stream "cfg": the real cmd/gostatsd configuration code (setupConfiguration +
// constructServer, reached through the verif hook of package main) is run on command lines /
// config files with and without expiry-interval / expiry-interval-<type>; the four intervals
// of the constructed Server are recorded.
package main

import (
	"bytes"
	"encoding/json"
	"fmt"
	"math"
	"os"
	"os/exec"
	"path/filepath"
	"sort"
	"strings"
	"time"

	"github.com/atlassian/gostatsd"
	"github.com/atlassian/gostatsd/pkg/statsd"

	"verifharness/hlib"
	"verifharness/mmgen"
)

type opIn struct {
	Op  string     `json:"op"` // data | flush
	Dps []mmgen.Dp `json:"dps,omitempty"`
	Now int64      `json:"now,omitempty"`
	Dt  int64      `json:"dt,omitempty"` // flush interval in ns (> 0)
}

type input struct {
	Kind  string   `json:"kind"` // hist | cfg | e2e
	Cfg   [4]int64 `json:"cfg"`  // counter, gauge, set, timer expiry in ns
	Lim   uint32   `json:"lim"`
	Ops   []opIn   `json:"ops"`
	Class string   `json:"class"`
	// cfg stream
	Args []string `json:"args,omitempty"`
	File string   `json:"file,omitempty"` // contents of a TOML config file ("" = none)
	// e2e stream (e2e.go)
	E2E *e2eIn `json:"e2e,omitempty"`
}

const (
	sec = int64(time.Second)
	t0  = int64(1_700_000_000) * int64(time.Second)
)

var intervalPool = []int64{-1, 0, 1, 5 * sec, 60 * sec}
var dtPool = []int64{sec / 2, sec, 2 * sec, 4 * sec}

// ---------------------------------------------------------------------------------------
// running a history

func coqCfg(c [4]int64) string {
	return hlib.App("MkCfg", hlib.Z(c[0]), hlib.Z(c[1]), hlib.Z(c[2]), hlib.Z(c[3]))
}

func coqPos(v int64) string { return "(Z.to_pos " + hlib.Z(v) + ")" }

func observe(mm *gostatsd.MetricMap) (coq []string, keys []string) {
	mm.Counters.Each(func(n, k string, c gostatsd.Counter) {
		coq = append(coq, hlib.App("OC", hlib.Bytes(n), hlib.Bytes(k), hlib.Z(c.Value), hlib.F64(c.PerSecond), hlib.Z(int64(c.Timestamp))))
		keys = append(keys, "c|"+n+"|"+k)
	})
	mm.Gauges.Each(func(n, k string, g gostatsd.Gauge) {
		coq = append(coq, hlib.App("OG", hlib.Bytes(n), hlib.Bytes(k), hlib.F64(g.Value), hlib.Z(int64(g.Timestamp))))
		keys = append(keys, "g|"+n+"|"+k)
	})
	mm.Timers.Each(func(n, k string, t gostatsd.Timer) {
		vs := make([]string, len(t.Values))
		for i, v := range t.Values {
			vs[i] = hlib.F64(v)
		}
		inf := gostatsd.HistogramThreshold(math.Inf(1))
		hinf, hasInf := t.Histogram[inf]
		allZero := true
		for b, cnt := range t.Histogram {
			if b != inf && cnt != 0 {
				allZero = false
			}
		}
		coq = append(coq, hlib.App("OT", hlib.Bytes(n), hlib.Bytes(k), hlib.List(vs), hlib.Z(int64(t.Count)), hlib.F64(t.SampledCount),
			hlib.F64(t.PerSecond), hlib.Z(int64(len(t.Percentiles))), hlib.Option(hlib.Z(int64(hinf)), hasInf), hlib.Bool(allZero), hlib.Z(int64(t.Timestamp))))
		keys = append(keys, "t|"+n+"|"+k)
	})
	mm.Sets.Each(func(n, k string, s gostatsd.Set) {
		ms := make([]string, 0, len(s.Values))
		for m := range s.Values {
			ms = append(ms, m)
		}
		sort.Strings(ms)
		coq = append(coq, hlib.App("OS", hlib.Bytes(n), hlib.Bytes(k), hlib.StrList(ms), hlib.Z(int64(s.Timestamp))))
		keys = append(keys, "s|"+n+"|"+k)
	})
	sort.Strings(coq)
	sort.Strings(keys)
	return
}

func runHist(em *hlib.Emitter, in input) {
	c := hlib.Case{Input: in, Class: in.Class}
	var ops, obs []string
	var perFlush [][]string
	msg := hlib.Recover(func() {
		srv := &statsd.Server{
			ExpiryIntervalCounter: time.Duration(in.Cfg[0]),
			ExpiryIntervalGauge:   time.Duration(in.Cfg[1]),
			ExpiryIntervalSet:     time.Duration(in.Cfg[2]),
			ExpiryIntervalTimer:   time.Duration(in.Cfg[3]),
			PercentThreshold:      []float64{90},
			HistogramLimit:        in.Lim,
			MaxWorkers:            1,
			MaxQueueSize:          1,
			MaxConcurrentEvents:   1,
			FlushInterval:         time.Second,
		}
		aggr, err := statsd.VerifStandaloneAggregator(srv)
		if err != nil {
			panic(err)
		}
		var now int64
		aggr.VerifSetNow(func() time.Time { return time.Unix(0, now) })
		for _, o := range in.Ops {
			switch o.Op {
			case "data":
				mm := gostatsd.NewMetricMap(false)
				dl := make([]string, len(o.Dps))
				for i, d := range o.Dps {
					mm.Receive(d.Metric())
					dl[i] = d.Coq()
				}
				aggr.ReceiveMap(mm)
				ops = append(ops, hlib.App("OData", hlib.List(dl)))
			case "flush":
				now = o.Now
				aggr.Flush(time.Duration(o.Dt))
				var el, keys []string
				calls := 0
				aggr.Process(func(m *gostatsd.MetricMap) {
					calls++
					el, keys = observe(m)
				})
				if calls != 1 {
					c.Monitors = append(c.Monitors, fmt.Sprintf("Process called its function %d times", calls))
				}
				aggr.Reset()
				obs = append(obs, hlib.List(el))
				perFlush = append(perFlush, keys)
				ops = append(ops, hlib.App("OFlush", hlib.Z(o.Now), coqPos(o.Dt)))
			}
		}
	})
	if msg != "" {
		c.Monitors = append(c.Monitors, "aggregator panicked: "+msg)
	}
	c.Coq = hlib.App("C09", coqCfg(in.Cfg), hlib.N(uint64(in.Lim)), hlib.List(ops), hlib.List(obs))
	// non-trivial: >= 2 flushes, and some series reported at one flush is gone at a later one
	dropped, persisted := 0, 0
	for i := 0; i+1 < len(perFlush); i++ {
		next := map[string]bool{}
		for _, k := range perFlush[i+1] {
			next[k] = true
		}
		for _, k := range perFlush[i] {
			if next[k] {
				persisted++
			} else {
				dropped++
			}
		}
	}
	c.Nontrivial = len(perFlush) >= 2 && dropped > 0 && persisted > 0
	c.Obs = map[string]int{"flushes": len(perFlush), "dropped": dropped, "persisted": persisted}
	em.Emit(c)
}

// ---------------------------------------------------------------------------------------
// generating histories

type series struct {
	name string
	ty   gostatsd.MetricType
	tags []string
	src  string
}

var namePool = []string{"a", "b.c", "req"}
var tagPool = [][]string{{}, {"t:1"}, {"z", "a:b"}}
var histTagPool = [][]string{{"gsd_histogram:10_20"}, {"x:y", "gsd_histogram:0.5_oops_7"}, {"gsd_histogram:"}, {"gsd_histogramx"}}
var memberPool = []string{"", "u1", "u2", "u 3"}

func genUniverse(r *hlib.Rand) []series {
	var u []series
	for ty := gostatsd.COUNTER; ty <= gostatsd.SET; ty++ {
		n := r.Range(1, 3)
		for i := 0; i < n; i++ {
			s := series{name: hlib.Pick(r, namePool), ty: ty, tags: hlib.Pick(r, tagPool)}
			if ty == gostatsd.TIMER && r.Chance(2, 5) {
				s.tags = hlib.Pick(r, histTagPool)
			}
			if r.Chance(1, 6) {
				s.src = "10.0.0.1"
			}
			u = append(u, s)
		}
	}
	return u
}

func (s series) dp(r *hlib.Rand, ts int64) mmgen.Dp {
	d := mmgen.Dp{Name: s.name, Type: int(s.ty), Tags: append([]string{}, s.tags...), Source: s.src, TS: ts}
	d.Rate = math.Float64bits(hlib.Pick(r, mmgen.ExactRates))
	switch s.ty {
	case gostatsd.SET:
		d.StrVal = hlib.Pick(r, memberPool)
		d.Rate = math.Float64bits(1)
	case gostatsd.COUNTER:
		d.Value = math.Float64bits(float64(r.Range(-20, 50)))
	default:
		d.Value = math.Float64bits(mmgen.ExactValue(r))
	}
	return d
}

func typeIdx(ty gostatsd.MetricType) int {
	switch ty {
	case gostatsd.COUNTER:
		return 0
	case gostatsd.GAUGE:
		return 1
	case gostatsd.SET:
		return 2
	}
	return 3
}

func genHist(r *hlib.Rand, tier string) input {
	in := input{Kind: "hist", Lim: hlib.Pick(r, []uint32{0, 1, 3, 3})}
	for i := range in.Cfg {
		in.Cfg[i] = hlib.Pick(r, intervalPool)
	}
	if r.Chance(1, 12) { // other magnitudes
		in.Cfg[r.Intn(4)] = hlib.Pick(r, []int64{-5 * sec, 2, 3 * sec, 300 * sec})
	}
	monotone := !r.Chance(1, 7)
	in.Class = "monotone"
	if !monotone {
		in.Class = "unordered"
	}
	u := genUniverse(r)
	nops := r.Range(4, 14)
	if tier == "thorough" && r.Chance(1, 4) {
		nops = r.Range(10, 40)
	}
	cur := t0
	last := map[int]int64{} // series index -> timestamp of its last datapoint
	var lastIdx []int
	advance := func() {
		if len(lastIdx) > 0 && r.Chance(3, 5) {
			// aim at T + i (+-1 ns) of a series that has data
			si := hlib.Pick(r, lastIdx)
			iv := in.Cfg[typeIdx(u[si].ty)]
			if iv <= 0 && r.Bool() {
				iv = hlib.Pick(r, []int64{1, 5 * sec})
			}
			target := last[si] + iv + int64(r.Range(-1, 1))
			if target >= cur {
				cur = target
				return
			}
		}
		cur += hlib.Pick(r, []int64{0, 0, 1, 1, 2, sec, 5*sec - 1, 5 * sec, 5*sec + 1, 30 * sec, 60 * sec, 60*sec + 1})
	}
	for i := 0; i < nops; i++ {
		advance()
		if r.Chance(9, 20) {
			in.Ops = append(in.Ops, opIn{Op: "flush", Now: cur, Dt: hlib.Pick(r, dtPool)})
			continue
		}
		nd := []int{0, 1, 1, 1, 2, 2, 3, 5}[r.Intn(8)]
		o := opIn{Op: "data"}
		for j := 0; j < nd; j++ {
			si := r.Intn(len(u))
			ts := cur
			if !monotone && r.Chance(1, 2) {
				ts = cur - hlib.Pick(r, []int64{1, 2, sec, 6 * sec, 61 * sec})
			} else if r.Chance(1, 4) {
				cur += hlib.Pick(r, []int64{1, 1, 2, sec})
				ts = cur
			}
			o.Dps = append(o.Dps, u[si].dp(r, ts))
			if _, ok := last[si]; !ok {
				lastIdx = append(lastIdx, si)
			}
			last[si] = ts
		}
		in.Ops = append(in.Ops, o)
	}
	// end on a flush most of the time
	if r.Chance(4, 5) {
		advance()
		in.Ops = append(in.Ops, opIn{Op: "flush", Now: cur, Dt: hlib.Pick(r, dtPool)})
	}
	return in
}

// ---------------------------------------------------------------------------------------
// configuration stream: the real cmd/gostatsd binary (built with -tags verif) prints the
// expiry intervals of the Server that constructServer builds

var cfgBin string

func repoDir() string {
	if d := os.Getenv("VERIF_REPO"); d != "" {
		return d
	}
	return "/repo"
}

func buildCfgBin() error {
	if cfgBin != "" {
		return nil
	}
	dir, err := os.MkdirTemp("", "c09cfg")
	if err != nil {
		return err
	}
	out := filepath.Join(dir, "gostatsd-verif")
	cmd := exec.Command("go", "build", "-tags", "verif", "-o", out, "./cmd/gostatsd")
	cmd.Dir = repoDir()
	if b, err := cmd.CombinedOutput(); err != nil {
		return fmt.Errorf("go build -tags verif ./cmd/gostatsd in %s: %v\n%s", repoDir(), err, b)
	}
	cfgBin = out
	return nil
}

func cleanupCfgBin() {
	if cfgBin != "" {
		os.RemoveAll(filepath.Dir(cfgBin))
	}
}

var paramNames = []string{"expiry-interval", "expiry-interval-counter", "expiry-interval-gauge", "expiry-interval-set", "expiry-interval-timer"}

// parameters given explicitly (by flag, or by file when no flag gives them), in paramNames order
func givenParams(in input) [5]*int64 {
	var out [5]*int64
	parse := func(s string) *int64 {
		d, err := time.ParseDuration(strings.Trim(s, "\"'"))
		if err != nil {
			return nil
		}
		v := int64(d)
		return &v
	}
	for _, line := range strings.Split(in.File, "\n") {
		kv := strings.SplitN(line, "=", 2)
		if len(kv) != 2 {
			continue
		}
		for i, n := range paramNames {
			if strings.TrimSpace(kv[0]) == n {
				out[i] = parse(strings.TrimSpace(kv[1]))
			}
		}
	}
	for _, a := range in.Args { // flags win over the file
		kv := strings.SplitN(strings.TrimPrefix(a, "--"), "=", 2)
		if len(kv) != 2 {
			continue
		}
		for i, n := range paramNames {
			if kv[0] == n {
				out[i] = parse(kv[1])
			}
		}
	}
	return out
}

func runCfg(em *hlib.Emitter, in input) {
	c := hlib.Case{Input: in, Class: in.Class}
	if err := buildCfgBin(); err != nil {
		fmt.Fprintln(os.Stderr, err)
		os.Exit(4) // a build failure of /repo: the driver reports a broken correspondence
	}
	args := append([]string{}, in.Args...)
	if in.File != "" {
		f := filepath.Join(filepath.Dir(cfgBin), "config.toml")
		if err := os.WriteFile(f, []byte(in.File), 0o600); err != nil {
			fmt.Fprintln(os.Stderr, err)
			os.Exit(3)
		}
		args = append(args, "--config-path="+f)
	}
	cmd := exec.Command(cfgBin, args...)
	cmd.Env = append(os.Environ(), "VERIF_C09_CONFIG=1")
	var stdout, stderr bytes.Buffer
	cmd.Stdout, cmd.Stderr = &stdout, &stderr
	err := cmd.Run()
	var got struct {
		Counter, Gauge, Set, Timer int64
		Err                        string
	}
	if err != nil || json.Unmarshal(bytes.TrimSpace(stdout.Bytes()), &got) != nil || got.Err != "" {
		c.Monitors = append(c.Monitors, fmt.Sprintf("cmd/gostatsd did not construct a server: %v %s %s %s", err, got.Err, stdout.String(), stderr.String()))
		em.Emit(c)
		return
	}
	g := givenParams(in)
	opt := func(p *int64) string {
		if p == nil {
			return "None"
		}
		return hlib.Option(hlib.Z(*p), true)
	}
	c.Coq = hlib.App("C09Cfg", hlib.App("MkParams", opt(g[0]), opt(g[1]), opt(g[2]), opt(g[3]), opt(g[4])),
		coqCfg([4]int64{got.Counter, got.Gauge, got.Set, got.Timer}))
	n := 0
	for _, p := range g {
		if p != nil {
			n++
		}
	}
	c.Nontrivial = n >= 2
	c.Obs = got
	em.Emit(c)
}

var durTexts = []string{"-1ns", "0", "0s", "1ns", "5s", "1m", "1m0s", "10m", "-3s", "90s", "1h"}

func genCfg(r *hlib.Rand) input {
	in := input{Kind: "cfg", Class: "cfg", Args: []string{"--backends=stdout"}, Ops: []opIn{}}
	var lines []string
	for _, n := range paramNames {
		switch r.Intn(5) {
		case 0, 1: // flag
			in.Args = append(in.Args, "--"+n+"="+hlib.Pick(r, durTexts))
		case 2: // config file
			lines = append(lines, n+" = \""+hlib.Pick(r, durTexts)+"\"")
		case 3: // both: the flag wins
			in.Args = append(in.Args, "--"+n+"="+hlib.Pick(r, durTexts))
			lines = append(lines, n+" = \""+hlib.Pick(r, durTexts)+"\"")
		}
	}
	if len(lines) > 0 {
		in.File = strings.Join(lines, "\n") + "\n"
	}
	return in
}

// ---------------------------------------------------------------------------------------

func runOne(em *hlib.Emitter, in input) {
	switch {
	case in.Kind == "cfg":
		runCfg(em, in)
	case in.Kind == "e2e" && in.E2E != nil:
		em.Emit(runE2E(in))
	default:
		runHist(em, in)
	}
}

func main() {
	a := hlib.ParseArgs()
	em := hlib.NewEmitter()
	defer em.Close()
	defer cleanupCfgBin()
	switch a.Mode {
	case "gen":
		r := hlib.NewRand(a.Seed)
		ncfg, maxCfg := a.N/25, 60
		if a.Tier == "thorough" {
			maxCfg = 400
		}
		if ncfg > maxCfg {
			ncfg = maxCfg
		}
		// real-time end-to-end cases first (before the CPU-heavy streams), concurrently
		ne2e, batch := 8, 8
		if a.Tier == "thorough" {
			ne2e = 32
		}
		if ne2e > a.N/10 {
			ne2e = a.N / 10
		}
		er := r.Fork()
		for done := 0; done < ne2e; done += batch {
			var ins []input
			for i := done; i < ne2e && i < done+batch; i++ {
				ins = append(ins, genE2E(er, i))
			}
			for _, c := range runE2EBatch(ins) {
				em.Emit(c)
			}
		}
		for n := ne2e; n < a.N; n++ {
			cr := r.Fork()
			if n < ne2e+ncfg {
				runOne(em, genCfg(cr))
			} else {
				runOne(em, genHist(cr, a.Tier))
			}
		}
	case "run":
		for _, raw := range a.Inputs {
			var in input
			if err := json.Unmarshal(raw, &in); err != nil {
				fmt.Fprintln(os.Stderr, "bad input:", err)
				os.Exit(2)
			}
			runOne(em, in)
		}
	}
}
