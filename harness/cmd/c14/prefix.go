package main

// The "prefix" stream: one small message goes through the real forwarder (zlib level 0 / 1 / 9 or
// lz4), the compressed body it produced is captured, and then EVERY proper prefix of that body
// (bodies over 300 bytes: every prefix in the last 64 bytes plus a stride over the rest) is posted
// straight to the real ingestion endpoint with the same Content-Encoding.  Oracle per prefix: the
// codec LIBRARY with its full verification (ReadAll over zlib.NewReader / lz4.NewReader); Coq
// applies C14_bad_body's decision function to each prefix: a truncated stream, a missing end mark
// or checksum must be answered with an error status and dispatch nothing.  With zlib level 0
// (stored blocks) every cut lands inside plain protobuf, many of them on a field boundary.

import (
	"bytes"
	"fmt"
	"io"
	"net/http"
	"time"

	"github.com/atlassian/gostatsd"

	"verifharness/hlib"
)

type prefixIn struct {
	Event  *eventIn `json:"event,omitempty"`
	Series []series `json:"series,omitempty"`
}

func runPrefix(em *hlib.Emitter, in input) {
	p := in.Prefix
	c := hlib.Case{Input: in, Nontrivial: true}
	encClass := in.Cfg.CType
	if encClass == "" {
		encClass = "zlib"
	}
	c.Class = fmt.Sprintf("prefix/%s/level%d", encClass, in.Cfg.Level)
	r, err := rigFor(in.Cfg)
	if err != nil {
		c.Monitors = append(c.Monitors, "cannot start forwarder and server: "+err.Error())
		em.Emit(c)
		return
	}
	for len(r.records) > 0 {
		x := <-r.records
		c.Monitors = append(c.Monitors, fmt.Sprintf("unexpected extra request %s (status %d)", x.path, x.status))
	}
	isEvent := p.Event != nil
	if isEvent {
		e := p.Event
		r.fwd.DispatchEvent(r.ctx, &gostatsd.Event{Title: e.Title, Text: e.Text, DateHappened: e.Date, AggregationKey: e.AggKey, SourceTypeName: e.SrcType,
			Tags: append(gostatsd.Tags(nil), e.Tags...), Source: gostatsd.Source(e.Source), Priority: gostatsd.Priority(e.Priority), AlertType: gostatsd.AlertType(e.Alert)})
	} else {
		r.fwd.DispatchMetricMap(r.ctx, buildMap(p.Series))
	}
	first := r.wait(10 * time.Second)
	if isEvent {
		r.fwd.WaitForEvents()
	}
	if first == nil || first.status != 202 {
		c.Monitors = append(c.Monitors, fmt.Sprintf("the forwarder's own request was not accepted: %+v", first))
		dropRig()
		em.Emit(c)
		return
	}
	body := first.body
	var cuts []int
	if len(body) <= 300 {
		for k := 0; k < len(body); k++ {
			cuts = append(cuts, k)
		}
	} else {
		stride := len(body)/150 + 1
		for k := 0; k < len(body)-64; k += stride {
			cuts = append(cuts, k)
		}
		for k := len(body) - 64; k < len(body); k++ {
			cuts = append(cuts, k)
		}
	}
	var results []string
	accepted := 0
	for _, k := range cuts {
		pre := body[:k]
		lib, libErr := libDecode(first.enc, pre)
		req, _ := http.NewRequest("POST", r.srv.URL+first.path, bytes.NewReader(pre))
		req.Header.Set("Content-Encoding", first.enc)
		resp, err := http.DefaultClient.Do(req)
		if err != nil {
			c.Monitors = append(c.Monitors, "request failed: "+err.Error())
			break
		}
		io.Copy(io.Discard, resp.Body)
		resp.Body.Close()
		rec := r.wait(10 * time.Second)
		if rec == nil {
			c.Monitors = append(c.Monitors, "no request reached the server within 10s")
			break
		}
		nd := len(rec.mms) + len(rec.evs)
		if nd > 1 || (rec.status == 202) != (nd == 1) {
			c.Monitors = append(c.Monitors, fmt.Sprintf("prefix of %d bytes: status %d with %d dispatches", k, rec.status, nd))
		}
		if libErr != nil && (rec.status == 202 || nd > 0) {
			accepted++
			if accepted <= 3 {
				c.Monitors = append(c.Monitors, fmt.Sprintf("the first %d of %d bytes of a %s body (the codec library rejects them: %v) were answered %d and %d message(s) dispatched",
					k, len(body), first.enc, libErr, rec.status, nd))
			}
		}
		results = append(results, "("+hlib.Nat(k)+", "+hlib.Option(hlib.BytesB(lib), libErr == nil)+", "+hlib.Z(int64(rec.status))+", "+hlib.Bool(nd >= 1)+")")
	}
	c.Obs = map[string]interface{}{"encoding": first.enc, "body_len": len(body), "prefixes": len(results), "accepted_though_library_rejects": accepted}
	c.Coq = hlib.App("CPrefix", hlib.Bool(isEvent), hlib.Bytes(first.enc), hlib.BytesB(body), hlib.List(results))
	em.Emit(c)
}

// every run sweeps these configurations once (then prefix cases are drawn at random)
var prefixSweep = []cfg{{true, "zlib", 0}, {true, "zlib", 1}, {true, "zlib", 9}, {true, "lz4", 0}, {true, "zlib", 0}, {true, "", 1},
	{true, "lz4", 9}, {true, "zlib", 9}, {true, "zlib", 0}, {true, "lz4", 4}}

func genPrefix(r *hlib.Rand) input {
	c := cfg{Compress: true, CType: hlib.Pick(r, []string{"zlib", "zlib", "", "lz4", "lz4"}), Level: hlib.Pick(r, []int{0, 0, 1, 9})}
	if c.CType == "lz4" {
		c.Level = r.Range(0, 9)
	}
	return genPrefixCfg(r, c)
}

func genPrefixCfg(r *hlib.Rand, c cfg) input {
	p := &prefixIn{}
	if r.Chance(1, 3) {
		p.Event = genEvent(r)
	} else {
		ss := genSeries(r, false)
		if len(ss) > 3 {
			ss = ss[:3]
		}
		p.Series = ss
	}
	return input{Kind: "prefix", Cfg: c, Prefix: p}
}
