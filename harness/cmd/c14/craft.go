package main

// Hand-written protobuf writer for the "raw" stream: encodings of RawMessageV2 / EventV2 that a
// foreign (non-Go) sender may legally produce — fields out of order, singular fields repeated,
// unknown fields, known numbers with an unexpected wire type, unpacked and split-packed doubles,
// non-minimal varints, map entries with key after value / without key / without value / with the
// value split in two, duplicate map keys — and a few malformed ones.  The expected outcome is
// computed by the Coq decoder (Model/PbWire.v) from the same bytes.  The deprecated group wire
// types 3 and 4 are never produced (not modelled).

import (
	"encoding/binary"
	"math"

	"verifharness/hlib"
)

type pw struct {
	r *hlib.Rand
	b []byte
}

func (w *pw) varint(v uint64) {
	pad := 0
	if w.r.Chance(1, 10) {
		pad = w.r.Range(1, 3)
	}
	n := 0
	for v >= 0x80 {
		w.b = append(w.b, byte(v)|0x80)
		v >>= 7
		n++
	}
	if pad > 0 && n+1+pad <= 9 { // non-minimal: continue with zero groups
		w.b = append(w.b, byte(v)|0x80)
		for i := 0; i < pad-1; i++ {
			w.b = append(w.b, 0x80)
		}
		w.b = append(w.b, 0)
		return
	}
	w.b = append(w.b, byte(v))
}

func (w *pw) tag(num uint64, wt int) { w.varint(num<<3 | uint64(wt)) }
func (w *pw) bytesField(num uint64, p []byte) {
	w.tag(num, 2)
	w.varint(uint64(len(p)))
	w.b = append(w.b, p...)
}
func (w *pw) varintField(num uint64, v uint64) { w.tag(num, 0); w.varint(v) }
func (w *pw) fixed64Field(num uint64, v uint64) {
	w.tag(num, 1)
	w.b = binary.LittleEndian.AppendUint64(w.b, v)
}
func (w *pw) fixed32Field(num uint64, v uint32) {
	w.tag(num, 5)
	w.b = binary.LittleEndian.AppendUint32(w.b, v)
}

// an unknown field, or a known number of this message type with a wire type it does not expect
// (known: number -> expected wire type; 12 = fixed64 or length-delimited)
func (w *pw) noise(known map[uint64]int) {
	wt := hlib.Pick(w.r, []int{0, 1, 2, 5})
	num := hlib.Pick(w.r, []uint64{11, 12, 15, 16, 100, 2047, 2048, 536870911})
	if w.r.Bool() {
		var cands []uint64
		for k := uint64(1); k <= 10; k++ {
			if good, ok := known[k]; ok && good != wt && !(good == 12 && (wt == 1 || wt == 2)) {
				cands = append(cands, k)
			}
		}
		if len(cands) > 0 {
			num = hlib.Pick(w.r, cands)
		}
	}
	switch wt {
	case 0:
		w.varintField(num, w.r.U64())
	case 1:
		w.fixed64Field(num, w.r.U64())
	case 2:
		w.bytesField(num, []byte(ustr(w.r, 0, 5)))
	case 5:
		w.fixed32Field(num, uint32(w.r.U64()))
	}
}

func sub(r *hlib.Rand, f func(w *pw)) []byte {
	w := &pw{r: r}
	f(w)
	return w.b
}

// shuffle a list of emitters, keeping the relative order of those with the same group id
// (repeated fields keep their element order)
type emitter struct {
	group int
	f     func(w *pw)
}

func (w *pw) emitShuffled(es []emitter) {
	// random merge of the per-group queues
	queues := map[int][]emitter{}
	var gids []int
	for _, e := range es {
		if _, ok := queues[e.group]; !ok {
			gids = append(gids, e.group)
		}
		queues[e.group] = append(queues[e.group], e)
	}
	for len(gids) > 0 {
		i := w.r.Intn(len(gids))
		g := gids[i]
		queues[g][0].f(w)
		queues[g] = queues[g][1:]
		if len(queues[g]) == 0 {
			gids = append(gids[:i], gids[i+1:]...)
		}
	}
}

// leaf message RawXV2 of type t (1 counter, 2 timer, 3 gauge, 4 set — gostatsd.MetricType)
func leafBytes(r *hlib.Rand, t int, s series) []byte {
	return sub(r, func(w *pw) {
		var es []emitter
		for _, tg := range s.Tags {
			tg := tg
			es = append(es, emitter{1, func(w *pw) { w.bytesField(1, []byte(tg)) }})
		}
		if s.Source != "" || r.Chance(1, 4) {
			if r.Chance(1, 4) { // a decoy first: singular fields are last-wins
				es = append(es, emitter{2, func(w *pw) { w.bytesField(2, []byte(ustr(r, 0, 4))) }})
			}
			es = append(es, emitter{2, func(w *pw) { w.bytesField(2, []byte(s.Source)) }})
		}
		known := map[uint64]int{1: 2, 2: 2}
		switch t {
		case 1:
			known[3] = 0
			if s.Int != 0 || r.Chance(1, 3) {
				if r.Chance(1, 5) {
					es = append(es, emitter{3, func(w *pw) { w.varintField(3, r.U64()) }})
				}
				es = append(es, emitter{3, func(w *pw) { w.varintField(3, uint64(s.Int)) }})
			}
		case 3:
			known[3] = 1
			if s.Bits != 0 || r.Chance(1, 3) {
				es = append(es, emitter{3, func(w *pw) { w.fixed64Field(3, s.Bits) }})
			}
		case 4:
			known[3] = 2
			for _, m := range s.Members {
				m := m
				es = append(es, emitter{3, func(w *pw) { w.bytesField(3, []byte(m)) }})
			}
		case 2:
			known[3], known[4] = 1, 12 // 12: packed or unpacked
			if s.Samp != 0 || r.Chance(1, 3) {
				es = append(es, emitter{3, func(w *pw) { w.fixed64Field(3, s.Samp) }})
			}
			// values in order, as a mix of unpacked elements and packed runs (also empty runs)
			for i := 0; i < len(s.Values); {
				if r.Chance(1, 3) {
					v := s.Values[i]
					es = append(es, emitter{4, func(w *pw) { w.fixed64Field(4, v) }})
					i++
					continue
				}
				n := r.Range(0, len(s.Values)-i)
				run := s.Values[i : i+n]
				es = append(es, emitter{4, func(w *pw) {
					var p []byte
					for _, v := range run {
						p = binary.LittleEndian.AppendUint64(p, v)
					}
					w.bytesField(4, p)
				}})
				i += n
			}
		}
		for i := r.Intn(3); i > 0; i-- {
			es = append(es, emitter{100 + i, func(w *pw) { w.noise(known) }})
		}
		w.emitShuffled(es)
	})
}

// splitSeries divides a series in two parts whose merge (repeated fields append, singular
// fields last-wins) is the series
func splitSeries(r *hlib.Rand, s series) (series, series) {
	a, b := s, s
	k := r.Intn(len(s.Tags) + 1)
	a.Tags, b.Tags = s.Tags[:k], s.Tags[k:]
	k = r.Intn(len(s.Members) + 1)
	a.Members, b.Members = s.Members[:k], s.Members[k:]
	k = r.Intn(len(s.Values) + 1)
	a.Values, b.Values = s.Values[:k], s.Values[k:]
	if r.Bool() {
		a.Source, a.Int, a.Bits, a.Samp = "", 0, 0, 0
	}
	return a, b
}

// one map entry {1: key, 2: value}
func entryBytes(r *hlib.Rand, key string, hasKey bool, values [][]byte) []byte {
	return sub(r, func(w *pw) {
		var es []emitter
		if hasKey {
			if r.Chance(1, 6) {
				es = append(es, emitter{1, func(w *pw) { w.bytesField(1, []byte(ustr(r, 0, 4))) }})
			}
			es = append(es, emitter{1, func(w *pw) { w.bytesField(1, []byte(key)) }})
		}
		for _, v := range values {
			v := v
			es = append(es, emitter{2, func(w *pw) { w.bytesField(2, v) }})
		}
		if r.Chance(1, 4) {
			es = append(es, emitter{100, func(w *pw) { w.noise(map[uint64]int{1: 2, 2: 2}) }})
		}
		w.emitShuffled(es)
	})
}

// craftMetrics writes a RawMessageV2 for the rx description (names / entries as given, so
// duplicate names and keys are possible)
func craftMetrics(r *hlib.Rand, rx *rxIn) []byte {
	return sub(r, func(w *pw) {
		var es []emitter
		add := func(field uint64, t int, ns []rxName) {
			for _, n := range ns {
				n := n
				es = append(es, emitter{int(field)*1000 + r.Intn(2), func(w *pw) {
					// XTagV2 message: entries of field 1
					tagv2 := func(entries []series) []byte {
						return sub(r, func(w *pw) {
							var ies []emitter
							for _, e := range entries {
								e := e
								ies = append(ies, emitter{1, func(w *pw) {
									hasKey := e.Key != "" || r.Chance(1, 2)
									var vals [][]byte
									switch r.Intn(6) {
									case 0: // value split in two: merged by the receiver
										a, b := splitSeries(r, e)
										vals = [][]byte{leafBytes(r, t, a), leafBytes(r, t, b)}
									case 1:
										if len(e.Tags) == 0 && e.Source == "" && e.Int == 0 && e.Bits == 0 && e.Samp == 0 && len(e.Values) == 0 && len(e.Members) == 0 {
											vals = nil // no value field at all: the zero message
										} else {
											vals = [][]byte{leafBytes(r, t, e)}
										}
									default:
										vals = [][]byte{leafBytes(r, t, e)}
									}
									w.bytesField(1, entryBytes(r, e.Key, hasKey, vals))
								}})
							}
							if r.Chance(1, 5) {
								ies = append(ies, emitter{2, func(w *pw) { w.noise(map[uint64]int{1: 2}) }})
							}
							w.emitShuffled(ies)
						})
					}
					var vals [][]byte
					if len(n.Entries) >= 2 && r.Chance(1, 4) { // the XTagV2 value split in two
						k := r.Range(1, len(n.Entries)-1)
						vals = [][]byte{tagv2(n.Entries[:k]), tagv2(n.Entries[k:])}
					} else if len(n.Entries) == 0 && r.Bool() {
						vals = nil
					} else {
						vals = [][]byte{tagv2(n.Entries)}
					}
					w.bytesField(field, entryBytes(r, n.Name, n.Name != "" || r.Bool(), vals))
				}})
			}
		}
		add(1, 1, rx.Counters)
		add(2, 3, rx.Gauges)
		add(3, 4, rx.Sets)
		add(4, 2, rx.Timers)
		if r.Chance(1, 4) {
			es = append(es, emitter{9, func(w *pw) { w.noise(map[uint64]int{1: 2, 2: 2, 3: 2, 4: 2}) }})
		}
		w.emitShuffled(es)
	})
}

func craftEvent(r *hlib.Rand, e *pbEventIn) []byte {
	return sub(r, func(w *pw) {
		var es []emitter
		str := func(num uint64, s string) {
			if s != "" || r.Chance(1, 4) {
				if r.Chance(1, 6) {
					es = append(es, emitter{int(num), func(w *pw) { w.bytesField(num, []byte(ustr(r, 0, 4))) }})
				}
				es = append(es, emitter{int(num), func(w *pw) { w.bytesField(num, []byte(s)) }})
			}
		}
		vi := func(num uint64, v int64) {
			if v != 0 || r.Chance(1, 4) {
				if r.Chance(1, 6) {
					es = append(es, emitter{int(num), func(w *pw) { w.varintField(num, r.U64()) }})
				}
				es = append(es, emitter{int(num), func(w *pw) { w.varintField(num, uint64(v)) }})
			}
		}
		str(1, e.Title)
		str(2, e.Text)
		vi(3, e.Date)
		str(4, e.Hostname)
		str(5, e.AggKey)
		str(6, e.SrcType)
		for _, t := range e.Tags {
			t := t
			es = append(es, emitter{7, func(w *pw) { w.bytesField(7, []byte(t)) }})
		}
		str(8, e.SourceIP)
		// enums: any 64-bit varint, truncated to int32 by the receiver
		pv, tv := int64(e.Priority), int64(e.Type)
		if r.Chance(1, 5) {
			pv |= int64(r.U64()) << 32
		}
		if r.Chance(1, 5) {
			tv |= int64(r.U64()) << 32
		}
		vi(9, pv)
		vi(10, tv)
		known := map[uint64]int{1: 2, 2: 2, 3: 0, 4: 2, 5: 2, 6: 2, 7: 2, 8: 2, 9: 0, 10: 0}
		for i := r.Intn(3); i > 0; i-- {
			es = append(es, emitter{100 + i, func(w *pw) { w.noise(known) }})
		}
		w.emitShuffled(es)
	})
}

// damage makes a body (usually) malformed in a way that never introduces a group wire type
func damage(r *hlib.Rand, b []byte) ([]byte, string) {
	switch r.Intn(9) {
	case 7: // 10-byte varint whose last byte is 2: overflows uint64
		return append(append([]byte{}, b...), 0x78, 0x80, 0x80, 0x80, 0x80, 0x80, 0x80, 0x80, 0x80, 0x80, 0x02), "varint-10th-byte-2"
	case 8: // 10-byte varint whose last byte is 1: the largest legal one (unknown field, skipped)
		return append(append([]byte{}, b...), 0x78, 0xff, 0xff, 0xff, 0xff, 0xff, 0xff, 0xff, 0xff, 0xff, 0x01), "varint-10-bytes-legal"
	case 0:
		if len(b) > 0 {
			return b[:r.Intn(len(b))], "truncated"
		}
	case 1: // a string field that is not UTF-8
		return append(append([]byte{}, b...), 0x0a, 0x02, 0xff, 0xfe), "bad-utf8-tail"
	case 2: // field number 0
		return append(append([]byte{}, b...), 0x00, 0x00), "field-number-0"
	case 3: // wire type 6 / 7
		return append(append([]byte{}, b...), byte(15<<3|6+r.Intn(2)), 0x00), "reserved-wire-type"
	case 4: // varint longer than 10 bytes
		return append(append([]byte{}, b...), 0x78, 0xff, 0xff, 0xff, 0xff, 0xff, 0xff, 0xff, 0xff, 0xff, 0xff, 0x01), "varint-overflow"
	case 5: // length beyond the end
		return append(append([]byte{}, b...), 0x7a, 0x05, 0x61), "length-beyond-end"
	case 6: // field number above 2^29-1
		return append(append([]byte{}, b...), 0x80, 0x80, 0x80, 0x80, 0x10, 0x00), "field-number-too-large"
	}
	return append(append([]byte{}, b...), 0x78), "tag-without-value"
}

var _ = math.Pi

// byte sequences utf8.Valid rejects
var badUTF8 = []string{"\xff", "\xc0\x80", "\xc1\xbf", "\xed\xa0\x80", "\xed\xbf\xbf", "\xf4\x90\x80\x80", "\xf5\x80\x80\x80",
	"\xe2\x82", "\xf0\x9f\x98", "\x80", "\xbf", "\xe0\x9f\xbf", "\xf0\x8f\xbf\xbf", "a\xc3", "\xc3\x28", "\xe2\x28\xa1"}

// spoil replaces one string of the description by one that is not valid UTF-8
func spoil(r *hlib.Rand, rx *rxIn) bool {
	bad := ustr(r, 0, 2) + hlib.Pick(r, badUTF8) + ustr(r, 0, 2)
	if e := rx.Event; e != nil {
		switch r.Intn(8) {
		case 0:
			e.Title = bad
		case 1:
			e.Text = bad
		case 2:
			e.Hostname = bad
		case 3:
			e.AggKey = bad
		case 4:
			e.SrcType = bad
		case 5:
			e.SourceIP = bad
		default:
			e.Tags = append(append([]string{}, e.Tags...), bad)
		}
		return true
	}
	var lists []*[]rxName
	for _, l := range []*[]rxName{&rx.Counters, &rx.Gauges, &rx.Sets, &rx.Timers} {
		if len(*l) > 0 {
			lists = append(lists, l)
		}
	}
	if len(lists) == 0 {
		return false
	}
	l := *hlib.Pick(r, lists)
	n := &l[r.Intn(len(l))]
	if len(n.Entries) == 0 || r.Chance(1, 4) {
		n.Name = bad
		return true
	}
	es := append([]series{}, n.Entries...)
	n.Entries = es
	e := &es[r.Intn(len(es))]
	switch r.Intn(4) {
	case 0:
		e.Key = bad
	case 1:
		e.Source = bad
	case 2:
		e.Tags = append(append([]string{}, e.Tags...), bad)
	default:
		if len(e.Members) > 0 || r.Bool() {
			e.Members = append(append([]string{}, e.Members...), bad)
		} else {
			e.Key = bad
		}
	}
	return true
}
