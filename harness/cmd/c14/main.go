// C14: what a forwarder encodes is what the ingesting server decodes.
//
// The two real halves composed: a real statsd.HttpForwarderHandlerV2 posts to a real ingestion
// server (web.NewHttpServer's router behind httptest) whose pipeline handler captures what is
// dispatched.  Per case: one metric map or one event, under one (compress, compression-type,
// compression-level) configuration.  Recorded: the map/event given to the forwarder, the
// Content-Encoding header and the status of the request, the protobuf bytes on the wire (after
// undoing the compression with the library directly), and the map/event the server dispatched.
package main

import (
	"bytes"
	"compress/zlib"
	"context"
	"encoding/hex"
	"encoding/json"
	"fmt"
	"io"
	"math"
	"net/http"
	"net/http/httptest"
	"os"
	"sort"
	"strings"
	"sync"
	"sync/atomic"
	"time"

	"github.com/pierrec/lz4/v4"
	"github.com/sirupsen/logrus"
	"github.com/spf13/viper"
	"google.golang.org/protobuf/proto"

	"github.com/atlassian/gostatsd"
	"github.com/atlassian/gostatsd/pb"
	"github.com/atlassian/gostatsd/pkg/statsd"
	"github.com/atlassian/gostatsd/pkg/transport"
	"github.com/atlassian/gostatsd/pkg/web"

	"verifharness/hlib"
	"verifharness/mmgen"
)

// ---------------------------------------------------------------------------------------
// inputs

type cfg struct {
	Compress bool   `json:"compress"`
	CType    string `json:"ctype"`
	Level    int    `json:"level"`
}

// series is one entry of the metric map given to the forwarder; floats are bit patterns.
type series struct {
	Type    int      `json:"type"` // gostatsd.MetricType
	Name    string   `json:"name"`
	Key     string   `json:"key"` // inner map key (tags key)
	Tags    []string `json:"tags"`
	Source  string   `json:"src"`
	TS      int64    `json:"ts"`
	Int     int64    `json:"int,omitempty"`     // counter value
	Bits    uint64   `json:"bits,omitempty"`    // gauge value
	Samp    uint64   `json:"samp,omitempty"`    // timer sampled count
	Values  []uint64 `json:"values,omitempty"`  // timer values
	Members []string `json:"members,omitempty"` // set members
	NilTags bool     `json:"niltags,omitempty"` // Tags == nil rather than empty
}

type eventIn struct {
	Title    string   `json:"title"`
	Text     string   `json:"text"`
	Date     int64    `json:"date"`
	AggKey   string   `json:"aggkey"`
	SrcType  string   `json:"srctype"`
	Tags     []string `json:"tags"`
	Source   string   `json:"src"`
	Priority int      `json:"priority"`
	Alert    int      `json:"alert"`
}

// receiver-only inputs: a protobuf message as a foreign sender may build it
type rxName struct {
	Name    string   `json:"name"`
	Entries []series `json:"entries"` // Key, Tags, Source and the value fields are used
}

type pbEventIn struct {
	Title    string   `json:"title"`
	Text     string   `json:"text"`
	Date     int64    `json:"date"`
	Hostname string   `json:"hostname"`
	AggKey   string   `json:"aggkey"`
	SrcType  string   `json:"srctype"`
	Tags     []string `json:"tags"`
	SourceIP string   `json:"sourceip"`
	Priority int32    `json:"priority"`
	Type     int32    `json:"type"`
}

type rxIn struct {
	Hdr      string     `json:"hdr"` // Content-Encoding: "" or "identity"
	Counters []rxName   `json:"counters,omitempty"`
	Gauges   []rxName   `json:"gauges,omitempty"`
	Sets     []rxName   `json:"sets,omitempty"`
	Timers   []rxName   `json:"timers,omitempty"`
	Event    *pbEventIn `json:"event,omitempty"`
}

// raw: bytes posted as they are
type rawIn struct {
	Hdr   string `json:"hdr"`
	Event bool   `json:"event"`
	Hex   string `json:"hex"`
	Shape string `json:"shape"`
}

type input struct {
	Kind   string   `json:"kind"` // metrics | event | config | rx_metrics | rx_event | raw | concurrent
	Conc   *concIn  `json:"conc,omitempty"`
	Tamper *tamperIn `json:"tamper,omitempty"`
	Prefix *prefixIn `json:"prefix,omitempty"`
	Raw    *rawIn   `json:"raw,omitempty"`
	Cfg    cfg      `json:"cfg"`
	Series []series `json:"series,omitempty"`
	Event  *eventIn `json:"event,omitempty"`
	Rx     *rxIn    `json:"rx,omitempty"`
}

func buildMap(ss []series) *gostatsd.MetricMap {
	mm := gostatsd.NewMetricMap(false)
	for _, s := range ss {
		tags := gostatsd.Tags(append([]string{}, s.Tags...))
		if s.NilTags && len(s.Tags) == 0 {
			tags = nil
		}
		src := gostatsd.Source(s.Source)
		ts := gostatsd.Nanotime(s.TS)
		switch gostatsd.MetricType(s.Type) {
		case gostatsd.COUNTER:
			if mm.Counters[s.Name] == nil {
				mm.Counters[s.Name] = map[string]gostatsd.Counter{}
			}
			mm.Counters[s.Name][s.Key] = gostatsd.Counter{Value: s.Int, Timestamp: ts, Source: src, Tags: tags}
		case gostatsd.GAUGE:
			if mm.Gauges[s.Name] == nil {
				mm.Gauges[s.Name] = map[string]gostatsd.Gauge{}
			}
			mm.Gauges[s.Name][s.Key] = gostatsd.Gauge{Value: math.Float64frombits(s.Bits), Timestamp: ts, Source: src, Tags: tags}
		case gostatsd.TIMER:
			if mm.Timers[s.Name] == nil {
				mm.Timers[s.Name] = map[string]gostatsd.Timer{}
			}
			var vs []float64
			for _, b := range s.Values {
				vs = append(vs, math.Float64frombits(b))
			}
			mm.Timers[s.Name][s.Key] = gostatsd.Timer{Values: vs, SampledCount: math.Float64frombits(s.Samp), Timestamp: ts, Source: src, Tags: tags}
		case gostatsd.SET:
			if mm.Sets[s.Name] == nil {
				mm.Sets[s.Name] = map[string]gostatsd.Set{}
			}
			vals := map[string]struct{}{}
			for _, m := range s.Members {
				vals[m] = struct{}{}
			}
			mm.Sets[s.Name][s.Key] = gostatsd.Set{Values: vals, Timestamp: ts, Source: src, Tags: tags}
		}
	}
	return mm
}

// projection of a map that ignores timestamps: the harness's own (model-independent) comparison
func project(mm *gostatsd.MetricMap) string {
	var el []string
	mm.Counters.Each(func(n, k string, c gostatsd.Counter) {
		el = append(el, fmt.Sprintf("c|%q|%q|%d|%q|%q", n, k, c.Value, c.Source, []string(c.Tags)))
	})
	mm.Gauges.Each(func(n, k string, g gostatsd.Gauge) {
		el = append(el, fmt.Sprintf("g|%q|%q|%x|%q|%q", n, k, math.Float64bits(g.Value), g.Source, []string(g.Tags)))
	})
	mm.Timers.Each(func(n, k string, t gostatsd.Timer) {
		vs := make([]string, len(t.Values))
		for i, v := range t.Values {
			vs[i] = fmt.Sprintf("%x", math.Float64bits(v))
		}
		el = append(el, fmt.Sprintf("t|%q|%q|%v|%x|%q|%q", n, k, vs, math.Float64bits(t.SampledCount), t.Source, []string(t.Tags)))
	})
	mm.Sets.Each(func(n, k string, s gostatsd.Set) {
		var ms []string
		for m := range s.Values {
			ms = append(ms, m)
		}
		sort.Strings(ms)
		el = append(el, fmt.Sprintf("s|%q|%q|%q|%q|%q", n, k, ms, s.Source, []string(s.Tags)))
	})
	sort.Strings(el)
	return strings.Join(el, "\n")
}

// ---------------------------------------------------------------------------------------
// the rig: one ingestion server + one forwarder per configuration

type record struct {
	tampered  bool   // the body was damaged between forwarder and server
	orig      []byte // the body the forwarder sent, when tampered
	scripted  bool   // answered 503 by the fault script, not routed
	path, enc string
	body      []byte
	status    int
	mms       []*gostatsd.MetricMap
	evs       []*gostatsd.Event
}

type recKey struct{}

// capture is the pipeline handler behind the ingestion server
type capture struct{}

func (capture) DispatchMetricMap(ctx context.Context, mm *gostatsd.MetricMap) {
	if r, ok := ctx.Value(recKey{}).(*record); ok {
		r.mms = append(r.mms, mm)
	}
}
func (capture) DispatchEvent(ctx context.Context, e *gostatsd.Event) {
	if r, ok := ctx.Value(recKey{}).(*record); ok {
		r.evs = append(r.evs, e)
	}
}
func (capture) EstimatedTags() int { return 0 }
func (capture) WaitForEvents()     {}

type statusWriter struct {
	http.ResponseWriter
	status int
}

func (w *statusWriter) WriteHeader(s int) {
	if w.status == 0 {
		w.status = s
	}
	w.ResponseWriter.WriteHeader(s)
}

type rigOpt struct {
	maxReq     int
	dyn        []string
	flush      time.Duration
	maxElapsed time.Duration
}

var defaultOpt = rigOpt{maxReq: 1, flush: time.Millisecond, maxElapsed: 300 * time.Millisecond}

type rig struct {
	tmu      sync.Mutex
	tamper   func([]byte) []byte // applied to the next request only
	opt      rigOpt
	failLeft int64 // atomic: the next failLeft requests are answered 503 without being routed
	delayNs  int64 // atomic: every request is held this long before it is routed
	cfg     cfg
	srv     *httptest.Server
	fwd     *statsd.HttpForwarderHandlerV2
	cancel  context.CancelFunc
	done    chan struct{}
	records chan *record
	ctx     context.Context
}

var quiet = func() *logrus.Logger { l := logrus.New(); l.SetOutput(io.Discard); return l }()

func newForwarder(c cfg, endpoint string) (*statsd.HttpForwarderHandlerV2, error) {
	return newForwarderOpt(c, endpoint, defaultOpt)
}

func newForwarderOpt(c cfg, endpoint string, o rigOpt) (*statsd.HttpForwarderHandlerV2, error) {
	pool := transport.NewTransportPool(quiet, viper.New())
	return statsd.NewHttpForwarderHandlerV2(quiet, "default", endpoint, 1, o.maxReq, 1, c.Compress, c.CType, c.Level,
		o.maxElapsed, o.flush, nil, o.dyn, pool, nil)
}

func newRig(c cfg) (*rig, error) { return newRigOpt(c, defaultOpt) }

func (r *rig) takeTamper() func([]byte) []byte {
	r.tmu.Lock()
	defer r.tmu.Unlock()
	t := r.tamper
	r.tamper = nil
	return t
}

func (r *rig) armTamper(t func([]byte) []byte) {
	r.tmu.Lock()
	r.tamper = t
	r.tmu.Unlock()
}

func newRigOpt(c cfg, o rigOpt) (*rig, error) {
	r := &rig{opt: o, cfg: c, records: make(chan *record, 1024), done: make(chan struct{})}
	hs, err := web.NewHttpServer(quiet, capture{}, "verif", "127.0.0.1:0", false, false, true, false, nil, nil)
	if err != nil {
		return nil, err
	}
	r.srv = httptest.NewServer(http.HandlerFunc(func(w http.ResponseWriter, req *http.Request) {
		body, _ := io.ReadAll(req.Body)
		var orig []byte
		if t := r.takeTamper(); t != nil { // the relay damages this request in transit
			orig = body
			body = t(append([]byte{}, body...))
			req.ContentLength = int64(len(body))
		}
		req.Body = io.NopCloser(bytes.NewReader(body))
		rec := &record{path: req.URL.Path, enc: req.Header.Get("Content-Encoding"), body: body, orig: orig, tampered: orig != nil}
		if d := atomic.LoadInt64(&r.delayNs); d > 0 {
			time.Sleep(time.Duration(d))
		}
		if atomic.AddInt64(&r.failLeft, -1) >= 0 {
			rec.status, rec.scripted = 503, true
			w.WriteHeader(503)
			r.records <- rec
			return
		}
		sw := &statusWriter{ResponseWriter: w}
		hs.Router.ServeHTTP(sw, req.WithContext(context.WithValue(req.Context(), recKey{}, rec)))
		rec.status = sw.status
		if rec.status == 0 {
			rec.status = 200
		}
		r.records <- rec
	}))
	r.fwd, err = newForwarderOpt(c, r.srv.URL, o)
	if err != nil {
		r.srv.Close()
		return nil, err
	}
	r.ctx, r.cancel = context.WithCancel(context.Background())
	go func() { r.fwd.Run(r.ctx); close(r.done) }()
	// Run begins with sendNop: an empty map is posted to /v2/raw
	nop := r.wait(10 * time.Second)
	if nop == nil || nop.status != 202 || len(nop.mms) != 1 || !nop.mms[0].IsEmpty() {
		r.close()
		return nil, fmt.Errorf("the forwarder's initial empty request was not accepted: %+v", nop)
	}
	return r, nil
}

func (r *rig) wait(d time.Duration) *record {
	select {
	case rec := <-r.records:
		return rec
	case <-time.After(d):
		return nil
	}
}

func (r *rig) close() {
	r.cancel()
	select {
	case <-r.done:
	case <-time.After(5 * time.Second):
	}
	r.srv.Close()
}

var concAttempts = 1

var cur *rig

func rigFor(c cfg) (*rig, error) { return rigForOpt(c, defaultOpt) }

func rigForOpt(c cfg, o rigOpt) (*rig, error) {
	if cur != nil && cur.cfg == c && cur.opt.maxReq == o.maxReq && cur.opt.maxElapsed == o.maxElapsed && cur.opt.flush == o.flush && len(cur.opt.dyn) == 0 && len(o.dyn) == 0 {
		return cur, nil
	}
	dropRig()
	r, err := newRigOpt(c, o)
	if err != nil {
		return nil, err
	}
	cur = r
	return r, nil
}

func dropRig() {
	if cur != nil {
		cur.close()
		cur = nil
	}
}

// undo the compression named by the header with the library directly (not through gostatsd)
func libDecode(enc string, body []byte) ([]byte, error) {
	switch enc {
	case "deflate":
		zr, err := zlib.NewReader(bytes.NewReader(body))
		if err != nil {
			return nil, err
		}
		return io.ReadAll(zr)
	case "lz4":
		return io.ReadAll(lz4.NewReader(bytes.NewReader(body)))
	case "identity", "":
		return body, nil
	}
	return nil, fmt.Errorf("unknown encoding %q", enc)
}

// ---------------------------------------------------------------------------------------
// running one case

func eventCoq(e *gostatsd.Event) string {
	return hlib.App("MkEvent", hlib.Bytes(e.Title), hlib.Bytes(e.Text), hlib.Z(e.DateHappened), hlib.Bytes(e.AggregationKey),
		hlib.Bytes(e.SourceTypeName), hlib.StrList(e.Tags), hlib.Bytes(string(e.Source)), hlib.N(uint64(e.Priority)), hlib.N(uint64(e.AlertType)))
}

func cfgArgs(c cfg) []string {
	return []string{hlib.Bool(c.Compress), hlib.Bytes(c.CType), hlib.Z(int64(c.Level))}
}

func runOne(em *hlib.Emitter, in input) {
	c := hlib.Case{Input: in}
	encClass := "identity"
	if in.Cfg.Compress && in.Cfg.CType != "none" {
		encClass = in.Cfg.CType
		if encClass == "" {
			encClass = "zlib"
		}
	}
	switch in.Kind {
	case "concurrent":
		runConc(em, in, concAttempts)
		return
	case "tamper":
		runTamper(em, in)
		return
	case "prefix":
		runPrefix(em, in)
		return
	case "config":
		f, err := newForwarder(in.Cfg, "http://127.0.0.1:1")
		_ = f
		c.Class = "config"
		c.Nontrivial = err != nil
		c.Coq = hlib.App("CConfig", hlib.Bytes(in.Cfg.CType), hlib.Z(int64(in.Cfg.Level)), hlib.Bool(err == nil))
		c.Obs = map[string]interface{}{"accepted": err == nil}
		em.Emit(c)
		return
	}
	r, err := rigFor(in.Cfg)
	if err != nil {
		c.Class = in.Kind + "/" + encClass
		c.Monitors = append(c.Monitors, "cannot start forwarder and server: "+err.Error())
		em.Emit(c)
		return
	}
	// anything left over from an earlier case is an extra request
	for len(r.records) > 0 {
		x := <-r.records
		c.Monitors = append(c.Monitors, fmt.Sprintf("unexpected extra request %s (status %d)", x.path, x.status))
	}
	obs := map[string]interface{}{}
	ok := true
	switch in.Kind {
	case "metrics":
		mm := buildMap(in.Series)
		inpDump := mmgen.Entries(mm)
		want := project(mm)
		nser := mmgen.Size(mm)
		t0 := time.Now().UnixNano()
		r.fwd.DispatchMetricMap(r.ctx, mm)
		rec := r.wait(10 * time.Second)
		t1 := time.Now().UnixNano()
		c.Class = fmt.Sprintf("metrics/%s/series<=%d", encClass, ((nser+3)/4)*4)
		hdr, status, now, obsDump := "", 0, int64(0), "[]"
		var rawpb []byte
		if rec == nil {
			c.Monitors = append(c.Monitors, "no request reached the server within 10s")
			ok = false
		} else {
			hdr, status = rec.enc, rec.status
			obs["status"], obs["encoding"], obs["body_len"] = status, hdr, len(rec.body)
			if rec.path != "/v2/raw" {
				c.Monitors = append(c.Monitors, "metrics posted to "+rec.path)
			}
			if raw, err := libDecode(rec.enc, rec.body); err != nil {
				c.Monitors = append(c.Monitors, fmt.Sprintf("the body is not %q data according to the library: %v", rec.enc, err))
			} else {
				obs["raw_len"] = len(raw)
				rawpb = raw
			}
			if len(rec.mms) > 1 {
				c.Monitors = append(c.Monitors, "one request dispatched several maps")
			}
			if status != 202 || len(rec.mms) == 0 {
				ok = false
			}
			if len(rec.mms) == 1 {
				got := rec.mms[0]
				obsDump = mmgen.Entries(got)
				first := true
				stamp := func(ts gostatsd.Nanotime) {
					if first {
						now, first = int64(ts), false
					} else if int64(ts) != now {
						c.Monitors = append(c.Monitors, "received series carry different timestamps")
					}
				}
				got.Counters.Each(func(_, _ string, v gostatsd.Counter) { stamp(v.Timestamp) })
				got.Gauges.Each(func(_, _ string, v gostatsd.Gauge) { stamp(v.Timestamp) })
				got.Timers.Each(func(_, _ string, v gostatsd.Timer) { stamp(v.Timestamp) })
				got.Sets.Each(func(_, _ string, v gostatsd.Set) { stamp(v.Timestamp) })
				if !first && (now < t0 || now > t1) {
					c.Monitors = append(c.Monitors, "received timestamp is not the receive time")
				}
				if p := project(got); p != want {
					c.Monitors = append(c.Monitors, "dispatched map differs from the map given to the forwarder (timestamps ignored):\n--- given\n"+want+"\n--- dispatched\n"+p)
				}
				obs["series"] = mmgen.Size(got)
			}
		}
		c.Nontrivial = nser >= 2
		c.Coq = hlib.App("CMetrics", append(cfgArgs(in.Cfg), inpDump, hlib.Bytes(hdr), hlib.BytesB(rawpb), hlib.Z(int64(status)), hlib.Z(now), obsDump)...)
	case "event":
		e := in.Event
		ev := &gostatsd.Event{Title: e.Title, Text: e.Text, DateHappened: e.Date, AggregationKey: e.AggKey, SourceTypeName: e.SrcType,
			Tags: append(gostatsd.Tags(nil), e.Tags...), Source: gostatsd.Source(e.Source), Priority: gostatsd.Priority(e.Priority), AlertType: gostatsd.AlertType(e.Alert)}
		given := eventCoq(ev)
		r.fwd.DispatchEvent(r.ctx, ev)
		rec := r.wait(10 * time.Second)
		c.Class = "event/" + encClass
		hdr, status := "", 0
		var rawpb []byte
		got := &gostatsd.Event{}
		if rec == nil {
			c.Monitors = append(c.Monitors, "no request reached the server within 10s")
			ok = false
		} else {
			r.fwd.WaitForEvents()
			hdr, status = rec.enc, rec.status
			obs["status"], obs["encoding"], obs["body_len"] = status, hdr, len(rec.body)
			if rec.path != "/v2/event" {
				c.Monitors = append(c.Monitors, "event posted to "+rec.path)
			}
			if raw, err := libDecode(rec.enc, rec.body); err != nil {
				c.Monitors = append(c.Monitors, fmt.Sprintf("the body is not %q data according to the library: %v", rec.enc, err))
			} else {
				rawpb = raw
			}
			if len(rec.evs) > 1 {
				c.Monitors = append(c.Monitors, "one request dispatched several events")
			}
			if status != 202 || len(rec.evs) == 0 {
				ok = false
			} else {
				got = rec.evs[0]
			}
		}
		c.Nontrivial = len(e.Tags) > 0 || e.Priority != 0 || e.Alert != 0
		c.Coq = hlib.App("CEvent", append(cfgArgs(in.Cfg), given, hlib.Bytes(hdr), hlib.BytesB(rawpb), hlib.Z(int64(status)), eventCoq(got))...)
	case "rx_metrics", "rx_event":
		ok = runRx(r, in, &c, obs)
	case "raw":
		ok = runRaw(r, in, &c, obs)
	default:
		fmt.Fprintln(os.Stderr, "unknown kind", in.Kind)
		os.Exit(2)
	}
	if !ok {
		// the forwarder keeps retrying a refused request: start afresh for the next case
		dropRig()
	}
	c.Obs = obs
	em.Emit(c)
}

// runRx posts a message built here (pb structs + proto.Marshal) straight to the server.
func runRx(r *rig, in input, c *hlib.Case, obs map[string]interface{}) bool {
	rx := in.Rx
	var msg proto.Message
	var path, coqMsg string
	nested := func(ns []rxName, each func(name string, e series) string, empty func(name string)) string {
		var outer []string
		for _, n := range ns {
			var inner []string
			empty(n.Name)
			for _, e := range n.Entries {
				inner = append(inner, hlib.Pair(hlib.Bytes(e.Key), each(n.Name, e)))
			}
			outer = append(outer, hlib.Pair(hlib.Bytes(n.Name), hlib.List(inner)))
		}
		return hlib.List(outer)
	}
	f64s := func(bs []uint64) ([]float64, string) {
		var vs []float64
		var el []string
		for _, b := range bs {
			vs = append(vs, math.Float64frombits(b))
			el = append(el, hlib.ZU(b))
		}
		return vs, hlib.List(el)
	}
	if in.Kind == "rx_metrics" {
		m := &pb.RawMessageV2{Counters: map[string]*pb.CounterTagV2{}, Gauges: map[string]*pb.GaugeTagV2{}, Sets: map[string]*pb.SetTagV2{}, Timers: map[string]*pb.TimerTagV2{}}
		cs := nested(rx.Counters, func(n string, e series) string {
			m.Counters[n].TagMap[e.Key] = &pb.RawCounterV2{Tags: e.Tags, Hostname: e.Source, Value: e.Int}
			return hlib.App("MkPbC", hlib.StrList(e.Tags), hlib.Bytes(e.Source), hlib.Z(e.Int))
		}, func(n string) { m.Counters[n] = &pb.CounterTagV2{TagMap: map[string]*pb.RawCounterV2{}} })
		gs := nested(rx.Gauges, func(n string, e series) string {
			m.Gauges[n].TagMap[e.Key] = &pb.RawGaugeV2{Tags: e.Tags, Hostname: e.Source, Value: math.Float64frombits(e.Bits)}
			return hlib.App("MkPbG", hlib.StrList(e.Tags), hlib.Bytes(e.Source), hlib.ZU(e.Bits))
		}, func(n string) { m.Gauges[n] = &pb.GaugeTagV2{TagMap: map[string]*pb.RawGaugeV2{}} })
		ss := nested(rx.Sets, func(n string, e series) string {
			m.Sets[n].TagMap[e.Key] = &pb.RawSetV2{Tags: e.Tags, Hostname: e.Source, Values: e.Members}
			return hlib.App("MkPbS", hlib.StrList(e.Tags), hlib.Bytes(e.Source), hlib.StrList(e.Members))
		}, func(n string) { m.Sets[n] = &pb.SetTagV2{TagMap: map[string]*pb.RawSetV2{}} })
		ts := nested(rx.Timers, func(n string, e series) string {
			vs, vl := f64s(e.Values)
			m.Timers[n].TagMap[e.Key] = &pb.RawTimerV2{Tags: e.Tags, Hostname: e.Source, SampleCount: math.Float64frombits(e.Samp), Values: vs}
			return hlib.App("MkPbT", hlib.StrList(e.Tags), hlib.Bytes(e.Source), hlib.ZU(e.Samp), vl)
		}, func(n string) { m.Timers[n] = &pb.TimerTagV2{TagMap: map[string]*pb.RawTimerV2{}} })
		msg, path, coqMsg = m, "/v2/raw", cs+" "+gs+" "+ss+" "+ts
	} else {
		e := rx.Event
		msg = &pb.EventV2{Title: e.Title, Text: e.Text, DateHappened: e.Date, Hostname: e.Hostname, AggregationKey: e.AggKey, SourceTypeName: e.SrcType,
			Tags: e.Tags, SourceIP: e.SourceIP, Priority: pb.EventV2_EventPriority(e.Priority), Type: pb.EventV2_AlertType(e.Type)}
		path = "/v2/event"
		coqMsg = hlib.App("MkPbE", hlib.Bytes(e.Title), hlib.Bytes(e.Text), hlib.Z(e.Date), hlib.Bytes(e.Hostname), hlib.Bytes(e.AggKey), hlib.Bytes(e.SrcType),
			hlib.StrList(e.Tags), hlib.Bytes(e.SourceIP), hlib.Z(int64(e.Priority)), hlib.Z(int64(e.Type)))
	}
	c.Class = in.Kind
	c.Nontrivial = true
	body, err := proto.Marshal(msg)
	if err != nil {
		fmt.Fprintln(os.Stderr, "harness bug: cannot marshal rx message:", err)
		os.Exit(3)
	}
	req, _ := http.NewRequest("POST", r.srv.URL+path, bytes.NewReader(body))
	if rx.Hdr != "" {
		req.Header.Set("Content-Encoding", rx.Hdr)
	}
	t0 := time.Now().UnixNano()
	resp, err := http.DefaultClient.Do(req)
	if err != nil {
		c.Monitors = append(c.Monitors, "request failed: "+err.Error())
		return false
	}
	io.Copy(io.Discard, resp.Body)
	resp.Body.Close()
	rec := r.wait(10 * time.Second)
	t1 := time.Now().UnixNano()
	if rec == nil {
		c.Monitors = append(c.Monitors, "no request reached the server within 10s")
		return false
	}
	obs["status"] = rec.status
	if resp.StatusCode != rec.status {
		c.Monitors = append(c.Monitors, "status seen by the client differs from the one the handler wrote")
	}
	if in.Kind == "rx_metrics" {
		now, obsDump := int64(0), "[]"
		if len(rec.mms) == 1 {
			obsDump = mmgen.Entries(rec.mms[0])
			now = t0
			set := func(ts gostatsd.Nanotime) { now = int64(ts) }
			rec.mms[0].Counters.Each(func(_, _ string, v gostatsd.Counter) { set(v.Timestamp) })
			rec.mms[0].Gauges.Each(func(_, _ string, v gostatsd.Gauge) { set(v.Timestamp) })
			rec.mms[0].Timers.Each(func(_, _ string, v gostatsd.Timer) { set(v.Timestamp) })
			rec.mms[0].Sets.Each(func(_, _ string, v gostatsd.Set) { set(v.Timestamp) })
			if now < t0 || now > t1 {
				c.Monitors = append(c.Monitors, "received timestamp is not the receive time")
			}
		} else if rec.status == 202 {
			c.Monitors = append(c.Monitors, fmt.Sprintf("202 with %d dispatches", len(rec.mms)))
		}
		c.Coq = "(CRxMetrics " + hlib.Bytes(rx.Hdr) + " " + coqMsg + " " + hlib.BytesB(body) + " " + hlib.Z(int64(rec.status)) + " " + hlib.Z(now) + " " + obsDump + ")"
	} else {
		got := &gostatsd.Event{}
		if len(rec.evs) == 1 {
			got = rec.evs[0]
		} else if rec.status == 202 {
			c.Monitors = append(c.Monitors, fmt.Sprintf("202 with %d dispatches", len(rec.evs)))
		}
		c.Coq = hlib.App("CRxEvent", hlib.Bytes(rx.Hdr), coqMsg, hlib.BytesB(body), hlib.Z(int64(rec.status)), eventCoq(got))
	}
	return rec.status == 202
}

// runRaw posts the given bytes; the expected outcome comes from the Coq decoder.
func runRaw(r *rig, in input, c *hlib.Case, obs map[string]interface{}) bool {
	body, err := hex.DecodeString(in.Raw.Hex)
	if err != nil {
		fmt.Fprintln(os.Stderr, "bad hex in input")
		os.Exit(2)
	}
	path := "/v2/raw"
	if in.Raw.Event {
		path = "/v2/event"
	}
	c.Class = "raw/" + in.Raw.Shape
	c.Nontrivial = len(body) > 0
	req, _ := http.NewRequest("POST", r.srv.URL+path, bytes.NewReader(body))
	if in.Raw.Hdr != "" {
		req.Header.Set("Content-Encoding", in.Raw.Hdr)
	}
	t0 := time.Now().UnixNano()
	resp, err := http.DefaultClient.Do(req)
	if err != nil {
		c.Monitors = append(c.Monitors, "request failed: "+err.Error())
		return false
	}
	io.Copy(io.Discard, resp.Body)
	resp.Body.Close()
	rec := r.wait(10 * time.Second)
	t1 := time.Now().UnixNano()
	if rec == nil {
		c.Monitors = append(c.Monitors, "no request reached the server within 10s")
		return false
	}
	obs["status"] = rec.status
	if resp.StatusCode != rec.status {
		c.Monitors = append(c.Monitors, "status seen by the client differs from the one the handler wrote")
	}
	nd := len(rec.mms) + len(rec.evs)
	if nd > 1 || (rec.status == 202) != (nd == 1) {
		c.Monitors = append(c.Monitors, fmt.Sprintf("status %d with %d dispatches", rec.status, nd))
	}
	now, obsDump, got := t0, "[]", &gostatsd.Event{}
	if len(rec.mms) == 1 {
		obsDump = mmgen.Entries(rec.mms[0])
		set := func(ts gostatsd.Nanotime) { now = int64(ts) }
		rec.mms[0].Counters.Each(func(_, _ string, v gostatsd.Counter) { set(v.Timestamp) })
		rec.mms[0].Gauges.Each(func(_, _ string, v gostatsd.Gauge) { set(v.Timestamp) })
		rec.mms[0].Timers.Each(func(_, _ string, v gostatsd.Timer) { set(v.Timestamp) })
		rec.mms[0].Sets.Each(func(_, _ string, v gostatsd.Set) { set(v.Timestamp) })
		if now < t0 || now > t1 {
			c.Monitors = append(c.Monitors, "received timestamp is not the receive time")
		}
		obs["series"] = mmgen.Size(rec.mms[0])
	}
	if len(rec.evs) == 1 {
		got = rec.evs[0]
	}
	c.Coq = hlib.App("CRaw", hlib.Bool(in.Raw.Event), hlib.Bytes(in.Raw.Hdr), hlib.BytesB(body), hlib.Z(int64(rec.status)), hlib.Bool(nd == 1),
		hlib.Z(now), obsDump, eventCoq(got))
	return true
}

// ---------------------------------------------------------------------------------------
// generators

var runes = []rune("abcXYZ019._-:/ ,|#@=é日本𝄞ß \u0000\n\t~\u0080\u07ff\u0800\ud7ff\ue000\uffff\U00010000\U0010ffff\u007f")

func ustr(r *hlib.Rand, lo, hi int) string {
	n := r.Range(lo, hi)
	var b strings.Builder
	for i := 0; i < n; i++ {
		if r.Chance(3, 4) {
			b.WriteRune(runes[r.Intn(12)]) // mostly plain
		} else {
			b.WriteRune(hlib.Pick(r, runes))
		}
	}
	return b.String()
}

var specials = []uint64{
	0, 1 << 63, // 0, -0
	0x7FF0000000000000, 0xFFF0000000000000, // +-Inf
	0x7FF8000000000000, 0x7FF8000000000001, 0xFFF8000000000000, 0x7FFFFFFFFFFFFFFF, // NaNs
	0x7FEFFFFFFFFFFFFF, 0xFFEFFFFFFFFFFFFF, // +-MaxFloat64
	1, 0x000FFFFFFFFFFFFF, 0x0010000000000000, // subnormals, smallest normal
	0x3FF0000000000000, 0xBFF8000000000000, 0x7E37E43C8800759C, // 1, -1.5, 1e300
}

func fbits(r *hlib.Rand) uint64 {
	switch r.Intn(6) {
	case 0:
		return hlib.Pick(r, specials)
	case 1:
		return r.U64()
	case 2:
		return math.Float64bits(float64(r.Range(-100000, 100000)))
	default:
		return math.Float64bits(mmgen.ExactValue(r))
	}
}

// sampled counts: positive finite doubles (sums of 1/rate), zero, extremes
func sampBits(r *hlib.Rand, n int) uint64 {
	switch r.Intn(8) {
	case 0:
		return hlib.Pick(r, []uint64{0, 1, 0x000FFFFFFFFFFFFF, 0x0010000000000000, 0x7FEFFFFFFFFFFFFF, 0x3FB999999999999A, 0x4340000000000001})
	case 1:
		return math.Float64bits(r.Float() * 1000)
	case 2:
		return math.Float64bits(float64(n) / hlib.Pick(r, mmgen.ExactRates))
	case 3:
		return math.Float64bits(float64(n)/0.3 + 1/0.7)
	default:
		return math.Float64bits(float64(n))
	}
}

func i64(r *hlib.Rand) int64 {
	switch r.Intn(6) {
	case 0:
		return hlib.Pick(r, []int64{0, 1, -1, math.MaxInt64, math.MinInt64, 127, 128, -128, 1 << 32, -(1 << 40)})
	case 1:
		return int64(r.U64())
	default:
		return int64(r.Range(-5000, 5000))
	}
}

func genCfg(r *hlib.Rand) cfg {
	c := cfg{Compress: !r.Chance(1, 4), CType: hlib.Pick(r, []string{"zlib", "lz4", "lz4", "zlib", "", "none"}), Level: r.Range(0, 9)}
	return c
}

func genSeries(r *hlib.Rand, rawKeys bool) []series {
	nNames := r.Range(1, 4)
	names := make([]string, nNames)
	for i := range names {
		names[i] = ustr(r, 0, 9)
		if names[i] == "" && r.Chance(4, 5) {
			names[i] = "n" + ustr(r, 0, 3)
		}
	}
	tagPool := []string{"a", "s:x", "env:prod", ustr(r, 0, 6), ustr(r, 1, 8), "k:" + ustr(r, 0, 4)}
	srcPool := []string{"", "", "x", "10.0.0.1", ustr(r, 1, 10)}
	n := []int{1, 1, 2, 3, 5, 8, 12}[r.Intn(7)]
	seen := map[string]bool{}
	var out []series
	for i := 0; i < n; i++ {
		s := series{Type: r.Range(1, 4), Name: hlib.Pick(r, names), Source: hlib.Pick(r, srcPool), TS: i64(r)}
		nt := []int{0, 0, 1, 1, 2, 3}[r.Intn(6)]
		s.Tags = []string{}
		for j := 0; j < nt; j++ {
			s.Tags = append(s.Tags, hlib.Pick(r, tagPool))
		}
		s.NilTags = r.Bool()
		if rawKeys {
			s.Key = ustr(r, 0, 8) // a map whose inner keys are not FormatTagsKey(source, tags)
		} else {
			s.Key = gostatsd.FormatTagsKey(gostatsd.Source(s.Source), append(gostatsd.Tags(nil), s.Tags...))
		}
		id := fmt.Sprintf("%d|%q|%q", s.Type, s.Name, s.Key)
		if seen[id] {
			continue
		}
		seen[id] = true
		switch gostatsd.MetricType(s.Type) {
		case gostatsd.COUNTER:
			s.Int = i64(r)
		case gostatsd.GAUGE:
			s.Bits = fbits(r)
		case gostatsd.TIMER:
			nv := []int{0, 1, 1, 2, 3, 6}[r.Intn(6)]
			for j := 0; j < nv; j++ {
				s.Values = append(s.Values, fbits(r))
			}
			s.Samp = sampBits(r, nv)
		case gostatsd.SET:
			nm := []int{0, 1, 1, 2, 4}[r.Intn(5)]
			mseen := map[string]bool{}
			for j := 0; j < nm; j++ {
				m := ustr(r, 0, 6)
				if r.Chance(1, 5) {
					m = ""
				}
				if !mseen[m] {
					mseen[m] = true
					s.Members = append(s.Members, m)
				}
			}
		}
		out = append(out, s)
	}
	return out
}

func genEvent(r *hlib.Rand) *eventIn {
	e := &eventIn{Title: ustr(r, 0, 12), Text: ustr(r, 0, 30), Date: i64(r), AggKey: ustr(r, 0, 6), SrcType: ustr(r, 0, 6), Source: ustr(r, 0, 10)}
	nt := r.Range(0, 3)
	e.Tags = []string{}
	for i := 0; i < nt; i++ {
		e.Tags = append(e.Tags, ustr(r, 0, 7))
	}
	e.Priority = r.Range(0, 1)
	e.Alert = r.Range(0, 3)
	if r.Chance(1, 8) { // bytes outside the declared constants
		e.Priority = hlib.Pick(r, []int{2, 7, 255})
	}
	if r.Chance(1, 8) {
		e.Alert = hlib.Pick(r, []int{4, 9, 255})
	}
	return e
}

func genRx(r *hlib.Rand) input {
	rx := &rxIn{Hdr: hlib.Pick(r, []string{"", "identity"})}
	in := input{Cfg: cfg{Compress: false, CType: "none"}, Rx: rx}
	if r.Chance(1, 2) {
		in.Kind = "rx_event"
		e := genEvent(r)
		rx.Event = &pbEventIn{Title: e.Title, Text: e.Text, Date: e.Date, Hostname: e.Source, AggKey: e.AggKey, SrcType: e.SrcType, Tags: e.Tags,
			SourceIP: hlib.Pick(r, []string{e.Source, "", ustr(r, 1, 8)}),
			Priority: int32(hlib.Pick(r, []int{0, 1, 1, 2, 5, -1, math.MaxInt32, math.MinInt32})),
			Type:     int32(hlib.Pick(r, []int{0, 1, 2, 3, 3, 4, 17, -1, math.MaxInt32, math.MinInt32}))}
		return in
	}
	in.Kind = "rx_metrics"
	byType := map[int]map[string][]series{1: {}, 2: {}, 3: {}, 4: {}}
	for _, s := range genSeries(r, r.Bool()) {
		if s.Type == int(gostatsd.SET) && len(s.Members) > 0 && r.Bool() {
			s.Members = append(s.Members, s.Members[r.Intn(len(s.Members))]) // a repeated member
		}
		byType[s.Type][s.Name] = append(byType[s.Type][s.Name], s)
	}
	mk := func(t int) []rxName {
		var out []rxName
		var names []string
		for n := range byType[t] {
			names = append(names, n)
		}
		sort.Strings(names)
		for _, n := range names {
			out = append(out, rxName{Name: n, Entries: byType[t][n]})
		}
		if r.Chance(1, 3) { // a name whose TagMap is empty
			n := "empty" + ustr(r, 0, 3)
			if _, dup := byType[t][n]; !dup {
				out = append(out, rxName{Name: n})
			}
		}
		return out
	}
	rx.Counters, rx.Timers, rx.Gauges, rx.Sets = mk(int(gostatsd.COUNTER)), mk(int(gostatsd.TIMER)), mk(int(gostatsd.GAUGE)), mk(int(gostatsd.SET))
	return in
}

func genRaw(r *hlib.Rand) input {
	in := genRx(r)
	rx := in.Rx
	raw := &rawIn{Hdr: rx.Hdr, Shape: "wellformed"}
	var body []byte
	if r.Chance(1, 8) && spoil(r, rx) {
		raw.Shape = "bad-utf8-inside"
	}
	if in.Kind == "rx_event" {
		raw.Event = true
		body = craftEvent(r, rx.Event)
	} else {
		// duplicate names and keys: a later entry replaces an earlier one
		dup := func(ns []rxName) []rxName {
			if len(ns) > 0 && r.Chance(1, 3) {
				n := ns[r.Intn(len(ns))]
				if len(n.Entries) > 0 && r.Bool() {
					e := n.Entries[r.Intn(len(n.Entries))]
					e.Tags, e.Int, e.Bits, e.Samp = append([]string{"dup"}, e.Tags...), e.Int+1, e.Bits^1, e.Samp^2
					n.Entries = append(append([]series{}, n.Entries...), e)
					return append(ns, n)
				}
				return append(ns, rxName{Name: n.Name, Entries: n.Entries[:len(n.Entries)/2]})
			}
			return ns
		}
		rx.Counters, rx.Gauges, rx.Sets, rx.Timers = dup(rx.Counters), dup(rx.Gauges), dup(rx.Sets), dup(rx.Timers)
		body = craftMetrics(r, rx)
	}
	if raw.Shape == "wellformed" && r.Chance(1, 4) {
		body, raw.Shape = damage(r, body)
	}
	raw.Hex = hex.EncodeToString(body)
	return input{Kind: "raw", Cfg: in.Cfg, Raw: raw}
}

func main() {
	a := hlib.ParseArgs()
	em := hlib.NewEmitter()
	defer em.Close()
	defer dropRig()
	switch a.Mode {
	case "gen":
		r := hlib.NewRand(a.Seed)
		n := 0
		if a.Extra["stream"] == "" && a.N >= 200 {
			for _, c := range prefixSweep {
				runOne(em, genPrefixCfg(r, c))
				n++
			}
		}
		for n < a.N {
			if a.Extra["stream"] == "prefix" || r.Chance(1, 25) {
				runOne(em, genPrefix(r))
				n++
				continue
			}
			if a.Extra["stream"] == "tamper" || r.Chance(1, 14) {
				for g := r.Range(2, 4); g > 0 && n < a.N; g-- {
					c := cfg{Compress: !r.Chance(1, 6), CType: hlib.Pick(r, []string{"lz4", "lz4", "lz4", "zlib", "zlib", ""}), Level: r.Range(0, 9)}
					runOne(em, genTamper(r, c))
					n++
				}
				continue
			}
			if a.Extra["stream"] == "concurrent" || r.Chance(1, 5) {
				runOne(em, genConc(r))
				n++
				continue
			}
			if r.Chance(1, 8) {
				runOne(em, genRx(r))
				n++
				continue
			}
			if r.Chance(1, 5) {
				for g := r.Range(2, 6); g > 0 && n < a.N; g-- {
					runOne(em, genRaw(r))
					n++
				}
				continue
			}
			if r.Chance(1, 8) {
				ct := hlib.Pick(r, []string{"zlib", "lz4", "none", "", "gzip", "ZLIB", "deflate", "lz4 ", ustr(r, 1, 5)})
				lv := hlib.Pick(r, []int{0, 9, 10, -1, 5, 100, r.Range(-3, 12)})
				runOne(em, input{Kind: "config", Cfg: cfg{Compress: true, CType: ct, Level: lv}})
				n++
				continue
			}
			c := genCfg(r)
			group := r.Range(3, 8)
			for g := 0; g < group && n < a.N; g++ {
				switch r.Intn(8) {
				case 0, 1:
					runOne(em, input{Kind: "event", Cfg: c, Event: genEvent(r)})
				case 2:
					runOne(em, input{Kind: "metrics", Cfg: c, Series: genSeries(r, true)})
				default:
					runOne(em, input{Kind: "metrics", Cfg: c, Series: genSeries(r, false)})
				}
				n++
			}
		}
	case "run":
		concAttempts = 6
		for _, raw := range a.Inputs {
			var in input
			if err := json.Unmarshal(raw, &in); err != nil {
				fmt.Fprintln(os.Stderr, "bad input:", err)
				os.Exit(2)
			}
			if in.Kind == "metrics" && len(in.Series) == 0 {
				continue // an empty map is never posted
			}
			runOne(em, in)
		}
	}
}
