package main

// The "concurrent" stream: K = 2..8 messages in flight at once on one forwarder — events (each
// DispatchEvent posts on its own goroutine) and metric maps that one flush splits into several
// concurrent requests (dynamic header "region", max-requests 2..4) —, optionally with the first
// requests answered 503 by the server so that a retry overlaps the other posts, the server holding
// every request for a few milliseconds so that posts really overlap, and GOMAXPROCS 1 / 2 /
// default to vary the interleavings.  Observable: the MULTISET of messages the ingestion server
// dispatched, which must be exactly the messages given (each once), and no status other than 202
// and the scripted 503s.

import (
	"fmt"
	"runtime"
	"sort"
	"strings"
	"sync/atomic"
	"time"

	"github.com/atlassian/gostatsd"

	"verifharness/hlib"
	"verifharness/mmgen"
)

type concMsg struct {
	Event  *eventIn `json:"event,omitempty"`
	Series []series `json:"series,omitempty"` // every series carries the tag region:<Region>
	Region string   `json:"region,omitempty"`
}

type concIn struct {
	MaxReq    int       `json:"maxreq"`
	DelayMs   int       `json:"delay_ms"`
	FailFirst int       `json:"fail_first"` // the first N requests are answered 503
	Procs     int       `json:"procs"`      // GOMAXPROCS during the case (0 = unchanged)
	GapUs     int       `json:"gap_us"`     // pause after the first dispatch
	Msgs      []concMsg `json:"msgs"`
}

// runConc runs the case once when generating; a replayed input (`run`) is repeated up to six
// times until a harness monitor fires, because the interleaving of a run is not part of the input.
func runConc(em *hlib.Emitter, in input, attempts int) {
	var c hlib.Case
	for i := 0; i < attempts; i++ {
		c = runConcOnce(in)
		if len(c.Monitors) > 0 {
			break
		}
	}
	em.Emit(c)
}

func multisetDiff(want, got []string) string {
	w, g := append([]string{}, want...), append([]string{}, got...)
	sort.Strings(w)
	sort.Strings(g)
	if strings.Join(w, "\x00") == strings.Join(g, "\x00") {
		return ""
	}
	cnt := map[string]int{}
	for _, x := range w {
		cnt[x]++
	}
	for _, x := range g {
		cnt[x]--
	}
	missing, extra := 0, 0
	for _, n := range cnt {
		if n > 0 {
			missing += n
		} else {
			extra -= n
		}
	}
	return fmt.Sprintf("%d given, %d dispatched, %d never dispatched, %d dispatched but not given (or dispatched twice)", len(w), len(g), missing, extra)
}

func runConcOnce(in input) hlib.Case {
	co := in.Conc
	c := hlib.Case{Input: in, Nontrivial: true}
	encClass := "identity"
	if in.Cfg.Compress && in.Cfg.CType != "none" {
		encClass = in.Cfg.CType
		if encClass == "" {
			encClass = "zlib"
		}
	}
	c.Class = fmt.Sprintf("concurrent/%s/fail%d", encClass, co.FailFirst)
	dropRig()
	r, err := newRigOpt(in.Cfg, rigOpt{maxReq: co.MaxReq, dyn: []string{"region"}, flush: 3 * time.Millisecond, maxElapsed: 2 * time.Second})
	if err != nil {
		c.Monitors = append(c.Monitors, "cannot start forwarder and server: "+err.Error())
		return c
	}
	defer r.close()
	if co.Procs > 0 {
		defer runtime.GOMAXPROCS(runtime.GOMAXPROCS(co.Procs))
	}
	atomic.StoreInt64(&r.delayNs, int64(co.DelayMs)*int64(time.Millisecond))
	atomic.StoreInt64(&r.failLeft, int64(co.FailFirst))

	var expMaps, expEvents, wantM, wantE, gotM, gotE []string
	nEvents := 0
	for i, m := range co.Msgs {
		if m.Event != nil {
			e := m.Event
			ev := &gostatsd.Event{Title: e.Title, Text: e.Text, DateHappened: e.Date, AggregationKey: e.AggKey, SourceTypeName: e.SrcType,
				Tags: append(gostatsd.Tags(nil), e.Tags...), Source: gostatsd.Source(e.Source), Priority: gostatsd.Priority(e.Priority), AlertType: gostatsd.AlertType(e.Alert)}
			expEvents = append(expEvents, eventCoq(ev))
			norm := *ev
			if norm.Priority > gostatsd.PriLow {
				norm.Priority = gostatsd.PriNormal
			}
			if norm.AlertType > gostatsd.AlertSuccess {
				norm.AlertType = gostatsd.AlertInfo
			}
			wantE = append(wantE, eventCoq(&norm))
			r.fwd.DispatchEvent(r.ctx, ev)
			nEvents++
		} else {
			mm := buildMap(m.Series)
			expMaps = append(expMaps, mmgen.Entries(mm))
			wantM = append(wantM, project(mm))
			r.fwd.DispatchMetricMap(r.ctx, mm)
		}
		if i == 0 && co.GapUs > 0 {
			time.Sleep(time.Duration(co.GapUs) * time.Microsecond)
		}
	}
	want := len(co.Msgs)
	var obsMaps, obsEvents, badStatus []string
	statuses := map[int]int{}
	got := 0
	take := func(rec *record) {
		statuses[rec.status]++
		if rec.scripted {
			return
		}
		if rec.status != 202 {
			badStatus = append(badStatus, hlib.Z(int64(rec.status)))
		}
		for _, mm := range rec.mms {
			obsMaps = append(obsMaps, mmgen.Entries(mm))
			gotM = append(gotM, project(mm))
			got++
		}
		for _, e := range rec.evs {
			obsEvents = append(obsEvents, eventCoq(e))
			gotE = append(gotE, eventCoq(e))
			got++
		}
		if rec.status == 202 && len(rec.mms)+len(rec.evs) != 1 {
			c.Monitors = append(c.Monitors, fmt.Sprintf("a 202 request dispatched %d messages", len(rec.mms)+len(rec.evs)))
		}
	}
	deadline := time.After(3500 * time.Millisecond)
collect:
	for got < want {
		select {
		case rec := <-r.records:
			take(rec)
		case <-deadline:
			break collect
		}
	}
	// the forwarder must now be idle: let stragglers (duplicates, late retries) land
	if nEvents > 0 {
		done := make(chan struct{})
		go func() { r.fwd.WaitForEvents(); close(done) }()
		select {
		case <-done:
		case <-time.After(3 * time.Second):
		}
	}
	grace := 40 * time.Millisecond
	if co.FailFirst > 0 || len(badStatus) > 0 {
		grace = 150 * time.Millisecond
	}
	idle := time.After(grace)
linger:
	for {
		select {
		case rec := <-r.records:
			take(rec)
		case <-idle:
			break linger
		}
	}
	sort.Strings(obsMaps)
	sort.Strings(obsEvents)
	c.Obs = map[string]interface{}{"statuses": fmt.Sprint(statuses), "given": want, "dispatched": got}
	c.Coq = hlib.App("CConc", hlib.List(expMaps), hlib.List(expEvents), hlib.List(badStatus), hlib.List(obsMaps), hlib.List(obsEvents))
	if len(badStatus) > 0 {
		c.Monitors = append(c.Monitors, "the ingestion server refused requests of the forwarder: statuses "+fmt.Sprint(statuses))
	}
	if d := multisetDiff(wantM, gotM); d != "" {
		c.Monitors = append(c.Monitors, "metric batches dispatched by the server are not the batches given to the forwarder, each once: "+d)
	}
	if d := multisetDiff(wantE, gotE); d != "" {
		c.Monitors = append(c.Monitors, "events dispatched by the server are not the events given to the forwarder, each once: "+d)
	}
	return c
}

func genConc(r *hlib.Rand) input {
	c := cfg{Compress: !r.Chance(1, 8), CType: hlib.Pick(r, []string{"zlib", "lz4", "lz4", "zlib", ""}), Level: r.Range(0, 9)}
	co := &concIn{MaxReq: r.Range(2, 4), DelayMs: hlib.Pick(r, []int{0, 0, 1, 3, 8}), Procs: hlib.Pick(r, []int{0, 1, 1, 2})}
	if r.Chance(1, 4) {
		co.FailFirst = r.Range(1, 2)
		co.GapUs = hlib.Pick(r, []int{0, 500, 5000, 30000})
	} else if r.Chance(1, 3) {
		co.GapUs = hlib.Pick(r, []int{100, 1000})
	}
	k := r.Range(2, 8)
	clean := func(s string) string { return strings.ReplaceAll(s, ",", ";") }
	for i := 0; i < k; i++ {
		if r.Chance(2, 5) {
			co.Msgs = append(co.Msgs, concMsg{Event: genEvent(r)})
			continue
		}
		region := fmt.Sprintf("r%d", i)
		var ss []series
		for _, s := range genSeries(r, false) {
			var tags []string
			for _, t := range s.Tags {
				if t = clean(t); !strings.HasPrefix(t, "region") {
					tags = append(tags, t)
				}
			}
			at := r.Intn(len(tags) + 1)
			tags = append(tags[:at:at], append([]string{"region:" + region}, tags[at:]...)...)
			s.Tags, s.Source, s.NilTags = tags, clean(s.Source), false
			s.Key = gostatsd.FormatTagsKey(gostatsd.Source(s.Source), append(gostatsd.Tags(nil), s.Tags...))
			ss = append(ss, s)
		}
		co.Msgs = append(co.Msgs, concMsg{Region: region, Series: ss})
	}
	return input{Kind: "concurrent", Cfg: c, Conc: co}
}
