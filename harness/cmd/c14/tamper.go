package main

// The "tamper" stream: a relay between the real forwarder and the real ingestion server damages
// the FIRST attempt of a request in transit — one bit or byte changed in the header area, the
// middle (block sizes / literals), or the trailer (end mark, checksums) of the zlib / lz4 body,
// a truncation, or appended bytes; uncompressed bodies are truncated or extended — and lets later
// attempts through.  Oracle for "must be rejected": the codec LIBRARY itself on the damaged bytes
// (zlib.NewReader / lz4.NewReader + ReadAll, i.e. with all of the library's verification); the
// decoded-or-rejected result goes into the Coq case, where C14_bad_body's decision function
// (Model/Wire.v metric_handler / event_handler over the PbWire decoder) says what status and
// dispatch the first attempt must have; after a rejection the forwarder's retry must deliver the
// original exactly once.  Uncompressed bodies are not bit-flipped: a flipped tag can become a
// group wire type, which the decoder model does not cover.

import (
	"encoding/hex"
	"fmt"
	"time"

	"github.com/atlassian/gostatsd"

	"verifharness/hlib"
	"verifharness/mmgen"
)

type tamperIn struct {
	Mode   string   `json:"mode"`  // flip | xor | trunc | append
	Where  string   `json:"where"` // head | mid | tail | any
	Pos    int      `json:"pos"`   // reduced modulo the size of the region
	Val    int      `json:"val"`   // bit number / xor mask
	Extra  string   `json:"extra"` // hex, for append
	Event  *eventIn `json:"event,omitempty"`
	Series []series `json:"series,omitempty"`
}

var tamperOpt = rigOpt{maxReq: 1, flush: time.Millisecond, maxElapsed: 4 * time.Second}

func (t *tamperIn) apply(b []byte) []byte {
	n := len(b)
	lo, hi := 0, n
	switch t.Where {
	case "head":
		hi = min(12, n)
	case "tail":
		lo = max(0, n-9)
	case "mid":
		lo, hi = n/4, max(n/4+1, 3*n/4)
		if hi > n {
			hi = n
		}
	}
	idx := lo
	if hi > lo {
		idx = lo + t.Pos%(hi-lo)
	}
	switch t.Mode {
	case "flip":
		if n > 0 {
			b[idx] ^= 1 << uint(t.Val%8)
		}
	case "xor":
		if n > 0 {
			b[idx] ^= byte(t.Val%255 + 1)
		}
	case "trunc":
		if n > 0 {
			b = b[:idx]
		}
	case "append":
		x, _ := hex.DecodeString(t.Extra)
		b = append(b, x...)
	}
	return b
}

func runTamper(em *hlib.Emitter, in input) {
	t := in.Tamper
	c := hlib.Case{Input: in, Nontrivial: true}
	encClass := "identity"
	if in.Cfg.Compress && in.Cfg.CType != "none" {
		encClass = in.Cfg.CType
		if encClass == "" {
			encClass = "zlib"
		}
	}
	c.Class = fmt.Sprintf("tamper/%s/%s-%s", encClass, t.Mode, t.Where)
	r, err := rigForOpt(in.Cfg, tamperOpt)
	if err != nil {
		c.Monitors = append(c.Monitors, "cannot start forwarder and server: "+err.Error())
		em.Emit(c)
		return
	}
	for len(r.records) > 0 {
		x := <-r.records
		c.Monitors = append(c.Monitors, fmt.Sprintf("unexpected extra request %s (status %d)", x.path, x.status))
	}
	isEvent := t.Event != nil
	givenM, givenE := "[]", eventCoq(&gostatsd.Event{})
	var wantProj string
	r.armTamper(t.apply)
	if isEvent {
		e := t.Event
		ev := &gostatsd.Event{Title: e.Title, Text: e.Text, DateHappened: e.Date, AggregationKey: e.AggKey, SourceTypeName: e.SrcType,
			Tags: append(gostatsd.Tags(nil), e.Tags...), Source: gostatsd.Source(e.Source), Priority: gostatsd.Priority(e.Priority), AlertType: gostatsd.AlertType(e.Alert)}
		givenE = eventCoq(ev)
		r.fwd.DispatchEvent(r.ctx, ev)
	} else {
		mm := buildMap(t.Series)
		givenM, wantProj = mmgen.Entries(mm), project(mm)
		r.fwd.DispatchMetricMap(r.ctx, mm)
	}
	describe := func(rec *record) (status int, disp bool, now int64, m string, e string) {
		m, e = "[]", eventCoq(&gostatsd.Event{})
		status = rec.status
		nd := len(rec.mms) + len(rec.evs)
		if nd > 1 || (rec.status == 202) != (nd == 1) {
			c.Monitors = append(c.Monitors, fmt.Sprintf("status %d with %d dispatches", rec.status, nd))
		}
		disp = nd >= 1
		if len(rec.mms) >= 1 {
			m = mmgen.Entries(rec.mms[0])
			set := func(ts gostatsd.Nanotime) { now = int64(ts) }
			rec.mms[0].Counters.Each(func(_, _ string, v gostatsd.Counter) { set(v.Timestamp) })
			rec.mms[0].Gauges.Each(func(_, _ string, v gostatsd.Gauge) { set(v.Timestamp) })
			rec.mms[0].Timers.Each(func(_, _ string, v gostatsd.Timer) { set(v.Timestamp) })
			rec.mms[0].Sets.Each(func(_, _ string, v gostatsd.Set) { set(v.Timestamp) })
		}
		if len(rec.evs) >= 1 {
			e = eventCoq(rec.evs[0])
		}
		return
	}
	first := r.wait(10 * time.Second)
	if first == nil || !first.tampered {
		c.Monitors = append(c.Monitors, "no (tampered) request reached the server within 10s")
		dropRig()
		em.Emit(c)
		return
	}
	lib, libErr := libDecode(first.enc, first.body)
	st1, disp1, now1, m1, e1 := describe(first)
	obs := map[string]interface{}{"status": st1, "encoding": first.enc, "sent_len": len(first.orig), "tampered_len": len(first.body), "library_rejects": libErr != nil}
	if libErr != nil && (st1 == 202 || disp1) {
		c.Monitors = append(c.Monitors, fmt.Sprintf("a %s body that the codec library rejects (%v) was answered %d and dispatched=%v", first.enc, libErr, st1, disp1))
	}
	var later []string
	delivered := 0
	if st1 != 202 { // the forwarder retries after its backoff (250..750 ms)
		if rec := r.wait(3500 * time.Millisecond); rec != nil {
			st, disp, now, m, e := describe(rec)
			later = append(later, hlib.App("Attempt", hlib.Z(int64(st)), hlib.Bool(disp), hlib.Z(now), m, e))
			if st == 202 && disp {
				delivered++
				if !isEvent && len(rec.mms) == 1 && project(rec.mms[0]) != wantProj {
					c.Monitors = append(c.Monitors, "the retry delivered something else than the map given to the forwarder")
				}
			}
		}
		if delivered != 1 {
			c.Monitors = append(c.Monitors, "after the damaged attempt was refused, the retry did not deliver the original")
		}
	}
	if isEvent {
		r.fwd.WaitForEvents()
	}
	idle := time.After(20 * time.Millisecond)
linger:
	for {
		select {
		case rec := <-r.records:
			st, disp, now, m, e := describe(rec)
			later = append(later, hlib.App("Attempt", hlib.Z(int64(st)), hlib.Bool(disp), hlib.Z(now), m, e))
		case <-idle:
			break linger
		}
	}
	obs["later_attempts"] = len(later)
	c.Obs = obs
	c.Coq = hlib.App("CTamper", hlib.Bool(isEvent), hlib.Bytes(first.enc), hlib.BytesB(first.body), hlib.Option(hlib.BytesB(lib), libErr == nil),
		hlib.App("Attempt", hlib.Z(int64(st1)), hlib.Bool(disp1), hlib.Z(now1), m1, e1), givenM, givenE, hlib.List(later))
	if len(c.Monitors) > 0 {
		dropRig()
	}
	em.Emit(c)
}

func genTamper(r *hlib.Rand, c cfg) input {
	t := &tamperIn{Pos: r.Intn(1 << 20), Val: r.Intn(1 << 16)}
	compressed := c.Compress && c.CType != "none"
	if compressed {
		t.Mode = hlib.Pick(r, []string{"flip", "flip", "flip", "xor", "xor", "trunc", "append"})
		t.Where = hlib.Pick(r, []string{"head", "mid", "mid", "tail", "tail", "any"})
		n := r.Range(1, 6)
		x := make([]byte, n)
		for i := range x {
			x[i] = byte(r.U64())
		}
		t.Extra = hex.EncodeToString(x)
	} else {
		t.Mode = hlib.Pick(r, []string{"trunc", "trunc", "append"})
		t.Where = hlib.Pick(r, []string{"mid", "tail", "any", "head"})
		// the malformed tails of the raw stream (never a group wire type)
		x, _ := damage(r, nil)
		if r.Chance(1, 4) {
			x = []byte{0x78} // a tag without its value
		}
		t.Extra = hex.EncodeToString(x)
	}
	// a long plain string somewhere in the message: damage in the middle of the body then mostly
	// hits literal bytes of the compressed stream and leaves the protobuf structure intact
	pad := make([]byte, r.Range(24, 90))
	for i := range pad {
		pad[i] = "abcdefghijklmnopqrstuvwxyz0123456789._-"[r.Intn(39)]
	}
	if r.Chance(1, 3) {
		t.Event = genEvent(r)
		t.Event.Text += string(pad)
	} else {
		t.Series = genSeries(r, false)
		s0 := &t.Series[r.Intn(len(t.Series))]
		s0.Tags = append(append([]string{}, s0.Tags...), "pad:"+string(pad))
		s0.NilTags = false
		s0.Key = gostatsd.FormatTagsKey(gostatsd.Source(s0.Source), append(gostatsd.Tags(nil), s0.Tags...))
	}
	return input{Kind: "tamper", Cfg: c, Tamper: t}
}
