// C13: Kubernetes lookups reflect the current pod holding an IP.
//
// Lock-step correspondence on a real k8s.Provider whose informer is played by the harness: for
// every delivery the indexer is changed and then the cache invalidation handler is called, the
// way client-go's processDeltas does it; lookups go through Peek or through IpSink/InfoSource
// (Provider.Run).  Every lookup answer is recorded and compared inside Coq with the model's.
// The regexes are oracles: the tables are computed here directly from Go's regexp.
package main

import (
	"context"
	"encoding/json"
	"fmt"
	"io"
	"os"
	"regexp"
	"sort"
	"strings"
	"time"

	"github.com/sirupsen/logrus"
	core_v1 "k8s.io/api/core/v1"
	meta_v1 "k8s.io/apimachinery/pkg/apis/meta/v1"
	"k8s.io/client-go/tools/cache"

	"github.com/atlassian/gostatsd"
	"github.com/atlassian/gostatsd/pkg/cachedinstances/k8s"

	"verifharness/hlib"
)

// ------------------------------------------------------------------------------------------
// inputs

type kv struct {
	K string `json:"k"`
	V string `json:"v"`
}

type podSpec struct {
	NS       string `json:"ns"`
	Name     string `json:"name"`
	IP       string `json:"ip"`
	HostIP   string `json:"host_ip"`
	Phase    string `json:"phase"`
	Deleting bool   `json:"deleting,omitempty"`
	HostNet  bool   `json:"host_net,omitempty"`
	Labels   []kv   `json:"labels,omitempty"`
	Annots   []kv   `json:"annots,omitempty"`
}

type op struct {
	Kind string   `json:"kind"` // add | update | delete | peek | chan | push | drain; stream async: ix-add | ix-update | ix-delete | handle | begin | finish
	Pod  *podSpec `json:"pod,omitempty"`
	Old  *podSpec `json:"old,omitempty"`
	IP   string   `json:"ip,omitempty"`
	Tomb bool     `json:"tomb,omitempty"` // delete delivered as cache.DeletedFinalStateUnknown
	T    int      `json:"t,omitempty"`    // stream async: lookup id of begin / finish
	N    int      `json:"n,omitempty"`    // drain: number of answers to read (0 = all unread)
}

type input struct {
	LabRe  *string `json:"lab_re"` // nil = nil regex (label matching disabled)
	AnnRe  *string `json:"ann_re"`
	Ops    []op    `json:"ops"`
	Stream string  `json:"stream"` // unique | shared | offcontract | async
}

func (p *podSpec) key() string {
	if p.NS != "" {
		return p.NS + "/" + p.Name
	}
	return p.Name
}

// the harness's own reading of "running, non-host-network pod holding an IP"
func (p *podSpec) serving() bool {
	if p.IP == "" || p.Deleting || p.HostNet || p.IP == p.HostIP {
		return false
	}
	return p.Phase != "Succeeded" && p.Phase != "Failed"
}

func kvMap(l []kv) map[string]string {
	if l == nil {
		return nil
	}
	m := make(map[string]string, len(l))
	for _, e := range l {
		m[e.K] = e.V
	}
	return m
}

func (p *podSpec) object() *core_v1.Pod {
	o := &core_v1.Pod{
		ObjectMeta: meta_v1.ObjectMeta{Name: p.Name, Namespace: p.NS, Labels: kvMap(p.Labels), Annotations: kvMap(p.Annots)},
		Spec:       core_v1.PodSpec{HostNetwork: p.HostNet},
		Status:     core_v1.PodStatus{PodIP: p.IP, HostIP: p.HostIP, Phase: core_v1.PodPhase(p.Phase)},
	}
	if p.Deleting {
		t := meta_v1.NewTime(time.Unix(1700000000, 0))
		o.ObjectMeta.DeletionTimestamp = &t
	}
	return o
}

// ------------------------------------------------------------------------------------------
// Coq printing

func coqPhase(s string) string {
	switch s {
	case "Pending", "Running", "Succeeded", "Failed":
		return s
	case "Unknown":
		return "UnknownPhase"
	}
	return "OtherPhase"
}

func coqKVs(l []kv) string {
	m := kvMap(l)
	keys := make([]string, 0, len(m))
	for k := range m {
		keys = append(keys, k)
	}
	sort.Strings(keys)
	el := make([]string, len(keys))
	for i, k := range keys {
		el[i] = hlib.Pair(hlib.Bytes(k), hlib.Bytes(m[k]))
	}
	return hlib.List(el)
}

func coqPod(p *podSpec) string {
	return hlib.App("MkPod", hlib.Bytes(p.NS), hlib.Bytes(p.Name), hlib.Bytes(p.IP), hlib.Bytes(p.HostIP),
		coqPhase(p.Phase), hlib.Bool(p.Deleting), hlib.Bool(p.HostNet), coqKVs(p.Labels), coqKVs(p.Annots))
}

// oracle table of one regex over the given keys, straight from Go's regexp
func coqTable(re *regexp.Regexp, keys map[string]bool) string {
	if re == nil {
		return "None"
	}
	ks := make([]string, 0, len(keys))
	for k := range keys {
		ks = append(ks, k)
	}
	sort.Strings(ks)
	names := re.SubexpNames()
	el := make([]string, len(ks))
	for i, k := range ks {
		m := re.FindStringSubmatch(k)
		if m == nil {
			el[i] = hlib.Pair(hlib.Bytes(k), "None")
			continue
		}
		groups := make([]string, 0, len(m))
		for j := 1; j < len(m); j++ {
			groups = append(groups, hlib.Pair(hlib.Bytes(names[j]), hlib.Bytes(m[j])))
		}
		el[i] = hlib.Pair(hlib.Bytes(k), hlib.Option(hlib.Pair(hlib.Bytes(m[0]), hlib.List(groups)), true))
	}
	return hlib.Option(hlib.List(el), true)
}

// ------------------------------------------------------------------------------------------
// running one case on the real provider

type answer struct {
	IP   string   `json:"ip"`
	Via  string   `json:"via"`
	Nil  bool     `json:"nil"`
	ID   string   `json:"id,omitempty"`
	Tags []string `json:"tags,omitempty"`
}

func compile(s *string) *regexp.Regexp {
	if s == nil {
		return nil
	}
	re, err := regexp.Compile(*s)
	if err != nil {
		fmt.Fprintln(os.Stderr, "bad regex in input:", *s, err)
		os.Exit(2)
	}
	return re
}

var quiet = func() *logrus.Logger {
	l := logrus.New()
	l.SetOutput(io.Discard)
	l.SetLevel(logrus.PanicLevel)
	return l
}()

func runCase(in input) hlib.Case {
	if in.Stream == "async" {
		return runAsync(in)
	}
	c := hlib.Case{Input: in}
	labRe, annRe := compile(in.LabRe), compile(in.AnnRe)
	labKeys, annKeys := map[string]bool{}, map[string]bool{}
	note := func(p *podSpec) {
		if p == nil {
			return
		}
		for _, e := range p.Labels {
			labKeys[e.K] = true
		}
		for _, e := range p.Annots {
			annKeys[e.K] = true
		}
	}
	for i := range in.Ops {
		note(in.Ops[i].Pod)
		note(in.Ops[i].Old)
	}

	vp, err := k8s.VerifNewProvider(quiet, annRe, labRe)
	if err != nil {
		fmt.Fprintln(os.Stderr, "VerifNewProvider:", err)
		os.Exit(3)
	}
	indexer := vp.VerifIndexer()
	ctx, cancel := context.WithCancel(context.Background())
	defer cancel()
	running := false
	runPanic := make(chan string, 1) // a panic of the implementation inside Provider.Run's goroutine

	mirror := map[string]*podSpec{} // the harness's own copy of what the informer holds
	var evs []string
	var answers []answer
	changed, nonNil := false, 0
	last := map[string]string{} // ip -> last answer (canonical text), to see whether answers change
	monitor := func(f string, a ...interface{}) { c.Monitors = append(c.Monitors, fmt.Sprintf(f, a...)) }

	// ids of the pods serving on ip right now, according to the harness's own mirror
	holdersOf := func(ip string) []string {
		var hs []string
		for _, p := range mirror {
			if p.serving() && p.IP == ip {
				hs = append(hs, p.NS+"/"+p.Name)
			}
		}
		sort.Strings(hs)
		return hs
	}
	// direct monitor, independent of the model: on an informer-conformant history the identity
	// answered for ip must be that of a pod that served on ip at the moment of the lookup
	judge := func(i int, ip string, inst *gostatsd.Instance, holders []string) string {
		switch {
		case len(holders) == 0 && inst != nil:
			return fmt.Sprintf("op %d: lookup %q answered %q but no running non-host-network pod holds that IP", i, ip, inst.ID)
		case len(holders) > 0 && inst == nil:
			return fmt.Sprintf("op %d: lookup %q answered nothing but %v holds that IP", i, ip, holders)
		case len(holders) > 0:
			for _, h := range holders {
				if h == string(inst.ID) {
					return ""
				}
			}
			return fmt.Sprintf("op %d: lookup %q answered %q, current holder(s) %v", i, ip, inst.ID, holders)
		}
		return ""
	}
	// book-keeping common to every answer; returns the answer as a Coq term
	record := func(ip, via string, inst *gostatsd.Instance) string {
		coq, a := coqAnswer(inst)
		a.IP, a.Via = ip, via
		if inst != nil {
			nonNil++
		}
		answers = append(answers, a)
		txt := a.ID + "|" + strings.Join(a.Tags, ",")
		if prev, ok := last[ip]; ok && prev != txt {
			changed = true
		}
		last[ip] = txt
		return coq
	}
	// IPs received by Provider.Run whose InstanceInfo has not been read from InfoSource yet, with
	// the holders at the moment of receipt (the real code resolves the instance at receipt)
	type unreadIP struct {
		ip      string
		holders []string
	}
	var unread []unreadIP
	lagged := false
	wedged := false
	push := func(i int, ip string) bool {
		if !running {
			go func() {
				defer func() {
					if r := recover(); r != nil {
						runPanic <- fmt.Sprint(r)
					}
				}()
				vp.P.Run(ctx)
			}()
			running = true
		}
		select {
		case vp.P.IpSink() <- gostatsd.Source(ip):
			return true
		case m := <-runPanic:
			monitor("op %d: Provider.Run panicked: %s", i, m)
		case <-time.After(10 * time.Second):
			monitor("op %d: IpSink did not accept %q within 10s", i, ip)
		}
		wedged = true
		return false
	}
	read := func(i int) (gostatsd.InstanceInfo, bool) {
		select {
		case info := <-vp.P.InfoSource():
			return info, true
		case m := <-runPanic:
			monitor("op %d: Provider.Run panicked while an answer was awaited: %s", i, m)
		case <-time.After(10 * time.Second):
			monitor("op %d: no answer on InfoSource within 10s (%d unread)", i, len(unread))
		}
		wedged = true
		return gostatsd.InstanceInfo{}, false
	}
	// reads n answers of a lagging consumer: each must be the answer, for ITS OWN ip, of one of the
	// IPs received and not yet answered (delivery order is the implementation's choice)
	drain := func(i, n int) {
		var pairs []string
		for k := 0; k < n && !wedged; k++ {
			info, ok := read(i)
			if !ok {
				break
			}
			ip := string(info.IP)
			pairs = append(pairs, hlib.Pair(hlib.Bytes(ip), record(ip, "drain", info.Instance)))
			match, sameIP, why := -1, -1, ""
			for j, u := range unread {
				if u.ip != ip {
					continue
				}
				sameIP = j
				if why = judge(i, ip, info.Instance, u.holders); why == "" {
					match = j
					break
				}
			}
			switch {
			case sameIP < 0:
				monitor("op %d: InfoSource delivered an answer for %q, which is not among the unread IPs", i, ip)
				continue
			case match < 0:
				match = sameIP
				if in.Stream != "offcontract" {
					monitor("%s (resolved when the IP was received; answer read later from InfoSource)", why)
				}
			}
			unread = append(unread[:match], unread[match+1:]...)
		}
		if len(pairs) > 0 {
			evs = append(evs, hlib.App("EDrain", hlib.List(pairs)))
		}
	}

	// Provider.Run resolves an IP after the send into IpSink has completed, i.e. concurrently with
	// whatever the harness does next.  Before an op that touches the store or the memo the harness
	// therefore pushes a barrier IP (held by no pod, ever): that send completes only when Run is back
	// at its select, having resolved everything received before; the barrier's own resolution (always
	// nothing) commutes with every other step.  Reading from InfoSource synchronises in the same way.
	const barrierIP = "barrier.invalid"
	unsynced := false
	settleRun := func(i int) {
		if unsynced && push(i, barrierIP) {
			unread = append(unread, unreadIP{barrierIP, nil})
			evs = append(evs, hlib.App("EPush", hlib.Bytes(barrierIP)))
		}
		unsynced = false
	}

	for i, o := range in.Ops {
		o := o
		if wedged {
			break
		}
		msg := hlib.Recover(func() {
			switch o.Kind {
			case "add", "update", "delete", "peek":
				settleRun(i)
			}
			switch o.Kind {
			case "add":
				obj := o.Pod.object()
				if err := indexer.Add(obj); err != nil {
					monitor("op %d: indexer.Add: %v", i, err)
				}
				vp.VerifOnAdd(obj)
				mirror[o.Pod.key()] = o.Pod
				evs = append(evs, hlib.App("EAdd", coqPod(o.Pod)))
			case "update":
				obj := o.Pod.object()
				if err := indexer.Update(obj); err != nil {
					monitor("op %d: indexer.Update: %v", i, err)
				}
				vp.VerifOnUpdate(o.Old.object(), obj)
				mirror[o.Pod.key()] = o.Pod
				evs = append(evs, hlib.App("EUpdate", coqPod(o.Old), coqPod(o.Pod)))
			case "delete":
				var obj interface{} = o.Pod.object()
				if o.Tomb {
					obj = cache.DeletedFinalStateUnknown{Key: o.Pod.key(), Obj: obj}
				}
				if err := indexer.Delete(obj); err != nil {
					monitor("op %d: indexer.Delete: %v", i, err)
				}
				vp.VerifOnDelete(obj)
				delete(mirror, o.Pod.key())
				evs = append(evs, hlib.App("EDelete", coqPod(o.Pod)))
			case "peek", "chan":
				if o.Kind == "chan" && len(unread) > 0 {
					// a consumer that is already behind: one more IP, one answer (of any unread IP)
					if push(i, o.IP) {
						unread = append(unread, unreadIP{o.IP, holdersOf(o.IP)})
						evs = append(evs, hlib.App("EPush", hlib.Bytes(o.IP)))
						lagged = true
						drain(i, 1)
					}
					return
				}
				var inst *gostatsd.Instance
				if o.Kind == "peek" {
					var hit bool
					inst, hit = vp.P.Peek(gostatsd.Source(o.IP))
					if !hit {
						monitor("op %d: Peek(%q) reported a cache miss", i, o.IP)
					}
				} else {
					if !push(i, o.IP) {
						return
					}
					info, ok := read(i)
					if !ok {
						return
					}
					if string(info.IP) != o.IP {
						monitor("op %d: asked for %q, InfoSource answered for %q", i, o.IP, info.IP)
					}
					inst = info.Instance
				}
				evs = append(evs, hlib.App("ELookup", hlib.Bytes(o.IP), record(o.IP, o.Kind, inst)))
				if in.Stream != "offcontract" {
					if why := judge(i, o.IP, inst, holdersOf(o.IP)); why != "" {
						monitor("%s", why)
					}
				}
			case "push": // an IP goes into IpSink; its answer is not read yet
				if push(i, o.IP) {
					if len(unread) > 0 {
						lagged = true
					}
					unread = append(unread, unreadIP{o.IP, holdersOf(o.IP)})
					evs = append(evs, hlib.App("EPush", hlib.Bytes(o.IP)))
					unsynced = true
				}
			case "drain": // the consumer reads n answers (0 or too many: all that are unread)
				n := o.N
				if n <= 0 || n > len(unread) {
					n = len(unread)
				}
				drain(i, n)
				if n > 0 {
					unsynced = false
				}
			default:
				fmt.Fprintln(os.Stderr, "bad op kind:", o.Kind)
				os.Exit(2)
			}
		})
		if msg != "" {
			monitor("op %d (%s): panic: %s", i, o.Kind, msg)
			wedged = true
			break
		}
	}
	if !wedged && len(unread) > 0 {
		drain(len(in.Ops), len(unread)) // nothing stays unread: every received IP gets its answer
	}

	c.Obs = map[string]interface{}{"answers": answers}
	c.Coq = hlib.App("KC", coqTable(labRe, labKeys), coqTable(annRe, annKeys), hlib.List(evs), "[]")
	shape := "allnil"
	if nonNil > 0 {
		shape = "static"
	}
	if changed {
		shape = "changing"
	}
	c.Class = in.Stream + "/" + shape
	if lagged {
		c.Class += "+lag"
	}
	c.Nontrivial = changed && nonNil > 0
	return c
}

// ------------------------------------------------------------------------------------------
// stream async: the finer atomic steps of Model/K8sAsync.v on the real provider
//
//   ix-add / ix-update / ix-delete   the informer's half of a delivery: the indexer changes, the
//                                    handler call is queued (FIFO)
//   handle                           the listener's half: the oldest queued handler call runs
//   begin t ip                       lookup t starts (Peek in its own goroutine): reads the memo; on
//                                    a miss it reads the index and is parked inside the
//                                    AfterByIndex hook, i.e. before it writes the memo
//   finish t                         lookup t is released: writes the memo and returns
//
// The memo read and the index read of one lookup cannot be separated from outside (no hook point
// between them), so they are always adjacent here.  Ops that are not enabled (handle with nothing
// queued, begin of a pending id, finish of an unknown id) are skipped, so every op list is a
// schedule (needed for shrinking); lookups still parked at the end are released in id order.
// A stale answer is NOT a monitor hit in this stream: C13 does not quantify over schedules; the
// stream checks that implementation and model agree on them, stale answers included.

type parked struct {
	ip      string
	release chan struct{}
	done    chan *gostatsd.Instance
}

func coqAnswer(inst *gostatsd.Instance) (string, answer) {
	a := answer{Nil: inst == nil}
	if inst == nil {
		return "None", a
	}
	a.ID = string(inst.ID)
	a.Tags = append([]string{}, inst.Tags...)
	sort.Strings(a.Tags)
	return hlib.Option(hlib.Pair(hlib.Bytes(a.ID), hlib.StrList(a.Tags)), true), a
}

func runAsync(in input) hlib.Case {
	c := hlib.Case{Input: in}
	labRe, annRe := compile(in.LabRe), compile(in.AnnRe)
	labKeys, annKeys := map[string]bool{}, map[string]bool{}
	for i := range in.Ops {
		for _, p := range []*podSpec{in.Ops[i].Pod, in.Ops[i].Old} {
			if p == nil {
				continue
			}
			for _, e := range p.Labels {
				labKeys[e.K] = true
			}
			for _, e := range p.Annots {
				annKeys[e.K] = true
			}
		}
	}
	vp, err := k8s.VerifNewProvider(quiet, annRe, labRe)
	if err != nil {
		fmt.Fprintln(os.Stderr, "VerifNewProvider:", err)
		os.Exit(3)
	}
	indexer := vp.VerifIndexer()
	monitor := func(f string, a ...interface{}) { c.Monitors = append(c.Monitors, fmt.Sprintf(f, a...)) }

	var aevs []string
	var answers []answer
	var queue []func()
	pend := map[int]*parked{}
	mirror := map[string]*podSpec{}
	panics := make(chan string, 8)
	overlap, stale, settledStale, nonNil := false, false, false, 0
	inFlight := func() bool { return len(pend) > 0 }
	wedged := false

	record := func(t int, ip string, via string, inst *gostatsd.Instance, ctor string) {
		coq, a := coqAnswer(inst)
		a.IP, a.Via = ip, via
		answers = append(answers, a)
		aevs = append(aevs, hlib.App(ctor, hlib.N(uint64(t)), coq))
		if inst != nil {
			nonNil++
			held := false
			for _, p := range mirror {
				held = held || (p.serving() && p.IP == ip && p.NS+"/"+p.Name == a.ID)
			}
			stale = stale || !held
			// served from the memo with nothing queued and nothing in flight: no pending step will repair it
			settledStale = settledStale || (!held && via == "hit" && len(queue) == 0 && len(pend) == 0)
		}
	}
	finish := func(i, t int) {
		pl := pend[t]
		close(pl.release)
		select {
		case inst := <-pl.done:
			delete(pend, t)
			record(t, pl.ip, "finish", inst, "AWriteMemo")
		case m := <-panics:
			monitor("op %d: lookup %d panicked after its index read: %s", i, t, m)
			wedged = true
		case <-time.After(10 * time.Second):
			monitor("op %d: lookup %d did not return within 10s of its release", i, t)
			wedged = true
		}
	}

	for i, o := range in.Ops {
		o := o
		if wedged {
			break
		}
		msg := hlib.Recover(func() {
			switch o.Kind {
			case "ix-add", "ix-update":
				obj := o.Pod.object()
				if o.Kind == "ix-add" {
					if err := indexer.Add(obj); err != nil {
						monitor("op %d: indexer.Add: %v", i, err)
					}
					queue = append(queue, func() { vp.VerifOnAdd(obj) })
					aevs = append(aevs, hlib.App("AIndexUpdate", hlib.App("DAdd", coqPod(o.Pod))))
				} else {
					if err := indexer.Update(obj); err != nil {
						monitor("op %d: indexer.Update: %v", i, err)
					}
					old := o.Old.object()
					queue = append(queue, func() { vp.VerifOnUpdate(old, obj) })
					aevs = append(aevs, hlib.App("AIndexUpdate", hlib.App("DUpdate", coqPod(o.Old), coqPod(o.Pod))))
				}
				mirror[o.Pod.key()] = o.Pod
				overlap = overlap || inFlight()
			case "ix-delete":
				var obj interface{} = o.Pod.object()
				if o.Tomb {
					obj = cache.DeletedFinalStateUnknown{Key: o.Pod.key(), Obj: obj}
				}
				if err := indexer.Delete(obj); err != nil {
					monitor("op %d: indexer.Delete: %v", i, err)
				}
				queue = append(queue, func() { vp.VerifOnDelete(obj) })
				aevs = append(aevs, hlib.App("AIndexUpdate", hlib.App("DDelete", coqPod(o.Pod))))
				delete(mirror, o.Pod.key())
				overlap = overlap || inFlight()
			case "handle":
				if len(queue) == 0 {
					return
				}
				h := queue[0]
				queue = queue[1:]
				h()
				aevs = append(aevs, "AHandlerCall")
				overlap = overlap || inFlight()
			case "begin":
				if _, busy := pend[o.T]; busy || o.T < 0 {
					return
				}
				pl := &parked{ip: o.IP, release: make(chan struct{}), done: make(chan *gostatsd.Instance, 1)}
				reached := make(chan struct{})
				vp.AfterByIndex = func() {
					close(reached)
					<-pl.release
				}
				go func() {
					defer func() {
						if r := recover(); r != nil {
							panics <- fmt.Sprint(r)
						}
					}()
					inst, _ := vp.P.Peek(gostatsd.Source(o.IP))
					pl.done <- inst
				}()
				aevs = append(aevs, hlib.App("AReadMemo", hlib.N(uint64(o.T)), hlib.Bytes(o.IP)))
				select {
				case <-reached: // memo miss, index read, parked before the memo write
					vp.AfterByIndex = nil
					pend[o.T] = pl
					aevs = append(aevs, hlib.App("AReadIndex", hlib.N(uint64(o.T))))
				case inst := <-pl.done: // served from the memo
					vp.AfterByIndex = nil
					record(o.T, o.IP, "hit", inst, "AReturnHit")
				case m := <-panics:
					vp.AfterByIndex = nil
					monitor("op %d: lookup %d of %q panicked: %s", i, o.T, o.IP, m)
					wedged = true
				case <-time.After(10 * time.Second):
					monitor("op %d: lookup %d of %q neither returned nor reached the index within 10s", i, o.T, o.IP)
					wedged = true
				}
			case "finish":
				if _, ok := pend[o.T]; ok {
					finish(i, o.T)
				}
			default:
				fmt.Fprintln(os.Stderr, "bad op kind in stream async:", o.Kind)
				os.Exit(2)
			}
		})
		if msg != "" {
			monitor("op %d (%s): panic: %s", i, o.Kind, msg)
			break
		}
	}
	if !wedged {
		ts := make([]int, 0, len(pend))
		for t := range pend {
			ts = append(ts, t)
		}
		sort.Ints(ts)
		for _, t := range ts {
			if !wedged {
				finish(len(in.Ops), t)
			}
		}
	}

	c.Obs = map[string]interface{}{"answers": answers}
	c.Coq = hlib.App("KC", coqTable(labRe, labKeys), coqTable(annRe, annKeys), "[]", hlib.List(aevs))
	shape := "serial"
	if overlap {
		shape = "overlap"
	}
	if stale {
		shape = "stale-transient"
	}
	if settledStale {
		shape = "stale-settled"
	}
	c.Class = "async/" + shape
	c.Nontrivial = overlap && nonNil > 0
	return c
}

// a schedule from a history of stream unique: deliveries are split into their two halves and
// lookups into begin / finish, the second halves are delayed at random
func genAsync(r *hlib.Rand, tier string) input {
	base := genCase(r, "unique", tier)
	in := input{LabRe: base.LabRe, AnnRe: base.AnnRe, Stream: "async"}
	queued, nextT := 0, 0
	var open []int
	handle := func() {
		if queued > 0 {
			in.Ops = append(in.Ops, op{Kind: "handle"})
			queued--
		}
	}
	finishOne := func() {
		if len(open) > 0 {
			k := r.Intn(len(open))
			in.Ops = append(in.Ops, op{Kind: "finish", T: open[k]})
			open = append(open[:k], open[k+1:]...)
		}
	}
	lazy := r.Intn(3) // 0: mostly prompt second halves ... 2: mostly delayed
	for _, o := range base.Ops {
		switch o.Kind {
		case "add", "update", "delete":
			in.Ops = append(in.Ops, op{Kind: "ix-" + o.Kind, Pod: o.Pod, Old: o.Old, Tomb: o.Tomb})
			queued++
			if !r.Chance(lazy, 3) {
				for queued > 0 {
					handle()
				}
			}
		case "drain":
			continue
		default:
			t := nextT
			nextT++
			in.Ops = append(in.Ops, op{Kind: "begin", T: t, IP: o.IP})
			open = append(open, t) // a finish of a lookup that was a hit is skipped by the runner
			if !r.Chance(lazy+1, 4) {
				in.Ops = append(in.Ops, op{Kind: "finish", T: t})
				open = open[:len(open)-1]
			}
		}
		switch r.Intn(6) {
		case 0:
			handle()
		case 1:
			finishOne()
		}
		if len(open) > 3 {
			finishOne()
		}
	}
	for queued > 0 {
		handle()
	}
	for len(open) > 0 {
		finishOne()
	}
	// what every IP answers once everything has settled
	for _, ip := range append(append([]string{}, ipPool...), nodeIP) {
		in.Ops = append(in.Ops, op{Kind: "begin", T: nextT, IP: ip}, op{Kind: "finish", T: nextT})
		nextT++
	}
	return in
}

// ------------------------------------------------------------------------------------------
// generator

var (
	nsPool   = []string{"default", "default", "kube-system", "a", ""}
	namePool = []string{"web-0", "web-1", "db", "job-x", "b", "a/b"}
	ipPool   = []string{"10.0.0.1", "10.0.0.2", "10.0.0.3", "10.0.0.4"}
	nodeIP   = "192.168.0.9"
	phases   = []string{"Running", "Running", "Running", "Pending", "Succeeded", "Failed", "Unknown", ""}
	keyPool  = []string{
		"gostatsd.atlassian.com/tag1", "gostatsd.atlassian.com/tag2", "gostatsd.atlassian.com/", "product.company.com/tag2",
		"app", "application", "label", "team/core", "team/", "solo1", "matchthis", ".x", "ab.x", "xx", "aab", "tag", "b", "",
	}
	valPool = []string{"v1", "v2", "", "a:b", "testApp", "x,y"}
	rePool  = []string{
		`^gostatsd\.atlassian\.com/(?P<tag>.*)$`, // the default: group may match ""
		`^(product\.company\.com/|gostatsd\.atlassian\.com/)(?P<tag>.*)$`,
		`^app`, `^(app|label)`, `(?P<tag>match)`, `match`,
		`^(?P<tag>[a-z]*)\.x$`,            // named group can be empty while the whole match is not
		`^(?:team/(?P<tag>.+)|solo.*)$`,   // named group may not take part
		`x*`,                              // matches, but possibly only the empty text
		`.`,                               // whole match shorter than the key
		`(?P<other>a+)(?P<tag>b*)`,        // other named groups before "tag"
		`(?P<tag>a)|(?P<tag>b)`,           // two groups named tag
		`(?P<tagx>.+)`,                    // a name that only starts with "tag"
		`^(?P<tag>t)?(?P<rest>.*)$`,       // optional tag group
		``,                                // compiled empty regex: matches the empty text everywhere
		`^$`,
	}
)

func genRegex(r *hlib.Rand) *string {
	if r.Chance(1, 5) {
		return nil
	}
	s := hlib.Pick(r, rePool)
	if r.Chance(1, 6) {
		// a random literal alternative built from the key pool, with or without the named group
		k := regexp.QuoteMeta(hlib.Pick(r, keyPool))
		cut := r.Intn(len(k) + 1)
		if r.Bool() {
			s = "^" + k[:cut] + "(?P<tag>.*)$"
		} else {
			s = "^" + k[:cut]
		}
		if _, err := regexp.Compile(s); err != nil { // a cut inside an escape
			s = "^" + k
		}
	}
	return &s
}

func genKVs(r *hlib.Rand) []kv {
	n := r.Intn(4)
	seen := map[string]bool{}
	var out []kv
	for i := 0; i < n; i++ {
		k := hlib.Pick(r, keyPool)
		if seen[k] {
			continue
		}
		seen[k] = true
		out = append(out, kv{k, hlib.Pick(r, valPool)})
	}
	return out
}

func editKVs(r *hlib.Rand, l []kv) []kv {
	out := append([]kv{}, l...)
	switch r.Intn(4) {
	case 0: // new key
		k := hlib.Pick(r, keyPool)
		for _, e := range out {
			if e.K == k {
				return out
			}
		}
		out = append(out, kv{k, hlib.Pick(r, valPool)})
	case 1: // drop a key
		if len(out) > 0 {
			i := r.Intn(len(out))
			out = append(out[:i], out[i+1:]...)
		}
	case 2: // change a value
		if len(out) > 0 {
			out[r.Intn(len(out))].V = hlib.Pick(r, valPool)
		}
	default: // rename a key (changes which keys match)
		if len(out) > 0 {
			k := hlib.Pick(r, keyPool)
			for _, e := range out {
				if e.K == k {
					return out
				}
			}
			out[r.Intn(len(out))].K = k
		}
	}
	return out
}

func genIP(r *hlib.Rand, nIPs int) string {
	switch r.Intn(10) {
	case 0:
		return ""
	case 1:
		return nodeIP
	}
	return ipPool[r.Intn(nIPs)]
}

func freshPod(r *hlib.Rand, ns, name string, nIPs int) *podSpec {
	p := &podSpec{NS: ns, Name: name, IP: genIP(r, nIPs), HostIP: nodeIP, Phase: hlib.Pick(r, phases),
		Labels: genKVs(r), Annots: genKVs(r)}
	if r.Chance(1, 10) {
		p.HostNet = true
	}
	if r.Chance(1, 12) {
		p.HostIP = ""
	}
	if r.Chance(1, 15) {
		p.Deleting = true
	}
	return p
}

// a new version of an existing pod: one or two aspects change
func nextVersion(r *hlib.Rand, old *podSpec, nIPs int) *podSpec {
	p := *old
	for k := r.Range(1, 2); k > 0; k-- {
		switch r.Intn(10) {
		case 0, 1:
			p.Phase = hlib.Pick(r, phases)
		case 2, 3:
			p.IP = genIP(r, nIPs)
		case 4:
			p.HostNet = !p.HostNet
		case 5:
			p.Deleting = !p.Deleting
		case 6, 7:
			p.Labels = editKVs(r, p.Labels)
		case 8:
			p.Annots = editKVs(r, p.Annots)
		default:
			if r.Bool() {
				p.HostIP = nodeIP
			} else {
				p.HostIP = p.IP
			}
		}
	}
	return &p
}

func genCase(r *hlib.Rand, stream, tier string) input {
	in := input{LabRe: genRegex(r), AnnRe: genRegex(r), Stream: stream}
	if in.LabRe == nil && in.AnnRe == nil && r.Chance(3, 4) {
		in.AnnRe = &rePool[0]
	}
	nIPs := r.Range(1, 3)
	type ident struct{ ns, name string }
	var ids []ident
	seen := map[string]bool{}
	for n := r.Range(2, 5); len(ids) < n; {
		id := ident{hlib.Pick(r, nsPool), hlib.Pick(r, namePool)}
		k := (&podSpec{NS: id.ns, Name: id.name}).key()
		if seen[id.ns+"\x00"+id.name] || (seen["k"+k] && !r.Chance(1, 3)) { // key collisions ("a","b") vs ("","a/b") only sometimes
			continue
		}
		seen[id.ns+"\x00"+id.name], seen["k"+k] = true, true
		ids = append(ids, id)
	}
	mirror := map[string]*podSpec{}
	maxOps := 30
	if tier == "thorough" {
		maxOps = 60
	}
	nOps := r.Range(6, maxOps)
	lag := 0          // pushes still to come in the current burst of a lagging consumer
	var burst []string // IPs of the current burst
	lookup := func() {
		ip := genIP(r, nIPs)
		if r.Chance(1, 2) { // prefer IPs some stored pod carries
			var held []string
			for _, p := range mirror {
				if p.IP != "" {
					held = append(held, p.IP)
				}
			}
			sort.Strings(held)
			if len(held) > 0 {
				ip = hlib.Pick(r, held)
			}
		}
		kind := "peek"
		if r.Chance(1, 4) {
			kind = "chan"
		}
		if lag > 0 && !r.Chance(1, 5) {
			// lagging consumer: the IP goes into IpSink, nothing is read from InfoSource yet.  The IPs
			// of one burst: held by distinct pods, unknown, repeated.
			switch r.Intn(6) {
			case 0:
				ip = "10.9.9." + string(rune('0'+r.Intn(3))) // held by nobody
			case 1:
				if len(burst) > 0 {
					ip = hlib.Pick(r, burst) // repeated
				}
			}
			burst = append(burst, ip)
			in.Ops = append(in.Ops, op{Kind: "push", IP: ip})
			lag--
			if lag == 0 {
				n := 0 // all
				if len(burst) > 2 && r.Chance(1, 3) {
					n = r.Range(1, len(burst)-1) // the rest stays unread for a while
				}
				in.Ops = append(in.Ops, op{Kind: "drain", N: n})
				burst = nil
			}
			return
		}
		in.Ops = append(in.Ops, op{Kind: kind, IP: ip})
	}
	// deliver an observed object the way processDeltas does
	observe := func(p *podSpec) {
		if old, ok := mirror[p.key()]; ok {
			in.Ops = append(in.Ops, op{Kind: "update", Old: old, Pod: p})
		} else {
			in.Ops = append(in.Ops, op{Kind: "add", Pod: p})
		}
		mirror[p.key()] = p
	}
	remove := func(p *podSpec) {
		in.Ops = append(in.Ops, op{Kind: "delete", Pod: p, Tomb: r.Chance(1, 4)})
		delete(mirror, p.key())
	}
	// make room for p's IP: the serving pod that holds it goes away in one of the ways pods do
	release := func(p *podSpec) {
		keys := make([]string, 0, len(mirror))
		for k := range mirror {
			keys = append(keys, k)
		}
		sort.Strings(keys)
		for _, k := range keys {
			q := mirror[k]
			if k == p.key() || !q.serving() || q.IP != p.IP {
				continue
			}
			if r.Chance(1, 3) {
				lookup() // memoise the old holder first: this is where staleness would show
			}
			n := *q
			switch r.Intn(5) {
			case 0:
				remove(q)
				continue
			case 1:
				n.Phase = hlib.Pick(r, []string{"Succeeded", "Failed"})
			case 2:
				n.Deleting = true
			case 3:
				n.IP = ""
			default:
				n.HostNet = true
			}
			observe(&n)
		}
	}
	for len(in.Ops) < nOps || lag > 0 {
		if lag == 0 && stream != "shared" && r.Chance(1, 25) {
			lag = r.Range(2, 6) // at least two IPs while answers are unread
		}
		if r.Chance(9, 20) || (lag > 0 && r.Chance(1, 2)) {
			lookup()
			continue
		}
		id := hlib.Pick(r, ids)
		key := (&podSpec{NS: id.ns, Name: id.name}).key()
		cur, stored := mirror[key]
		if stream == "offcontract" && r.Chance(1, 3) {
			// deliveries client-go would not make: wrong old version, add over a stored key,
			// delete of a version that is not the stored one / of a pod that is not stored
			p := freshPod(r, id.ns, id.name, nIPs)
			switch r.Intn(3) {
			case 0:
				in.Ops = append(in.Ops, op{Kind: "add", Pod: p})
				mirror[key] = p
			case 1:
				in.Ops = append(in.Ops, op{Kind: "update", Old: freshPod(r, id.ns, id.name, nIPs), Pod: p})
				mirror[key] = p
			default:
				in.Ops = append(in.Ops, op{Kind: "delete", Pod: p, Tomb: r.Bool()})
				delete(mirror, key)
			}
			continue
		}
		switch {
		case !stored:
			p := freshPod(r, id.ns, id.name, nIPs)
			if stream == "unique" && p.serving() {
				release(p)
			}
			observe(p)
		case r.Chance(1, 5):
			remove(cur)
		case r.Chance(1, 8):
			observe(cur) // resync: the same version again
		default:
			p := nextVersion(r, cur, nIPs)
			p.NS, p.Name = id.ns, id.name // with colliding keys the stored pod may carry the other identity
			if stream == "unique" && p.serving() {
				release(p)
			}
			observe(p)
		}
	}
	// end with a lookup of every IP so that the last events are observed too
	for _, ip := range append(append([]string{}, ipPool[:nIPs]...), nodeIP) {
		in.Ops = append(in.Ops, op{Kind: "peek", IP: ip})
	}
	return in
}

func main() {
	a := hlib.ParseArgs()
	em := hlib.NewEmitter()
	defer em.Close()
	switch a.Mode {
	case "gen":
		r := hlib.NewRand(a.Seed)
		for i := 0; i < a.N; i++ {
			stream := "unique"
			switch i % 10 {
			case 7, 8:
				stream = "shared"
			case 9:
				stream = "offcontract"
			}
			if i%8 == 3 {
				stream = "async"
			}
			if s := a.Extra["stream"]; s != "" {
				stream = s
			}
			if stream == "async" {
				em.Emit(runCase(genAsync(r.Fork(), a.Tier)))
				continue
			}
			em.Emit(runCase(genCase(r.Fork(), stream, a.Tier)))
		}
	case "run":
		for _, raw := range a.Inputs {
			var in input
			if err := json.Unmarshal(raw, &in); err != nil {
				fmt.Fprintln(os.Stderr, "bad input:", err)
				os.Exit(2)
			}
			em.Emit(runCase(in))
		}
	}
}
