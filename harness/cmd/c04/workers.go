// The `workers` stream of C04: the real BackendHandler with 2-8 aggregator workers and the real
// MetricFlusher (flushData through the hook VerifC01FlushData) with every bundled backend attached.
// Every worker flushes its aggregator and builds every backend's payload CONCURRENTLY with the other
// workers, against the single instance of each backend - as in production.  Many new metric names
// are dispatched before every flush.  A data race on backend state is a Go runtime fatal error
// ("concurrent map writes") that no recover() can catch, and a panic on a worker goroutine kills
// the process as well, so the case runs in a CHILD process: the supervisor (the harness itself)
// feeds it one input per line, and turns a dead or silent child into a case with a monitor hit
// whose input is the announced one.  No model term: per aggregator the flush is the one the
// `hist` stream compares.
package main

import (
	"bufio"
	"context"
	"encoding/json"
	"fmt"
	"io"
	"os"
	"os/exec"
	"strings"
	"sync"
	"time"

	"github.com/atlassian/gostatsd"
	"github.com/atlassian/gostatsd/pkg/stats"
	"github.com/atlassian/gostatsd/pkg/statsd"

	"verifharness/hlib"
)

func genWorkers(r *hlib.Rand) input {
	in := genHist(r) // configuration of the aggregators and of every backend
	in.Stream, in.Series, in.Ops, in.FPcts = "workers", nil, nil, nil
	in.Expiry = false
	in.Workers = r.Range(2, 8)
	in.Flushes = r.Range(2, 3)
	in.NewNames = r.Range(40, 160)
	in.Batch = hlib.Pick(r, []int{20, 1000}) // small batches only multiply the HTTP requests (the hist stream has them)
	in.WSeed = r.U64()
	in.Class = fmt.Sprintf("workers/%d", in.Workers)
	return in
}

// ---------------------------------------------------------------------------------------
// child side

func workerChildLoop(x *infra, em *hlib.Emitter) {
	sc := bufio.NewScanner(os.Stdin)
	sc.Buffer(make([]byte, 1<<20), 1<<26)
	for sc.Scan() {
		var in input
		if err := json.Unmarshal(sc.Bytes(), &in); err != nil {
			fmt.Fprintln(os.Stderr, "workerchild: bad input:", err)
			os.Exit(2)
		}
		announce(in)
		em.Emit(runWorkers(x, in))
		em.Close() // flush: the supervisor waits for this line
	}
}

func runWorkers(x *infra, in input) hlib.Case {
	c := hlib.Case{Input: in, Class: in.Class, Nontrivial: true}
	if in.Workers < 1 || in.Workers > 64 || in.Flushes < 1 || in.Flushes > 20 || in.NewNames < 1 || in.NewNames > 20000 || in.Batch < 1 {
		c.Class, c.Nontrivial = "degenerate", false
		return c
	}
	bs, err := x.build(in)
	if err != nil {
		fatal(err)
	}
	defer bs.cancel()
	pcts := make([]float64, len(in.Pcts))
	for i, p := range in.Pcts {
		pcts[i] = float64(p)
	}
	af := statsd.AggregatorFactoryFunc(func() statsd.Aggregator {
		return statsd.NewMetricAggregator(pcts, 0, 0, 0, 0, maskOf(in.Mask), in.Limit)
	})
	bh := statsd.NewBackendHandler(bs.backends, 4, in.Workers, 64, af)
	go bh.Run(bs.ctx)
	flusher := statsd.NewMetricFlusher(time.Second, 0, false, bh, bs.backends)
	statser := stats.NewNullStatser()
	r := hlib.NewRand(in.WSeed)
	now := gostatsd.Nanotime(time.Now().UnixNano())
	dispatched := 0
	for f := 0; f < in.Flushes; f++ {
		mm := gostatsd.NewMetricMap(false)
		for k := 0; k < in.NewNames; k++ {
			name := fmt.Sprintf("svc %d/f%d.new-%d %s", r.Intn(7), f, k, hlib.Pick(r, []string{"lat ency", "req/s", "x", "a.b_c", "été"}))
			var tags gostatsd.Tags
			nt := r.Intn(3)
			if r.Chance(1, 20) {
				nt = hlib.Pick(r, []int{9, 10, 11, 15})
			}
			for j := nt; j > 0; j-- {
				tags = append(tags, hlib.Pick(r, plainTags))
			}
			mk := func(t gostatsd.MetricType, v float64, sv string) *gostatsd.Metric {
				return &gostatsd.Metric{Name: name, Type: t, Value: v, StringValue: sv, Rate: 1, Tags: append(gostatsd.Tags{}, tags...), Timestamp: now}
			}
			switch r.Intn(6) {
			case 0:
				mm.Receive(mk(gostatsd.COUNTER, float64(r.Intn(9)), ""))
			case 1:
				mm.Receive(mk(gostatsd.GAUGE, r.Float(), ""))
			case 2:
				mm.Receive(mk(gostatsd.SET, 0, "m"))
			default:
				if r.Chance(1, 4) {
					tags = append(tags, genHistTag(r))
				}
				for j := r.Range(1, 5); j > 0; j-- {
					mm.Receive(mk(gostatsd.TIMER, float64(r.Intn(100)), ""))
				}
			}
		}
		bh.DispatchMetricMap(bs.ctx, mm)
		dispatched++
		for t0 := time.Now(); bh.VerifC01Queued() > 0 && time.Since(t0) < 5*time.Second; {
			time.Sleep(200 * time.Microsecond)
		}
		done := make(chan string, 1)
		go func() { done <- hlib.Recover(func() { flusher.VerifC01FlushData(bs.ctx, time.Second, statser) }) }()
		select {
		case msg := <-done:
			if msg != "" {
				c.Monitors = append(c.Monitors, fmt.Sprintf("flush %d: flushData panicked: %s", f, msg))
				return c
			}
		case <-time.After(90 * time.Second):
			c.Monitors = append(c.Monitors, fmt.Sprintf("flush %d: flushData did not return within 90s", f))
			return c
		}
	}
	// one more flush with nothing new: every persisted series is reported idle by every worker
	if msg := hlib.Recover(func() { flusher.VerifC01FlushData(bs.ctx, time.Second, statser) }); msg != "" {
		c.Monitors = append(c.Monitors, "idle flush: flushData panicked: "+msg)
	}
	c.Obs = map[string]interface{}{"flushes": in.Flushes + 1, "maps_dispatched": dispatched, "workers": in.Workers}
	return c
}

// ---------------------------------------------------------------------------------------
// supervisor side

type tailBuffer struct {
	mu sync.Mutex
	b  []byte
}

func (t *tailBuffer) Write(p []byte) (int, error) {
	t.mu.Lock()
	t.b = append(t.b, p...)
	if len(t.b) > 1<<17 {
		t.b = t.b[len(t.b)-1<<16:]
	}
	t.mu.Unlock()
	return len(p), nil
}
func (t *tailBuffer) String() string { t.mu.Lock(); defer t.mu.Unlock(); return string(t.b) }

type workerProc struct {
	cmd    *exec.Cmd
	stdin  io.WriteCloser
	lines  chan string
	stderr *tailBuffer
}

var child *workerProc

func startWorkerChild() (*workerProc, error) {
	w := &workerProc{stderr: &tailBuffer{}}
	w.cmd = exec.Command(os.Args[0], "run", "-inputs", os.DevNull, "-stream", "workerchild")
	w.cmd.Stderr = w.stderr
	in, err := w.cmd.StdinPipe()
	if err != nil {
		return nil, err
	}
	out, err := w.cmd.StdoutPipe()
	if err != nil {
		return nil, err
	}
	if err := w.cmd.Start(); err != nil {
		return nil, err
	}
	w.stdin = in
	w.lines = make(chan string, 1)
	go func() {
		sc := bufio.NewScanner(out)
		sc.Buffer(make([]byte, 1<<20), 1<<28)
		for sc.Scan() {
			w.lines <- sc.Text()
		}
		close(w.lines)
	}()
	return w, nil
}

func stopWorkerChild() {
	if child != nil {
		child.stdin.Close()
		child.cmd.Process.Kill()
		child.cmd.Wait()
		child = nil
	}
}

// crashLines extracts the panic / fatal error message and the first frames of the implementation.
func crashLines(stderr string) string {
	i := strings.Index(stderr, "fatal error:")
	if j := strings.Index(stderr, "panic:"); i < 0 || (j >= 0 && j < i) {
		i = j
	}
	if i < 0 {
		if len(stderr) > 400 {
			return stderr[len(stderr)-400:]
		}
		return stderr
	}
	var keep []string
	for _, l := range strings.Split(stderr[i:], "\n") {
		if strings.HasPrefix(l, "panic:") || strings.HasPrefix(l, "fatal error:") || strings.HasPrefix(l, "[signal") ||
			(strings.Contains(l, "gostatsd/") && !strings.Contains(l, "verifharness")) {
			keep = append(keep, strings.TrimSpace(l))
		}
		if len(keep) >= 8 {
			break
		}
	}
	return strings.Join(keep, " | ")
}

func workersViaChild(in input) hlib.Case {
	dead := func(what string) hlib.Case {
		msg := crashLines(child.stderr.String())
		stopWorkerChild()
		return hlib.Case{Input: in, Class: in.Class + "/crash", Nontrivial: true,
			Obs:      map[string]interface{}{"failure": what, "stderr": msg},
			Monitors: []string{"flush with " + fmt.Sprint(in.Workers) + " aggregator workers " + what + ": " + msg}}
	}
	if child == nil {
		w, err := startWorkerChild()
		if err != nil {
			fatal(err)
		}
		child = w
	}
	b, _ := json.Marshal(in)
	if _, err := child.stdin.Write(append(b, '\n')); err != nil {
		return dead("killed the process")
	}
	select {
	case line, ok := <-child.lines:
		if !ok {
			child.cmd.Wait()
			return dead("killed the process")
		}
		var c hlib.Case
		if err := json.Unmarshal([]byte(line), &c); err != nil {
			return dead("produced an unreadable result")
		}
		c.Input, c.Key = in, ""
		return c
	case <-time.After(240 * time.Second):
		return dead("wedged the process (no result within 240s)")
	}
}

var _ = context.Background

// ---------------------------------------------------------------------------------------
// The `stall` stream: a statsdaemon backend whose sender does not drain (an endpoint that is not
// connected yet / stalled), a flush large enough to fill the 1000-slot datagram channel exactly, so
// that processMetrics blocks in its FINAL hand-over, and the flush context ends while it is blocked.
// Lines are "t:1.000000|ms\n" (14 bytes), 105 per 1472-byte datagram: 105*1000 < n <= 105*1001
// values give 1000 hand-overs inside the loop and one at the end.  Monitor: recover().

func genStall(r *hlib.Rand) input {
	return input{Stream: "stall", Class: "stall", N: 105*1000 + r.Range(1, 105), Batch: 1}
}

func runStall(x *infra) func(in input) hlib.Case {
	return func(in input) hlib.Case {
		c := hlib.Case{Input: in, Class: in.Class, Nontrivial: true}
		if in.N < 1 || in.N > 400000 {
			c.Class, c.Nontrivial = "degenerate", false
			return c
		}
		b, err := newStatsdaemon(x, false)
		if err != nil {
			fatal(err)
		}
		vs := make([]float64, in.N)
		for i := range vs {
			vs[i] = 1
		}
		mm := gostatsd.NewMetricMap(false)
		mm.Timers["t"] = map[string]gostatsd.Timer{"": gostatsd.NewTimerValues(vs)}
		ctx, cancel := context.WithCancel(context.Background())
		go func() { time.Sleep(150 * time.Millisecond); cancel() }()
		done := make(chan string, 1)
		go func() { done <- hlib.Recover(func() { b.SendMetricsAsync(ctx, mm, func([]error) {}) }) }()
		select {
		case msg := <-done:
			if msg != "" {
				c.Monitors = append(c.Monitors, "statsdaemon SendMetricsAsync panicked when the flush context ended during the final hand-over: "+msg)
			}
		case <-time.After(60 * time.Second):
			c.Monitors = append(c.Monitors, "statsdaemon SendMetricsAsync did not return within 60s of the cancellation")
		}
		cancel()
		c.Obs = map[string]interface{}{"values": in.N}
		return c
	}
}
