// C04: flushing never crashes for any reachable aggregate, configuration or backend.
//
// Drives the real statsd.MetricAggregator through random histories of ReceiveMap / Flush / Reset
// (with idle flushes, so that persisted empty series are reported) under random configurations,
// and after every Flush hands the aggregator's own map to every bundled backend (graphite,
// datadog, influxdb v1/v2, newrelic x3 flush types, otlp x2 conversions, statsdaemon, stdout,
// cloudwatch with a fake API), exactly as MetricFlusher.flushData does.  Monitors: recover()
// around Flush, Reset and every SendMetricsAsync.  A panic in a goroutine of a backend kills the
// process: the input of every case is announced on stderr BEFORE it runs, so the driver's crash
// replay names it.  Emitted for the model: the shape of every reported timer per flush, the
// PutMetricData request sizes, the number of OTLP requests; and, in a second stream, the real
// code's percentile rank (the count_<p> sub-metric) for random (p, n).
package main

import (
	"context"
	"encoding/json"
	"fmt"
	"io"
	"math"
	"net"
	"net/http"
	"net/http/httptest"
	"os"
	"sort"
	"strconv"
	"strings"
	"sync"
	"sync/atomic"
	"time"

	"github.com/sirupsen/logrus"
	"github.com/spf13/viper"

	"github.com/atlassian/gostatsd"
	"github.com/atlassian/gostatsd/pkg/backends/cloudwatch"
	"github.com/atlassian/gostatsd/pkg/backends/datadog"
	"github.com/atlassian/gostatsd/pkg/backends/graphite"
	"github.com/atlassian/gostatsd/pkg/backends/influxdb"
	"github.com/atlassian/gostatsd/pkg/backends/newrelic"
	"github.com/atlassian/gostatsd/pkg/backends/otlp"
	"github.com/atlassian/gostatsd/pkg/backends/statsdaemon"
	"github.com/atlassian/gostatsd/pkg/backends/stdout"
	"github.com/atlassian/gostatsd/pkg/statsd"
	"github.com/atlassian/gostatsd/pkg/transport"

	"verifharness/hlib"
)

// ---------------------------------------------------------------------------------------
// input

type series struct {
	Name   string   `json:"name"`
	Tags   []string `json:"tags"` // sorted (MetricMap.Receive sorts them in place anyway)
	Source string   `json:"src"`
	Kind   int      `json:"kind"` // 0 timer 1 counter 2 gauge 3 set
}

type point struct {
	S    int    `json:"s"`    // series index
	N    int    `json:"n"`    // number of values (timers), else 1 datapoint
	Seed uint64 `json:"seed"` // values are derived from it
	Old  bool   `json:"old"`  // timestamp in 1970 (expires at the next Reset when expiry is on)
}

type op struct {
	Kind   string  `json:"kind"` // merge | flush | reset
	Points []point `json:"points,omitempty"`
}

type input struct {
	Stream string `json:"stream"` // hist | rank
	// rank stream
	P  int     `json:"p,omitempty"`
	PF float64 `json:"pf,omitempty"` // non-integer threshold (used instead of P when not 0)
	N  int     `json:"n,omitempty"`
	// hist stream
	Pcts      []int     `json:"pcts,omitempty"`
	FPcts     []float64 `json:"fpcts,omitempty"` // non-integer thresholds: monitors only, no model term
	Mask      []bool    `json:"mask,omitempty"`  // 15 TimerSubtypes bits in declaration order
	Limit     uint32    `json:"limit,omitempty"`
	Expiry    bool      `json:"expiry,omitempty"` // timers expire after 1h (old datapoints), else never
	Batch     int       `json:"batch,omitempty"`
	InfluxV   int       `json:"influx_v,omitempty"`
	NRType    string    `json:"nr_type,omitempty"`
	OTLPHist  bool      `json:"otlp_hist,omitempty"`
	OTLPKeys  []string  `json:"otlp_keys,omitempty"`
	Graphite  string    `json:"graphite,omitempty"`
	GPrefix   []string  `json:"graphite_prefix,omitempty"` // global_prefix, prefix_counter, prefix_timer, prefix_gauge, prefix_set, global_suffix
	StatsdTCP bool      `json:"statsd_tcp,omitempty"`
	Special   int       `json:"special,omitempty"` // 0 finite values, 1 with +-Inf, 2 with NaN
	// workers stream: the real BackendHandler + MetricFlusher with several aggregator workers
	Workers  int      `json:"workers,omitempty"`
	Flushes  int      `json:"flushes,omitempty"`
	NewNames int      `json:"new_names,omitempty"` // new metric names dispatched before every flush
	WSeed    uint64   `json:"wseed,omitempty"`
	Series   []series `json:"series,omitempty"`
	Ops      []op     `json:"ops,omitempty"`
	Class    string   `json:"class,omitempty"`
}

func maskOf(b []bool) gostatsd.TimerSubtypes {
	g := func(i int) bool { return i < len(b) && b[i] }
	return gostatsd.TimerSubtypes{
		Lower: g(0), LowerPct: g(1), Upper: g(2), UpperPct: g(3), Count: g(4), CountPct: g(5),
		CountPerSecond: g(6), Mean: g(7), MeanPct: g(8), Median: g(9), StdDev: g(10), Sum: g(11),
		SumPct: g(12), SumSquares: g(13), SumSquaresPct: g(14),
	}
}

var maskKeys = []string{"lower", "lower-pct", "upper", "upper-pct", "count", "count-pct", "count-per-second", "mean",
	"mean-pct", "median", "stddev", "sum", "sum-pct", "sum-squares", "sum-squares-pct"}

// ---------------------------------------------------------------------------------------
// generators

var pctPool = []int{0, 1, -1, 50, -50, 90, -90, 99, -99, 100, -100, 95, 75, 25, 10, -10, -100, -90}
var fpctPool = []float64{99.9, 99.99, 0.1, 50.5, -99.5, 33.333, -0.5, 1e-9, 99.99999999999999, -100, 100, 12.5, -66.6, 0.999}
var limits = []uint32{0, 1, 2, 5, math.MaxUint32}
var batches = []int{1, 2, 3, 20, 1000}
var goodItems = []string{"0.5", "10", "-3", "1e2", "inf", "-inf", "nan", "+Inf", "0", "-0", "20", "2.5", "100", "1", "5", "NaN", "1_0"}
var badItems = []string{"abc", "", "1.2.3", "--1", "1e", " 1", "1e999"}
var plainTags = []string{"env:prod", "a:b", "host:h1", "novalue", "k:v:w", ":", "x:", ":y", "region:us", "a:c", "gsd_histogra:1_2", "statsdSource:z", "le:1"}

func genHistTag(r *hlib.Rand) string {
	n := r.Intn(6)
	items := make([]string, 0, n)
	for i := 0; i < n; i++ {
		switch x := r.Intn(10); {
		case x < 5:
			items = append(items, hlib.Pick(r, goodItems))
		case x < 8:
			items = append(items, strconv.Itoa(r.Range(-20, 120)))
		case x < 9:
			items = append(items, hlib.Pick(r, badItems))
		default:
			items = append(items, "")
		}
	}
	if n > 1 && r.Chance(1, 4) {
		items[r.Intn(n)] = items[r.Intn(n)]
	}
	return "gsd_histogram:" + strings.Join(items, "_")
}

func genPcts(r *hlib.Rand) []int {
	n := r.Intn(5)
	out := make([]int, 0, n)
	for i := 0; i < n; i++ {
		if r.Chance(2, 3) {
			out = append(out, hlib.Pick(r, pctPool))
		} else {
			out = append(out, r.Range(-100, 100))
		}
	}
	return out
}

func genCount(r *hlib.Rand) int {
	switch x := r.Intn(20); {
	case x < 4:
		return 1
	case x < 13:
		return r.Range(2, 6)
	case x < 19:
		return r.Range(7, 40)
	default:
		return r.Range(41, 300)
	}
}

func genHist(r *hlib.Rand) input {
	in := input{Stream: "hist"}
	in.Pcts = genPcts(r)
	in.Mask = make([]bool, 15)
	switch r.Intn(4) {
	case 0:
		for k := range in.Mask {
			in.Mask[k] = r.Chance(1, 3)
		}
	case 1: // everything disabled: InfluxDB's empty field list
		for k := range in.Mask {
			in.Mask[k] = true
		}
		if r.Bool() {
			in.Pcts = nil
		}
	}
	if r.Chance(1, 8) { // thresholds that are not integers: the aggregator model has integer thresholds, so monitors only
		for k := r.Range(1, 4); k > 0; k-- {
			in.FPcts = append(in.FPcts, hlib.Pick(r, fpctPool))
		}
	}
	in.Limit = hlib.Pick(r, limits)
	in.Expiry = r.Chance(1, 3)
	in.Batch = hlib.Pick(r, batches)
	if r.Chance(1, 3) {
		in.Batch = r.Range(1, 40) // around the number of metrics of a flush: batches that are exactly full
	}
	if r.Chance(1, 3) {
		pool := []string{"", "stats", "a.b", ".x.", "p q", "stats.timers"}
		in.GPrefix = []string{hlib.Pick(r, pool), hlib.Pick(r, pool), hlib.Pick(r, pool), hlib.Pick(r, pool), hlib.Pick(r, pool), hlib.Pick(r, pool)}
	}
	in.InfluxV = r.Range(1, 2)
	in.NRType = hlib.Pick(r, []string{"infra", "insights", "metrics", "metrics"})
	in.OTLPHist = r.Bool()
	if r.Chance(1, 2) {
		in.OTLPKeys = [][]string{{"host"}, {"env", "a"}, {"a", "k", "missing"}, {""}}[r.Intn(4)]
		if r.Chance(2, 3) {
			// as an operator can write them: 0..3 keys, keys that match no tag, keys matching several
			// tags of one metric (a:b, a:c, k:v:w, x:, le:1), and a key listed twice
			in.OTLPKeys = nil
			for k := r.Intn(4); k > 0; k-- {
				in.OTLPKeys = append(in.OTLPKeys, hlib.Pick(r, []string{"host", "env", "a", "a", "k", "x", "region", "missing", "le", "statsdSource", ""}))
			}
			if n := len(in.OTLPKeys); n > 0 && n < 3 && r.Chance(1, 2) {
				in.OTLPKeys = append(in.OTLPKeys, in.OTLPKeys[r.Intn(n)])
			}
		}
	}
	in.Graphite = hlib.Pick(r, []string{"legacy", "basic", "tags"})
	in.StatsdTCP = r.Bool()
	if r.Chance(1, 5) {
		in.Special = r.Range(1, 2)
	}
	ns := r.Range(1, 6)
	for i := 0; i < ns; i++ {
		s := series{Name: hlib.Pick(r, []string{"t", "t", "req.time", "statsd.x", "a b/c"}), Kind: 0}
		if r.Chance(1, 3) {
			s.Kind = r.Range(1, 3)
		}
		if r.Chance(1, 3) {
			s.Source = hlib.Pick(r, []string{"10.0.0.1", "h"})
		}
		nt := r.Intn(4)
		if r.Chance(1, 6) {
			nt = hlib.Pick(r, []int{9, 10, 11, 15, 9, 10, 11}) // around and above CloudWatch's 10 dimensions (a histogram timer adds `le`)
		}
		for j := 0; j < nt; j++ {
			s.Tags = append(s.Tags, hlib.Pick(r, plainTags))
		}
		if s.Kind == 0 && r.Chance(1, 2) {
			s.Tags = append(s.Tags, genHistTag(r))
			if r.Chance(1, 6) && len(in.OTLPKeys) == 0 {
				// a second histogram tag: findTag takes the first in the stored order.  Not combined
				// with OTLP resource keys, whose in-place partition of the stored tag slice can
				// change which one is first (outside C04; noted in notes/C04.md).
				s.Tags = append(s.Tags, genHistTag(r))
			}
		}
		sort.Strings(s.Tags)
		// distinct series only
		dup := false
		for _, o := range in.Series {
			if o.Name == s.Name && o.Kind == s.Kind && o.Source == s.Source && strings.Join(o.Tags, ",") == strings.Join(s.Tags, ",") {
				dup = true
			}
		}
		if !dup {
			in.Series = append(in.Series, s)
		}
	}
	nops := r.Range(2, 9)
	for i := 0; i < nops; i++ {
		switch x := r.Intn(10); {
		case x < 4:
			o := op{Kind: "merge"}
			np := r.Range(1, 4)
			for j := 0; j < np; j++ {
				o.Points = append(o.Points, point{S: r.Intn(len(in.Series)), N: genCount(r), Seed: r.U64(), Old: in.Expiry && r.Chance(1, 2)})
			}
			in.Ops = append(in.Ops, o)
		case x < 8: // the production sequence: Flush, send, Reset
			in.Ops = append(in.Ops, op{Kind: "flush"}, op{Kind: "reset"})
		case x < 9:
			in.Ops = append(in.Ops, op{Kind: "flush"})
		default:
			in.Ops = append(in.Ops, op{Kind: "reset"})
		}
	}
	in.Ops = append(in.Ops, op{Kind: "flush"}, op{Kind: "reset"}, op{Kind: "flush"}) // an idle flush at the end
	in.Class = "hist"
	if len(in.FPcts) > 0 {
		in.Class = "hist-fpct"
	}
	if in.Limit == 0 {
		in.Class += "/limit0"
	}
	if in.Expiry {
		in.Class += "/expiry"
	}
	return in
}

func genRank(r *hlib.Rand) input {
	in := input{Stream: "rank", Class: "rank"}
	if r.Chance(1, 2) {
		in.P = hlib.Pick(r, pctPool)
	} else {
		in.P = r.Range(-100, 100)
	}
	switch x := r.Intn(20); {
	case x < 8:
		in.N = r.Range(2, 50)
	case x < 16:
		in.N = r.Range(51, 3000)
	case x < 19:
		in.N = r.Range(3001, 40000)
	default:
		in.N = r.Range(40001, 400000)
	}
	if r.Chance(1, 4) {
		in.P, in.PF, in.Class = 0, hlib.Pick(r, fpctPool), "rank/float"
		if r.Bool() {
			in.PF = math.Round((r.Float()*200-100)*1000) / 1000
		}
		return in
	}
	if r.Chance(1, 3) && in.P != 0 {
		// a rounding boundary: |p| * n = 50 (mod 100), i.e. |p|/100*n = k + 1/2 in the reals
		a := in.P
		if a < 0 {
			a = -a
		}
		for d := 0; d < 200; d++ {
			if (a*(in.N+d))%100 == 50 {
				in.N += d
				in.Class = "rank/half"
				break
			}
		}
	}
	return in
}

// ---------------------------------------------------------------------------------------
// infrastructure shared by all cases of a process

type infra struct {
	srv      *httptest.Server
	otlpReqs int64
	udpAddr  string
	tcpAddr  string
	pool     *transport.TransportPool
	logger   *logrus.Logger
}

func newInfra() *infra {
	x := &infra{}
	// cloudwatch.NewClient loads the default AWS configuration: no custom CA bundle, no metadata
	// service, a region and static dummy credentials (nothing is ever sent: the API is a fake)
	os.Setenv("AWS_CA_BUNDLE", "")
	os.Setenv("AWS_EC2_METADATA_DISABLED", "true")
	os.Setenv("AWS_REGION", "us-east-1")
	os.Setenv("AWS_ACCESS_KEY_ID", "verif")
	os.Setenv("AWS_SECRET_ACCESS_KEY", "verif")
	x.logger = logrus.New()
	x.logger.SetOutput(io.Discard)
	logrus.SetOutput(io.Discard) // the stdout backend writes through the standard logger
	x.srv = httptest.NewServer(http.HandlerFunc(func(w http.ResponseWriter, req *http.Request) {
		_, _ = io.Copy(io.Discard, req.Body)
		if strings.HasPrefix(req.URL.Path, "/otlp/metrics") {
			atomic.AddInt64(&x.otlpReqs, 1)
		}
		w.WriteHeader(http.StatusOK)
	}))
	pc, err := net.ListenPacket("udp", "127.0.0.1:0")
	if err != nil {
		fatal(err)
	}
	x.udpAddr = pc.LocalAddr().String()
	go func() {
		buf := make([]byte, 65536)
		for {
			if _, _, err := pc.ReadFrom(buf); err != nil {
				return
			}
		}
	}()
	ln, err := net.Listen("tcp", "127.0.0.1:0")
	if err != nil {
		fatal(err)
	}
	x.tcpAddr = ln.Addr().String()
	go func() {
		for {
			c, err := ln.Accept()
			if err != nil {
				return
			}
			go func() { _, _ = io.Copy(io.Discard, c); c.Close() }()
		}
	}()
	x.pool = transport.NewTransportPool(x.logger, viper.New())
	return x
}

// newStatsdaemon builds a statsdaemon backend on the shared sinks WITHOUT starting its sender.
func newStatsdaemon(x *infra, tcp bool) (gostatsd.Backend, error) {
	v := viper.New()
	v.Set("statsdaemon", map[string]interface{}{"address": map[bool]string{true: x.tcpAddr, false: x.udpAddr}[tcp], "tcp_transport": tcp})
	return statsdaemon.NewClientFromViper(v, x.logger, x.pool)
}

func fatal(err error) {
	fmt.Fprintln(os.Stderr, "c04 harness:", err)
	os.Exit(2)
}

type backendSet struct {
	names    []string
	backends []gostatsd.Backend
	cwMu     sync.Mutex
	cwSizes  []int
	broken   []bool
	cancel   context.CancelFunc
	ctx      context.Context
}

func (x *infra) build(in input) (*backendSet, error) {
	bs := &backendSet{}
	v := viper.New()
	v.Set("flush-interval", "1s")
	dis := map[string]interface{}{}
	otlpDis := map[string]interface{}{}
	for i, k := range maskKeys {
		on := i < len(in.Mask) && in.Mask[i]
		dis[k] = on
	}
	mk := maskOf(in.Mask)
	otlpDis = map[string]interface{}{"Lower": mk.Lower, "LowerPct": mk.LowerPct, "Upper": mk.Upper, "UpperPct": mk.UpperPct,
		"Count": mk.Count, "CountPct": mk.CountPct, "CountPerSecond": mk.CountPerSecond, "Mean": mk.Mean, "MeanPct": mk.MeanPct,
		"Median": mk.Median, "StdDev": mk.StdDev, "Sum": mk.Sum, "SumPct": mk.SumPct, "SumSquares": mk.SumSquares, "SumSquaresPct": mk.SumSquaresPct}
	v.Set("disabled-sub-metrics", dis)
	url := x.srv.URL
	v.Set("datadog", map[string]interface{}{"api_endpoint": url + "/dd", "api_key": "k", "metrics_per_batch": in.Batch, "max_requests": 4, "compress_payload": in.Batch%2 == 0})
	inf := map[string]interface{}{"api-endpoint": url + "/influx", "metrics-per-batch": in.Batch, "max-requests": 4, "compress-payload": in.Batch%2 == 1, "api-version": in.InfluxV}
	if in.InfluxV == 1 {
		inf["database"] = "db"
	} else {
		inf["bucket"] = "b"
		inf["org"] = "o"
	}
	v.Set("influxdb", inf)
	nr := map[string]interface{}{"address": url + "/nr", "address-metrics": url + "/nrm", "flush-type": in.NRType, "metrics-per-batch": in.Batch, "max-requests": 4}
	if in.NRType != "infra" {
		nr["api-key"] = "k"
	}
	v.Set("newrelic", nr)
	conv := "AsGauge"
	if in.OTLPHist {
		conv = "AsHistogram"
	}
	ot := map[string]interface{}{"metrics_endpoint": url + "/otlp/metrics", "logs_endpoint": url + "/otlp/logs", "metrics_per_batch": in.Batch,
		"conversion": conv, "max_requests": 4, "max_retries": 0, "compress_payload": in.Batch%2 == 0, "disabled_timer_aggregations": otlpDis}
	if len(in.OTLPKeys) > 0 {
		ot["resource_keys"] = in.OTLPKeys
	}
	v.Set("otlp", ot)
	gr := map[string]interface{}{"address": x.tcpAddr, "mode": in.Graphite}
	for i, k := range []string{"global_prefix", "prefix_counter", "prefix_timer", "prefix_gauge", "prefix_set", "global_suffix"} {
		if i < len(in.GPrefix) {
			gr[k] = in.GPrefix[i]
		}
	}
	v.Set("graphite", gr)
	v.Set("statsdaemon", map[string]interface{}{"address": map[bool]string{true: x.tcpAddr, false: x.udpAddr}[in.StatsdTCP], "tcp_transport": in.StatsdTCP})
	type ctor struct {
		name string
		f    func(*viper.Viper, logrus.FieldLogger, *transport.TransportPool) (gostatsd.Backend, error)
	}
	for _, c := range []ctor{{"graphite", graphite.NewClientFromViper}, {"datadog", datadog.NewClientFromViper}, {"influxdb", influxdb.NewClientFromViper},
		{"newrelic", newrelic.NewClientFromViper}, {"otlp", otlp.NewClientFromViper}, {"statsdaemon", statsdaemon.NewClientFromViper},
		{"stdout", stdout.NewClientFromViper}} {
		b, err := c.f(v, x.logger, x.pool)
		if err != nil {
			return nil, fmt.Errorf("%s: %v", c.name, err)
		}
		bs.names = append(bs.names, c.name)
		bs.backends = append(bs.backends, b)
	}
	// the REAL constructor (NewClientFromViper -> NewClient builds an AWS configuration: possible in a
	// sandbox with AWS_CA_BUNDLE="" and dummy region / credentials, see newInfra); only the API client
	// is then replaced by a fake through the hook VerifSetAPIC04
	cwb, err := cloudwatch.NewClientFromViper(v, x.logger, x.pool)
	if err != nil {
		return nil, fmt.Errorf("cloudwatch: %v", err)
	}
	cw, ok := cwb.(*cloudwatch.Client)
	if !ok {
		return nil, fmt.Errorf("cloudwatch: NewClientFromViper returned %T", cwb)
	}
	cloudwatch.VerifSetAPIC04(cw, func(n int) error {
		bs.cwMu.Lock()
		bs.cwSizes = append(bs.cwSizes, n)
		bs.cwMu.Unlock()
		return nil
	})
	bs.names = append(bs.names, "cloudwatch")
	bs.backends = append(bs.backends, cw)
	bs.broken = make([]bool, len(bs.backends))
	bs.ctx, bs.cancel = context.WithCancel(context.Background())
	for _, b := range bs.backends {
		if rn, ok := b.(gostatsd.Runner); ok {
			go rn.Run(bs.ctx)
		}
	}
	return bs, nil
}

// ---------------------------------------------------------------------------------------
// running the implementation

func valuesOf(p point, special int) []float64 {
	r := hlib.NewRand(p.Seed)
	vs := make([]float64, p.N)
	for i := range vs {
		switch r.Intn(4) {
		case 0:
			vs[i] = float64(r.Range(-5, 120))
		case 1:
			vs[i] = r.Float() * 100
		case 2:
			vs[i] = math.Ldexp(r.Float()*2-1, r.Range(-20, 30))
		default:
			vs[i] = float64(r.Range(0, 3))
		}
		if special == 1 && r.Chance(1, 6) {
			vs[i] = math.Inf(1 - 2*r.Intn(2))
		}
		if special == 2 && r.Chance(1, 6) {
			vs[i] = math.NaN()
		}
	}
	return vs
}

func boundTerm(f float64) string {
	switch {
	case math.IsNaN(f):
		return "BNaN"
	case math.IsInf(f, 1):
		return "BPInf"
	case math.IsInf(f, -1):
		return "BNInf"
	}
	return hlib.App("BFin", hlib.F64(f))
}

type shape struct {
	Series  int      `json:"series"`
	NValues int      `json:"nvalues"`
	Pcts    []string `json:"pcts"`
	HistNil bool     `json:"hist_nil"`
	Hist    []string `json:"hist"`
	hist    []float64
}

func runHist(x *infra, em *hlib.Emitter, in input) {
	c := hlib.Case{Input: in, Class: in.Class}
	if len(in.Series) == 0 || in.Batch < 1 {
		c.Class = "degenerate"
		em.Emit(c)
		return
	}
	pcts := make([]float64, len(in.Pcts))
	for i, p := range in.Pcts {
		pcts[i] = float64(p)
	}
	if len(in.FPcts) > 0 {
		pcts = nil
		for _, p := range in.FPcts {
			if p >= -100 && p <= 100 {
				pcts = append(pcts, p)
			}
		}
	}
	var expT time.Duration
	if in.Expiry {
		expT = time.Hour
	}
	agg := statsd.NewMetricAggregator(pcts, 0, 0, 0, expT, maskOf(in.Mask), in.Limit)
	bs, err := x.build(in)
	if err != nil {
		fatal(err)
	}
	defer bs.cancel()
	keyOf := func(s series) string {
		return s.Name + "\x00" + gostatsd.FormatTagsKey(gostatsd.Source(s.Source), append(gostatsd.Tags{}, s.Tags...))
	}
	index := map[string]int{}
	for i, s := range in.Series {
		if s.Kind == 0 {
			index[keyOf(s)] = i
		}
	}
	future := gostatsd.Nanotime(time.Now().Add(24 * time.Hour).UnixNano())
	var opTerms []string
	var obsLog []interface{}
	flushes, idle, maxN := 0, 0, 0
	for oi, o := range in.Ops {
		switch o.Kind {
		case "merge":
			mm := gostatsd.NewMetricMap(false)
			var pts []string
			for _, p := range o.Points {
				if p.S < 0 || p.S >= len(in.Series) || p.N < 0 || p.N > 100000 {
					continue
				}
				s := in.Series[p.S]
				ts := future
				if p.Old {
					ts = 1
				}
				mk := func(t gostatsd.MetricType, v float64, sv string) *gostatsd.Metric {
					return &gostatsd.Metric{Name: s.Name, Type: t, Value: v, StringValue: sv, Rate: 1, Tags: append(gostatsd.Tags{}, s.Tags...),
						Source: gostatsd.Source(s.Source), Timestamp: ts}
				}
				switch s.Kind {
				case 0:
					for _, v := range valuesOf(p, in.Special) {
						mm.Receive(mk(gostatsd.TIMER, v, ""))
					}
					pts = append(pts, hlib.Pair(hlib.Z(int64(p.S)), hlib.Z(int64(p.N))))
				case 1:
					mm.Receive(mk(gostatsd.COUNTER, float64(p.N), ""))
					pts = append(pts, hlib.Pair(hlib.Z(int64(p.S)), "0%Z"))
				case 2:
					mm.Receive(mk(gostatsd.GAUGE, float64(p.N), ""))
					pts = append(pts, hlib.Pair(hlib.Z(int64(p.S)), "0%Z"))
				default:
					mm.Receive(mk(gostatsd.SET, 0, strconv.Itoa(p.N)))
					pts = append(pts, hlib.Pair(hlib.Z(int64(p.S)), "0%Z"))
				}
			}
			if msg := hlib.Recover(func() { agg.ReceiveMap(mm) }); msg != "" {
				c.Monitors = append(c.Monitors, fmt.Sprintf("op %d: ReceiveMap panicked: %s", oi, msg))
			}
			opTerms = append(opTerms, hlib.App("CMerge", hlib.List(pts)))
		case "flush":
			flushes++
			if msg := hlib.Recover(func() { agg.Flush(time.Second) }); msg != "" {
				c.Monitors = append(c.Monitors, fmt.Sprintf("op %d: Flush panicked: %s", oi, msg))
				em.Emit(c)
				return
			}
			var shapes []shape
			atomic.StoreInt64(&x.otlpReqs, 0)
			bs.cwMu.Lock()
			bs.cwSizes = nil
			bs.cwMu.Unlock()
			otlpPosts := int64(0)
			agg.Process(func(m *gostatsd.MetricMap) {
				m.Timers.Each(func(name, tk string, t gostatsd.Timer) {
					sh := shape{Series: -1, NValues: len(t.Values), HistNil: t.Histogram == nil}
					if i, ok := index[name+"\x00"+tk]; ok {
						sh.Series = i
					}
					for _, p := range t.Percentiles {
						sh.Pcts = append(sh.Pcts, p.Str)
					}
					for k := range t.Histogram {
						sh.hist = append(sh.hist, float64(k))
					}
					sort.Float64s(sh.hist)
					for _, k := range sh.hist {
						sh.Hist = append(sh.Hist, strconv.FormatFloat(k, 'g', -1, 64))
					}
					sort.Strings(sh.Pcts)
					if len(t.Values) == 0 {
						idle++
					}
					if len(t.Values) > maxN {
						maxN = len(t.Values)
					}
					shapes = append(shapes, sh)
				})
				// MetricFlusher.sendMetricsAsync: the aggregator's own map goes to every backend
				for bi, b := range bs.backends {
					if bs.broken[bi] {
						continue // it panicked earlier in this case: its buffers / semaphores are in an unknown state
					}
					done := make(chan struct{})
					var once sync.Once
					ret := make(chan string, 1)
					go func() {
						ret <- hlib.Recover(func() {
							b.SendMetricsAsync(bs.ctx, m, func([]error) { once.Do(func() { close(done) }) })
						})
					}()
					var msg string
					select {
					case msg = <-ret:
					case <-time.After(60 * time.Second):
						c.Monitors = append(c.Monitors, fmt.Sprintf("op %d: %s SendMetricsAsync did not return within 60s", oi, bs.names[bi]))
						bs.broken[bi] = true
						continue
					}
					if msg != "" {
						c.Monitors = append(c.Monitors, fmt.Sprintf("op %d: %s SendMetricsAsync panicked: %s", oi, bs.names[bi], msg))
						bs.broken[bi] = true
						continue
					}
					select {
					case <-done:
					case <-time.After(60 * time.Second):
						c.Monitors = append(c.Monitors, fmt.Sprintf("op %d: %s never called back within 60s", oi, bs.names[bi]))
						bs.broken[bi] = true
					}
					if bs.names[bi] == "statsdaemon" || bs.names[bi] == "graphite" {
						// the flush context ends while the payload is handed over: with a context that is
						// already done every select in SendMetricsAsync / processMetrics may take the
						// cancellation branch (Go picks among ready branches at random), so repeated sends
						// visit every hand-over point, in particular the final one.
						dead, kill := context.WithCancel(bs.ctx)
						kill()
						for rep := 0; rep < 16 && !bs.broken[bi]; rep++ {
							if msg := hlib.Recover(func() { b.SendMetricsAsync(dead, m, func([]error) {}) }); msg != "" {
								c.Monitors = append(c.Monitors, fmt.Sprintf("op %d: %s SendMetricsAsync with a cancelled context panicked: %s", oi, bs.names[bi], msg))
								bs.broken[bi] = true
							}
						}
					}
					if bs.names[bi] == "otlp" {
						otlpPosts = atomic.LoadInt64(&x.otlpReqs)
					}
				}
			})
			sort.Slice(shapes, func(i, j int) bool { return shapes[i].Series < shapes[j].Series })
			var st []string
			for _, sh := range shapes {
				hist := "None"
				if !sh.HistNil {
					el := make([]string, len(sh.hist))
					for i, k := range sh.hist {
						el[i] = boundTerm(k)
					}
					hist = "(Some " + hlib.List(el) + ")"
				}
				st = append(st, hlib.App("TO", hlib.Z(int64(sh.Series)), hlib.Z(int64(sh.NValues)), hlib.StrList(sh.Pcts), hist))
			}
			bs.cwMu.Lock()
			cw := append([]int(nil), bs.cwSizes...)
			bs.cwMu.Unlock()
			cwt := make([]string, len(cw))
			for i, n := range cw {
				cwt[i] = hlib.Z(int64(n))
			}
			opTerms = append(opTerms, hlib.App("CFlush", hlib.List(st), hlib.List(cwt), hlib.Z(otlpPosts)))
			obsLog = append(obsLog, map[string]interface{}{"op": oi, "timers": shapes, "cloudwatch_requests": cw, "otlp_requests": otlpPosts})
		case "reset":
			before := map[string]bool{}
			agg.Process(func(m *gostatsd.MetricMap) {
				m.Timers.Each(func(name, tk string, _ gostatsd.Timer) { before[name+"\x00"+tk] = true })
			})
			if msg := hlib.Recover(func() { agg.Reset() }); msg != "" {
				c.Monitors = append(c.Monitors, fmt.Sprintf("op %d: Reset panicked: %s", oi, msg))
				em.Emit(c)
				return
			}
			agg.Process(func(m *gostatsd.MetricMap) {
				m.Timers.Each(func(name, tk string, _ gostatsd.Timer) { delete(before, name+"\x00"+tk) })
			})
			var gone []int
			for k := range before {
				if i, ok := index[k]; ok {
					gone = append(gone, i)
				}
			}
			sort.Ints(gone)
			gt := make([]string, len(gone))
			for i, g := range gone {
				gt[i] = hlib.Z(int64(g))
			}
			opTerms = append(opTerms, hlib.App("CReset", hlib.List(gt)))
			obsLog = append(obsLog, map[string]interface{}{"op": oi, "expired": gone})
		}
	}
	// series table and the ParseFloat oracle for every item of every histogram tag
	var sd, table []string
	seen := map[string]bool{}
	for _, s := range in.Series {
		tk := gostatsd.FormatTagsKey(gostatsd.Source(s.Source), append(gostatsd.Tags{}, s.Tags...))
		sd = append(sd, hlib.App("SD", hlib.Bytes(s.Name), hlib.Bytes(tk), hlib.StrList(s.Tags), hlib.Bytes(s.Source), hlib.Z(int64(s.Kind))))
		for _, tg := range s.Tags {
			if strings.HasPrefix(tg, "gsd_histogram:") {
				for _, it := range strings.Split(tg[len("gsd_histogram:"):], "_") {
					if seen[it] {
						continue
					}
					seen[it] = true
					f, err := strconv.ParseFloat(it, 64)
					table = append(table, hlib.Pair(hlib.Bytes(it), hlib.Option(boundTerm(f), err == nil)))
				}
			}
		}
	}
	pz := make([]string, len(in.Pcts))
	for i, p := range in.Pcts {
		pz[i] = hlib.Z(int64(p))
	}
	g := func(i int) string { return hlib.Bool(i < len(in.Mask) && in.Mask[i]) }
	pmask := hlib.App("Build_pmask", g(5), g(8), g(12), g(14), g(3), g(1))
	bmask := hlib.App("Build_bmask", g(0), g(2), g(4), g(6), g(7), g(9), g(10), g(11), g(13))
	nrt := map[string]string{"infra": "NRInfra", "insights": "NRInsights", "metrics": "NRMetrics"}[in.NRType]
	if nrt == "" {
		nrt = "NRInfra"
	}
	cfg := hlib.App("HC", hlib.List(pz), pmask, bmask, hlib.ZU(uint64(in.Limit)), nrt, hlib.Bool(in.OTLPHist), hlib.StrList(in.OTLPKeys), hlib.Z(int64(in.Batch)))
	if len(in.FPcts) == 0 {
		c.Coq = hlib.App("CHist", cfg, hlib.List(sd), hlib.List(table), hlib.List(opTerms))
	}
	c.Obs = obsLog
	c.Nontrivial = flushes >= 2 && idle > 0 && maxN >= 2 && len(in.Pcts) > 0
	em.Emit(c)
}

func runRank(em *hlib.Emitter, in input) {
	c := hlib.Case{Input: in, Class: in.Class}
	pct := float64(in.P)
	if in.PF != 0 {
		pct = in.PF
	}
	if in.N < 2 || in.N > 2000000 || !(pct >= -100 && pct <= 100) {
		c.Class = "degenerate"
		em.Emit(c)
		return
	}
	agg := statsd.NewMetricAggregator([]float64{pct}, 0, 0, 0, 0, gostatsd.TimerSubtypes{}, 0)
	vs := make([]float64, in.N)
	for i := range vs {
		vs[i] = float64((i * 7919) % 1009)
	}
	mm := gostatsd.NewMetricMap(false)
	mm.Timers["t"] = map[string]gostatsd.Timer{"": gostatsd.NewTimerValues(vs)}
	var obs float64
	found := false
	msg := hlib.Recover(func() {
		agg.ReceiveMap(mm)
		agg.Flush(time.Second)
		agg.Process(func(m *gostatsd.MetricMap) {
			for _, p := range m.Timers["t"][""].Percentiles {
				if p.Str == "count_"+strconv.Itoa(int(pct)) {
					obs, found = p.Float, true
				}
			}
		})
	})
	if msg != "" {
		c.Monitors = append(c.Monitors, "Flush panicked: "+msg)
		em.Emit(c)
		return
	}
	if in.PF != 0 {
		c.Coq = hlib.App("CRankF", hlib.F64(pct), hlib.Z(int64(in.N)), hlib.Option(hlib.Z(int64(obs)), found))
	} else {
		c.Coq = hlib.App("CRank", hlib.Z(int64(in.P)), hlib.Z(int64(in.N)), hlib.Option(hlib.Z(int64(obs)), found))
	}
	c.Obs = map[string]interface{}{"count": obs, "reported": found}
	c.Nontrivial = pct != 0
	em.Emit(c)
}

func announce(in input) {
	b, _ := json.Marshal(in)
	fmt.Fprintf(os.Stderr, "C04 next case input: %s\n", b)
}

func runOne(x *infra, em *hlib.Emitter, in input) {
	announce(in)
	switch in.Stream {
	case "rank":
		runRank(em, in)
	case "workers":
		em.Emit(workersViaChild(in)) // in a child process: a runtime fatal error cannot be recovered
	case "stall":
		em.Emit(runStall(x)(in))
	default:
		runHist(x, em, in)
	}
}

func main() {
	a := hlib.ParseArgs()
	em := hlib.NewEmitter()
	defer em.Close()
	x := newInfra()
	if a.Extra["stream"] == "workerchild" {
		workerChildLoop(x, em)
		return
	}
	defer stopWorkerChild()
	switch a.Mode {
	case "gen":
		r := hlib.NewRand(a.Seed)
		for i := 0; i < a.N; i++ {
			f := r.Fork()
			if i%4 == 3 {
				runOne(x, em, genRank(f))
			} else if i%200 == 10 {
				runOne(x, em, genStall(f))
			} else if i%32 == 6 {
				runOne(x, em, genWorkers(f))
			} else {
				runOne(x, em, genHist(f))
			}
		}
	case "run":
		for _, raw := range a.Inputs {
			var in input
			if err := json.Unmarshal(raw, &in); err != nil {
				fmt.Fprintln(os.Stderr, "bad input:", err)
				os.Exit(2)
			}
			runOne(x, em, in)
		}
	}
}
