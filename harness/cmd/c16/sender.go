package main

import (
	"bytes"
	"context"
	"errors"
	"fmt"
	"net"
	"runtime"
	"strconv"
	"strings"
	"sync"
	"time"

	"github.com/sirupsen/logrus"

	"github.com/atlassian/gostatsd/pkg/backends/sender"

	"verifharness/hlib"
)

// maxStreamsPerConnection of sender.go (an unexported constant; a change shows as a rejected trace)
const maxStreams = 100

type sop struct {
	Op   string `json:"op"`             // submit | cancel | close | waitconn | pause
	S    int    `json:"s,omitempty"`    // cancel / close: stream number
	Bufs int    `json:"bufs,omitempty"` // submit: buffers of the stream
	Open bool   `json:"open,omitempty"` // submit: Buf stays open until a close op (or the end)
	Us   int    `json:"us,omitempty"`   // pause: microseconds
}

type senderIn struct {
	Tmpl   string `json:"tmpl"`   // generator template (for the distribution)
	Conns  []bool `json:"conns"`  // per ConnFactory call: true = ok; beyond the script: ok
	Writes []bool `json:"writes"` // per conn.Write call: true = error; beyond the script: ok
	Ops    []sop  `json:"ops"`
	TailUs int    `json:"tail_us"` // pause before shutdown
}

var (
	errConn   = errors.New("scripted connect failure")
	errWrite  = errors.New("scripted write failure")
	errStream = errors.New("stream context cancelled")
)

// sctx is the context of one stream: the sender only uses Done() and Err().  Its Err() is a value of
// its own so that the callback's error list tells ctx.Err() of Run apart from stream.Ctx.Err().
type sctx struct {
	done chan struct{}
	once sync.Once
}

func (c *sctx) Deadline() (time.Time, bool) { return time.Time{}, false }
func (c *sctx) Done() <-chan struct{}       { return c.done }
func (c *sctx) Value(interface{}) interface{} {
	return nil
}
func (c *sctx) Err() error {
	select {
	case <-c.done:
		return errStream
	default:
		return nil
	}
}

type senderRun struct {
	in     *senderIn
	mu     sync.Mutex
	coq    []string
	human  []string
	conns  int
	writes int
	cbs    map[int]int
	mons   []string
}

func (sr *senderRun) logf(coq, human string) { // caller holds mu
	sr.coq = append(sr.coq, coq)
	sr.human = append(sr.human, human)
}

type fakeConn struct{ sr *senderRun }

func (c *fakeConn) Write(b []byte) (int, error) {
	sr := c.sr
	sr.mu.Lock()
	defer sr.mu.Unlock()
	k := sr.writes
	sr.writes++
	fail := k < len(sr.in.Writes) && sr.in.Writes[k]
	id := -1
	if s := string(b); strings.HasPrefix(s, "s") {
		if i := strings.IndexByte(s, '.'); i > 1 {
			id, _ = strconv.Atoi(s[1:i])
		}
	}
	res := "WOk"
	if fail {
		res = "WErr"
	}
	sr.logf(hlib.App("OWrite", hlib.Nat(id), res), fmt.Sprintf("write(s%d)=%s", id, res))
	if fail {
		return 0, errWrite
	}
	return len(b), nil
}
func (c *fakeConn) Read([]byte) (int, error)         { return 0, errors.New("not readable") }
func (c *fakeConn) Close() error                     { return nil }
func (c *fakeConn) LocalAddr() net.Addr              { return &net.TCPAddr{} }
func (c *fakeConn) RemoteAddr() net.Addr             { return &net.TCPAddr{} }
func (c *fakeConn) SetDeadline(time.Time) error      { return nil }
func (c *fakeConn) SetReadDeadline(time.Time) error  { return nil }
func (c *fakeConn) SetWriteDeadline(time.Time) error { return nil }

func runSender(in input) hlib.Case {
	si := in.Sender
	sr := &senderRun{in: si, cbs: map[int]int{}}
	logger := logrus.New()
	logger.SetOutput(discard{})
	snd := &sender.Sender{
		Logger: logger,
		ConnFactory: func() (net.Conn, error) {
			sr.mu.Lock()
			k := sr.conns
			sr.conns++
			ok := k >= len(si.Conns) || si.Conns[k]
			sr.logf(hlib.App("OConn", hlib.Bool(ok)), fmt.Sprintf("conn=%v", ok))
			sr.mu.Unlock()
			if !ok {
				return nil, errConn
			}
			return &fakeConn{sr}, nil
		},
		// buffered so that a submission never blocks the driver: FIFO order == log order
		Sink:         make(chan sender.Stream, 512),
		WriteTimeout: time.Second,
	}
	runCtx, cancelRun := context.WithCancel(context.Background())
	defer cancelRun()
	done := make(chan struct{})
	go func() {
		defer close(done)
		if m := hlib.Recover(func() { snd.Run(runCtx) }); m != "" {
			sr.mu.Lock()
			sr.mons = append(sr.mons, "sender.Run panicked: "+m)
			sr.mu.Unlock()
		}
	}()

	type strm struct {
		ctx  *sctx
		buf  chan *bytes.Buffer
		open bool
	}
	var streams []*strm
	waits := 0
	for _, op := range si.Ops {
		switch op.Op {
		case "submit":
			id := len(streams)
			st := &strm{ctx: &sctx{done: make(chan struct{})}, buf: make(chan *bytes.Buffer, op.Bufs+1), open: op.Open}
			for k := 0; k < op.Bufs; k++ {
				st.buf <- bytes.NewBufferString(fmt.Sprintf("s%d.%d\n", id, k))
			}
			if !op.Open {
				close(st.buf)
			}
			streams = append(streams, st)
			sr.mu.Lock()
			sr.logf("OSubmit", fmt.Sprintf("submit(s%d,bufs=%d,open=%v)", id, op.Bufs, op.Open))
			sr.mu.Unlock()
			strm := sender.Stream{Ctx: st.ctx, Buf: st.buf, Cb: func(errs []error) {
				sr.mu.Lock()
				defer sr.mu.Unlock()
				sr.cbs[id]++
				var ks, hs []string
				for _, e := range errs {
					switch {
					case e == errWrite:
						ks = append(ks, "EWrite")
					case e == context.Canceled:
						ks = append(ks, "ERunCtx")
					case e == errStream:
						ks = append(ks, "EStreamCtx")
					default:
						sr.mons = append(sr.mons, fmt.Sprintf("stream %d: callback carries an unexpected error value %v", id, e))
						ks = append(ks, "EWrite")
					}
					hs = append(hs, fmt.Sprint(e))
				}
				sr.logf(hlib.App("OCb", hlib.Nat(id), hlib.List(ks)), fmt.Sprintf("cb(s%d,%v)", id, hs))
			}}
			if m := hlib.Recover(func() { snd.Sink <- strm }); m != "" {
				// only possible if Run has ended (cleanup closes the Sink) before the shutdown
				sr.mu.Lock()
				sr.mons = append(sr.mons, fmt.Sprintf("stream %d could not be submitted: %s", id, m))
				sr.mu.Unlock()
			}
		case "cancel":
			if op.S < len(streams) {
				st := streams[op.S]
				sr.mu.Lock()
				sr.logf(hlib.App("OStreamCancel", hlib.Nat(op.S)), fmt.Sprintf("cancel(s%d)", op.S))
				sr.mu.Unlock()
				st.ctx.once.Do(func() { close(st.ctx.done) })
			}
		case "close":
			if op.S < len(streams) && streams[op.S].open {
				streams[op.S].open = false
				close(streams[op.S].buf)
			}
		case "waitconn":
			// the k-th waitconn waits for the (k+1)-th ConnFactory call: one more expiry of the
			// reconnect timer (a real 1 s) than the waits before it; write errors redial at once and only
			// make it return earlier
			if waits < 4 {
				waits++
				deadline := time.Now().Add(1300 * time.Millisecond)
				for time.Now().Before(deadline) {
					sr.mu.Lock()
					n := sr.conns
					sr.mu.Unlock()
					if n >= waits+1 {
						break
					}
					time.Sleep(300 * time.Microsecond)
				}
			}
		case "pause":
			time.Sleep(time.Duration(op.Us) * time.Microsecond)
		}
		runtime.Gosched()
	}
	for _, st := range streams {
		if st.open {
			st.open = false
			close(st.buf)
		}
	}
	time.Sleep(time.Duration(si.TailUs) * time.Microsecond)
	sr.mu.Lock()
	sr.logf("OCtxCancel", "shutdown")
	sr.mu.Unlock()
	cancelRun()
	returned := true
	select {
	case <-done:
	case <-time.After(5 * time.Second):
		returned = false
	}
	sr.mu.Lock()
	defer sr.mu.Unlock()
	if returned {
		sr.logf("ODone", "returned")
	} else {
		sr.mons = append(sr.mons, "sender.Run did not return within 5 s of its context being cancelled")
	}
	for id := range streams {
		if n := sr.cbs[id]; n != 1 {
			sr.mons = append(sr.mons, fmt.Sprintf("stream %d received %d callbacks", id, n))
		}
	}
	fails := 0
	for _, ok := range si.Conns[:min(len(si.Conns), sr.conns)] {
		if !ok {
			fails++
		}
	}
	werrs := 0
	for _, f := range si.Writes[:min(len(si.Writes), sr.writes)] {
		if f {
			werrs++
		}
	}
	return hlib.Case{
		Input:      in,
		Obs:        map[string]interface{}{"trace": strings.Join(sr.human, " ")},
		Coq:        hlib.App("SenderTrace", hlib.Nat(maxStreams), hlib.List(sr.coq)),
		Monitors:   sr.mons,
		Class:      "sender/" + si.Tmpl,
		Nontrivial: len(streams) >= 2 && (fails > 0 || werrs > 0),
	}
}

type discard struct{}

func (discard) Write(p []byte) (int, error) { return len(p), nil }

// ---------------------------------------------------------------------------------------------
// generator

func genSender(r *hlib.Rand) *senderIn {
	pause := func(maxUs int) sop { return sop{Op: "pause", Us: r.Intn(maxUs + 1)} }
	switch t := r.Intn(20); {
	case t == 0:
		// more streams than one connection serves (maxStreamsPerConnection): the connection is closed
		// with no stream held and redialled
		in := &senderIn{Tmpl: "maxstreams", Conns: []bool{true, r.Chance(1, 2), true}, TailUs: r.Intn(3000)}
		n := maxStreams + r.Intn(4)
		for i := 0; i < n; i++ {
			in.Ops = append(in.Ops, sop{Op: "submit", Bufs: r.Intn(2)})
		}
		in.Ops = append(in.Ops, pause(20000))
		if r.Bool() {
			in.Ops = append(in.Ops, sop{Op: "submit", Bufs: 1}, pause(3000))
		}
		return in
	case t == 1:
		// a stream held across a failed connect and delivered after the reconnect, the connection then
		// serves its maximum and the redial fails with no stream held; the first stream is cancelled
		in := &senderIn{Tmpl: "stale-cancel", Conns: []bool{false, true, false}, TailUs: 2000 + r.Intn(5000)}
		in.Ops = append(in.Ops, sop{Op: "submit", Bufs: 1}, pause(3000), sop{Op: "waitconn"})
		for i := 0; i < maxStreams-1; i++ {
			in.Ops = append(in.Ops, sop{Op: "submit", Bufs: 0})
		}
		in.Ops = append(in.Ops, sop{Op: "pause", Us: 10000 + r.Intn(10000)}, sop{Op: "cancel", S: 0}, pause(5000))
		if r.Bool() {
			in.Ops = append(in.Ops, sop{Op: "submit", Bufs: 1}, pause(2000))
		}
		return in
	case t <= 4:
		// failed connect with no stream held, recovery, a stream whose write fails, failed reconnect
		// while that stream is held, a second stream arrives during the wait
		in := &senderIn{Tmpl: "stale-sink", Conns: []bool{false, true, false}, Writes: []bool{true}, TailUs: 1000 + r.Intn(5000)}
		if r.Bool() {
			in.Conns = append(in.Conns, r.Bool())
		}
		in.Ops = append(in.Ops, pause(2000), sop{Op: "waitconn"}, pause(2000),
			sop{Op: "submit", Bufs: 1 + r.Intn(3)}, sop{Op: "pause", Us: 2000 + r.Intn(4000)},
			sop{Op: "submit", Bufs: r.Intn(3)}, pause(5000))
		switch r.Intn(4) {
		case 0:
			in.Ops = append(in.Ops, sop{Op: "cancel", S: 0}, pause(3000))
		case 1:
			in.Ops = append(in.Ops, sop{Op: "cancel", S: 1}, pause(3000), sop{Op: "cancel", S: 0}, pause(3000))
		case 2:
			in.Ops = append(in.Ops, sop{Op: "waitconn"}, pause(3000))
		}
		return in
	}
	// free scripts
	in := &senderIn{Tmpl: "free", TailUs: r.Intn(4000)}
	nconn := r.Intn(6)
	fails := 0
	for i := 0; i < nconn; i++ {
		ok := r.Chance(1, 2)
		if !ok && fails >= 3 {
			ok = true
		}
		if !ok {
			fails++
		}
		in.Conns = append(in.Conns, ok)
	}
	nw := r.Intn(10)
	for i := 0; i < nw; i++ {
		in.Writes = append(in.Writes, r.Chance(3, 10))
	}
	nstreams := hlib.Pick(r, []int{0, 1, 1, 2, 2, 3, 3, 4, 5, 7})
	submitted := 0
	var open []int
	waits := 0
	steps := nstreams + r.Intn(nstreams+3)
	for i := 0; i < steps || submitted < nstreams; i++ {
		switch c := r.Intn(10); {
		case c < 4 && submitted < nstreams:
			o := sop{Op: "submit", Bufs: hlib.Pick(r, []int{0, 1, 1, 2, 3, 5}), Open: r.Chance(1, 4)}
			if o.Open {
				open = append(open, submitted)
			}
			submitted++
			in.Ops = append(in.Ops, o)
		case c < 6 && submitted > 0:
			in.Ops = append(in.Ops, sop{Op: "cancel", S: r.Intn(submitted)})
		case c == 6 && len(open) > 0:
			k := r.Intn(len(open))
			in.Ops = append(in.Ops, sop{Op: "close", S: open[k]})
			open = append(open[:k], open[k+1:]...)
		case c == 7 && waits < fails:
			waits++
			in.Ops = append(in.Ops, sop{Op: "waitconn"})
		default:
			in.Ops = append(in.Ops, pause(3000))
		}
		if i > 60 {
			break
		}
	}
	return in
}
