package main

import (
	"context"
	"crypto/sha1"
	"encoding/hex"
	"encoding/json"
	"errors"
	"fmt"
	"io"
	"net"
	"net/http"
	"net/http/httptest"
	"os"
	"regexp"
	"strconv"
	"strings"
	"sync"
	"time"

	"github.com/sirupsen/logrus"
	"github.com/spf13/viper"
	"github.com/tilinna/clock"

	"github.com/atlassian/gostatsd"
	"github.com/atlassian/gostatsd/pkg/backends/cloudwatch"
	"github.com/atlassian/gostatsd/pkg/backends/datadog"
	"github.com/atlassian/gostatsd/pkg/backends/graphite"
	"github.com/atlassian/gostatsd/pkg/backends/influxdb"
	"github.com/atlassian/gostatsd/pkg/backends/newrelic"
	"github.com/atlassian/gostatsd/pkg/backends/null"
	"github.com/atlassian/gostatsd/pkg/backends/otlp"
	"github.com/atlassian/gostatsd/pkg/backends/statsdaemon"
	"github.com/atlassian/gostatsd/pkg/backends/stdout"
	"github.com/atlassian/gostatsd/pkg/statsd"
	"github.com/atlassian/gostatsd/pkg/transport"

	"verifharness/hlib"
)

type backendIn struct {
	Backend    string   `json:"backend"`               // datadog influxdb newrelic otlp cloudwatch stdout null graphite statsd-tcp statsd-udp
	Aggs       []int    `json:"aggs"`                  // gauges per aggregator (one SendMetricsAsync per aggregator and backend)
	Bad        [][]int  `json:"bad"`                   // per aggregator: indices of the gauges whose batch the server refuses
	Mode       string   `json:"mode"`                  // http: ok bad500 bad400 bad429 badreset flaky all500 all429 allreset | socket: up down recover acceptclose
	Window     int      `json:"window,omitempty"`      // max-request-elapsed-time: seconds of the mock clock; 0 = 60; -1 = the documented "retries disabled" (otlp: 0 = no window); -2 = option not set (default 15 s)
	Repeat     int      `json:"repeat,omitempty"`      // number of flushes with the scripted fault / cancellation before the healthy one (0 = 1)
	RetryAfter int      `json:"retry_after,omitempty"` // Retry-After header of the 429 answers (0 = 1)
	Cancel     string   `json:"cancel"`                // never | before | during | after
	MaxReq     int      `json:"maxreq"`                // max concurrent requests of the backend
	Extra      []string `json:"extra"`                 // further backends of the same flusher: null | stdout
	// loop cases (one aggregator, one series => one batch): the answer to attempt j of the batch is
	// Script[min(j, len-1)]: ok | partial | 500 | 400 | reset | 429 | 429:<Retry-After seconds>
	Script []string `json:"script,omitempty"`
}

var tokenRe = regexp.MustCompile(`f(\d+)a(\d+)x(\d+)(ok|bad)`)

func isHTTP(b string) bool {
	return b == "datadog" || b == "influxdb" || b == "newrelic" || b == "otlp"
}
func isSocket(b string) bool { return b == "graphite" || b == "statsd-tcp" || b == "statsd-udp" }

// ---------------------------------------------------------------------------------------------
// scripted transport: what the server / fake API saw, per distinct request body

type bodyRec struct {
	flush, agg int // -1: no token in the body
	bad        bool
	attempts   int
	acked      bool
	refused    bool     // some attempt was not answered with a success
	acts       []string // loop cases: the answer given to every attempt ...
	times      []int64  // ... and the reading of the flush context's mock clock (ns since its start)
}

type transportScript struct {
	mu         sync.Mutex
	mode       string
	bodies     map[string]*bodyRec
	held       int
	release    chan struct{}
	retryAfter int
	script     []string
	now        func() int64
	partialOK  bool // a 200 whose body reports rejected data points is a success (all but otlp)
	// loop cases: what every attempt (= every RoundTrip call of the backend's http.Client) got, and the
	// reading of the flush context's mock clock when it started
	rtActs  []string
	rtTimes []int64
}

// recRT records the attempts of a post loop where the loop makes them: at the http.Client's transport
// (an attempt that fails before it reaches the server is an attempt all the same)
type recRT struct {
	inner http.RoundTripper
	ts    *transportScript
}

func (r *recRT) RoundTrip(req *http.Request) (*http.Response, error) {
	ts := r.ts
	ts.mu.Lock()
	rec := len(ts.script) > 0 && ts.mode != "ok"
	t := ts.now()
	ts.mu.Unlock()
	resp, err := r.inner.RoundTrip(req)
	if rec {
		act := "err"
		if err == nil {
			act = resp.Header.Get("X-C16-Act")
		}
		ts.mu.Lock()
		if len(ts.rtActs) < 64 {
			ts.rtActs = append(ts.rtActs, act)
			ts.rtTimes = append(ts.rtTimes, t)
		}
		ts.mu.Unlock()
	}
	return resp, err
}

func (ts *transportScript) setMode(m string) {
	ts.mu.Lock()
	ts.mode = m
	ts.mu.Unlock()
}

// decide registers one attempt and returns the action: "ok", "500", "400", "429", "reset", "hold"
func (ts *transportScript) decide(body string) (string, *bodyRec) {
	h := sha1.Sum([]byte(body))
	key := hex.EncodeToString(h[:])
	ts.mu.Lock()
	defer ts.mu.Unlock()
	rec := ts.bodies[key]
	if rec == nil {
		rec = &bodyRec{flush: -1, agg: -1}
		for _, m := range tokenRe.FindAllStringSubmatch(body, -1) {
			rec.flush, _ = strconv.Atoi(m[1])
			rec.agg, _ = strconv.Atoi(m[2])
			if m[4] == "bad" {
				rec.bad = true
			}
		}
		ts.bodies[key] = rec
	}
	rec.attempts++
	if len(ts.script) > 0 && ts.mode != "ok" {
		act := ts.script[min(rec.attempts-1, len(ts.script)-1)]
		if len(rec.acts) < 64 {
			rec.acts = append(rec.acts, act)
			rec.times = append(rec.times, ts.now())
		}
		if act == "ok" || (act == "partial" && ts.partialOK) {
			rec.acked = true
		}
		return act, rec
	}
	switch ts.mode {
	case "hold":
		ts.held++
		return "hold", rec
	case "all500":
		return "500", rec
	case "all429":
		return "429", rec
	case "allreset":
		return "reset", rec
	case "flaky":
		if rec.attempts <= 2 {
			return "500", rec
		}
	case "bad500", "bad400", "bad429", "badreset":
		if rec.bad {
			return ts.mode[3:], rec
		}
	}
	rec.acked = true
	return "ok", rec
}

func (ts *transportScript) heldCount() int {
	ts.mu.Lock()
	defer ts.mu.Unlock()
	return ts.held
}

// counts returns (batches, never acknowledged) attributed to (flush, agg)
func (ts *transportScript) counts(flush, agg int) (n, fails int) {
	ts.mu.Lock()
	defer ts.mu.Unlock()
	for _, r := range ts.bodies {
		if r.flush == flush && r.agg == agg {
			n++
			if !r.acked {
				fails++
			}
		}
	}
	return
}

// logs returns the attempt logs of the batches attributed to (flush, agg)
func (ts *transportScript) logs(flush, agg int) (out []*bodyRec) {
	ts.mu.Lock()
	defer ts.mu.Unlock()
	for _, r := range ts.bodies {
		if r.flush == flush && r.agg == agg && len(r.acts) > 0 {
			out = append(out, r)
		}
	}
	return
}

// takeAnon returns the number of bodies without a token (otlp's empty trailing batch; identical for
// every request and flush, so not attributable) some attempt of which was refused, and forgets them
func (ts *transportScript) takeAnon() (anon int) {
	ts.mu.Lock()
	defer ts.mu.Unlock()
	for k, r := range ts.bodies {
		if r.flush == -1 {
			if r.refused {
				anon++
			}
			delete(ts.bodies, k)
		}
	}
	return
}

func (ts *transportScript) handler(w http.ResponseWriter, r *http.Request) {
	b, _ := io.ReadAll(r.Body)
	act, rec := ts.decide(string(b))
	if act != "ok" {
		ts.mu.Lock()
		rec.refused = true
		ts.mu.Unlock()
	}
	w.Header().Set("X-C16-Act", act)
	if strings.HasPrefix(act, "429:") {
		w.Header().Set("Retry-After", act[4:])
		w.WriteHeader(http.StatusTooManyRequests)
		return
	}
	switch act {
	case "partial":
		// ExportMetricsServiceResponse{partial_success{rejected_data_points: 3, error_message: "x"}}; the
		// other backends only look at the status
		w.WriteHeader(http.StatusOK)
		w.Write([]byte{0x0a, 0x05, 0x08, 0x03, 0x12, 0x01, 'x'})
	case "hold":
		select {
		case <-ts.release:
		case <-r.Context().Done():
		}
		w.WriteHeader(http.StatusServiceUnavailable)
	case "500":
		w.WriteHeader(http.StatusInternalServerError)
	case "400":
		w.WriteHeader(http.StatusBadRequest)
	case "429":
		if len(ts.script) == 0 {
			w.Header().Set("Retry-After", strconv.Itoa(max(1, ts.retryAfter)))
		}
		w.WriteHeader(http.StatusTooManyRequests)
	case "reset":
		if hj, ok := w.(http.Hijacker); ok {
			if c, _, err := hj.Hijack(); err == nil {
				c.Close()
				return
			}
		}
		w.WriteHeader(http.StatusInternalServerError)
	default:
		w.WriteHeader(http.StatusOK)
	}
}

// ---------------------------------------------------------------------------------------------
// local listeners for the socket backends

type sockServer struct {
	network string // tcp | udp
	addr    string
	mu      sync.Mutex
	ln      net.Listener
	pc      net.PacketConn
	conns   []net.Conn
	closeOn bool // accept and close at once
}

func newSockServer(network string) (*sockServer, error) {
	s := &sockServer{network: network}
	if network == "udp" {
		pc, err := net.ListenPacket("udp", "127.0.0.1:0")
		if err != nil {
			return nil, err
		}
		s.addr = pc.LocalAddr().String()
		pc.Close()
		return s, nil
	}
	ln, err := net.Listen("tcp", "127.0.0.1:0")
	if err != nil {
		return nil, err
	}
	s.addr = ln.Addr().String()
	ln.Close()
	return s, nil
}

func (s *sockServer) up() error {
	s.mu.Lock()
	defer s.mu.Unlock()
	if s.ln != nil || s.pc != nil {
		return nil
	}
	if s.network == "udp" {
		pc, err := net.ListenPacket("udp", s.addr)
		if err != nil {
			return err
		}
		s.pc = pc
		go func() {
			buf := make([]byte, 65536)
			for {
				if _, _, err := pc.ReadFrom(buf); err != nil {
					return
				}
			}
		}()
		return nil
	}
	var ln net.Listener
	var err error
	for i := 0; i < 50; i++ { // the port was ours a moment ago
		if ln, err = net.Listen("tcp", s.addr); err == nil {
			break
		}
		time.Sleep(10 * time.Millisecond)
	}
	if err != nil {
		return err
	}
	s.ln = ln
	go func() {
		for {
			c, err := ln.Accept()
			if err != nil {
				return
			}
			s.mu.Lock()
			if s.closeOn {
				s.mu.Unlock()
				c.Close()
				continue
			}
			s.conns = append(s.conns, c)
			s.mu.Unlock()
			go io.Copy(io.Discard, c)
		}
	}()
	return nil
}

func (s *sockServer) down() {
	s.mu.Lock()
	defer s.mu.Unlock()
	if s.ln != nil {
		s.ln.Close()
		s.ln = nil
	}
	if s.pc != nil {
		s.pc.Close()
		s.pc = nil
	}
	for _, c := range s.conns {
		c.Close()
	}
	s.conns = nil
}

// ---------------------------------------------------------------------------------------------
// the flusher under observation

type reqRec struct {
	flush, agg, bidx int
	backend          string
	cbs              [][]string // callback invocations: error kinds
	raw              [][]string
}

type flushRun struct {
	mu     sync.Mutex
	trace  []string
	human  []string
	flush  int
	issued int
	base   map[*gostatsd.MetricMap]int
	aggOf  map[*gostatsd.MetricMap]int
	reqs   []*reqRec
	mons   []string
}

func (fr *flushRun) monitor(m string) {
	fr.mu.Lock()
	fr.mons = append(fr.mons, m)
	fr.mu.Unlock()
}

func (fr *flushRun) label(coq, human string) {
	fr.mu.Lock()
	fr.trace = append(fr.trace, coq)
	fr.human = append(fr.human, human)
	fr.mu.Unlock()
}

func classify(e error) string {
	if e == nil {
		return "ENil"
	}
	if errors.Is(e, context.Canceled) || errors.Is(e, context.DeadlineExceeded) ||
		strings.Contains(e.Error(), "context canceled") || strings.Contains(e.Error(), "context deadline exceeded") {
		return "ECtx"
	}
	return "EPost"
}

type wrapBackend struct {
	inner gostatsd.Backend
	name  string
	idx   int
	k     int
	fr    *flushRun
}

func (w *wrapBackend) Name() string                                           { return w.inner.Name() }
func (w *wrapBackend) SendEvent(ctx context.Context, e *gostatsd.Event) error { return nil }
func (w *wrapBackend) SendMetricsAsync(ctx context.Context, mm *gostatsd.MetricMap, cb gostatsd.SendCallback) {
	fr := w.fr
	fr.mu.Lock()
	b, ok := fr.base[mm]
	if !ok {
		// first backend of this aggregator's group: wg.Add(len(backends)) has just happened
		b = fr.issued
		fr.issued += w.k
		fr.base[mm] = b
		fr.trace = append(fr.trace, hlib.App("FSendAll", hlib.Nat(w.k)))
		fr.human = append(fr.human, fmt.Sprintf("sendall(%d)", w.k))
	}
	r := b + w.idx
	rec := &reqRec{flush: fr.flush, agg: fr.aggOf[mm], bidx: w.idx, backend: w.name}
	fr.reqs = append(fr.reqs, rec)
	fr.mu.Unlock()
	if m := hlib.Recover(func() {
		w.inner.SendMetricsAsync(ctx, mm, func(errs []error) {
			var ks, raw []string
			for _, e := range errs {
				ks = append(ks, classify(e))
				raw = append(raw, fmt.Sprint(e))
			}
			fr.mu.Lock()
			fr.trace = append(fr.trace, hlib.App("FCallback", hlib.Nat(r)))
			fr.human = append(fr.human, fmt.Sprintf("cb(%d,%v)", r, ks))
			rec.cbs = append(rec.cbs, ks)
			rec.raw = append(rec.raw, raw)
			fr.mu.Unlock()
			if m := hlib.Recover(func() { cb(errs) }); m != "" {
				fr.monitor(fmt.Sprintf("the flusher's callback for request %d (%s) panicked: %s", r, w.name, m))
			}
		})
	}); m != "" {
		fr.monitor(fmt.Sprintf("%s.SendMetricsAsync panicked: %s", w.name, m))
	}
}

// fakeAggr / fakeProc stand in for BackendHandler + MetricAggregator: every aggregator hands one
// prepared map to the flusher's ProcessFunc, in its own goroutine.
type fakeAggr struct{ mm *gostatsd.MetricMap }

func (a *fakeAggr) ReceiveMap(*gostatsd.MetricMap) {}
func (a *fakeAggr) Flush(time.Duration)            {}
func (a *fakeAggr) Process(f statsd.ProcessFunc)   { f(a.mm) }
func (a *fakeAggr) Reset()                         {}

type fakeProc struct {
	fr   *flushRun
	maps []*gostatsd.MetricMap
}

func (p *fakeProc) Process(ctx context.Context, fn statsd.DispatcherProcessFunc) gostatsd.Wait {
	var wg sync.WaitGroup
	for i, mm := range p.maps {
		wg.Add(1)
		go func(i int, mm *gostatsd.MetricMap) {
			defer wg.Done()
			if m := hlib.Recover(func() { fn(i, &fakeAggr{mm}) }); m != "" {
				p.fr.monitor("aggregator flush function panicked: " + m)
			}
		}(i, mm)
	}
	return func() {
		wg.Wait()
		p.fr.label("FProcessDone", "processdone")
	}
}

func makeMap(flush, agg, n int, bad []int) *gostatsd.MetricMap {
	mm := gostatsd.NewMetricMap(false)
	isBad := map[int]bool{}
	for _, b := range bad {
		isBad[b] = true
	}
	for j := 0; j < n; j++ {
		suffix := "ok"
		if isBad[j] {
			suffix = "bad"
		}
		name := fmt.Sprintf("f%da%dx%d%s", flush, agg, j, suffix)
		mm.Gauges[name] = map[string]gostatsd.Gauge{"": {Value: float64(j), Timestamp: 1, Source: "h"}}
	}
	return mm
}

// ---------------------------------------------------------------------------------------------

func runBackend(in input) hlib.Case {
	bi := in.Backend
	fmt.Fprintf(os.Stderr, "c16: running backend case %s\n", mustJSON(in))
	c := hlib.Case{Input: in, Class: fmt.Sprintf("backend/%s/%s/%s", bi.Backend, bi.Mode, bi.Cancel)}
	fr := &flushRun{base: map[*gostatsd.MetricMap]int{}, aggOf: map[*gostatsd.MetricMap]int{}}
	logger := logrus.New()
	logger.SetOutput(io.Discard)
	ts := &transportScript{mode: bi.Mode, bodies: map[string]*bodyRec{}, release: make(chan struct{}), retryAfter: bi.RetryAfter, script: bi.Script,
		now: func() int64 { return 0 }, partialOK: bi.Backend != "otlp"}
	var srv *httptest.Server
	var sock *sockServer
	runCtx, cancelRun := context.WithCancel(context.Background())
	var runDone chan struct{}
	fail := func(err error) hlib.Case {
		cancelRun()
		c.Monitors = append(c.Monitors, "harness could not build the backend: "+err.Error())
		return c
	}

	maxReq := bi.MaxReq
	if maxReq <= 0 {
		maxReq = 2
	}
	v := viper.New()
	pool := transport.NewTransportPool(logger, v)
	if hc, e := pool.Get("default"); e == nil && len(bi.Script) > 0 {
		inner := hc.Client.Transport
		if inner == nil {
			inner = http.DefaultTransport
		}
		hc.Client.Transport = &recRT{inner: inner, ts: ts}
	}
	var be gostatsd.Backend
	var err error
	if isHTTP(bi.Backend) {
		srv = httptest.NewServer(http.HandlerFunc(ts.handler))
	}
	// retry window, on the mock clock (1 s per 200 us of real time): all four post loops take their
	// clock from the context
	// [window] is what the option is set to; [effWindow] what the loop works with (for Coq)
	window := 60 * time.Second
	effWindow := window
	setWindow := true
	switch {
	case bi.Window > 0:
		window = time.Duration(bi.Window) * time.Second
		effWindow = window
	case bi.Window == -1:
		// retries disabled: -1 for datadog / influxdb / newrelic (backoff: elapsed > -1 at the first
		// NextBackOff => Stop); otlp rejects negative values, its 0 means "no window, max_retries only"
		window, effWindow = -1, -1
		if bi.Backend == "otlp" {
			window, effWindow = 0, 0
		}
	case bi.Window == -2:
		setWindow = false
		effWindow = 15 * time.Second // defaultMaxRequestElapsedTime of all four
	}
	// a flush must be back within the retry window plus slack for the requests themselves
	deadline := 12 * time.Second
	if bi.Window != 0 && isHTTP(bi.Backend) {
		deadline = 4 * time.Second
	}
	if bi.Mode == "stall" {
		deadline = 20 * time.Second
	}
	switch bi.Backend {
	case "datadog":
		v.Set("datadog.api_endpoint", srv.URL)
		v.Set("datadog.api_key", "key")
		v.Set("datadog.metrics_per_batch", 21)
		v.Set("datadog.max_requests", maxReq)
		v.Set("datadog.compress_payload", false)
		if setWindow {
			v.Set("datadog.max_request_elapsed_time", window)
		}
		be, err = datadog.NewClientFromViper(v, logger, pool)
	case "influxdb":
		v.Set("influxdb.api-endpoint", srv.URL)
		v.Set("influxdb.compress-payload", false)
		v.Set("influxdb.max-requests", maxReq)
		if setWindow {
			v.Set("influxdb.max-request-elapsed-time", window)
		}
		v.Set("influxdb.metrics-per-batch", 1)
		if maxReq%2 == 0 { // v1 and v2 write APIs
			v.Set("influxdb.api-version", 1)
			v.Set("influxdb.database", "db")
		} else {
			v.Set("influxdb.api-version", 2)
			v.Set("influxdb.bucket", "b")
			v.Set("influxdb.org", "o")
		}
		be, err = influxdb.NewClientFromViper(v, logger, pool)
	case "newrelic":
		v.Set("newrelic.address", srv.URL)
		v.Set("newrelic.metrics-per-batch", 21)
		v.Set("newrelic.max-requests", maxReq)
		if setWindow {
			v.Set("newrelic.max-request-elapsed-time", window)
		}
		be, err = newrelic.NewClientFromViper(v, logger, pool)
	case "otlp":
		v.Set("otlp.metrics_endpoint", srv.URL+"/v1/metrics")
		v.Set("otlp.logs_endpoint", srv.URL+"/v1/logs")
		v.Set("otlp.max_requests", maxReq)
		v.Set("otlp.max_retries", 3)
		if setWindow {
			v.Set("otlp.max_request_elapsed_time", window)
		}
		v.Set("otlp.compress_payload", false)
		if len(bi.Script) > 0 {
			v.Set("otlp.metrics_per_batch", 1000) // one batch (no empty trailing one)
		} else {
			v.Set("otlp.metrics_per_batch", 1)
		}
		be, err = otlp.NewClientFromViper(v, logger, pool)
	case "cloudwatch":
		be = cloudwatch.VerifNewClientC16("ns", gostatsd.TimerSubtypes{}, logger, func(ctx context.Context, names []string) error {
			act, _ := ts.decide(strings.Join(names, ","))
			switch act {
			case "ok":
				return nil
			case "hold":
				select {
				case <-ts.release:
				case <-ctx.Done():
					return ctx.Err()
				}
				return errors.New("held request released")
			}
			return errors.New("scripted PutMetricData failure " + act)
		})
	case "stdout":
		be, err = stdout.NewClient(gostatsd.TimerSubtypes{})
	case "null":
		be, err = null.NewClient()
	case "graphite", "statsd-tcp", "statsd-udp":
		network := "tcp"
		if bi.Backend == "statsd-udp" {
			network = "udp"
		}
		if sock, err = newSockServer(network); err != nil {
			return fail(err)
		}
		if bi.Mode == "up" || bi.Mode == "acceptclose" {
			sock.closeOn = bi.Mode == "acceptclose"
			if err = sock.up(); err != nil {
				return fail(err)
			}
		}
		var runner interface{ Run(context.Context) }
		if bi.Backend == "graphite" {
			g, e := graphite.NewClient(sock.addr, time.Second, time.Second, "stats", "counters", "timers", "gauges", "sets", "", "tags", gostatsd.TimerSubtypes{}, logger)
			be, err, runner = g, e, g
		} else {
			addr := sock.addr
			if bi.Mode == "stall" {
				addr = "127.0.0.1:70000" // invalid port: every dial fails at once, the sender never drains
			}
			s, e := statsdaemon.NewClient(addr, time.Second, time.Second, false, network == "tcp", nil, logger)
			be, err, runner = s, e, s
		}
		if err == nil {
			runDone = make(chan struct{})
			go func() {
				defer close(runDone)
				if m := hlib.Recover(func() { runner.Run(runCtx) }); m != "" {
					fr.monitor("backend Run panicked: " + m)
				}
			}()
		}
	default:
		err = errors.New("unknown backend " + bi.Backend)
	}
	if err != nil {
		return fail(err)
	}

	names := append([]string{bi.Backend}, bi.Extra...)
	var wrapped []gostatsd.Backend
	for i, n := range names {
		inner := be
		if i > 0 {
			if n == "stdout" {
				inner, _ = stdout.NewClient(gostatsd.TimerSubtypes{})
			} else {
				inner, _ = null.NewClient()
			}
		}
		wrapped = append(wrapped, &wrapBackend{inner: inner, name: n, idx: i, k: len(names), fr: fr})
	}
	proc := &fakeProc{fr: fr}
	flusher := statsd.NewMetricFlusher(time.Second, 0, false, proc, wrapped)

	nFirst := max(1, bi.Repeat)
	// one flushData call; returns false if it did not come back
	flushOnce := func(f int, cancelMode string) bool {
		fr.mu.Lock()
		fr.flush, fr.issued = f, 0
		fr.base = map[*gostatsd.MetricMap]int{}
		fr.aggOf = map[*gostatsd.MetricMap]int{}
		proc.maps = nil
		for a, n := range bi.Aggs {
			var bad []int
			if f < nFirst && a < len(bi.Bad) {
				bad = bi.Bad[a]
			}
			mm := makeMap(f, a, n, bad)
			if bi.Mode == "stall" {
				// one timer with n values: lines "t:1.000000|ms\n" of 14 bytes, 105 per 1472-byte datagram;
				// 105*1000 < n <= 105*1001 values fill the stream's 1000 slots inside the loop and leave
				// the trailing packet for the final hand-over
				vs := make([]float64, n)
				for i := range vs {
					vs[i] = 1
				}
				mm = gostatsd.NewMetricMap(false)
				mm.Timers["t"] = map[string]gostatsd.Timer{"": gostatsd.NewTimerValues(vs)}
			}
			fr.aggOf[mm] = a
			proc.maps = append(proc.maps, mm)
		}
		fr.mu.Unlock()
		base := time.Unix(1700000000, 0)
		mock := clock.NewMock(base)
		ts.mu.Lock()
		ts.now = func() int64 { return int64(mock.Now().Sub(base)) }
		ts.mu.Unlock()
		ctx, cancel := context.WithCancel(clock.Context(context.Background(), mock))
		defer cancel()
		if cancelMode == "before" {
			cancel()
		}
		done := make(chan struct{})
		go func() {
			defer close(done)
			if m := hlib.Recover(func() { flusher.VerifC16FlushData(ctx, time.Second) }); m != "" {
				fr.monitor("flushData panicked: " + m)
			}
		}()
		t0 := time.Now()
		cancelled := false
		tick := time.NewTicker(200 * time.Microsecond)
		defer tick.Stop()
		for {
			select {
			case <-done:
				fr.label("FWaitReturns", "returned")
				if cancelMode == "after" {
					cancel()
					time.Sleep(2 * time.Millisecond)
				}
				return true
			case <-tick.C:
			}
			// retry windows and back-off timers run on this clock
			if len(bi.Script) > 0 {
				// loop cases: time moves only when the (single) post loop sleeps, and then exactly to the
				// end of the sleep: the clock readings at the attempts determine sleeps and elapsed time
				if mock.Len() > 0 {
					mock.AddNext()
				}
			} else {
				mock.Add(time.Second)
			}
			el := time.Since(t0)
			if cancelMode == "during" && !cancelled &&
				(ts.heldCount() > 0 || (!isHTTP(bi.Backend) && bi.Backend != "cloudwatch" && el > 3*time.Millisecond) || el > 40*time.Millisecond) {
				cancelled = true
				cancel()
			}
			if cancelMode == "stall" && !cancelled && el > 400*time.Millisecond {
				// by now the producer has filled the stream's queue and is blocked in its last hand-over
				cancelled = true
				cancel()
			}
			if cancelMode == "recover" && !cancelled && el > 100*time.Millisecond {
				cancelled = true // (not a cancellation: the listener comes back)
				if e := sock.up(); e != nil {
					fr.monitor("harness could not re-open the listener: " + e.Error())
				}
			}
			if el > deadline {
				fr.monitor(fmt.Sprintf("flushData (flush %d, cancel %s) did not return within %v: a request never called back (max-request-elapsed-time %v on the mock clock)", f, cancelMode, deadline, effWindow))
				return false
			}
		}
	}

	first := bi.Cancel
	if first == "during" && (isHTTP(bi.Backend) || bi.Backend == "cloudwatch") {
		ts.setMode("hold")
	}
	if isSocket(bi.Backend) && bi.Mode == "recover" {
		first = "recover"
	}
	if bi.Mode == "stall" {
		first = "stall"
	}
	anon := make([]int, nFirst+1)
	ok := true
	heldFirst := 0
	for f := 0; f < nFirst && ok; f++ {
		if f > 0 {
			fr.label("FNextFlush", "next")
		}
		ok = flushOnce(f, first)
		if f == 0 {
			heldFirst = ts.heldCount()
			close(ts.release)
		}
		anon[f] = ts.takeAnon()
	}
	if ok && bi.Mode != "stall" {
		// a failed flush must not prevent the next one: healthy transport, fresh context
		ts.setMode("ok")
		if sock != nil {
			sock.mu.Lock()
			sock.closeOn = false
			sock.mu.Unlock()
			if e := sock.up(); e != nil {
				fr.monitor("harness could not re-open the listener: " + e.Error())
			}
		}
		fr.label("FNextFlush", "next")
		flushOnce(nFirst, "never")
		anon[nFirst] = ts.takeAnon()
	}
	cancelRun()
	if runDone != nil {
		select {
		case <-runDone:
		case <-time.After(3 * time.Second):
			fr.monitor("backend Run did not return within 3 s of its context being cancelled")
		}
	}
	if srv != nil {
		srv.CloseClientConnections()
		srv.Close()
	}
	if sock != nil {
		sock.down()
	}
	time.Sleep(time.Millisecond) // late (second) callbacks of a broken backend show up in the trace

	// ---- per request: what was observed, what is expected
	fr.mu.Lock()
	defer fr.mu.Unlock()
	var reqs, obs []string
	seen := func(f, a int) int { n, _ := ts.counts(f, a); return n }
	for _, rq := range fr.reqs {
		kind := "KNull"
		n, fails := 0, 0
		cancelledReq := rq.flush < nFirst && (bi.Cancel == "before" || bi.Cancel == "during" || bi.Mode == "stall") && rq.bidx == 0
		expect := "None"
		lenient := false
		var cbsCoq []string
		for _, es := range rq.cbs {
			cbsCoq = append(cbsCoq, hlib.List(es))
		}
		hasErr := false
		if len(rq.cbs) > 0 {
			for _, e := range rq.cbs[0] {
				if e != "ENil" {
					hasErr = true
				}
			}
		}
		if len(rq.cbs) != 1 {
			fr.mons = append(fr.mons, fmt.Sprintf("request (flush %d, aggregator %d, backend %s) received %d callbacks", rq.flush, rq.agg, rq.backend, len(rq.cbs)))
		}
		switch {
		case rq.backend == "stdout":
			kind = "KStdout"
		case rq.backend == "null":
			kind = "KNull"
		case rq.backend == "datadog" || rq.backend == "influxdb" || rq.backend == "newrelic":
			kind = "KCollector"
			n, fails = ts.counts(rq.flush, rq.agg)
			if cancelledReq {
				n, fails = bi.Aggs[rq.agg], 0 // upper bound of the batches created
			}
		case rq.backend == "otlp":
			kind = "KOtlp"
			n, fails = ts.counts(rq.flush, rq.agg)
			if anon[rq.flush] > 0 {
				// an empty trailing batch was refused at least once, whose we cannot tell: unconstrained
				lenient = true
			}
		case rq.backend == "cloudwatch":
			kind = "KCloudwatch"
			n, fails = ts.counts(rq.flush, rq.agg)
		default:
			kind = "KSocket"
			switch {
			case bi.Mode == "stall":
				if rq.flush < nFirst {
					expect = "(Some true)" // cancelled while disconnected
				}
			case rq.backend == "statsd-udp":
				// a connected UDP socket reports a missing peer on a later write, if at all
			case rq.flush == nFirst && bi.Mode != "acceptclose":
				expect = "(Some false)" // the transport is healthy (again)
			case rq.flush == nFirst:
			case bi.Mode == "down":
				expect = "(Some true)" // never connected: cancelled while disconnected, or refused up front
			case (bi.Mode == "up" || bi.Mode == "recover") && !cancelledReq:
				expect = "(Some false)"
			}
		}
		// error present when delivery failed (the cancelled requests are not compared in Coq)
		if len(rq.cbs) == 1 && cancelledReq && !hasErr {
			switch {
			case bi.Cancel == "before" && (rq.backend == "datadog" || rq.backend == "newrelic") && bi.Aggs[rq.agg] > 0,
				bi.Cancel == "before" && rq.backend == "otlp",
				// (influxdb creates its batches while it holds a request buffer: a request that was still
				// waiting for one when the context was cancelled has created none and owes no error)
				bi.Cancel == "during" && heldFirst > 0 && (isHTTP(rq.backend) || rq.backend == "cloudwatch") && bi.Aggs[rq.agg] > 0 &&
					(rq.backend != "influxdb" || seen(rq.flush, rq.agg) > 0):
				fr.mons = append(fr.mons, fmt.Sprintf("request (flush %d, aggregator %d, backend %s) was cancelled (%s) with batches outstanding but its callback carries no error", rq.flush, rq.agg, rq.backend, bi.Cancel))
			}
		}
		reqs = append(reqs, hlib.App("RO", kind, hlib.Nat(n), hlib.Nat(fails), hlib.Bool(cancelledReq || lenient), expect, hlib.List(cbsCoq)))
		obs = append(obs, fmt.Sprintf("f%d a%d %s n=%d fails=%d cbs=%v", rq.flush, rq.agg, rq.backend, n, fails, rq.raw))
	}
	// ---- post loops: single-batch, never cancelled requests of the scripted flush
	var loops []string
	if len(bi.Script) > 0 && isHTTP(bi.Backend) && bi.Cancel != "before" && bi.Cancel != "during" {
		for _, rq := range fr.reqs {
			if rq.flush != 0 || rq.bidx != 0 || len(rq.cbs) != 1 || (len(rq.cbs[0]) != 1 && rq.backend != "otlp") {
				continue
			}
			res := "ENil" // otlp hands over an empty list on success, the components of the error otherwise
			if len(rq.cbs[0]) >= 1 {
				res = rq.cbs[0][0]
			}
			if len(ts.logs(0, rq.agg)) > 1 {
				continue
			}
			ts.mu.Lock()
			acts, tms := append([]string(nil), ts.rtActs...), append([]int64(nil), ts.rtTimes...)
			ts.mu.Unlock()
			var answers, times []string
			for j, act := range acts {
				switch {
				case act == "ok":
					answers = append(answers, "A2xx")
				case act == "partial":
					answers = append(answers, "APartial")
				case act == "429":
					answers = append(answers, "(A429 None)")
				case strings.HasPrefix(act, "429:"):
					k, _ := strconv.Atoi(act[4:])
					answers = append(answers, hlib.App("A429", hlib.Option(hlib.Z(int64(k)*int64(time.Second)), true)))
				default:
					answers = append(answers, "ABad")
				}
				times = append(times, hlib.Z(tms[j]))
			}
			var b string
			switch rq.backend {
			case "datadog":
				b = "Datadog"
			case "influxdb":
				b = "Influxdb"
			case "newrelic":
				b = hlib.App("Newrelic", "true", hlib.Z(int64(effWindow)))
			case "otlp":
				b = hlib.App("Otlp", hlib.Nat(3))
			}
			loops = append(loops, hlib.App("LO", b, hlib.Z(int64(effWindow)), hlib.List(answers), hlib.List(times), res))
			obs = append(obs, fmt.Sprintf("loop %s window=%v attempts=%v at=%v result=%v", rq.backend, effWindow, acts, tms, rq.raw[0]))
			if len(acts) >= 64 {
				fr.mons = append(fr.mons, fmt.Sprintf("%s: more than 64 attempts for one batch within a retry window of %v", rq.backend, effWindow))
			}
		}
	}
	c.Coq = hlib.App("BackendFlush", hlib.List(reqs), hlib.List(fr.trace), hlib.List(loops))
	c.Obs = map[string]interface{}{"requests": obs, "trace": strings.Join(fr.human, " ")}
	c.Monitors = append(c.Monitors, fr.mons...)
	total := 0
	for _, n := range bi.Aggs {
		total += n
	}
	c.Nontrivial = total > 0 && (bi.Cancel != "never" || (bi.Mode != "ok" && bi.Mode != "up"))
	if len(bi.Script) > 0 {
		c.Class = fmt.Sprintf("backend/%s/loop/%s", bi.Backend, bi.Cancel)
		c.Nontrivial = len(bi.Script) > 1 || bi.Script[0] != "ok"
	} else if bi.Window != 0 && isHTTP(bi.Backend) && strings.HasPrefix(bi.Mode, "all") {
		wk := map[bool]string{true: "short"}[bi.Window > 0] + map[int]string{-1: "disabled", -2: "default"}[bi.Window]
		c.Class = fmt.Sprintf("backend/%s/%s-window-%s/%s", bi.Backend, bi.Mode, wk, bi.Cancel)
	} else if bi.Repeat > 1 {
		c.Class = fmt.Sprintf("backend/%s/%s/cancelled-many", bi.Backend, bi.Mode)
	}
	return c
}

func mustJSON(v interface{}) string {
	b, _ := json.Marshal(v)
	return string(b)
}

// ---------------------------------------------------------------------------------------------
// generator

var backendNames = []string{"datadog", "influxdb", "newrelic", "otlp", "cloudwatch", "graphite", "statsd-tcp", "statsd-udp", "stdout", "null"}

var retrying = []string{"newrelic", "datadog", "influxdb", "otlp"}
var persistent = []string{"all429", "all500", "allreset"}

var windowKinds = []int{-1, 1, -2} // retries disabled | a short window (1..3 s) | option not set (15 s)
var sockets = []string{"statsd-tcp", "statsd-udp", "graphite"}

func genBackend(r *hlib.Rand, k int) *backendIn {
	nb, nm, nw := len(retrying), len(persistent), len(windowKinds)
	if k < nb*nm*nw {
		// every run: each retrying HTTP backend, built through its NewClientFromViper, x a fault that
		// never ends (always 429 + Retry-After shorter / longer than the window, always 5xx, always a
		// connection error) x max-request-elapsed-time {-1 = retries disabled: the first failure is
		// final; 1..3 s; not set}: the loop must end and the request call back once, with an error
		in := &backendIn{Backend: retrying[k%nb], Mode: persistent[(k/nb)%nm], Window: windowKinds[(k/(nb*nm))%nw],
			MaxReq: 1 + r.Intn(3), RetryAfter: hlib.Pick(r, []int{1, 1, 2, 5, 100}), Cancel: hlib.Pick(r, []string{"never", "never", "after"})}
		if in.Window == 1 {
			in.Window = 1 + r.Intn(3)
		}
		if r.Bool() {
			in.Extra = []string{"null"}
		}
		for a, naggs := 0, 1+r.Intn(2); a < naggs; a++ {
			in.Aggs = append(in.Aggs, 1+r.Intn(3))
			in.Bad = append(in.Bad, nil)
		}
		return in
	}
	k -= nb * nm * nw
	if k < 48 {
		// post loops: one batch against a per-attempt answer script; the last answer repeats
		in := &backendIn{Backend: retrying[k%nb], Mode: "script", MaxReq: 1 + r.Intn(2),
			Window: hlib.Pick(r, []int{1, 2, 3, 4, 2, 3, -1, -2}),
			Cancel: hlib.Pick(r, []string{"never", "never", "never", "after"}), Aggs: []int{1}, Bad: [][]int{nil}}
		acts := []string{"500", "500", "400", "reset", "429", "429:1", "429:2", "429:5", "429:0"}
		for j, n := 0, r.Intn(5); j < n; j++ {
			in.Script = append(in.Script, hlib.Pick(r, acts))
		}
		last := hlib.Pick(r, []string{"ok", "ok", "ok", "partial", "500", "reset", "429:1", "429:3", "429"})
		in.Script = append(in.Script, last)
		if r.Chance(1, 3) {
			in.Extra = []string{"null"}
		}
		return in
	}
	k -= 48
	if k < 9 {
		// socket backends: many small flushes whose context is already done (shutdown racing the flush):
		// every select that has a ctx.Done() arm - in SendMetricsAsync and in each hand-over of a
		// packet to the sender - takes either arm
		in := &backendIn{Backend: sockets[k%3], Mode: []string{"up", "down", "up"}[(k/3)%3], Cancel: "before", Repeat: 25 + r.Intn(15), MaxReq: 1}
		for a, naggs := 0, 1+r.Intn(2); a < naggs; a++ {
			in.Aggs = append(in.Aggs, 1+r.Intn(3))
			in.Bad = append(in.Bad, nil)
		}
		if k >= 6 {
			in.Extra = []string{"null"}
		}
		return in
	}
	k -= 9
	if k < 1 {
		// statsdaemon over UDP whose sender never connects (and so never drains the stream) and a flush
		// that fills the stream's 1000 packet slots exactly: the producer blocks in its LAST hand-over,
		// the flush context ends while it is blocked there
		return &backendIn{Backend: "statsd-udp", Mode: "stall", Cancel: "never", MaxReq: 1, Aggs: []int{105*1000 + 1 + r.Intn(105)}, Bad: [][]int{nil}}
	}
	k -= 1
	in := &backendIn{Backend: backendNames[k%len(backendNames)], MaxReq: 1 + r.Intn(4)}
	naggs := hlib.Pick(r, []int{1, 1, 2, 3})
	many := 5
	if in.Backend == "cloudwatch" {
		many = 45 // 20 datums per PutMetricData call
	}
	for a := 0; a < naggs; a++ {
		n := hlib.Pick(r, []int{0, 1, 2 + r.Intn(many)})
		in.Aggs = append(in.Aggs, n)
		var bad []int
		for j := 0; j < n; j++ {
			if r.Chance(1, 3) {
				bad = append(bad, j)
			}
		}
		in.Bad = append(in.Bad, bad)
	}
	switch {
	case isHTTP(in.Backend) || in.Backend == "cloudwatch":
		in.Mode = hlib.Pick(r, []string{"ok", "bad500", "bad500", "bad400", "bad429", "badreset", "flaky", "all500", "all429", "allreset"})
		in.RetryAfter = hlib.Pick(r, []int{1, 1, 3, 100})
		if r.Chance(1, 3) {
			in.Window = 1 + r.Intn(5)
		}
		in.Cancel = hlib.Pick(r, []string{"never", "never", "never", "before", "during", "after"})
	case isSocket(in.Backend):
		in.Mode = hlib.Pick(r, []string{"up", "up", "down", "acceptclose", "recover"})
		switch in.Mode {
		case "down":
			in.Cancel = hlib.Pick(r, []string{"before", "during"})
		case "recover":
			in.Cancel = "never"
		default:
			in.Cancel = hlib.Pick(r, []string{"never", "never", "before", "during", "after"})
		}
	default:
		in.Mode = "ok"
		in.Cancel = hlib.Pick(r, []string{"never", "before", "after"})
	}
	switch r.Intn(4) {
	case 0:
		in.Extra = []string{"null"}
	case 1:
		in.Extra = []string{"stdout", "null"}
	}
	return in
}
