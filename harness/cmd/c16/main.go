// C16: each backend flush request completes exactly once under any transport fault.
//
// Two kinds of cases:
//
//	sender   the real sender.Sender goroutine against a scripted ConnFactory / fake net.Conn (per
//	         connect ok / fail, per write ok / error), streams with 0, 1, many buffers, stream
//	         cancellation at scripted points, shutdown at the end.  The observable trace (submissions,
//	         cancellations, connects, writes, callbacks with their error kinds, return of Run) is
//	         decided by Coq: it must be a run of the LTS of Model/Sender.v (subset construction over the
//	         unobservable steps).  Monitors: callbacks per stream == 1, Run returns, no panic.
//	backend  the real MetricFlusher.flushData over a real backend (datadog, influxdb, newrelic, otlp
//	         behind a scripted httptest server; cloudwatch behind a fake API client; graphite and
//	         statsdaemon tcp / udp against local listeners; stdout; null) x batch counts {0, 1, many} x
//	         cancellation {never, before, during, after}, then a second flush with a healthy transport.
//	         Coq compares every request's callback arguments with Model/Collector.v and replays the
//	         recorded FSendAll / FCallback / FProcessDone / FWaitReturns trace on the flusher LTS.
//	         Monitors: exactly one callback per request, error present when delivery failed, no panic,
//	         the flush returns, and the next flush works.
package main

import (
	"encoding/json"
	"fmt"
	"io"
	"os"
	"sync"

	"github.com/sirupsen/logrus"

	"verifharness/hlib"
)

type input struct {
	Kind    string     `json:"kind"` // sender | backend
	Sender  *senderIn  `json:"sender,omitempty"`
	Backend *backendIn `json:"backend,omitempty"`
}

func runInput(in input) hlib.Case {
	if in.Kind == "sender" && in.Sender != nil {
		return runSender(in)
	}
	if in.Kind == "backend" && in.Backend != nil {
		return runBackend(in)
	}
	return hlib.Case{Input: in, Monitors: []string{"bad input"}, Class: "bad"}
}

// runAll executes the cases with bounded parallelism per kind (sender cases mostly sleep on the
// sender's fixed 1 s reconnect timer) and returns the results in input order.
func runAll(ins []input) []hlib.Case {
	out := make([]hlib.Case, len(ins))
	var wg sync.WaitGroup
	semS := make(chan struct{}, 32)
	semB := make(chan struct{}, 6)
	for i := range ins {
		sem := semS
		if ins[i].Kind == "backend" {
			sem = semB
		}
		wg.Add(1)
		go func(i int) {
			defer wg.Done()
			sem <- struct{}{}
			defer func() { <-sem }()
			out[i] = runInput(ins[i])
		}(i)
	}
	wg.Wait()
	return out
}

func main() {
	logrus.SetOutput(io.Discard)
	a := hlib.ParseArgs()
	em := hlib.NewEmitter()
	defer em.Close()
	var ins []input
	switch a.Mode {
	case "gen":
		r := hlib.NewRand(a.Seed)
		for i := 0; i < a.N; i++ {
			cr := r.Fork()
			if i%5 == 1 || i%5 == 3 {
				// the first backend cases of a run enumerate fixed matrices (see genBackend)
				ins = append(ins, input{Kind: "backend", Backend: genBackend(cr, 2*(i/5)+i%5/3)})
			} else {
				ins = append(ins, input{Kind: "sender", Sender: genSender(cr)})
			}
		}
	case "run":
		for _, raw := range a.Inputs {
			var in input
			if err := json.Unmarshal(raw, &in); err != nil {
				fmt.Fprintln(os.Stderr, "bad input:", err)
				os.Exit(2)
			}
			ins = append(ins, in)
		}
	}
	for _, c := range runAll(ins) {
		em.Emit(c)
	}
}
