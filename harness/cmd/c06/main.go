// C06: shard routing is a deterministic partition of series.  Runs the real FormatTagsKey,
// Bucket, MetricMap.Split and BackendHandler.DispatchMetricMap (real workers, recording
// aggregators) and prints what they returned next to the inputs.
package main

import (
	"context"
	"encoding/json"
	"fmt"
	"os"
	"runtime"
	"sort"
	"strings"
	"sync"
	"sync/atomic"
	"time"

	"github.com/atlassian/gostatsd"
	"github.com/atlassian/gostatsd/pkg/statsd"

	"verifharness/hlib"
	"verifharness/mmgen"
)

type input struct {
	Kind    string     `json:"kind"` // key | bucket | split | splitseq | dispatch | tagged | conc
	Src     string     `json:"src,omitempty"`
	Tags    []string   `json:"tags,omitempty"`
	Name    []int      `json:"name,omitempty"`
	Key     []int      `json:"key,omitempty"`
	N       int        `json:"n,omitempty"`
	Dps     []mmgen.Dp `json:"dps,omitempty"`
	Batches int        `json:"batches,omitempty"` // dispatch: datapoint j belongs to batch j % Batches
	// dispatch under back-pressure: every worker's queue holds Q maps, the workers listed in Slow
	// are paused (their aggregator blocks in ReceiveMap until the harness releases it, so their
	// queues fill up and DispatchMetricMap meets full queues), Conc = the batches are dispatched
	// by concurrent goroutines instead of back to back.
	Pressure bool  `json:"pressure,omitempty"`
	Q        int   `json:"q,omitempty"`
	Slow     []int `json:"slow,omitempty"`
	Conc     bool  `json:"conc,omitempty"`
	// Cancel: batches (indices) whose DispatchMetricMap runs under a context that is cancelled
	// once the dispatchers have stalled on full queues (such a batch may be delivered partly).
	// After: the last After batches are dispatched with a live context after the paused workers
	// were released and everything else has returned.
	Cancel []int `json:"cancel,omitempty"`
	After  int   `json:"after,omitempty"`
	// splitseq: shard count of each round (datapoint j belongs to round j % len(Ns)); Hold keeps
	// the results of earlier rounds referenced and re-reads them at the end.
	Ns   []int `json:"ns,omitempty"`
	Hold bool  `json:"hold,omitempty"`
	// conc: G goroutines (datapoint j belongs to goroutine j % G) each call Split(N) on their own
	// batch Reps times at the same time; with Disp they then also call DispatchMetricMap on one
	// shared handler Reps/4 times each
	G    int  `json:"g,omitempty"`
	Reps int  `json:"reps,omitempty"`
	Disp bool `json:"disp,omitempty"`
	// tagged: a real TagHandler (static tags, optional drop-tag / drop-host filter) in front of
	// the BackendHandler; batches as for dispatch
	Static   []string `json:"static,omitempty"`
	DropTags []string `json:"droptags,omitempty"`
	DropHost bool     `json:"drophost,omitempty"`
}

func bs(a []int) string {
	b := make([]byte, len(a))
	for i, x := range a {
		b[i] = byte(x)
	}
	return string(b)
}

// seriesOf lists the (name, tags key) pairs of a map, all four types.
func seriesOf(mm *gostatsd.MetricMap, f func(n, k string)) {
	mm.Counters.Each(func(n, k string, _ gostatsd.Counter) { f(n, k) })
	mm.Gauges.Each(func(n, k string, _ gostatsd.Gauge) { f(n, k) })
	mm.Timers.Each(func(n, k string, _ gostatsd.Timer) { f(n, k) })
	mm.Sets.Each(func(n, k string, _ gostatsd.Set) { f(n, k) })
}

// fingerprint lists, per shard, which series (type, name, key) it holds: cheap enough to take
// after every one of the repeated concurrent calls.
func fingerprintOne(mm *gostatsd.MetricMap) string {
	var l []string
	mm.Counters.Each(func(n, k string, _ gostatsd.Counter) { l = append(l, "c"+n+"\x00"+k) })
	mm.Gauges.Each(func(n, k string, _ gostatsd.Gauge) { l = append(l, "g"+n+"\x00"+k) })
	mm.Timers.Each(func(n, k string, _ gostatsd.Timer) { l = append(l, "t"+n+"\x00"+k) })
	mm.Sets.Each(func(n, k string, _ gostatsd.Set) { l = append(l, "s"+n+"\x00"+k) })
	sort.Strings(l)
	return strings.Join(l, "\x01")
}
func fingerprint(shards []*gostatsd.MetricMap) string {
	p := make([]string, len(shards))
	for i, s := range shards {
		p[i] = fingerprintOne(s)
	}
	return strings.Join(p, "\x02")
}

// fpAggr checks every map its worker hands it against the shards that may arrive there.
type fpAggr struct {
	id    int
	allow map[string]bool // fingerprints of the non-empty shards [id] of the batches
	mu    *sync.Mutex
	count *int
	bad   *[]string
}

func (a *fpAggr) ReceiveMap(mm *gostatsd.MetricMap) {
	fp := fingerprintOne(mm)
	a.mu.Lock()
	*a.count++
	if !a.allow[fp] && len(*a.bad) < 3 {
		*a.bad = append(*a.bad, fmt.Sprintf("worker %d received a map that is not shard %d of any batch: %q", a.id, a.id, fp))
	}
	a.mu.Unlock()
}
func (a *fpAggr) Flush(time.Duration)        {}
func (a *fpAggr) Process(statsd.ProcessFunc) {}
func (a *fpAggr) Reset()                     {}

// recAggr is an Aggregator that records the maps its worker hands it.  A paused aggregator
// blocks in ReceiveMap until its gate is closed: its worker stops taking maps from its queue.
type recAggr struct {
	id   int
	mu   *sync.Mutex
	got  [][]*gostatsd.MetricMap // shared, indexed by aggregator id
	gate chan struct{}           // nil = never paused
	seen *int64                  // shared: number of ReceiveMap calls entered so far
}

func (a *recAggr) ReceiveMap(mm *gostatsd.MetricMap) {
	atomic.AddInt64(a.seen, 1)
	if a.gate != nil {
		<-a.gate
	}
	a.mu.Lock()
	a.got[a.id] = append(a.got[a.id], mm)
	a.mu.Unlock()
}
func (a *recAggr) Flush(time.Duration)        {}
func (a *recAggr) Process(statsd.ProcessFunc) {}
func (a *recAggr) Reset()                     {}

// dispatch pushes the batches through a real BackendHandler with n running workers and returns,
// per worker, the maps its aggregator received.  With in.Pressure the queues are short and some
// workers are paused while the batches are dispatched; they are released once the dispatchers
// have stalled (or finished), and a watchdog reports a dispatch that never completes.
func dispatch(batches []*gostatsd.MetricMap, in input, mon *[]string) [][]*gostatsd.MetricMap {
	n := in.N
	var mu sync.Mutex
	got := make([][]*gostatsd.MetricMap, n)
	qsize := len(batches) + 1
	gates := map[int]chan struct{}{}
	if in.Pressure {
		qsize = in.Q
		for _, w := range in.Slow {
			if w >= 0 && w < n && gates[w] == nil {
				gates[w] = make(chan struct{})
			}
		}
	}
	next := 0
	var entered int64
	af := statsd.AggregatorFactoryFunc(func() statsd.Aggregator {
		a := &recAggr{id: next, mu: &mu, got: got, gate: gates[next], seen: &entered}
		next++
		return a
	})
	bh := statsd.NewBackendHandler(nil, 1, n, qsize, af)
	// what the batches are handed to: the BackendHandler itself or the tag stage in front of it
	var front interface {
		DispatchMetricMap(context.Context, *gostatsd.MetricMap)
	} = bh
	if in.Kind == "tagged" {
		var filters []statsd.Filter
		if len(in.DropTags) > 0 || in.DropHost {
			f := statsd.Filter{DropHost: in.DropHost}
			for _, p := range in.DropTags {
				f.DropTags = append(f.DropTags, gostatsd.NewStringMatch(p))
			}
			filters = append(filters, f)
		}
		front = statsd.NewTagHandler(bh, append(gostatsd.Tags(nil), in.Static...), filters)
	}
	ctx, cancel := context.WithCancel(context.Background())
	done := make(chan struct{})
	go func() { bh.Run(ctx); close(done) }()

	// phase A: the first batches, against the paused workers; phase B: the last in.After batches
	after := 0
	if in.Pressure && in.After > 0 && in.After < len(batches) {
		after = in.After
	}
	phaseA, phaseB := batches[:len(batches)-after], batches[len(batches)-after:]
	ctxs := make([]context.Context, len(phaseA))
	var cancels []context.CancelFunc
	for i := range ctxs {
		ctxs[i] = context.Background()
	}
	if in.Pressure {
		for _, b := range in.Cancel {
			if b >= 0 && b < len(phaseA) && ctxs[b] == context.Background() {
				cctx, cf := context.WithCancel(context.Background())
				ctxs[b] = cctx
				cancels = append(cancels, cf)
			}
		}
	}
	cancelAll := func() {
		for _, cf := range cancels {
			cf()
		}
	}
	defer cancelAll()

	dispatched := make(chan struct{})
	if in.Pressure && in.Conc {
		var wg sync.WaitGroup
		for i, mm := range phaseA {
			i, mm := i, mm
			wg.Add(1)
			go func() { defer wg.Done(); front.DispatchMetricMap(ctxs[i], mm) }()
		}
		go func() { wg.Wait(); close(dispatched) }()
	} else {
		go func() {
			for i, mm := range phaseA {
				front.DispatchMetricMap(ctxs[i], mm)
			}
			close(dispatched)
		}()
	}
	// stalled = no worker has entered ReceiveMap during two consecutive milliseconds
	waitStall := func() {
		last, stable := int64(-1), 0
		for stable < 2 {
			select {
			case <-dispatched:
				return
			case <-time.After(time.Millisecond):
			}
			if cur := atomic.LoadInt64(&entered); cur == last {
				stable++
			} else {
				last, stable = cur, 0
			}
		}
	}
	// let the dispatchers run into the full queues, cancel the marked ones while they are blocked
	// there, let the rest run into the queues again, then release the paused workers
	if len(gates) > 0 {
		waitStall()
		if len(cancels) > 0 {
			cancelAll()
			waitStall()
		}
		for _, g := range gates {
			close(g)
		}
	} else {
		cancelAll()
	}
	timedOut := func() [][]*gostatsd.MetricMap {
		// leave the handler running: cancelling would close queues under a blocked sender
		*mon = append(*mon, "DispatchMetricMap did not return although every worker is running")
		_ = cancel
		mu.Lock()
		defer mu.Unlock()
		cp := make([][]*gostatsd.MetricMap, n)
		copy(cp, got)
		return cp
	}
	select {
	case <-dispatched:
	case <-time.After(20 * time.Second):
		return timedOut()
	}
	if len(phaseB) > 0 {
		doneB := make(chan struct{})
		go func() {
			for _, mm := range phaseB {
				front.DispatchMetricMap(context.Background(), mm)
			}
			close(doneB)
		}()
		select {
		case <-doneB:
		case <-time.After(20 * time.Second):
			return timedOut()
		}
	}
	// worker i must own the aggregator created i-th (the index flush reports are tagged with)
	wait := bh.Process(context.Background(), func(workerID int, a statsd.Aggregator) {
		if ra, ok := a.(*recAggr); !ok || ra.id != workerID {
			mu.Lock()
			*mon = append(*mon, fmt.Sprintf("worker %d owns aggregator %v", workerID, a))
			mu.Unlock()
		}
	})
	wait()
	cancel()
	select {
	case <-done:
	case <-time.After(20 * time.Second):
		*mon = append(*mon, "BackendHandler.Run did not stop")
	}
	mu.Lock()
	defer mu.Unlock()
	return got
}

func runOne(em *hlib.Emitter, in input) {
	c := hlib.Case{Input: in, Class: in.Kind}
	switch in.Kind {
	case "key":
		tags := append(gostatsd.Tags(nil), in.Tags...)
		k := gostatsd.FormatTagsKey(gostatsd.Source(in.Src), tags)
		// the key must not depend on the order the tags were written in
		rev := make(gostatsd.Tags, len(in.Tags))
		for i, t := range in.Tags {
			rev[len(in.Tags)-1-i] = t
		}
		if k2 := gostatsd.FormatTagsKey(gostatsd.Source(in.Src), rev); k2 != k {
			c.Monitors = append(c.Monitors, fmt.Sprintf("tags key depends on tag order: %q vs %q", k, k2))
		}
		c.Obs = k
		c.Coq = hlib.App("KeyCase", hlib.Bytes(in.Src), hlib.StrList(in.Tags), hlib.Bytes(k))
		c.Nontrivial = len(in.Tags) >= 2
	case "bucket":
		var b int
		msg := hlib.Recover(func() { b = gostatsd.Bucket(bs(in.Name), bs(in.Key), in.N) })
		if msg != "" {
			c.Monitors = append(c.Monitors, "Bucket panicked: "+msg)
		}
		if b < 0 || b >= in.N {
			c.Monitors = append(c.Monitors, fmt.Sprintf("Bucket returned %d outside [0,%d)", b, in.N))
		}
		c.Obs = b
		c.Coq = hlib.App("BucketCase", hlib.Bytes(bs(in.Name)), hlib.Bytes(bs(in.Key)), hlib.N(uint64(in.N)), hlib.N(uint64(b)))
		c.Nontrivial = in.N > 1
	case "split":
		mm := mmgen.Build(in.Dps)
		whole := mmgen.Entries(mm)
		total := mmgen.Size(mm)
		var shards []*gostatsd.MetricMap
		msg := hlib.Recover(func() { shards = mm.Split(in.N) })
		if msg != "" {
			c.Monitors = append(c.Monitors, "Split panicked: "+msg)
			break
		}
		if len(shards) != in.N {
			c.Monitors = append(c.Monitors, fmt.Sprintf("Split(%d) returned %d maps", in.N, len(shards)))
		}
		if after := mmgen.Entries(mm); after != whole {
			c.Monitors = append(c.Monitors, "Split changed the batch it was called on")
		}
		sum := 0
		var el []string
		for i, s := range shards {
			i := i
			sum += mmgen.Size(s)
			el = append(el, mmgen.Entries(s))
			// monitor independent of the model: every series of shard i hashes to i
			seriesOf(s, func(n, k string) {
				if b := gostatsd.Bucket(n, k, in.N); b != i {
					c.Monitors = append(c.Monitors, fmt.Sprintf("series %q/%q in shard %d but Bucket says %d", n, k, i, b))
				}
			})
		}
		if sum != total {
			c.Monitors = append(c.Monitors, fmt.Sprintf("shards hold %d series, the batch %d", sum, total))
		}
		// the shards merged back are the batch
		if len(shards) > 0 {
			back := gostatsd.MergeMaps(shards)
			if mmgen.Entries(back) != whole {
				c.Monitors = append(c.Monitors, "MergeMaps(Split(batch)) differs from the batch")
			}
		}
		c.Obs = map[string]int{"series": total, "shards": in.N}
		dps := make([]string, len(in.Dps))
		for i, d := range in.Dps {
			dps[i] = d.Coq()
		}
		c.Coq = hlib.App("SplitCase", hlib.List(dps), hlib.Nat(in.N), whole, hlib.List(el))
		c.Nontrivial = total >= 2 && in.N >= 2
	case "splitseq":
		// Split called repeatedly in one process: state kept between calls (pools, scratch
		// buffers) must not leak from one result into another
		nr := len(in.Ns)
		if nr == 0 {
			break
		}
		per := make([][]mmgen.Dp, nr)
		for j, d := range in.Dps {
			per[j%nr] = append(per[j%nr], d)
		}
		type held struct {
			shards []*gostatsd.MetricMap
			dumps  []string
		}
		var keep []held
		rounds := make([]string, nr)
		series := 0
		for b := range per {
			mm := mmgen.Build(per[b])
			series += mmgen.Size(mm)
			var shards []*gostatsd.MetricMap
			if msg := hlib.Recover(func() { shards = mm.Split(in.Ns[b]) }); msg != "" {
				c.Monitors = append(c.Monitors, "Split panicked: "+msg)
				break
			}
			el := make([]string, len(shards))
			for i, s := range shards {
				el[i] = mmgen.Entries(s)
			}
			if in.Hold {
				keep = append(keep, held{shards, el})
			}
			dps := make([]string, len(per[b]))
			for i, d := range per[b] {
				dps[i] = d.Coq()
			}
			rounds[b] = hlib.Pair(hlib.Pair(hlib.List(dps), hlib.Nat(in.Ns[b])), hlib.List(el))
		}
		if len(c.Monitors) > 0 {
			break
		}
		for r, h := range keep {
			for i, s := range h.shards {
				if mmgen.Entries(s) != h.dumps[i] {
					c.Monitors = append(c.Monitors, fmt.Sprintf("shard %d returned by Split call %d was changed by a later Split", i, r))
				}
			}
		}
		c.Obs = map[string]int{"series": series, "rounds": nr}
		c.Coq = hlib.App("SplitSeqCase", hlib.List(rounds))
		c.Nontrivial = series >= 2 && nr >= 2
	case "conc":
		g, reps := in.G, in.Reps
		if g < 1 {
			g = 1
		}
		if runtime.GOMAXPROCS(0) < 4 {
			runtime.GOMAXPROCS(4)
		}
		per := make([][]mmgen.Dp, g)
		for j, d := range in.Dps {
			per[j%g] = append(per[j%g], d)
		}
		maps := make([]*gostatsd.MetricMap, g)
		ref := make([][]*gostatsd.MetricMap, g) // sequential results: compared with the model
		refFP := make([]string, g)
		series := 0
		for b := range per {
			maps[b] = mmgen.Build(per[b])
			series += mmgen.Size(maps[b])
			if msg := hlib.Recover(func() { ref[b] = maps[b].Split(in.N) }); msg != "" {
				c.Monitors = append(c.Monitors, "Split panicked: "+msg)
			}
			refFP[b] = fingerprint(ref[b])
		}
		if len(c.Monitors) > 0 {
			break
		}
		// small batches (a shrunk replay) get more repetitions: about 30000 Bucket calls per goroutine
		biggest := 0
		for b := range maps {
			if sz := mmgen.Size(maps[b]); sz > biggest {
				biggest = sz
			}
		}
		if more := 30000 / (biggest + 1); more > reps {
			reps = more
		}
		// the same calls again, from g goroutines at the same time, reps times each
		var mu sync.Mutex
		differs := make([][]*gostatsd.MetricMap, g) // first concurrent result that is not the sequential one
		var wg sync.WaitGroup
		start := make(chan struct{})
		for b := 0; b < g; b++ {
			b := b
			wg.Add(1)
			go func() {
				defer wg.Done()
				defer func() {
					if x := recover(); x != nil {
						mu.Lock()
						c.Monitors = append(c.Monitors, fmt.Sprint("concurrent Split panicked: ", x))
						mu.Unlock()
					}
				}()
				<-start
				for k := 0; k < reps; k++ {
					sh := maps[b].Split(in.N)
					if fingerprint(sh) != refFP[b] {
						mu.Lock()
						if differs[b] == nil {
							differs[b] = sh
							c.Monitors = append(c.Monitors, fmt.Sprintf("Split of batch %d, run concurrently with other Splits (repetition %d), routed series differently from the same call run alone", b, k))
						}
						mu.Unlock()
						return
					}
				}
			}()
		}
		close(start)
		wg.Wait()
		if in.Disp && len(c.Monitors) == 0 {
			// g dispatchers on one handler at the same time
			count := 0
			var bad []string
			next := 0
			af := statsd.AggregatorFactoryFunc(func() statsd.Aggregator {
				a := &fpAggr{id: next, allow: map[string]bool{}, mu: &mu, count: &count, bad: &bad}
				for b := range ref {
					if next < len(ref[b]) && !ref[b][next].IsEmpty() {
						a.allow[fingerprintOne(ref[b][next])] = true
					}
				}
				next++
				return a
			})
			bh := statsd.NewBackendHandler(nil, 1, in.N, 4, af)
			ctx, cancel := context.WithCancel(context.Background())
			done := make(chan struct{})
			go func() { bh.Run(ctx); close(done) }()
			dreps := in.Reps/4 + 1
			want := 0
			for b := range ref {
				for _, s := range ref[b] {
					if !s.IsEmpty() {
						want += dreps
					}
				}
			}
			var dwg sync.WaitGroup
			for b := 0; b < g; b++ {
				b := b
				dwg.Add(1)
				go func() {
					defer dwg.Done()
					for k := 0; k < dreps; k++ {
						bh.DispatchMetricMap(context.Background(), maps[b])
					}
				}()
			}
			fin := make(chan struct{})
			go func() { dwg.Wait(); close(fin) }()
			select {
			case <-fin:
				cancel()
				<-done
			case <-time.After(30 * time.Second):
				c.Monitors = append(c.Monitors, "concurrent DispatchMetricMap calls did not return")
				_ = cancel
			}
			mu.Lock()
			c.Monitors = append(c.Monitors, bad...)
			if count != want && len(bad) == 0 {
				c.Monitors = append(c.Monitors, fmt.Sprintf("workers received %d maps from concurrent dispatchers, %d non-empty shards were due", count, want))
			}
			mu.Unlock()
		}
		rounds := make([]string, g)
		for b := range per {
			shown := ref[b]
			if differs[b] != nil {
				shown = differs[b]
			}
			el := make([]string, len(shown))
			for i, s := range shown {
				el[i] = mmgen.Entries(s)
			}
			dps := make([]string, len(per[b]))
			for i, d := range per[b] {
				dps[i] = d.Coq()
			}
			rounds[b] = hlib.Pair(hlib.Pair(hlib.List(dps), hlib.Nat(in.N)), hlib.List(el))
		}
		c.Obs = map[string]int{"series": series, "goroutines": g, "reps": reps}
		c.Coq = hlib.App("SplitSeqCase", hlib.List(rounds))
		c.Nontrivial = series >= 2 && g >= 2 && in.N >= 2
	case "tagged":
		nb := in.Batches
		if nb < 1 {
			nb = 1
		}
		per := make([][]mmgen.Dp, nb)
		for j, d := range in.Dps {
			per[j%nb] = append(per[j%nb], d)
		}
		maps := make([]*gostatsd.MetricMap, nb)
		for b := range per {
			maps[b] = mmgen.Build(per[b])
		}
		in2 := in
		in2.Cancel, in2.After = nil, 0
		var got [][]*gostatsd.MetricMap
		if msg := hlib.Recover(func() { got = dispatch(maps, in2, &c.Monitors) }); msg != "" {
			c.Monitors = append(c.Monitors, "tagged dispatch panicked: "+msg)
			break
		}
		// invariants every entry a worker received must satisfy, whatever the tag stage did:
		// it is stored under the tags key of ITS OWN tags and source, that key's bucket is the
		// worker, and one identity (name, tag set, source) has one key and one worker
		type ident struct{ name, tags, src string }
		type place struct {
			key string
			w   int
		}
		home := map[ident]place{}
		series := 0
		obs := make([]string, len(got))
		for w, ms := range got {
			w := w
			var dl []string
			chk := func(n, k string, src gostatsd.Source, tags gostatsd.Tags) {
				series++
				cp := append(gostatsd.Tags(nil), tags...)
				if want := gostatsd.FormatTagsKey(src, cp); want != k {
					c.Monitors = append(c.Monitors, fmt.Sprintf("series %q stored under key %q but its tags %q and source %q have key %q", n, k, []string(tags), src, want))
				}
				if b := gostatsd.Bucket(n, k, in.N); b != w {
					c.Monitors = append(c.Monitors, fmt.Sprintf("series %q/%q delivered to worker %d but Bucket says %d", n, k, w, b))
				}
				set := map[string]bool{}
				for _, t := range tags {
					set[t] = true
				}
				var ts []string
				for t := range set {
					ts = append(ts, t)
				}
				sort.Strings(ts)
				id := ident{n, fmt.Sprintf("%q", ts), string(src)}
				if h, ok := home[id]; ok && h != (place{k, w}) {
					c.Monitors = append(c.Monitors, fmt.Sprintf("series %q tags %v source %q is key %q at worker %d and key %q at worker %d", n, ts, src, h.key, h.w, k, w))
				}
				home[id] = place{k, w}
			}
			for _, m := range ms {
				dl = append(dl, mmgen.Entries(m))
				m.Counters.Each(func(n, k string, v gostatsd.Counter) { chk(n, k, v.Source, v.Tags) })
				m.Gauges.Each(func(n, k string, v gostatsd.Gauge) { chk(n, k, v.Source, v.Tags) })
				m.Timers.Each(func(n, k string, v gostatsd.Timer) { chk(n, k, v.Source, v.Tags) })
				m.Sets.Each(func(n, k string, v gostatsd.Set) { chk(n, k, v.Source, v.Tags) })
			}
			obs[w] = hlib.List(dl)
		}
		exact := len(in.DropTags) == 0 && !in.DropHost
		c.Obs = map[string]int{"series": series, "workers": in.N, "batches": nb}
		bl := make([]string, nb)
		for b := range per {
			dps := make([]string, len(per[b]))
			for i, d := range per[b] {
				dps[i] = d.Coq()
			}
			bl[b] = hlib.List(dps)
		}
		c.Coq = hlib.App("TaggedCase", hlib.List(bl), hlib.StrList(in.Static), hlib.Bool(exact), hlib.Nat(in.N), hlib.List(obs))
		c.Nontrivial = series >= 2 && in.N >= 2
	case "dispatch":
		nb := in.Batches
		if nb < 1 {
			nb = 1
		}
		per := make([][]mmgen.Dp, nb)
		for j, d := range in.Dps {
			per[j%nb] = append(per[j%nb], d)
		}
		maps := make([]*gostatsd.MetricMap, nb)
		after := 0
		if in.Pressure && in.After > 0 && in.After < nb {
			after = in.After
		}
		var cancelled []int // batches dispatched under a context that gets cancelled
		isCancelled := map[int]bool{}
		if in.Pressure {
			for _, b := range in.Cancel {
				if b >= 0 && b < nb-after && !isCancelled[b] {
					isCancelled[b] = true
					cancelled = append(cancelled, b)
				}
			}
		}
		total, optional := 0, 0
		for b := range per {
			maps[b] = mmgen.Build(per[b])
			if isCancelled[b] {
				optional += mmgen.Size(maps[b])
			} else {
				total += mmgen.Size(maps[b])
			}
		}
		var got [][]*gostatsd.MetricMap
		msg := hlib.Recover(func() { got = dispatch(maps, in, &c.Monitors) })
		if msg != "" {
			c.Monitors = append(c.Monitors, "DispatchMetricMap panicked: "+msg)
			break
		}
		// monitors independent of the model: a series is only ever seen by one worker, and every
		// series of every batch reached some worker exactly once per batch
		home := map[[2]string]int{}
		seen := 0
		obs := make([]string, len(got))
		for w, ms := range got {
			w := w
			var dl []string
			for _, m := range ms {
				dl = append(dl, mmgen.Entries(m))
				seriesOf(m, func(n, k string) {
					seen++
					if b := gostatsd.Bucket(n, k, in.N); b != w {
						c.Monitors = append(c.Monitors, fmt.Sprintf("series %q/%q delivered to worker %d but Bucket says %d", n, k, w, b))
					}
					if h, ok := home[[2]string{n, k}]; ok && h != w {
						c.Monitors = append(c.Monitors, fmt.Sprintf("series %q/%q reached workers %d and %d", n, k, h, w))
					}
					home[[2]string{n, k}] = w
				})
			}
			obs[w] = hlib.List(dl)
		}
		if seen < total || seen > total+optional {
			c.Monitors = append(c.Monitors, fmt.Sprintf("workers received %d series, the batches held %d (+ at most %d of cancelled dispatches)", seen, total, optional))
		}
		if in.Pressure {
			c.Class = "dispatch-pressure"
			if len(cancelled) > 0 {
				c.Class = "dispatch-cancel"
			}
		}
		c.Obs = map[string]int{"series": total, "workers": in.N, "batches": nb}
		bl := make([]string, nb)
		for b := range per {
			dps := make([]string, len(per[b]))
			for i, d := range per[b] {
				dps[i] = d.Coq()
			}
			bl[b] = hlib.List(dps)
		}
		cl := make([]string, len(cancelled))
		for i, b := range cancelled {
			cl[i] = hlib.Nat(b)
		}
		c.Coq = hlib.App("DispatchCase", hlib.List(bl), hlib.List(cl), hlib.Nat(in.N), hlib.List(obs))
		c.Nontrivial = total >= 2 && in.N >= 2
	}
	em.Emit(c)
}

// ---------------------------------------------------------------------------------------
// generators

// odd strings, all valid UTF-8 so that they survive the JSON input (bytes >= 0x80 through
// multi-byte runes): empty, prefixes of each other, separators of the key format, NUL, high bytes
var odd = []string{"", "a", "b", "ab", "ba", "a,b", "s:x", "s:", "s", ":", ",", ",s:x", "A", "~", " ", "\x00", "a\x00",
	"é", "éa", "aé", "日本", "\U0001F600", "\u007f", "\u0080", "x", "a:b", "a:c", "host:1.2.3.4", "zz", "z"}

func oddStr(r *hlib.Rand) string {
	if r.Chance(1, 12) {
		n := r.Range(8, 300)
		b := make([]rune, n)
		for i := range b {
			b[i] = hlib.Pick(r, []rune{'a', 'b', ',', ':', 0xe9, 0x7f, 0x10FFFF, 'z'})
		}
		return string(b)
	}
	return hlib.Pick(r, odd)
}

// universe draws the pools datapoints are built from.  wide: names, tags and sources from the
// same odd pool (so that (name, key) and (key, name) — equal adler sums — both occur).
func universe(r *hlib.Rand, wide bool) *mmgen.Universe {
	u := mmgen.NewUniverse(r, r.Range(1, 6), r.Range(1, 4), r.Range(0, 2))
	if !wide {
		return u
	}
	for i := r.Range(1, 5); i > 0; i-- {
		u.Names = append(u.Names, oddStr(r))
	}
	for i := r.Range(1, 5); i > 0; i-- {
		u.Tags = append(u.Tags, oddStr(r))
	}
	for i := r.Range(0, 3); i > 0; i-- {
		u.Sources = append(u.Sources, oddStr(r))
	}
	u.Members = append(u.Members, oddStr(r), oddStr(r))
	return u
}

func shardCount(r *hlib.Rand, big bool) int {
	switch r.Intn(10) {
	case 0:
		return 1
	case 1:
		return hlib.Pick(r, []int{2, 4, 8, 16, 32, 64})
	case 2:
		if big {
			return hlib.Pick(r, []int{100, 257, 1000})
		}
		return r.Range(1, 64)
	default:
		return r.Range(1, 64)
	}
}

func genDps(r *hlib.Rand, u *mmgen.Universe, lo, hi int) []mmgen.Dp {
	nd := r.Range(lo, hi)
	dps := make([]mmgen.Dp, 0, nd)
	for j := 0; j < nd; j++ {
		dps = append(dps, u.Dp(r, 100, 110))
	}
	return dps
}

// genTagged: a few base series (name, tag set, source), each sent several times across the
// batches in different spellings: tags permuted, tags duplicated, static tags already present
// or not (a duplicate removed + a static tag appended keeps the tag count).
func genTagged(r *hlib.Rand) input {
	u := universe(r, r.Chance(1, 3))
	statics := [][]string{{}, {"env:prod"}, {"env:prod", "region:us"}, {"region:us", "env:prod", "az:a"}, {"a"}, {"env:prod", "env:prod"}}
	in := input{Kind: "tagged", N: hlib.Pick(r, []int{1, 2, 3, 4, 5, 8, 16, r.Range(1, 64)}), Batches: r.Range(1, 4),
		Static: append([]string{}, hlib.Pick(r, statics)...)}
	pool := append(append([]string{"region:us", "env:prod", "az:a", "b:1", "drop:x", "drop:y", "host:h"}, u.Tags...), in.Static...)
	if r.Chance(1, 4) {
		in.DropTags = []string{"drop:*"}
		in.DropHost = r.Chance(1, 3)
	}
	if r.Chance(1, 4) {
		in.Pressure, in.Q, in.Conc = true, r.Intn(3), r.Bool()
		if in.N > 1 {
			in.Slow = []int{r.Intn(in.N)}
		}
	}
	for b := r.Range(1, 5); b > 0; b-- {
		proto := u.Dp(r, 100, 110) // name, source, type of the base series
		var base []string
		for k := r.Intn(4); k > 0; k-- {
			base = append(base, hlib.Pick(r, pool))
		}
		for sp := r.Range(1, 5); sp > 0; sp-- {
			d := u.Dp(r, 100, 110)
			d.Name, d.Source = proto.Name, proto.Source
			if r.Chance(3, 4) { // same type as the base series (value fields consistent with it)
				d.Type, d.Value, d.Rate, d.StrVal = proto.Type, proto.Value, proto.Rate, proto.StrVal
			}
			tags := append([]string{}, base...)
			for k := r.Intn(3); k > 0 && len(base) > 0; k-- { // duplicates
				tags = append(tags, hlib.Pick(r, base))
			}
			for _, st := range in.Static { // static tags already present, possibly twice
				if r.Chance(1, 3) {
					tags = append(tags, st)
					if r.Chance(1, 4) {
						tags = append(tags, st)
					}
				}
			}
			for k := len(tags) - 1; k > 0; k-- { // permute
				j := r.Intn(k + 1)
				tags[k], tags[j] = tags[j], tags[k]
			}
			d.Tags = tags
			in.Dps = append(in.Dps, d)
		}
	}
	return in
}

// genConc: several goroutines splitting / dispatching at the same time; many series with long
// names and tags (the longer Bucket works on a key, the wider any window for interference)
func genConc(r *hlib.Rand) input {
	long := func(lo, hi int) string {
		n := r.Range(lo, hi)
		b := make([]byte, n)
		for i := range b {
			b[i] = "abcdefghijklmnopqrstuvwxyz0123456789._-"[r.Intn(39)]
		}
		return string(b)
	}
	u := mmgen.NewUniverse(r, 2, 2, 1)
	for k := r.Range(6, 12); k > 0; k-- {
		u.Names = append(u.Names, long(40, 200))
	}
	for k := r.Range(4, 8); k > 0; k-- {
		u.Tags = append(u.Tags, long(20, 150)+":"+long(5, 60))
	}
	u.Sources = append(u.Sources, long(10, 40))
	g := r.Range(3, 8)
	return input{Kind: "conc", G: g, N: hlib.Pick(r, []int{2, 3, 4, 7, 8, 16, r.Range(2, 64)}), Reps: r.Range(150, 400),
		Disp: r.Chance(1, 2), Dps: genDps(r, u, 8*g, 16*g)}
}

func gen(r *hlib.Rand, i int) input {
	if i%32 == 6 {
		return genConc(r)
	}
	switch i % 8 {
	case 0: // tags key
		u := universe(r, r.Bool())
		pool := append(append([]string{}, u.Tags...), "", "A", "a,b", "~", "ab", "a")
		in := input{Kind: "key", Src: hlib.Pick(r, u.Sources), Tags: []string{}}
		for j := r.Intn(7); j > 0; j-- {
			in.Tags = append(in.Tags, hlib.Pick(r, pool))
		}
		if r.Chance(1, 4) && len(in.Tags) > 0 { // duplicates
			in.Tags = append(in.Tags, in.Tags[r.Intn(len(in.Tags))])
		}
		if r.Chance(1, 6) { // already sorted / reverse sorted
			sort.Strings(in.Tags)
			if r.Bool() {
				for a, b := 0, len(in.Tags)-1; a < b; a, b = a+1, b-1 {
					in.Tags[a], in.Tags[b] = in.Tags[b], in.Tags[a]
				}
			}
		}
		return in
	case 1: // bucket arithmetic on raw bytes
		ln := r.Range(0, 24)
		if r.Chance(1, 8) {
			ln = r.Range(200, 6000) // the adler sums wrap mod 65521
		}
		name, key := make([]int, ln), make([]int, r.Range(0, 30))
		for j := range name {
			name[j] = hlib.Pick(r, []int{r.Intn(256), 255, 97, 0})
		}
		for j := range key {
			key[j] = r.Intn(256)
		}
		if r.Chance(1, 3) { // both checksums large: the uint32 sum wraps
			name = make([]int, r.Range(300, 3000))
			key = make([]int, r.Range(300, 3000))
			for j := range name {
				name[j] = 255 - r.Intn(3)
			}
			for j := range key {
				key[j] = 255 - r.Intn(3)
			}
		}
		n := hlib.Pick(r, []int{1, 2, 3, 4, 5, 7, 8, 16, 31, 64, 1000, 65521, 65536, 1 << 20, 1<<31 - 1, 1 << 31, 1<<32 - 1})
		if r.Bool() {
			n = r.Range(1, 64)
		}
		return input{Kind: "bucket", Name: name, Key: key, N: n}
	case 2, 3: // dispatch through the real BackendHandler, several batches sharing series
		u := universe(r, i%8 == 3)
		if r.Chance(2, 3) {
			// back-pressure: short queues, paused workers, back-to-back or concurrent batches
			n := hlib.Pick(r, []int{1, 2, 2, 3, 3, 4, 5, 8, 16})
			in := input{Kind: "dispatch", N: n, Batches: r.Range(2, 6), Dps: genDps(r, u, 4, 60),
				Pressure: true, Q: r.Intn(3), Conc: r.Chance(1, 3)}
			for w := 0; w < n; w++ {
				if r.Chance(1, 2) {
					in.Slow = append(in.Slow, w)
				}
			}
			if len(in.Slow) == 0 && r.Chance(3, 4) {
				in.Slow = []int{r.Intn(n)}
			}
			if r.Chance(1, 2) {
				in.After = r.Range(1, 2)
				in.Batches += in.After
			}
			if r.Chance(1, 2) { // some dispatches are cancelled while blocked; ordinary ones follow
				if in.After == 0 {
					in.After = r.Range(1, 3)
					in.Batches += in.After
				}
				for b := 0; b < in.Batches-in.After; b++ {
					if r.Chance(1, 2) {
						in.Cancel = append(in.Cancel, b)
					}
				}
				if len(in.Cancel) == 0 {
					in.Cancel = []int{r.Intn(in.Batches - in.After)}
				}
			}
			return in
		}
		n := shardCount(r, false)
		if n > 16 && r.Chance(2, 3) {
			n = r.Range(1, 16)
		}
		return input{Kind: "dispatch", N: n, Batches: r.Range(1, 4), Dps: genDps(r, u, 0, 40)}
	case 5: // tag stage in front of the dispatcher: one series in several spellings
		return genTagged(r)
	case 4: // Split called repeatedly in one process
		u := universe(r, r.Bool())
		in := input{Kind: "splitseq", Hold: r.Bool(), Dps: genDps(r, u, 4, 60)}
		for k := r.Range(2, 6); k > 0; k-- {
			in.Ns = append(in.Ns, hlib.Pick(r, []int{1, 2, 3, 4, 5, 8, r.Range(1, 64)}))
		}
		return in
	default: // Split
		u := universe(r, i%8 >= 6)
		return input{Kind: "split", N: shardCount(r, true), Dps: genDps(r, u, 0, 40)}
	}
}

func main() {
	a := hlib.ParseArgs()
	em := hlib.NewEmitter()
	defer em.Close()
	switch a.Mode {
	case "gen":
		r := hlib.NewRand(a.Seed)
		for i := 0; i < a.N; i++ {
			runOne(em, gen(r, i))
		}
	case "run":
		for _, raw := range a.Inputs {
			var in input
			if err := json.Unmarshal(raw, &in); err != nil {
				fmt.Fprintln(os.Stderr, "bad input:", err)
				os.Exit(2)
			}
			runOne(em, in)
		}
	}
}
