// C06: shard routing is a deterministic partition of series.  Runs the real FormatTagsKey,
// Bucket and MetricMap.Split and prints what they returned next to the inputs.
package main

import (
	"encoding/json"
	"fmt"
	"os"

	"github.com/atlassian/gostatsd"

	"verifharness/hlib"
	"verifharness/mmgen"
)

type input struct {
	Kind string     `json:"kind"` // key | bucket | split
	Src  string     `json:"src,omitempty"`
	Tags []string   `json:"tags,omitempty"`
	Name []int      `json:"name,omitempty"`
	Key  []int      `json:"key,omitempty"`
	N    int        `json:"n,omitempty"`
	Dps  []mmgen.Dp `json:"dps,omitempty"`
}

func bs(a []int) string {
	b := make([]byte, len(a))
	for i, x := range a {
		b[i] = byte(x)
	}
	return string(b)
}
func ints(s string) []int {
	o := make([]int, len(s))
	for i := range s {
		o[i] = int(s[i])
	}
	return o
}

func runOne(em *hlib.Emitter, in input) {
	c := hlib.Case{Input: in, Class: in.Kind}
	switch in.Kind {
	case "key":
		tags := append(gostatsd.Tags(nil), in.Tags...)
		k := gostatsd.FormatTagsKey(gostatsd.Source(in.Src), tags)
		c.Obs = k
		c.Coq = hlib.App("KeyCase", hlib.Bytes(in.Src), hlib.StrList(in.Tags), hlib.Bytes(k))
		c.Nontrivial = len(in.Tags) >= 2
	case "bucket":
		var b int
		msg := hlib.Recover(func() { b = gostatsd.Bucket(bs(in.Name), bs(in.Key), in.N) })
		if msg != "" {
			c.Monitors = append(c.Monitors, "Bucket panicked: "+msg)
		}
		if b < 0 || b >= in.N {
			c.Monitors = append(c.Monitors, fmt.Sprintf("Bucket returned %d outside [0,%d)", b, in.N))
		}
		c.Obs = b
		c.Coq = hlib.App("BucketCase", hlib.Bytes(bs(in.Name)), hlib.Bytes(bs(in.Key)), hlib.N(uint64(in.N)), hlib.N(uint64(b)))
		c.Nontrivial = in.N > 1
	case "split":
		mm := mmgen.Build(in.Dps)
		whole := mmgen.Entries(mm)
		total := mmgen.Size(mm)
		var shards []*gostatsd.MetricMap
		msg := hlib.Recover(func() { shards = mm.Split(in.N) })
		if msg != "" {
			c.Monitors = append(c.Monitors, "Split panicked: "+msg)
			break
		}
		if len(shards) != in.N {
			c.Monitors = append(c.Monitors, fmt.Sprintf("Split(%d) returned %d maps", in.N, len(shards)))
		}
		sum := 0
		var el []string
		for i, s := range shards {
			sum += mmgen.Size(s)
			el = append(el, mmgen.Entries(s))
			// monitor independent of the model: every series of shard i hashes to i
			chk := func(n, k string) {
				if gostatsd.Bucket(n, k, in.N) != i {
					c.Monitors = append(c.Monitors, fmt.Sprintf("series %q/%q in shard %d but Bucket says %d", n, k, i, gostatsd.Bucket(n, k, in.N)))
				}
			}
			s.Counters.Each(func(n, k string, _ gostatsd.Counter) { chk(n, k) })
			s.Gauges.Each(func(n, k string, _ gostatsd.Gauge) { chk(n, k) })
			s.Timers.Each(func(n, k string, _ gostatsd.Timer) { chk(n, k) })
			s.Sets.Each(func(n, k string, _ gostatsd.Set) { chk(n, k) })
		}
		if sum != total {
			c.Monitors = append(c.Monitors, fmt.Sprintf("shards hold %d series, the batch %d", sum, total))
		}
		c.Obs = map[string]int{"series": total, "shards": in.N}
		dps := make([]string, len(in.Dps))
		for i, d := range in.Dps {
			dps[i] = d.Coq()
		}
		c.Coq = hlib.App("SplitCase", hlib.List(dps), hlib.Nat(in.N), whole, hlib.List(el))
		c.Nontrivial = total >= 2 && in.N >= 2
	}
	em.Emit(c)
}

func main() {
	a := hlib.ParseArgs()
	em := hlib.NewEmitter()
	defer em.Close()
	switch a.Mode {
	case "gen":
		r := hlib.NewRand(a.Seed)
		for i := 0; i < a.N; i++ {
			switch i % 4 {
			case 0:
				u := mmgen.NewUniverse(r, 3, 5, 2)
				nt := r.Intn(5)
				in := input{Kind: "key", Src: hlib.Pick(r, u.Sources), Tags: []string{}}
				for j := 0; j < nt; j++ {
					in.Tags = append(in.Tags, hlib.Pick(r, append(u.Tags, "", "A", "a,b", "~", "ab", "a")))
				}
				runOne(em, in)
			case 1:
				ln := r.Range(0, 24)
				if r.Chance(1, 8) {
					ln = r.Range(200, 6000) // the adler sums wrap mod 65521
				}
				name, key := make([]int, ln), make([]int, r.Range(0, 30))
				for j := range name {
					name[j] = hlib.Pick(r, []int{r.Intn(256), 255, 97, 0})
				}
				for j := range key {
					key[j] = r.Intn(256)
				}
				n := hlib.Pick(r, []int{1, 2, 3, 4, 5, 7, 8, 16, 31, 64, 1000, 65521, 65536, 1 << 20, 1<<31 - 1, 1 << 31, 1<<32 - 1})
				runOne(em, input{Kind: "bucket", Name: name, Key: key, N: n})
			default:
				u := mmgen.NewUniverse(r, r.Range(1, 6), r.Range(1, 4), r.Range(0, 2))
				nd := r.Range(0, 40)
				in := input{Kind: "split", N: hlib.Pick(r, []int{1, 2, 3, 4, 5, 7, 8, 16, 64})}
				for j := 0; j < nd; j++ {
					in.Dps = append(in.Dps, u.Dp(r, 100, 110))
				}
				runOne(em, in)
			}
		}
	case "run":
		for _, raw := range a.Inputs {
			var in input
			if err := json.Unmarshal(raw, &in); err != nil {
				fmt.Fprintln(os.Stderr, "bad input:", err)
				os.Exit(2)
			}
			runOne(em, in)
		}
	}
}
