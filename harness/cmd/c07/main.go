// C07: merging batches is independent of order and grouping.
//
// Stream "prog": programs of Receive / Merge / MergeMaps over a register file of real
// MetricMaps.  The same family of batches is merged in several random orders and bracketings
// (one program each; some batches are received datapoint by datapoint into an intermediate
// result instead of being merged as a map; one batch in three starts from a "residue" map put
// together directly - the series MetricAggregator.Reset leaves behind: timers with no values,
// counters at 0, sets without members, gauges, with older and newer timestamps).  Every program is compared with the model in
// lock-step order and, inside Coq, with the canonical merge of the leaves that flowed into
// each live register under the C07 projection; the results of the different orders are also
// compared with each other by a harness monitor.  Aliasing monitor: the source map of a Merge /
// MergeMaps is re-read right after the call (must be unchanged) and again at the end of the
// program (only set members may have grown: Go shares the member map).
//
// Stream "stages" (stages.go): the batches go through the real CloudHandler / TagHandler /
// MetricAggregator.
//
// Stream "cons": the batches go through a real gostatsd.MetricConsolidator from concurrent
// goroutines (ReceiveMetrics / ReceiveMetricMap) while another goroutine flushes; everything
// drained is merged with MergeMaps.  Slot assignment and interleaving are up to the scheduler;
// the result is compared under the C07 projection (Corr/C07.v `projects`).
package main

import (
	"encoding/json"
	"fmt"
	"math"
	"os"
	"runtime"
	"sort"
	"strings"
	"sync"
	"time"

	"github.com/atlassian/gostatsd"

	"verifharness/hlib"
	"verifharness/mmgen"
)

// seedEntry is one series put into a map directly (not through Receive): the shapes
// MetricAggregator.Reset leaves behind - a timer with NO values and sampled count 0, a counter
// at 0, a set with no members, a gauge - each carrying its last-seen timestamp; occasionally a
// series with content.
type seedEntry struct {
	Kind    string   `json:"kind"` // c | t | g | s
	Name    string   `json:"name"`
	Tags    []string `json:"tags"`
	Src     string   `json:"src"`
	TS      int64    `json:"ts"`
	Val     int64    `json:"val,omitempty"`     // counter value
	Bits    uint64   `json:"bits,omitempty"`    // gauge value
	Vals    []uint64 `json:"vals,omitempty"`    // timer values (bit patterns); empty = the Reset residue
	Samp    int      `json:"samp,omitempty"`    // timer sampled count (an integer)
	Cap     int      `json:"cap,omitempty"`     // spare capacity of the timer's value slice (Reset keeps Values[:0])
	Members []string `json:"members,omitempty"` // set members; empty = the Reset residue
}

func sortedTags(tags []string) gostatsd.Tags {
	t := append(gostatsd.Tags{}, tags...)
	sort.Strings(t)
	return t
}

func (e seedEntry) key() string {
	return gostatsd.FormatTagsKey(gostatsd.Source(e.Src), sortedTags(e.Tags))
}

// put stores the series into mm, replacing what is there.
func (e seedEntry) put(mm *gostatsd.MetricMap) {
	k, tags, src, ts := e.key(), sortedTags(e.Tags), gostatsd.Source(e.Src), gostatsd.Nanotime(e.TS)
	switch e.Kind {
	case "c":
		if mm.Counters[e.Name] == nil {
			mm.Counters[e.Name] = map[string]gostatsd.Counter{}
		}
		mm.Counters[e.Name][k] = gostatsd.Counter{Value: e.Val, Timestamp: ts, Source: src, Tags: tags}
	case "g":
		if mm.Gauges[e.Name] == nil {
			mm.Gauges[e.Name] = map[string]gostatsd.Gauge{}
		}
		mm.Gauges[e.Name][k] = gostatsd.Gauge{Value: math.Float64frombits(e.Bits), Timestamp: ts, Source: src, Tags: tags}
	case "t":
		if mm.Timers[e.Name] == nil {
			mm.Timers[e.Name] = map[string]gostatsd.Timer{}
		}
		vs := make([]float64, 0, len(e.Vals)+e.Cap)
		for _, b := range e.Vals {
			vs = append(vs, math.Float64frombits(b))
		}
		mm.Timers[e.Name][k] = gostatsd.Timer{Values: vs, SampledCount: float64(e.Samp), Timestamp: ts, Source: src, Tags: tags}
	case "s":
		if mm.Sets[e.Name] == nil {
			mm.Sets[e.Name] = map[string]gostatsd.Set{}
		}
		ms := map[string]struct{}{}
		for _, m := range e.Members {
			ms[m] = struct{}{}
		}
		mm.Sets[e.Name][k] = gostatsd.Set{Values: ms, Timestamp: ts, Source: src, Tags: tags}
	}
}

func (e seedEntry) coq() string {
	n, k, ts, src, tags := hlib.Bytes(e.Name), hlib.Bytes(e.key()), hlib.Z(e.TS), hlib.Bytes(e.Src), hlib.StrList(sortedTags(e.Tags))
	switch e.Kind {
	case "c":
		return hlib.App("EC", n, k, hlib.Z(e.Val), ts, src, tags)
	case "g":
		return hlib.App("EG", n, k, hlib.ZU(e.Bits), ts, src, tags)
	case "t":
		vs := make([]string, len(e.Vals))
		for i, b := range e.Vals {
			vs[i] = hlib.ZU(b)
		}
		return hlib.App("ET", n, k, hlib.List(vs), hlib.Z(int64(e.Samp)), "1%positive", ts, src, tags)
	default:
		ms := append([]string{}, e.Members...)
		sort.Strings(ms)
		return hlib.App("ES", n, k, hlib.StrList(ms), ts, src, tags)
	}
}

func seedMap(es []seedEntry) (*gostatsd.MetricMap, string) {
	mm := gostatsd.NewMetricMap(false)
	var cs []string
	for _, e := range es {
		if e.Kind != "c" && e.Kind != "g" && e.Kind != "t" && e.Kind != "s" {
			continue
		}
		e.put(mm)
		cs = append(cs, e.coq())
	}
	return mm, hlib.List(cs)
}

type op struct {
	Op      string      `json:"op"`             // seed | recv | merge | mergemaps | bmap | bmetrics
	Keys    []string    `json:"keys,omitempty"` // splitbytags: the forwarder's dynamic header tag names
	R       int         `json:"r"`              // register; for bmap / bmetrics: worker index
	From    int         `json:"from,omitempty"`
	Srcs    []int       `json:"srcs,omitempty"`
	Dp      *mmgen.Dp   `json:"dp,omitempty"`
	Dps     []mmgen.Dp  `json:"dps,omitempty"`     // bmap / bmetrics: the batch
	Jit     int         `json:"jit,omitempty"`     // bmap / bmetrics: Gosched calls before delivering
	S       string      `json:"s,omitempty"`       // info / evict (stages stream): the address whose lookup result arrives / whose cache entry expires
	Lex     bool        `json:"lex,omitempty"`     // recv / bmap / bmetrics: the datapoints are LINES parsed by the real lexer with its metric pool (lexed.go); noise: R lines
	NoCache bool        `json:"nocache,omitempty"` // info: the result releases the queue but Peek keeps missing (the next batch raced the lookup, or the answer is not cached)
	Seed    []seedEntry `json:"seed,omitempty"`    // seed: the register becomes this map; bmap: the batch map starts as this map
}

type input struct {
	Kind    string   `json:"kind,omitempty"` // "" = prog | "cons" | "stages"
	Pipe    *pipeCfg `json:"pipe,omitempty"` // stages stream (stages.go)
	NRegs   int      `json:"nregs,omitempty"`
	Ops     []op     `json:"ops"`
	Family  int      `json:"family,omitempty"` // programs with the same family id merge the same batches
	Spots   int      `json:"spots,omitempty"`
	Workers int      `json:"workers,omitempty"`
	Flushes int      `json:"flushes,omitempty"` // flushes racing with the receivers (one more follows at the end)
	Mode    int      `json:"mode,omitempty"`    // 0: MergeMaps over all drained maps; 1: MergeMaps per flush, then Merge of the results
}

// ---------------------------------------------------------------------------------------
// snapshots of source maps (aliasing monitor)

type snapshot struct {
	fixed string              // everything but set members
	sets  map[string][]string // members per series
}

func takeSnap(mm *gostatsd.MetricMap) snapshot {
	s := snapshot{sets: map[string][]string{}}
	var el []string
	mm.Counters.Each(func(n, k string, c gostatsd.Counter) {
		el = append(el, fmt.Sprintf("c|%q|%q|%d|%d|%q|%q", n, k, c.Value, c.Timestamp, c.Source, c.Tags))
	})
	mm.Gauges.Each(func(n, k string, g gostatsd.Gauge) {
		el = append(el, fmt.Sprintf("g|%q|%q|%x|%d|%q|%q", n, k, g.Value, g.Timestamp, g.Source, g.Tags))
	})
	mm.Timers.Each(func(n, k string, t gostatsd.Timer) {
		el = append(el, fmt.Sprintf("t|%q|%q|%x|%x|%d|%q|%q", n, k, t.Values, t.SampledCount, t.Timestamp, t.Source, t.Tags))
	})
	mm.Sets.Each(func(n, k string, st gostatsd.Set) {
		el = append(el, fmt.Sprintf("s|%q|%q|%d|%q|%q", n, k, st.Timestamp, st.Source, st.Tags))
		var ms []string
		for m := range st.Values {
			ms = append(ms, m)
		}
		sort.Strings(ms)
		s.sets[fmt.Sprintf("%q|%q", n, k)] = ms
	})
	sort.Strings(el)
	s.fixed = strings.Join(el, "\n")
	return s
}

// diff reports how now differs from the snapshot; exactSets = false tolerates grown member sets.
func (s snapshot) diff(now snapshot, exactSets bool) string {
	if s.fixed != now.fixed {
		return "series changed:\n" + s.fixed + "\n--- now ---\n" + now.fixed
	}
	for k, old := range s.sets {
		cur := map[string]bool{}
		for _, m := range now.sets[k] {
			cur[m] = true
		}
		for _, m := range old {
			if !cur[m] {
				return fmt.Sprintf("set %s lost member %q", k, m)
			}
		}
		if exactSets && len(old) != len(now.sets[k]) {
			return fmt.Sprintf("set %s members changed: %q -> %q", k, old, now.sets[k])
		}
	}
	return ""
}

// ---------------------------------------------------------------------------------------
// projection of C07 used by the cross-order monitor: per series counter total, sorted timer
// values + sampled count, set members, newest timestamp; for gauges the timestamp only (the
// value is checked against the candidate leaves inside Coq).
func project(mm *gostatsd.MetricMap) string {
	var el []string
	mm.Counters.Each(func(n, k string, c gostatsd.Counter) {
		el = append(el, fmt.Sprintf("c|%q|%q|%d|%d", n, k, c.Value, c.Timestamp))
	})
	mm.Timers.Each(func(n, k string, t gostatsd.Timer) {
		vs := append([]float64(nil), t.Values...)
		sort.Float64s(vs)
		el = append(el, fmt.Sprintf("t|%q|%q|%v|%v|%d", n, k, vs, t.SampledCount, t.Timestamp))
	})
	mm.Sets.Each(func(n, k string, s gostatsd.Set) {
		var ms []string
		for m := range s.Values {
			ms = append(ms, m)
		}
		sort.Strings(ms)
		el = append(el, fmt.Sprintf("s|%q|%q|%q|%d", n, k, ms, s.Timestamp))
	})
	mm.Gauges.Each(func(n, k string, g gostatsd.Gauge) {
		el = append(el, fmt.Sprintf("g|%q|%q|%d", n, k, g.Timestamp))
	})
	sort.Strings(el)
	return strings.Join(el, "\n")
}

var familyProjection = map[int]string{}

type consumed struct {
	at   int
	mm   *gostatsd.MetricMap
	snap snapshot
}

func runProg(em *hlib.Emitter, in input, final int) {
	regs := make([]*gostatsd.MetricMap, in.NRegs)
	dead := make([]bool, in.NRegs)
	for i := range regs {
		regs[i] = gostatsd.NewMetricMap(false)
	}
	c := hlib.Case{Input: in, Class: fmt.Sprintf("prog ops<=%d", (len(in.Ops)/20+1)*20)}
	var ops []string
	var sources []consumed
	okReg := func(i int) bool { return i >= 0 && i < in.NRegs }
	nmerge, nlate, nsplit, nparts := 0, 0, 0, 0
	// lexed datapoints are received as the parser does: the run of lines for one register is lexed
	// first, then folded through Receive (which hands the metrics back to the pool)
	var pending []*gostatsd.Metric
	pendReg, nlexed := -1, 0
	flushPending := func() {
		for _, m := range pending {
			regs[pendReg].Receive(m)
		}
		pending, pendReg = nil, -1
	}
	msg := hlib.Recover(func() {
		defer flushPending()
		for at, o := range in.Ops {
			if !(o.Op == "recv" && o.Lex && o.R == pendReg) {
				flushPending()
			}
			switch o.Op {
			case "noise":
				noise(o.R)
			case "seed":
				if !okReg(o.R) || dead[o.R] {
					continue
				}
				var es string
				regs[o.R], es = seedMap(o.Seed)
				ops = append(ops, hlib.App("OSeed", hlib.Nat(o.R), es))
			case "recv":
				// an op that touches a dead register (possible only in shrunk programs) is skipped:
				// the map shares storage with the map it was merged into
				if !okReg(o.R) || dead[o.R] || o.Dp == nil {
					continue
				}
				if nmerge > 0 {
					nlate++
				}
				told := *o.Dp
				var m *gostatsd.Metric
				if o.Lex {
					if lm, snap, ok := lexOne(*o.Dp); ok {
						m, told = lm, snap
						nlexed++
					}
				}
				if m == nil {
					m = o.Dp.Metric() // direct path (also for a line the lexer cannot carry)
				}
				if o.Lex {
					// part of a lexed run: received in line order when the run ends, also when this
					// datapoint itself took the direct path
					pending, pendReg = append(pending, m), o.R
				} else {
					regs[o.R].Receive(m)
				}
				ops = append(ops, hlib.App("ORecv", hlib.Nat(o.R), told.Coq()))
			case "merge":
				if !okReg(o.R) || !okReg(o.From) || dead[o.R] || dead[o.From] || o.R == o.From {
					continue
				}
				before := takeSnap(regs[o.From])
				regs[o.R].Merge(regs[o.From])
				if d := before.diff(takeSnap(regs[o.From]), true); d != "" {
					c.Monitors = append(c.Monitors, fmt.Sprintf("op %d: Merge changed its source map: %s", at, d))
				}
				sources = append(sources, consumed{at, regs[o.From], before})
				dead[o.From] = true
				nmerge++
				ops = append(ops, hlib.App("OMerge", hlib.Nat(o.R), hlib.Nat(o.From)))
			case "splitbytags":
				// the forwarder groups one flush by header tags (SplitByTags), posts one request per
				// group, and the ingesting side merges the requests again: nothing lost, nothing doubled
				if !okReg(o.R) || dead[o.R] {
					continue
				}
				before := takeSnap(regs[o.R])
				parts := regs[o.R].SplitByTags(o.Keys)
				var pk []string
				for k := range parts {
					pk = append(pk, k)
				}
				sort.Strings(pk)
				var ms []*gostatsd.MetricMap
				for _, k := range pk {
					ms = append(ms, parts[k])
				}
				sources = append(sources, consumed{at, regs[o.R], before})
				if len(ms) > 0 {
					regs[o.R] = gostatsd.MergeMaps(ms)
				} else {
					regs[o.R] = gostatsd.NewMetricMap(false)
				}
				nsplit++
				nparts += len(ms)
				ops = append(ops, hlib.App("OSplitMerge", hlib.Nat(o.R)))
			case "mergemaps":
				var ms []*gostatsd.MetricMap
				var ss []string
				var snaps []snapshot
				skip := !okReg(o.R)
				seen := map[int]bool{}
				for _, s := range o.Srcs {
					if !okReg(s) || dead[s] || seen[s] {
						skip = true
					}
					seen[s] = true
				}
				if skip {
					continue
				}
				for _, s := range o.Srcs {
					ms = append(ms, regs[s])
					snaps = append(snaps, takeSnap(regs[s]))
					ss = append(ss, hlib.Nat(s))
				}
				var res *gostatsd.MetricMap
				if len(ms) > 0 {
					res = gostatsd.MergeMaps(ms)
				} else {
					res = gostatsd.NewMetricMap(false)
				}
				for i, s := range o.Srcs {
					// MergeMaps shares the first source's member maps with the result and then adds the
					// later sources' members to them: a source may have grown, nothing else
					if d := snaps[i].diff(takeSnap(regs[s]), false); d != "" {
						c.Monitors = append(c.Monitors, fmt.Sprintf("op %d: MergeMaps changed source %d: %s", at, s, d))
					}
					sources = append(sources, consumed{at, regs[s], snaps[i]})
					dead[s] = true
				}
				regs[o.R] = res
				dead[o.R] = false
				nmerge++
				ops = append(ops, hlib.App("OMergeMaps", hlib.Nat(o.R), hlib.List(ss)))
			}
		}
	})
	if msg != "" {
		c.Monitors = append(c.Monitors, "merge panicked: "+msg)
	}
	for _, s := range sources {
		if d := s.snap.diff(takeSnap(s.mm), false); d != "" {
			c.Monitors = append(c.Monitors, fmt.Sprintf("source map of op %d changed after it was merged (aliasing): %s", s.at, d))
		}
	}
	var obs []string
	nseries := 0
	for i, m := range regs {
		if !dead[i] {
			obs = append(obs, hlib.Pair(hlib.Nat(i), mmgen.Entries(m)))
			nseries += mmgen.Size(m)
			c.Monitors = append(c.Monitors, keyMonitor(m)...)
		}
	}
	c.Coq = hlib.App("C07", hlib.Nat(in.NRegs), hlib.List(ops), hlib.List(obs))
	c.Nontrivial = nseries >= 2 && len(ops) >= 6
	if final >= 0 && in.Family != 0 {
		p := project(regs[final])
		if prev, ok := familyProjection[in.Family]; ok {
			if prev != p {
				c.Monitors = append(c.Monitors, "two merge orders of the same batches disagree under the C07 projection:\n"+prev+"\n--- vs ---\n"+p)
			}
		} else {
			familyProjection[in.Family] = p
		}
	}
	c.Obs = map[string]int{"live_series": nseries, "merges": nmerge, "late_receives": nlate, "sources_reread": len(sources), "lexed": nlexed, "splits": nsplit, "split_parts": nparts}
	em.Emit(c)
}

// ---------------------------------------------------------------------------------------
// consolidator stream

func runCons(em *hlib.Emitter, in input) {
	c := hlib.Case{Input: in, Class: fmt.Sprintf("cons spots=%d workers=%d flushes=%d mode=%d", in.Spots, in.Workers, in.Flushes, in.Mode)}
	if in.Spots < 1 {
		in.Spots = 1
	}
	if in.Workers < 1 {
		in.Workers = 1
	}
	type prepared struct {
		o       op
		mm      *gostatsd.MetricMap
		snap    snapshot
		metrics []*gostatsd.Metric
	}
	var batches []string
	perWorker := make([][]*prepared, in.Workers)
	var all []*prepared
	ndp, nlexed := 0, 0
	for _, o := range in.Ops {
		p := &prepared{o: o}
		if o.Op == "noise" {
			noise(o.R)
			continue
		}
		if o.Op != "bmap" && o.Op != "bmetrics" {
			continue
		}
		ms, told, nl := metricsOf(o.Dps, o.Lex)
		nlexed += nl
		var ds []string
		for _, d := range told {
			ds = append(ds, d.Coq())
		}
		switch o.Op {
		case "bmap":
			var es string
			p.mm, es = seedMap(o.Seed)
			for _, m := range ms {
				p.mm.Receive(m)
			}
			p.snap = takeSnap(p.mm)
			batches = append(batches, hlib.App("BMap", es, hlib.List(ds)))
		case "bmetrics":
			p.metrics = ms
			batches = append(batches, hlib.App("BMetrics", hlib.List(ds)))
		}
		ndp += len(o.Dps)
		w := o.R % in.Workers
		if w < 0 {
			w = 0
		}
		perWorker[w] = append(perWorker[w], p)
		all = append(all, p)
	}
	sink := make(chan []*gostatsd.MetricMap, in.Flushes+2)
	var drained [][]*gostatsd.MetricMap
	var mu sync.Mutex
	var panics []string
	guard := func(f func()) {
		if m := hlib.Recover(f); m != "" {
			mu.Lock()
			panics = append(panics, m)
			mu.Unlock()
		}
	}
	var merged *gostatsd.MetricMap
	done := make(chan struct{})
	go func() {
		defer close(done)
		guard(func() {
			mc := gostatsd.NewMetricConsolidator(in.Spots, false, time.Hour, sink)
			var wg sync.WaitGroup
			for w := range perWorker {
				wg.Add(1)
				go func(ps []*prepared) {
					defer wg.Done()
					guard(func() {
						for _, p := range ps {
							for i := 0; i < p.o.Jit; i++ {
								runtime.Gosched()
							}
							if p.mm != nil {
								mc.ReceiveMetricMap(p.mm)
							} else {
								mc.ReceiveMetrics(p.metrics)
							}
						}
					})
				}(perWorker[w])
			}
			// Flush is documented as not thread-safe with respect to other flushes: one flusher
			fl := make(chan struct{})
			go func() {
				defer close(fl)
				guard(func() {
					for f := 0; f < in.Flushes; f++ {
						for i := 0; i < 1+f%3; i++ {
							runtime.Gosched()
						}
						mc.Flush()
					}
				})
			}()
			wg.Wait()
			<-fl
			mc.Flush()
			close(sink)
			for ms := range sink {
				drained = append(drained, ms)
			}
			switch in.Mode {
			case 1:
				for _, ms := range drained {
					part := gostatsd.MergeMaps(ms)
					if merged == nil {
						merged = part
					} else {
						merged.Merge(part)
					}
				}
			default:
				var flat []*gostatsd.MetricMap
				for _, ms := range drained {
					flat = append(flat, ms...)
				}
				merged = gostatsd.MergeMaps(flat)
			}
		})
	}()
	select {
	case <-done:
	case <-time.After(20 * time.Second):
		c.Monitors = append(c.Monitors, "consolidator run did not finish within 20 s (deadlock)")
		c.Coq = ""
		em.Emit(c)
		return
	}
	for _, m := range panics {
		c.Monitors = append(c.Monitors, "consolidator run panicked: "+m)
	}
	for i, ms := range drained {
		if len(ms) != in.Spots {
			c.Monitors = append(c.Monitors, fmt.Sprintf("flush %d drained %d maps, the consolidator has %d slots", i, len(ms), in.Spots))
		}
	}
	if len(drained) != in.Flushes+1 {
		c.Monitors = append(c.Monitors, fmt.Sprintf("%d flushes delivered, %d issued", len(drained), in.Flushes+1))
	}
	for i, p := range all {
		if p.mm != nil {
			if d := p.snap.diff(takeSnap(p.mm), false); d != "" {
				c.Monitors = append(c.Monitors, fmt.Sprintf("batch %d: map changed after ReceiveMetricMap (aliasing): %s", i, d))
			}
		}
	}
	if merged == nil {
		merged = gostatsd.NewMetricMap(false)
	}
	c.Coq = hlib.App("C07Cons", hlib.List(batches), mmgen.Entries(merged))
	c.Monitors = append(c.Monitors, keyMonitor(merged)...)
	n := mmgen.Size(merged)
	c.Nontrivial = n >= 2 && len(all) >= 3
	c.Obs = map[string]int{"live_series": n, "batches": len(all), "datapoints": ndp, "flushes": len(drained), "lexed": nlexed}
	em.Emit(c)
}

// ---------------------------------------------------------------------------------------
// generators

// genBatches draws k batches over a small universe.  Most datapoints hit one of a few "hot"
// series (same name, tags, source and type; fresh value / timestamp / member / rate), so that
// the same series occurs in several batches and every per-type merge rule is exercised.
// One batch in three starts from a "residue" map (seed): hot series in the state
// MetricAggregator.Reset leaves them in - timers with no values, counters at 0, sets without
// members, gauges - with timestamps both older and newer than the datapoints'; a few seeded
// series carry content.
type batchSpec struct {
	Seed []seedEntry
	Dps  []mmgen.Dp
	Lex  bool // the datapoints travel as lines through the real lexer and its pool
}

func genSeed(r *hlib.Rand, hot []mmgen.Dp) []seedEntry {
	var es []seedEntry
	// the residue covers most live series, as after a Reset
	for i, t := range hot {
		if !r.Chance(2, 3) && !(i == 0 && len(es) == 0) {
			continue
		}
		e := seedEntry{Name: t.Name, Tags: append([]string{}, t.Tags...), Src: t.Source, TS: int64(r.Range(96, 108))}
		ty := t.Type
		if r.Chance(1, 5) { // same name and tags under another type
			ty = r.Range(1, 4)
		}
		content := r.Chance(1, 4)
		switch gostatsd.MetricType(ty) {
		case gostatsd.COUNTER:
			e.Kind = "c"
			if content {
				e.Val = int64(r.Range(-50, 50))
			}
		case gostatsd.TIMER:
			e.Kind = "t"
			e.Cap = r.Range(0, 4)
			if content {
				for i := r.Range(1, 2); i > 0; i-- {
					e.Vals = append(e.Vals, math.Float64bits(mmgen.ExactValue(r)))
				}
				e.Samp = len(e.Vals) * r.Range(1, 4)
			}
		case gostatsd.GAUGE:
			e.Kind = "g"
			e.Bits = math.Float64bits(mmgen.ExactValue(r))
		default:
			e.Kind = "s"
			if content {
				e.Members = []string{"m" + string(rune('0'+r.Intn(4)))}
			}
		}
		es = append(es, e)
	}
	return es
}

func genBatches(r *hlib.Rand, kLo, kHi, nHi int) []batchSpec {
	u := mmgen.NewUniverse(r, r.Range(1, 4), r.Range(1, 3), r.Range(0, 1))
	hot := make([]mmgen.Dp, r.Range(2, 5))
	for i := range hot {
		hot[i] = u.Dp(r, 100, 104)
		for try := 0; i == 0 && try < 20 && gostatsd.MetricType(hot[0].Type) != gostatsd.TIMER; try++ {
			hot[0] = u.Dp(r, 100, 104) // at least one hot timer
		}
	}
	draw := func() mmgen.Dp {
		d := u.Dp(r, 100, 104) // few distinct timestamps: ties happen
		if r.Chance(3, 4) {
			t := hot[r.Intn(len(hot))]
			for try := 0; try < 12 && d.Type != t.Type; try++ {
				d = u.Dp(r, 100, 104)
			}
			if d.Type == t.Type {
				d.Name, d.Source = t.Name, t.Source
				d.Tags = append([]string{}, t.Tags...)
				if r.Chance(1, 3) && len(d.Tags) > 1 { // same tags key, other tag order
					d.Tags[0], d.Tags[len(d.Tags)-1] = d.Tags[len(d.Tags)-1], d.Tags[0]
				}
			}
		}
		return d
	}
	k := r.Range(kLo, kHi)
	batches := make([]batchSpec, k)
	for i := range batches {
		n := r.Range(0, nHi)
		if r.Chance(1, 3) {
			batches[i].Seed = genSeed(r, hot)
			if r.Bool() {
				n = r.Range(0, 2) // mostly untouched residue
			}
		}
		for j := 0; j < n; j++ {
			batches[i].Dps = append(batches[i].Dps, draw())
		}
		batches[i].Lex = r.Chance(3, 5)
	}
	return batches
}

// genFamily draws k batches of datapoints and returns several programs that merge them into
// register 0 in different orders / bracketings.
func genFamily(r *hlib.Rand, fam int) []input {
	batches := genBatches(r, 2, 5, 8)
	k := len(batches)
	var out []input
	nprog := r.Range(2, 3)
	for p := 0; p < nprog; p++ {
		// registers 1..k hold the batches (built by Receive in batch order), then a random
		// bracketing merges them pairwise; the last surviving register is moved to 0 by MergeMaps.
		// A "late" batch has no register of its own: its datapoints are received one by one into
		// an intermediate result (a Recv node of the merge tree).
		in := input{NRegs: k + 2, Family: fam}
		// header tag names for SplitByTags: prefixes of tags that occur (some / several match), names
		// that match nothing, the source element "s:", the empty name, no names at all
		var tagPool []string
		for _, b := range batches {
			for _, d := range b.Dps {
				tagPool = append(tagPool, d.Tags...)
			}
		}
		headerKeys := func() []string {
			var ks []string
			for n := []int{0, 1, 1, 1, 2, 2, 3}[r.Intn(7)]; n > 0; n-- {
				switch c := r.Intn(8); {
				case c == 0:
					ks = append(ks, "zz")
				case c == 1:
					ks = append(ks, "s:")
				case c == 2:
					ks = append(ks, "")
				case len(tagPool) > 0:
					t := tagPool[r.Intn(len(tagPool))]
					ks = append(ks, t[:r.Range(1, len(t))])
				default:
					ks = append(ks, "a")
				}
			}
			return ks
		}
		late := make([]bool, k)
		nown := 0
		for i := range batches {
			late[i] = r.Chance(1, 4) && len(batches[i].Seed) == 0 // a seeded batch needs its own register
			if !late[i] {
				nown++
			}
		}
		if nown == 0 {
			late[r.Intn(k)] = false
		}
		live := []int{}
		var pending []int
		for i, b := range batches {
			if late[i] {
				pending = append(pending, i)
				continue
			}
			if len(b.Seed) > 0 {
				in.Ops = append(in.Ops, op{Op: "seed", R: i + 1, Seed: b.Seed})
			}
			for _, d := range b.Dps {
				dd := d
				in.Ops = append(in.Ops, op{Op: "recv", R: i + 1, Dp: &dd, Lex: b.Lex})
			}
			if r.Chance(1, 4) {
				in.Ops = append(in.Ops, op{Op: "noise", R: r.Range(2, 6)})
			}
			live = append(live, i+1)
		}
		for i := len(live) - 1; i > 0; i-- {
			j := r.Intn(i + 1)
			live[i], live[j] = live[j], live[i]
		}
		flushLate := func(all bool) {
			for len(pending) > 0 && (all || r.Chance(1, 2)) {
				b := batches[pending[0]].Dps
				lex := batches[pending[0]].Lex
				pending = pending[1:]
				dst := live[r.Intn(len(live))]
				for _, d := range b {
					dd := d
					in.Ops = append(in.Ops, op{Op: "recv", R: dst, Dp: &dd, Lex: lex})
				}
			}
		}
		for len(live) > 1 {
			switch r.Intn(3) {
			case 0, 1: // pairwise merge of two random live registers
				i := r.Intn(len(live))
				j := r.Intn(len(live) - 1)
				if j >= i {
					j++
				}
				in.Ops = append(in.Ops, op{Op: "merge", R: live[i], From: live[j]})
				live = append(live[:j], live[j+1:]...)
			default: // MergeMaps of a random non-empty subset into the spare register
				spare := k + 1
				n := r.Range(1, len(live))
				srcs := append([]int(nil), live[:n]...)
				in.Ops = append(in.Ops, op{Op: "mergemaps", R: spare, Srcs: srcs})
				rest := append([]int(nil), live[n:]...)
				// move spare back into the first source slot to keep register numbers small
				in.Ops = append(in.Ops, op{Op: "mergemaps", R: srcs[0], Srcs: []int{spare}})
				live = append([]int{srcs[0]}, rest...)
			}
			flushLate(false)
			if r.Chance(1, 3) {
				in.Ops = append(in.Ops, op{Op: "noise", R: r.Range(2, 6)})
			}
			if r.Chance(1, 3) {
				in.Ops = append(in.Ops, op{Op: "splitbytags", R: live[r.Intn(len(live))], Keys: headerKeys()})
			}
		}
		flushLate(true)
		if r.Chance(1, 2) {
			in.Ops = append(in.Ops, op{Op: "splitbytags", R: live[0], Keys: headerKeys()})
		}
		if r.Bool() {
			in.Ops = append(in.Ops, op{Op: "noise", R: r.Range(2, 6)})
		}
		in.Ops = append(in.Ops, op{Op: "mergemaps", R: 0, Srcs: []int{live[0]}})
		out = append(out, in)
	}
	return out
}

func genCons(r *hlib.Rand) input {
	batches := genBatches(r, 3, 12, 6)
	in := input{Kind: "cons", Spots: r.Range(1, 5), Workers: r.Range(1, 6), Flushes: r.Range(0, 3), Mode: r.Intn(2)}
	for _, b := range batches {
		o := op{Op: "bmap", R: r.Intn(in.Workers), Dps: b.Dps, Seed: b.Seed, Jit: r.Intn(4), Lex: b.Lex}
		if len(b.Seed) == 0 && r.Bool() {
			o.Op = "bmetrics"
		}
		in.Ops = append(in.Ops, o)
		if r.Chance(1, 4) {
			in.Ops = append(in.Ops, op{Op: "noise", R: r.Range(2, 6)})
		}
	}
	return in
}

func main() {
	a := hlib.ParseArgs()
	em := hlib.NewEmitter()
	defer em.Close()
	switch a.Mode {
	case "gen":
		r := hlib.NewRand(a.Seed)
		fam := 1
		for n := 0; n < a.N; {
			switch r.Intn(30) {
			case 0, 1, 2, 3: // 2/15 consolidator
				runCons(em, genCons(r))
				n++
				continue
			case 4, 5, 6, 7, 8, 9: // 1/5 real pipeline stages
				for _, in := range genStages(r, fam) {
					runStages(em, in, true)
					n++
				}
				fam++
				continue
			}
			for _, in := range genFamily(r, fam) {
				runProg(em, in, 0)
				n++
			}
			fam++
		}
	case "run":
		for _, raw := range a.Inputs {
			var in input
			if err := json.Unmarshal(raw, &in); err != nil {
				fmt.Fprintln(os.Stderr, "bad input:", err)
				os.Exit(2)
			}
			if in.Kind == "cons" {
				runCons(em, in)
				continue
			}
			if in.Kind == "stages" {
				in.Family = 0
				runStages(em, in, false)
				continue
			}
			in.Family = 0
			runProg(em, in, -1)
		}
	}
}
