// C07: merging batches is independent of order and grouping.  Executes programs of
// Receive / Merge / MergeMaps over a register file of real MetricMaps; the same family of
// batches is merged in several random orders and bracketings (one program each), every
// program is compared with the model in lock-step order, and the results of the different
// orders are compared with each other under the C07 projection by a harness monitor.
package main

import (
	"encoding/json"
	"fmt"
	"math"
	"os"
	"sort"
	"strings"

	"github.com/atlassian/gostatsd"

	"verifharness/hlib"
	"verifharness/mmgen"
)

type op struct {
	Op   string    `json:"op"` // recv | merge | mergemaps
	R    int       `json:"r"`
	From int       `json:"from,omitempty"`
	Srcs []int     `json:"srcs,omitempty"`
	Dp   *mmgen.Dp `json:"dp,omitempty"`
}

type input struct {
	NRegs  int  `json:"nregs"`
	Ops    []op `json:"ops"`
	Family int  `json:"family"` // programs with the same family id merge the same batches
}

// projection of C07: per series counter total, sorted timer values + sampled count, set members,
// newest timestamp; for gauges the timestamp only (ties between equal timestamps are free) plus
// the value when it is unambiguous.
func project(mm *gostatsd.MetricMap, gaugeChoices map[string]map[uint64]bool) string {
	var el []string
	mm.Counters.Each(func(n, k string, c gostatsd.Counter) {
		el = append(el, fmt.Sprintf("c|%q|%q|%d|%d", n, k, c.Value, c.Timestamp))
	})
	mm.Timers.Each(func(n, k string, t gostatsd.Timer) {
		vs := append([]float64(nil), t.Values...)
		sort.Float64s(vs)
		el = append(el, fmt.Sprintf("t|%q|%q|%v|%v|%d", n, k, vs, t.SampledCount, t.Timestamp))
	})
	mm.Sets.Each(func(n, k string, s gostatsd.Set) {
		var ms []string
		for m := range s.Values {
			ms = append(ms, m)
		}
		sort.Strings(ms)
		el = append(el, fmt.Sprintf("s|%q|%q|%q|%d", n, k, ms, s.Timestamp))
	})
	mm.Gauges.Each(func(n, k string, g gostatsd.Gauge) {
		el = append(el, fmt.Sprintf("g|%q|%q|%d", n, k, g.Timestamp))
	})
	sort.Strings(el)
	return strings.Join(el, "\n")
}

var familyProjection = map[int]string{}

func runOne(em *hlib.Emitter, in input, final int) {
	regs := make([]*gostatsd.MetricMap, in.NRegs)
	dead := make([]bool, in.NRegs)
	for i := range regs {
		regs[i] = gostatsd.NewMetricMap(false)
	}
	c := hlib.Case{Input: in, Class: fmt.Sprintf("ops<=%d", (len(in.Ops)/20+1)*20)}
	var ops []string
	msg := hlib.Recover(func() {
		for _, o := range in.Ops {
			switch o.Op {
			case "recv":
				regs[o.R].Receive(o.Dp.Metric())
				ops = append(ops, hlib.App("ORecv", hlib.Nat(o.R), o.Dp.Coq()))
			case "merge":
				regs[o.R].Merge(regs[o.From])
				dead[o.From] = true
				ops = append(ops, hlib.App("OMerge", hlib.Nat(o.R), hlib.Nat(o.From)))
			case "mergemaps":
				var ms []*gostatsd.MetricMap
				var ss []string
				for _, s := range o.Srcs {
					ms = append(ms, regs[s])
					dead[s] = true
					ss = append(ss, hlib.Nat(s))
				}
				if len(ms) > 0 {
					regs[o.R] = gostatsd.MergeMaps(ms)
				} else {
					regs[o.R] = gostatsd.NewMetricMap(false)
				}
				dead[o.R] = false
				ops = append(ops, hlib.App("OMergeMaps", hlib.Nat(o.R), hlib.List(ss)))
			}
		}
	})
	if msg != "" {
		c.Monitors = append(c.Monitors, "merge panicked: "+msg)
	}
	var obs []string
	nseries := 0
	for i, m := range regs {
		if !dead[i] {
			obs = append(obs, hlib.Pair(hlib.Nat(i), mmgen.Entries(m)))
			nseries += mmgen.Size(m)
		}
	}
	c.Coq = hlib.App("C07", hlib.Nat(in.NRegs), hlib.List(ops), hlib.List(obs))
	c.Nontrivial = nseries >= 2 && len(in.Ops) >= 6
	if final >= 0 && in.Family != 0 {
		p := project(regs[final], nil)
		if prev, ok := familyProjection[in.Family]; ok {
			if prev != p {
				c.Monitors = append(c.Monitors, "two merge orders of the same batches disagree under the C07 projection:\n"+prev+"\n--- vs ---\n"+p)
			}
		} else {
			familyProjection[in.Family] = p
		}
	}
	c.Obs = map[string]int{"live_series": nseries}
	em.Emit(c)
}

// genFamily draws k batches of datapoints and returns several programs that merge them into
// register 0 in different orders / bracketings.
func genFamily(r *hlib.Rand, fam int) []input {
	u := mmgen.NewUniverse(r, r.Range(1, 4), r.Range(1, 3), r.Range(0, 1))
	k := r.Range(2, 5)
	batches := make([][]mmgen.Dp, k)
	for i := range batches {
		n := r.Range(0, 8)
		for j := 0; j < n; j++ {
			d := u.Dp(r, 100, 104) // few distinct timestamps: ties happen
			batches[i] = append(batches[i], d)
		}
	}
	var out []input
	nprog := r.Range(2, 3)
	for p := 0; p < nprog; p++ {
		// registers 1..k hold the batches (built by Receive in batch order), then a random
		// bracketing merges them pairwise; the last surviving register is moved to 0 by MergeMaps
		in := input{NRegs: k + 2, Family: fam}
		for i, b := range batches {
			for _, d := range b {
				dd := d
				in.Ops = append(in.Ops, op{Op: "recv", R: i + 1, Dp: &dd})
			}
		}
		live := []int{}
		for i := 1; i <= k; i++ {
			live = append(live, i)
		}
		// shuffle
		for i := len(live) - 1; i > 0; i-- {
			j := r.Intn(i + 1)
			live[i], live[j] = live[j], live[i]
		}
		for len(live) > 1 {
			switch r.Intn(3) {
			case 0, 1: // pairwise merge of two random live registers
				i := r.Intn(len(live))
				j := r.Intn(len(live) - 1)
				if j >= i {
					j++
				}
				in.Ops = append(in.Ops, op{Op: "merge", R: live[i], From: live[j]})
				live = append(live[:j], live[j+1:]...)
			default: // MergeMaps of a random non-empty subset into the spare register
				spare := k + 1
				n := r.Range(1, len(live))
				srcs := append([]int(nil), live[:n]...)
				in.Ops = append(in.Ops, op{Op: "mergemaps", R: spare, Srcs: srcs})
				rest := append([]int(nil), live[n:]...)
				// move spare back into the first source slot to keep register numbers small
				in.Ops = append(in.Ops, op{Op: "mergemaps", R: srcs[0], Srcs: []int{spare}})
				live = append([]int{srcs[0]}, rest...)
			}
		}
		in.Ops = append(in.Ops, op{Op: "mergemaps", R: 0, Srcs: []int{live[0]}})
		out = append(out, in)
	}
	return out
}

func main() {
	_ = math.Pi
	a := hlib.ParseArgs()
	em := hlib.NewEmitter()
	defer em.Close()
	switch a.Mode {
	case "gen":
		r := hlib.NewRand(a.Seed)
		fam := 1
		for n := 0; n < a.N; {
			for _, in := range genFamily(r, fam) {
				runOne(em, in, 0)
				n++
			}
			fam++
		}
	case "run":
		for _, raw := range a.Inputs {
			var in input
			if err := json.Unmarshal(raw, &in); err != nil {
				fmt.Fprintln(os.Stderr, "bad input:", err)
				os.Exit(2)
			}
			in.Family = 0
			runOne(em, in, -1)
		}
	}
}
