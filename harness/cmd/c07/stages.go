// Stream "stages": the batches of a family go through the REAL pipeline stages that C07 names -
// CloudHandler (cache hits dispatched at once, misses parked in the per-source lookup queue and
// released by a lookup result), TagHandler (static tags, de-duplication, drop-tags / drop-host /
// drop-metric filters whose re-keying makes series of one map collide) and a sink that is either
// a real MetricAggregator (ReceiveMap, read back through Process without a flush) or MergeMaps -
// in different arrival orders, with different addresses cached at different times.
//
// Expected result: the harness re-keys every datapoint itself from the case's script with the
// stages' documented rule (positive lookup answer: source := instance id, tags ++ instance tags;
// negative answer / unknown source: unchanged; tag stage: tags := unique(tags - dropped) ++ static
// tags not already present, drop-host clears the source, drop-metric removes the datapoint) and
// Coq merges the re-keyed datapoints with Model/MetricMap.v; the observed aggregate must agree
// under the C07 projection (Corr/C07.v `projects`, case constructor C07Cons [BMetrics ...]).
// Model/Cloud.v and Model/Tags.v are NOT used: the expectation is independent of them.
package main

import (
	"context"
	"fmt"
	"sort"
	"strings"
	"sync"
	"time"

	"github.com/atlassian/gostatsd"
	"github.com/atlassian/gostatsd/pkg/statsd"

	"verifharness/hlib"
	"verifharness/mmgen"
)

type instCfg struct {
	IP       string   `json:"ip"`
	ID       string   `json:"id,omitempty"`
	Tags     []string `json:"tags,omitempty"`
	NotFound bool     `json:"notfound,omitempty"` // the lookup answers "no such instance" (negative cache)
}

type filterCfg struct {
	MatchMetrics []string `json:"match_metrics,omitempty"` // exact or prefix* patterns
	MatchTags    []string `json:"match_tags,omitempty"`
	DropTags     []string `json:"drop_tags,omitempty"`
	DropMetric   bool     `json:"drop_metric,omitempty"`
	DropHost     bool     `json:"drop_host,omitempty"`
}

type pipeCfg struct {
	Cloud   bool        `json:"cloud,omitempty"`
	Insts   []instCfg   `json:"insts,omitempty"`
	Cached  []string    `json:"cached,omitempty"` // addresses in the cache from the start
	Tags    bool        `json:"tags,omitempty"`
	Static  []string    `json:"static,omitempty"`
	Filters []filterCfg `json:"filters,omitempty"`
	Sink    string      `json:"sink"` // agg | mergemaps
}

// ---------------------------------------------------------------------------------------
// expected re-keying, computed from the script only

func patMatch(p, s string) bool {
	if strings.HasSuffix(p, "*") {
		return strings.HasPrefix(s, p[:len(p)-1])
	}
	return p == s
}

func anyMatch(ps []string, s string) bool {
	for _, p := range ps {
		if patMatch(p, s) {
			return true
		}
	}
	return false
}

func (p *pipeCfg) inst(ip string) *instCfg {
	for i := range p.Insts {
		if p.Insts[i].IP == ip {
			return &p.Insts[i]
		}
	}
	return nil
}

// rekey returns the datapoint as the sink must see it; false = dropped by the tag stage.
func (p *pipeCfg) rekey(d mmgen.Dp) (mmgen.Dp, bool) {
	d.Tags = append([]string{}, d.Tags...)
	if p.Cloud && d.Source != "" {
		if in := p.inst(d.Source); in != nil && !in.NotFound {
			d.Source = in.ID
			d.Tags = append(d.Tags, in.Tags...)
		}
	}
	if p.Tags {
		dropped := map[string]bool{}
		for _, f := range p.Filters {
			if len(f.MatchMetrics) > 0 && !anyMatch(f.MatchMetrics, d.Name) {
				continue
			}
			if len(f.MatchTags) > 0 {
				hit := false
				for _, t := range d.Tags {
					hit = hit || anyMatch(f.MatchTags, t)
				}
				if !hit {
					continue
				}
			}
			if f.DropMetric {
				return d, false
			}
			for _, t := range d.Tags {
				if anyMatch(f.DropTags, t) {
					dropped[t] = true
				}
			}
			if f.DropHost {
				d.Source = ""
			}
		}
		had := map[string]bool{}
		var out []string
		for _, t := range d.Tags {
			if !had[t] && !dropped[t] {
				out = append(out, t)
			}
			had[t] = true
		}
		seenStatic := map[string]bool{}
		for _, t := range p.Static {
			if !had[t] && !seenStatic[t] {
				out = append(out, t)
			}
			seenStatic[t] = true
		}
		if out == nil {
			out = []string{}
		}
		d.Tags = out
	}
	return d, true
}

// ---------------------------------------------------------------------------------------
// real stages

type stageCache struct {
	mu     sync.Mutex
	cached map[gostatsd.Source]*gostatsd.Instance
	sink   chan gostatsd.Source
	source chan gostatsd.InstanceInfo
}

func (c *stageCache) Peek(s gostatsd.Source) (*gostatsd.Instance, bool) {
	c.mu.Lock()
	defer c.mu.Unlock()
	i, ok := c.cached[s]
	return i, ok
}
func (c *stageCache) IpSink() chan<- gostatsd.Source           { return c.sink }
func (c *stageCache) InfoSource() <-chan gostatsd.InstanceInfo { return c.source }
func (c *stageCache) EstimatedTags() int                       { return 2 }
func (c *stageCache) del(s gostatsd.Source) {
	c.mu.Lock()
	delete(c.cached, s)
	c.mu.Unlock()
}
func (c *stageCache) put(s gostatsd.Source, i *gostatsd.Instance) {
	c.mu.Lock()
	c.cached[s] = i
	c.mu.Unlock()
}

// collector is the end of the pipeline: it keeps what arrives, in arrival order.
type collector struct {
	mu  sync.Mutex
	mms []*gostatsd.MetricMap
}

func (h *collector) DispatchMetricMap(_ context.Context, mm *gostatsd.MetricMap) {
	h.mu.Lock()
	h.mms = append(h.mms, mm)
	h.mu.Unlock()
}
func (h *collector) DispatchEvent(context.Context, *gostatsd.Event) {}
func (h *collector) EstimatedTags() int                             { return 0 }
func (h *collector) WaitForEvents()                                 {}
func (h *collector) take() []*gostatsd.MetricMap {
	h.mu.Lock()
	defer h.mu.Unlock()
	m := h.mms
	h.mms = nil
	return m
}

// gate sits right behind the CloudHandler and signals every completed delivery (the release of
// a parked map happens on a goroutine of the handler).
type gate struct {
	next gostatsd.PipelineHandler
	tick chan struct{}
}

func (g *gate) DispatchMetricMap(ctx context.Context, mm *gostatsd.MetricMap) {
	g.next.DispatchMetricMap(ctx, mm)
	g.tick <- struct{}{}
}
func (g *gate) DispatchEvent(ctx context.Context, e *gostatsd.Event) { g.next.DispatchEvent(ctx, e) }
func (g *gate) EstimatedTags() int                                   { return g.next.EstimatedTags() }
func (g *gate) WaitForEvents()                                       {}

func toMatchList(ps []string) gostatsd.StringMatchList {
	var l gostatsd.StringMatchList
	for _, p := range ps {
		l = append(l, gostatsd.NewStringMatch(p))
	}
	return l
}

func runStages(em *hlib.Emitter, in input, final bool) {
	p := in.Pipe
	if p == nil {
		p = &pipeCfg{Sink: "mergemaps"}
	}
	c := hlib.Case{Input: in, Class: fmt.Sprintf("stages cloud=%v tags=%v sink=%s", p.Cloud, p.Tags, p.Sink)}
	ctx := context.Background()
	end := &collector{}
	var head gostatsd.PipelineHandler = end
	if p.Tags {
		var fs []statsd.Filter
		for _, f := range p.Filters {
			fs = append(fs, statsd.Filter{MatchMetrics: toMatchList(f.MatchMetrics), MatchTags: toMatchList(f.MatchTags),
				DropTags: toMatchList(f.DropTags), DropMetric: f.DropMetric, DropHost: f.DropHost})
		}
		head = statsd.NewTagHandler(head, append(gostatsd.Tags{}, p.Static...), fs)
	}
	var ch *statsd.CloudHandler
	var cache *stageCache
	var g *gate
	if p.Cloud {
		cache = &stageCache{cached: map[gostatsd.Source]*gostatsd.Instance{}, sink: make(chan gostatsd.Source), source: make(chan gostatsd.InstanceInfo)}
		g = &gate{next: head, tick: make(chan struct{}, 1<<12)}
		ch = statsd.NewCloudHandler(cache, g)
		head = ch
	}
	instance := func(ip string) *gostatsd.Instance {
		if ic := p.inst(ip); ic != nil && !ic.NotFound {
			return &gostatsd.Instance{ID: gostatsd.Source(ic.ID), Tags: append(gostatsd.Tags{}, ic.Tags...)}
		}
		return nil
	}
	if p.Cloud {
		for _, ip := range p.Cached {
			cache.put(gostatsd.Source(ip), instance(ip))
		}
	}
	var agg *statsd.MetricAggregator
	var kept []*gostatsd.MetricMap
	if p.Sink == "agg" {
		agg = statsd.NewMetricAggregator(nil, 0, 0, 0, 0, gostatsd.TimerSubtypes{}, 0)
	}
	drain := func() {
		for _, mm := range end.take() {
			if agg != nil {
				agg.ReceiveMap(mm)
			} else {
				kept = append(kept, mm)
			}
		}
	}
	awaitTick := func(what string) {
		select {
		case <-g.tick:
		case <-time.After(10 * time.Second):
			c.Monitors = append(c.Monitors, "no delivery within 10 s after "+what)
		}
	}
	release := func(ip string, cacheIt bool) {
		src := gostatsd.Source(ip)
		inst := instance(ip)
		if cacheIt {
			cache.put(src, inst)
		}
		want := ch.VerifState().AwaitingMetrics[src] != nil
		ch.VerifHandleInstanceInfo(ctx, gostatsd.InstanceInfo{IP: src, Instance: inst})
		if want {
			awaitTick("the lookup result for " + ip)
		}
	}
	var expect []string
	nb, nparked, nhitDeliveries, ninfo, ndp, ndropped, nlexed := 0, 0, 0, 0, 0, 0, 0
	msg := hlib.Recover(func() {
		for _, o := range in.Ops {
			switch o.Op {
			case "noise":
				noise(o.R)
			case "bmap":
				nb++
				ms, told, nl := metricsOf(o.Dps, o.Lex)
				nlexed += nl
				for _, d := range told {
					ndp++
					if e, ok := p.rekey(d); ok {
						expect = append(expect, e.Coq())
					} else {
						ndropped++
					}
				}
				mm := gostatsd.NewMetricMap(false)
				for _, m := range ms {
					mm.Receive(m)
				}
				if ch == nil {
					head.DispatchMetricMap(ctx, mm)
					drain()
					continue
				}
				// DispatchMetricMap hands its cache misses to Run's goroutine over an unbuffered channel:
				// play that goroutine's arm `metrics := <-ch.incomingMetrics` here
				res := make(chan *gostatsd.MetricMap, 1)
				stop := make(chan struct{})
				go func() {
					select {
					case m := <-ch.VerifIncomingMetrics():
						res <- m
					case <-stop:
						res <- nil
					}
				}()
				ch.DispatchMetricMap(ctx, mm)
				close(stop)
				if got := <-res; got != nil {
					ch.VerifHandleIncomingMetrics(got)
					nparked++
				}
				for len(g.tick) > 0 { // synchronous deliveries of the cache hits
					<-g.tick
					nhitDeliveries++
				}
				drain()
			case "info":
				if ch == nil || p.inst(o.S) == nil {
					continue
				}
				ninfo++
				release(o.S, !o.NoCache)
				drain()
			case "evict": // the cache entry expires: the address misses again
				if ch != nil {
					cache.del(gostatsd.Source(o.S))
				}
			}
		}
		if ch != nil { // every outstanding lookup is answered in the end
			st := ch.VerifState()
			var ips []string
			for s := range st.AwaitingMetrics {
				ips = append(ips, string(s))
			}
			sort.Strings(ips)
			for _, ip := range ips {
				release(ip, true)
			}
			drain()
			if n := len(ch.VerifState().AwaitingMetrics); n != 0 {
				c.Monitors = append(c.Monitors, fmt.Sprintf("%d sources still parked after every lookup was answered", n))
			}
		}
	})
	if msg != "" {
		c.Monitors = append(c.Monitors, "pipeline panicked: "+msg)
	}
	var result *gostatsd.MetricMap
	if agg != nil {
		agg.Process(func(mm *gostatsd.MetricMap) { result = mm })
	} else if len(kept) > 0 {
		result = gostatsd.MergeMaps(kept)
	}
	if result == nil {
		result = gostatsd.NewMetricMap(false)
	}
	c.Coq = hlib.App("C07Cons", hlib.List([]string{hlib.App("BMetrics", hlib.List(expect))}), mmgen.Entries(result))
	c.Monitors = append(c.Monitors, keyMonitor(result)...)
	n := mmgen.Size(result)
	c.Nontrivial = n >= 2 && nb >= 2
	c.Obs = map[string]int{"live_series": n, "batches": nb, "datapoints": ndp, "dropped": ndropped, "parked": nparked,
		"hit_deliveries": nhitDeliveries, "infos": ninfo, "lexed": nlexed}
	if final && in.Family != 0 {
		pr := project(result)
		if prev, ok := familyProjection[in.Family]; ok {
			if prev != pr {
				c.Monitors = append(c.Monitors, "two arrival orders of the same batches through the stages disagree under the C07 projection:\n"+prev+"\n--- vs ---\n"+pr)
			}
		} else {
			familyProjection[in.Family] = pr
		}
	}
	em.Emit(c)
}

// ---------------------------------------------------------------------------------------
// generator

func genStages(r *hlib.Rand, fam int) []input {
	ips := []string{"10.0.0.1", "10.0.0.2", "10.0.0.3", "10.0.0.4"}[:r.Range(2, 4)]
	specs := genBatches(r, 3, 7, 6)
	// sources are addresses (or unknown); no tag of a datapoint looks like the source suffix of a
	// tags key ("s:..."), which would make the series identity depend on arrival order by design
	var tagPool []string
	p := pipeCfg{Cloud: r.Chance(3, 4), Tags: r.Chance(1, 2)}
	if !p.Cloud {
		p.Tags = true
	}
	// "variant" tags v:1..v:3 that a filter of the tag stage drops: series of ONE map that differ
	// only in them collide inside TagHandler.DispatchMetricMap
	variant := p.Tags && r.Chance(3, 4)
	// single-source runs: every batch comes from one address, so consecutive values of the lookup
	// queue have the same source (X, info X, X again; X twice then info; ...)
	single := p.Cloud && r.Chance(2, 5)
	if single {
		ips = ips[:1]
	}
	for bi := range specs {
		specs[bi].Seed = nil
		for di := range specs[bi].Dps {
			d := &specs[bi].Dps[di]
			var ts []string
			for _, t := range d.Tags {
				if !strings.HasPrefix(t, "s:") {
					ts = append(ts, t)
					tagPool = append(tagPool, t)
				}
			}
			if ts == nil {
				ts = []string{}
			}
			if variant && r.Bool() {
				ts = append(ts, "v:"+string(rune('1'+r.Intn(3))))
			}
			d.Tags = ts
			// the source follows the series name so that hot series keep colliding
			h := 0
			for _, b := range []byte(d.Name) {
				h = h*31 + int(b)
			}
			switch r.Intn(6) {
			case 0:
				d.Source = ""
				if single {
					d.Source = ips[0]
				}
			case 1:
				d.Source = ips[r.Intn(len(ips))]
			default:
				d.Source = ips[h%len(ips)]
			}
		}
	}
	if len(tagPool) == 0 {
		tagPool = []string{"a"}
	}
	if p.Cloud {
		ids := []string{"i-01", "i-02", "i-03"}
		itags := [][]string{{}, {}, {"env:prod"}, {"env:prod", "az:1"}, {hlib.Pick(r, tagPool)}}
		sharedID, sharedTags := hlib.Pick(r, ids), hlib.Pick(r, itags)
		for _, ip := range ips {
			ic := instCfg{IP: ip}
			switch r.Intn(6) {
			case 0:
				ic.NotFound = true
			case 1, 2: // several addresses of one instance
				ic.ID, ic.Tags = sharedID, sharedTags
			default:
				ic.ID, ic.Tags = hlib.Pick(r, ids), hlib.Pick(r, itags)
			}
			p.Insts = append(p.Insts, ic)
		}
	}
	if p.Tags {
		for n := r.Intn(3); n > 0; n-- {
			p.Static = append(p.Static, hlib.Pick(r, []string{"region:x", "env:prod", hlib.Pick(r, tagPool)}))
		}
		pat := func() string {
			t := hlib.Pick(r, append([]string{"env:prod", "az:1"}, tagPool...))
			if r.Bool() && len(t) > 1 {
				return t[:r.Range(1, len(t)-1)] + "*"
			}
			return t
		}
		nameA := ""
		for _, sp := range specs {
			if len(sp.Dps) > 0 {
				nameA = sp.Dps[0].Name
				break
			}
		}
		if variant && nameA != "" && r.Chance(1, 3) {
			// filters scoped to ONE metric name: its v:* tags are dropped and some of its series are
			// dropped entirely, while the other names keep the same tags (the scratch state of one
			// series must not leak into the next)
			p.Filters = append(p.Filters, filterCfg{MatchMetrics: []string{nameA}, DropTags: []string{"v:*"}})
			dm := filterCfg{MatchMetrics: []string{nameA}, DropMetric: true}
			if r.Bool() {
				dm.MatchTags = []string{"v:" + string(rune('1'+r.Intn(3)))}
			}
			p.Filters = append(p.Filters, dm)
		} else if variant {
			p.Filters = append(p.Filters, filterCfg{DropTags: []string{"v:*"}, DropHost: r.Chance(1, 3)})
		}
		for n := r.Range(0, 2); n > 0; n-- {
			f := filterCfg{DropHost: r.Chance(1, 4)}
			for k := r.Range(1, 2); k > 0; k-- {
				f.DropTags = append(f.DropTags, pat())
			}
			if r.Chance(1, 4) && len(specs[0].Dps) > 0 {
				f.MatchMetrics = []string{specs[0].Dps[0].Name[:1] + "*"}
			}
			if r.Chance(1, 5) {
				f.MatchTags = []string{pat()}
			}
			p.Filters = append(p.Filters, f)
		}
		if r.Chance(1, 5) && len(specs[0].Dps) > 0 {
			p.Filters = append(p.Filters, filterCfg{MatchMetrics: []string{specs[0].Dps[0].Name}, MatchTags: []string{pat()}, DropMetric: true})
		}
	}
	var out []input
	for prog := r.Range(2, 3); prog > 0; prog-- {
		q := p
		q.Sink = []string{"agg", "mergemaps"}[r.Intn(2)]
		q.Cached = nil
		var later []string
		if q.Cloud {
			for _, ip := range ips {
				switch r.Intn(3) {
				case 0:
					q.Cached = append(q.Cached, ip)
				case 1:
					later = append(later, ip) // answered somewhere in the middle
				}
			}
		}
		in := input{Kind: "stages", Family: fam, Pipe: &q}
		order := make([]int, len(specs))
		for i := range order {
			order[i] = i
		}
		for i := len(order) - 1; i > 0; i-- {
			j := r.Intn(i + 1)
			order[i], order[j] = order[j], order[i]
		}
		for _, bi := range order {
			in.Ops = append(in.Ops, op{Op: "bmap", Dps: specs[bi].Dps, Lex: specs[bi].Lex})
			if r.Chance(1, 4) {
				in.Ops = append(in.Ops, op{Op: "noise", R: r.Range(2, 6)})
			}
		}
		insert := func(o op) {
			at := r.Intn(len(in.Ops) + 1)
			in.Ops = append(in.Ops[:at], append([]op{o}, in.Ops[at:]...)...)
		}
		for _, ip := range later {
			// a result that releases the queue while later batches from the address still miss (they
			// raced the lookup, or the answer is not cached), possibly several times, then maybe a
			// caching result; or a cached entry that expires again
			switch r.Intn(4) {
			case 0:
				insert(op{Op: "info", S: ip})
			case 1:
				insert(op{Op: "info", S: ip, NoCache: true})
			case 2:
				for n := r.Range(2, 3); n > 0; n-- {
					insert(op{Op: "info", S: ip, NoCache: true})
				}
				if r.Bool() {
					insert(op{Op: "info", S: ip})
				}
			default:
				insert(op{Op: "info", S: ip})
				insert(op{Op: "evict", S: ip})
				insert(op{Op: "info", S: ip, NoCache: r.Bool()})
			}
		}
		if single && len(q.Cached) == 0 && r.Chance(2, 3) {
			insert(op{Op: "info", S: ips[0], NoCache: true})
		}
		out = append(out, in)
	}
	return out
}
