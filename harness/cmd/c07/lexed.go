// Datapoints produced the way the server produces them (pkg/statsd/parser.go): a LINE goes
// through the real lexer with its metric pool (verifhooks.LineLexer), the parser's fix-ups
// (timestamp, source) are applied, the batch is lexed first and then folded through
// MetricMap.Receive, whose Done() returns each *Metric - and its Tags buffer - to the pool.  A
// later batch (or a "noise" op: unrelated tagged lines that are lexed and released) therefore
// REUSES the buffers of an earlier one while the earlier maps still sit in registers,
// consolidator slots, the cloud lookup queue or an aggregator: a series that kept a reference to
// a metric's Tags instead of a copy now carries the tags of an unrelated line.
// The model is fed a snapshot of what the lexer produced, taken before any buffer is recycled.
package main

import (
	"fmt"
	"math"
	"strconv"
	"strings"

	"github.com/atlassian/gostatsd"
	"github.com/atlassian/gostatsd/verifhooks"

	"verifharness/mmgen"
)

// one lexer and pool for the whole run, like one parser goroutine of the server; only the main
// goroutine lexes (Done may be called from any goroutine: the pool is a sync.Pool)
var theLexer = verifhooks.NewLineLexer(2)

var typeCode = map[gostatsd.MetricType]string{gostatsd.COUNTER: "c", gostatsd.GAUGE: "g", gostatsd.TIMER: "ms", gostatsd.SET: "s"}

func lineOf(d mmgen.Dp) string {
	var b strings.Builder
	b.WriteString(d.Name)
	b.WriteByte(':')
	if gostatsd.MetricType(d.Type) == gostatsd.SET {
		b.WriteString(d.StrVal)
	} else {
		b.WriteString(strconv.FormatFloat(math.Float64frombits(d.Value), 'g', -1, 64))
	}
	b.WriteByte('|')
	b.WriteString(typeCode[gostatsd.MetricType(d.Type)])
	if r := math.Float64frombits(d.Rate); r != 1 {
		b.WriteString("|@" + strconv.FormatFloat(r, 'g', -1, 64))
	}
	if len(d.Tags) > 0 {
		b.WriteString("|#" + strings.Join(d.Tags, ","))
	}
	return b.String()
}

// lexable: the line form can carry this datapoint unchanged (the lexer normalises some bytes,
// rejects names that begin with '_' and empty values; such datapoints take the direct path)
func lexable(d mmgen.Dp) bool {
	if d.Name == "" || d.Name[0] == '_' || strings.ContainsAny(d.Name, ":|@#, \t/\n\x00") {
		return false
	}
	if gostatsd.MetricType(d.Type) == gostatsd.SET && (d.StrVal == "" || strings.ContainsAny(d.StrVal, "|\n\x00")) {
		return false
	}
	for _, t := range d.Tags {
		if t == "" || strings.ContainsAny(t, ",|\n\x00") {
			return false
		}
	}
	v := math.Float64frombits(d.Value)
	return !math.IsNaN(v)
}

// lexOne returns the pooled metric of the datapoint's line and the snapshot of what it carries;
// ok = false: not lexable or the lexer disagrees with the datapoint (then nothing is held).
func lexOne(d mmgen.Dp) (*gostatsd.Metric, mmgen.Dp, bool) {
	if !lexable(d) {
		return nil, d, false
	}
	m, _, err := theLexer.LexLine([]byte(lineOf(d)), "")
	if err != nil || m == nil {
		return nil, d, false
	}
	m.Timestamp = gostatsd.Nanotime(d.TS)
	m.Source = gostatsd.Source(d.Source)
	snap := mmgen.Dp{Name: m.Name, Type: int(m.Type), Value: math.Float64bits(m.Value), StrVal: m.StringValue,
		Rate: math.Float64bits(m.Rate), Tags: append([]string{}, m.Tags...), Source: string(m.Source), TS: int64(m.Timestamp)}
	if gostatsd.MetricType(snap.Type) != gostatsd.SET {
		snap.StrVal = d.StrVal
	}
	return m, snap, true
}

// metricsOf turns a batch into metrics: lexed (all lines first, as the parser does) when lex is
// set and the datapoint is lexable, direct Metric values otherwise; the second result is what
// the model is told.
func metricsOf(dps []mmgen.Dp, lex bool) ([]*gostatsd.Metric, []mmgen.Dp, int) {
	ms := make([]*gostatsd.Metric, 0, len(dps))
	told := make([]mmgen.Dp, 0, len(dps))
	nlexed := 0
	for _, d := range dps {
		if lex {
			if m, snap, ok := lexOne(d); ok {
				ms, told = append(ms, m), append(told, snap)
				nlexed++
				continue
			}
		}
		ms, told = append(ms, d.Metric()), append(told, d)
	}
	return ms, told, nlexed
}

// noise lexes unrelated tagged lines and releases them at once: recycled buffers are overwritten.
func noise(n int) {
	var held []*gostatsd.Metric
	for i := 0; i < n; i++ {
		line := fmt.Sprintf("zz.noise%d:%d|ms|#n:%d,o:%d,p:%d,q:%d", i, i, i, i+1, i+2, i+3)
		if m, _, err := theLexer.LexLine([]byte(line), ""); err == nil && m != nil {
			held = append(held, m)
		}
	}
	for _, m := range held {
		m.Done()
	}
}

// keyMonitor: every series must sit under the key its own source and tags give.
func keyMonitor(mm *gostatsd.MetricMap) []string {
	var bad []string
	chk := func(kind, n, k string, src gostatsd.Source, tags gostatsd.Tags) {
		if want := gostatsd.FormatTagsKey(src, append(gostatsd.Tags{}, tags...)); want != k {
			bad = append(bad, fmt.Sprintf("%s series %q sits under key %q but its source %q and tags %q give key %q", kind, n, k, src, tags, want))
		}
	}
	mm.Counters.Each(func(n, k string, c gostatsd.Counter) { chk("counter", n, k, c.Source, c.Tags) })
	mm.Gauges.Each(func(n, k string, g gostatsd.Gauge) { chk("gauge", n, k, g.Source, g.Tags) })
	mm.Timers.Each(func(n, k string, t gostatsd.Timer) { chk("timer", n, k, t.Source, t.Tags) })
	mm.Sets.Each(func(n, k string, s gostatsd.Set) { chk("set", n, k, s.Source, s.Tags) })
	return bad
}
