package main

import (
	"context"
	"time"

	"github.com/atlassian/gostatsd"
)

// FlushIn is one flush of a sequence case.
type FlushIn struct {
	Series []Series `json:"series"`
	Fail   bool     `json:"fail,omitempty"` // this flush is made to fail for good
}

// runSequence runs the flushes of in.Seq, in order, through ONE instance of the backend.  A
// failing flush: HTTP backends get 500 from the endpoint and their flush context is cancelled
// once the first request has been refused; the relay's flush context is cancelled beforehand.
// Result: one bres per flush (no term for a failed flush: nothing is expected of it but a
// callback, and that later flushes are unaffected by it).
func runSequence(in *input, cfg BackendCfg) []bres {
	flushes := make([]*input, len(in.Seq))
	for i, fl := range in.Seq {
		fi := *in
		fi.Series = normalise(fl.Series)
		flushes[i] = &fi
	}
	switch cfg.Backend {
	case "relay":
		return relaySequence(in, cfg, flushes)
	case "graphite":
		return graphiteSequence(in, cfg, flushes)
	}
	seq.active, seq.clients = true, map[string]gostatsd.Backend{}
	defer func() { seq.active, seq.fail, seq.clients = false, false, nil }()
	out := make([]bres, len(flushes))
	for i, fi := range flushes {
		seq.fail = in.Seq[i].Fail
		out[i] = runBackend(fi, cfg)
		if seq.fail {
			out[i].coq = ""
			out[i].obs = map[string]bool{"request_refused_and_context_cancelled": seq.failed}
		}
	}
	return out
}

// startSender runs the backend's sender loop until stop is called.
func startSender(b gostatsd.Backend) (stop func() []string) {
	ctx, cancel := fixedCtx()
	stopped := make(chan struct{})
	go func() { b.(gostatsd.Runner).Run(ctx); close(stopped) }()
	return func() []string {
		cancel()
		select {
		case <-stopped:
			return nil
		case <-time.After(10 * time.Second):
			return []string{b.Name() + ": sender did not stop"}
		}
	}
}

func relaySequence(in *input, cfg BackendCfg, flushes []*input) []bres {
	out := make([]bres, len(flushes))
	uc := newUDPCapture()
	cli, err := newRelay(in, uc.conn.LocalAddr().String(), cfg.DT, false)
	if err != nil {
		out[0].monitors = append(out[0].monitors, "statsdaemon.NewClient: "+err.Error())
		return out
	}
	cli.VerifSetPacketSizeC17(cfg.Batch)
	stop := startSender(cli)
	for i, fi := range flushes {
		r := &out[i]
		ctx, cancel := fixedCtx()
		if in.Seq[i].Fail {
			cancel()
		}
		_, bad := send(ctx, cli, fi.buildMap())
		cancel()
		if bad != "" {
			r.monitors = append(r.monitors, "relay: "+bad)
		}
		dgrams, mon := uc.segment()
		r.monitors = append(r.monitors, mon...)
		if !in.Seq[i].Fail {
			decRelay(fi, cfg, cfg.Batch, dgrams, r)
		}
	}
	out[len(out)-1].monitors = append(out[len(out)-1].monitors, stop()...)
	uc.conn.Close()
	return out
}

func graphiteSequence(in *input, cfg BackendCfg, flushes []*input) []bres {
	out := make([]bres, len(flushes))
	tc := newTCPCapture()
	cli, err := newGraphite(in, cfg, tc.ln.Addr().String())
	if err != nil {
		out[0].monitors = append(out[0].monitors, "graphite.NewClient: "+err.Error())
		return out
	}
	stop := startSender(cli)
	for i, fi := range flushes {
		r := &out[i]
		t0 := time.Now().Unix()
		errs, bad := send(context.Background(), cli, fi.buildMap())
		if bad != "" {
			r.monitors = append(r.monitors, "graphite: "+bad)
		}
		for _, e := range errs {
			r.monitors = append(r.monitors, "graphite: send error: "+e.Error())
		}
		data := string(tc.snapshot())
		decGraphite(fi, cfg, data, t0, time.Now().Unix(), r)
	}
	out[len(out)-1].monitors = append(out[len(out)-1].monitors, stop()...)
	if rest := tc.finish(); len(rest) > 0 {
		out[len(out)-1].monitors = append(out[len(out)-1].monitors, "graphite: bytes written after the last flush's callback")
	}
	return out
}
