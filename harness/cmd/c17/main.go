// C17: backend payloads contain every series exactly once and are well formed.
//
// One case = one flushed gostatsd.MetricMap (random series of all four types with aggregated
// values, percentiles, histograms), a sub-metric mask and a list of backend configurations.
// Every configured backend is run for real against a capturing endpoint (httptest server, UDP /
// TCP listener, fake CloudWatch API client); what it put on the wire is decoded by independent
// readers (encoding/json, an InfluxDB line-protocol reader, `path value ts`, proto.Unmarshal)
// into batches of items, which the Coq model (GS.Corr.C17) compares with its own payloads.
// The relay's lines and events are additionally fed to the real lexer and to the lexer model.
package main

import (
	"encoding/json"
	"fmt"
	"math"
	"os"
	"sort"
	"strings"

	"verifharness/hlib"
)

const (
	sigF2 = "F2-underscore-initial-name-relay"
	sigF3 = "F3-newrelic-nonfinite-drops-batch"
	sigF4 = "F4-influxdb-nonfinite-literal"
	// defects found by this check and listed in known_findings.jsonl as known findings (DESIGN.md section 5)
	sigF5 = "F5-influxdb-empty-tag-key-or-value"
	sigF6 = "F6-newrelic-metrics-set-without-value"
	sigF7 = "F7-newrelic-tag-overwrites-field"
)

func runBackend(in *input, cfg BackendCfg) bres {
	switch cfg.Backend {
	case "relay":
		return runRelay(in, cfg)
	case "influxdb":
		return runInflux(in, cfg)
	case "datadog":
		return runDatadog(in, cfg)
	case "cloudwatch":
		return runCloudwatch(in, cfg)
	case "otlp":
		return runOTLP(in, cfg)
	case "graphite":
		return runGraphite(in, cfg)
	case "stdout":
		return runStdout(in, cfg)
	case "newrelic":
		return runNewRelic(in, cfg)
	case "event":
		return runRelayEvent(in)
	}
	return bres{monitors: []string{"harness: unknown backend " + cfg.Backend}}
}

// normalise keeps, for every (type, name, tags key), only the last series of the input: a
// gostatsd.MetricMap holds a series once, a later assignment replaces the earlier one.  The map
// given to the backends and the model's input are both built from the normalised list, so an
// input with a repeated series (shrinking, hand-written replays) means what the map means.
func normalise(ss []Series) []Series {
	last := map[string]int{}
	for i, s := range ss {
		last[s.T+"\x00"+s.Name+"\x00"+tagsKeyOf(s)] = i
	}
	out := make([]Series, 0, len(ss))
	for i, s := range ss {
		if last[s.T+"\x00"+s.Name+"\x00"+tagsKeyOf(s)] == i {
			out = append(out, s)
		}
	}
	return out
}

func runOne(em *hlib.Emitter, orig input) {
	c := hlib.Case{Input: orig}
	in := orig
	in.Series = normalise(orig.Series)
	obs := map[string]interface{}{}
	var flushTerms []string
	multi := false
	items := 0
	if in.Stream == "sequence" && len(in.Backends) == 1 {
		cfg := in.Backends[0]
		for i, r := range runSequence(&in, cfg) {
			for _, m := range r.monitors {
				c.Monitors = append(c.Monitors, fmt.Sprintf("flush %d: %s", i, m))
			}
			obs[fmt.Sprintf("flush%d", i)] = map[string]interface{}{"cfg": cfg, "fail": in.Seq[i].Fail, "batches": r.nbatches, "items": r.nitems, "wire": r.obs}
			if r.coq != "" {
				fi := in
				fi.Series = normalise(in.Seq[i].Series)
				flushTerms = append(flushTerms, hlib.App("C17", fi.coqMask(), fi.coqMap(), fi.coqTable(), hlib.List([]string{r.coq})))
			}
			if r.nbatches >= 1 && i > 0 {
				multi = true
			}
			items += r.nitems
		}
	} else {
		var terms []string
		for _, cfg := range in.Backends {
			r := runBackend(&in, cfg)
			c.Monitors = append(c.Monitors, r.monitors...)
			if r.coq != "" {
				terms = append(terms, r.coq)
			}
			obs[cfg.Backend] = map[string]interface{}{"cfg": cfg, "batches": r.nbatches, "items": r.nitems, "wire": r.obs}
			if r.nbatches >= 2 {
				multi = true
			}
			items += r.nitems
		}
		flushTerms = []string{hlib.App("C17", in.coqMask(), in.coqMap(), in.coqTable(), hlib.List(terms))}
	}
	c.Obs = obs
	c.Coq = hlib.List(flushTerms)
	size := "small"
	if len(in.Series) >= 12 {
		size = "large"
	} else if len(in.Series) == 0 {
		size = "empty"
	}
	c.Class = in.Stream + "/" + size
	if in.Stream == "sequence" && len(in.Backends) == 1 {
		c.Class = "sequence/" + in.Backends[0].Backend
	}
	c.Nontrivial = (len(in.Series) >= 3 && multi) || (in.Stream == "event" && in.Event != nil && len(in.Event.Tags) > 0) ||
		(in.Stream == "sequence" && multi && items >= 3)
	// known-finding streams: the signature is attached only when every violation seen is of the
	// finding's own kind
	switch in.Stream {
	case "f2":
		if allMatch(c.Monitors, func(m string) bool {
			return strings.HasPrefix(m, "relay: emitted line is not accepted as a metric by gostatsd's own lexer") && strings.Contains(m, ": \"_")
		}) {
			c.Known = sigF2
		}
	case "f4":
		if allMatch(c.Monitors, func(m string) bool {
			return strings.HasPrefix(m, "influxdb: not valid line protocol") && (strings.Contains(m, "Inf\" is not a float") || strings.Contains(m, "NaN\" is not a float"))
		}) {
			c.Known = sigF4
		}
	case "f3":
		if allMatch(c.Monitors, func(m string) bool { return strings.HasPrefix(m, "newrelic: F3:") }) {
			c.Known = sigF3
		}
	case "s5":
		if allMatch(c.Monitors, func(m string) bool {
			return strings.HasPrefix(m, "influxdb: not valid line protocol") && (strings.Contains(m, "empty tag value") || strings.Contains(m, "empty tag key"))
		}) {
			c.Known = sigF5
		}
	case "s6":
		if allMatch(c.Monitors, func(m string) bool { return strings.HasPrefix(m, "newrelic: F6:") }) {
			c.Known = sigF6
		}
	case "s7":
		if allMatch(c.Monitors, func(m string) bool { return strings.HasPrefix(m, "newrelic: F7:") }) {
			c.Known = sigF7
		}
	}
	em.Emit(c)
}

func allMatch(ms []string, p func(string) bool) bool {
	if len(ms) == 0 {
		return false
	}
	for _, m := range ms {
		if !p(m) {
			return false
		}
	}
	return true
}

// ---------------------------------------------------------------------------------------
// generator

const nameAlpha = "abcdefghijklmnopqrstuvwxyzABCXYZ0123456789_.-"
const tagAlpha = "abcdefghijklmnopqrstuvwxyzABC0123456789_.:/-"

func randFrom(r *hlib.Rand, lo, hi int, alpha string) string {
	n := r.Range(lo, hi)
	b := make([]byte, n)
	for i := range b {
		b[i] = alpha[r.Intn(len(alpha))]
	}
	return string(b)
}

var reservedWords = []string{"count", "lower", "upper", "mean", "median", "std", "sum", "rate", "histogram", "per_second", "summary"}

// genName draws a metric name over [A-Za-z0-9_.-] that does not start with '_' (unless
// underscore is set) and is neither equal to, nor a dotted prefix / extension of, a name
// already used (sub-metric names such as a.count then never collide with another series).
func genName(r *hlib.Rand, used []string, underscore bool) string {
	for {
		n := randFrom(r, 1, 10, nameAlpha)
		if r.Chance(1, 6) {
			n = randFrom(r, 1, 4, nameAlpha) + "." + hlib.Pick(r, reservedWords)
		}
		if n[0] == '_' {
			n = "u" + n[1:]
		}
		if underscore {
			n = "_" + n
		}
		ok := true
		for _, u := range used {
			if u == n || strings.HasPrefix(u, n+".") || strings.HasPrefix(n, u+".") {
				ok = false
			}
		}
		if ok {
			return n
		}
	}
}

var tagKeys = []string{"env", "region", "k", "a.b", "host", "zone/1", "x-y", "unnamed", "s", "statsdSource"}

func genTag(r *hlib.Rand) string {
	for {
		var t string
		switch k := r.Intn(10); {
		case k < 5:
			t = hlib.Pick(r, tagKeys) + ":" + randFrom(r, 1, 6, tagAlpha)
		case k < 7:
			t = randFrom(r, 1, 8, strings.ReplaceAll(tagAlpha, ":", "")) // a tag without a value
		default:
			t = randFrom(r, 1, 8, tagAlpha)
		}
		// main-stream tags have a non-empty key and a non-empty value when they have a ':'
		// (the lexer accepts "k:" and ":v"; InfluxDB and Graphite then write `k=` / `=v`: see notes)
		if i := strings.IndexByte(t, ':'); i == 0 || i == len(t)-1 || strings.HasPrefix(t, "le:") {
			continue
		}
		return t
	}
}

const escAlpha = "ab =,\\\"\n\r\t:"

// escTag draws a tag with a non-empty key and value containing bytes the escapers handle.
func escTag(r *hlib.Rand) string {
	for {
		t := randFrom(r, 1, 4, escAlpha) + hlib.Pick(r, []string{":", ":", ""}) + randFrom(r, 1, 4, escAlpha)
		if i := strings.IndexByte(t, ':'); i == 0 || i == len(t)-1 || strings.HasPrefix(t, "le:") {
			continue
		}
		return t
	}
}

func genSixDecimals(r *hlib.Rand) float64 {
	d := r.Intn(7)
	k := r.Range(-99999999, 99999999)
	if r.Chance(1, 4) {
		k = r.Range(-1000, 1000)
	}
	if r.Chance(1, 12) {
		k = 0
	}
	return float64(k) / math.Pow10(d)
}

func genAnyFinite(r *hlib.Rand) float64 {
	switch r.Intn(8) {
	case 0:
		return 0
	case 1:
		return float64(r.Range(-100000, 100000))
	case 2:
		return float64(r.Range(-1000000, 1000000)) / 1000
	case 3:
		return hlib.Pick(r, []float64{1e21, 1e-7, 123456789012345678, 1e20, 0.000001, 1e6, 999999.5, 1e300, -1e-300, 5e-324, math.MaxFloat64, math.Copysign(0, -1), 100000, 2.5e-5})
	case 4:
		return r.Float() * math.Pow(10, float64(r.Range(-10, 25)))
	default:
		return genSixDecimals(r)
	}
}

func bits(v float64) uint64 { return math.Float64bits(v) }

var pctNames = []string{"count_90", "mean_90", "sum_90", "sum_squares_90", "upper_90", "lower_-90", "upper_99", "mean_50", "count_-5"}

func genSeries(r *hlib.Rand, stream string, n int) []Series {
	var out []Series
	var names []string
	nonfinite := stream == "nonfinite" || stream == "f3" || stream == "f4"
	anyf := func() uint64 {
		if nonfinite && r.Chance(1, 4) {
			return bits(hlib.Pick(r, []float64{math.Inf(1), math.Inf(-1), math.NaN()}))
		}
		return bits(genAnyFinite(r))
	}
	datum := func() uint64 { // gauge and timer values: what the lexer can deliver
		if nonfinite && r.Chance(1, 3) {
			return bits(hlib.Pick(r, []float64{math.Inf(1), math.Inf(-1)}))
		}
		return bits(genSixDecimals(r))
	}
	types := "ctgs"
	perType := map[byte][]string{}
	seen := map[string]bool{}
	sources := []string{"", "", "10.0.0.7", "host-a", "2001:db8::1", "web/1"}
	for len(out) < n {
		ty := types[r.Intn(4)]
		var name string
		if len(perType[ty]) > 0 && r.Chance(1, 3) {
			name = hlib.Pick(r, perType[ty]) // another series of an existing name
		} else {
			name = genName(r, names, stream == "f2" && r.Chance(1, 2))
			if ty == 'c' && r.Chance(1, 10) && stream != "f2" {
				name = genName(r, names, false)
				name = "statsd." + name
				if !free(name, names) {
					continue
				}
			}
			names = append(names, name)
			perType[ty] = append(perType[ty], name)
		}
		s := Series{T: string(ty), Name: name, Src: hlib.Pick(r, sources), Tags: []string{}}
		nt := []int{0, 0, 1, 1, 2, 3, 5, 12}[r.Intn(8)]
		for i := 0; i < nt; i++ {
			s.Tags = append(s.Tags, genTag(r))
		}
		if stream == "escape" {
			// beyond the property's alphabets: everything the InfluxDB escapers treat specially
			for i := range s.Tags {
				if r.Bool() {
					s.Tags[i] = escTag(r)
				}
			}
			if r.Chance(1, 3) {
				s.Name = name + randFrom(r, 1, 4, escAlpha)
				if !free(s.Name, names) {
					continue
				}
				names = append(names, s.Name)
				perType[ty] = append(perType[ty], s.Name)
			}
		}
		if r.Chance(3, 4) {
			sort.Strings(s.Tags) // as Receive leaves them
		}
		s.Spare = []int{0, 0, 1, 1, 2, 3, 4}[r.Intn(7)]
		k := string(ty) + "\x00" + s.Name + "\x00" + tagsKeyOf(s)
		if seen[k] {
			continue
		}
		seen[k] = true
		switch ty {
		case 'c':
			s.Value = int64(r.Range(-1000, 100000))
			if r.Chance(1, 5) {
				s.Value = int64(r.U64()>>11) - (1 << 52)
			}
			s.PS = anyf()
		case 'g':
			s.GV = datum()
		case 's':
			nm := r.Range(0, 4)
			for i := 0; i < nm; i++ {
				s.Members = append(s.Members, randFrom(r, 0, 6, tagAlpha))
			}
			s.Members = dedup(s.Members)
		case 't':
			nv := r.Range(0, 5)
			for i := 0; i < nv; i++ {
				s.Values = append(s.Values, datum())
			}
			s.Count = r.Range(0, 1000)
			s.PS, s.Mean, s.Median, s.Min, s.Max = anyf(), anyf(), anyf(), anyf(), anyf()
			s.StdDev, s.Sum, s.SumSq = anyf(), anyf(), anyf()
			np := []int{0, 0, 1, 2, 4}[r.Intn(5)]
			for i := 0; i < np; i++ {
				s.Pcts = append(s.Pcts, Pct{S: pctNames[r.Intn(len(pctNames))], F: anyf()})
			}
			if r.Chance(1, 4) {
				s.HasHist = true
				nb := r.Range(0, 4)
				thr := []float64{math.Inf(1), 10, 2.5, 0.001, 1e21, 100, 0.5}
				r2 := r.Intn(len(thr))
				for i := 0; i < nb; i++ {
					s.Hist = append(s.Hist, Bucket{T: bits(thr[(r2+i)%len(thr)]), C: r.Range(0, 500)})
				}
			}
		}
		out = append(out, s)
	}
	return out
}

func free(n string, used []string) bool {
	for _, u := range used {
		if u == n || strings.HasPrefix(u, n+".") || strings.HasPrefix(n, u+".") {
			return false
		}
	}
	return true
}

var batchSizes = []int{1, 2, 3, 7, 20, 1000}

func genMask(r *hlib.Rand) (m [9]bool) {
	switch k := r.Intn(10); {
	case k < 4:
	case k < 5:
		for i := range m {
			m[i] = true
		}
	default:
		for i := range m {
			m[i] = r.Chance(1, 3)
		}
	}
	return
}

func genBackends(r *hlib.Rand, stream string) []BackendCfg {
	bs := func() int { return hlib.Pick(r, batchSizes) }
	relay := BackendCfg{Backend: "relay", Batch: hlib.Pick(r, []int{30, 40, 64, 100, 150, 300, 1472}), DT: r.Chance(1, 6), TCP: r.Chance(1, 6)}
	influx := BackendCfg{Backend: "influxdb", Batch: bs(), Compress: r.Bool()}
	dd := BackendCfg{Backend: "datadog", Batch: hlib.Pick(r, []int{1, 2, 3, 7, 20, 1000, 21, 22, 25, 30, 40}), Compress: r.Bool()}
	cw := BackendCfg{Backend: "cloudwatch"}
	ot := BackendCfg{Backend: "otlp", Batch: bs(), Compress: r.Bool()}
	gr := BackendCfg{Backend: "graphite", Mode: hlib.Pick(r, []string{"tags", "basic", "legacy"}), Suffix: hlib.Pick(r, []string{"", "", "sfx", ".a.b."})}
	so := BackendCfg{Backend: "stdout"}
	nr := BackendCfg{Backend: "newrelic", Batch: hlib.Pick(r, []int{1, 2, 3, 7, 20, 1000, 21, 22, 25, 30, 40}), Mode: hlib.Pick(r, []string{"infra", "insights", "metrics"}), Suffix: hlib.Pick(r, []string{"", "", "t_"})}
	switch stream {
	case "f2":
		relay.DT, relay.TCP = false, false
		return []BackendCfg{relay}
	case "f4", "escape", "s5":
		return []BackendCfg{influx}
	case "s6":
		nr.Mode, nr.Suffix = "metrics", ""
		return []BackendCfg{nr}
	case "s7":
		nr.Mode, nr.Suffix = hlib.Pick(r, []string{"infra", "insights"}), ""
		return []BackendCfg{nr}
	case "f3":
		return []BackendCfg{nr}
	case "nonfinite":
		relay.DT = false
		return []BackendCfg{relay, dd, cw, ot, gr, so}
	}
	return []BackendCfg{relay, influx, dd, cw, ot, gr, so, nr}
}

const evAlpha = "abcdefghij XYZ0189|:,#_-{}\n\\\xc3\xa9"

func genEvent(r *hlib.Rand) *Event {
	clean := func(s string) string { return strings.ReplaceAll(s, "\\n", "\\m") } // no literal backslash-n pair
	e := &Event{Title: strings.ReplaceAll(randFrom(r, 0, 10, evAlpha), "\n", " "), Text: clean(randFrom(r, 0, 24, evAlpha))}
	if r.Bool() {
		e.Date = int64(r.Range(0, 2000000000))
	}
	if r.Chance(1, 20) {
		e.Date = math.MaxInt64
	}
	fld := func() string {
		if r.Bool() {
			return ""
		}
		return randFrom(r, 1, 8, "abc.-0:_/ ")
	}
	e.Host, e.Key, e.SType = fld(), fld(), fld()
	e.Pri = r.Intn(2)
	e.Alert = r.Intn(4)
	nt := r.Intn(4)
	for i := 0; i < nt; i++ {
		e.Tags = append(e.Tags, randFrom(r, 1, 8, tagAlpha+" ="))
	}
	return e
}

func genInput(r *hlib.Rand, i int) input {
	stream := "main"
	switch i % 12 {
	case 3:
		stream = "f2"
	case 5:
		stream = "f4"
	case 7:
		stream = "f3"
	case 9:
		stream = "nonfinite"
	case 8:
		stream = "sequence"
	case 1:
		stream = "escape"
	case 10, 11:
		stream = "event"
	}
	if stream == "event" {
		return input{Stream: stream, Series: []Series{}, Backends: []BackendCfg{{Backend: "event"}}, Event: genEvent(r)}
	}
	if i%12 == 2 { // known findings F5-F7 (known_findings.jsonl)
		stream = []string{"s5", "s6", "s7"}[(i/12)%3]
	}
	if stream == "sequence" {
		return genSequence(r)
	}
	n := []int{0, 1, 2, 3, 5, 8, 12, 16, 25, 40}[r.Intn(10)]
	if stream != "main" && n == 0 {
		n = 4
	}
	in := input{Stream: stream, Mask: genMask(r), Series: genSeries(r, stream, n), Backends: genBackends(r, stream)}
	switch stream {
	case "s5": // a tag with an empty key or an empty value (the lexer accepts `a:1|c|#k:`)
		for i := range in.Series {
			if i == 0 || r.Chance(1, 3) {
				in.Series[i].Tags = append(in.Series[i].Tags, hlib.Pick(r, []string{"k:", ":v", "zone:", ":"}))
			}
		}
	case "s6": // at least one set
		in.Series[0].T, in.Series[0].Members = "s", []string{"a", "b"}
	case "s7": // a tag whose key is one of the fixed keys of the metric set
		for i := range in.Series {
			if i == 0 || r.Chance(1, 3) {
				in.Series[i].Tags = append(in.Series[i].Tags, hlib.Pick(r, []string{"value:7", "name:zz", "type:x", "timestamp:5", "interval:1"}))
			}
		}
	}
	return in
}

// genSequence: one backend instance, 2-4 flushes of different maps; for the HTTP backends and
// the relay one or two of the flushes before the last are made to fail for good.
func genSequence(r *hlib.Rand) input {
	all := genBackends(r, "main")
	var pick []BackendCfg
	for _, b := range all {
		switch b.Backend {
		case "datadog", "influxdb", "otlp", "newrelic", "graphite":
			pick = append(pick, b)
		case "relay":
			b.TCP = false
			pick = append(pick, b)
		}
	}
	cfg := hlib.Pick(r, pick)
	if r.Chance(1, 3) {
		cfg = pick[r.Intn(3)+1] // the backends that keep request buffers: influxdb, datadog, (otlp)
	}
	in := input{Stream: "sequence", Mask: genMask(r), Series: []Series{}, Backends: []BackendCfg{cfg}}
	nf := r.Range(2, 4)
	for i := 0; i < nf; i++ {
		n := []int{1, 2, 3, 5, 8}[r.Intn(5)]
		in.Seq = append(in.Seq, FlushIn{Series: genSeries(r.Fork(), "main", n)})
	}
	if cfg.Backend != "graphite" {
		in.Seq[r.Intn(nf-1)].Fail = true
		if nf > 2 && r.Chance(1, 3) {
			in.Seq[r.Intn(nf-1)].Fail = true
		}
	}
	return in
}

func main() {
	a := hlib.ParseArgs()
	em := hlib.NewEmitter()
	defer em.Close()
	switch a.Mode {
	case "gen":
		r := hlib.NewRand(a.Seed)
		for i := 0; i < a.N; i++ {
			runOne(em, genInput(r.Fork(), i))
		}
	case "run":
		var ins []input
		ok := true
		for _, raw := range a.Inputs {
			var in input
			if err := json.Unmarshal(raw, &in); err != nil || in.Backends == nil {
				ok = false
				break
			}
			ins = append(ins, in)
		}
		if !ok {
			// a replay file written by the driver is ONE pretty-printed object spanning many lines
			ins = nil
			var whole struct {
				Input *input `json:"input"`
			}
			for i, arg := range os.Args {
				if (arg == "-inputs" || arg == "--inputs") && i+1 < len(os.Args) {
					if b, err := os.ReadFile(os.Args[i+1]); err == nil && json.Unmarshal(b, &whole) == nil && whole.Input != nil {
						ins = []input{*whole.Input}
					}
				}
			}
			if ins == nil {
				fmt.Fprintln(os.Stderr, "bad input: neither JSON lines nor a replay object")
				os.Exit(2)
			}
		}
		for _, in := range ins {
			runOne(em, in)
		}
	}
}
