package main

import (
	"fmt"
	"math"
	"sort"
	"strconv"
	"strings"

	"github.com/atlassian/gostatsd"

	"verifharness/hlib"
)

// Series is one flushed series of the input map; floats travel as bit patterns.
type Series struct {
	T       string   `json:"t"` // c | t | g | s
	Name    string   `json:"name"`
	Tags    []string `json:"tags"`
	Src     string   `json:"src"`
	Spare   int      `json:"spare,omitempty"`   // spare capacity of the Tags slice (cap - len), as append-built tag lists have
	Value   int64    `json:"value,omitempty"`   // counter
	PS      uint64   `json:"ps,omitempty"`      // counter / timer per second
	GV      uint64   `json:"gv,omitempty"`      // gauge value
	Members []string `json:"members,omitempty"` // set
	Count   int      `json:"count,omitempty"`
	Mean    uint64   `json:"mean,omitempty"`
	Median  uint64   `json:"median,omitempty"`
	Min     uint64   `json:"min,omitempty"`
	Max     uint64   `json:"max,omitempty"`
	StdDev  uint64   `json:"stddev,omitempty"`
	Sum     uint64   `json:"sum,omitempty"`
	SumSq   uint64   `json:"sumsq,omitempty"`
	Values  []uint64 `json:"values,omitempty"`
	Pcts    []Pct    `json:"pcts,omitempty"`
	HasHist bool     `json:"hashist,omitempty"`
	Hist    []Bucket `json:"hist,omitempty"`
}

type Pct struct {
	S string `json:"s"`
	F uint64 `json:"f"`
}

type Bucket struct {
	T uint64 `json:"t"`
	C int    `json:"c"`
}

// Event as input.
type Event struct {
	Title, Text string
	Date        int64
	Host, Key   string
	Pri         int
	SType       string
	Alert       int
	Tags        []string
}

// BackendCfg is the configuration of one backend run on the case's map.
type BackendCfg struct {
	Backend  string `json:"backend"`
	Batch    int    `json:"batch,omitempty"`    // metrics per batch / packet size
	Compress bool   `json:"compress,omitempty"` // datadog, influxdb, otlp
	DT       bool   `json:"dt,omitempty"`       // relay: disable tags
	TCP      bool   `json:"tcp,omitempty"`      // relay
	Mode     string `json:"mode,omitempty"`     // graphite: tags | basic | legacy; newrelic: flush type
	Suffix   string `json:"suffix,omitempty"`   // graphite global suffix
}

type input struct {
	Stream   string       `json:"stream"` // main | f2 | f3 | f4 | nonfinite | event
	Mask     [9]bool      `json:"mask"`
	Series   []Series     `json:"series"`
	Backends []BackendCfg `json:"backends"`
	Event    *Event       `json:"event,omitempty"`
	Seq      []FlushIn    `json:"seq,omitempty"` // stream "sequence": consecutive flushes through one client
}

func f(b uint64) float64 { return math.Float64frombits(b) }

func (in *input) subtypes() gostatsd.TimerSubtypes {
	m := in.Mask
	return gostatsd.TimerSubtypes{Lower: m[0], Upper: m[1], Count: m[2], CountPerSecond: m[3], Mean: m[4], Median: m[5], StdDev: m[6], Sum: m[7], SumSquares: m[8]}
}

// buildMap constructs a fresh gostatsd.MetricMap (backends may mutate tags slices).
func (in *input) buildMap() *gostatsd.MetricMap {
	mm := gostatsd.NewMetricMap(false)
	for _, s := range in.Series {
		// the pipeline builds tag lists by appending (static tags, cloud tags, AddTagsSetSource):
		// the slice usually has spare capacity, so an append by a backend may write into it
		tags := make(gostatsd.Tags, len(s.Tags), len(s.Tags)+s.Spare)
		copy(tags, s.Tags)
		if len(tags) == 0 && s.Spare == 0 {
			tags = nil
		}
		key := gostatsd.FormatTagsKey(gostatsd.Source(s.Src), append(gostatsd.Tags{}, s.Tags...))
		switch s.T {
		case "c":
			if mm.Counters[s.Name] == nil {
				mm.Counters[s.Name] = map[string]gostatsd.Counter{}
			}
			mm.Counters[s.Name][key] = gostatsd.Counter{PerSecond: f(s.PS), Value: s.Value, Source: gostatsd.Source(s.Src), Tags: tags}
		case "g":
			if mm.Gauges[s.Name] == nil {
				mm.Gauges[s.Name] = map[string]gostatsd.Gauge{}
			}
			mm.Gauges[s.Name][key] = gostatsd.Gauge{Value: f(s.GV), Source: gostatsd.Source(s.Src), Tags: tags}
		case "s":
			if mm.Sets[s.Name] == nil {
				mm.Sets[s.Name] = map[string]gostatsd.Set{}
			}
			vals := map[string]struct{}{}
			for _, m := range s.Members {
				vals[m] = struct{}{}
			}
			mm.Sets[s.Name][key] = gostatsd.Set{Values: vals, Source: gostatsd.Source(s.Src), Tags: tags}
		case "t":
			if mm.Timers[s.Name] == nil {
				mm.Timers[s.Name] = map[string]gostatsd.Timer{}
			}
			t := gostatsd.Timer{Count: s.Count, PerSecond: f(s.PS), Mean: f(s.Mean), Median: f(s.Median), Min: f(s.Min), Max: f(s.Max),
				StdDev: f(s.StdDev), Sum: f(s.Sum), SumSquares: f(s.SumSq), Source: gostatsd.Source(s.Src), Tags: tags}
			for _, v := range s.Values {
				t.Values = append(t.Values, f(v))
			}
			t.SampledCount = float64(len(t.Values))
			for _, p := range s.Pcts {
				t.Percentiles = append(t.Percentiles, gostatsd.Percentile{Float: f(p.F), Str: p.S})
			}
			if s.HasHist {
				t.Histogram = map[gostatsd.HistogramThreshold]int{}
				for _, b := range s.Hist {
					t.Histogram[gostatsd.HistogramThreshold(f(b.T))] = b.C
				}
			}
			mm.Timers[s.Name][key] = t
		}
	}
	return mm
}

func tagsKeyOf(s Series) string {
	return gostatsd.FormatTagsKey(gostatsd.Source(s.Src), append(gostatsd.Tags{}, s.Tags...))
}

// ---------------------------------------------------------------------------------------
// Coq terms

func zbits(b uint64) string { return hlib.ZU(b) }

func (in *input) coqMap() string {
	var cs, ts, gs, ss []string
	for _, s := range in.Series {
		head := []string{hlib.Bytes(s.Name), hlib.Bytes(tagsKeyOf(s)), hlib.StrList(s.Tags), hlib.Bytes(s.Src)}
		switch s.T {
		case "c":
			cs = append(cs, hlib.App("MkFC", append(head, hlib.Z(s.Value), zbits(s.PS))...))
		case "g":
			gs = append(gs, hlib.App("MkFG", append(head, zbits(s.GV))...))
		case "s":
			ss = append(ss, hlib.App("MkFS", append(head, hlib.StrList(dedup(s.Members)))...))
		case "t":
			var vs, ps []string
			for _, v := range s.Values {
				vs = append(vs, zbits(v))
			}
			for _, p := range s.Pcts {
				ps = append(ps, hlib.Pair(hlib.Bytes(p.S), zbits(p.F)))
			}
			hist := "None"
			if s.HasHist {
				var hs []string
				for _, b := range dedupBuckets(s.Hist) {
					hs = append(hs, hlib.Pair(zbits(b.T), hlib.Z(int64(b.C))))
				}
				hist = "(Some " + hlib.List(hs) + ")"
			}
			ts = append(ts, hlib.App("MkFT", append(head, hlib.Z(int64(s.Count)), zbits(s.PS), zbits(s.Mean), zbits(s.Median), zbits(s.Min), zbits(s.Max),
				zbits(s.StdDev), zbits(s.Sum), zbits(s.SumSq), hlib.List(vs), hlib.List(ps), hist)...))
		}
	}
	return hlib.App("MkFM", hlib.List(cs), hlib.List(ts), hlib.List(gs), hlib.List(ss))
}

func dedup(xs []string) []string {
	seen := map[string]bool{}
	var out []string
	for _, x := range xs {
		if !seen[x] {
			seen[x] = true
			out = append(out, x)
		}
	}
	return out
}

// a Go map keeps the last count written for a threshold
func dedupBuckets(bs []Bucket) []Bucket {
	idx := map[uint64]int{}
	var out []Bucket
	for _, b := range bs {
		k := math.Float64bits(f(b.T)) // key identity of float64 map keys: by value; -0 and +0 collide, NaN never
		if f(b.T) == 0 {
			k = 0
		}
		if i, ok := idx[k]; ok {
			out[i].C = b.C
			continue
		}
		idx[k] = len(out)
		out = append(out, b)
	}
	return out
}

func (in *input) coqMask() string {
	a := make([]string, 9)
	for i, b := range in.Mask {
		a[i] = hlib.Bool(b)
	}
	return hlib.App("MkMask", a...)
}

// coqTable is the printing oracle: every float bit pattern of the map -> (%f, %g, FormatFloat 'f' -1),
// computed directly from fmt / strconv.
func (in *input) coqTable() string {
	seen := map[uint64]bool{}
	var keys []uint64
	add := func(b uint64) {
		if !seen[b] {
			seen[b] = true
			keys = append(keys, b)
		}
	}
	for _, s := range in.Series {
		switch s.T {
		case "c":
			add(s.PS)
		case "g":
			add(s.GV)
		case "t":
			for _, b := range []uint64{s.PS, s.Mean, s.Median, s.Min, s.Max, s.StdDev, s.Sum, s.SumSq} {
				add(b)
			}
			for _, v := range s.Values {
				add(v)
			}
			for _, p := range s.Pcts {
				add(p.F)
			}
			for _, b := range s.Hist {
				add(b.T)
			}
		}
	}
	sort.Slice(keys, func(i, j int) bool { return keys[i] < keys[j] })
	el := make([]string, len(keys))
	for i, b := range keys {
		v := f(b)
		el[i] = hlib.Pair(zbits(b), "("+hlib.Bytes(fmt.Sprintf("%f", v))+", "+hlib.Bytes(fmt.Sprintf("%g", v))+", "+hlib.Bytes(strconv.FormatFloat(v, 'f', -1, 64))+")")
	}
	return hlib.List(el)
}

// Item mirrors GS.Model.Batching.item.
type Item struct {
	Name, Kind, Host string
	Tags             []string
	Vals             []KV
}

type KV struct {
	K    string
	Kind byte // 'i' int, 'f' float bits, 's' string
	I    int64
	F    uint64
	S    string
}

func (it Item) Coq() string {
	vs := make([]string, len(it.Vals))
	for i, v := range it.Vals {
		var x string
		switch v.Kind {
		case 'i':
			x = "(VI " + hlib.Z(v.I) + ")"
		case 'f':
			x = "(VF " + zbits(v.F) + ")"
		default:
			x = "(VS " + hlib.Bytes(v.S) + ")"
		}
		vs[i] = hlib.Pair(hlib.Bytes(v.K), x)
	}
	return hlib.App("MkItem", hlib.Bytes(it.Name), hlib.Bytes(it.Kind), hlib.Bytes(it.Host), hlib.StrList(it.Tags), hlib.List(vs))
}

func (it Item) String() string {
	var vs []string
	for _, v := range it.Vals {
		switch v.Kind {
		case 'i':
			vs = append(vs, fmt.Sprintf("%s=%d", v.K, v.I))
		case 'f':
			vs = append(vs, fmt.Sprintf("%s=%v", v.K, f(v.F)))
		default:
			vs = append(vs, fmt.Sprintf("%s=%q", v.K, v.S))
		}
	}
	return fmt.Sprintf("%q kind=%q host=%q tags=%q %s", it.Name, it.Kind, it.Host, it.Tags, strings.Join(vs, ","))
}

func coqBatches(bs [][]Item) string {
	el := make([]string, len(bs))
	for i, b := range bs {
		el[i] = coqItems(b)
	}
	return hlib.List(el)
}

func coqItems(b []Item) string {
	il := make([]string, len(b))
	for j, it := range b {
		il[j] = it.Coq()
	}
	return hlib.List(il)
}

func lineItem(l string) Item { return Item{Name: l} }

func fmtS(b uint64) string {
	if math.IsInf(f(b), 1) {
		return "infinity"
	}
	return strconv.FormatFloat(f(b), 'f', -1, 64)
}
