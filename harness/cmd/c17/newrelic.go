package main

import (
	"fmt"
	"math"
	"sort"
	"strings"

	"github.com/atlassian/gostatsd"
	"github.com/atlassian/gostatsd/pkg/backends/newrelic"

	"verifharness/hlib"
)

var nrModes = map[string]int{"infra": 0, "insights": 1, "metrics": 2}

// jsonVals turns a decoded JSON object into item values (sorted by key): numbers as float64
// bits, strings as strings; anything else is reported.
func jsonVals(prefix string, o map[string]interface{}, bad *[]string) []KV {
	keys := make([]string, 0, len(o))
	for k := range o {
		keys = append(keys, k)
	}
	sort.Strings(keys)
	var out []KV
	for _, k := range keys {
		switch v := o[k].(type) {
		case float64:
			out = append(out, KV{K: prefix + k, Kind: 'f', F: math.Float64bits(v)})
		case string:
			out = append(out, KV{K: prefix + k, Kind: 's', S: v})
		default:
			*bad = append(*bad, fmt.Sprintf("newrelic: field %q has unexpected JSON type %T", k, v))
		}
	}
	return out
}

func runNewRelic(in *input, cfg BackendCfg) bres {
	var r bres
	srv, p := httpEnv()
	srv.take()
	mode := nrModes[cfg.Mode]
	apiKey := ""
	if mode != 0 {
		apiKey = "key"
	}
	cli, err := client("newrelic", func() (gostatsd.Backend, error) {
		v := baseViper(in)
		nr := map[string]interface{}{"address": srv.srv.URL + "/v1/data", "address-metrics": srv.srv.URL + "/metric/v1", "flush-type": cfg.Mode,
			"tag-prefix": cfg.Suffix, "metrics-per-batch": cfg.Batch, "max-requests": int(maxReq(8)), "max-request-elapsed-time": "5s"}
		if apiKey != "" {
			nr["api-key"] = apiKey
		}
		v.Set("newrelic", nr)
		return newrelic.NewClientFromViper(v, quiet, p)
	})
	if err != nil {
		r.monitors = append(r.monitors, "newrelic.NewClient: "+err.Error())
		return r
	}
	errs, bad := flush(cli, in.buildMap())
	if bad != "" {
		r.monitors = append(r.monitors, "newrelic: "+bad)
	}
	if seq.fail {
		return r
	}
	for _, e := range errs {
		if strings.Contains(e.Error(), "unable to marshal") && strings.Contains(e.Error(), "unsupported value") {
			// F3: the whole batch is not sent
			r.monitors = append(r.monitors, "newrelic: F3: a batch was not sent: "+e.Error())
		} else {
			r.monitors = append(r.monitors, "newrelic: send error: "+e.Error())
		}
	}
	var batches [][]Item
	for _, c := range srv.take() {
		if (c.encoding == "gzip") != (mode != 0) {
			r.monitors = append(r.monitors, fmt.Sprintf("newrelic: Content-Encoding %q for flush type %s", c.encoding, cfg.Mode))
		}
		body, err := decodeBody(c)
		if err != nil {
			r.monitors = append(r.monitors, "newrelic: body is not exactly one well-formed compressed stream: "+err.Error())
			if body == nil {
				continue
			}
		}
		var sets []map[string]interface{}
		switch mode {
		case 0:
			var pl struct {
				Name               *string `json:"name"`
				ProtocolVersion    *string `json:"protocol_version"`
				IntegrationVersion *string `json:"integration_version"`
				Data               []struct {
					Metrics []map[string]interface{} `json:"metrics"`
				} `json:"data"`
			}
			if err := oneJSON(body, &pl); err != nil || pl.Name == nil || len(pl.Data) != 1 {
				r.monitors = append(r.monitors, fmt.Sprintf("newrelic: not an infrastructure payload (%v): %.200q", err, body))
				continue
			}
			sets = pl.Data[0].Metrics
		case 1:
			if err := oneJSON(body, &sets); err != nil {
				r.monitors = append(r.monitors, fmt.Sprintf("newrelic: not an insights event array (%v): %.200q", err, body))
				continue
			}
		case 2:
			var pl []struct {
				Common struct {
					Attributes map[string]interface{} `json:"attributes"`
					IntervalMs float64                `json:"interval.ms"`
				} `json:"common"`
				Metrics []map[string]interface{} `json:"metrics"`
			}
			if err := oneJSON(body, &pl); err != nil || len(pl) != 1 {
				r.monitors = append(r.monitors, fmt.Sprintf("newrelic: not a metric API payload (%v): %.200q", err, body))
				continue
			}
			if pl[0].Common.IntervalMs != flushInterval.Seconds()*1000 {
				r.monitors = append(r.monitors, fmt.Sprintf("newrelic: interval.ms %v", pl[0].Common.IntervalMs))
			}
			sets = pl[0].Metrics
		}
		batch := []Item{}
		for _, o := range sets {
			if mode != 2 {
				batch = append(batch, Item{Vals: jsonVals("", o, &r.monitors)})
				continue
			}
			it := Item{}
			for k, v := range o {
				switch k {
				case "name":
					it.Name, _ = v.(string)
				case "type":
					it.Kind, _ = v.(string)
				case "timestamp":
					if ts, _ := v.(float64); ts != nowUnix {
						r.monitors = append(r.monitors, fmt.Sprintf("newrelic: timestamp %v", v))
					}
				case "value":
					switch x := v.(type) {
					case float64:
						it.Vals = append(it.Vals, KV{K: "value", Kind: 'f', F: math.Float64bits(x)})
					case map[string]interface{}:
						it.Vals = append(it.Vals, jsonVals("", x, &r.monitors)...)
					default:
						r.monitors = append(r.monitors, fmt.Sprintf("newrelic: value of JSON type %T", v))
					}
				case "attributes":
					if a, ok := v.(map[string]interface{}); ok {
						it.Vals = append(it.Vals, jsonVals("@", a, &r.monitors)...)
					}
				default:
					r.monitors = append(r.monitors, "newrelic: unexpected metric field "+k)
				}
			}
			batch = append(batch, it)
		}
		batches = append(batches, batch)
		r.nitems += len(batch)
	}
	r.nbatches = len(batches)
	switch in.Stream {
	case "s6":
		for _, b := range batches {
			for _, it := range b {
				if it.Kind == "" {
					r.monitors = append(r.monitors, fmt.Sprintf("newrelic: F6: metric %q is sent without type and value (the set's cardinality is lost)", it.Name))
				}
			}
		}
	case "s7":
		// every series must be there under its own name with its own value and type
		for _, s := range in.Series {
			if s.T == "t" {
				continue
			}
			want := map[string]float64{"c": float64(s.Value), "g": f(s.GV), "s": float64(len(dedup(s.Members)))}[s.T]
			found := false
			for _, b := range batches {
				for _, it := range b {
					var name, ty string
					var val float64
					for _, kv := range it.Vals {
						switch kv.K {
						case "name":
							name = kv.S
						case "type":
							ty = kv.S
						case "value":
							val = f(kv.F)
						}
					}
					if name == s.Name && ty == map[string]string{"c": "counter", "g": "gauge", "s": "set"}[s.T] && val == want {
						found = true
					}
				}
			}
			if !found {
				r.monitors = append(r.monitors, fmt.Sprintf("newrelic: F7: no metric set carries name %q, its type and its value %v (tags %q overwrote a fixed field)", s.Name, want, s.Tags))
			}
		}
	}
	// strconv.ParseFloat oracle: tag values and percentile suffixes
	cands := map[string]bool{"infinity": true}
	for _, s := range in.Series {
		for _, t := range s.Tags {
			if i := strings.IndexByte(t, ':'); i >= 0 {
				cands[t[i+1:]] = true
			}
		}
		cands[s.Src] = true
		for _, p := range s.Pcts {
			if i := strings.LastIndexByte(p.S, '_'); i >= 0 {
				cands[p.S[i+1:]] = true
			}
		}
		for _, b := range s.Hist {
			cands[fmtS(b.T)] = true
		}
	}
	var pfl []string
	for s := range cands {
		pfl = append(pfl, hlib.Pair(hlib.Bytes(s), pfTerm(s)))
	}
	sort.Strings(pfl)
	r.coq = hlib.App("BNewRelic", hlib.N(uint64(cfg.Batch)), hlib.N(uint64(mode)), hlib.Bool(in.Stream == "f3"), hlib.Bytes(cfg.Suffix),
		hlib.Z(nowUnix), hlib.F64(flushInterval.Seconds()), hlib.List(pfl), coqBatches(batches))
	r.obs = describe(batches)
	return r
}
