package main

import (
	"bytes"
	"compress/gzip"
	"compress/zlib"
	"context"
	"encoding/json"
	"fmt"
	"io"
	"math"
	"net"
	"net/http"
	"net/http/httptest"
	"sort"
	"strconv"
	"strings"
	"sync"
	"time"

	awscw "github.com/aws/aws-sdk-go-v2/service/cloudwatch"
	"github.com/sirupsen/logrus"
	"github.com/spf13/viper"
	"github.com/tilinna/clock"
	v1export "go.opentelemetry.io/proto/otlp/collector/metrics/v1"
	v1common "go.opentelemetry.io/proto/otlp/common/v1"
	v1metrics "go.opentelemetry.io/proto/otlp/metrics/v1"
	"google.golang.org/protobuf/proto"

	"github.com/atlassian/gostatsd"
	"github.com/atlassian/gostatsd/pkg/backends/cloudwatch"
	"github.com/atlassian/gostatsd/pkg/backends/datadog"
	"github.com/atlassian/gostatsd/pkg/backends/graphite"
	"github.com/atlassian/gostatsd/pkg/backends/influxdb"
	"github.com/atlassian/gostatsd/pkg/backends/otlp"
	"github.com/atlassian/gostatsd/pkg/backends/statsdaemon"
	"github.com/atlassian/gostatsd/pkg/backends/stdout"
	"github.com/atlassian/gostatsd/pkg/transport"
	"github.com/atlassian/gostatsd/verifhooks"

	"verifharness/hlib"
)

const nowUnix = 1700000000
const flushInterval = 10 * time.Second

var quiet = func() *logrus.Logger { l := logrus.New(); l.SetOutput(io.Discard); return l }()

func fixedCtx() (context.Context, context.CancelFunc) {
	ctx, cancel := context.WithCancel(context.Background())
	return clock.Context(ctx, clock.NewMock(time.Unix(nowUnix, 0))), cancel
}

// result of one backend run
type bres struct {
	coq      string   // bcase term ("" = none)
	monitors []string // direct violations
	obs      interface{}
	nbatches int
	nitems   int
}

// ---------------------------------------------------------------------------------------
// capturing HTTP server shared by the HTTP backends; cases run one at a time

type captured struct {
	path     string
	encoding string
	ctype    string
	body     []byte
}

type capServer struct {
	srv *httptest.Server
	mu  sync.Mutex
	got []captured
}

func newCapServer() *capServer {
	c := &capServer{}
	c.srv = httptest.NewServer(http.HandlerFunc(func(w http.ResponseWriter, r *http.Request) {
		b, _ := io.ReadAll(r.Body)
		c.mu.Lock()
		c.got = append(c.got, captured{path: r.URL.Path, encoding: r.Header.Get("Content-Encoding"), ctype: r.Header.Get("Content-Type"), body: b})
		c.mu.Unlock()
		w.WriteHeader(http.StatusAccepted)
	}))
	return c
}

func (c *capServer) take() []captured {
	c.mu.Lock()
	defer c.mu.Unlock()
	g := c.got
	c.got = nil
	return g
}

var (
	capOnce sync.Once
	capSrv  *capServer
	pool    *transport.TransportPool
)

func httpEnv() (*capServer, *transport.TransportPool) {
	capOnce.Do(func() {
		capSrv = newCapServer()
		pool = transport.NewTransportPool(quiet, viper.New())
	})
	return capSrv, pool
}

// send runs SendMetricsAsync and waits for the callback; returns the errors it delivered.
func send(ctx context.Context, b gostatsd.Backend, mm *gostatsd.MetricMap) ([]error, string) {
	done := make(chan []error, 4)
	calls := 0
	var mu sync.Mutex
	msg := hlib.Recover(func() {
		b.SendMetricsAsync(ctx, mm, func(errs []error) {
			mu.Lock()
			calls++
			mu.Unlock()
			done <- errs
		})
	})
	if msg != "" {
		return nil, "SendMetricsAsync panicked: " + msg
	}
	select {
	case errs := <-done:
		var real []error
		for _, e := range errs {
			if e != nil {
				real = append(real, e)
			}
		}
		return real, ""
	case <-time.After(20 * time.Second):
		return nil, "callback not invoked within 20s"
	}
}

func decodeBody(c captured) ([]byte, error) {
	switch c.encoding {
	case "gzip":
		r, err := gzip.NewReader(bytes.NewReader(c.body))
		if err != nil {
			return nil, err
		}
		return io.ReadAll(r)
	case "deflate":
		r, err := zlib.NewReader(bytes.NewReader(c.body))
		if err != nil {
			return nil, err
		}
		return io.ReadAll(r)
	case "", "identity":
		return c.body, nil
	}
	return nil, fmt.Errorf("unknown content encoding %q", c.encoding)
}

func fv(k string, v float64) KV { return KV{K: k, Kind: 'f', F: math.Float64bits(v)} }

// ---------------------------------------------------------------------------------------
// Datadog

type ddPayload struct {
	Series []struct {
		Host     string       `json:"host"`
		Interval float64      `json:"interval"`
		Metric   *string      `json:"metric"`
		Points   [][2]float64 `json:"points"`
		Tags     []string     `json:"tags"`
		Type     string       `json:"type"`
	} `json:"series"`
}

func runDatadog(in *input, cfg BackendCfg) bres {
	var r bres
	srv, p := httpEnv()
	srv.take()
	cli, err := datadog.NewClient(srv.srv.URL, "key", "agent", "default", cfg.Batch, 8, cfg.Compress, 5*time.Second, flushInterval, in.subtypes(), quiet, p)
	if err != nil {
		r.monitors = append(r.monitors, "datadog.NewClient: "+err.Error())
		return r
	}
	ctx, cancel := fixedCtx()
	defer cancel()
	errs, bad := send(ctx, cli, in.buildMap())
	if bad != "" {
		r.monitors = append(r.monitors, "datadog: "+bad)
	}
	for _, e := range errs {
		r.monitors = append(r.monitors, "datadog: send error: "+e.Error())
	}
	var batches [][]Item
	for _, c := range srv.take() {
		if (c.encoding == "deflate") != cfg.Compress {
			r.monitors = append(r.monitors, fmt.Sprintf("datadog: Content-Encoding %q with compress_payload=%v", c.encoding, cfg.Compress))
		}
		body, err := decodeBody(c)
		if err != nil {
			r.monitors = append(r.monitors, "datadog: body does not decompress: "+err.Error())
			continue
		}
		var pl ddPayload
		dec := json.NewDecoder(bytes.NewReader(body))
		dec.DisallowUnknownFields()
		if err := dec.Decode(&pl); err != nil {
			r.monitors = append(r.monitors, "datadog: payload is not the documented JSON: "+err.Error())
			continue
		}
		if pl.Series == nil {
			r.monitors = append(r.monitors, "datadog: payload without series array")
		}
		batch := []Item{}
		for _, m := range pl.Series {
			if m.Metric == nil || len(m.Points) != 1 {
				r.monitors = append(r.monitors, "datadog: series without metric name or without exactly one point")
				continue
			}
			if m.Points[0][0] != nowUnix || m.Interval != flushInterval.Seconds() {
				r.monitors = append(r.monitors, fmt.Sprintf("datadog: %s: timestamp %v / interval %v", *m.Metric, m.Points[0][0], m.Interval))
			}
			batch = append(batch, Item{Name: *m.Metric, Kind: m.Type, Host: m.Host, Tags: m.Tags, Vals: []KV{fv("v", m.Points[0][1])}})
		}
		batches = append(batches, batch)
		r.nitems += len(batch)
	}
	r.nbatches = len(batches)
	r.coq = hlib.App("BDatadog", hlib.N(uint64(cfg.Batch)), coqBatches(batches))
	r.obs = describe(batches)
	return r
}

func describe(bs [][]Item) []string {
	var out []string
	for i, b := range bs {
		for _, it := range b {
			out = append(out, fmt.Sprintf("#%d %s", i, it.String()))
			if len(out) > 60 {
				return append(out, "...")
			}
		}
	}
	return out
}

// ---------------------------------------------------------------------------------------
// InfluxDB

func runInflux(in *input, cfg BackendCfg) bres {
	var r bres
	srv, p := httpEnv()
	srv.take()
	v := viper.New()
	v.Set("influxdb.api-endpoint", srv.srv.URL)
	v.Set("influxdb.api-version", 2)
	v.Set("influxdb.bucket", "b")
	v.Set("influxdb.org", "o")
	v.Set("influxdb.compress-payload", cfg.Compress)
	v.Set("influxdb.metrics-per-batch", cfg.Batch)
	v.Set("influxdb.max-requests", 64)
	v.Set("flush-interval", flushInterval)
	m := in.Mask
	for i, k := range []string{"lower", "upper", "count", "count-per-second", "mean", "median", "stddev", "sum", "sum-squares"} {
		v.Set("disabled-sub-metrics."+k, m[i])
	}
	b, err := influxdb.NewClientFromViper(v, quiet, p)
	if err != nil {
		r.monitors = append(r.monitors, "influxdb.NewClientFromViper: "+err.Error())
		return r
	}
	ctx, cancel := fixedCtx()
	defer cancel()
	errs, bad := send(ctx, b, in.buildMap())
	if bad != "" {
		r.monitors = append(r.monitors, "influxdb: "+bad)
	}
	for _, e := range errs {
		r.monitors = append(r.monitors, "influxdb: send error: "+e.Error())
	}
	var batches [][]Item
	var bodies []string
	for _, c := range srv.take() {
		if (c.encoding == "gzip") != cfg.Compress {
			r.monitors = append(r.monitors, fmt.Sprintf("influxdb: Content-Encoding %q with compress-payload=%v", c.encoding, cfg.Compress))
		}
		body, err := decodeBody(c)
		if err != nil {
			r.monitors = append(r.monitors, "influxdb: body does not decompress: "+err.Error())
			continue
		}
		text := string(body)
		bodies = append(bodies, hlib.Bytes(text))
		if !strings.HasSuffix(text, "\n") {
			r.monitors = append(r.monitors, "influxdb: body does not end with a newline")
		}
		batch := []Item{}
		for _, line := range strings.Split(strings.TrimSuffix(text, "\n"), "\n") {
			if lp, err := parseLP(line); err != nil {
				r.monitors = append(r.monitors, fmt.Sprintf("influxdb: not valid line protocol (%v): %q", err, line))
			} else if lp.TS != strconv.Itoa(nowUnix) {
				r.monitors = append(r.monitors, fmt.Sprintf("influxdb: timestamp %q: %q", lp.TS, line))
			}
			head, fields, ts := splitLP(line)
			it := Item{Name: head, Kind: ts}
			var parts []string
			for _, f := range fields {
				it.Vals = append(it.Vals, KV{K: f[0], Kind: 's', S: f[1]})
				parts = append(parts, f[0]+"="+f[1])
			}
			if head+strings.Join(parts, ",")+" "+ts != line {
				r.monitors = append(r.monitors, fmt.Sprintf("harness: influx line does not re-render: %q", line))
			}
			batch = append(batch, it)
		}
		if len(batch) > cfg.Batch {
			r.monitors = append(r.monitors, fmt.Sprintf("influxdb: batch of %d lines exceeds metrics-per-batch %d", len(batch), cfg.Batch))
		}
		batches = append(batches, batch)
		r.nitems += len(batch)
	}
	r.nbatches = len(batches)
	// the model side reads the raw bodies with the Gallina line-protocol reader (strict, except in
	// the streams of the known findings F4 / F5 whose lines are not valid line protocol)
	lossy := in.Stream == "f4" || in.Stream == "s5"
	r.coq = hlib.App("BInflux", hlib.N(uint64(cfg.Batch)), hlib.Bool(lossy), hlib.Z(nowUnix), hlib.List(bodies))
	r.obs = describe(batches)
	return r
}

// ---------------------------------------------------------------------------------------
// OTLP (AsGauge)

func renderAttrs(kvs []*v1common.KeyValue) []string {
	var out []string
	for _, kv := range kvs {
		switch v := kv.Value.GetValue().(type) {
		case *v1common.AnyValue_StringValue:
			out = append(out, kv.Key+"="+v.StringValue)
		case *v1common.AnyValue_ArrayValue:
			var vs []string
			for _, x := range v.ArrayValue.Values {
				vs = append(vs, x.GetStringValue())
			}
			out = append(out, kv.Key+"="+strings.Join(vs, "|"))
		default:
			out = append(out, kv.Key+"=?")
		}
	}
	return out
}

func runOTLP(in *input, cfg BackendCfg) bres {
	var r bres
	srv, p := httpEnv()
	srv.take()
	v := viper.New()
	v.Set("otlp.metrics_endpoint", srv.srv.URL+"/v1/metrics")
	v.Set("otlp.logs_endpoint", srv.srv.URL+"/v1/logs")
	v.Set("otlp.compress_payload", cfg.Compress)
	v.Set("otlp.metrics_per_batch", cfg.Batch)
	v.Set("otlp.max_requests", 16)
	m := in.Mask
	for i, k := range []string{"Lower", "Upper", "Count", "CountPerSecond", "Mean", "Median", "StdDev", "Sum", "SumSquares"} {
		v.Set("otlp.disabled_timer_aggregations."+k, m[i])
	}
	b, err := otlp.NewClientFromViper(v, quiet, p)
	if err != nil {
		r.monitors = append(r.monitors, "otlp.NewClientFromViper: "+err.Error())
		return r
	}
	ctx, cancel := fixedCtx()
	defer cancel()
	errs, bad := send(ctx, b, in.buildMap())
	if bad != "" {
		r.monitors = append(r.monitors, "otlp: "+bad)
	}
	for _, e := range errs {
		r.monitors = append(r.monitors, "otlp: send error: "+e.Error())
	}
	var batches [][]Item
	for _, c := range srv.take() {
		if (c.encoding == "gzip") != cfg.Compress {
			r.monitors = append(r.monitors, fmt.Sprintf("otlp: Content-Encoding %q with compress_payload=%v", c.encoding, cfg.Compress))
		}
		body, err := decodeBody(c)
		if err != nil {
			r.monitors = append(r.monitors, "otlp: body does not decompress: "+err.Error())
			continue
		}
		var req v1export.ExportMetricsServiceRequest
		if err := proto.Unmarshal(body, &req); err != nil {
			r.monitors = append(r.monitors, "otlp: body is not an ExportMetricsServiceRequest: "+err.Error())
			continue
		}
		batch := []Item{}
		for _, rm := range req.ResourceMetrics {
			for _, sm := range rm.ScopeMetrics {
				for _, mt := range sm.Metrics {
					it := Item{Name: mt.Name}
					var dps []*v1metrics.NumberDataPoint
					switch d := mt.Data.(type) {
					case *v1metrics.Metric_Gauge:
						it.Kind = "gauge"
						dps = d.Gauge.DataPoints
					case *v1metrics.Metric_Sum:
						it.Kind = "sum"
						dps = d.Sum.DataPoints
					default:
						it.Kind = fmt.Sprintf("%T", mt.Data)
					}
					if len(dps) != 1 {
						r.monitors = append(r.monitors, fmt.Sprintf("otlp: metric %q with %d data points", mt.Name, len(dps)))
					} else {
						dp := dps[0]
						if dp.TimeUnixNano != uint64(nowUnix)*1e9 {
							r.monitors = append(r.monitors, fmt.Sprintf("otlp: metric %q timestamp %d", mt.Name, dp.TimeUnixNano))
						}
						it.Tags = renderAttrs(dp.Attributes)
						switch x := dp.Value.(type) {
						case *v1metrics.NumberDataPoint_AsInt:
							it.Vals = []KV{{K: "v", Kind: 'i', I: x.AsInt}}
						case *v1metrics.NumberDataPoint_AsDouble:
							it.Vals = []KV{fv("v", x.AsDouble)}
						}
					}
					batch = append(batch, it)
				}
			}
		}
		if len(batch) > cfg.Batch {
			r.monitors = append(r.monitors, fmt.Sprintf("otlp: batch of %d metrics exceeds metrics_per_batch %d", len(batch), cfg.Batch))
		}
		batches = append(batches, batch)
		r.nitems += len(batch)
	}
	r.nbatches = len(batches)
	r.coq = hlib.App("BOtlp", hlib.N(uint64(cfg.Batch)), coqBatches(batches))
	r.obs = describe(batches)
	return r
}

// ---------------------------------------------------------------------------------------
// CloudWatch (fake API client)

type fakeCW struct {
	mu    sync.Mutex
	calls []*awscw.PutMetricDataInput
}

func (f *fakeCW) PutMetricData(ctx context.Context, in *awscw.PutMetricDataInput, _ ...func(*awscw.Options)) (*awscw.PutMetricDataOutput, error) {
	f.mu.Lock()
	defer f.mu.Unlock()
	f.calls = append(f.calls, in)
	return &awscw.PutMetricDataOutput{}, nil
}

func runCloudwatch(in *input, cfg BackendCfg) bres {
	var r bres
	api := &fakeCW{}
	cli := cloudwatch.VerifNewClientC17(api, "NS", in.subtypes(), quiet)
	ctx, cancel := fixedCtx()
	defer cancel()
	errs, bad := send(ctx, cli, in.buildMap())
	if bad != "" {
		r.monitors = append(r.monitors, "cloudwatch: "+bad)
	}
	for _, e := range errs {
		r.monitors = append(r.monitors, "cloudwatch: send error: "+e.Error())
	}
	var batches [][]Item
	for _, c := range api.calls {
		if c.Namespace == nil || *c.Namespace != "NS" {
			r.monitors = append(r.monitors, "cloudwatch: wrong namespace")
		}
		if len(c.MetricData) > 20 {
			r.monitors = append(r.monitors, fmt.Sprintf("cloudwatch: PutMetricData with %d data (limit 20)", len(c.MetricData)))
		}
		if len(c.MetricData) == 0 {
			r.monitors = append(r.monitors, "cloudwatch: PutMetricData with no data")
		}
		batch := []Item{}
		for _, d := range c.MetricData {
			if d.MetricName == nil || d.Value == nil || d.Timestamp == nil {
				r.monitors = append(r.monitors, "cloudwatch: datum without name, value or timestamp")
				continue
			}
			if len(d.Dimensions) > 10 {
				r.monitors = append(r.monitors, fmt.Sprintf("cloudwatch: %d dimensions", len(d.Dimensions)))
			}
			it := Item{Name: *d.MetricName, Kind: string(d.Unit), Vals: []KV{fv("v", *d.Value)}}
			for _, dim := range d.Dimensions {
				it.Tags = append(it.Tags, *dim.Name+"="+*dim.Value)
			}
			batch = append(batch, it)
		}
		batches = append(batches, batch)
		r.nitems += len(batch)
	}
	r.nbatches = len(batches)
	r.coq = hlib.App("BCloudwatch", coqBatches(batches))
	r.obs = describe(batches)
	return r
}

// ---------------------------------------------------------------------------------------
// socket backends: Graphite (TCP), statsd relay (UDP / TCP)

// runSender starts the backend's sender loop, performs the send, stops the loop (which closes
// the connection) and returns.
func runSender(b gostatsd.Backend, mm *gostatsd.MetricMap) (mon []string) {
	ctx, cancel := fixedCtx()
	runner := b.(gostatsd.Runner)
	stopped := make(chan struct{})
	go func() { runner.Run(ctx); close(stopped) }()
	errs, bad := send(ctx, b, mm)
	if bad != "" {
		mon = append(mon, b.Name()+": "+bad)
	}
	for _, e := range errs {
		mon = append(mon, b.Name()+": send error: "+e.Error())
	}
	cancel()
	select {
	case <-stopped:
	case <-time.After(10 * time.Second):
		mon = append(mon, b.Name()+": sender did not stop")
	}
	return mon
}

// tcpCapture accepts connections and returns everything read from them until they are closed.
type tcpCapture struct {
	ln       net.Listener
	mu       sync.Mutex
	data     [][]byte
	wg       sync.WaitGroup
	accepted chan struct{}
}

func newTCPCapture() *tcpCapture {
	ln, err := net.Listen("tcp", "127.0.0.1:0")
	if err != nil {
		panic(err)
	}
	t := &tcpCapture{ln: ln, accepted: make(chan struct{}, 64)}
	go func() {
		for {
			c, err := ln.Accept()
			if err != nil {
				return
			}
			t.wg.Add(1)
			t.accepted <- struct{}{}
			go func() {
				defer t.wg.Done()
				b, _ := io.ReadAll(c)
				c.Close()
				t.mu.Lock()
				t.data = append(t.data, b)
				t.mu.Unlock()
			}()
		}
	}()
	return t
}

// finish waits for the one connection the sender loop dials per run, reads it to EOF (the
// sender has been stopped, which closes it) and returns the bytes.
func (t *tcpCapture) finish() []byte {
	select {
	case <-t.accepted:
	case <-time.After(5 * time.Second):
	}
	t.wg.Wait()
	t.ln.Close()
	t.mu.Lock()
	defer t.mu.Unlock()
	var all []byte
	for _, d := range t.data {
		all = append(all, d...)
	}
	return all
}

func splitLines(s string) []string {
	var out []string
	for len(s) > 0 {
		i := strings.IndexByte(s, '\n')
		if i < 0 {
			out = append(out, s)
			break
		}
		out = append(out, s[:i+1])
		s = s[i+1:]
	}
	return out
}

func runGraphite(in *input, cfg BackendCfg) bres {
	var r bres
	tc := newTCPCapture()
	t0 := time.Now().Unix()
	cli, err := graphite.NewClient(tc.ln.Addr().String(), time.Second, 5*time.Second, graphite.DefaultGlobalPrefix, graphite.DefaultPrefixCounter,
		graphite.DefaultPrefixTimer, graphite.DefaultPrefixGauge, graphite.DefaultPrefixSet, cfg.Suffix, cfg.Mode, in.subtypes(), quiet)
	if err != nil {
		r.monitors = append(r.monitors, "graphite.NewClient: "+err.Error())
		return r
	}
	r.monitors = append(r.monitors, runSender(cli, in.buildMap())...)
	t1 := time.Now().Unix()
	data := string(tc.finish())
	var items []Item
	now := int64(0)
	for i, line := range splitLines(data) {
		parts := strings.Split(strings.TrimSuffix(line, "\n"), " ")
		ok := len(parts) == 3 && strings.HasSuffix(line, "\n") && parts[0] != ""
		if ok {
			if _, err := strconv.ParseFloat(parts[1], 64); err != nil {
				ok = false
			}
			ts, err := strconv.ParseInt(parts[2], 10, 64)
			if err != nil || ts < t0 || ts > t1 {
				ok = false
			}
			if i == 0 {
				now = ts
			}
			if strings.ContainsAny(parts[0], "\t\r ") {
				ok = false
			}
		}
		if !ok {
			r.monitors = append(r.monitors, fmt.Sprintf("graphite: line is not `path value timestamp`: %q", line))
		}
		items = append(items, lineItem(line))
	}
	r.nbatches, r.nitems = 1, len(items)
	mode := map[string]string{"legacy": "true false", "basic": "false false", "tags": "false true"}[cfg.Mode]
	// the raw TCP stream goes to the Gallina plaintext reader (strict except for non-finite values)
	r.coq = hlib.App("BGraphite", hlib.App("MkG", mode, hlib.Bytes(strings.Trim(cfg.Suffix, "."))), hlib.Bool(in.Stream == "nonfinite"), hlib.Z(now), hlib.Bytes(data))
	r.obs = describe([][]Item{items})
	return r
}

func runStdout(in *input, cfg BackendCfg) bres {
	var r bres
	t0 := time.Now().Unix()
	var data []byte
	if msg := hlib.Recover(func() { data = stdout.VerifPreparePayloadC17(in.buildMap(), in.subtypes()) }); msg != "" {
		r.monitors = append(r.monitors, "stdout: preparePayload panicked: "+msg)
	}
	t1 := time.Now().Unix()
	var items []Item
	now := int64(0)
	for i, line := range splitLines(string(data)) {
		parts := strings.Split(strings.TrimSuffix(line, "\n"), " ")
		ok := len(parts) == 3 && strings.HasSuffix(line, "\n")
		if ok {
			_, e1 := strconv.ParseFloat(parts[1], 64)
			ts, e2 := strconv.ParseInt(parts[2], 10, 64)
			ok = e1 == nil && e2 == nil && ts >= t0 && ts <= t1
			if i == 0 {
				now = ts
			}
		}
		if !ok {
			r.monitors = append(r.monitors, fmt.Sprintf("stdout: line is not `name value timestamp`: %q", line))
		}
		items = append(items, lineItem(line))
	}
	r.nbatches, r.nitems = 1, len(items)
	r.coq = hlib.App("BStdout", hlib.Z(now), coqItems(items))
	r.obs = describe([][]Item{items})
	return r
}

// ---------------------------------------------------------------------------------------
// statsd relay

var lineLexer = verifhooks.NewLineLexer(4)

var typeNames = map[gostatsd.MetricType]string{gostatsd.COUNTER: "Counter", gostatsd.GAUGE: "Gauge", gostatsd.TIMER: "Timer", gostatsd.SET: "MSet"}

// udpCapture reads datagrams (concurrently with the sender, so that the socket buffer never
// fills) until the sentinel arrives.
type udpCapture struct {
	conn   *net.UDPConn
	done   chan struct{}
	dgrams [][]byte
	err    error
}

const sentinel = "\x00\x00C17-END\x00\x00"

func newUDPCapture() *udpCapture {
	conn, err := net.ListenUDP("udp", &net.UDPAddr{IP: net.IPv4(127, 0, 0, 1)})
	if err != nil {
		panic(err)
	}
	_ = conn.SetReadBuffer(8 << 20)
	u := &udpCapture{conn: conn, done: make(chan struct{})}
	go func() {
		defer close(u.done)
		buf := make([]byte, 1<<16)
		for {
			n, _, err := conn.ReadFromUDP(buf)
			if err != nil {
				u.err = err
				return
			}
			if string(buf[:n]) == sentinel {
				return
			}
			u.dgrams = append(u.dgrams, append([]byte(nil), buf[:n]...))
		}
	}()
	return u
}

func (u *udpCapture) finish() (dgrams [][]byte, mon []string) {
	s, err := net.DialUDP("udp", nil, u.conn.LocalAddr().(*net.UDPAddr))
	if err == nil {
		s.Write([]byte(sentinel))
		s.Close()
	}
	u.conn.SetReadDeadline(time.Now().Add(10 * time.Second))
	<-u.done
	u.conn.Close()
	if u.err != nil {
		mon = append(mon, "harness: UDP capture ended without sentinel: "+u.err.Error())
	}
	return u.dgrams, mon
}

func coqLexObs(line string) (string, string) {
	buf := []byte(line)
	var out, kind string
	msg := hlib.Recover(func() {
		m, e, err := lineLexer.LexLine(buf, "")
		switch {
		case err != nil:
			out, kind = "LR", "reject: "+err.Error()
		case m != nil:
			out = hlib.App("LM", hlib.Bytes(m.Name), typeNames[m.Type], hlib.F64(m.Value), hlib.Bytes(m.StringValue), hlib.F64(m.Rate), hlib.StrList(m.Tags))
			kind = "metric"
			m.Done()
		case e != nil:
			out, kind = "LE", "event"
		default:
			out, kind = "LR", "reject: nil"
		}
	})
	if msg != "" {
		return "LP", "panic: " + msg
	}
	return out, kind
}

func pfTerm(s string) string {
	v, err := strconv.ParseFloat(s, 64)
	if err != nil {
		return "PFErr"
	}
	return hlib.App("PFVal", hlib.F64(v))
}

func runRelay(in *input, cfg BackendCfg) bres {
	var r bres
	var addr string
	var uc *udpCapture
	var tc *tcpCapture
	if cfg.TCP {
		tc = newTCPCapture()
		addr = tc.ln.Addr().String()
	} else {
		uc = newUDPCapture()
		addr = uc.conn.LocalAddr().String()
	}
	cli, err := statsdaemon.NewClient(addr, time.Second, 5*time.Second, cfg.DT, cfg.TCP, nil, quiet)
	if err != nil {
		r.monitors = append(r.monitors, "statsdaemon.NewClient: "+err.Error())
		return r
	}
	if !cfg.TCP {
		cli.VerifSetPacketSizeC17(cfg.Batch)
	}
	ps := cli.VerifPacketSizeC17()
	r.monitors = append(r.monitors, runSender(cli, in.buildMap())...)
	var dgrams [][]byte
	if cfg.TCP {
		if all := tc.finish(); len(all) > 0 {
			dgrams = [][]byte{all}
		}
	} else {
		var mon []string
		dgrams, mon = uc.finish()
		r.monitors = append(r.monitors, mon...)
	}
	var obs, lexed []string
	pf := map[string]bool{}
	var pfl []string
	for _, d := range dgrams {
		lines := splitLines(string(d))
		if len(d) > ps && len(lines) != 1 {
			r.monitors = append(r.monitors, fmt.Sprintf("relay: datagram of %d bytes with %d lines exceeds the packet size %d", len(d), len(lines), ps))
		}
		if len(d) > 0 && d[len(d)-1] != '\n' {
			r.monitors = append(r.monitors, fmt.Sprintf("relay: datagram does not end with a newline: %q", d))
		}
		obs = append(obs, hlib.StrList(lines))
		r.nitems += len(lines)
		for _, l := range lines {
			l = strings.TrimSuffix(l, "\n")
			t, kind := coqLexObs(l)
			lexed = append(lexed, t)
			if kind != "metric" && !cfg.DT {
				r.monitors = append(r.monitors, fmt.Sprintf("relay: emitted line is not accepted as a metric by gostatsd's own lexer (%s): %q", kind, l))
			}
			if i := strings.IndexByte(l, ':'); i >= 0 {
				rest := l[i+1:]
				if j := strings.IndexByte(rest, '|'); j >= 0 && !pf[rest[:j]] {
					pf[rest[:j]] = true
					pfl = append(pfl, hlib.Pair(hlib.Bytes(rest[:j]), pfTerm(rest[:j])))
				}
			}
		}
	}
	sort.Strings(pfl)
	r.nbatches = len(dgrams)
	r.coq = hlib.App("BRelay", hlib.N(uint64(ps)), hlib.Bool(cfg.DT), hlib.Bool(in.Stream == "f2"), hlib.List(obs), hlib.List(pfl), hlib.List(lexed))
	var sample []string
	for i, d := range dgrams {
		if i < 12 {
			sample = append(sample, fmt.Sprintf("%q", d))
		}
	}
	r.obs = sample
	return r
}

// relay event
func evTerm(e *gostatsd.Event) string {
	return hlib.App("EV", hlib.Bytes(e.Title), hlib.Bytes(e.Text), hlib.Z(e.DateHappened), hlib.Bytes(string(e.Source)), hlib.Bytes(e.AggregationKey),
		hlib.N(uint64(e.Priority)), hlib.Bytes(e.SourceTypeName), hlib.N(uint64(e.AlertType)), hlib.StrList(e.Tags))
}

func runRelayEvent(in *input) bres {
	var r bres
	ev := in.Event
	src := &gostatsd.Event{Title: ev.Title, Text: ev.Text, DateHappened: ev.Date, Source: gostatsd.Source(ev.Host), AggregationKey: ev.Key,
		Priority: gostatsd.Priority(ev.Pri), SourceTypeName: ev.SType, AlertType: gostatsd.AlertType(ev.Alert), Tags: append(gostatsd.Tags(nil), ev.Tags...)}
	uc := newUDPCapture()
	cli, err := statsdaemon.NewClient(uc.conn.LocalAddr().String(), time.Second, 5*time.Second, false, false, nil, quiet)
	if err != nil {
		r.monitors = append(r.monitors, "statsdaemon.NewClient: "+err.Error())
		return r
	}
	if err := cli.SendEvent(context.Background(), src); err != nil {
		r.monitors = append(r.monitors, "relay: SendEvent: "+err.Error())
	}
	dgrams, mon := uc.finish()
	r.monitors = append(r.monitors, mon...)
	if len(dgrams) != 1 {
		r.monitors = append(r.monitors, fmt.Sprintf("relay: SendEvent wrote %d datagrams", len(dgrams)))
		return r
	}
	wire := string(dgrams[0])
	lexed := "EVR"
	buf := []byte(wire)
	msg := hlib.Recover(func() {
		_, e, err := lineLexer.LexLine(buf, "")
		if err == nil && e != nil {
			lexed = evTerm(e)
			if e.Title != src.Title || e.Text != src.Text || e.DateHappened != src.DateHappened || e.Source != src.Source || e.AggregationKey != src.AggregationKey ||
				e.Priority != src.Priority || e.SourceTypeName != src.SourceTypeName || e.AlertType != src.AlertType || strings.Join(e.Tags, "\x00") != strings.Join(src.Tags, "\x00") {
				r.monitors = append(r.monitors, fmt.Sprintf("relay: event does not round-trip: sent %+v, parsed %+v", *src, *e))
			}
		} else {
			r.monitors = append(r.monitors, fmt.Sprintf("relay: event line rejected by gostatsd's own lexer (%v): %q", err, wire))
		}
	})
	if msg != "" {
		r.monitors = append(r.monitors, "lexer panicked on a relayed event: "+msg)
	}
	r.nbatches, r.nitems = 1, 1
	r.coq = hlib.App("BEvent", evTerm(src), hlib.Bytes(wire), lexed)
	r.obs = fmt.Sprintf("%q", wire)
	return r
}
