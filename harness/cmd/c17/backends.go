package main

import (
	"bytes"
	"compress/gzip"
	"compress/zlib"
	"context"
	"encoding/json"
	"fmt"
	"io"
	"math"
	"net"
	"net/http"
	"net/http/httptest"
	"os"
	"sort"
	"strconv"
	"strings"
	"sync"
	"time"

	awscw "github.com/aws/aws-sdk-go-v2/service/cloudwatch"
	"github.com/sirupsen/logrus"
	"github.com/spf13/viper"
	"github.com/tilinna/clock"
	v1export "go.opentelemetry.io/proto/otlp/collector/metrics/v1"
	v1common "go.opentelemetry.io/proto/otlp/common/v1"
	v1metrics "go.opentelemetry.io/proto/otlp/metrics/v1"
	"google.golang.org/protobuf/proto"

	"github.com/atlassian/gostatsd"
	"github.com/atlassian/gostatsd/pkg/backends/cloudwatch"
	"github.com/atlassian/gostatsd/pkg/backends/datadog"
	"github.com/atlassian/gostatsd/pkg/backends/graphite"
	"github.com/atlassian/gostatsd/pkg/backends/influxdb"
	"github.com/atlassian/gostatsd/pkg/backends/otlp"
	"github.com/atlassian/gostatsd/pkg/backends/statsdaemon"
	"github.com/atlassian/gostatsd/pkg/backends/stdout"
	"github.com/atlassian/gostatsd/pkg/transport"
	"github.com/atlassian/gostatsd/verifhooks"

	"verifharness/hlib"
)

const nowUnix = 1700000000
const flushInterval = 10 * time.Second

var quiet = func() *logrus.Logger { l := logrus.New(); l.SetOutput(io.Discard); return l }()

func fixedCtx() (context.Context, context.CancelFunc) {
	ctx, cancel := context.WithCancel(context.Background())
	return clock.Context(ctx, clock.NewMock(time.Unix(nowUnix, 0))), cancel
}

// baseViper is the documented configuration layout every backend is built from through its
// real NewClientFromViper: the top-level flush interval and the top-level [disabled-sub-metrics]
// section carrying the case's mask; each backend adds its own section.
func baseViper(in *input) *viper.Viper {
	v := viper.New()
	v.Set("flush-interval", flushInterval)
	dis := map[string]interface{}{}
	for i, k := range []string{"lower", "upper", "count", "count-per-second", "mean", "median", "stddev", "sum", "sum-squares"} {
		dis[k] = in.Mask[i]
	}
	v.Set("disabled-sub-metrics", dis)
	return v
}

func init() {
	// cloudwatch.NewClient loads the default AWS configuration: no CA bundle, no metadata service,
	// a region and dummy credentials (nothing is sent: the API client is replaced by a fake)
	os.Setenv("AWS_CA_BUNDLE", "")
	os.Setenv("AWS_EC2_METADATA_DISABLED", "true")
	os.Setenv("AWS_REGION", "us-east-1")
	os.Setenv("AWS_ACCESS_KEY_ID", "verif")
	os.Setenv("AWS_SECRET_ACCESS_KEY", "verif")
}

// result of one backend run
type bres struct {
	coq      string   // bcase term ("" = none)
	monitors []string // direct violations
	obs      interface{}
	nbatches int
	nitems   int
}

// ---------------------------------------------------------------------------------------
// capturing HTTP server shared by the HTTP backends; cases run one at a time

type captured struct {
	path     string
	encoding string
	ctype    string
	body     []byte
}

type capServer struct {
	srv     *httptest.Server
	mu      sync.Mutex
	got     []captured
	failing bool          // answer 500 and record nothing
	seen    chan struct{} // signalled (non-blocking) for every request received while failing
}

func newCapServer() *capServer {
	c := &capServer{seen: make(chan struct{}, 1)}
	c.srv = httptest.NewServer(http.HandlerFunc(func(w http.ResponseWriter, r *http.Request) {
		b, _ := io.ReadAll(r.Body)
		c.mu.Lock()
		failing := c.failing
		if !failing {
			c.got = append(c.got, captured{path: r.URL.Path, encoding: r.Header.Get("Content-Encoding"), ctype: r.Header.Get("Content-Type"), body: b})
		}
		c.mu.Unlock()
		if failing {
			select {
			case c.seen <- struct{}{}:
			default:
			}
			w.WriteHeader(http.StatusInternalServerError)
			return
		}
		w.WriteHeader(http.StatusAccepted)
	}))
	return c
}

func (c *capServer) setFailing(f bool) {
	c.mu.Lock()
	c.failing = f
	c.mu.Unlock()
	select {
	case <-c.seen:
	default:
	}
}

func (c *capServer) take() []captured {
	c.mu.Lock()
	defer c.mu.Unlock()
	g := c.got
	c.got = nil
	return g
}

var (
	capOnce sync.Once
	capSrv  *capServer
	pool    *transport.TransportPool
)

func httpEnv() (*capServer, *transport.TransportPool) {
	capOnce.Do(func() {
		capSrv = newCapServer()
		pool = transport.NewTransportPool(quiet, viper.New())
	})
	return capSrv, pool
}

// send runs SendMetricsAsync and waits for the callback; returns the errors it delivered.
func send(ctx context.Context, b gostatsd.Backend, mm *gostatsd.MetricMap) ([]error, string) {
	done := make(chan []error, 4)
	calls := 0
	var mu sync.Mutex
	msg := hlib.Recover(func() {
		b.SendMetricsAsync(ctx, mm, func(errs []error) {
			mu.Lock()
			calls++
			mu.Unlock()
			done <- errs
		})
	})
	if msg != "" {
		return nil, "SendMetricsAsync panicked: " + msg
	}
	select {
	case errs := <-done:
		var real []error
		for _, e := range errs {
			if e != nil {
				real = append(real, e)
			}
		}
		return real, ""
	case <-time.After(20 * time.Second):
		return nil, "callback not invoked within 20s"
	}
}

// decodeBody undoes the content encoding.  It is strict: the body must be exactly ONE compressed
// stream (one gzip member, one zlib stream) with nothing after it.
func decodeBody(c captured) ([]byte, error) {
	src := bytes.NewReader(c.body)
	switch c.encoding {
	case "gzip":
		r, err := gzip.NewReader(src)
		if err != nil {
			return nil, err
		}
		r.Multistream(false)
		out, err := io.ReadAll(r)
		if err != nil {
			return nil, err
		}
		if src.Len() != 0 {
			return out, fmt.Errorf("%d bytes after the first gzip member", src.Len())
		}
		return out, nil
	case "deflate":
		r, err := zlib.NewReader(src)
		if err != nil {
			return nil, err
		}
		out, err := io.ReadAll(r)
		if err != nil {
			return nil, err
		}
		if src.Len() != 0 {
			return out, fmt.Errorf("%d bytes after the zlib stream", src.Len())
		}
		return out, nil
	case "", "identity":
		return c.body, nil
	}
	return nil, fmt.Errorf("unknown content encoding %q", c.encoding)
}

// oneJSON decodes exactly one JSON document: anything but white space after it is an error.
func oneJSON(body []byte, v interface{}) error {
	dec := json.NewDecoder(bytes.NewReader(body))
	dec.DisallowUnknownFields()
	if err := dec.Decode(v); err != nil {
		return err
	}
	var extra json.RawMessage
	if err := dec.Decode(&extra); err != io.EOF {
		return fmt.Errorf("data after the JSON document (%d bytes in all)", len(body))
	}
	return nil
}

// ---------------------------------------------------------------------------------------
// sequences: one client instance, several flushes, some of them made to fail for good

var seq struct {
	active  bool
	clients map[string]gostatsd.Backend
	fail    bool // the flush being run must fail
	failed  bool // out: it did (a request was refused and the flush context cancelled)
}

// client returns the backend of this case: a fresh one, or in a sequence the one built first.
func client(name string, mk func() (gostatsd.Backend, error)) (gostatsd.Backend, error) {
	if seq.active {
		if b, ok := seq.clients[name]; ok {
			return b, nil
		}
	}
	b, err := mk()
	if err == nil && seq.active {
		seq.clients[name] = b
	}
	return b, err
}

// maxReq: in a sequence a single request buffer, so that a buffer released by a failed flush is
// the one the next flush gets.
func maxReq(n uint) uint {
	if seq.active {
		return 1
	}
	return n
}

// flush performs one SendMetricsAsync.  In a failing flush the endpoint answers 500 (with the
// mock clock the retry timer never fires), and once the first request has been refused the
// flush context is cancelled: the batch is dropped for good.
func flush(b gostatsd.Backend, mm *gostatsd.MetricMap) (errs []error, bad string) {
	ctx, cancel := fixedCtx()
	defer cancel()
	seq.failed = false
	if !seq.fail {
		return send(ctx, b, mm)
	}
	srv, _ := httpEnv()
	srv.setFailing(true)
	type res struct {
		errs []error
		bad  string
	}
	done := make(chan res, 1)
	go func() { e, m := send(ctx, b, mm); done <- res{e, m} }()
	var r res
	select {
	case <-srv.seen:
		seq.failed = true
		time.Sleep(2 * time.Millisecond)
		cancel()
		r = <-done
	case r = <-done: // nothing was sent (empty map)
	}
	time.Sleep(5 * time.Millisecond) // let the posting goroutines hand their buffers back
	srv.setFailing(false)
	srv.take()
	if seq.failed && len(r.errs) == 0 && r.bad == "" {
		r.bad = "a flush whose requests were refused and whose context was cancelled reported no error"
	}
	return nil, r.bad
}

func fv(k string, v float64) KV { return KV{K: k, Kind: 'f', F: math.Float64bits(v)} }

// ---------------------------------------------------------------------------------------
// Datadog

type ddPayload struct {
	Series []struct {
		Host     string       `json:"host"`
		Interval float64      `json:"interval"`
		Metric   *string      `json:"metric"`
		Points   [][2]float64 `json:"points"`
		Tags     []string     `json:"tags"`
		Type     string       `json:"type"`
	} `json:"series"`
}

func runDatadog(in *input, cfg BackendCfg) bres {
	var r bres
	srv, p := httpEnv()
	srv.take()
	cli, err := client("datadog", func() (gostatsd.Backend, error) {
		v := baseViper(in)
		v.Set("datadog", map[string]interface{}{"api_endpoint": srv.srv.URL, "api_key": "key", "metrics_per_batch": cfg.Batch,
			"max_requests": int(maxReq(8)), "compress_payload": cfg.Compress, "max_request_elapsed_time": "5s"})
		return datadog.NewClientFromViper(v, quiet, p)
	})
	if err != nil {
		r.monitors = append(r.monitors, "datadog.NewClient: "+err.Error())
		return r
	}
	errs, bad := flush(cli, in.buildMap())
	if bad != "" {
		r.monitors = append(r.monitors, "datadog: "+bad)
	}
	if seq.fail {
		return r
	}
	for _, e := range errs {
		r.monitors = append(r.monitors, "datadog: send error: "+e.Error())
	}
	var batches [][]Item
	for _, c := range srv.take() {
		if (c.encoding == "deflate") != cfg.Compress {
			r.monitors = append(r.monitors, fmt.Sprintf("datadog: Content-Encoding %q with compress_payload=%v", c.encoding, cfg.Compress))
		}
		body, err := decodeBody(c)
		if err != nil {
			r.monitors = append(r.monitors, "datadog: body is not exactly one well-formed compressed stream: "+err.Error())
			if body == nil {
				continue
			}
		}
		var pl ddPayload
		if err := oneJSON(body, &pl); err != nil {
			r.monitors = append(r.monitors, "datadog: payload is not the documented JSON: "+err.Error())
			continue
		}
		if pl.Series == nil {
			r.monitors = append(r.monitors, "datadog: payload without series array")
		}
		batch := []Item{}
		for _, m := range pl.Series {
			if m.Metric == nil || len(m.Points) != 1 {
				r.monitors = append(r.monitors, "datadog: series without metric name or without exactly one point")
				continue
			}
			if m.Points[0][0] != nowUnix || m.Interval != flushInterval.Seconds() {
				r.monitors = append(r.monitors, fmt.Sprintf("datadog: %s: timestamp %v / interval %v", *m.Metric, m.Points[0][0], m.Interval))
			}
			batch = append(batch, Item{Name: *m.Metric, Kind: m.Type, Host: m.Host, Tags: m.Tags, Vals: []KV{fv("v", m.Points[0][1])}})
		}
		batches = append(batches, batch)
		r.nitems += len(batch)
	}
	r.nbatches = len(batches)
	r.coq = hlib.App("BDatadog", hlib.N(uint64(cfg.Batch)), coqBatches(batches))
	r.obs = describe(batches)
	return r
}

func describe(bs [][]Item) []string {
	var out []string
	for i, b := range bs {
		for _, it := range b {
			out = append(out, fmt.Sprintf("#%d %s", i, it.String()))
			if len(out) > 60 {
				return append(out, "...")
			}
		}
	}
	return out
}

// ---------------------------------------------------------------------------------------
// InfluxDB

func runInflux(in *input, cfg BackendCfg) bres {
	var r bres
	srv, p := httpEnv()
	srv.take()
	v := baseViper(in)
	v.Set("influxdb.api-endpoint", srv.srv.URL)
	v.Set("influxdb.api-version", 2)
	v.Set("influxdb.bucket", "b")
	v.Set("influxdb.org", "o")
	v.Set("influxdb.compress-payload", cfg.Compress)
	v.Set("influxdb.metrics-per-batch", cfg.Batch)
	v.Set("influxdb.max-requests", map[bool]int{false: 64, true: 2}[seq.active])
	b, err := client("influxdb", func() (gostatsd.Backend, error) { return influxdb.NewClientFromViper(v, quiet, p) })
	if err != nil {
		r.monitors = append(r.monitors, "influxdb.NewClientFromViper: "+err.Error())
		return r
	}
	errs, bad := flush(b, in.buildMap())
	if bad != "" {
		r.monitors = append(r.monitors, "influxdb: "+bad)
	}
	if seq.fail {
		return r
	}
	for _, e := range errs {
		r.monitors = append(r.monitors, "influxdb: send error: "+e.Error())
	}
	var batches [][]Item
	var bodies []string
	for _, c := range srv.take() {
		if (c.encoding == "gzip") != cfg.Compress {
			r.monitors = append(r.monitors, fmt.Sprintf("influxdb: Content-Encoding %q with compress-payload=%v", c.encoding, cfg.Compress))
		}
		body, err := decodeBody(c)
		if err != nil {
			r.monitors = append(r.monitors, "influxdb: body is not exactly one well-formed compressed stream: "+err.Error())
			if body == nil {
				continue
			}
		}
		text := string(body)
		bodies = append(bodies, hlib.Bytes(text))
		if !strings.HasSuffix(text, "\n") {
			r.monitors = append(r.monitors, "influxdb: body does not end with a newline")
		}
		batch := []Item{}
		for _, line := range strings.Split(strings.TrimSuffix(text, "\n"), "\n") {
			if lp, err := parseLP(line); err != nil {
				r.monitors = append(r.monitors, fmt.Sprintf("influxdb: not valid line protocol (%v): %q", err, line))
			} else if lp.TS != strconv.Itoa(nowUnix) {
				r.monitors = append(r.monitors, fmt.Sprintf("influxdb: timestamp %q: %q", lp.TS, line))
			}
			head, fields, ts := splitLP(line)
			it := Item{Name: head, Kind: ts}
			var parts []string
			for _, f := range fields {
				it.Vals = append(it.Vals, KV{K: f[0], Kind: 's', S: f[1]})
				parts = append(parts, f[0]+"="+f[1])
			}
			if head+strings.Join(parts, ",")+" "+ts != line {
				r.monitors = append(r.monitors, fmt.Sprintf("harness: influx line does not re-render: %q", line))
			}
			batch = append(batch, it)
		}
		if len(batch) > cfg.Batch {
			r.monitors = append(r.monitors, fmt.Sprintf("influxdb: batch of %d lines exceeds metrics-per-batch %d", len(batch), cfg.Batch))
		}
		batches = append(batches, batch)
		r.nitems += len(batch)
	}
	r.nbatches = len(batches)
	// the model side reads the raw bodies with the Gallina line-protocol reader (strict, except in
	// the streams of the known findings F4 / F5 whose lines are not valid line protocol)
	lossy := in.Stream == "f4" || in.Stream == "s5"
	r.coq = hlib.App("BInflux", hlib.N(uint64(cfg.Batch)), hlib.Bool(lossy), hlib.Z(nowUnix), hlib.List(bodies))
	r.obs = describe(batches)
	return r
}

// ---------------------------------------------------------------------------------------
// OTLP (AsGauge)

func renderAttrs(kvs []*v1common.KeyValue) []string {
	var out []string
	for _, kv := range kvs {
		switch v := kv.Value.GetValue().(type) {
		case *v1common.AnyValue_StringValue:
			out = append(out, kv.Key+"="+v.StringValue)
		case *v1common.AnyValue_ArrayValue:
			var vs []string
			for _, x := range v.ArrayValue.Values {
				vs = append(vs, x.GetStringValue())
			}
			out = append(out, kv.Key+"="+strings.Join(vs, "|"))
		default:
			out = append(out, kv.Key+"=?")
		}
	}
	return out
}

func runOTLP(in *input, cfg BackendCfg) bres {
	var r bres
	srv, p := httpEnv()
	srv.take()
	v := baseViper(in)
	v.Set("otlp.metrics_endpoint", srv.srv.URL+"/v1/metrics")
	v.Set("otlp.logs_endpoint", srv.srv.URL+"/v1/logs")
	v.Set("otlp.compress_payload", cfg.Compress)
	v.Set("otlp.metrics_per_batch", cfg.Batch)
	v.Set("otlp.max_requests", 16)
	m := in.Mask
	for i, k := range []string{"Lower", "Upper", "Count", "CountPerSecond", "Mean", "Median", "StdDev", "Sum", "SumSquares"} {
		v.Set("otlp.disabled_timer_aggregations."+k, m[i])
	}
	b, err := client("otlp", func() (gostatsd.Backend, error) { return otlp.NewClientFromViper(v, quiet, p) })
	if err != nil {
		r.monitors = append(r.monitors, "otlp.NewClientFromViper: "+err.Error())
		return r
	}
	errs, bad := flush(b, in.buildMap())
	if bad != "" {
		r.monitors = append(r.monitors, "otlp: "+bad)
	}
	if seq.fail {
		return r
	}
	for _, e := range errs {
		r.monitors = append(r.monitors, "otlp: send error: "+e.Error())
	}
	var batches [][]Item
	for _, c := range srv.take() {
		if (c.encoding == "gzip") != cfg.Compress {
			r.monitors = append(r.monitors, fmt.Sprintf("otlp: Content-Encoding %q with compress_payload=%v", c.encoding, cfg.Compress))
		}
		body, err := decodeBody(c)
		if err != nil {
			r.monitors = append(r.monitors, "otlp: body is not exactly one well-formed compressed stream: "+err.Error())
			if body == nil {
				continue
			}
		}
		var req v1export.ExportMetricsServiceRequest
		if err := proto.Unmarshal(body, &req); err != nil {
			r.monitors = append(r.monitors, "otlp: body is not an ExportMetricsServiceRequest: "+err.Error())
			continue
		}
		batch := []Item{}
		for _, rm := range req.ResourceMetrics {
			for _, sm := range rm.ScopeMetrics {
				for _, mt := range sm.Metrics {
					it := Item{Name: mt.Name}
					var dps []*v1metrics.NumberDataPoint
					switch d := mt.Data.(type) {
					case *v1metrics.Metric_Gauge:
						it.Kind = "gauge"
						dps = d.Gauge.DataPoints
					case *v1metrics.Metric_Sum:
						it.Kind = "sum"
						dps = d.Sum.DataPoints
					default:
						it.Kind = fmt.Sprintf("%T", mt.Data)
					}
					if len(dps) != 1 {
						r.monitors = append(r.monitors, fmt.Sprintf("otlp: metric %q with %d data points", mt.Name, len(dps)))
					} else {
						dp := dps[0]
						if dp.TimeUnixNano != uint64(nowUnix)*1e9 {
							r.monitors = append(r.monitors, fmt.Sprintf("otlp: metric %q timestamp %d", mt.Name, dp.TimeUnixNano))
						}
						it.Tags = renderAttrs(dp.Attributes)
						switch x := dp.Value.(type) {
						case *v1metrics.NumberDataPoint_AsInt:
							it.Vals = []KV{{K: "v", Kind: 'i', I: x.AsInt}}
						case *v1metrics.NumberDataPoint_AsDouble:
							it.Vals = []KV{fv("v", x.AsDouble)}
						}
					}
					batch = append(batch, it)
				}
			}
		}
		if len(batch) > cfg.Batch {
			r.monitors = append(r.monitors, fmt.Sprintf("otlp: batch of %d metrics exceeds metrics_per_batch %d", len(batch), cfg.Batch))
		}
		batches = append(batches, batch)
		r.nitems += len(batch)
	}
	r.nbatches = len(batches)
	r.coq = hlib.App("BOtlp", hlib.N(uint64(cfg.Batch)), coqBatches(batches))
	r.obs = describe(batches)
	return r
}

// ---------------------------------------------------------------------------------------
// CloudWatch (fake API client)

type fakeCW struct {
	mu    sync.Mutex
	calls []*awscw.PutMetricDataInput
}

func (f *fakeCW) PutMetricData(ctx context.Context, in *awscw.PutMetricDataInput, _ ...func(*awscw.Options)) (*awscw.PutMetricDataOutput, error) {
	f.mu.Lock()
	defer f.mu.Unlock()
	f.calls = append(f.calls, in)
	return &awscw.PutMetricDataOutput{}, nil
}

func runCloudwatch(in *input, cfg BackendCfg) bres {
	var r bres
	api := &fakeCW{}
	_, p := httpEnv()
	v := baseViper(in)
	v.Set("cloudwatch", map[string]interface{}{"namespace": "NS"})
	cb, err := cloudwatch.NewClientFromViper(v, quiet, p)
	if err != nil {
		r.monitors = append(r.monitors, "cloudwatch.NewClientFromViper: "+err.Error())
		return r
	}
	cli := cb.(*cloudwatch.Client)
	cloudwatch.VerifSetAPIC17(cli, api)
	ctx, cancel := fixedCtx()
	defer cancel()
	errs, bad := send(ctx, cli, in.buildMap())
	if bad != "" {
		r.monitors = append(r.monitors, "cloudwatch: "+bad)
	}
	for _, e := range errs {
		r.monitors = append(r.monitors, "cloudwatch: send error: "+e.Error())
	}
	var batches [][]Item
	for _, c := range api.calls {
		if c.Namespace == nil || *c.Namespace != "NS" {
			r.monitors = append(r.monitors, "cloudwatch: wrong namespace")
		}
		if len(c.MetricData) > 20 {
			r.monitors = append(r.monitors, fmt.Sprintf("cloudwatch: PutMetricData with %d data (limit 20)", len(c.MetricData)))
		}
		if len(c.MetricData) == 0 {
			r.monitors = append(r.monitors, "cloudwatch: PutMetricData with no data")
		}
		batch := []Item{}
		for _, d := range c.MetricData {
			if d.MetricName == nil || d.Value == nil || d.Timestamp == nil {
				r.monitors = append(r.monitors, "cloudwatch: datum without name, value or timestamp")
				continue
			}
			if len(d.Dimensions) > 10 {
				r.monitors = append(r.monitors, fmt.Sprintf("cloudwatch: %d dimensions", len(d.Dimensions)))
			}
			it := Item{Name: *d.MetricName, Kind: string(d.Unit), Vals: []KV{fv("v", *d.Value)}}
			for _, dim := range d.Dimensions {
				it.Tags = append(it.Tags, *dim.Name+"="+*dim.Value)
			}
			batch = append(batch, it)
		}
		batches = append(batches, batch)
		r.nitems += len(batch)
	}
	r.nbatches = len(batches)
	r.coq = hlib.App("BCloudwatch", coqBatches(batches))
	r.obs = describe(batches)
	return r
}

// ---------------------------------------------------------------------------------------
// socket backends: Graphite (TCP), statsd relay (UDP / TCP)

// runSender starts the backend's sender loop, performs the send, stops the loop (which closes
// the connection) and returns.
func runSender(b gostatsd.Backend, mm *gostatsd.MetricMap) (mon []string) {
	ctx, cancel := fixedCtx()
	runner := b.(gostatsd.Runner)
	stopped := make(chan struct{})
	go func() { runner.Run(ctx); close(stopped) }()
	errs, bad := send(ctx, b, mm)
	if bad != "" {
		mon = append(mon, b.Name()+": "+bad)
	}
	for _, e := range errs {
		mon = append(mon, b.Name()+": send error: "+e.Error())
	}
	cancel()
	select {
	case <-stopped:
	case <-time.After(10 * time.Second):
		mon = append(mon, b.Name()+": sender did not stop")
	}
	return mon
}

// tcpCapture accepts connections and returns everything read from them until they are closed.
type tcpCapture struct {
	ln       net.Listener
	mu       sync.Mutex
	data     []byte
	taken    int
	wg       sync.WaitGroup
	accepted chan struct{}
}

func newTCPCapture() *tcpCapture {
	ln, err := net.Listen("tcp", "127.0.0.1:0")
	if err != nil {
		panic(err)
	}
	t := &tcpCapture{ln: ln, accepted: make(chan struct{}, 64)}
	go func() {
		for {
			c, err := ln.Accept()
			if err != nil {
				return
			}
			t.wg.Add(1)
			t.accepted <- struct{}{}
			go func() {
				defer t.wg.Done()
				defer c.Close()
				buf := make([]byte, 1<<16)
				for {
					n, err := c.Read(buf)
					t.mu.Lock()
					t.data = append(t.data, buf[:n]...)
					t.mu.Unlock()
					if err != nil {
						return
					}
				}
			}()
		}
	}()
	return t
}

func (t *tcpCapture) size() int {
	t.mu.Lock()
	defer t.mu.Unlock()
	return len(t.data)
}

// snapshot returns the bytes that arrived since the previous snapshot, once the stream has been
// quiet for 8 ms (the sender's callback has already run, i.e. its writes have returned).
func (t *tcpCapture) snapshot() []byte {
	last, quiet := t.size(), 0
	for i := 0; i < 400 && quiet < 8; i++ {
		time.Sleep(time.Millisecond)
		if n := t.size(); n == last {
			quiet++
		} else {
			last, quiet = n, 0
		}
	}
	t.mu.Lock()
	defer t.mu.Unlock()
	out := append([]byte(nil), t.data[t.taken:]...)
	t.taken = len(t.data)
	return out
}

// finish waits for the one connection the sender loop dials per run, reads it to EOF (the
// sender has been stopped, which closes it) and returns the bytes not yet taken.
func (t *tcpCapture) finish() []byte {
	select {
	case <-t.accepted:
	case <-time.After(5 * time.Second):
	}
	t.wg.Wait()
	t.ln.Close()
	t.mu.Lock()
	defer t.mu.Unlock()
	out := append([]byte(nil), t.data[t.taken:]...)
	t.taken = len(t.data)
	return out
}

func splitLines(s string) []string {
	var out []string
	for len(s) > 0 {
		i := strings.IndexByte(s, '\n')
		if i < 0 {
			out = append(out, s)
			break
		}
		out = append(out, s[:i+1])
		s = s[i+1:]
	}
	return out
}

func runGraphite(in *input, cfg BackendCfg) bres {
	var r bres
	tc := newTCPCapture()
	t0 := time.Now().Unix()
	cli, err := newGraphite(in, cfg, tc.ln.Addr().String())
	if err != nil {
		r.monitors = append(r.monitors, "graphite.NewClient: "+err.Error())
		return r
	}
	r.monitors = append(r.monitors, runSender(cli, in.buildMap())...)
	t1 := time.Now().Unix()
	data := string(tc.finish())
	decGraphite(in, cfg, data, t0, t1, &r)
	return r
}

func newGraphite(in *input, cfg BackendCfg, addr string) (gostatsd.Backend, error) {
	v := baseViper(in)
	v.Set("graphite", map[string]interface{}{"address": addr, "mode": cfg.Mode, "global_suffix": cfg.Suffix, "dial_timeout": "1s", "write_timeout": "5s"})
	return graphite.NewClientFromViper(v, quiet, nil)
}

// decGraphite checks and records the lines one flush put on the TCP stream.
func decGraphite(in *input, cfg BackendCfg, data string, t0, t1 int64, r *bres) {
	var items []Item
	now := int64(0)
	for i, line := range splitLines(data) {
		parts := strings.Split(strings.TrimSuffix(line, "\n"), " ")
		ok := len(parts) == 3 && strings.HasSuffix(line, "\n") && parts[0] != ""
		if ok {
			if _, err := strconv.ParseFloat(parts[1], 64); err != nil {
				ok = false
			}
			ts, err := strconv.ParseInt(parts[2], 10, 64)
			if err != nil || ts < t0 || ts > t1 {
				ok = false
			}
			if i == 0 {
				now = ts
			}
			if strings.ContainsAny(parts[0], "\t\r ") {
				ok = false
			}
		}
		if !ok {
			r.monitors = append(r.monitors, fmt.Sprintf("graphite: line is not `path value timestamp`: %q", line))
		}
		items = append(items, lineItem(line))
	}
	r.nbatches, r.nitems = 1, len(items)
	mode := map[string]string{"legacy": "true false", "basic": "false false", "tags": "false true"}[cfg.Mode]
	// the raw TCP stream goes to the Gallina plaintext reader (strict except for non-finite values)
	r.coq = hlib.App("BGraphite", hlib.App("MkG", mode, hlib.Bytes(strings.Trim(cfg.Suffix, "."))), hlib.Bool(in.Stream == "nonfinite"), hlib.Z(now), hlib.Bytes(data))
	r.obs = describe([][]Item{items})
}

func runStdout(in *input, cfg BackendCfg) bres {
	var r bres
	t0 := time.Now().Unix()
	var data []byte
	sb, err := stdout.NewClientFromViper(baseViper(in), quiet, nil)
	if err != nil {
		r.monitors = append(r.monitors, "stdout.NewClientFromViper: "+err.Error())
		return r
	}
	if msg := hlib.Recover(func() { data = sb.(*stdout.Client).VerifPayloadC17(in.buildMap()) }); msg != "" {
		r.monitors = append(r.monitors, "stdout: preparePayload panicked: "+msg)
	}
	t1 := time.Now().Unix()
	var items []Item
	now := int64(0)
	for i, line := range splitLines(string(data)) {
		parts := strings.Split(strings.TrimSuffix(line, "\n"), " ")
		ok := len(parts) == 3 && strings.HasSuffix(line, "\n")
		if ok {
			_, e1 := strconv.ParseFloat(parts[1], 64)
			ts, e2 := strconv.ParseInt(parts[2], 10, 64)
			ok = e1 == nil && e2 == nil && ts >= t0 && ts <= t1
			if i == 0 {
				now = ts
			}
		}
		if !ok {
			r.monitors = append(r.monitors, fmt.Sprintf("stdout: line is not `name value timestamp`: %q", line))
		}
		items = append(items, lineItem(line))
	}
	r.nbatches, r.nitems = 1, len(items)
	r.coq = hlib.App("BStdout", hlib.Z(now), coqItems(items))
	r.obs = describe([][]Item{items})
	return r
}

// ---------------------------------------------------------------------------------------
// statsd relay

var lineLexer = verifhooks.NewLineLexer(4)

var typeNames = map[gostatsd.MetricType]string{gostatsd.COUNTER: "Counter", gostatsd.GAUGE: "Gauge", gostatsd.TIMER: "Timer", gostatsd.SET: "MSet"}

// udpCapture reads datagrams (concurrently with the sender, so that the socket buffer never
// fills); a sentinel datagram sent by the harness closes a segment.
type udpCapture struct {
	conn *net.UDPConn
	segs chan [][]byte
	err  error
}

const sentinel = "\x00\x00C17-END\x00\x00"

func newUDPCapture() *udpCapture {
	conn, err := net.ListenUDP("udp", &net.UDPAddr{IP: net.IPv4(127, 0, 0, 1)})
	if err != nil {
		panic(err)
	}
	_ = conn.SetReadBuffer(8 << 20)
	u := &udpCapture{conn: conn, segs: make(chan [][]byte, 16)}
	go func() {
		defer close(u.segs)
		buf := make([]byte, 1<<16)
		var cur [][]byte
		for {
			n, _, err := conn.ReadFromUDP(buf)
			if err != nil {
				u.err = err
				return
			}
			if string(buf[:n]) == sentinel {
				u.segs <- cur
				cur = nil
				continue
			}
			cur = append(cur, append([]byte(nil), buf[:n]...))
		}
	}()
	return u
}

// segment returns the datagrams received since the previous segment (everything the backend
// wrote before this call has been queued in front of the sentinel).
func (u *udpCapture) segment() (dgrams [][]byte, mon []string) {
	s, err := net.DialUDP("udp", nil, u.conn.LocalAddr().(*net.UDPAddr))
	if err == nil {
		s.Write([]byte(sentinel))
		s.Close()
	}
	select {
	case d, ok := <-u.segs:
		if !ok {
			mon = append(mon, fmt.Sprintf("harness: UDP capture ended without sentinel: %v", u.err))
		}
		return d, mon
	case <-time.After(10 * time.Second):
		return nil, append(mon, "harness: UDP capture: sentinel not received")
	}
}

func (u *udpCapture) finish() (dgrams [][]byte, mon []string) {
	dgrams, mon = u.segment()
	u.conn.Close()
	return dgrams, mon
}

func coqLexObs(line string) (string, string) {
	buf := []byte(line)
	var out, kind string
	msg := hlib.Recover(func() {
		m, e, err := lineLexer.LexLine(buf, "")
		switch {
		case err != nil:
			out, kind = "LR", "reject: "+err.Error()
		case m != nil:
			out = hlib.App("LM", hlib.Bytes(m.Name), typeNames[m.Type], hlib.F64(m.Value), hlib.Bytes(m.StringValue), hlib.F64(m.Rate), hlib.StrList(m.Tags))
			kind = "metric"
			m.Done()
		case e != nil:
			out, kind = "LE", "event"
		default:
			out, kind = "LR", "reject: nil"
		}
	})
	if msg != "" {
		return "LP", "panic: " + msg
	}
	return out, kind
}

func pfTerm(s string) string {
	v, err := strconv.ParseFloat(s, 64)
	if err != nil {
		return "PFErr"
	}
	return hlib.App("PFVal", hlib.F64(v))
}

func runRelay(in *input, cfg BackendCfg) bres {
	var r bres
	var addr string
	var uc *udpCapture
	var tc *tcpCapture
	if cfg.TCP {
		tc = newTCPCapture()
		addr = tc.ln.Addr().String()
	} else {
		uc = newUDPCapture()
		addr = uc.conn.LocalAddr().String()
	}
	cli, err := newRelay(in, addr, cfg.DT, cfg.TCP)
	if err != nil {
		r.monitors = append(r.monitors, "statsdaemon.NewClientFromViper: "+err.Error())
		return r
	}
	if !cfg.TCP {
		cli.VerifSetPacketSizeC17(cfg.Batch)
	}
	ps := cli.VerifPacketSizeC17()
	r.monitors = append(r.monitors, runSender(cli, in.buildMap())...)
	var dgrams [][]byte
	if cfg.TCP {
		if all := tc.finish(); len(all) > 0 {
			dgrams = [][]byte{all}
		}
	} else {
		var mon []string
		dgrams, mon = uc.finish()
		r.monitors = append(r.monitors, mon...)
	}
	decRelay(in, cfg, ps, dgrams, &r)
	return r
}

func newRelay(in *input, addr string, dt, tcp bool) (*statsdaemon.Client, error) {
	v := baseViper(in)
	v.Set("statsdaemon", map[string]interface{}{"address": addr, "disable_tags": dt, "tcp_transport": tcp, "dial_timeout": "1s", "write_timeout": "5s"})
	b, err := statsdaemon.NewClientFromViper(v, quiet, nil)
	if err != nil {
		return nil, err
	}
	return b.(*statsdaemon.Client), nil
}

// decRelay checks and records the datagrams of one flush.
func decRelay(in *input, cfg BackendCfg, ps int, dgrams [][]byte, r *bres) {
	var obs, lexed []string
	pf := map[string]bool{}
	var pfl []string
	for _, d := range dgrams {
		lines := splitLines(string(d))
		if len(d) > ps && len(lines) != 1 {
			r.monitors = append(r.monitors, fmt.Sprintf("relay: datagram of %d bytes with %d lines exceeds the packet size %d", len(d), len(lines), ps))
		}
		if len(d) > 0 && d[len(d)-1] != '\n' {
			r.monitors = append(r.monitors, fmt.Sprintf("relay: datagram does not end with a newline: %q", d))
		}
		obs = append(obs, hlib.StrList(lines))
		r.nitems += len(lines)
		for _, l := range lines {
			l = strings.TrimSuffix(l, "\n")
			t, kind := coqLexObs(l)
			lexed = append(lexed, t)
			if kind != "metric" && !cfg.DT {
				r.monitors = append(r.monitors, fmt.Sprintf("relay: emitted line is not accepted as a metric by gostatsd's own lexer (%s): %q", kind, l))
			}
			if i := strings.IndexByte(l, ':'); i >= 0 {
				rest := l[i+1:]
				if j := strings.IndexByte(rest, '|'); j >= 0 && !pf[rest[:j]] {
					pf[rest[:j]] = true
					pfl = append(pfl, hlib.Pair(hlib.Bytes(rest[:j]), pfTerm(rest[:j])))
				}
			}
		}
	}
	sort.Strings(pfl)
	r.nbatches = len(dgrams)
	r.coq = hlib.App("BRelay", hlib.N(uint64(ps)), hlib.Bool(cfg.DT), hlib.Bool(in.Stream == "f2"), hlib.List(obs), hlib.List(pfl), hlib.List(lexed))
	var sample []string
	for i, d := range dgrams {
		if i < 12 {
			sample = append(sample, fmt.Sprintf("%q", d))
		}
	}
	r.obs = sample
}

// relay event
func evTerm(e *gostatsd.Event) string {
	return hlib.App("EV", hlib.Bytes(e.Title), hlib.Bytes(e.Text), hlib.Z(e.DateHappened), hlib.Bytes(string(e.Source)), hlib.Bytes(e.AggregationKey),
		hlib.N(uint64(e.Priority)), hlib.Bytes(e.SourceTypeName), hlib.N(uint64(e.AlertType)), hlib.StrList(e.Tags))
}

func runRelayEvent(in *input) bres {
	var r bres
	ev := in.Event
	src := &gostatsd.Event{Title: ev.Title, Text: ev.Text, DateHappened: ev.Date, Source: gostatsd.Source(ev.Host), AggregationKey: ev.Key,
		Priority: gostatsd.Priority(ev.Pri), SourceTypeName: ev.SType, AlertType: gostatsd.AlertType(ev.Alert), Tags: append(gostatsd.Tags(nil), ev.Tags...)}
	uc := newUDPCapture()
	cli, err := newRelay(in, uc.conn.LocalAddr().String(), false, false)
	if err != nil {
		r.monitors = append(r.monitors, "statsdaemon.NewClientFromViper: "+err.Error())
		return r
	}
	if err := cli.SendEvent(context.Background(), src); err != nil {
		r.monitors = append(r.monitors, "relay: SendEvent: "+err.Error())
	}
	dgrams, mon := uc.finish()
	r.monitors = append(r.monitors, mon...)
	if len(dgrams) != 1 {
		r.monitors = append(r.monitors, fmt.Sprintf("relay: SendEvent wrote %d datagrams", len(dgrams)))
		return r
	}
	wire := string(dgrams[0])
	lexed := "EVR"
	buf := []byte(wire)
	msg := hlib.Recover(func() {
		_, e, err := lineLexer.LexLine(buf, "")
		if err == nil && e != nil {
			lexed = evTerm(e)
			if e.Title != src.Title || e.Text != src.Text || e.DateHappened != src.DateHappened || e.Source != src.Source || e.AggregationKey != src.AggregationKey ||
				e.Priority != src.Priority || e.SourceTypeName != src.SourceTypeName || e.AlertType != src.AlertType || strings.Join(e.Tags, "\x00") != strings.Join(src.Tags, "\x00") {
				r.monitors = append(r.monitors, fmt.Sprintf("relay: event does not round-trip: sent %+v, parsed %+v", *src, *e))
			}
		} else {
			r.monitors = append(r.monitors, fmt.Sprintf("relay: event line rejected by gostatsd's own lexer (%v): %q", err, wire))
		}
	})
	if msg != "" {
		r.monitors = append(r.monitors, "lexer panicked on a relayed event: "+msg)
	}
	r.nbatches, r.nitems = 1, 1
	r.coq = hlib.App("BEvent", evTerm(src), hlib.Bytes(wire), lexed)
	r.obs = fmt.Sprintf("%q", wire)
	return r
}
