package main

import (
	"fmt"
	"regexp"
	"strings"
)

// An independent reader of InfluxDB line protocol (v1/v2 syntax):
//
//	measurement[,tag=value...] field=value[,field=value...] [timestamp]\n
//
// In measurement, tag keys, tag values and field keys a backslash escapes the next byte; the
// measurement ends at the first unescaped ',' or ' ', tag parts at unescaped ',' '=' ' '.
// Field values: float (decimal, optional exponent), integer with suffix i / u, quoted string,
// boolean.  There is no literal for infinities or NaN.
type lpLine struct {
	Head   string     // measurement and tag set as written, including the separating space
	Meas   string     // raw (still escaped)
	Tags   [][2]string // raw
	Fields [][2]string // key, raw value
	TS     string
}

var lpFloat = regexp.MustCompile(`^[+-]?(\d+\.?\d*|\.\d+)([eE][+-]?\d+)?$`)
var lpInt = regexp.MustCompile(`^[+-]?\d+[iu]$`)
var lpBool = regexp.MustCompile(`^(t|T|true|True|TRUE|f|F|false|False|FALSE)$`)
var lpTS = regexp.MustCompile(`^-?\d+$`)

// scan returns the index of the first unescaped byte of stops in s starting at i (len(s) if none).
func lpScan(s string, i int, stops string) int {
	for i < len(s) {
		if s[i] == '\\' && i+1 < len(s) {
			i += 2
			continue
		}
		if strings.IndexByte(stops, s[i]) >= 0 {
			return i
		}
		i++
	}
	return len(s)
}

// parseLP parses one line (without the trailing newline).
func parseLP(line string) (lpLine, error) {
	var l lpLine
	if line == "" {
		return l, fmt.Errorf("empty line")
	}
	i := lpScan(line, 0, ", ")
	if i == 0 {
		return l, fmt.Errorf("empty measurement")
	}
	l.Meas = line[:i]
	for i < len(line) && line[i] == ',' {
		j := lpScan(line, i+1, "=, ")
		if j >= len(line) || line[j] != '=' || j == i+1 {
			return l, fmt.Errorf("tag without '=' or empty tag key at byte %d", i)
		}
		k := lpScan(line, j+1, ",= ")
		if k < len(line) && line[k] == '=' {
			return l, fmt.Errorf("unescaped '=' in tag value at byte %d", k)
		}
		if k == j+1 {
			return l, fmt.Errorf("empty tag value at byte %d", k)
		}
		l.Tags = append(l.Tags, [2]string{line[i+1 : j], line[j+1 : k]})
		i = k
	}
	if i >= len(line) || line[i] != ' ' {
		return l, fmt.Errorf("no field set")
	}
	l.Head = line[:i+1]
	i++
	for {
		j := lpScan(line, i, "=, ")
		if j >= len(line) || line[j] != '=' || j == i {
			return l, fmt.Errorf("field without '=' at byte %d", i)
		}
		key := line[i:j]
		var val string
		k := j + 1
		if k < len(line) && line[k] == '"' {
			m := k + 1
			for m < len(line) && line[m] != '"' {
				if line[m] == '\\' && m+1 < len(line) {
					m++
				}
				m++
			}
			if m >= len(line) {
				return l, fmt.Errorf("unterminated string field")
			}
			val = line[k : m+1]
			k = m + 1
		} else {
			m := k
			for m < len(line) && line[m] != ',' && line[m] != ' ' {
				m++
			}
			val = line[k:m]
			k = m
			if !lpFloat.MatchString(val) && !lpInt.MatchString(val) && !lpBool.MatchString(val) {
				return l, fmt.Errorf("field %s: %q is not a float, integer, string or boolean literal", key, val)
			}
		}
		l.Fields = append(l.Fields, [2]string{key, val})
		i = k
		if i < len(line) && line[i] == ',' {
			i++
			continue
		}
		break
	}
	if i < len(line) {
		if line[i] != ' ' {
			return l, fmt.Errorf("garbage after field set at byte %d", i)
		}
		l.TS = line[i+1:]
		if !lpTS.MatchString(l.TS) {
			return l, fmt.Errorf("timestamp %q is not an integer", l.TS)
		}
	}
	return l, nil
}

// lenient split used to build the item even when the strict reader rejects the line (so that
// the model comparison still sees what was written): head up to the first unescaped space,
// fields split at commas, timestamp after the last space.
func splitLP(line string) (head string, fields [][2]string, ts string) {
	i := lpScan(line, 0, " ")
	if i >= len(line) {
		return line, nil, ""
	}
	head = line[:i+1]
	rest := line[i+1:]
	if j := strings.LastIndexByte(rest, ' '); j >= 0 {
		ts = rest[j+1:]
		rest = rest[:j]
	}
	for _, f := range strings.Split(rest, ",") {
		if k := strings.IndexByte(f, '='); k >= 0 {
			fields = append(fields, [2]string{f[:k], f[k+1:]})
		} else {
			fields = append(fields, [2]string{f, ""})
		}
	}
	return
}
