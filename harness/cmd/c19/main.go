// C19: every event is delivered once to every backend with its fields intact.
//
// One case = one run of a real pipeline assembled as statsd.Server does it:
//
//	standalone: DatagramParser x P -> CloudHandler (scripted cache) -> TagHandler -> BackendHandler (k capturing backends)
//	forwarded : DatagramParser x P -> CloudHandler -> TagHandler -> HttpForwarderHandlerV2
//	            -> web.NewHttpServer router (httptest) -> TagHandler -> BackendHandler (k capturing backends)
//	ingest    : pb.EventV2 messages posted concurrently to that router -> same tail
//
// Event lines come from concurrent senders; backends are slow (scripted delays) so that sends overlap, tokens
// run out and WaitForEvents is called while sends are in flight.  A pass-through PipelineHandler in front of the
// tail's TagHandler records when an event enters the tail (and whether it was released by the cloud handler).
// Emitted: the inputs, what every backend received, the observable trace; Corr/C19.v compares the received
// multisets with the composed model and decides whether the trace is a run of the bookkeeping LTS.
package main

import (
	"bytes"
	"context"
	"encoding/json"
	"fmt"
	"io"
	"net"
	"net/http"
	"net/http/httptest"
	"os"
	"regexp"
	"runtime"
	"strconv"
	"strings"
	"sync"
	"sync/atomic"
	"time"
	"unicode/utf8"

	"path/filepath"

	"github.com/sirupsen/logrus"
	"github.com/spf13/viper"
	"google.golang.org/protobuf/proto"

	"github.com/atlassian/gostatsd"
	"github.com/atlassian/gostatsd/pb"
	"github.com/atlassian/gostatsd/pkg/statsd"
	"github.com/atlassian/gostatsd/pkg/transport"
	"github.com/atlassian/gostatsd/pkg/web"
	"github.com/atlassian/gostatsd/verifhooks"

	"verifharness/hlib"
	"verifharness/lexgen"
)

type senderIn struct {
	IP   string   `json:"ip"`
	Kind string   `json:"kind"` // hit-pos | hit-neg | miss-pos | miss-neg
	ID   string   `json:"id"`
	Tags []string `json:"tags"`
}

type dgIn struct {
	S     int     `json:"s"`     // sender index
	Lines [][]int `json:"lines"` // bytes
}

type pbIn struct {
	Title    string   `json:"title"`
	Text     string   `json:"text"`
	Date     int64    `json:"date"`
	Hostname string   `json:"hostname"`
	AggKey   string   `json:"aggkey"`
	SrcType  string   `json:"srctype"`
	Tags     []string `json:"tags"`
	SourceIP string   `json:"sourceip"`
	Priority int32    `json:"priority"`
	Type     int32    `json:"type"`
}

type input struct {
	Mode     string     `json:"mode"` // standalone | forwarded | ingest
	Stream   string     `json:"stream"`
	NS       string     `json:"ns"`
	Static   []string   `json:"static"`
	StaticS  []string   `json:"static_s"`
	NB       int        `json:"nb"`
	Cap      int        `json:"cap"`
	Cloud    bool       `json:"cloud"`
	Senders  []senderIn `json:"senders"`
	Dgs      []dgIn     `json:"dgs"`
	Msgs     []pbIn     `json:"msgs"`
	Parsers  int        `json:"parsers"`
	Groups   int        `json:"groups"`
	Delays   [][]int    `json:"delays"` // per backend: microseconds per SendEvent call, cyclic
	Compress string     `json:"compress"`
	Fails    [][]int    `json:"fails"`                   // per backend, cyclic per SendEvent call: 0 = nil, 1 = an error, 2 = context.Canceled, 3 = context.DeadlineExceeded
	UpFaults []int      `json:"up_faults"`               // forwarded: fault on the FIRST attempt of the n-th distinct event request, cyclic: 0 none, 1 = 503 after reading the body, 2 = connection closed after reading the body, 3 = slow
	NoIntEv  bool       `json:"disable_internal_events"` // server stream: Server.DisableInternalEvents
	Overlap  bool       `json:"overlap"`                 // WaitForEvents is also called from another goroutine while DispatchEvent calls are in progress
	TapDelay []int      `json:"tap_delay"`               // microseconds the pass-through handler takes per event, cyclic
	Cancel   int        `json:"cancel"`                  // > 0: cancel the dispatch contexts after that many microseconds
}

const unknownID = 2000000

// signature of the known finding "the forwarder drops an event that is not valid UTF-8"
const nonUTF8Sig = "D8-non-utf8-event-dropped-by-forwarder"

// the separate stream that reproduces it is generated only once the finding is listed in
// /verif/known_findings.jsonl (the check must exit 0 until the lead has listed it)
func findingListed() bool {
	var roots []string
	if wd, err := os.Getwd(); err == nil {
		roots = append(roots, wd)
	}
	if exe, err := os.Executable(); err == nil {
		roots = append(roots, filepath.Dir(exe))
	}
	for _, d := range roots {
		for i := 0; i < 6; i++ {
			if b, err := os.ReadFile(filepath.Join(d, "known_findings.jsonl")); err == nil {
				for _, l := range strings.Split(string(b), "\n") {
					if strings.HasPrefix(l, "{") && strings.Contains(l, nonUTF8Sig) && strings.Contains(l, `"C19"`) {
						return true
					}
				}
				return false
			}
			d = filepath.Dir(d)
		}
	}
	return false
}

var lineIDre = regexp.MustCompile(`^_e\{[0-9]+,[0-9]+\}:E([0-9]{1,6})\.`)
var titleIDre = regexp.MustCompile(`^E([0-9]{1,6})\.`)

func lineID(line string, pos int) int {
	if m := lineIDre.FindStringSubmatch(line); m != nil {
		n, _ := strconv.Atoi(m[1])
		return n
	}
	return 1000000 + pos
}

func titleID(title string) int {
	if m := titleIDre.FindStringSubmatch(title); m != nil {
		n, _ := strconv.Atoi(m[1])
		return n
	}
	return unknownID
}

// ---------------------------------------------------------------------------------------
// the observable log

type obs struct {
	K   string // accepted enter entered call ret cancel waitcall waitret
	E   int
	B   int
	Rel bool
	Es  []int
}

type tlog struct {
	mu  sync.Mutex
	evs []obs
}

func (l *tlog) add(o obs) {
	l.mu.Lock()
	l.evs = append(l.evs, o)
	l.mu.Unlock()
}

func (l *tlog) coq() string {
	l.mu.Lock()
	defer l.mu.Unlock()
	out := make([]string, 0, len(l.evs))
	for _, o := range l.evs {
		switch o.K {
		case "accepted":
			es := make([]string, len(o.Es))
			for i, e := range o.Es {
				es[i] = hlib.N(uint64(e))
			}
			out = append(out, hlib.App("OAccepted", hlib.List(es)))
		case "enter":
			out = append(out, hlib.App("OEnter", hlib.N(uint64(o.E)), hlib.Bool(o.Rel)))
		case "entered":
			out = append(out, hlib.App("OEntered", hlib.N(uint64(o.E))))
		case "call":
			out = append(out, hlib.App("OCall", hlib.N(uint64(o.E)), hlib.Nat(o.B)))
		case "ret":
			out = append(out, hlib.App("ORet", hlib.N(uint64(o.E)), hlib.Nat(o.B)))
		case "cancel":
			out = append(out, "OCancel")
		case "waitcall":
			out = append(out, "OWaitCall")
		case "waitret":
			out = append(out, "OWaitRet")
		}
	}
	return hlib.List(out)
}

// ---------------------------------------------------------------------------------------
// capturing backend

type shared struct {
	gate     chan struct{} // overlap runs: the first send of event [plug] on backend 0 waits for it
	plug     int
	log      *tlog
	inflight int64 // SendEvent calls in progress, all backends
	maxInfl  int64
	rets     int64
}

var errSend = fmt.Errorf("scripted backend failure")

type capBackend struct {
	idx    int
	fails  []int
	delays []int
	sh     *shared
	mu     sync.Mutex
	got    []gostatsd.Event
	n      int
}

func (b *capBackend) Name() string { return fmt.Sprintf("cap%d", b.idx) }
func (b *capBackend) SendMetricsAsync(ctx context.Context, mm *gostatsd.MetricMap, cb gostatsd.SendCallback) {
	cb(nil)
}
func (b *capBackend) SendEvent(ctx context.Context, e *gostatsd.Event) error {
	id := titleID(e.Title)
	b.sh.log.add(obs{K: "call", E: id, B: b.idx})
	n := atomic.AddInt64(&b.sh.inflight, 1)
	for {
		m := atomic.LoadInt64(&b.sh.maxInfl)
		if n <= m || atomic.CompareAndSwapInt64(&b.sh.maxInfl, m, n) {
			break
		}
	}
	b.mu.Lock()
	k := b.n
	b.n++
	b.mu.Unlock()
	if b.sh.gate != nil && b.idx == 0 && id == b.sh.plug {
		select {
		case <-b.sh.gate:
		case <-time.After(3 * time.Second):
		}
	}
	if len(b.delays) > 0 {
		if d := b.delays[k%len(b.delays)]; d > 0 {
			time.Sleep(time.Duration(d) * time.Microsecond)
		}
	}
	ec := *e
	ec.Tags = e.Tags.Copy()
	b.mu.Lock()
	b.got = append(b.got, ec)
	b.mu.Unlock()
	atomic.AddInt64(&b.sh.inflight, -1)
	atomic.AddInt64(&b.sh.rets, 1)
	b.sh.log.add(obs{K: "ret", E: id, B: b.idx})
	// the event has been handed to this backend exactly once, whatever the send reports
	if len(b.fails) > 0 {
		switch b.fails[k%len(b.fails)] {
		case 1:
			return errSend
		case 2:
			return context.Canceled
		case 3:
			return context.DeadlineExceeded
		}
	}
	return nil
}

// ---------------------------------------------------------------------------------------
// pass-through handler in front of the tail's TagHandler

type tap struct {
	next     gostatsd.PipelineHandler
	log      *tlog
	entered  int64
	entering int64
	delays   []int
	n        int64
}

func (t *tap) EstimatedTags() int { return t.next.EstimatedTags() }
func (t *tap) DispatchMetricMap(ctx context.Context, mm *gostatsd.MetricMap) {
	t.next.DispatchMetricMap(ctx, mm)
}
func (t *tap) WaitForEvents() { t.next.WaitForEvents() }
func (t *tap) DispatchEvent(ctx context.Context, e *gostatsd.Event) {
	id := titleID(e.Title)
	rel := false
	pcs := make([]uintptr, 8)
	n := runtime.Callers(2, pcs)
	frames := runtime.CallersFrames(pcs[:n])
	for {
		f, more := frames.Next()
		if strings.HasSuffix(f.Function, "updateAndDispatchEvents") {
			rel = true
		}
		if !more {
			break
		}
	}
	if len(t.delays) > 0 { // a slow stage between the cloud handler and the backend handler
		k := atomic.AddInt64(&t.n, 1)
		if d := t.delays[int(k)%len(t.delays)]; d > 0 {
			time.Sleep(time.Duration(d) * time.Microsecond)
		}
	}
	t.log.add(obs{K: "enter", E: id, Rel: rel})
	atomic.AddInt64(&t.entering, 1)
	t.next.DispatchEvent(ctx, e)
	atomic.AddInt64(&t.entered, 1)
	t.log.add(obs{K: "entered", E: id})
}

// ---------------------------------------------------------------------------------------
// scripted instance cache: hit-* sources are in the table from the start, miss-* sources are
// looked up (every lookup handed to IpSink is answered once, after a short delay)

type cache struct {
	mu     sync.Mutex
	table  map[gostatsd.Source]*gostatsd.Instance
	script map[string]senderIn
	sink   chan gostatsd.Source
	source chan gostatsd.InstanceInfo
	ctx    context.Context
	wg     sync.WaitGroup
	looks  int64
}

func instOf(s senderIn) *gostatsd.Instance {
	if strings.HasSuffix(s.Kind, "pos") {
		return &gostatsd.Instance{ID: gostatsd.Source(s.ID), Tags: append(gostatsd.Tags{}, s.Tags...)}
	}
	return nil
}

func newCache(ctx context.Context, senders []senderIn) *cache {
	c := &cache{table: map[gostatsd.Source]*gostatsd.Instance{}, script: map[string]senderIn{}, sink: make(chan gostatsd.Source),
		source: make(chan gostatsd.InstanceInfo), ctx: ctx}
	for _, s := range senders {
		c.script[s.IP] = s
		if strings.HasPrefix(s.Kind, "hit") {
			c.table[gostatsd.Source(s.IP)] = instOf(s)
		}
	}
	return c
}

func (c *cache) Peek(ip gostatsd.Source) (*gostatsd.Instance, bool) {
	c.mu.Lock()
	defer c.mu.Unlock()
	i, ok := c.table[ip]
	return i, ok
}
func (c *cache) IpSink() chan<- gostatsd.Source           { return c.sink }
func (c *cache) InfoSource() <-chan gostatsd.InstanceInfo { return c.source }
func (c *cache) EstimatedTags() int                       { return 2 }
func (c *cache) serve() {
	defer c.wg.Done()
	for {
		select {
		case <-c.ctx.Done():
			return
		case s := <-c.sink:
			n := atomic.AddInt64(&c.looks, 1)
			c.wg.Add(1)
			go func() {
				defer c.wg.Done()
				time.Sleep(time.Duration(30+(n*97)%400) * time.Microsecond)
				inst := instOf(c.script[string(s)])
				c.mu.Lock()
				c.table[s] = inst
				c.mu.Unlock()
				select {
				case c.source <- gostatsd.InstanceInfo{IP: s, Instance: inst}:
				case <-c.ctx.Done():
				}
			}()
		}
	}
}

// ---------------------------------------------------------------------------------------

var quiet = func() *logrus.Logger { l := logrus.New(); l.SetOutput(io.Discard); return l }()

func bytesOf(a []int) string { return lexgen.FromInts(a) }

func coqEvent(e *gostatsd.Event) string {
	return hlib.App("CEvent", hlib.Bytes(e.Title), hlib.Bytes(e.Text), hlib.Z(e.DateHappened), hlib.Bytes(e.AggregationKey),
		hlib.Bytes(e.SourceTypeName), hlib.StrList(e.Tags), hlib.Bytes(string(e.Source)), hlib.Z(int64(e.Priority)), hlib.Z(int64(e.AlertType)))
}

// hang detection: the first wait of a case that does not come back gets hangAfter, every later
// wait of the same case only a moment (nothing will move any more); a generation run stops after
// a few hung cases (each leaks blocked goroutines)
const hangAfter = 4 * time.Second

var hungCases = 0

func waitTimeout(f func(), d time.Duration) bool {
	done := make(chan struct{})
	go func() { f(); close(done) }()
	select {
	case <-done:
		return true
	case <-time.After(d):
		return false
	}
}

func eventNonUTF8(e *gostatsd.Event) bool {
	if e == nil {
		return false
	}
	ok := utf8.ValidString(e.Title) && utf8.ValidString(e.Text) && utf8.ValidString(e.AggregationKey) && utf8.ValidString(e.SourceTypeName)
	for _, t := range e.Tags {
		ok = ok && utf8.ValidString(t)
	}
	return !ok
}

// runCase returns the case and, for a forwarder run with event lines that are not valid UTF-8, a
// second case that carries nothing but the known finding (those events are dropped by the
// forwarder); the first case then checks everything else of the run at full strength.
func runCase(in input) []hlib.Case {
	c, k := runCase1(in)
	if k != nil {
		return []hlib.Case{c, *k}
	}
	return []hlib.Case{c}
}

func runCase1(in input) (hlib.Case, *hlib.Case) {
	logrus.SetOutput(io.Discard)
	if in.Mode == "server" {
		return runServer(in), nil
	}
	var monitors []string
	var monMu sync.Mutex
	mon := func(f string, a ...interface{}) {
		monMu.Lock()
		defer monMu.Unlock()
		if len(monitors) < 10 {
			monitors = append(monitors, fmt.Sprintf(f, a...))
		}
	}
	hung := false
	patience := func() time.Duration {
		if hung {
			return 200 * time.Millisecond
		}
		return hangAfter
	}
	wt := func(f func()) bool {
		ok := waitTimeout(f, patience())
		if !ok && !hung {
			hung = true
			hungCases++
			mon("a wait did not come back: max-concurrent-events %d, backend failure scripts %v, backend delays %v", in.Cap, in.Fails, in.Delays)
		}
		return ok
	}
	ctx, cancel := context.WithCancel(context.Background())
	defer cancel()
	dctx, dcancel := context.WithCancel(ctx) // the context the parsers dispatch with
	defer dcancel()

	log := &tlog{}
	sh := &shared{log: log}
	backends := make([]gostatsd.Backend, in.NB)
	caps := make([]*capBackend, in.NB)
	for i := range backends {
		var d []int
		if i < len(in.Delays) {
			d = in.Delays[i]
		}
		var f []int
		if i < len(in.Fails) {
			f = in.Fails[i]
		}
		caps[i] = &capBackend{idx: i, delays: d, fails: f, sh: sh}
		backends[i] = caps[i]
	}
	af := statsd.AggregatorFactoryFunc(func() statsd.Aggregator {
		return statsd.NewMetricAggregator(nil, time.Minute, time.Minute, time.Minute, time.Minute, gostatsd.TimerSubtypes{}, 0)
	})
	// The aggregation worker is not started: the few metric lines of a run stay in its (large) queue.
	// BackendHandler.Run closes that queue when its context ends, and a metric map released late by
	// the cloud handler would then hit a closed channel - a shutdown-order matter outside C19.
	bh := statsd.NewBackendHandler(backends, uint(in.Cap), 1, 4096, af)
	var bg sync.WaitGroup

	tailStatic := in.Static
	if in.Mode != "standalone" {
		tailStatic = in.StaticS
	}
	tailTags := statsd.NewTagHandler(bh, append(gostatsd.Tags{}, tailStatic...), nil)
	tp := &tap{next: tailTags, log: log, delays: in.TapDelay}

	var head gostatsd.PipelineHandler = tp
	var srv *httptest.Server
	if in.Mode != "standalone" {
		hs, err := web.NewHttpServer(quiet, tp, "verif", "127.0.0.1:0", false, false, true, false, nil, nil)
		if err != nil {
			return hlib.Case{Input: in, Monitors: []string{"cannot build the ingestion server: " + err.Error()}, Class: in.Mode}, nil
		}
		// a fault layer in front of the real ingestion server: the first attempt of some event requests
		// fails after its body has been read (nothing is dispatched), every later attempt passes
		var fmu sync.Mutex
		seenBody := map[string]bool{}
		nDistinct := 0
		srv = httptest.NewServer(http.HandlerFunc(func(w http.ResponseWriter, req *http.Request) {
			if len(in.UpFaults) > 0 && req.URL.Path == "/v2/event" {
				body, _ := io.ReadAll(req.Body)
				fmu.Lock()
				f := 0
				if !seenBody[string(body)] {
					seenBody[string(body)] = true
					f = in.UpFaults[nDistinct%len(in.UpFaults)]
					nDistinct++
				}
				fmu.Unlock()
				switch f {
				case 1:
					w.WriteHeader(http.StatusServiceUnavailable)
					return
				case 2:
					if hj, ok := w.(http.Hijacker); ok {
						if conn, _, err := hj.Hijack(); err == nil {
							conn.Close()
							return
						}
					}
					w.WriteHeader(http.StatusBadGateway)
					return
				case 3:
					time.Sleep(20 * time.Millisecond)
				}
				req.Body = io.NopCloser(bytes.NewReader(body))
			}
			hs.Router.ServeHTTP(w, req)
		}))
		defer srv.Close()
	}
	if in.Mode == "forwarded" {
		pool := transport.NewTransportPool(quiet, viper.New())
		compress, ctype := false, "zlib"
		if in.Compress != "" && in.Compress != "none" {
			compress, ctype = true, in.Compress
		}
		hfh, err := statsd.NewHttpForwarderHandlerV2(quiet, "default", srv.URL, 1, 8, 1, compress, ctype, 1, 2500*time.Millisecond, time.Second, nil, nil, pool, nil)
		if err != nil {
			return hlib.Case{Input: in, Monitors: []string{"cannot build the forwarder: " + err.Error()}, Class: in.Mode}, nil
		}
		head = statsd.NewTagHandler(hfh, append(gostatsd.Tags{}, in.Static...), nil)
	}
	var ca *cache
	if in.Cloud && in.Mode != "ingest" {
		ca = newCache(ctx, in.Senders)
		ch := statsd.NewCloudHandler(ca, head)
		bg.Add(1)
		go func() { defer bg.Done(); ch.Run(ctx) }()
		ca.wg.Add(1)
		go ca.serve()
		head = ch
	}

	// what the implementation's own lexer accepts: the number of events that must come out
	ll := verifhooks.NewLineLexer(4)
	nAccepted := 0
	nLines := 0
	badLine := map[int]bool{}     // forwarder mode: accepted event lines with a non-UTF-8 string (known finding)
	badTitle := map[string]bool{} // ... their titles
	tlo := time.Now().Unix()

	// overlap runs: item 0 carries the plug event, whose first send is held at the gate; the other
	// items start once that send has begun; when every DispatchEvent call has entered the tail (they
	// now wait for tokens behind slow backends) WaitForEvents is called from another goroutine and
	// the gate is opened.  sync.WaitGroup's own "reused before previous Wait has returned" panic is
	// raised in the waiting goroutine and only tells that the counter passed through zero: recovered.
	startRest := make(chan struct{})
	coordDone := make(chan struct{})
	overlapped := false
	coordinate := func(plug int, total int, h gostatsd.PipelineHandler) {
		defer close(coordDone)
		poll := func(cond func() bool) bool {
			for i := 0; i < 4000; i++ {
				if cond() {
					return true
				}
				time.Sleep(500 * time.Microsecond)
			}
			return false
		}
		called := poll(func() bool {
			log.mu.Lock()
			defer log.mu.Unlock()
			for _, o := range log.evs {
				if o.K == "call" && o.E == plug && o.B == 0 {
					return true
				}
			}
			return false
		})
		close(startRest)
		if !called {
			close(sh.gate)
			return
		}
		poll(func() bool { return atomic.LoadInt64(&tp.entering) >= int64(total) })
		time.Sleep(300 * time.Microsecond)
		waitDone := make(chan struct{})
		go func() {
			defer close(waitDone)
			defer func() { recover() }()
			log.add(obs{K: "waitcall"})
			h.WaitForEvents()
			log.add(obs{K: "waitret"})
			overlapped = true
		}()
		time.Sleep(200 * time.Microsecond)
		close(sh.gate)
		select {
		case <-waitDone:
		case <-time.After(hangAfter):
			mon("WaitForEvents, called while DispatchEvent calls were in progress, did not return within 4s")
		}
	}
	if !in.Overlap {
		close(startRest)
		close(coordDone)
	}

	if in.Mode == "ingest" {
		nAccepted = len(in.Msgs)
		groups := in.Groups
		if groups < 1 {
			groups = 1
		}
		if in.Overlap {
			groups = len(in.Msgs)
			if len(in.Msgs) > 0 && in.NB > 0 {
				sh.gate, sh.plug = make(chan struct{}), titleID(in.Msgs[0].Title)
				go coordinate(sh.plug, nAccepted, tp)
			} else {
				close(startRest)
				close(coordDone)
			}
		}
		var swg sync.WaitGroup
		for g := 0; g < groups; g++ {
			swg.Add(1)
			go func(g int) {
				defer swg.Done()
				for i := g; i < len(in.Msgs); i += groups {
					if i > 0 {
						<-startRest
					}
					m := in.Msgs[i]
					msg := &pb.EventV2{Title: m.Title, Text: m.Text, DateHappened: m.Date, Hostname: m.Hostname, AggregationKey: m.AggKey,
						SourceTypeName: m.SrcType, Tags: m.Tags, SourceIP: m.SourceIP, Priority: pb.EventV2_EventPriority(m.Priority), Type: pb.EventV2_AlertType(m.Type)}
					body, err := proto.Marshal(msg)
					if err != nil {
						mon("harness: message %d does not marshal: %v", i, err)
						continue
					}
					resp, err := http.Post(srv.URL+"/v2/event", "application/x-protobuf", bytes.NewReader(body))
					if err != nil {
						mon("post of message %d failed: %v", i, err)
						continue
					}
					io.Copy(io.Discard, resp.Body)
					resp.Body.Close()
					if resp.StatusCode != 202 {
						mon("message %d answered %d", i, resp.StatusCode)
					}
				}
			}(g)
		}
		if !wt(swg.Wait) {
			mon("posting the messages did not finish within 4s")
		}
	} else {
		inCh := make(chan []*statsd.Datagram)
		parsers := in.Parsers
		if parsers < 1 {
			parsers = 1
		}
		if in.Overlap && parsers < len(in.Dgs) {
			parsers = len(in.Dgs) // every DispatchEvent call in its own goroutine, as the HTTP handlers do
		}
		parser := statsd.NewDatagramParser(inCh, in.NS, false, 0, head, 0, false, quiet)
		for p := 0; p < parsers; p++ {
			bg.Add(1)
			go func() { defer bg.Done(); parser.Run(dctx) }()
		}
		groups := in.Groups
		if groups < 1 {
			groups = 1
		}
		// ids of the lines of every datagram
		ids := make([][]int, len(in.Dgs))
		pos := 0
		for i, dg := range in.Dgs {
			for _, l := range dg.Lines {
				line := bytesOf(l)
				o := lexgen.Lex(ll, line, in.NS)
				if o.Kind == "event" { // OAccepted names the accepted event lines only
					ids[i] = append(ids[i], lineID(line, pos))
					if in.Mode == "forwarded" && eventNonUTF8(o.Event) {
						badLine[pos] = true
						badTitle[o.Event.Title] = true
					} else {
						nAccepted++
					}
				}
				pos++
			}
		}
		nLines = pos
		var done sync.WaitGroup
		var swg sync.WaitGroup
		if in.Overlap {
			groups = len(in.Dgs)
			if len(in.Dgs) > 0 && len(ids[0]) > 0 && in.NB > 0 {
				sh.gate, sh.plug = make(chan struct{}), ids[0][0]
				go coordinate(sh.plug, nAccepted, head)
			} else {
				close(startRest)
				close(coordDone)
			}
		}
		if in.Cancel > 0 {
			go func() {
				time.Sleep(time.Duration(in.Cancel) * time.Microsecond)
				log.add(obs{K: "cancel"})
				dcancel()
			}()
		}
		for g := 0; g < groups; g++ {
			swg.Add(1)
			go func(g int) {
				defer swg.Done()
				for i := g; i < len(in.Dgs); i += groups {
					if i > 0 {
						<-startRest
					}
					dg := in.Dgs[i]
					if dg.S < 0 || dg.S >= len(in.Senders) {
						continue
					}
					var msg []byte
					for k, l := range dg.Lines {
						if k > 0 {
							msg = append(msg, '\n')
						}
						msg = append(msg, bytesOf(l)...)
					}
					i := i
					done.Add(1)
					d := &statsd.Datagram{IP: gostatsd.Source(in.Senders[dg.S].IP), Msg: msg, Timestamp: gostatsd.Nanotime(time.Now().UnixNano()),
						DoneFunc: func() {
							if in.Mode == "standalone" { // in forwarder mode the trace is that of the ingesting server
								log.add(obs{K: "accepted", Es: ids[i]})
							}
							done.Done()
						}}
					select {
					case inCh <- []*statsd.Datagram{d}:
					case <-dctx.Done():
						done.Done()
					}
				}
			}(g)
		}
		if !wt(func() { swg.Wait(); done.Wait() }) {
			mon("the parsers did not take / finish every datagram within 4s")
		}
	}

	wt(func() { <-coordDone })
	if overlapped {
		// a send of e had started before that call: eventWg.Add(len(backends)) for e had happened, so the
		// call may only have returned after ALL sends of e
		log.mu.Lock()
		wc, wr := -1, -1
		for i, o := range log.evs {
			if o.K == "waitcall" && wc < 0 {
				wc = i
			}
			if o.K == "waitret" && wr < 0 {
				wr = i
			}
		}
		started, rets := map[int]bool{}, map[int]int{}
		for i, o := range log.evs {
			if o.K == "call" && i < wc {
				started[o.E] = true
			}
			if o.K == "ret" && i < wr {
				rets[o.E]++
			}
		}
		log.mu.Unlock()
		for e := range started {
			if rets[e] != in.NB {
				mon("WaitForEvents, called while DispatchEvent calls were in progress, returned when event E%d had completed %d of its %d sends although one of them had started before the call", e, rets[e], in.NB)
			}
		}
	}

	// ---- shutdown: WaitForEvents on the head of the pipeline, as sendStopEvent does
	retsAtWait := int64(-1)
	enteredAtWait := int64(-1)
	if in.Mode == "forwarded" {
		// first the forwarder: every accepted event must have been posted (entered the ingesting server)
		if !wt(head.WaitForEvents) {
			mon("the forwarder's WaitForEvents did not return within 4s")
		}
		enteredAtWait = atomic.LoadInt64(&tp.entered)
		if in.Cancel == 0 && enteredAtWait != int64(nAccepted) {
			mon("the forwarder's WaitForEvents returned when %d of %d accepted events had reached the ingesting server", enteredAtWait, nAccepted)
		}
		log.add(obs{K: "waitcall"})
		ok := wt(tp.WaitForEvents)
		retsAtWait = atomic.LoadInt64(&sh.rets)
		log.add(obs{K: "waitret"})
		if !ok {
			mon("the ingesting server's WaitForEvents did not return within 4s")
		}
	} else {
		var h gostatsd.PipelineHandler = head
		if in.Mode == "ingest" {
			h = tp
		}
		log.add(obs{K: "waitcall"})
		ok := wt(h.WaitForEvents)
		retsAtWait = atomic.LoadInt64(&sh.rets)
		log.add(obs{K: "waitret"})
		if !ok {
			mon("WaitForEvents did not return within 4s")
		}
	}
	thi := time.Now().Unix()
	want := int64(nAccepted * in.NB)
	if in.Cancel == 0 && retsAtWait != want {
		mon("WaitForEvents returned when %d of the %d SendEvent calls owed for the %d accepted events had returned", retsAtWait, want, nAccepted)
	}
	// let stragglers finish so that the record is complete
	for i := 0; i < 400 && (atomic.LoadInt64(&sh.inflight) > 0 || (in.Cancel == 0 && atomic.LoadInt64(&sh.rets) < want)); i++ {
		time.Sleep(500 * time.Microsecond)
	}
	time.Sleep(300 * time.Microsecond)
	if m := atomic.LoadInt64(&sh.maxInfl); m > int64(in.Cap) {
		mon("%d SendEvent calls were in progress at once, max-concurrent-events is %d", m, in.Cap)
	}
	cancel()
	waitTimeout(bg.Wait, 2*time.Second)
	if ca != nil {
		waitTimeout(ca.wg.Wait, 2*time.Second)
	}

	// ---- per backend: no event twice, none missing (by content, independent of the model)
	recv := make([]string, in.NB)
	total := 0
	for b, cb := range caps {
		cb.mu.Lock()
		seen := map[string]int{}
		evs := make([]string, len(cb.got))
		for i := range cb.got {
			e := &cb.got[i]
			evs[i] = coqEvent(e)
			seen[e.Title]++
		}
		total += len(cb.got)
		if in.Cancel == 0 && len(cb.got) != nAccepted {
			mon("backend %d received %d events, %d event lines were accepted", b, len(cb.got), nAccepted)
		}
		for t, n := range seen {
			if n > 1 && titleID(t) != unknownID {
				mon("backend %d received event %q %d times", b, t, n)
			}
		}
		cb.mu.Unlock()
		recv[b] = hlib.List(evs)
	}

	// ---- the Coq case
	modeC := map[string]string{"standalone": "MStandalone", "forwarded": "MForwarded", "ingest": "MIngest"}[in.Mode]
	senders := make([]string, len(in.Senders))
	for i, s := range in.Senders {
		io := "None"
		if in.Cloud && strings.HasSuffix(s.Kind, "pos") {
			io = hlib.App("Some", hlib.App("Inst", hlib.Bytes(s.ID), hlib.StrList(s.Tags)))
		}
		senders[i] = hlib.Pair(hlib.Bytes(s.IP), io)
	}
	var lines []string
	pos := 0
	for _, dg := range in.Dgs {
		for _, l := range dg.Lines {
			if !badLine[pos] {
				lines = append(lines, hlib.Pair(hlib.Nat(dg.S), hlib.Bytes(bytesOf(l))))
			}
			pos++
		}
	}
	var msgs []string
	for _, m := range in.Msgs {
		msgs = append(msgs, hlib.App("PbE", hlib.Bytes(m.Title), hlib.Bytes(m.Text), hlib.Z(m.Date), hlib.Bytes(m.Hostname), hlib.Bytes(m.AggKey),
			hlib.Bytes(m.SrcType), hlib.StrList(m.Tags), hlib.Bytes(m.SourceIP), hlib.Z(int64(m.Priority)), hlib.Z(int64(m.Type))))
	}
	c := hlib.Case{Input: in, Monitors: monitors}
	c.Coq = hlib.App("C19", modeC, hlib.Bytes(in.NS), hlib.StrList(in.Static), hlib.StrList(in.StaticS), hlib.Nat(in.NB), hlib.Nat(in.Cap),
		hlib.List(senders), hlib.List(lines), hlib.List(msgs), hlib.Z(tlo), hlib.Z(thi), hlib.List(recv), log.coq())
	looks := int64(0)
	if ca != nil {
		looks = atomic.LoadInt64(&ca.looks)
	}
	rel := 0
	log.mu.Lock()
	for _, o := range log.evs {
		if o.K == "enter" && o.Rel {
			rel++
		}
	}
	ntrace := len(log.evs)
	log.mu.Unlock()
	c.Obs = map[string]interface{}{"lines": nLines, "accepted_events": nAccepted, "received_total": total, "lookups": looks,
		"released_by_lookup": rel, "max_concurrent_sends": atomic.LoadInt64(&sh.maxInfl), "trace_len": ntrace,
		"rets_at_wait": retsAtWait}
	c.Class = in.Mode + "/" + in.Stream
	c.Nontrivial = nAccepted >= 3 && in.NB >= 1
	if len(badLine) == 0 {
		return c, nil
	}
	// the known finding, on its own: did any of the non-UTF-8 events reach the ingesting server?
	arrived := 0
	for _, cb := range caps {
		cb.mu.Lock()
		for i := range cb.got {
			if badTitle[cb.got[i].Title] {
				arrived++
			}
		}
		cb.mu.Unlock()
	}
	k := hlib.Case{Input: in, Class: in.Mode + "/" + in.Stream + "/known", Known: nonUTF8Sig, Key: hlib.HashOf(in) + "-k",
		Obs: map[string]interface{}{"non_utf8_event_lines": len(badLine), "deliveries_of_them": arrived}}
	if in.NB > 0 && arrived < len(badLine)*in.NB {
		k.Monitors = []string{fmt.Sprintf("%d accepted event line(s) with a string that is not valid UTF-8: %d of the %d deliveries owed upstream happened (the forwarder drops such events)",
			len(badLine), arrived, len(badLine)*in.NB)}
	}
	return c, &k
}

// ---------------------------------------------------------------------------------------
// the real statsd.Server: RunWithCustomSocket with a loopback UDP socket, the HTTP ingestion server
// it builds from its viper configuration, DefaultTags, a scripted cache as CachedInstances and
// capturing backends.  The same kind of events enter as UDP lines and as POST /v2/event messages;
// whichever way they came, every backend must get them once with static (and instance) tags.

func runServer(in input) hlib.Case {
	c := hlib.Case{Input: in, Class: "server/" + in.Stream}
	mon := func(f string, a ...interface{}) {
		if len(c.Monitors) < 10 {
			c.Monitors = append(c.Monitors, fmt.Sprintf(f, a...))
		}
	}
	conn, err := net.ListenPacket("udp4", "127.0.0.1:0")
	if err != nil {
		c.Class = "server/no-loopback"
		return c
	}
	probe, err := net.Listen("tcp4", "127.0.0.1:0")
	if err != nil {
		conn.Close()
		c.Class = "server/no-loopback"
		return c
	}
	httpAddr := probe.Addr().String()
	probe.Close()

	log := &tlog{}
	sh := &shared{log: log}
	backends := make([]gostatsd.Backend, in.NB)
	caps := make([]*capBackend, in.NB)
	for i := range backends {
		var d, f []int
		if i < len(in.Delays) {
			d = in.Delays[i]
		}
		if i < len(in.Fails) {
			f = in.Fails[i]
		}
		caps[i] = &capBackend{idx: i, delays: d, fails: f, sh: sh}
		backends[i] = caps[i]
	}
	ctx, cancel := context.WithCancel(context.Background())
	defer cancel()
	v := viper.New()
	v.Set("http-servers", []string{"ing"})
	v.Set("http.ing.address", httpAddr)
	v.Set("http.ing.enable-ingestion", true)
	srv := statsd.Server{
		Backends:              backends,
		DefaultTags:           append(gostatsd.Tags{}, in.Static...),
		ExpiryIntervalCounter: time.Minute, ExpiryIntervalGauge: time.Minute, ExpiryIntervalSet: time.Minute, ExpiryIntervalTimer: time.Minute,
		FlushInterval:         time.Second,
		MaxReaders:            1,
		MaxParsers:            2,
		MaxWorkers:            1,
		MaxQueueSize:          100,
		MaxConcurrentEvents:   in.Cap,
		ReceiveBatchSize:      4,
		Namespace:             in.NS,
		StatserType:           gostatsd.StatserInternal,
		DisableInternalEvents: in.NoIntEv,
		ServerMode:            "standalone",
		Viper:                 v,
	}
	var ca *cache
	if in.Cloud {
		ca = newCache(ctx, in.Senders)
		srv.CachedInstances = ca
		ca.wg.Add(1)
		go ca.serve()
	}
	done := make(chan error, 1)
	go func() { done <- srv.RunWithCustomSocket(ctx, func() (net.PacketConn, error) { return conn, nil }) }()
	client := &http.Client{Transport: &http.Transport{DisableKeepAlives: true}, Timeout: 3 * time.Second}
	up := false
	for i := 0; i < 600 && !up; i++ {
		if resp, err := client.Get("http://" + httpAddr + "/healthcheck"); err == nil {
			io.Copy(io.Discard, resp.Body)
			resp.Body.Close()
			up = true
		} else {
			time.Sleep(5 * time.Millisecond)
		}
	}
	stop := func() {
		cancel()
		select {
		case err := <-done:
			if err != nil && err != context.Canceled {
				mon("the server returned %v", err)
			}
		case <-time.After(8 * time.Second):
			mon("the server did not stop within 8 s of cancelling its context")
		}
		if ca != nil {
			waitTimeout(ca.wg.Wait, 2*time.Second)
		}
	}
	if !up {
		stop()
		c.Class = "server/inconclusive"
		c.Obs = "the HTTP server did not come up at " + httpAddr
		c.Monitors = nil
		return c
	}
	tlo := time.Now().Unix()
	ll := verifhooks.NewLineLexer(4)
	nAccepted := 0
	sender, err := net.Dial("udp4", conn.LocalAddr().String())
	if err != nil {
		stop()
		c.Class = "server/no-loopback"
		return c
	}
	var swg sync.WaitGroup
	swg.Add(2)
	go func() { // UDP entry
		defer swg.Done()
		for _, dg := range in.Dgs {
			var msg []byte
			for k, l := range dg.Lines {
				if k > 0 {
					msg = append(msg, '\n')
				}
				msg = append(msg, bytesOf(l)...)
			}
			sender.Write(msg)
			time.Sleep(200 * time.Microsecond)
		}
	}()
	go func() { // HTTP entry
		defer swg.Done()
		for i, m := range in.Msgs {
			msg := &pb.EventV2{Title: m.Title, Text: m.Text, DateHappened: m.Date, Hostname: m.Hostname, AggregationKey: m.AggKey,
				SourceTypeName: m.SrcType, Tags: m.Tags, SourceIP: m.SourceIP, Priority: pb.EventV2_EventPriority(m.Priority), Type: pb.EventV2_AlertType(m.Type)}
			body, err := proto.Marshal(msg)
			if err != nil {
				mon("harness: message %d does not marshal: %v", i, err)
				continue
			}
			resp, err := client.Post("http://"+httpAddr+"/v2/event", "application/x-protobuf", bytes.NewReader(body))
			if err != nil {
				mon("post of message %d failed: %v", i, err)
				continue
			}
			io.Copy(io.Discard, resp.Body)
			resp.Body.Close()
			if resp.StatusCode != 202 {
				mon("message %d answered %d", i, resp.StatusCode)
			}
		}
	}()
	for _, dg := range in.Dgs {
		for _, l := range dg.Lines {
			if o := lexgen.Lex(ll, bytesOf(l), in.NS); o.Kind == "event" {
				nAccepted++
			}
		}
	}
	nAccepted += len(in.Msgs)
	swg.Wait()
	sender.Close()
	// shutdown while sends are in progress: as soon as every accepted event has STARTED on some backend
	// (the slow sends and the ones queued behind the semaphore are still owed) the server's context is
	// cancelled; when Run returns, every event that had started a send or had been answered 202 before
	// the cancellation must have completed SendEvent on every backend
	startedIDs := func() map[int]bool {
		m := map[int]bool{}
		log.mu.Lock()
		for _, o := range log.evs {
			if o.K == "call" && o.E != unknownID {
				m[o.E] = true
			}
		}
		log.mu.Unlock()
		return m
	}
	if in.NB > 0 {
		for i := 0; i < 2000 && len(startedIDs()) < nAccepted; i++ {
			time.Sleep(500 * time.Microsecond)
		}
	} else {
		time.Sleep(5 * time.Millisecond)
	}
	owed := startedIDs()
	for _, m := range in.Msgs {
		if id := titleID(m.Title); id != unknownID {
			owed[id] = true
		}
	}
	thi := time.Now().Unix() + 1
	cancel()
	returned := false
	select {
	case err := <-done:
		returned = true
		if err != nil && err != context.Canceled {
			mon("the server returned %v", err)
		}
	case <-time.After(8 * time.Second):
		mon("the server did not stop within 8 s of cancelling its context")
	}
	if returned && in.NB > 0 {
		rets := map[int]int{}
		log.mu.Lock()
		for _, o := range log.evs {
			if o.K == "ret" {
				rets[o.E]++
			}
		}
		log.mu.Unlock()
		short := 0
		for e := range owed {
			if rets[e] != in.NB {
				short++
				if short == 1 {
					mon("Server.RunWithCustomSocket returned (disable-internal-events=%v) when event E%d, accepted before the shutdown, had completed %d of its %d sends", in.NoIntEv, e, rets[e], in.NB)
				}
			}
		}
	}
	if ca != nil {
		waitTimeout(ca.wg.Wait, 2*time.Second)
	}
	for i := 0; i < 400 && atomic.LoadInt64(&sh.inflight) > 0; i++ { // stragglers, for a complete record
		time.Sleep(500 * time.Microsecond)
	}
	time.Sleep(2 * time.Millisecond)
	// the server's own start / stop events
	for b, cb := range caps {
		cb.mu.Lock()
		kept := cb.got[:0]
		internal := map[string]int{}
		for _, e := range cb.got {
			if e.Title == "Gostatsd started" || e.Title == "Gostatsd stopped" {
				internal[e.Title]++
			} else {
				kept = append(kept, e)
			}
		}
		cb.got = kept
		cb.mu.Unlock()
		wantInt := 1
		if in.NoIntEv {
			wantInt = 0
		}
		if internal["Gostatsd started"] != wantInt || internal["Gostatsd stopped"] != wantInt {
			mon("backend %d received %d start and %d stop events of the server itself, expected %d each", b, internal["Gostatsd started"], internal["Gostatsd stopped"], wantInt)
		}
	}
	if m := atomic.LoadInt64(&sh.maxInfl); m > int64(in.Cap) {
		mon("%d SendEvent calls were in progress at once, max-concurrent-events is %d", m, in.Cap)
	}
	recv := make([]string, in.NB)
	total := 0
	for b, cb := range caps {
		cb.mu.Lock()
		evs := make([]string, len(cb.got))
		seen := map[string]int{}
		for i := range cb.got {
			evs[i] = coqEvent(&cb.got[i])
			seen[cb.got[i].Title]++
		}
		total += len(cb.got)
		if len(cb.got) != nAccepted {
			mon("backend %d received %d events, %d were accepted (UDP lines + posted messages)", b, len(cb.got), nAccepted)
		}
		for t, n := range seen {
			if n > 1 && titleID(t) != unknownID {
				mon("backend %d received event %q %d times", b, t, n)
			}
		}
		cb.mu.Unlock()
		recv[b] = hlib.List(evs)
	}
	senders := make([]string, len(in.Senders))
	for i, s := range in.Senders {
		io := "None"
		if in.Cloud && strings.HasSuffix(s.Kind, "pos") {
			io = hlib.App("Some", hlib.App("Inst", hlib.Bytes(s.ID), hlib.StrList(s.Tags)))
		}
		senders[i] = hlib.Pair(hlib.Bytes(s.IP), io)
	}
	var lines, msgs []string
	for _, dg := range in.Dgs {
		for _, l := range dg.Lines {
			lines = append(lines, hlib.Pair(hlib.Nat(0), hlib.Bytes(bytesOf(l))))
		}
	}
	for _, m := range in.Msgs {
		msgs = append(msgs, hlib.App("PbE", hlib.Bytes(m.Title), hlib.Bytes(m.Text), hlib.Z(m.Date), hlib.Bytes(m.Hostname), hlib.Bytes(m.AggKey),
			hlib.Bytes(m.SrcType), hlib.StrList(m.Tags), hlib.Bytes(m.SourceIP), hlib.Z(int64(m.Priority)), hlib.Z(int64(m.Type))))
	}
	c.Coq = hlib.App("C19", "MServer", hlib.Bytes(in.NS), hlib.StrList(in.Static), hlib.StrList(in.StaticS), hlib.Nat(in.NB), hlib.Nat(in.Cap),
		hlib.List(senders), hlib.List(lines), hlib.List(msgs), hlib.Z(tlo), hlib.Z(thi), hlib.List(recv), "[]")
	c.Obs = map[string]interface{}{"accepted_events": nAccepted, "posted": len(in.Msgs), "received_total": total}
	c.Nontrivial = nAccepted >= 3 && in.NB >= 1 && len(in.Msgs) >= 1
	return c
}

// ---------------------------------------------------------------------------------------
// generators

var tagPool = []string{"env:prod", "env:dev", "region:us", "a:b", "k", "team:x", "é:ü", "v:1", "dup", "static:1", "static:2", "it:x", "it:y"}

func pickTags(r *hlib.Rand, lo, hi int) []string {
	n := r.Range(lo, hi)
	out := make([]string, 0, n)
	for i := 0; i < n; i++ {
		out = append(out, hlib.Pick(r, tagPool))
	}
	return out
}

// random text: ASCII incl. the separators of the line grammar, escaped newlines, backslashes,
// multi-byte runes; raw high bytes only when utf8ok is false
func rtext(r *hlib.Rand, lo, hi int, utf8ok bool) string {
	n := r.Range(lo, hi)
	var sb strings.Builder
	for i := 0; i < n; i++ {
		switch r.Intn(14) {
		case 0:
			sb.WriteString("\\n")
		case 1:
			sb.WriteString("é")
		case 2:
			sb.WriteString(hlib.Pick(r, []string{"|", ":", ",", "#", "\\", "_", "{", "}", " ", "\\\\n", "n"}))
		case 3:
			if !utf8ok {
				sb.WriteByte(byte(0x80 + r.Intn(0x80)))
			} else {
				sb.WriteString("日")
			}
		default:
			sb.WriteByte("abcdefghijXYZ0189 -."[r.Intn(20)])
		}
	}
	return sb.String()
}

func eventLine(r *hlib.Rand, id int, utf8ok bool, extraTags []string) string {
	title := fmt.Sprintf("E%d.", id) + rtext(r, 0, 6, utf8ok)
	text := rtext(r, 0, 12, utf8ok)
	var sb strings.Builder
	fmt.Fprintf(&sb, "_e{%d,%d}:%s|%s", len(title), len(text), title, text)
	for i, na := 0, r.Intn(7); i < na; i++ {
		sb.WriteByte('|')
		switch r.Intn(11) {
		case 0:
			sb.WriteString("d:" + hlib.Pick(r, []string{"0", "1", "1500000000", "1234567890", "9223372036854775807", "42", "00"}))
		case 1:
			sb.WriteString("h:" + hlib.Pick(r, []string{"web1", "10.9.9.9", "", "i-0"}))
		case 2:
			sb.WriteString("k:" + rtext(r, 0, 5, true))
		case 3:
			sb.WriteString("p:" + hlib.Pick(r, []string{"low", "normal"}))
		case 4:
			sb.WriteString("s:" + hlib.Pick(r, []string{"nagios", "my apps", "", "é"}))
		case 5:
			sb.WriteString("t:" + hlib.Pick(r, []string{"error", "warning", "success", "info"}))
		case 6, 7, 8:
			ts := pickTags(r, 0, 4)
			if len(extraTags) > 0 && r.Bool() {
				ts = append(ts, hlib.Pick(r, extraTags))
			}
			if r.Chance(1, 5) {
				ts = append(ts, "")
			}
			sb.WriteString("#" + strings.Join(ts, ","))
		default:
			sb.WriteString(hlib.Pick(r, []string{"c:xyz", "x", "zzz", "@0.5"}))
		}
	}
	return sb.String()
}

// lines that are not (or not quite) events; the title prefix E<id>. is left intact
func oddLine(r *hlib.Rand, id int) string {
	switch r.Intn(7) {
	case 0:
		return fmt.Sprintf("m%d:1|c|#a:b", id)
	case 1:
		return fmt.Sprintf("g%d:2.5|g", id)
	case 2: // bad attribute value
		return eventLine(r, id, true, nil) + "|" + hlib.Pick(r, []string{"p:high", "t:fatal", "d:", "d:x", "d:99999999999999999999", "p:"})
	case 3: // declared lengths too long
		l := eventLine(r, id, true, nil)
		return strings.Replace(l, "}", "9}", 1)
	case 4: // truncated
		l := eventLine(r, id, true, nil)
		return l[:r.Range(3, len(l))]
	case 5: // text length shorter: the rest of the text must then start an attribute
		title := fmt.Sprintf("E%d.x", id)
		return fmt.Sprintf("_e{%d,2}:%s|ab%s", len(title), title, hlib.Pick(r, []string{"|p:low", "cd", "|#q", ""}))
	default: // one byte behind the title's id replaced by a separator
		l := eventLine(r, id, true, nil)
		b := []byte(l)
		mark := fmt.Sprintf(":E%d.", id)
		p := r.Range(strings.Index(l, mark)+len(mark), len(b))
		if p < len(b) {
			b[p] = "|:,#_{}\\n"[r.Intn(9)]
		}
		return string(b)
	}
}

func genSenders(r *hlib.Rand, cloud bool) []senderIn {
	n := r.Range(1, 4)
	out := make([]senderIn, n)
	for i := range out {
		kind := hlib.Pick(r, []string{"hit-pos", "hit-neg", "miss-pos", "miss-pos", "miss-neg"})
		if !cloud {
			kind = "hit-neg"
		}
		out[i] = senderIn{IP: fmt.Sprintf("10.0.%d.%d", r.Intn(3), i+1), Kind: kind, ID: fmt.Sprintf("i-%04d", i), Tags: pickTags(r, 0, 3)}
	}
	return out
}

func genDelays(r *hlib.Rand, nb int) [][]int {
	out := make([][]int, nb)
	slow := r.Intn(nb + 1) // index of a slow backend (nb = none)
	for b := range out {
		k := r.Range(1, 4)
		for i := 0; i < k; i++ {
			d := hlib.Pick(r, []int{0, 0, 20, 60, 150, 300})
			if b == slow {
				d = hlib.Pick(r, []int{400, 900, 1500})
			}
			out[b] = append(out[b], d)
		}
	}
	return out
}

var nonUTF8Stream = false

func genCase(r *hlib.Rand, k int) input {
	in := input{NS: hlib.Pick(r, []string{"", "", "ns"}), Parsers: r.Range(1, 3), Groups: r.Range(1, 4)}
	switch {
	case k%10 == 9:
		in.Mode, in.Stream = "ingest", "messages"
	case k%10 == 3 || k%10 == 7:
		in.Mode, in.Stream = "forwarded", "grammar"
	default:
		in.Mode, in.Stream = "standalone", "grammar"
		if k%10 == 5 {
			in.Stream = "odd"
		}
		if k%20 == 11 {
			in.Stream = "cancel"
		}
		if k%20 == 2 {
			in.Stream = "overlap"
		}
	}
	if k%20 == 19 {
		in.Stream = "overlap" // ingest
	}
	if k%20 == 6 {
		in.Mode, in.Stream = "server", "both-entries"
	}
	in.NB = hlib.Pick(r, []int{0, 1, 1, 2, 2, 2, 3, 3})
	in.Cap = r.Range(1, 4)
	in.Cloud = r.Chance(4, 5)
	in.Static = pickTags(r, 0, 3)
	in.StaticS = pickTags(r, 0, 3)
	in.Delays = genDelays(r, in.NB)
	if r.Chance(3, 5) { // failing sends: more failures than tokens within a run
		in.Fails = make([][]int, in.NB)
		for b := range in.Fails {
			for i, n := 0, r.Range(1, 4); i < n; i++ {
				in.Fails[b] = append(in.Fails[b], hlib.Pick(r, []int{0, 1, 1, 1, 2, 3}))
			}
		}
	}
	in.Compress = hlib.Pick(r, []string{"", "zlib", "lz4", "none"})
	if r.Chance(1, 2) {
		for i, n := 0, r.Range(1, 3); i < n; i++ {
			in.TapDelay = append(in.TapDelay, hlib.Pick(r, []int{0, 100, 400, 800}))
		}
	}
	if in.Stream == "cancel" {
		// shutdown in the middle of dispatching: slow backends, few tokens, no lookups (a cancelled
		// hand-off to the cloud handler's goroutine drops the event by design)
		in.Cloud = false
		in.NB, in.Cap = r.Range(2, 3), r.Range(1, 2)
		in.Delays = make([][]int, in.NB)
		for b := range in.Delays {
			in.Delays[b] = []int{hlib.Pick(r, []int{200, 500, 900})}
		}
		in.Cancel = hlib.Pick(r, []int{50, 200, 600, 1500})
	}
	if in.Mode == "forwarded" && r.Chance(1, 5) {
		// upstream faults: the forwarder must retry with the same payload (its backoff starts at 0.5 s)
		for i, n := 0, r.Range(1, 3); i < n; i++ {
			in.UpFaults = append(in.UpFaults, hlib.Pick(r, []int{0, 1, 1, 2, 3}))
		}
		in.UpFaults[r.Intn(len(in.UpFaults))] = hlib.Pick(r, []int{1, 2})
	}
	if in.Stream == "overlap" {
		// a saturated semaphore behind slow backends, every DispatchEvent call in its own goroutine
		in.Overlap, in.Cloud, in.TapDelay = true, false, nil
		in.NB, in.Cap = r.Range(2, 3), r.Range(1, 2)
		in.Delays = make([][]int, in.NB)
		for b := range in.Delays {
			in.Delays[b] = []int{hlib.Pick(r, []int{300, 700, 1500}), hlib.Pick(r, []int{100, 400})}
		}
	}
	in.Senders = genSenders(r, in.Cloud)
	var extra []string
	extra = append(extra, in.Static...)
	for _, s := range in.Senders {
		extra = append(extra, s.Tags...)
	}
	if in.Mode == "server" {
		// the UDP sender is always 127.0.0.1; posted messages name it, a second known host or none
		in.NoIntEv = r.Bool()
		// sends slow enough to be still in progress (and queued behind the semaphore) when the
		// server's context is cancelled and for as long as a shutdown that does not wait would take
		in.Delays = make([][]int, in.NB)
		for b := range in.Delays {
			in.Delays[b] = []int{hlib.Pick(r, []int{6000, 12000}), hlib.Pick(r, []int{3000, 9000})}
		}
		in.TapDelay, in.Parsers, in.Groups = nil, 0, 0
		kinds := []string{"hit-pos", "hit-neg", "miss-pos", "miss-neg"}
		in.Senders = []senderIn{{IP: "127.0.0.1", Kind: hlib.Pick(r, kinds), ID: "i-local", Tags: pickTags(r, 0, 3)},
			{IP: "10.0.0.2", Kind: hlib.Pick(r, kinds), ID: "i-0002", Tags: pickTags(r, 0, 3)}}
		idm := 500
		for i, n := 0, r.Range(2, 6); i < n; i++ {
			m := pbIn{Title: fmt.Sprintf("E%d.", idm) + rtext(r, 0, 5, true), Text: strings.ReplaceAll(rtext(r, 0, 10, true), "\\n", "\n"),
				Date: hlib.Pick(r, []int64{0, 1, 1500000000}), Hostname: hlib.Pick(r, []string{"127.0.0.1", "10.0.0.2", "10.0.0.2", "", "web9"}),
				AggKey: rtext(r, 0, 4, true), SrcType: hlib.Pick(r, []string{"", "nagios"}), Tags: pickTags(r, 0, 4),
				Priority: hlib.Pick(r, []int32{0, 1}), Type: hlib.Pick(r, []int32{0, 1, 2, 3})}
			if len(in.Static) > 0 && r.Bool() {
				m.Tags = append(m.Tags, hlib.Pick(r, in.Static))
			}
			in.Msgs = append(in.Msgs, m)
			idm++
		}
	}
	utf8ok := in.Mode != "standalone" || r.Bool()
	if nonUTF8Stream && k%40 == 27 { // a forwarded slot
		in.Stream, utf8ok = "nonutf8", false
	}
	id := 0
	if in.Mode == "ingest" {
		n := r.Range(2, 14)
		for i := 0; i < n; i++ {
			m := pbIn{Title: fmt.Sprintf("E%d.", id) + rtext(r, 0, 5, true), Text: strings.ReplaceAll(rtext(r, 0, 10, true), "\\n", "\n"),
				Date: hlib.Pick(r, []int64{0, 1, 1500000000, -5}), Hostname: hlib.Pick(r, []string{"", "web1", "10.0.0.1", "i-0001"}),
				AggKey: rtext(r, 0, 4, true), SrcType: hlib.Pick(r, []string{"", "nagios"}), Tags: pickTags(r, 0, 4),
				SourceIP: hlib.Pick(r, []string{"", "10.0.0.1"}), Priority: hlib.Pick(r, []int32{0, 0, 1, 1, 2, -1, 7}),
				Type: hlib.Pick(r, []int32{0, 1, 2, 3, 3, 4, -1, 9})}
			if len(in.StaticS) > 0 && r.Bool() {
				m.Tags = append(m.Tags, hlib.Pick(r, in.StaticS))
			}
			in.Msgs = append(in.Msgs, m)
			id++
		}
		return in
	}
	ndg := r.Range(2, 9)
	for d := 0; d < ndg; d++ {
		dg := dgIn{S: r.Intn(len(in.Senders))}
		nl := r.Range(1, 4)
		if in.Overlap {
			nl = 1
		}
		for l := 0; l < nl; l++ {
			var line string
			switch {
			case in.Stream == "odd" && r.Chance(1, 2):
				line = oddLine(r, id)
			case r.Chance(1, 12) && !in.Overlap:
				line = fmt.Sprintf("m%d:%d|c", id, r.Intn(9))
			default:
				line = eventLine(r, id, utf8ok, extra)
			}
			line = strings.ReplaceAll(line, "\n", "n")
			if in.Stream == "nonutf8" && l == 0 && d == 0 {
				line += "|k:\xff"
			}
			dg.Lines = append(dg.Lines, lexgen.ToInts(line))
			id++
		}
		in.Dgs = append(in.Dgs, dg)
	}
	return in
}

func main() {
	a := hlib.ParseArgs()
	em := hlib.NewEmitter()
	defer em.Close()
	switch a.Mode {
	case "gen":
		r := hlib.NewRand(a.Seed)
		nonUTF8Stream = findingListed()
		for i := 0; i < a.N && hungCases < 3; i++ {
			for _, c := range runCase(genCase(r.Fork(), i)) {
				em.Emit(c)
			}
		}
	case "run":
		for _, raw := range a.Inputs {
			var in input
			if err := json.Unmarshal(raw, &in); err != nil {
				fmt.Fprintln(os.Stderr, "bad input:", err)
				os.Exit(2)
			}
			for _, c := range runCase(in) {
				em.Emit(c)
			}
		}
	}
}
