// C10: static tags, tag de-duplication and filters.  A real statsd.TagHandler (static tags,
// filters built with gostatsd.NewStringMatch) in front of a capturing handler is given one
// metric map and a few events; the input map is dumped before the call (the handler reorders
// tag slices in place), the captured map and events after it.  The regexp oracle table is
// computed here directly from Go's regexp for every (regex pattern, name or tag) pair.
package main

import (
	"context"
	"encoding/json"
	"fmt"
	"io"
	"math"
	"os"
	"regexp"
	"sort"
	"strings"
	"sync"

	"github.com/sirupsen/logrus"

	"github.com/atlassian/gostatsd"
	"github.com/atlassian/gostatsd/pkg/statsd"

	"verifharness/hlib"
	"verifharness/mmgen"
)

type rawFilter struct {
	MM         []string `json:"match_metrics"`
	EM         []string `json:"exclude_metrics"`
	MT         []string `json:"match_tags"`
	DT         []string `json:"drop_tags"`
	DropMetric bool     `json:"drop_metric"`
	DropHost   bool     `json:"drop_host"`
}

type series struct {
	Type    int      `json:"type"` // gostatsd.MetricType
	Name    string   `json:"name"`
	Key     string   `json:"key"` // key in the incoming map ("" = FormatTagsKey of source and tags)
	Tags    []string `json:"tags"`
	Src     string   `json:"src"`
	TS      int64    `json:"ts"`
	CVal    int64    `json:"cval,omitempty"`
	GBits   uint64   `json:"gbits,omitempty"`
	TVals   []uint64 `json:"tvals,omitempty"`
	TSamp   uint64   `json:"tsamp,omitempty"`
	Members []string `json:"members,omitempty"`
}

// configuration as a tree (what viper holds after reading the TOML text rendered from it)
type cfgVal struct {
	Kind string   `json:"kind"` // str | list | bool
	S    string   `json:"s,omitempty"`
	L    []string `json:"l,omitempty"`
	B    bool     `json:"b,omitempty"`
}

type cfgKV struct {
	Key string `json:"key"`
	Val cfgVal `json:"val"`
}

type cfgBlock struct {
	Name string  `json:"name"`
	Keys []cfgKV `json:"keys"`
}

type config struct {
	Filters *cfgVal    `json:"filters"`
	Blocks  []cfgBlock `json:"blocks"`
}

// concurrent stream: worker w dispatches its maps Workers[w][0], Workers[w][1], ... and its events,
// in that order, Rounds times, while the other workers do the same through the same TagHandler.
type concurrent struct {
	Rounds  int          `json:"rounds"`
	Workers [][][]series `json:"workers"`
	Events  [][][]string `json:"events"` // per worker, event tag lists
}

// cloud stream: a real CloudHandler over a scripted cache (every host is a cache hit) in front of the
// real TagHandler, as statsd.Server wires them.  The series' Src is the host they came from.
type instance struct {
	Host  string   `json:"host"`
	Nil   bool     `json:"nil,omitempty"` // negative cache entry: a hit without an instance
	ID    string   `json:"id"`
	Tags  []string `json:"tags"`
	Spare int      `json:"spare"` // spare capacity of the cached Tags slice
}

type cloudEvent struct {
	Host string   `json:"host"`
	Tags []string `json:"tags"`
}

type cloud struct {
	Instances []instance   `json:"instances"`
	Maps      [][]series   `json:"maps"`
	Events    []cloudEvent `json:"events"`
}

type input struct {
	Static    []string    `json:"static"`
	Filters   []rawFilter `json:"filters"`
	Config    *config     `json:"config,omitempty"` // config stream: the handler is built from TOML text
	Conc      *concurrent `json:"conc,omitempty"`   // concurrent stream: several goroutines dispatch through ONE handler
	Cloud     *cloud      `json:"cloud,omitempty"`  // cloud stream: the real CloudHandler (cache hits) feeds the TagHandler
	Series    []series    `json:"series"`
	Events    [][]string  `json:"events"`
	Forwarded bool        `json:"forwarded"`
	Stream    string      `json:"stream"`
}

// ---------------------------------------------------------------------------------------

type capture struct {
	calls  int
	mm     *gostatsd.MetricMap
	events []*gostatsd.Event
}

func (c *capture) EstimatedTags() int { return 0 }
func (c *capture) DispatchMetricMap(_ context.Context, mm *gostatsd.MetricMap) {
	c.calls++
	c.mm = mm
}
func (c *capture) DispatchEvent(_ context.Context, e *gostatsd.Event) { c.events = append(c.events, e) }
func (c *capture) WaitForEvents()                                     {}

func cp(xs []string) []string { return append([]string{}, xs...) }

func buildMap(in input) *gostatsd.MetricMap {
	mm := gostatsd.NewMetricMap(in.Forwarded)
	for _, s := range in.Series {
		key := s.Key
		if key == "" {
			key = gostatsd.FormatTagsKey(gostatsd.Source(s.Src), cp(s.Tags))
		}
		tags := gostatsd.Tags(cp(s.Tags))
		ts := gostatsd.Nanotime(s.TS)
		src := gostatsd.Source(s.Src)
		switch gostatsd.MetricType(s.Type) {
		case gostatsd.COUNTER:
			if mm.Counters[s.Name] == nil {
				mm.Counters[s.Name] = map[string]gostatsd.Counter{}
			}
			if _, dup := mm.Counters[s.Name][key]; !dup {
				mm.Counters[s.Name][key] = gostatsd.Counter{Value: s.CVal, Timestamp: ts, Source: src, Tags: tags}
			}
		case gostatsd.GAUGE:
			if mm.Gauges[s.Name] == nil {
				mm.Gauges[s.Name] = map[string]gostatsd.Gauge{}
			}
			if _, dup := mm.Gauges[s.Name][key]; !dup {
				mm.Gauges[s.Name][key] = gostatsd.Gauge{Value: math.Float64frombits(s.GBits), Timestamp: ts, Source: src, Tags: tags}
			}
		case gostatsd.TIMER:
			if mm.Timers[s.Name] == nil {
				mm.Timers[s.Name] = map[string]gostatsd.Timer{}
			}
			if _, dup := mm.Timers[s.Name][key]; !dup {
				vs := make([]float64, len(s.TVals))
				for i, b := range s.TVals {
					vs[i] = math.Float64frombits(b)
				}
				mm.Timers[s.Name][key] = gostatsd.Timer{Values: vs, SampledCount: math.Float64frombits(s.TSamp), Timestamp: ts, Source: src, Tags: tags}
			}
		case gostatsd.SET:
			if mm.Sets[s.Name] == nil {
				mm.Sets[s.Name] = map[string]gostatsd.Set{}
			}
			if _, dup := mm.Sets[s.Name][key]; !dup {
				vals := map[string]struct{}{}
				for _, m := range s.Members {
					vals[m] = struct{}{}
				}
				mm.Sets[s.Name][key] = gostatsd.Set{Values: vals, Timestamp: ts, Source: src, Tags: tags}
			}
		}
	}
	return mm
}

// regexOf mirrors the parse of NewStringMatch far enough to know which regular expression a
// pattern asks for.
func regexOf(p string) (string, bool) {
	p = strings.TrimPrefix(p, "!")
	if strings.HasPrefix(p, "regex:") {
		return p[6:], true
	}
	return "", false
}

func oracle(in input) string {
	subjects := map[string]bool{}
	all := append([]series{}, in.Series...)
	if in.Conc != nil {
		for _, w := range in.Conc.Workers {
			for _, m := range w {
				all = append(all, m...)
			}
		}
	}
	if in.Cloud != nil {
		for _, m := range in.Cloud.Maps {
			all = append(all, in.Cloud.enrich(m)...)
		}
	}
	for _, s := range all {
		subjects[s.Name] = true
		for _, t := range s.Tags {
			subjects[t] = true
		}
	}
	var subj []string
	for s := range subjects {
		subj = append(subj, s)
	}
	sort.Strings(subj)
	pats := map[string]bool{}
	if in.Config != nil {
		// a superset of the pattern strings the configuration can yield: every list item and every
		// white-space separated field of every string value
		for _, bl := range in.Config.Blocks {
			for _, kv := range bl.Keys {
				cands := append(append([]string{}, kv.Val.L...), strings.Fields(kv.Val.S)...)
				for _, p := range cands {
					if re, ok := regexOf(p); ok {
						pats[re] = true
					}
				}
			}
		}
	}
	for _, f := range in.Filters {
		for _, l := range [][]string{f.MM, f.EM, f.MT, f.DT} {
			for _, p := range l {
				if re, ok := regexOf(p); ok {
					pats[re] = true
				}
			}
		}
	}
	var ps []string
	for p := range pats {
		ps = append(ps, p)
	}
	sort.Strings(ps)
	var rows []string
	for _, p := range ps {
		re, err := regexp.Compile(p)
		if err != nil {
			rows = append(rows, hlib.Pair(hlib.Bytes(p), "None"))
			continue
		}
		var cells []string
		for _, s := range subj {
			cells = append(cells, hlib.Pair(hlib.Bytes(s), hlib.Bool(re.MatchString(s))))
		}
		rows = append(rows, hlib.Pair(hlib.Bytes(p), "(Some "+hlib.List(cells)+")"))
	}
	return hlib.List(rows)
}

func coqRaw(f rawFilter) string {
	return hlib.App("MkRaw", hlib.StrList(f.MM), hlib.StrList(f.EM), hlib.StrList(f.MT), hlib.StrList(f.DT), hlib.Bool(f.DropMetric), hlib.Bool(f.DropHost))
}

func strLists(xss [][]string) string {
	el := make([]string, len(xss))
	for i, xs := range xss {
		el[i] = hlib.StrList(xs)
	}
	return hlib.List(el)
}

func hasDup(xs []string) bool {
	seen := map[string]bool{}
	for _, x := range xs {
		if seen[x] {
			return true
		}
		seen[x] = true
	}
	return false
}

func tomlString(x string) string {
	var b strings.Builder
	b.WriteByte('"')
	for i := 0; i < len(x); i++ {
		switch c := x[i]; {
		case c == '"' || c == '\\':
			b.WriteByte('\\')
			b.WriteByte(c)
		case c == '\t':
			b.WriteString("\\t")
		case c < 0x20 || c >= 0x7f:
			fmt.Fprintf(&b, "\\u%04X", c)
		default:
			b.WriteByte(c)
		}
	}
	b.WriteByte('"')
	return b.String()
}

func (v cfgVal) toml() string {
	switch v.Kind {
	case "str":
		return tomlString(v.S)
	case "bool":
		return hlib.Bool(v.B)
	}
	el := make([]string, len(v.L))
	for i, x := range v.L {
		el[i] = tomlString(x)
	}
	return "[" + strings.Join(el, ", ") + "]"
}

// TOML renders the configuration file text.
func (c *config) TOML() string {
	var b strings.Builder
	if c.Filters != nil {
		fmt.Fprintf(&b, "filters = %s\n", c.Filters.toml())
	}
	for _, bl := range c.Blocks {
		fmt.Fprintf(&b, "\n[filter.%s]\n", bl.Name)
		for _, kv := range bl.Keys {
			fmt.Fprintf(&b, "%s = %s\n", kv.Key, kv.Val.toml())
		}
	}
	return b.String()
}

func (v cfgVal) coq() string {
	switch v.Kind {
	case "str":
		return hlib.App("VStr", hlib.Bytes(v.S))
	case "bool":
		return hlib.App("VBool", hlib.Bool(v.B))
	}
	return hlib.App("VList", hlib.StrList(v.L))
}

func (c *config) coq() string {
	if c == nil {
		return "None"
	}
	f := "None"
	if c.Filters != nil {
		f = "(Some " + c.Filters.coq() + ")"
	}
	bl := make([]string, len(c.Blocks))
	for i, b := range c.Blocks {
		kv := make([]string, len(b.Keys))
		for j, k := range b.Keys {
			kv[j] = hlib.Pair(hlib.Bytes(k.Key), k.Val.coq())
		}
		bl[i] = hlib.Pair(hlib.Bytes(b.Name), hlib.List(kv))
	}
	return "(Some " + hlib.App("MkCfg", f, hlib.List(bl)) + ")"
}

const tomlErr = "harness: configuration text rejected by viper: "

func newHandler(in input, next gostatsd.PipelineHandler) *statsd.TagHandler {
	if in.Config != nil {
		th, err := statsd.VerifTagHandlerFromTOML(in.Config.TOML(), next, cp(in.Static))
		if err != nil {
			panic(tomlErr + err.Error())
		}
		return th
	}
	var filters []statsd.Filter
	for _, f := range in.Filters {
		conv := func(ps []string) gostatsd.StringMatchList {
			l := make(gostatsd.StringMatchList, 0, len(ps))
			for _, p := range ps {
				l = append(l, gostatsd.NewStringMatch(p))
			}
			return l
		}
		filters = append(filters, statsd.Filter{MatchMetrics: conv(f.MM), ExcludeMetrics: conv(f.EM), MatchTags: conv(f.MT),
			DropTags: conv(f.DT), DropMetric: f.DropMetric, DropHost: f.DropHost})
	}
	return statsd.NewTagHandler(next, cp(in.Static), filters)
}

// firstOfKey: series i is the one buildMap keeps for its (type, name, key).
func firstOfKey(in input, i int) bool {
	keyOf := func(s series) string {
		k := s.Key
		if k == "" {
			k = gostatsd.FormatTagsKey(gostatsd.Source(s.Src), cp(s.Tags))
		}
		return fmt.Sprintf("%d\x00%s\x00%s", s.Type, s.Name, k)
	}
	for j := 0; j < i; j++ {
		if keyOf(in.Series[j]) == keyOf(in.Series[i]) {
			return false
		}
	}
	return true
}

func runOne(em *hlib.Emitter, in input) {
	c := hlib.Case{Input: in}
	mm := buildMap(in)
	nIn := mmgen.Size(mm)
	inDump := mmgen.Entries(mm)
	table := oracle(in)

	next := &capture{}
	var th *statsd.TagHandler
	ctorPanic := hlib.Recover(func() { th = newHandler(in, next) })
	if strings.HasPrefix(ctorPanic, tomlErr) {
		c.Monitors = append(c.Monitors, ctorPanic)
	}
	var evOut [][]string
	nOut := 0
	outDump := "[]"
	cleared := false
	if ctorPanic == "" {
		msg := hlib.Recover(func() {
			th.DispatchMetricMap(context.Background(), mm)
			for _, tags := range in.Events {
				th.DispatchEvent(context.Background(), &gostatsd.Event{Title: "t", Tags: cp(tags)})
			}
		})
		if msg != "" {
			c.Monitors = append(c.Monitors, "TagHandler panicked: "+msg)
		}
		if next.calls > 1 {
			c.Monitors = append(c.Monitors, fmt.Sprintf("next handler called %d times for one map", next.calls))
		}
		if next.mm != nil {
			if next.mm.Forwarded != in.Forwarded {
				c.Monitors = append(c.Monitors, "Forwarded flag not preserved")
			}
			nOut = mmgen.Size(next.mm)
			outDump = mmgen.Entries(next.mm)
			check := func(kind, n string, tags []string, src gostatsd.Source) {
				if hasDup(tags) {
					c.Monitors = append(c.Monitors, fmt.Sprintf("duplicate tag on outgoing %s %q: %q", kind, n, tags))
				}
				if src == "" {
					cleared = true
				}
			}
			next.mm.Counters.Each(func(n, _ string, v gostatsd.Counter) { check("counter", n, v.Tags, v.Source) })
			next.mm.Gauges.Each(func(n, _ string, v gostatsd.Gauge) { check("gauge", n, v.Tags, v.Source) })
			next.mm.Timers.Each(func(n, _ string, v gostatsd.Timer) { check("timer", n, v.Tags, v.Source) })
			next.mm.Sets.Each(func(n, _ string, v gostatsd.Set) { check("set", n, v.Tags, v.Source) })
		}
		if len(next.events) != len(in.Events) {
			c.Monitors = append(c.Monitors, fmt.Sprintf("%d events in, %d events out", len(in.Events), len(next.events)))
		}
		for _, e := range next.events {
			if hasDup(e.Tags) {
				c.Monitors = append(c.Monitors, fmt.Sprintf("duplicate tag on outgoing event: %q", []string(e.Tags)))
			}
			evOut = append(evOut, cp(e.Tags))
		}
	}
	// direct loss monitor, independent of the model: every series is also sent alone through a
	// fresh handler with the same configuration; what survives alone must add up to the output
	kept, collided := 0, 0
	if ctorPanic == "" && next.calls <= 1 {
		var cSum, cSumOut int64
		var tN, tNOut int
		var tS, tSOut float64
		members, membersOut := map[string]bool{}, map[string]bool{}
		for i := range in.Series {
			one := in
			one.Series = in.Series[i : i+1]
			single := buildMap(one)
			if mmgen.Size(single) == 0 || !firstOfKey(in, i) {
				continue
			}
			n2 := &capture{}
			hlib.Recover(func() { newHandler(in, n2).DispatchMetricMap(context.Background(), single) })
			if n2.mm == nil {
				continue
			}
			kept++
			n2.mm.Counters.Each(func(_, _ string, v gostatsd.Counter) { cSum += v.Value })
			n2.mm.Timers.Each(func(_, _ string, v gostatsd.Timer) { tN += len(v.Values); tS += v.SampledCount })
			n2.mm.Sets.Each(func(n, k string, v gostatsd.Set) {
				for m := range v.Values {
					members[n+"\x00"+k+"\x00"+m] = true
				}
			})
		}
		if next.mm != nil {
			next.mm.Counters.Each(func(_, _ string, v gostatsd.Counter) { cSumOut += v.Value })
			next.mm.Timers.Each(func(_, _ string, v gostatsd.Timer) { tNOut += len(v.Values); tSOut += v.SampledCount })
			next.mm.Sets.Each(func(n, k string, v gostatsd.Set) {
				for m := range v.Values {
					membersOut[n+"\x00"+k+"\x00"+m] = true
				}
			})
		}
		collided = kept - nOut
		if cSum != cSumOut || tN != tNOut || tS != tSOut || len(members) != len(membersOut) {
			c.Monitors = append(c.Monitors, fmt.Sprintf("data lost or invented in the tag stage: counters %d -> %d, timer values %d -> %d, sampled %v -> %v, set members %d -> %d",
				cSum, cSumOut, tN, tNOut, tS, tSOut, len(members), len(membersOut)))
		}
		if collided < 0 {
			c.Monitors = append(c.Monitors, fmt.Sprintf("%d series survive alone but %d leave the tag stage", kept, nOut))
		}
	}
	raws := make([]string, len(in.Filters))
	npat := 0
	for i, f := range in.Filters {
		raws[i] = coqRaw(f)
		npat += len(f.MM) + len(f.EM) + len(f.MT) + len(f.DT)
	}
	evIn := in.Events
	if ctorPanic != "" {
		evIn, evOut = nil, nil
	}
	if in.Config != nil {
		for _, bl := range in.Config.Blocks {
			for _, kv := range bl.Keys {
				npat += len(kv.Val.L) + len(strings.Fields(kv.Val.S))
			}
		}
	}
	c.Coq = hlib.App("C10", table, hlib.StrList(in.Static), hlib.List(raws), in.Config.coq(), inDump, strLists(evIn),
		hlib.Bool(ctorPanic != ""), hlib.Bool(next.calls > 0), outDump, strLists(evOut), "[]")
	switch {
	case ctorPanic != "":
		c.Class = in.Stream + ":ctor-panic"
	case len(in.Filters) == 0 && in.Config == nil:
		c.Class = in.Stream + ":no-filter"
	case nOut == 0:
		c.Class = in.Stream + ":all-dropped"
	case nOut < nIn:
		c.Class = in.Stream + ":fewer-out"
	default:
		c.Class = in.Stream + ":same-count"
	}
	c.Nontrivial = (len(in.Filters) >= 1 || in.Config != nil) && npat >= 1 && nIn >= 2 && ctorPanic == "" && (nOut < nIn || cleared)
	_ = collided
	c.Obs = map[string]interface{}{"series_in": nIn, "series_out": nOut, "filters": len(in.Filters), "patterns": npat, "ctor_panic": ctorPanic, "events_out": evOut, "dropped": nIn - kept, "collided": collided}
	em.Emit(c)
}

// ---------------------------------------------------------------------------------------
// generation

var namePool = []string{"global.cpu", "global.mem", "noisy.a", "noisy.butok.b", "noisy.butok", "app.req.count", "app.count.x", "abc", "abcd", "xyz.abc.123", "ABC", "g"}
var tagPool = []string{"host:a", "host:b", "host:", "env:prod", "env:dev", "request_path:/x", "request_path:/y", "region:us", "a", "abc", "abcd", "s:x", "b", "x:1", "x:10"}
var oddTags = []string{"", "a,b", "!a", "a*", "*", "regex:a", "host:a,env:prod", "s:", "Abc"}
var srcPool = []string{"", "x", "10.0.0.1", "h1", "a"}
var regexes = []string{"^host:", ".*abc.*", `\.count$`, "^abc.*", "[0-9]+", "", "a|b", "^$", "o.*:", "^(host|env):", "abc*", "^s:x$", `\*`}
var badRegexes = []string{"(", "*", "[a", `\`, "a{2,1}"}
var members = []string{"", "u1", "u2", "u3", "a b", "~"}

func prefixOf(r *hlib.Rand, s string) string { return s[:r.Intn(len(s)+1)] }

// pattern draws one pattern string of a random kind aimed at the given pool.
func pattern(r *hlib.Rand, pool []string, bad bool) string {
	var p string
	switch r.Intn(10) {
	case 0, 1, 2: // exact
		p = hlib.Pick(r, pool)
	case 3, 4, 5: // prefix
		p = prefixOf(r, hlib.Pick(r, pool)) + "*"
	case 6, 7: // regex
		p = "regex:" + hlib.Pick(r, regexes)
	case 8: // regex built from the pool
		p = "regex:" + regexp.QuoteMeta(prefixOf(r, hlib.Pick(r, pool))) + hlib.Pick(r, []string{"", "$", ".*", "."})
	default: // edge patterns
		p = hlib.Pick(r, []string{"", "*", "**", "a**", "!a", "regex", "regex:", "*regex:a", "x:1*", "ab*c"})
	}
	if bad && r.Chance(1, 3) {
		p = "regex:" + hlib.Pick(r, badRegexes)
	}
	if r.Chance(3, 10) {
		p = "!" + p
	}
	return p
}

func patterns(r *hlib.Rand, pool []string, bad bool, weights []int) []string {
	n := hlib.Pick(r, weights)
	out := []string{}
	for i := 0; i < n; i++ {
		out = append(out, pattern(r, pool, bad))
	}
	return out
}

func genInput(r *hlib.Rand, stream string) input {
	in := input{Stream: stream, Forwarded: r.Bool(), Static: []string{}, Filters: []rawFilter{}, Events: [][]string{}}
	bad := stream == "boundary" && r.Chance(1, 4)
	// a small universe so that patterns hit and series collide
	names := []string{}
	for i, n := 0, r.Range(1, 4); i < n; i++ {
		names = append(names, hlib.Pick(r, namePool))
	}
	tags := []string{}
	for i, n := 0, r.Range(2, 6); i < n; i++ {
		tags = append(tags, hlib.Pick(r, tagPool))
	}
	if stream == "boundary" {
		for i, n := 0, r.Range(1, 3); i < n; i++ {
			tags = append(tags, hlib.Pick(r, oddTags))
		}
	}
	// filters
	nf := hlib.Pick(r, []int{0, 1, 1, 2, 2, 3, 4})
	for i := 0; i < nf; i++ {
		var f rawFilter
		if r.Chance(1, 5) { // the shapes of FILTERING.md
			switch r.Intn(3) {
			case 0:
				f = rawFilter{MM: []string{"global.*"}, DT: []string{"host:*"}, DropHost: true}
			case 1:
				f = rawFilter{DT: []string{"request_path:*"}}
			default:
				f = rawFilter{MM: []string{"noisy.*"}, EM: []string{"noisy.butok.*"}, DropMetric: true}
			}
			for _, l := range []*[]string{&f.MM, &f.EM, &f.MT, &f.DT} {
				if *l == nil {
					*l = []string{}
				}
			}
		} else {
			f = rawFilter{
				MM:         patterns(r, names, bad, []int{0, 0, 0, 1, 1, 2, 3}),
				EM:         patterns(r, names, bad, []int{0, 0, 0, 0, 1, 1, 2, 3}),
				MT:         patterns(r, tags, bad, []int{0, 0, 0, 1, 1, 2, 3}),
				DT:         patterns(r, tags, bad, []int{0, 1, 1, 2, 2, 3}),
				DropMetric: r.Chance(1, 6),
				DropHost:   r.Chance(1, 3),
			}
		}
		in.Filters = append(in.Filters, f)
	}
	// static tags: overlap the metric tags and the drop patterns, sometimes duplicated
	for i, n := 0, hlib.Pick(r, []int{0, 1, 2, 2, 3, 4}); i < n; i++ {
		if r.Chance(3, 4) {
			in.Static = append(in.Static, hlib.Pick(r, tags))
		} else {
			in.Static = append(in.Static, hlib.Pick(r, tagPool))
		}
	}
	// series
	ns := r.Range(1, 10)
	if stream == "boundary" && r.Chance(1, 6) {
		ns = 0
	}
	tsLo := int64(100)
	tsHi := int64(100 + r.Intn(5)) // few distinct timestamps: gauge ties happen
	for i := 0; i < ns; i++ {
		var s series
		if len(in.Series) > 0 && r.Chance(2, 5) {
			// a variation of an earlier series: same name and type, tags / source changed so
			// that dropping tags or the host makes them coincide
			s = in.Series[r.Intn(len(in.Series))]
			s.Tags = cp(s.Tags)
			s.Key = ""
			switch r.Intn(4) {
			case 0:
				s.Tags = append(s.Tags, hlib.Pick(r, tags))
			case 1:
				s.Src = hlib.Pick(r, srcPool)
			case 2:
				if len(s.Tags) > 0 {
					s.Tags[r.Intn(len(s.Tags))] = hlib.Pick(r, tags)
				}
			default:
				s.Tags = append(s.Tags, hlib.Pick(r, tags))
				s.Src = hlib.Pick(r, srcPool)
			}
		} else {
			s = series{Type: r.Range(1, 4), Name: hlib.Pick(r, names), Src: hlib.Pick(r, srcPool), Tags: []string{}}
			for j, n := 0, hlib.Pick(r, []int{0, 1, 1, 2, 2, 3, 4, 6}); j < n; j++ {
				s.Tags = append(s.Tags, hlib.Pick(r, tags))
			}
		}
		if r.Chance(1, 2) {
			sort.Strings(s.Tags) // as Receive leaves them
		}
		if r.Chance(1, 8) {
			s.Key = fmt.Sprintf("k%d", i) // a foreign key, e.g. from a forwarded batch
		}
		s.TS = tsLo + int64(r.Intn(int(tsHi-tsLo+1)))
		s.CVal, s.GBits, s.TVals, s.TSamp, s.Members = 0, 0, nil, 0, nil
		switch gostatsd.MetricType(s.Type) {
		case gostatsd.COUNTER:
			s.CVal = int64(r.Range(-50, 1000))
		case gostatsd.GAUGE:
			s.GBits = math.Float64bits(mmgen.ExactValue(r))
		case gostatsd.TIMER:
			for j, n := 0, r.Range(0, 4); j < n; j++ {
				s.TVals = append(s.TVals, math.Float64bits(mmgen.ExactValue(r)))
			}
			s.TSamp = math.Float64bits(hlib.Pick(r, []float64{0, 1, 1, 2, 3, 10, 0.5, 2.5, 100}))
		case gostatsd.SET:
			for j, n := 0, r.Range(0, 3); j < n; j++ {
				s.Members = append(s.Members, hlib.Pick(r, members))
			}
		}
		in.Series = append(in.Series, s)
	}
	if in.Series == nil {
		in.Series = []series{}
	}
	// events
	for i, n := 0, hlib.Pick(r, []int{0, 0, 1, 1, 2}); i < n; i++ {
		et := []string{}
		for j, m := 0, hlib.Pick(r, []int{0, 1, 2, 3, 5, 8}); j < m; j++ {
			et = append(et, hlib.Pick(r, tags))
		}
		in.Events = append(in.Events, et)
	}
	return in
}

var oddPatterns = []string{"", "!", "*", "!*", "!!a", "regex:!a", "!regex:a", " a", "a b", "a\tb", "regex:a b", "*a", "a**", "host:* ", " host:*",
	"!host:*", "!regex:^host:", "regex:", "!regex:", "REGEX:a", "regex:*", "! a"}
var keyNames = [][]string{{"match-metrics", "Match-Metrics", "MATCH-METRICS"}, {"exclude-metrics", "Exclude-Metrics"}, {"match-tags", "Match-Tags"},
	{"drop-tags", "DROP-TAGS", "Drop-tags"}}
var boolSpellings = []string{"true", "false", "T", "F", "1", "0", "TRUE", "True", "FALSE", "yes", "no", "", "on", "t", "tRUE", " true"}

func hasSpace(x string) bool { return x == "" || strings.ContainsAny(x, " \t\n\v\f\r") }

// toConfig turns the drawn filters into a configuration tree in one of the spellings FILTERING.md
// allows (TOML lists or white-space separated strings, keys and names in any case), plus names
// without a block, blocks without a name, misspelt keys and odd pattern spellings.
func toConfig(r *hlib.Rand, fs []rawFilter, bad bool) *config {
	c := &config{Blocks: []cfgBlock{}}
	names := []string{}
	listVal := func(ps []string) (cfgVal, bool) {
		ps = cp(ps)
		if r.Chance(1, 4) {
			ps = append(ps, hlib.Pick(r, oddPatterns))
		}
		if bad && r.Chance(1, 6) {
			ps = append(ps, "regex:"+hlib.Pick(r, badRegexes))
		}
		if len(ps) > 0 && r.Chance(1, 4) { // blanks around a list item are part of the pattern
			i := r.Intn(len(ps))
			ps[i] = hlib.Pick(r, []string{" " + ps[i], ps[i] + " ", "\t" + ps[i]})
		}
		if len(ps) == 0 && r.Chance(2, 3) {
			return cfgVal{}, false // key absent
		}
		splittable := true
		for _, p := range ps {
			if hasSpace(p) {
				splittable = false
			}
		}
		switch {
		case r.Chance(1, 25):
			return cfgVal{Kind: "bool", B: r.Bool()}, true
		case (splittable && r.Chance(1, 2)) || r.Chance(1, 12): // space separated (splits patterns that contain blanks)
			sep := hlib.Pick(r, []string{" ", " ", "  ", "\t", " \t "})
			x := strings.Join(ps, sep)
			if r.Chance(1, 5) {
				x = " " + x + " "
			}
			return cfgVal{Kind: "str", S: x}, true
		}
		return cfgVal{Kind: "list", L: ps}, true
	}
	boolVal := func(b bool) (cfgVal, bool) {
		switch r.Intn(8) {
		case 0:
			return cfgVal{}, false
		case 1, 2:
			return cfgVal{Kind: "str", S: hlib.Pick(r, boolSpellings)}, true
		case 3:
			if r.Chance(1, 4) {
				return cfgVal{Kind: "list", L: []string{"true"}}, true
			}
		}
		return cfgVal{Kind: "bool", B: b}, true
	}
	for i, f := range fs {
		name := fmt.Sprintf("%s%d", hlib.Pick(r, []string{"f", "F", "make-global", "Noisy_Tag", "x"}), i)
		bl := cfgBlock{Name: name, Keys: []cfgKV{}}
		lists := [][]string{f.MM, f.EM, f.MT, f.DT}
		for j, l := range lists {
			if v, ok := listVal(l); ok {
				bl.Keys = append(bl.Keys, cfgKV{Key: hlib.Pick(r, keyNames[j]), Val: v})
			}
		}
		if v, ok := boolVal(f.DropMetric); ok {
			bl.Keys = append(bl.Keys, cfgKV{Key: hlib.Pick(r, []string{"drop-metric", "Drop-Metric"}), Val: v})
		}
		if v, ok := boolVal(f.DropHost); ok {
			bl.Keys = append(bl.Keys, cfgKV{Key: hlib.Pick(r, []string{"drop-host", "DROP-HOST"}), Val: v})
		}
		if r.Chance(1, 8) { // a misspelt key is ignored
			bl.Keys = append(bl.Keys, cfgKV{Key: hlib.Pick(r, []string{"match-metric", "drop_tags", "drop-hosts"}), Val: cfgVal{Kind: "list", L: []string{"*"}}})
		}
		for k := len(bl.Keys) - 1; k > 0; k-- {
			j := r.Intn(k + 1)
			bl.Keys[k], bl.Keys[j] = bl.Keys[j], bl.Keys[k]
		}
		c.Blocks = append(c.Blocks, bl)
		switch r.Intn(10) {
		case 0: // block not named in `filters`
		case 1:
			names = append(names, strings.ToUpper(name))
		case 2:
			names = append(names, strings.ToLower(name))
		default:
			names = append(names, name)
		}
	}
	if r.Chance(1, 5) {
		names = append(names, "ghost") // named, but no [filter.ghost] table
	}
	if len(names) > 0 && r.Chance(1, 8) {
		names = append(names, names[0]) // named twice
	}
	if r.Chance(1, 10) { // a table nobody names, possibly with a regex that does not compile
		c.Blocks = append(c.Blocks, cfgBlock{Name: "unused", Keys: []cfgKV{{Key: "drop-tags", Val: cfgVal{Kind: "list", L: []string{"regex:("}}}, {Key: "drop-metric", Val: cfgVal{Kind: "bool", B: true}}}})
	}
	for k := len(names) - 1; k > 0; k-- {
		if r.Chance(1, 2) {
			j := r.Intn(k + 1)
			names[k], names[j] = names[j], names[k]
		}
	}
	switch {
	case len(names) == 0 && r.Chance(1, 2):
		c.Filters = nil
	case r.Chance(1, 2):
		c.Filters = &cfgVal{Kind: "str", S: strings.Join(names, hlib.Pick(r, []string{" ", "  ", "\t"}))}
	default:
		c.Filters = &cfgVal{Kind: "list", L: names}
	}
	return c
}

// ---------------------------------------------------------------------------------------
// concurrent stream

type recKey struct{}

// rec receives what the handler passes on for ONE dispatch; it travels in the context, which the
// TagHandler hands through unchanged, so concurrent dispatches cannot be mixed up by the harness.
type rec struct {
	calls  int
	mm     *gostatsd.MetricMap
	events []*gostatsd.Event
}

type ctxCapture struct{}

func (ctxCapture) EstimatedTags() int { return 0 }
func (ctxCapture) DispatchMetricMap(ctx context.Context, mm *gostatsd.MetricMap) {
	r := ctx.Value(recKey{}).(*rec)
	r.calls++
	r.mm = mm
}
func (ctxCapture) DispatchEvent(ctx context.Context, e *gostatsd.Event) {
	r := ctx.Value(recKey{}).(*rec)
	r.events = append(r.events, e)
}
func (ctxCapture) WaitForEvents() {}

type obs struct {
	called bool
	dump   string
}

// canonical sorts what Go's map iteration order may permute (timer values), so that repeated
// dispatches of the same map give the same dump unless the handler really answered differently.
func canonical(mm *gostatsd.MetricMap) {
	mm.Timers.Each(func(n, k string, t gostatsd.Timer) { sort.Float64s(t.Values) })
}

func runConcurrent(em *hlib.Emitter, in input, rounds int) {
	c := hlib.Case{Input: in, Class: "concurrent"}
	cc := in.Conc
	table := oracle(in)
	var th *statsd.TagHandler
	ctorPanic := hlib.Recover(func() { th = newHandler(in, ctxCapture{}) })
	if ctorPanic != "" {
		c.Monitors = append(c.Monitors, "constructor panicked in the concurrent stream: "+ctorPanic)
		em.Emit(c)
		return
	}
	sub := func(ss []series) input { one := in; one.Series = ss; return one }
	nw := len(cc.Workers)
	inDumps := make([][]string, nw)
	seen := make([][]map[string]obs, nw)    // worker, map -> distinct observations (by dump)
	evSeen := make([][]map[string]bool, nw) // worker, event -> distinct outgoing tag lists
	panics := make([]string, nw)
	for w := range cc.Workers {
		inDumps[w] = make([]string, len(cc.Workers[w]))
		seen[w] = make([]map[string]obs, len(cc.Workers[w]))
		for j, ss := range cc.Workers[w] {
			inDumps[w][j] = mmgen.Entries(buildMap(sub(ss)))
			seen[w][j] = map[string]obs{}
		}
		evSeen[w] = make([]map[string]bool, len(cc.Events[w]))
		for j := range cc.Events[w] {
			evSeen[w][j] = map[string]bool{}
		}
	}
	start := make(chan struct{})
	var wg sync.WaitGroup
	for w := 0; w < nw; w++ {
		wg.Add(1)
		go func(w int) {
			defer wg.Done()
			<-start
			panics[w] = hlib.Recover(func() {
				for r := 0; r < rounds; r++ {
					for j, ss := range cc.Workers[w] {
						mm := buildMap(sub(ss))
						rc := &rec{}
						th.DispatchMetricMap(context.WithValue(context.Background(), recKey{}, rc), mm)
						o := obs{called: rc.calls > 0, dump: "[]"}
						if rc.calls > 1 {
							o.dump = "called twice"
						} else if rc.mm != nil {
							canonical(rc.mm)
							o.dump = mmgen.Entries(rc.mm)
						}
						if _, ok := seen[w][j][o.dump]; !ok {
							seen[w][j][o.dump] = o
						}
					}
					for j, tags := range cc.Events[w] {
						rc := &rec{}
						th.DispatchEvent(context.WithValue(context.Background(), recKey{}, rc), &gostatsd.Event{Title: "t", Tags: cp(tags)})
						key := "lost"
						if len(rc.events) == 1 {
							t := cp(rc.events[0].Tags)
							sort.Strings(t)
							key = strings.Join(t, "\x00")
							if hasDup(t) {
								key = "dup\x00" + key
							}
						}
						evSeen[w][j][key] = true
					}
				}
			})
		}(w)
	}
	close(start)
	wg.Wait()
	var triples []string
	var evIn, evOut [][]string
	variants := 0
	for w := 0; w < nw; w++ {
		if panics[w] != "" {
			c.Monitors = append(c.Monitors, fmt.Sprintf("worker %d: TagHandler panicked: %s", w, panics[w]))
		}
		for j := range cc.Workers[w] {
			keys := make([]string, 0, len(seen[w][j]))
			for k := range seen[w][j] {
				keys = append(keys, k)
			}
			sort.Strings(keys)
			if len(keys) > 1 {
				variants++
			}
			for _, k := range keys {
				o := seen[w][j][k]
				if o.dump == "called twice" {
					c.Monitors = append(c.Monitors, fmt.Sprintf("worker %d map %d: next handler called twice for one map", w, j))
					continue
				}
				triples = append(triples, "("+inDumps[w][j]+", "+hlib.Bool(o.called)+", "+o.dump+")")
			}
		}
		for j, tags := range cc.Events[w] {
			for k := range evSeen[w][j] {
				if k == "lost" || strings.HasPrefix(k, "dup\x00") {
					c.Monitors = append(c.Monitors, fmt.Sprintf("worker %d event %d: lost, duplicated or with duplicate tags (%q)", w, j, k))
					continue
				}
				out := []string{}
				if k != "" {
					out = strings.Split(k, "\x00")
				}
				evIn = append(evIn, tags)
				evOut = append(evOut, out)
			}
		}
	}
	raws := make([]string, len(in.Filters))
	for i, f := range in.Filters {
		raws[i] = coqRaw(f)
	}
	// the first observation fills the single-map fields of the case, the others go to k_extra
	first := "[], false, []"
	if len(triples) > 0 {
		first = strings.TrimSuffix(strings.TrimPrefix(triples[0], "("), ")")
		triples = triples[1:]
	}
	c.Coq = concCoq(table, in, raws, evIn, evOut, first, triples)
	c.Nontrivial = nw >= 2 && len(in.Filters) >= 1
	c.Obs = map[string]interface{}{"workers": nw, "rounds": rounds, "observations": len(triples) + 1, "maps_with_several_outputs": variants}
	em.Emit(c)
}

// concCoq assembles the case term; [first] is "input, called, output" of the first observation.
func concCoq(table string, in input, raws []string, evIn, evOut [][]string, first string, extra []string) string {
	// first = inDump ", " bool ", " outDump ; the dumps are bracketed lists, so cut at the booleans
	var inDump, called, outDump string
	for _, b := range []string{"true", "false"} {
		if i := strings.Index(first, "], "+b+", ["); i >= 0 {
			inDump, called, outDump = first[:i+1], b, first[i+len("], "+b+", "):]
		}
	}
	if inDump == "" {
		inDump, called, outDump = "[]", "false", "[]"
	}
	return hlib.App("C10", table, hlib.StrList(in.Static), hlib.List(raws), in.Config.coq(), inDump, strLists(evIn),
		"false", called, outDump, strLists(evOut), hlib.List(extra))
}

var concNames = []string{"global.cpu", "global.mem", "noisy.a", "noisy.butok.b", "app.req.count", "abc", "abcd"}

func genConcurrent(r *hlib.Rand) input {
	in := genInput(r, "main")
	in.Stream = "concurrent"
	in.Series, in.Events = []series{}, [][]string{}
	// filters whose name rules separate the names of the pool, so that different workers' names get
	// different verdicts from the same filter
	themed := []rawFilter{
		{MM: []string{"noisy.*"}, EM: []string{"noisy.butok.*"}, MT: []string{}, DT: []string{}, DropMetric: true},
		{MM: []string{"global.*"}, EM: []string{}, MT: []string{}, DT: []string{"host:*"}, DropHost: true},
		{MM: []string{"!global.*"}, EM: []string{"abc"}, MT: []string{}, DT: []string{"env:*", "region:*"}},
		{MM: []string{}, EM: []string{"app.*", "noisy.a"}, MT: []string{}, DT: []string{"request_path:*"}, DropHost: true},
		{MM: []string{"abc*"}, EM: []string{"abcd"}, MT: []string{}, DT: []string{}, DropMetric: true},
	}
	fs := []rawFilter{}
	for i, n := 0, r.Range(1, 3); i < n; i++ {
		fs = append(fs, hlib.Pick(r, themed))
	}
	for _, f := range in.Filters { // keep (valid) random filters behind the themed ones
		if len(fs) < 4 {
			fs = append(fs, f)
		}
	}
	in.Filters = fs
	cc := &concurrent{Rounds: 300}
	tags := []string{"host:a", "host:b", "env:prod", "region:us", "request_path:/x", "a", "x:1"}
	nw := r.Range(2, 8)
	for w := 0; w < nw; w++ {
		var maps [][]series
		for j, nm := 0, r.Range(1, 2); j < nm; j++ {
			var ss []series
			ts := int64(100)
			for k, nn := 0, r.Range(2, 4); k < nn; k++ { // names: several per map, so verdicts alternate
				name := hlib.Pick(r, concNames)
				for q, ns := 0, r.Range(1, 2); q < ns; q++ {
					s := series{Type: r.Range(1, 4), Name: name, Src: hlib.Pick(r, []string{"", "h1", "10.0.0.1"}), Tags: []string{}}
					for t, nt := 0, r.Range(0, 3); t < nt; t++ {
						s.Tags = append(s.Tags, hlib.Pick(r, tags))
					}
					ts++
					s.TS = ts // distinct timestamps: no gauge ties, so one map has one admissible output
					switch gostatsd.MetricType(s.Type) {
					case gostatsd.COUNTER:
						s.CVal = int64(r.Range(1, 100))
					case gostatsd.GAUGE:
						s.GBits = math.Float64bits(float64(r.Range(1, 100)))
					case gostatsd.TIMER:
						s.TVals = []uint64{math.Float64bits(float64(r.Range(1, 9))), math.Float64bits(float64(r.Range(1, 9)))}
						s.TSamp = math.Float64bits(2)
					case gostatsd.SET:
						s.Members = []string{hlib.Pick(r, members), "m"}
					}
					ss = append(ss, s)
				}
			}
			maps = append(maps, ss)
		}
		cc.Workers = append(cc.Workers, maps)
		ev := [][]string{}
		if r.Chance(1, 3) {
			ev = append(ev, []string{hlib.Pick(r, tags), hlib.Pick(r, tags), hlib.Pick(r, tags)})
		}
		cc.Events = append(cc.Events, ev)
	}
	in.Conc = cc
	return in
}

// ---------------------------------------------------------------------------------------
// cloud stream

type scriptedCache struct {
	byHost map[gostatsd.Source]*gostatsd.Instance // nil value = negative entry
	sink   chan gostatsd.Source
	info   chan gostatsd.InstanceInfo
}

func (c *scriptedCache) Peek(ip gostatsd.Source) (*gostatsd.Instance, bool) {
	inst, ok := c.byHost[ip]
	return inst, ok
}
func (c *scriptedCache) IpSink() chan<- gostatsd.Source           { return c.sink }
func (c *scriptedCache) InfoSource() <-chan gostatsd.InstanceInfo { return c.info }
func (c *scriptedCache) EstimatedTags() int                       { return 0 }

func (cl *cloud) find(host string) *instance {
	for i := range cl.Instances {
		if cl.Instances[i].Host == host {
			return &cl.Instances[i]
		}
	}
	return nil
}

// enrich is what the cloud stage means for each series on its own: the instance tags appended to
// a fresh copy of its tags, the instance id as its source.
func (cl *cloud) enrich(ss []series) []series {
	out := make([]series, 0, len(ss))
	for _, s := range ss {
		e := s
		e.Tags = cp(s.Tags)
		e.Key = ""
		if inst := cl.find(s.Src); s.Src != "" && inst != nil && !inst.Nil {
			e.Tags = append(e.Tags, inst.Tags...)
			e.Src = inst.ID
		}
		out = append(out, e)
	}
	return out
}

func runCloud(em *hlib.Emitter, in input) {
	c := hlib.Case{Input: in, Class: "cloud"}
	cl := in.Cloud
	table := oracle(in)
	next := &capture{}
	var th *statsd.TagHandler
	if msg := hlib.Recover(func() { th = newHandler(in, next) }); msg != "" {
		c.Monitors = append(c.Monitors, "constructor panicked in the cloud stream: "+msg)
		em.Emit(c)
		return
	}
	cache := &scriptedCache{byHost: map[gostatsd.Source]*gostatsd.Instance{}, sink: make(chan gostatsd.Source), info: make(chan gostatsd.InstanceInfo)}
	for _, i := range cl.Instances {
		if i.Nil {
			cache.byHost[gostatsd.Source(i.Host)] = nil
			continue
		}
		tags := make(gostatsd.Tags, len(i.Tags), len(i.Tags)+i.Spare)
		copy(tags, i.Tags)
		cache.byHost[gostatsd.Source(i.Host)] = &gostatsd.Instance{ID: gostatsd.Source(i.ID), Tags: tags}
	}
	ch := statsd.NewCloudHandler(cache, th)
	sub := func(ss []series) input { one := in; one.Series = ss; return one }
	var triples []string
	var evIn, evOut [][]string
	msg := hlib.Recover(func() {
		for _, ss := range cl.Maps {
			mm := buildMap(sub(ss))
			inDump := mmgen.Entries(buildMap(sub(cl.enrich(ss)))) // what the tag stage is meant to receive
			next.calls, next.mm = 0, nil
			ch.DispatchMetricMap(context.Background(), mm)
			out := "[]"
			if next.calls > 1 {
				c.Monitors = append(c.Monitors, "next handler called twice for one map")
			}
			if next.mm != nil {
				canonical(next.mm)
				out = mmgen.Entries(next.mm)
				dup := func(kind, n string, tags []string) {
					if hasDup(tags) {
						c.Monitors = append(c.Monitors, fmt.Sprintf("duplicate tag on outgoing %s %q: %q", kind, n, tags))
					}
				}
				next.mm.Counters.Each(func(n, _ string, v gostatsd.Counter) { dup("counter", n, v.Tags) })
				next.mm.Gauges.Each(func(n, _ string, v gostatsd.Gauge) { dup("gauge", n, v.Tags) })
				next.mm.Timers.Each(func(n, _ string, v gostatsd.Timer) { dup("timer", n, v.Tags) })
				next.mm.Sets.Each(func(n, _ string, v gostatsd.Set) { dup("set", n, v.Tags) })
			}
			triples = append(triples, "("+inDump+", "+hlib.Bool(next.calls > 0)+", "+out+")")
		}
		for _, e := range cl.Events {
			next.events = nil
			ch.DispatchEvent(context.Background(), &gostatsd.Event{Title: "t", Tags: cp(e.Tags), Source: gostatsd.Source(e.Host)})
			if len(next.events) != 1 {
				c.Monitors = append(c.Monitors, fmt.Sprintf("event from %q: %d events reached the next handler", e.Host, len(next.events)))
				continue
			}
			want := cp(e.Tags)
			if inst := cl.find(e.Host); e.Host != "" && inst != nil && !inst.Nil {
				want = append(want, inst.Tags...)
			}
			evIn = append(evIn, want)
			evOut = append(evOut, cp(next.events[0].Tags))
		}
	})
	if msg != "" {
		c.Monitors = append(c.Monitors, "cloud / tag stage panicked: "+msg)
	}
	// the cache belongs to the provider: nothing downstream may write into a cached instance's tags
	for _, i := range cl.Instances {
		if i.Nil {
			continue
		}
		got := append([]string{}, cache.byHost[gostatsd.Source(i.Host)].Tags...)
		want := cp(i.Tags)
		sort.Strings(got)
		sort.Strings(want)
		if strings.Join(got, "\x00") != strings.Join(want, "\x00") {
			c.Monitors = append(c.Monitors, fmt.Sprintf("the cached instance of host %q had tags %q, now %q", i.Host, want, got))
		}
	}
	raws := make([]string, len(in.Filters))
	for i, f := range in.Filters {
		raws[i] = coqRaw(f)
	}
	first := "[], false, []"
	if len(triples) > 0 {
		first = strings.TrimSuffix(strings.TrimPrefix(triples[0], "("), ")")
		triples = triples[1:]
	}
	c.Coq = concCoq(table, in, raws, evIn, evOut, first, triples)
	c.Nontrivial = len(in.Filters) >= 1 && len(cl.Maps) >= 1
	c.Obs = map[string]interface{}{"maps": len(cl.Maps), "instances": len(cl.Instances), "events": len(cl.Events)}
	em.Emit(c)
}

func genCloud(r *hlib.Rand) input {
	in := genInput(r, "main")
	in.Stream = "cloud"
	in.Series, in.Events = []series{}, [][]string{}
	instTags := []string{"region:us", "az:a", "env:prod", "team:x", "role:web"}
	themed := []rawFilter{
		{MM: []string{"global.*"}, EM: []string{}, MT: []string{}, DT: []string{"region:*"}},
		{MM: []string{"noisy.*"}, EM: []string{"noisy.butok.*"}, MT: []string{}, DT: []string{"env:prod", "az:*"}, DropHost: true},
		{MM: []string{}, EM: []string{"global.*", "abc"}, MT: []string{}, DT: []string{"team:*"}},
		{MM: []string{"abc"}, EM: []string{}, MT: []string{}, DT: []string{}, DropMetric: true},
		{MM: []string{"app.*"}, EM: []string{}, MT: []string{"role:web"}, DT: []string{"role:web", "region:us"}},
		{MM: []string{"!noisy.*"}, EM: []string{}, MT: []string{}, DT: []string{"az:a"}},
	}
	fs := []rawFilter{}
	for i, n := 0, r.Range(1, 3); i < n; i++ {
		fs = append(fs, hlib.Pick(r, themed))
	}
	if len(in.Filters) > 0 && r.Chance(1, 3) {
		fs = append(fs, in.Filters[0])
	}
	in.Filters = fs
	if r.Chance(1, 2) { // static tags that overlap the instance tags
		in.Static = append(in.Static, hlib.Pick(r, instTags))
	}
	cl := &cloud{}
	hosts := []string{"10.0.0.1", "10.0.0.2", "h3"}[:r.Range(1, 3)]
	for i, h := range hosts {
		inst := instance{Host: h, ID: fmt.Sprintf("i-%d", i), Spare: hlib.Pick(r, []int{0, 0, 1, 4}), Tags: []string{}}
		if i == 2 && r.Chance(1, 2) {
			inst.Nil = true
		}
		for j, n := 0, r.Range(2, 4); j < n; j++ {
			inst.Tags = append(inst.Tags, hlib.Pick(r, instTags)) // may repeat: the tag stage de-duplicates
		}
		cl.Instances = append(cl.Instances, inst)
	}
	ownTags := []string{"a", "x:1", "region:us", "host:a", "team:y"}
	for m, nm := 0, r.Range(1, 3); m < nm; m++ {
		var ss []series
		used := map[string]bool{}
		ts := int64(100)
		for k, ns := 0, r.Range(3, 9); k < ns; k++ {
			s := series{Type: r.Range(1, 4), Name: hlib.Pick(r, concNames), Src: hlib.Pick(r, append([]string{""}, hosts...)), Tags: []string{}}
			if r.Chance(1, 2) {
				for t, nt := 0, r.Range(1, 2); t < nt; t++ {
					s.Tags = append(s.Tags, hlib.Pick(r, ownTags))
				}
			}
			e := cl.enrich([]series{s})[0]
			key := fmt.Sprintf("%d\x00%s\x00%s", e.Type, e.Name, gostatsd.FormatTagsKey(gostatsd.Source(e.Src), cp(e.Tags)))
			key0 := fmt.Sprintf("in\x00%d\x00%s\x00%s", s.Type, s.Name, gostatsd.FormatTagsKey(gostatsd.Source(s.Src), cp(s.Tags)))
			if used[key] || used[key0] { // one series per key before and after the cloud stage: no merge inside it
				continue
			}
			used[key], used[key0] = true, true
			ts++
			s.TS = ts
			switch gostatsd.MetricType(s.Type) {
			case gostatsd.COUNTER:
				s.CVal = int64(r.Range(1, 100))
			case gostatsd.GAUGE:
				s.GBits = math.Float64bits(float64(r.Range(1, 100)))
			case gostatsd.TIMER:
				s.TVals = []uint64{math.Float64bits(float64(r.Range(1, 9)))}
				s.TSamp = math.Float64bits(1)
			case gostatsd.SET:
				s.Members = []string{hlib.Pick(r, members)}
			}
			ss = append(ss, s)
		}
		cl.Maps = append(cl.Maps, ss)
	}
	for i, n := 0, r.Range(0, 2); i < n; i++ {
		ev := cloudEvent{Host: hlib.Pick(r, append([]string{""}, hosts...)), Tags: []string{}}
		if r.Chance(1, 2) {
			ev.Tags = append(ev.Tags, hlib.Pick(r, ownTags))
		}
		cl.Events = append(cl.Events, ev)
	}
	in.Cloud = cl
	return in
}

func main() {
	logrus.SetOutput(io.Discard) // NewTagHandlerFromViper logs every filter it loads
	a := hlib.ParseArgs()
	em := hlib.NewEmitter()
	defer em.Close()
	switch a.Mode {
	case "gen":
		r := hlib.NewRand(a.Seed)
		for n := 0; n < a.N; n++ {
			stream := "main"
			if n%5 == 4 {
				stream = "boundary"
			}
			if n%5 == 2 {
				stream = "config"
			}
			rr := r.Fork()
			if n%10 == 5 {
				runCloud(em, genCloud(rr))
				continue
			}
			if n%10 == 0 {
				in := genConcurrent(rr)
				runConcurrent(em, in, in.Conc.Rounds)
				continue
			}
			in := genInput(rr, stream)
			if stream == "config" {
				in.Config = toConfig(rr, in.Filters, rr.Chance(1, 8))
				in.Filters = []rawFilter{}
			}
			runOne(em, in)
		}
	case "run":
		for _, raw := range a.Inputs {
			var in input
			if err := json.Unmarshal(raw, &in); err != nil {
				fmt.Fprintln(os.Stderr, "bad input:", err)
				os.Exit(2)
			}
			if in.Conc != nil {
				runConcurrent(em, in, 10*in.Conc.Rounds) // a replay cannot force the interleaving: try longer
				continue
			}
			if in.Cloud != nil {
				runCloud(em, in)
				continue
			}
			runOne(em, in)
		}
	}
}
