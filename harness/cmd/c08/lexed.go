// Datapoints produced the way the server produces them: a LINE goes through the real lexer with
// its metric pool (verifhooks.LineLexer), the parser's fix-ups (timestamp, source) are applied,
// the whole batch is lexed first and then folded through MetricMap.Receive, which calls Done()
// and returns each *Metric - and its Tags buffer - to the pool (pkg/statsd/parser.go Run).  A
// later batch therefore REUSES the buffers of an earlier one: anything that kept a reference to a
// metric's Tags instead of a copy sees the tags of unrelated later lines.
package main

import (
	"fmt"
	"math"
	"strconv"
	"strings"

	"github.com/atlassian/gostatsd"
	"github.com/atlassian/gostatsd/verifhooks"

	"verifharness/mmgen"
)

const lexEstimatedTags = 4

var typeCode = map[gostatsd.MetricType]string{gostatsd.COUNTER: "c", gostatsd.GAUGE: "g", gostatsd.TIMER: "ms", gostatsd.SET: "s"}

func lineOf(d mmgen.Dp) string {
	var b strings.Builder
	b.WriteString(d.Name)
	b.WriteByte(':')
	if gostatsd.MetricType(d.Type) == gostatsd.SET {
		b.WriteString(d.StrVal)
	} else {
		b.WriteString(strconv.FormatFloat(math.Float64frombits(d.Value), 'g', -1, 64))
	}
	b.WriteByte('|')
	b.WriteString(typeCode[gostatsd.MetricType(d.Type)])
	if r := math.Float64frombits(d.Rate); r != 1 {
		b.WriteString("|@" + strconv.FormatFloat(r, 'g', -1, 64))
	}
	if len(d.Tags) > 0 {
		b.WriteString("|#" + strings.Join(d.Tags, ","))
	}
	return b.String()
}

// lexBatch lexes every line of the batch (nothing is handed back to the pool yet), applies the
// parser's fix-ups and returns the metrics together with a snapshot of what each line carried
// (taken now, before any buffer can be recycled): the model is fed the snapshot.
func lexBatch(ll *verifhooks.LineLexer, dps []mmgen.Dp) ([]*gostatsd.Metric, []mmgen.Dp, error) {
	ms := make([]*gostatsd.Metric, 0, len(dps))
	snap := make([]mmgen.Dp, 0, len(dps))
	for _, d := range dps {
		line := lineOf(d)
		m, _, err := ll.LexLine([]byte(line), "")
		if err != nil || m == nil {
			return nil, nil, fmt.Errorf("the lexer rejected the generated line %q: %v", line, err)
		}
		m.Timestamp = gostatsd.Nanotime(d.TS)
		m.Source = gostatsd.Source(d.Source)
		ms = append(ms, m)
		snap = append(snap, mmgen.Dp{Name: m.Name, Type: int(m.Type), Value: math.Float64bits(m.Value), StrVal: m.StringValue,
			Rate: math.Float64bits(m.Rate), Tags: append([]string{}, m.Tags...), Source: string(m.Source), TS: int64(m.Timestamp)})
	}
	return ms, snap, nil
}

// receiveBatch folds the lexed metrics into a fresh map (Receive returns each metric to the pool).
func receiveBatch(ms []*gostatsd.Metric) *gostatsd.MetricMap {
	mm := gostatsd.NewMetricMap(false)
	for _, m := range ms {
		mm.Receive(m)
	}
	return mm
}
